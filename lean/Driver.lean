import PhyModel.Drv.Core
import PhyModel.Drv.C20
/-! Line-protocol driver: one JSON request per line on stdin, one JSON answer per line on stdout.
Run with `lake env lean --run Driver.lean` or as the native executable `driver`.  Requests the
model does not understand are answered `{"err": ...}`, never defaulted.  Every handler module under
`PhyModel/Drv/` contributes one entry to `handlers`. -/
open Lean PhyModel PhyModel.Drv

def handlers : List Handler := [
  handleCore,
  handleC20
]

def handle (j : Json) : Except String Json := do
  let op ← j.getObjValAs? String "op"
  let rec go : List Handler → Except String Json
    | [] => throw s!"bad-op {op}"
    | h :: hs => match h op j with
      | some r => r
      | none => go hs
  go handlers

partial def loop (h : IO.FS.Stream) (out : IO.FS.Stream) : IO Unit := do
  let line ← h.getLine
  if line.isEmpty then return ()
  let t := line.trimAscii.toString
  if t.isEmpty then loop h out else
  let ans := match Json.parse t with
    | .error e => Json.mkObj [("err", Json.str s!"parse: {e}")]
    | .ok j => match handle j with
      | .ok r => Json.mkObj [("ok", r)]
      | .error e => Json.mkObj [("err", Json.str e)]
  out.putStrLn ans.compress
  out.flush
  loop h out

def main : IO Unit := do
  let i ← IO.getStdin
  let o ← IO.getStdout
  loop i o
