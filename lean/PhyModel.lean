import PhyModel.Proofs.ASMC5
import PhyModel.Proofs.Gibbs
import PhyModel.Proofs.Consensus
import PhyModel.Proofs.LikIso
import PhyModel.Proofs.OrdersProofs6
import PhyModel.Proofs.MapProofs
import PhyModel.Proofs.CacheProofs
import PhyModel.Props.C02
