def hello := "world"
