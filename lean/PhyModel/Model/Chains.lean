/-! Import-free model of the multi-chain driver of `phyclone/run.py: run` (C18).

Everything that happens *inside* a chain is an arbitrary function `body` of the generator the chain
was handed (data and options are fixed parameters of `body`) and of the chain number (used for
printing only in the code, but nothing here relies on that).  What is modelled is the wiring around
it, quirks included:

* `rng_main = default_rng(seed)`; after `load_data` (which may draw from it) `main` is its state;
* `num_chains == 1`: the chain runs in the main process **on `rng_main` itself**, and the result is
  stored under the literal key `0`;
* otherwise `rng_list = rng_main.spawn(num_chains)`, chain `i` is submitted with `rng_list[i]` and
  chain number `i`; the futures are consumed in **completion order** (`as_completed`) and stored in
  a dict under the chain number *carried in the result* (`result["chain_num"]`).

OS scheduling appears only as the completion order `ord` (a list of future indices); the model
cannot exhibit anything else about it (shared state between workers, wall clock, hash seeds). -/
namespace PhyModel.Chains

/-- what a worker hands back: `{"chain_num": …, "trace": …, …}` -/
structure ChainResult (R : Type) where
  chainNum : Nat
  trace : R
deriving Repr, DecidableEq

/-- `run_phyclone_chain(…, rng, …, chain_num, …)`: an arbitrary trace, the chain number carried back -/
def runChain {G R : Type} (body : G → Nat → R) (g : G) (n : Nat) : ChainResult R :=
  { chainNum := n, trace := body g n }

/-- the generators the chains get: the main one itself for a single chain, spawned children otherwise -/
def chainGens {G : Type} (spawn : G → Nat → List G) (main : G) (k : Nat) : List G :=
  if k = 1 then [main] else spawn main k

/-- `[pool.submit(run_phyclone_chain, …, rng, …, chain_num, …) for chain_num, rng in enumerate(rng_list)]`
(`n` is the running `enumerate` counter); a future is identified with the value it will hold -/
def submitFrom {G R : Type} (body : G → Nat → R) (n : Nat) : List G → List (ChainResult R)
  | [] => []
  | g :: gs => runChain body g n :: submitFrom body (n + 1) gs

/-- Python `d[k] = v` on an insertion-ordered dict: overwrite in place or append -/
def insert {V : Type} (m : List (Nat × V)) (k : Nat) (v : V) : List (Nat × V) :=
  match m with
  | [] => [(k, v)]
  | (k', v') :: t => if k' = k then (k, v) :: t else (k', v') :: insert t k v

/-- the `for future in as_completed(chain_results)` loop: `results[result["chain_num"]] = result` -/
def collect {R : Type} (done : List (ChainResult R)) : List (Nat × ChainResult R) :=
  done.foldl (fun m r => insert m r.chainNum r) []

/-- the futures in the order in which they complete; `ord` lists future indices -/
def completed {R : Type} (futs : List (ChainResult R)) (ord : List Nat) : List (ChainResult R) :=
  ord.filterMap fun i => futs[i]?

/-- the `results` dict of `run` (insertion order = completion order) -/
def run {G R : Type} (spawn : G → Nat → List G) (body : G → Nat → R) (main : G) (k : Nat)
    (ord : List Nat) : List (Nat × ChainResult R) :=
  if k = 1 then [(0, runChain body main 0)]
  else collect (completed (submitFrom body 0 (spawn main k)) ord)

/-- `ProcessPoolExecutor(max_workers=0)` raises `ValueError`; the driver rejects it likewise -/
def validChains (k : Nat) : Bool := k ≥ 1

/-- is `ord` a complete schedule of `k` futures (each index exactly once)? -/
def isSchedule (k : Nat) (ord : List Nat) : Bool :=
  ord.length == k && (List.range k).all fun i => ord.contains i

end PhyModel.Chains
