import PhyModel.Model.Density
/-! Import-free executable model of `phyclone.tree.Tree` / `TreeNode` *as a store* (C06, C07, C15):
the labelled forest with per-node payloads (graph index, name, data-point set, cached `log_p`,
`log_r` in the probability domain), the two maps name -> index and index -> name, the `_data` map
(with the outlier key `-1`) and `_last_node_added_to`.  One definition per Python method; an
operation returns `none` where the Python raises (KeyError, failed `assert`, rustworkx error).

What is structural here: graph shape (each clone has one parent by construction; the explicit digraph model
`Model/Graph.lean` and the `forest_*` / `graph_*` theorems of `Props/C07.lean` cover shape where it is not structural);
*modelled, not verified*: rustworkx index allocation (the model allocates `1 + max index`; the
correspondence compares stores up to a bijection of indices and names), DFS visiting order.
The virtual root always has graph index 0 and the name "root"; its entries in the two maps are
implicit. -/
namespace PhyModel.Store
open PhyModel PhyModel.Orders

/-- payload of a clone (`TreeNode` + its graph position) -/
structure NodeRec where
  idx : Nat
  name : Int
  dps : List Nat
  p : List Vec
  r : List Vec

/-- first-child / next-sibling forest of payloads -/
inductive SF where
  | nil
  | cons (n : NodeRec) (kids : SF) (sibs : SF)

namespace SF

/-- payloads in preorder -/
def recs : SF → List NodeRec
  | nil => []
  | cons n k s => n :: (recs k ++ recs s)

def names (f : SF) : List Int := f.recs.map (·.name)
def idxs (f : SF) : List Nat := f.recs.map (·.idx)

def numNodes : SF → Nat
  | nil => 0
  | cons _ k s => 1 + numNodes k + numNodes s

def rootRecs : SF → List NodeRec
  | nil => []
  | cons n _ s => n :: rootRecs s

def isNil : SF → Bool
  | nil => true
  | cons _ _ _ => false

/-- concatenate two sibling chains -/
def append : SF → SF → SF
  | nil, g => g
  | cons n k s, g => cons n k (append s g)

/-- forget everything but the data-point sets -/
def toDF : SF → DF
  | nil => .nil
  | cons n k s => .cons n.dps (toDF k) (toDF s)

def mapRecs (g : NodeRec → NodeRec) : SF → SF
  | nil => nil
  | cons n k s => cons (g n) (mapRecs g k) (mapRecs g s)

/-- the node with graph index `i` and its children -/
def findSub (i : Nat) : SF → Option (NodeRec × SF)
  | nil => none
  | cons n k s => if n.idx = i then some (n, k) else
      match findSub i k with
      | some x => some x
      | none => findSub i s

/-- delete node `i` together with its descendants -/
def removeSub (i : Nat) : SF → SF
  | nil => nil
  | cons n k s => if n.idx = i then s else cons n (removeSub i k) (removeSub i s)

/-- make the top-level trees of `g` children of node `pi` -/
def graftAt (pi : Nat) (g : SF) : SF → SF
  | nil => nil
  | cons n k s => if n.idx = pi then cons n (append g k) s else cons n (graftAt pi g k) (graftAt pi g s)

/-- payload of the parent of node `i`: `none` = not found, `some none` = the virtual root -/
def parentIn (i : Nat) (par : Option NodeRec) : SF → Option (Option NodeRec)
  | nil => none
  | cons n k s => if n.idx = i then some par else
      match parentIn i (some n) k with
      | some x => some x
      | none => parentIn i par s

/-- split the top-level trees into those whose index is in `is` and the rest -/
def takeRoots (is : List Nat) : SF → SF × SF
  | nil => (nil, nil)
  | cons n k s =>
    let tr := takeRoots is s
    if is.contains n.idx then (cons n k tr.1, tr.2) else (tr.1, cons n k tr.2)

def maxIdx : SF → Nat
  | nil => 0
  | cons n k s => max n.idx (max (maxIdx k) (maxIdx s))

end SF

/-! ### cached vectors -/

def ones (G : Nat) : Vec := (List.range G).map fun _ => 1
def pdiv (G : Nat) (a b : Vec) : Vec := (List.range G).map fun k => getQ a k / getQ b k

/-- convolution of the children's *cached* `r` vectors (sample `s`) -/
def Dc (G : Nat) (s : Nat) : SF → Vec
  | .nil => delta0 G
  | .cons n _ sb => conv G (n.r.getD s []) (Dc G s sb)

/-- `TreeNode.update_node_from_child_r_vals`: `r = p ⊙ S(children)`.  (With no children the code
copies `p`; `prefixSum δ₀` is the all-ones vector, so this is the same vector of length G.) -/
def recompR (dt : Data) (n : NodeRec) (kids : SF) : List Vec :=
  (List.range dt.S).map fun s => pmul dt.G (n.p.getD s []) (prefixSum dt.G (Dc dt.G s kids))

def priorVec (dt : Data) : Vec := (List.range dt.G).map fun _ => dt.prior

/-- the virtual root's `log_r` -/
def recompRoot (dt : Data) (f : SF) : List Vec :=
  (List.range dt.S).map fun s => pmul dt.G (priorVec dt) (prefixSum dt.G (Dc dt.G s f))

/-- `Tree.update` : recompute every `r` bottom-up from the `p`s -/
def updAll (dt : Data) : SF → SF
  | .nil => .nil
  | .cons n k s =>
    let k' := updAll dt k
    .cons { n with r := recompR dt n k' } k' (updAll dt s)

/-- recompute `r` on the path from node `i` (inclusive) up to the top level; `false` = not found -/
def updPath (dt : Data) (i : Nat) : SF → SF × Bool
  | .nil => (.nil, false)
  | .cons n k s =>
    if n.idx = i then (.cons { n with r := recompR dt n k } k s, true)
    else
      let rk := updPath dt i k
      if rk.2 then (.cons { n with r := recompR dt n rk.1 } rk.1 s, true)
      else
        let rs := updPath dt i s
        (.cons n k rs.1, rs.2)

def mulData (dt : Data) (v : List Vec) (dp : Nat) : List Vec :=
  (List.range dt.S).map fun s => pmul dt.G (v.getD s []) (dt.L dp s)

def divData (dt : Data) (v : List Vec) (dp : Nat) : List Vec :=
  (List.range dt.S).map fun s => pdiv dt.G (v.getD s []) (dt.L dp s)

/-- a fresh `TreeNode`: `log_p = log prior`, `log_r = 0` -/
def freshRec (dt : Data) (idx : Nat) (name : Int) : NodeRec :=
  { idx := idx, name := name, dps := [],
    p := (List.range dt.S).map fun _ => priorVec dt,
    r := (List.range dt.S).map fun _ => ones dt.G }

/-- `TreeNode.add_data_point(_list)`: asserts disjointness, multiplies both `p` and `r` -/
def recAdd (dt : Data) (n : NodeRec) (dps : List Nat) : Option NodeRec :=
  dps.foldlM (fun (n : NodeRec) dp =>
    if n.dps.contains dp then none
    else some { n with dps := n.dps ++ [dp], p := mulData dt n.p dp, r := mulData dt n.r dp }) n

/-- `TreeNode.remove_data_point`: asserts membership, divides `p` only -/
def recRemove (dt : Data) (n : NodeRec) (dp : Nat) : Option NodeRec :=
  if n.dps.contains dp then some { n with dps := n.dps.erase dp, p := divData dt n.p dp } else none

/-! ### association lists (Python dicts, insertion ordered) -/

def alSet {κ ν} [BEq κ] (m : List (κ × ν)) (k : κ) (v : ν) : List (κ × ν) :=
  if m.any (·.1 == k) then m.map (fun e => if e.1 == k then (k, v) else e) else m ++ [(k, v)]

def alDel {κ ν} [BEq κ] (m : List (κ × ν)) (k : κ) : List (κ × ν) := m.filter (fun e => !(e.1 == k))

def alHas {κ ν} [BEq κ] (m : List (κ × ν)) (k : κ) : Bool := m.any (·.1 == k)

/-! ### the store -/

/-- the outlier key of `_data` -/
def outKey : Int := -1

structure Store where
  forest : SF
  rootR : List Vec
  nodeIdx : List (Int × Nat)
  nodeIdxRev : List (Nat × Int)
  data : List (Int × List Nat)
  last : Option Int

namespace Store

/-- `Tree(grid_size)`: virtual root only, `log_r = 0` -/
def init (dt : Data) : Store :=
  { forest := .nil, rootR := (List.range dt.S).map fun _ => ones dt.G,
    nodeIdx := [], nodeIdxRev := [], data := [], last := none }

def dataOf (s : Store) (name : Int) : List Nat := (s.data.lookup name).getD []
def outliers (s : Store) : List Nat := s.dataOf outKey
def numNodes (s : Store) : Nat := s.forest.numNodes
/-- `Tree.nodes` (payload names) -/
def nodes (s : Store) : List Int := s.forest.names
/-- `Tree.roots` -/
def roots (s : Store) : List Int := s.forest.rootRecs.map (·.name)
def fresh (s : Store) : Nat := 1 + s.forest.maxIdx

/-- `Tree.labels` : data index -> node name, from `_data` -/
def labels (s : Store) : List (Nat × Int) := s.data.flatMap fun e => e.2.map fun d => (d, e.1)

/-- abstraction: the tree up to names, indices and caches -/
def abs (s : Store) : DF × List Nat := (s.forest.toDF, s.outliers)

/-- replace the payload of node `i` -/
def setRec (i : Nat) (g : NodeRec → NodeRec) (f : SF) : SF :=
  f.mapRecs fun n => if n.idx = i then g n else n

def recAt (s : Store) (i : Nat) : Option NodeRec := (s.forest.findSub i).map (·.1)

/-- `Tree._update_path_to_root(source)`; `none` = the virtual root -/
def updatePathToRoot (dt : Data) (s : Store) (src : Option Int) : Option Store :=
  match src with
  | none => some { s with rootR := recompRoot dt s.forest }
  | some name => do
    let i ← s.nodeIdx.lookup name
    let res := updPath dt i s.forest
    if !res.2 then none
    else if s.nodeIdxRev.lookup i != some name then none
    else some { s with forest := res.1, rootR := recompRoot dt res.1 }

/-- `Tree.get_parent(node)` for a clone: `some none` = the virtual root -/
def getParent (s : Store) (name : Int) : Option (Option Int) := do
  let i ← s.nodeIdx.lookup name
  let p ← s.forest.parentIn i none
  pure (p.map (·.name))

/-- `Tree.get_children(node)` -/
def getChildren (s : Store) (name : Int) : Option (List Int) := do
  let i ← s.nodeIdx.lookup name
  let x ← s.forest.findSub i
  pure (x.2.rootRecs.map (·.name))

/-- `Tree._is_data_point_in_tree` -/
def isDataPointInTree (s : Store) (dp : Nat) : Bool :=
  s.forest.recs.any (fun n => n.dps.contains dp) || s.outliers.contains dp

def appendData (s : Store) (name : Int) (dps : List Nat) : List (Int × List Nat) :=
  alSet s.data name (s.dataOf name ++ dps)

/-- reading `self._data[name]` (a `defaultdict(list)`) creates the key: `Tree.__eq__` / `__hash__`
(through `GraphToCladesVisitor`) and `get_subtree` do this for every clone they visit.  Only a clone
made by `create_root_node(children, data=[])` that never received a data point lacks its key. -/
def touch (s : Store) (names : List Int) : Store :=
  { s with data := names.foldl (fun d nm => if alHas d nm then d else d ++ [(nm, [])]) s.data }

/-- `Tree.create_root_node(children, data)`; the new clone is named `num_nodes` -/
def createRootNode (dt : Data) (s : Store) (children : List Int) (data : List Nat) :
    Option (Store × Int) := do
  let name : Int := (s.numNodes : Int)
  let idx := s.fresh
  let n0 := freshRec dt idx name
  let n1 ← recAdd dt n0 data
  let nodeIdx := alSet s.nodeIdx name idx
  let nodeIdxRev := alSet s.nodeIdxRev idx name
  let dataM := if data.isEmpty then s.data else appendData s name data
  let cis ← children.mapM fun c => nodeIdx.lookup c
  let tr := s.forest.takeRoots cis
  if tr.1.rootRecs.length != cis.length then none
  else
    let f := SF.cons n1 tr.1 tr.2
    let s1 : Store := { s with forest := f, nodeIdx := nodeIdx, nodeIdxRev := nodeIdxRev,
                                data := dataM, last := some name }
    let s2 ← updatePathToRoot dt s1 (some name)
    pure (s2, name)

/-- `Tree.add_data_point_to_node(dp, node)` (`node = -1`: the outliers) -/
def addDataPointToNode (dt : Data) (s : Store) (dp : Nat) (node : Int) : Option Store := do
  if s.isDataPointInTree dp then none
  else
    let s1 : Store := { s with data := appendData s node [dp], last := some node }
    if node == outKey then pure s1
    else
      let i ← s1.nodeIdx.lookup node
      let n ← s1.recAt i
      let n' ← recAdd dt n [dp]
      let s2 : Store := { s1 with forest := setRec i (fun _ => n') s1.forest }
      let par ← s2.getParent node
      updatePathToRoot dt s2 par

/-- `Tree.remove_data_point_from_node(dp, node)` -/
def removeDataPointFromNode (dt : Data) (s : Store) (dp : Nat) (node : Int) : Option Store := do
  if !(s.dataOf node).contains dp then none
  else
    let s1 : Store := { s with data := alSet s.data node ((s.dataOf node).erase dp) }
    if node == outKey then pure s1
    else
      let i ← s1.nodeIdx.lookup node
      let n ← s1.recAt i
      let n' ← recRemove dt n dp
      let s2 : Store := { s1 with forest := setRec i (fun _ => n') s1.forest }
      updatePathToRoot dt s2 (some node)

/-- `Tree.remove_data_point_from_outliers(dp)` -/
def removeDataPointFromOutliers (s : Store) (dp : Nat) : Option Store :=
  if !(s.outliers).contains dp then none
  else some { s with data := alSet s.data outKey (s.outliers.erase dp) }

/-- give every payload of `f` a fresh graph index, starting at `start`, in preorder -/
def reindex : SF → Nat → SF × Nat
  | .nil, c => (.nil, c)
  | .cons n k s, c =>
    let rk := reindex k (c + 1)
    let rs := reindex s rk.2
    (.cons { n with idx := c } rk.1 rs.1, rs.2)

/-- `Tree.get_subtree(subtree_root)`; `none` = the virtual root (a copy) -/
def getSubtree (dt : Data) (s : Store) (subRoot : Option Int) : Option Store :=
  match subRoot with
  | none => some s
  | some name => do
    let i ← s.nodeIdx.lookup name
    let x ← s.forest.findSub i
    let f0 := (reindex (SF.cons x.1 x.2 .nil) 1).1
    let f := updAll dt f0
    pure { forest := f, rootR := recompRoot dt f,
           nodeIdx := f.recs.map fun n => (n.name, n.idx),
           nodeIdxRev := f.recs.map fun n => (n.idx, n.name),
           data := f.recs.map fun n => (n.name, s.dataOf n.name),
           last := none }

/-- a list of data indices as a set: sorted, duplicate free -/
def normSet (l : List Nat) : List Nat := Forest.sortNat l.eraseDups

/-- all data points listed in `_data` for the clones of a forest -/
def below (s : Store) : SF → List Nat
  | .nil => []
  | .cons n k sb => s.dataOf n.name ++ (below s k ++ below s sb)

/-- `Tree.get_clades()`: for every clone the set of data points `_data` lists for it and for its
descendants (`GraphToCladesVisitor`) -/
def cladeList (s : Store) : SF → List (List Nat)
  | .nil => []
  | .cons n k sb => normSet (s.dataOf n.name ++ below s k) :: (cladeList s k ++ cladeList s sb)

/-- the key of `Tree.__eq__` / `__hash__`: (frozenset of clades, frozenset of outliers).  For a
well-formed tree without empty clones this determines the tree (`Props/C03.lean`, `treeKey_iff`);
two clones with the same clade (possible only with an empty clone) collapse, as in the code. -/
def key (s : Store) : List (List Nat) × List Nat := (cladeList s s.forest, normSet s.outliers)

def subsetB (a b : List (List Nat)) : Bool := a.all fun c => b.contains c

def keyEq (a b : Store) : Bool :=
  subsetB a.key.1 b.key.1 && subsetB b.key.1 a.key.1 && a.key.2 == b.key.2

/-- `Tree.remove_subtree(subtree)` -/
def removeSubtree (dt : Data) (s sub : Store) : Option Store :=
  if keyEq sub s then some (init dt)
  else do
    if sub.forest.rootRecs.length != 1 then none
    let subRoot ← sub.roots.head?
    let par ← s.getParent subRoot
    let subRootIdx ← s.nodeIdx.lookup subRoot
    -- delete the bookkeeping of every node named in the subtree's graph
    let s1 ← sub.nodes.foldlM (fun (st : Store) nm => do
      if !alHas st.data nm then none
      let ci ← st.nodeIdx.lookup nm
      if !alHas st.nodeIdxRev ci then none
      pure { st with data := alDel st.data nm, nodeIdx := alDel st.nodeIdx nm,
                     nodeIdxRev := alDel st.nodeIdxRev ci }) s
    let s2 : Store := { s1 with forest := s1.forest.removeSub subRootIdx }
    updatePathToRoot dt s2 par

/-- `Tree._relabel_grafted_subtree_nodes` on the grafted payloads (in graph-index order):
a name already used as a key of `_data` is replaced by the next unused integer -/
def relabelGrafted (sub : Store) :
    List NodeRec → Int → List (Int × List Nat) → List (Int × Nat) → List (Nat × Int) → List (Nat × Int) →
    (List (Int × List Nat) × List (Int × Nat) × List (Nat × Int) × List (Nat × Int))
  | [], _, data, ni, nir, ren => (data, ni, nir, ren)
  | n :: rest, firstLabel, data, ni, nir, ren =>
    let clash := alHas data n.name
    let firstLabel' := if clash then firstLabel + 1 else firstLabel
    let nm := if clash then firstLabel' else n.name
    relabelGrafted sub rest firstLabel' (alSet data nm (sub.dataOf n.name)) (alSet ni nm n.idx)
      (alSet nir n.idx nm) (ren ++ [(n.idx, nm)])

def listMaxInt : List Int → Int → Int
  | [], m => m
  | a :: l, m => listMaxInt l (if a > m then a else m)

/-- `Tree.add_subtree(subtree, parent)`; `parent = none`: the virtual root -/
def addSubtree (dt : Data) (s sub : Store) (parent : Option Int) : Option Store := do
  let g := (reindex sub.forest s.fresh).1
  let f1 ← match parent with
    | none => pure (SF.append g s.forest)
    | some pn => do
      let pi ← s.nodeIdx.lookup pn
      let _ ← s.forest.findSub pi
      pure (SF.graftAt pi g s.forest)
  let firstLabel := listMaxInt (f1.names ++ sub.nodes) (-1)
  let (data, ni, nir, ren) := relabelGrafted sub g.recs firstLabel s.data s.nodeIdx s.nodeIdxRev []
  let f2 := f1.mapRecs fun n => match ren.lookup n.idx with
    | some nm => { n with name := nm }
    | none => n
  let s1 : Store := { forest := f2, rootR := s.rootR, nodeIdx := ni, nodeIdxRev := nir,
                      data := data, last := sub.last }
  -- `parent_node.node_id` is read from the payload
  match parent with
  | none => updatePathToRoot dt s1 none
  | some pn => do
    let pi ← s.nodeIdx.lookup pn
    let pr ← s1.recAt pi
    updatePathToRoot dt s1 (some pr.name)

/-- preorder relabelling of the payloads: returns the forest, the next label and the renaming -/
def relabelSF : SF → Int → SF × Int × List (Int × Int)
  | .nil, c => (.nil, c, [])
  | .cons n k s, c =>
    let rk := relabelSF k (c + 1)
    let rs := relabelSF s rk.2.1
    (.cons { n with name := c } rk.1 rs.1, rs.2.1, (n.name, c) :: (rk.2.2 ++ rs.2.2))

/-- `Tree.relabel_nodes()`; `_last_node_added_to` is left as it is -/
def relabelNodes (s : Store) : Store :=
  let r := relabelSF s.forest 0
  let f := r.1
  { s with forest := f,
           nodeIdx := f.recs.map fun n => (n.name, n.idx),
           nodeIdxRev := f.recs.map fun n => (n.idx, n.name),
           data := (outKey, s.outliers) :: r.2.2.map fun (o, nw) => (nw, s.dataOf o) }

/-- `Tree.update()` -/
def update (dt : Data) (s : Store) : Store :=
  let f := updAll dt s.forest
  { s with forest := f, rootR := recompRoot dt f }

/-! ### dictionary form -/

structure TDict where
  edges : List (Nat × Nat)
  nodeIdx : List (Int × Nat)
  nodeIdxRev : List (Nat × Int)
  data : List (Int × List Nat)
  last : Option Int

def edgesOf (par : Nat) : SF → List (Nat × Nat)
  | .nil => []
  | .cons n k s => (par, n.idx) :: (edgesOf n.idx k ++ edgesOf par s)

/-- `Tree.to_dict()` -/
def toDict (s : Store) : TDict :=
  { edges := edgesOf 0 s.forest, nodeIdx := s.nodeIdx, nodeIdxRev := s.nodeIdxRev,
    data := s.data, last := s.last }

/-- rebuild the forest below graph index `par` from an edge list; payloads are created from the
`_data` entry of the name registered for the index (`none`: payload would be `None` in Python) -/
def buildSF (dt : Data) (d : TDict) : Nat → List Nat → Option SF
  | 0, _ => some .nil
  | _, [] => some .nil
  | fuel+1, c :: cs => do
    let name ← d.nodeIdxRev.lookup c
    if d.nodeIdx.lookup name != some c then none
    let dl ← d.data.lookup name
    let n ← recAdd dt (freshRec dt c name) dl
    let kids ← buildSF dt d fuel ((d.edges.filter (·.1 = c)).map (·.2))
    let sibs ← buildSF dt d fuel cs
    pure (.cons n kids sibs)

/-- `Tree.from_dict(tree_dict)` -/
def fromDict (dt : Data) (d : TDict) : Option Store := do
  let f0 ← if d.edges.isEmpty then some SF.nil
           else
             -- every clone key of `node_data` must name a graph position that exists
             if !(d.data.all fun e => e.1 == outKey ||
                   (match d.nodeIdx.lookup e.1 with
                    | some i => d.edges.any (·.2 = i)
                    | none => false)) then none
             else buildSF dt d (d.edges.length + 1) ((d.edges.filter (·.1 = 0)).map (·.2))
  let f := updAll dt f0
  pure { forest := f, rootR := recompRoot dt f, nodeIdx := d.nodeIdx, nodeIdxRev := d.nodeIdxRev,
         data := d.data, last := d.last }

/-! ### densities read from the cache -/

def dataOneC (dt : Data) (s : Store) : Rat :=
  if s.forest.isNil then 1 else prodL ((List.range dt.S).map fun k => getQ (s.rootR.getD k []) (dt.G - 1))

def dataMargC (dt : Data) (s : Store) : Rat :=
  if s.forest.isNil then 1 else prodL ((List.range dt.S).map fun k => vsum (s.rootR.getD k []))

/-- `TreeJointDistribution.log_p_one(tree)` as the code evaluates it: sizes from `_data`, shape from
the graph, likelihood from the root's cached vector -/
def pOneC (dt : Data) (α : Rat) (s : Store) : Rat :=
  Density.common dt α s.forest.toDF s.outliers * Density.topoOne s.forest.toDF * dataOneC dt s

def pMargC (dt : Data) (α : Rat) (s : Store) : Rat :=
  Density.common dt α s.forest.toDF s.outliers * Density.topoMarg s.forest.toDF * dataMargC dt s

/-! ### decidable well-formedness and cache validity (the invariants of C07 and C06) -/

def nodupB {α} [BEq α] : List α → Bool
  | [] => true
  | a :: l => !l.contains a && nodupB l

/-- the four views agree -/
def wfB (s : Store) : Bool :=
  let rs := s.forest.recs
  nodupB (rs.map (·.name)) && nodupB (rs.map (·.idx)) && rs.all (fun n => n.idx != 0 && decide (0 ≤ n.name)) &&
  -- name -> index and index -> name are exactly the payload pairs
  nodupB (s.nodeIdx.map (·.1)) && nodupB (s.nodeIdxRev.map (·.1)) &&
  s.nodeIdx.length == rs.length && s.nodeIdxRev.length == rs.length &&
  rs.all (fun n => s.nodeIdx.lookup n.name == some n.idx && s.nodeIdxRev.lookup n.idx == some n.name) &&
  -- `_data` keys are clone names or the outlier key; payload sets agree with `_data`
  nodupB (s.data.map (·.1)) &&
  s.data.all (fun e => e.1 == outKey || rs.any (fun n => n.name == e.1)) &&
  rs.all (fun n => Forest.sortNat n.dps == Forest.sortNat (s.dataOf n.name)) &&
  -- every data point sits in exactly one place
  nodupB (s.labels.map (·.1))

def vecsEq (a b : List Vec) : Bool := a == b

/-- every cached vector is what a rebuild from the data would give -/
def cacheOKsf (dt : Data) : SF → Bool
  | .nil => true
  | .cons n k s =>
    vecsEq n.p ((List.range dt.S).map fun sm => nodeP dt sm n.dps) &&
    vecsEq n.r (recompR dt n k) && cacheOKsf dt k && cacheOKsf dt s

def cacheOKB (dt : Data) (s : Store) : Bool :=
  cacheOKsf dt s.forest && (s.forest.isNil || vecsEq s.rootR (recompRoot dt s.forest))

end Store

/-! ### histories over several live handles -/

inductive Op where
  | create (h : Nat) (children : List Int) (data : List Nat)
  /-- `create_root_node(children)` immediately followed by `add_data_point_to_node(dp, new_node)`
  (the retained-path construction of `ConditionalSMCSampler._get_constrained_path`) -/
  | createAdd (h : Nat) (children : List Int) (dp : Nat)
  | addDp (h : Nat) (dp : Nat) (node : Int)
  | rmDp (h : Nat) (dp : Nat) (node : Int)
  | rmOut (h : Nat) (dp : Nat)
  | getSub (h : Nat) (root : Option Int)
  | rmSub (h : Nat) (hsub : Nat)
  | addSub (h : Nat) (hsub : Nat) (parent : Option Int)
  | relabel (h : Nat)
  | copy (h : Nat)
  | dictRT (h : Nat)
  | update (h : Nat)
  | fresh

abbrev Sys := List Store

def setH (sys : Sys) (h : Nat) (s : Store) : Sys := sys.set h s

/-- one edit; `none` = the Python raises -/
def step (dt : Data) (sys : Sys) : Op → Option Sys
  | .create h ch d => do let s ← sys[h]?; let r ← s.createRootNode dt ch d; pure (setH sys h r.1)
  | .createAdd h ch dp => do
      let s ← sys[h]?
      let r ← s.createRootNode dt ch []
      let r2 ← r.1.addDataPointToNode dt dp r.2
      pure (setH sys h r2)
  | .addDp h dp nd => do let s ← sys[h]?; let r ← s.addDataPointToNode dt dp nd; pure (setH sys h r)
  | .rmDp h dp nd => do let s ← sys[h]?; let r ← s.removeDataPointFromNode dt dp nd; pure (setH sys h r)
  | .rmOut h dp => do let s ← sys[h]?; let r ← s.removeDataPointFromOutliers dp; pure (setH sys h r)
  | .getSub h rt => do
    let s ← sys[h]?; let r ← s.getSubtree dt rt
    -- `list(self._data[node])` creates missing keys in the source tree as well (not for `root`: a copy)
    pure (setH sys h (if rt.isSome then s.touch r.nodes else s) ++ [r])
  | .rmSub h hs => do
    let s ← sys[h]?; let sb ← sys[hs]?
    -- `subtree == self` reads `_data` of every clone of both trees
    let s' := s.touch s.nodes; let sb' := sb.touch sb.nodes
    let r ← s'.removeSubtree dt sb'; pure (setH (setH sys hs sb') h r)
  | .addSub h hs par => do let s ← sys[h]?; let sb ← sys[hs]?; let r ← s.addSubtree dt sb par; pure (setH sys h r)
  | .relabel h => do let s ← sys[h]?; pure (setH sys h s.relabelNodes)
  | .copy h => do let s ← sys[h]?; pure (sys ++ [s])
  | .dictRT h => do let s ← sys[h]?; let r ← Store.fromDict dt s.toDict; pure (setH sys h r)
  | .update h => do let s ← sys[h]?; pure (setH sys h (s.update dt))
  | .fresh => some (sys ++ [Store.init dt])

def run (dt : Data) (sys : Sys) (ops : List Op) : Option Sys := ops.foldlM (step dt) sys

end PhyModel.Store
