/-! Import-free model of `process_trace/map.py` for one sample (dimension). Values are
log-likelihoods, combined with `+` and compared with `≥` / `>` exactly as the code does. -/
namespace PhyModel.MapDP

abbrev Vec := List Rat
def getQ (v : Vec) (i : Nat) : Rat := v.getD i 0
def getN (v : List Nat) (i : Nat) : Nat := v.getD i 0
def zeros (G : Nat) : Vec := (List.range G).map fun _ => 0

/-- `_compute_log_D_n`, inner loop for a fixed i: scan j = 0..n keeping the *last* j whose value
is `>=` the best so far -/
def scanJ (child prev : Vec) (i : Nat) : Nat → Nat × Rat
  | 0 => (0, getQ child 0 + getQ prev i)
  | j+1 =>
    let cb := scanJ child prev i j
    let val := getQ child (j+1) + getQ prev (i - (j+1))
    if val ≥ cb.2 then (j+1, val) else cb

def dStep (G : Nat) (child prev : Vec) : List Nat × Vec :=
  ((List.range G).map fun i => (scanJ child prev i i).1,
   (List.range G).map fun i => (scanJ child prev i i).2)

/-- `compute_log_S`: running maximum, keeping the *first* arg-max (strict `>`) -/
def scanS (D : Vec) : Nat → Nat × Rat
  | 0 => (0, getQ D 0)
  | j+1 =>
    let cb := scanS D j
    if getQ D (j+1) > cb.2 then (j+1, getQ D (j+1)) else cb

def sStep (G : Nat) (D : Vec) : List Nat × Vec :=
  ((List.range G).map fun j => (scanS D j).1, (List.range G).map fun j => (scanS D j).2)

def vadd (G : Nat) (a b : Vec) : Vec := (List.range G).map fun i => getQ a i + getQ b i

inductive Forest where
  | nil
  | cons (p : Vec) (kids : Forest) (sibs : Forest)

namespace Forest
def size : Forest → Nat
  | nil => 0
  | cons _ k s => k.size + s.size + 1
end Forest

/-- `compute_log_D` over the children of a node, left to right, starting from `acc`
(the code starts from zeros); `log_R_max` of a child is `log_p + log_S_max` -/
def dAll (G : Nat) (acc : Vec) : Forest → Vec
  | .nil => acc
  | .cons p k s =>
    dAll G (dStep G (vadd G p (sStep G (dAll G (zeros G) k)).2) acc).2 s

def nodeR (G : Nat) (p : Vec) (k : Forest) : Vec := vadd G p (sStep G (dAll G (zeros G) k)).2

/-- `_set_max_assignment`: children are visited last to first; each takes
`log_D_choice[i][remaining total]` and the remainder is passed to the previous child.
Returns the preorder index list of the forest and the total left for earlier siblings. -/
def tbForest (G : Nat) (acc : Vec) : Forest → Nat → List Nat × Nat
  | .nil, k => ([], k)
  | .cons p kd s, k =>
    let Rv := vadd G p (sStep G (dAll G (zeros G) kd)).2
    let step := dStep G Rv acc
    let later := tbForest G step.2 s k
    let idx := getN step.1 later.2
    let inner := tbForest G (zeros G) kd (getN (sStep G (dAll G (zeros G) kd)).1 idx)
    (idx :: inner.1 ++ later.1, later.2 - idx)

/-- root of the whole tree is fixed at grid index G-1 (`set_max_assignment`) -/
def mapAssign (G : Nat) (f : Forest) : List Nat :=
  (tbForest G (zeros G) f (getN (sStep G (dAll G (zeros G) f)).1 (G - 1))).1

/-- checker used as the specification: (top-level total, summed log-likelihood) if every clone's
index is at least the sum of its children's -/
def evalM : Forest → List Nat → Option (Nat × Rat)
  | .nil, _ => some (0, 0)
  | .cons _ _ _, [] => none
  | .cons p k s, i :: rest =>
    match evalM k (rest.take k.size), evalM s (rest.drop k.size) with
    | some (tk, vk), some (ts, vs) => if tk ≤ i then some (i + ts, getQ p i + vk + vs) else none
    | _, _ => none

def allAssign (G : Nat) : Nat → List (List Nat)
  | 0 => [[]]
  | n+1 => (List.range G).flatMap fun i => (allAssign G n).map (i :: ·)

end PhyModel.MapDP
