/-! Import-free model: compatible data orders of a forest (C09). -/
namespace PhyModel.Orders

inductive Forest where
  | nil
  | cons (dps : List Nat) (kids : Forest) (sibs : Forest)

namespace Forest
def all : Forest → List Nat
  | nil => []
  | cons d k s => (all k ++ d) ++ all s
def size (f : Forest) : Nat := f.all.length
end Forest

/-- all interleavings of two lists (each keeps its internal order) -/
def inter : List Nat → List Nat → List (List Nat)
  | [], ys => [ys]
  | x :: xs, [] => [x :: xs]
  | x :: xs, y :: ys => (inter xs (y :: ys)).map (x :: ·) ++ (inter (x :: xs) ys).map (y :: ·)

def insertAll (a : Nat) : List Nat → List (List Nat)
  | [] => [[a]]
  | b :: l => (a :: b :: l) :: (insertAll a l).map (b :: ·)

def perms : List Nat → List (List Nat)
  | [] => [[]]
  | a :: l => (perms l).flatMap (insertAll a)

/-- constructive enumeration of the orders compatible with a forest:
descendants before ancestors, own data in any order, sibling subtrees interleaved -/
def orders : Forest → List (List Nat)
  | .nil => [[]]
  | .cons d k s =>
    (orders k).flatMap fun ok => (perms d).flatMap fun pd => (orders s).flatMap fun os =>
      inter (ok ++ pd) os

def allOrders (f : Forest) (out : List Nat) : List (List Nat) :=
  (orders f).flatMap fun o => (perms out).flatMap fun po => inter o po

def fact : Nat → Nat
  | 0 => 1
  | n+1 => (n+1) * fact n

/-- the code's count, in the probability domain (n! / ∏ nᵢ! as a rational) -/
def multinomial (l : List Nat) : Rat :=
  (fact l.sum : Rat) / ((l.map fun x => (fact x : Rat)).foldl (· * ·) 1)

def sizes : Forest → List Nat
  | .nil => []
  | .cons d k s => (k.size + d.length) :: sizes s

/-- product over the top-level trees of their own counts (mirrors `log_count(tree, source=node)`) -/
def prodCounts : Forest → Rat
  | .nil => 1
  | .cons d k s => (prodCounts k * multinomial (sizes k) * (fact d.length : Rat)) * prodCounts s

/-- mirrors `log_count(tree)` at the virtual root, including the outlier interleaving and
(after the repair of F2) the outlier permutations -/
def countCode (f : Forest) (m : Nat) : Rat :=
  prodCounts f * multinomial (sizes f) *
    ((fact (f.size + m) : Rat) / ((fact m : Rat) * (fact f.size : Rat))) * (fact m : Rat)

/-- index of first occurrence -/
def idxOf (a : Nat) : List Nat → Nat
  | [] => 0
  | b :: l => if a = b then 0 else idxOf a l + 1

/-- pairs (a, b): a must come before b (a belongs to a descendant of b's clone) -/
def prec : Forest → List (Nat × Nat)
  | .nil => []
  | .cons d k s => (k.all.flatMap fun a => d.map fun b => (a, b)) ++ prec k ++ prec s

def compatible (f : Forest) (out : List Nat) (σ : List Nat) : Bool :=
  (σ.length == f.size + out.length) &&
  (f.all ++ out).all (fun a => σ.contains a) &&
  (prec f).all (fun ab => idxOf ab.1 σ < idxOf ab.2 σ)

end PhyModel.Orders
