/-! Import-free model of the result tables (C12): `process_trace.get_labels_table`,
`get_clone_table` and the Newick writer `GraphToNewickVisitor`.

* The tree is a labelled first-child / next-sibling forest `LF` (node id, own data point indices)
  plus the outlier list, i.e. what `Tree.labels` / `Tree.to_newick_string` read.
* The per-clone CCF / clonal-prevalence dictionaries (`map.get_map_node_ccfs_and_clonal_prev_dicts`)
  are an *input* here (`Input.ccf`): their correctness is property C10.
* `valid` lists exactly the places where the Python raises (`data[idx]`, `int(name)`,
  `get_group(cluster_id)`, `ccfs[clone][sample index]`, `pd.concat([])`); `table` is defined iff `valid`.
Row order is not modelled (the harness compares sorted rows): pandas' `sort_values` / `groupby`
only permute rows. -/
namespace PhyModel.Table

/-- clone forest with node ids: first child / next sibling -/
inductive LF where
  | nil
  | cons (id : Int) (dps : List Nat) (kids : LF) (sibs : LF)

namespace LF

/-- node ids in preorder -/
def ids : LF → List Int
  | nil => []
  | cons i _ k s => i :: (ids k ++ ids s)

/-- (data point index, clone id) for every data point held by a clone -/
def labels : LF → List (Nat × Int)
  | nil => []
  | cons i d k s => d.map (fun x => (x, i)) ++ (labels k ++ labels s)

/-- all data point indices held by clones -/
def dps : LF → List Nat
  | nil => []
  | cons _ d k s => d ++ (dps k ++ dps s)

def size : LF → Nat
  | nil => 0
  | cons _ _ k s => 1 + size k + size s

end LF

/-- `"a,b,c"` -/
def joinComma : List String → String
  | [] => ""
  | [a] => a
  | a :: l => a ++ "," ++ joinComma l

/-- Newick strings of a sibling list (`GraphToNewickVisitor.finish_vertex`: a node that has children
prints `(children)id`, a leaf prints `id`) -/
def nwkList : LF → List String
  | .nil => []
  | .cons i _ k s =>
    (match nwkList k with
      | [] => toString i
      | ks => "(" ++ joinComma ks ++ ")" ++ toString i) :: nwkList s

/-- `Tree.to_newick_string`: the virtual root is printed as `root` -/
def newick (f : LF) : String :=
  match nwkList f with
  | [] => "root;"
  | ks => "(" ++ joinComma ks ++ ")root;"

/-- one record of the labels table: mutation id, clone id, cluster id (clustered input only) -/
structure Rec where
  mid : String
  clone : Int
  cluster : Option Int
deriving Repr, DecidableEq

/-- one row of the result table -/
structure Row where
  mid : String
  clone : Int
  cluster : Option Int
  sample : String
  ccf : Rat
  prev : Rat
deriving Repr, DecidableEq

structure Input where
  forest : LF
  outs : List Nat
  /-- `data[idx].name`: the mutation id, or the decimal cluster id with a cluster file -/
  names : List String
  samples : List String
  /-- `results[0]["clusters"]`: rows (mutation_id, cluster_id), or `none` without a cluster file -/
  clusters : Option (List (String × Int))
  /-- clone id ↦ (ccf per sample position, clonal prevalence per sample position) -/
  ccf : List (Int × List Rat × List Rat)

/-- `Tree.labels`: every data point of a clone with the clone's id, every outlier with -1 -/
def labelsOf (f : LF) (outs : List Nat) : List (Nat × Int) :=
  f.labels ++ outs.map (fun x => (x, -1))

/-- `Series.unique()`: first occurrences, in order -/
def uniq : List String → List String
  | [] => []
  | a :: l => a :: (uniq l).filter (fun b => b != a)

/-- `clusters.groupby("cluster_id").get_group(c)["mutation_id"].unique()` -/
def group (cl : List (String × Int)) (c : Int) : List String :=
  uniq ((cl.filter (fun r => r.2 == c)).map (fun r => r.1))

def nameOf (names : List String) (i : Nat) : String := names.getD i ""

def digitVal (c : Char) : Option Nat :=
  if 48 ≤ c.toNat ∧ c.toNat ≤ 57 then some (c.toNat - 48) else none

def parseNatChars : List Char → Nat → Option Nat
  | [], acc => some acc
  | c :: cs, acc =>
    match digitVal c with
    | some d => parseNatChars cs (acc * 10 + d)
    | none => none

/-- `int(name)` on the strings `"{}".format(cluster_id)` produces for integer cluster ids: an
optional minus sign and ASCII digits.  (Python's `int` also accepts surrounding blanks, `+`, `_`
and non-ASCII digits; such names cannot come out of the loader and are rejected here.) -/
def parseInt (s : String) : Option Int :=
  match s.toList with
  | [] => none
  | c :: cs =>
    if c = '-' then (if cs.isEmpty then none else (parseNatChars cs 0).map (fun n => -(n : Int)))
    else (parseNatChars (c :: cs) 0).map (fun n => (n : Int))

/-- `int(data[idx].name)` (0 stands in where `valid` fails) -/
def cidOf (names : List String) (i : Nat) : Int := (parseInt (nameOf names i)).getD 0

/-- `get_labels_table` without clusters: one record per labelled data point, then every data point
whose name was not seen, as an outlier -/
def plainRecs (names : List String) (lab : List (Nat × Int)) : List Rec :=
  let recs := lab.map (fun p => { mid := nameOf names p.1, clone := p.2, cluster := none : Rec })
  let seen := recs.map (fun r => r.mid)
  recs ++ (names.filter (fun m => !(seen.contains m))).map
    (fun m => { mid := m, clone := -1, cluster := none : Rec })

/-- `get_labels_table` with clusters: every labelled data point is a cluster, expanded to its
mutations; then every cluster-file row whose mutation was not seen, as an outlier -/
def clusRecs (names : List String) (cl : List (String × Int)) (lab : List (Nat × Int)) : List Rec :=
  let recs := lab.flatMap (fun p =>
    (group cl (cidOf names p.1)).map
      (fun m => { mid := m, clone := p.2, cluster := some (cidOf names p.1) : Rec }))
  let seen := recs.map (fun r => r.mid)
  recs ++ (cl.filter (fun r => !(seen.contains r.1))).map
    (fun r => { mid := r.1, clone := -1, cluster := some r.2 : Rec })

def recsOf (inp : Input) : List Rec :=
  match inp.clusters with
  | none => plainRecs inp.names (labelsOf inp.forest inp.outs)
  | some cl => clusRecs inp.names cl (labelsOf inp.forest inp.outs)

/-- `samples_idx_dict = {k: v for v, k in enumerate(samples)}` then `[sample_id]`: the *last*
position of the sample name (`pos` is the position of the head) -/
def sampleIdxFrom : List String → Nat → String → Option Nat
  | [], _, _ => none
  | a :: l, pos, s =>
    match sampleIdxFrom l (pos + 1) s with
    | some j => some j
    | none => if a = s then some pos else none

def sampleIdx (samples : List String) (s : String) : Nat :=
  (sampleIdxFrom samples 0 s).getD 0

def lookupCcf (ccf : List (Int × List Rat × List Rat)) (c : Int) : Option (List Rat × List Rat) :=
  match ccf with
  | [] => none
  | (k, v) :: r => if k = c then some v else lookupCcf r c

/-- the CCF join of `get_clone_table` for one record and one sample -/
def mkRow (ccf : List (Int × List Rat × List Rat)) (samples : List String) (r : Rec) (s : String) : Row :=
  match lookupCcf ccf r.clone with
  | some (v, w) =>
    { mid := r.mid, clone := r.clone, cluster := r.cluster, sample := s,
      ccf := v.getD (sampleIdx samples s) 0, prev := w.getD (sampleIdx samples s) 0 }
  | none =>
    { mid := r.mid, clone := r.clone, cluster := r.cluster, sample := s, ccf := -1, prev := -1 }

/-- `explode("sample_id")` + the per-(clone, sample) CCF columns -/
def rowsOf (inp : Input) : List Row :=
  (recsOf inp).flatMap (fun r => inp.samples.map (fun s => mkRow inp.ccf inp.samples r s))

/-- `data[idx]` is defined for every labelled data point -/
def validIdx (inp : Input) : Bool :=
  (labelsOf inp.forest inp.outs).all (fun p => p.1 < inp.names.length)

/-- with clusters: `int(name)` parses and `get_group` finds the cluster -/
def validClus (inp : Input) : Bool :=
  match inp.clusters with
  | none => true
  | some cl => (labelsOf inp.forest inp.outs).all (fun p =>
      match parseInt (nameOf inp.names p.1) with
      | none => false
      | some c => cl.any (fun r => r.2 == c))

/-- `ccfs[clone_id][samples_idx_dict[sample_id]]` is in range for every clone that has a row -/
def validCcf (inp : Input) : Bool :=
  (recsOf inp).all (fun r =>
    match lookupCcf inp.ccf r.clone with
    | none => true
    | some (v, w) => inp.samples.all (fun s =>
        sampleIdx inp.samples s < v.length && sampleIdx inp.samples s < w.length))

/-- `pd.concat` of an empty list of groups raises: there must be a record and a sample -/
def validNonempty (inp : Input) : Bool :=
  !(recsOf inp).isEmpty && !inp.samples.isEmpty

def valid (inp : Input) : Bool :=
  validIdx inp && validClus inp && validCcf inp && validNonempty inp

/-- the table, defined exactly when the Python does not raise -/
def table (inp : Input) : Option (List Row) :=
  if valid inp then some (rowsOf inp) else none

end PhyModel.Table
