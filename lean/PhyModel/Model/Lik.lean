/-! Import-free executable model: vectors, forest, D recursion, brute-force spec. -/
namespace PhyModel

abbrev Vec := List Rat

def getQ (v : Vec) (i : Nat) : Rat := v.getD i 0

def sumTo (n : Nat) (f : Nat → Rat) : Rat := ((List.range n).map f).sum

def conv (G : Nat) (a b : Vec) : Vec :=
  (List.range G).map fun k => sumTo (k+1) fun j => getQ a j * getQ b (k - j)

def prefixSum (G : Nat) (a : Vec) : Vec :=
  (List.range G).map fun k => sumTo (k+1) fun j => getQ a j

def pmul (G : Nat) (a b : Vec) : Vec := (List.range G).map fun k => getQ a k * getQ b k

def delta0 (G : Nat) : Vec := (List.range G).map fun k => if k = 0 then 1 else 0

/-- first-child / next-sibling forest; each node carries its own (prior-weighted) data vector -/
inductive Forest where
  | nil
  | cons (p : Vec) (kids : Forest) (sibs : Forest)

namespace Forest
def size : Forest → Nat
  | nil => 0
  | cons _ k s => 1 + k.size + s.size
end Forest

def D (G : Nat) : Forest → Vec
  | .nil => delta0 G
  | .cons p k s => conv G (pmul G p (prefixSum G (D G k))) (D G s)

/-- all index lists of length n with entries < G -/
def allAssign (G : Nat) : Nat → List (List Nat)
  | 0 => [[]]
  | n+1 => (List.range G).flatMap fun i => (allAssign G n).map (i :: ·)

/-- evaluate a preorder index assignment: (sum of top-level indices, product of weights) if feasible -/
def evalA : Forest → List Nat → Option (Nat × Rat)
  | .nil, _ => some (0, 1)
  | .cons _ _ _, [] => none
  | .cons p k s, i :: rest =>
    match evalA k (rest.take k.size), evalA s (rest.drop k.size) with
    | some (tk, wk), some (ts, ws) => if tk ≤ i then some (i + ts, getQ p i * wk * ws) else none
    | _, _ => none

def contrib (f : Forest) (t : Nat) (a : List Nat) : Rat :=
  match evalA f a with
  | some (tot, w) => if tot = t then w else 0
  | none => 0

def specD (G : Nat) (f : Forest) (t : Nat) : Rat :=
  ((allAssign G f.size).map (contrib f t)).sum

end PhyModel
