import PhyModel.Model.MapDP
/-! Import-free: (1) the *specification* side of C10, written structurally and independently of the
dynamic programme of `MapDP` — what it means for a preorder index list to be feasible on a forest,
its top-level total and its objective; (2) the *output* side of `process_trace/map.py`
(`get_map_ccfs`, `get_map_clonal_prev`) in exact arithmetic; (3) the multi-sample wrapper used by
the driver (samples are independent in `map.py`: every array operation is per dimension). -/
namespace PhyModel.MapDP

/-! ### Specification -/

/-- sum of the grid indices of the top-level clones of `f` under the preorder index list `a` -/
def topTotal : Forest → List Nat → Nat
  | .nil, _ => 0
  | .cons _ _ _, [] => 0
  | .cons _ k s, i :: rest => i + topTotal s (rest.drop k.size)

/-- summed per-clone log-likelihood of the assignment -/
def objective : Forest → List Nat → Rat
  | .nil, _ => 0
  | .cons _ _ _, [] => 0
  | .cons p k s, i :: rest =>
    getQ p i + objective k (rest.take k.size) + objective s (rest.drop k.size)

/-- every clone's index is at least the sum of its children's indices (at every depth) -/
def Feasible : Forest → List Nat → Prop
  | .nil, _ => True
  | .cons _ _ _, [] => False
  | .cons _ k s, i :: rest =>
    topTotal k (rest.take k.size) ≤ i ∧ Feasible k (rest.take k.size) ∧ Feasible s (rest.drop k.size)

def decFeasible : (f : Forest) → (a : List Nat) → Decidable (Feasible f a)
  | .nil, _ => .isTrue (by simp [Feasible])
  | .cons _ _ _, [] => .isFalse (by simp [Feasible])
  | .cons _ k s, i :: rest =>
    match decFeasible k (rest.take k.size), decFeasible s (rest.drop k.size) with
    | .isTrue hk, .isTrue hs =>
      if h : topTotal k (rest.take k.size) ≤ i then .isTrue (by simp [Feasible, h, hk, hs])
      else .isFalse (by simp [Feasible, h])
    | .isFalse hk, _ => .isFalse (by simp [Feasible, hk])
    | _, .isFalse hs => .isFalse (by simp [Feasible, hs])

instance (f : Forest) (a : List Nat) : Decidable (Feasible f a) := decFeasible f a

/-- value the dynamic programme reports for the whole tree: `log_S_max[G-1]` of the virtual root -/
def rootValue (G : Nat) (f : Forest) : Rat := getQ (sStep G (dAll G (zeros G) f)).2 (G - 1)

/-! ### Outputs of `map.py` -/

/-- `get_map_ccfs`: `max_idx / (G - 1)` -/
def ccf (G : Nat) (i : Nat) : Rat := (i : Rat) / ((G : Rat) - 1)

/-- indices of the top-level clones of `f` (the children of the node whose child forest is `f`),
in sibling order -/
def topIdx : Forest → List Nat → List Nat
  | .nil, _ => []
  | .cons _ _ _, [] => []
  | .cons _ k s, i :: rest => i :: topIdx s (rest.drop k.size)

/-- `get_map_clonal_prev`, preorder: own CCF, then subtract each child's CCF in turn -/
def clonalPrev (G : Nat) : Forest → List Nat → List Rat
  | .nil, _ => []
  | .cons _ _ _, [] => []
  | .cons _ k s, i :: rest =>
    ((topIdx k (rest.take k.size)).foldl (fun acc c => acc - ccf G c) (ccf G i))
      :: (clonalPrev G k (rest.take k.size) ++ clonalPrev G s (rest.drop k.size))

/-! ### Several samples -/

/-- forest whose clones carry one log-likelihood vector per sample -/
inductive MForest where
  | nil
  | cons (ps : List Vec) (kids : MForest) (sibs : MForest)

def MForest.sample (s : Nat) : MForest → Forest
  | .nil => .nil
  | .cons ps k sb => .cons (ps.getD s []) (k.sample s) (sb.sample s)

/-- per sample: preorder indices chosen by the traceback -/
def mapAll (G S : Nat) (f : MForest) : List (List Nat) :=
  (List.range S).map fun s => mapAssign G (f.sample s)

/-- objective summed over samples -/
def objectiveAll (G S : Nat) (f : MForest) : Rat :=
  ((List.range S).map fun s => objective (f.sample s) (mapAssign G (f.sample s))).sum

end PhyModel.MapDP
