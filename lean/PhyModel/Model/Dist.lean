/-! Import-free finite-support distribution monad. -/
namespace PhyModel

abbrev Dist (α : Type) := List (α × Rat)

namespace Dist
def pure {α} (a : α) : Dist α := [(a, 1)]
def bind {α β} (d : Dist α) (k : α → Dist β) : Dist β :=
  d.flatMap fun ap => (k ap.1).map fun bq => (bq.1, ap.2 * bq.2)
def uniform {α} (l : List α) : Dist α := l.map fun a => (a, 1 / (l.length : Rat))
/-- expectation of a test function -/
def E {α} (d : Dist α) (h : α → Rat) : Rat := (d.map fun ap => ap.2 * h ap.1).sum
end Dist

end PhyModel
