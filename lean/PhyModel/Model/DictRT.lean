import PhyModel.Model.Store
/-! Import-free additions to the store model for C15 (dictionary round trip): structural equality of
stores, the normal form of the virtual root's vector on a clone-less tree, the invariant `WFd` under
which `from_dict(to_dict(t))` restores `t`, and its executable form `wfdB` (used by the driver to
confirm that the real trees the harness reaches satisfy the hypothesis of the theorem). -/
namespace PhyModel.Store
open PhyModel PhyModel.Orders Store

def recBeq (a b : NodeRec) : Bool :=
  a.idx == b.idx && a.name == b.name && a.dps == b.dps && a.p == b.p && a.r == b.r

def sfBeq : SF → SF → Bool
  | .nil, .nil => true
  | .cons n k s, .cons n' k' s' => recBeq n n' && sfBeq k k' && sfBeq s s'
  | _, _ => false

/-- field-by-field equality of two stores (payloads, cached vectors, maps, `_data`, last-added) -/
def storeBeq (a b : Store) : Bool :=
  sfBeq a.forest b.forest && a.rootR == b.rootR && a.nodeIdx == b.nodeIdx &&
  a.nodeIdxRev == b.nodeIdxRev && a.data == b.data && a.last == b.last

/-- `from_dict` ends with `update()`, which also recomputes the virtual root's vector.  On a tree
without clones that vector is never read (`dataOneC`, `dataMargC` test `isNil` first, as the code
tests the child count) and is all-zeros-in-log-space on a fresh `Tree(grid_size)` but `log_prior`
after `update()`: `normRoot` is the store with that one unread vector recomputed. -/
def normRoot (dt : Data) (s : Store) : Store :=
  if s.forest.isNil then { s with rootR := recompRoot dt s.forest } else s

/-- The invariant under which the dictionary form determines the store.  Indices may have arbitrary
gaps and need not be ordered; names need not be `0..K-1`. -/
structure WFd (dt : Data) (s : Store) : Prop where
  /-- graph indices of the clones are distinct … -/
  idxNodup : s.forest.idxs.Nodup
  /-- … and none is the virtual root's index 0 -/
  idxPos : ∀ n ∈ s.forest.recs, n.idx ≠ 0
  /-- `_node_indices[name] = idx` for every payload -/
  mapFwd : ∀ n ∈ s.forest.recs, s.nodeIdx.lookup n.name = some n.idx
  /-- `_node_indices_rev[idx] = name` for every payload -/
  mapRev : ∀ n ∈ s.forest.recs, s.nodeIdxRev.lookup n.idx = some n.name
  /-- every clone has a `_data` entry and the payload holds exactly that list (the payload's
  data-point *set* is listed in `_data` order, the order in which `from_dict` re-adds it) -/
  dataOf : ∀ n ∈ s.forest.recs, s.data.lookup n.name = some n.dps
  /-- no data point twice in one clone (`add_data_point_list` asserts disjointness) -/
  dpsNodup : ∀ n ∈ s.forest.recs, n.dps.Nodup
  /-- `_data` has no key besides the outlier key and clone names -/
  dataKeys : ∀ e ∈ s.data, e.1 = outKey ∨ ∃ n ∈ s.forest.recs, n.name = e.1
  /-- cached vectors are what a rebuild gives (C06's invariant) -/
  cache : cacheOKsf dt s.forest = true
  /-- the virtual root's vector is current whenever there is a clone -/
  rootOK : s.forest.isNil = false → s.rootR = recompRoot dt s.forest

/-- executable form of the payload-order normalisation `Aligned` (`Proofs/StoreInv.lean`): the payload's
data-point set is listed in the order of the clone's `_data` entry, the order in which `from_dict`
re-adds it with `add_data_point_list` -/
def alignedB (s : Store) : Bool := s.forest.recs.all fun n => n.dps == s.dataOf n.name

def fullB (s : Store) : Bool := s.forest.recs.all fun n => alHas s.data n.name

/-- a sufficient executable test for C07's `WF` (`Proofs/StoreInv.lean`; soundness: `wf_of_wfShB`) -/
def wfShB (s : Store) : Bool :=
  let rs := s.forest.recs
  nodupB (rs.map (·.name)) && nodupB (rs.map (·.idx)) && rs.all (fun n => n.idx != 0) &&
  rs.all (fun n => decide (0 ≤ n.name)) &&
  nodupB (s.nodeIdx.map (·.1)) && nodupB (s.nodeIdxRev.map (·.1)) &&
  s.nodeIdx.all (fun e => rs.any (fun n => n.name == e.1 && n.idx == e.2)) &&
  rs.all (fun n => s.nodeIdx.contains (n.name, n.idx)) &&
  s.nodeIdxRev.all (fun e => rs.any (fun n => n.name == e.2 && n.idx == e.1)) &&
  rs.all (fun n => s.nodeIdxRev.contains (n.idx, n.name)) &&
  nodupB (s.data.map (·.1)) &&
  s.data.all (fun e => e.1 == outKey || (rs.map (·.name)).contains e.1) &&
  rs.all (fun n => n.dps.isPerm (s.dataOf n.name)) &&
  nodupB (s.data.flatMap (·.2))

/-- executable form of `WFd` -/
def wfdB (dt : Data) (s : Store) : Bool :=
  let rs := s.forest.recs
  nodupB (rs.map (·.idx)) && rs.all (fun n => n.idx != 0) &&
  rs.all (fun n => s.nodeIdx.lookup n.name == some n.idx) &&
  rs.all (fun n => s.nodeIdxRev.lookup n.idx == some n.name) &&
  rs.all (fun n => s.data.lookup n.name == some n.dps) &&
  rs.all (fun n => nodupB n.dps) &&
  s.data.all (fun e => e.1 == outKey || rs.any (fun n => n.name == e.1)) &&
  cacheOKsf dt s.forest &&
  (s.forest.isNil || vecsEq s.rootR (recompRoot dt s.forest))

/-- every data point of `0 .. n-1` sits in exactly one place (`Tree.labels` has each index once) -/
def dataCompleteB (n : Nat) (s : Store) : Bool :=
  Forest.sortNat (s.labels.map (·.1)) == List.range n

/-! ### building a store from a description (driver only)

`SpecNode`: graph index, name, data points in `_data` order, children.  The cached vectors are
built the way the code builds them (`TreeNode(...)`, `add_data_point_list`, `update()`). -/

def specRec (dt : Data) (idx : Nat) (name : Int) (dps : List Nat) : NodeRec :=
  let n0 := freshRec dt idx name
  { n0 with dps := dps,
            p := dps.foldl (fun v dp => mulData dt v dp) n0.p,
            r := dps.foldl (fun v dp => mulData dt v dp) n0.r }

end PhyModel.Store
