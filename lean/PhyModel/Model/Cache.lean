/-! Import-free model of a keyed LRU memo table (`functools.lru_cache` behind a content key). -/
namespace PhyModel.Cache

structure Cache (K V : Type) where
  entries : List (K × V)      -- most recently used first
  cap : Nat

def lookup {K V} [DecidableEq K] (k : K) : List (K × V) → Option V
  | [] => none
  | (k', v) :: l => if k = k' then some v else lookup k l

def remove {K V} [DecidableEq K] (k : K) : List (K × V) → List (K × V)
  | [] => []
  | (k', v) :: l => if k = k' then l else (k', v) :: remove k l

/-- a call at environment `e` (e.g. the current concentration value) with argument `a`, or a clear -/
inductive Op (E A : Type) where
  | call (e : E) (a : A)
  | clear

/-- one operation: returns the new cache and the value handed to the caller -/
def step {E A K V} [DecidableEq K] (key : E → A → K) (f : E → A → V)
    (c : Cache K V) : Op E A → Cache K V × Option V
  | .call e a =>
    match lookup (key e a) c.entries with
    | some v => ({ c with entries := (key e a, v) :: remove (key e a) c.entries }, some v)   -- hit
    | none =>
      let v := f e a
      ({ c with entries := ((key e a, v) :: c.entries).take c.cap }, some v)               -- miss, evict LRU
  | .clear => ({ c with entries := [] }, none)

def run {E A K V} [DecidableEq K] (key : E → A → K) (f : E → A → V)
    (c : Cache K V) : List (Op E A) → Cache K V × List (Option V)
  | [] => (c, [])
  | op :: ops =>
    let r := step key f c op
    let rest := run key f r.1 ops
    (rest.1, r.2 :: rest.2)

/-- what an unmemoised execution of the same history returns -/
def direct {E A V} (f : E → A → V) : List (Op E A) → List (Option V)
  | [] => []
  | .call e a :: ops => some (f e a) :: direct f ops
  | .clear :: ops => none :: direct f ops

end PhyModel.Cache
