import PhyModel.Model.Tree
/-! Import-free model of the trace summaries (C11): `write_map_results` (both modes),
`create_topology_dict_from_trace` / `count_topology`, `create_topology_dataframe`,
`create_topologies_archive` of `phyclone/process_trace/process_trace.py`.

A trace is the `results` dict as a list of chains **in dict order**; a chain is its dict key (chain
number) and its list of entries; an entry is `(tree key, recorded log_p_one)`.  The tree key is any
type with decidable equality (in the driver: the canonical `(clades, outliers)` encoding, which is what
`Tree.__eq__` / `__hash__` compare); the score is any type with a decidable `<` (in the driver: `Rat`,
holding the recorded float exactly — the summaries only ever compare scores). -/
namespace PhyModel.Trace

/-- one trace entry together with where it sits: `results[chain]["trace"][iter]` -/
structure Rec (κ σ : Type) where
  chain : Nat
  iter : Nat
  key : κ
  score : σ

abbrev Chain (κ σ : Type) := Nat × List (κ × σ)
abbrev Trace (κ σ : Type) := List (Chain κ σ)

variable {κ σ : Type}

/-- `enumerate(chain_results["trace"])` tagged with the chain number -/
def enumFrom (c : Nat) : Nat → List (κ × σ) → List (Rec κ σ)
  | _, [] => []
  | i, (k, s) :: l => ⟨c, i, k, s⟩ :: enumFrom c (i + 1) l

/-- the order in which every summary scans the trace: chains in dict order, entries in order -/
def flat : Trace κ σ → List (Rec κ σ)
  | [] => []
  | (c, es) :: t => enumFrom c 0 es ++ flat t

/-- all entries, without positions (what the property quantifies over) -/
def entries (tr : Trace κ σ) : List (κ × σ) := tr.flatMap fun ch => ch.2

/-- `results[c]["trace"][i]` (dict lookup by chain number, then list index) -/
def lookup (tr : Trace κ σ) (c i : Nat) : Option (κ × σ) :=
  match tr.find? (fun ch => ch.1 == c) with
  | some ch => ch.2[i]?
  | none => none

/-- a dict has each key once -/
def WF (tr : Trace κ σ) : Prop := (tr.map fun ch => ch.1).Nodup

def wfb (tr : Trace κ σ) : Bool :=
  let rec go : List Nat → Bool
    | [] => true
    | a :: l => !l.contains a && go l
  go (tr.map fun ch => ch.1)

section scan
variable [LT σ] [DecidableLT σ]

/-- one step of the MAP scan; `none` is the initial `map_val = -inf` -/
def better (st : Option (Rec κ σ)) (r : Rec κ σ) : Option (Rec κ σ) :=
  match st with
  | none => some r
  | some b => if b.score < r.score then some r else some b

/-- `for chain ... for i, x ...: if x["log_p_one"] > map_val: ...` -/
def mapScan (l : List (Rec κ σ)) : Option (Rec κ σ) := l.foldl better none

/-- joint-likelihood mode: the entry the scan's `(chain_num, map_iter)` leads to; the scan's initial
pointer is `(0, 0)` -/
def mapPick (tr : Trace κ σ) : Option (κ × σ) :=
  match mapScan (flat tr) with
  | some r => lookup tr r.chain r.iter
  | none => lookup tr 0 0

/-- all entries joint-likelihood mode may legitimately report if ties were broken differently -/
def mapCandidates (tr : Trace κ σ) : List (κ × σ) :=
  (entries tr).filter fun e => (entries tr).all fun e' => !decide (e.2 < e'.2)

/-- a value of the `topologies` dict -/
structure Row (κ σ : Type) where
  key : κ
  count : Nat
  score : σ
  chain : Nat
  iter : Nat

variable [DecidableEq κ]

/-- `count_topology`: known tree → count + 1, score and pointer replaced only on a strictly better
score; unknown tree → new row at the end (dict insertion order) -/
def countTopo (r : Rec κ σ) : List (Row κ σ) → List (Row κ σ)
  | [] => [⟨r.key, 1, r.score, r.chain, r.iter⟩]
  | w :: ws =>
    if w.key = r.key then
      (if w.score < r.score then ⟨w.key, w.count + 1, r.score, r.chain, r.iter⟩
       else { w with count := w.count + 1 }) :: ws
    else w :: countTopo r ws

/-- `create_topology_dict_from_trace` on the scan order: dict values in insertion order -/
def topoDict (l : List (Rec κ σ)) : List (Row κ σ) := l.foldl (fun d r => countTopo r d) []

end scan

/-- insertion into a list sorted by `le` (before the first element it may precede) -/
def insertBy {α : Type} (le : α → α → Bool) (a : α) : List α → List α
  | [] => [a]
  | b :: l => if le a b then a :: b :: l else b :: insertBy le a l

/-- stable insertion sort; stands for `DataFrame.sort_values` (whose order among ties is unspecified:
nothing downstream may depend on it, see Props/C11) -/
def sortBy {α : Type} (le : α → α → Bool) (l : List α) : List α := l.foldr (insertBy le) []

section table
variable [LT σ] [DecidableLT σ] [DecidableEq κ]

/-- descending by score -/
def scoreGe (a b : Row κ σ) : Bool := !decide (a.score < b.score)
/-- descending by count -/
def countGe (a b : Row κ σ) : Bool := decide (b.count ≤ a.count)

/-- `create_topology_dataframe`: rows sorted by `log_p_joint_max` descending; the row at position `i`
gets the id `t_<i>` -/
def topoTable (tr : Trace κ σ) : List (Row κ σ) := sortBy scoreGe (topoDict (flat tr))

/-- frequency mode of `write_map_results`: first row after re-sorting by count descending, then the
entry its `(chain_num, iter)` leads to -/
def freqRow (tr : Trace κ σ) : Option (Row κ σ) := (sortBy countGe (topoTable tr)).head?

def freqPick (tr : Trace κ σ) : Option (κ × σ) :=
  match freqRow tr with
  | some w => lookup tr w.chain w.iter
  | none => none

/-- all rows frequency mode may legitimately report when the sort is not stable -/
def freqCandidates (tr : Trace κ σ) : List (Row κ σ) :=
  let t := topoTable tr
  t.filter fun w => t.all fun v => decide (v.count ≤ w.count)

/-- rows with their rank -/
def ranked {α : Type} : Nat → List α → List (Nat × α)
  | _, [] => []
  | i, a :: l => (i, a) :: ranked (i + 1) l

/-- `create_topologies_archive`: a row is skipped when `rank >= top_trees`; `none` is `inf` -/
def archive {α : Type} (top : Option Nat) (tbl : List α) : List (Nat × α) :=
  (ranked 0 tbl).filter fun p => match top with
    | none => true
    | some k => !decide (p.1 ≥ k)

/-- `--top-trees` is `click.IntRange(1, clamp=True)` with default `sys.maxsize`, and
`write_topology_report` turns `maxsize` into `inf` -/
def clampTop (maxsize : Nat) (n : Int) : Option Nat :=
  let v := if n < 1 then 1 else n.toNat
  if v = maxsize then none else some v

end table

/-! ### the tree key used by the driver: `(frozenset of clades, frozenset of outliers)` -/

def insDedup (a : Nat) : List Nat → List Nat
  | [] => [a]
  | b :: l => if a < b then a :: b :: l else if a = b then b :: l else b :: insDedup a l

/-- a finite set of naturals as a strictly increasing list -/
def setOf (l : List Nat) : List Nat := l.foldr insDedup []

def lexLt : List Nat → List Nat → Bool
  | [], [] => false
  | [], _ :: _ => true
  | _ :: _, [] => false
  | a :: l, b :: m => a < b || (a == b && lexLt l m)

def insClade (a : List Nat) : List (List Nat) → List (List Nat)
  | [] => [a]
  | b :: l => if lexLt a b then a :: b :: l else if a = b then b :: l else b :: insClade a l

/-- one clade per clone: its own data points and those of all its descendants -/
def cladeList : DF → List (List Nat)
  | .nil => []
  | .cons d k s => setOf (d ++ k.all) :: (cladeList k ++ cladeList s)

abbrev TreeKey := List (List Nat) × List Nat

/-- `(tree.get_clades(), frozenset(tree.outliers))` in a canonical list form -/
def treeKey (f : DF) (outs : List Nat) : TreeKey := ((cladeList f).foldr insClade [], setOf outs)

end PhyModel.Trace
