/-! Import-free model of the chain driver's skeleton (C19): `run.py:run_phyclone_chain`,
`_run_burnin`, `_run_main_sampler`, the swarm bookkeeping of `ConditionalSMCSampler`
(`_init_swarm`, `_resample_swarm`, `_update_swarm`), the node choice of
`ParticleGibbsSubtreeSampler.sample_tree` and the weight normalisation in front of every
`multinomial` call.  Every Python failure point the model can express is an explicit `Except`
branch: a list index, `choice` from an empty list, `multinomial` with a negative number of draws,
normalising by a zero weight sum, `%` by zero, the code's own asserts.  Randomness and wall-clock
time enter as oracles (functions of the call index), so theorems quantify over every outcome. -/
namespace PhyModel.RunLoop

/-- the failure kinds of the model; the harness maps Python exceptions onto the same enum -/
inductive Err where
  | indexOutOfRange   -- IndexError
  | emptyChoice       -- ValueError: 'a' cannot be empty (rng.choice([]))
  | negativeDraws     -- ValueError: n < 0 (rng.multinomial(-1, ..))
  | zeroWeightSum     -- ValueError: pvals contains NaNs (0/0 or -inf - -inf)
  | emptySwarm        -- ValueError: reduction over an empty swarm (num_particles = 0)
  | assertFailed      -- AssertionError
  | modByZero         -- ZeroDivisionError (i % 0)
deriving BEq, DecidableEq, Repr

def Err.name : Err → String
  | .indexOutOfRange => "indexOutOfRange"
  | .emptyChoice => "emptyChoice"
  | .negativeDraws => "negativeDraws"
  | .zeroWeightSum => "zeroWeightSum"
  | .emptySwarm => "emptySwarm"
  | .assertFailed => "assertFailed"
  | .modByZero => "modByZero"

abbrev R := Except Err

/-! ## guards -/

/-- Python `l[i]`, `i ≥ 0` -/
def idx {α} (l : List α) (i : Nat) : R α :=
  match l[i]? with
  | some a => pure a
  | none => throw .indexOutOfRange

/-- `rng.choice(l)`; `u` is the draw -/
def choice {α} (l : List α) (u : Nat) : R α :=
  if l.length = 0 then throw .emptyChoice else idx l (u % l.length)

/-- Python `a % b` on non-negative integers -/
def pyMod (a b : Nat) : R Nat := if b = 0 then throw .modByZero else pure (a % b)

def total (ws : List Rat) : Rat := ws.foldr (· + ·) 0

/-- `w / w.sum()` handed to `rng.multinomial`: an empty vector or a zero sum is rejected (numpy:
"zero-size array" / "pvals contains NaNs") -/
def normalise (ws : List Rat) : R (List Rat) :=
  if ws.length = 0 then throw .emptySwarm
  else if total ws = 0 then throw .zeroWeightSum
  else pure (ws.map (· / total ws))

/-- `rng.multinomial(n, p)`: numpy rejects `n < 0` -/
def drawsGuard (n : Int) : R Nat := if n < 0 then throw .negativeDraws else pure n.toNat

/-! ## conditional SMC: which particle sits where -/

/-- a particle is identified by the generation that created it and the slot it was created in;
slot 0 of generation `t` is the `t`-th particle of the constrained path -/
structure P where
  gen : Nat
  slot : Nat
deriving BEq, DecidableEq, Repr

/-- the random outcomes: whether resampling fires at the `k`-th `_resample_swarm` call and the
multiplicity vector `multinomial` returns there -/
structure Oracle where
  fire : Nat → Bool
  mult : Nat → List Nat

/-- `_get_constrained_path`: `[None, particle_1, …, particle_T]` -/
def path (T : Nat) : List (Option P) := none :: (List.range T).map fun t => some ⟨t + 1, 0⟩

def fromPath (T i : Nat) : R P := do
  match (← idx (path T) i) with
  | some p => pure p
  | none => throw .assertFailed

/-- `_init_swarm`: `constrained_path[1]` in slot 0, `num_particles - 1` proposals -/
def initSwarm (N T : Nat) : R (List P) := do
  let p ← fromPath T 1
  pure (p :: (List.range (N - 1)).map fun j => ⟨1, j + 1⟩)

/-- `for particle, multiplicity in zip(particles, multiplicities): for _ in range(multiplicity)` -/
def expand : List P → List Nat → List P
  | p :: ps, m :: ms => List.replicate m p ++ expand ps ms
  | _, _ => []

/-- `_resample_swarm` as repaired: the retained particle is the swarm's own slot 0 -/
def resampleStep (N : Nat) (sw : List P) (fire : Bool) (mult : List Nat) : R (List P) :=
  if sw.length = 0 then throw .emptySwarm
  else if fire then do
    let _ ← drawsGuard ((N : Int) - 1)
    let r ← idx sw 0
    pure (r :: expand sw mult)
  else pure sw

/-- the lookup the unrepaired code used in `_resample_swarm` (F10): `constrained_path[iteration + 1]` -/
def retainedOld (T it : Nat) : R P := fromPath T (it + 1)

/-- `_update_swarm` at `self.iteration = it` -/
def updateStep (T it : Nat) (sw : List P) : R (List P) := do
  let p ← fromPath T (it + 1)
  let _ ← idx sw 0
  pure (p :: (List.range (sw.length - 1)).map fun j => ⟨it + 1, j + 1⟩)

/-- the `while self.iteration < self.num_iterations` loop of `AbstractSMCSampler.sample` -/
def loop (N T : Nat) (o : Oracle) : Nat → Nat → List P → R (List P)
  | 0, _, sw => pure sw
  | fuel + 1, it, sw =>
    if it < T then do
      let sw ← updateStep T it sw
      let sw ← if it < T - 1 then resampleStep N sw (o.fire it) (o.mult it) else pure sw
      loop N T o fuel (it + 1) sw
    else pure sw

/-- `ConditionalSMCSampler(...).sample()` on `T` data points with `N` particles -/
def csmc (N T : Nat) (o : Oracle) : R (List P) := do
  let sw ← initSwarm N T
  let sw ← resampleStep N sw (o.fire 0) (o.mult 0)
  loop N T o T 1 sw

/-! ## subtree sampler: the node choice -/

inductive Pick where
  | fallback          -- whole-tree update (all data points are outliers)
  | node (n : Nat)
deriving BEq, DecidableEq, Repr

/-- `labels`: for each data point the clone it sits in, `none` for an outlier -/
def subtreeStep (labels : List (Option Nat)) (u : Nat) : R Pick :=
  let nodes := labels.filterMap id
  if nodes.length = 0 then pure .fallback
  else do
    let n ← choice nodes u
    pure (.node n)

/-- the unrepaired code (F11): no fallback -/
def subtreeStepOld (labels : List (Option Nat)) (u : Nat) : R Pick := do
  let n ← choice (labels.filterMap id) u
  pure (.node n)

/-! ## schedule: burn-in, main loop, thinning, time limit -/

structure Cfg where
  burnin : Nat
  numIters : Nat
  thin : Nat
  printFreq : Nat
  numParticles : Nat
  ndp : Int          -- num_samples_data_point (range() of a negative number is empty)
  nprg : Int
  concUpdate : Bool

structure Outcome where
  burninIters : Nat        -- calls of the unconditional SMC sampler
  mainIters : Nat          -- calls of the (sub)tree particle Gibbs sampler
  iters : List Nat         -- the `iter` field of the trace entries, in order
  dpCalls : Nat
  prgCalls : Nat
  concCalls : Nat
deriving BEq, DecidableEq, Repr

/-- `for i in range(burnin)`: body, then `if timer.elapsed > max_time: break`;
`stop i` is the outcome of that comparison.  Returns the number of iterations executed. -/
def burninFrom (pf : Nat) (stop : Nat → Bool) : Nat → Nat → R Nat
  | 0, i => pure i
  | fuel + 1, i => do
    let _ ← pyMod i pf
    if stop i then pure (i + 1) else burninFrom pf stop fuel (i + 1)

/-- `for i in range(num_iters)`: body, `if i % thin == 0: append`, `if elapsed >= max_time: break`.
`tr` is the trace so far (reversed). -/
def mainFrom (thin pf : Nat) (stop : Nat → Bool) : Nat → Nat → List Nat → R (List Nat × Nat)
  | 0, i, tr => pure (tr.reverse, i)
  | fuel + 1, i, tr => do
    let _ ← pyMod i pf
    let m ← pyMod i thin
    let tr := if m = 0 then i :: tr else tr
    if stop i then pure (tr.reverse, i + 1) else mainFrom thin pf stop fuel (i + 1) tr

/-- a sampler is only entered with at least one particle (`-log 0`, empty reductions otherwise) -/
def particlesGuard (c : Cfg) : R Unit :=
  if c.numParticles = 0 ∧ (c.burnin ≠ 0 ∨ c.numIters ≠ 0) then throw .emptySwarm else pure ()

/-- `run_phyclone_chain` reduced to its control flow -/
def runSchedule (c : Cfg) (stopB stopM : Nat → Bool) : R Outcome := do
  particlesGuard c
  let b ← burninFrom c.printFreq stopB c.burnin 0
  let (tr, m) ← mainFrom c.thin c.printFreq stopM c.numIters 0 [0]   -- `setup_trace` records iter 0
  pure { burninIters := b, mainIters := m, iters := tr,
         dpCalls := (b + m) * c.ndp.toNat, prgCalls := (b + m) * c.nprg.toNat,
         concCalls := if c.concUpdate then m else 0 }

/-! ### the timer

`with timer:` adds the duration of an iteration to `timer.elapsed` when the block is left, so the
comparison inside the block sees the time spent in *earlier* iterations (burn-in included). -/

def sumTo (d : Nat → Rat) : Nat → Rat
  | 0 => 0
  | n + 1 => sumTo d n + d n

/-- `maxT = none` is `inf` -/
def stopBurnin (maxT : Option Rat) (dB : Nat → Rat) (i : Nat) : Bool :=
  match maxT with
  | none => false
  | some m => decide (m < sumTo dB i)

def stopMain (maxT : Option Rat) (spent : Rat) (dM : Nat → Rat) (i : Nat) : Bool :=
  match maxT with
  | none => false
  | some m => decide (m ≤ spent + sumTo dM i)

/-- the chain with a wall clock: `dB i`, `dM i` are the durations of the iterations -/
def runTimed (c : Cfg) (maxT : Option Rat) (dB dM : Nat → Rat) : R Outcome := do
  particlesGuard c
  let b ← burninFrom c.printFreq (stopBurnin maxT dB) c.burnin 0
  runSchedule c (stopBurnin maxT dB) (stopMain maxT (sumTo dB b) dM)

end PhyModel.RunLoop
