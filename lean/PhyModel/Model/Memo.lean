import PhyModel.Model.Lik
import PhyModel.Model.Cache
/-! Import-free model of the two memoised numeric functions of `phyclone/tree/utils.py` and of the
content keys the decorators of `phyclone/utils/utils.py` put in front of `functools.lru_cache`.

* `compute_log_S(child_log_R_values)`  ↦ `logS G S children`   (probability domain: `S = prefixSum D`)
* `compute_log_D`                       ↦ `childD` (0 children: the unit; 1 child: the child itself;
  otherwise `conv(c₀,c₁)` and then `conv(c_j, acc)` for `j ≥ 2`, exactly the Python loop)
* `_convolve_two_children(a, b)`        ↦ `convM G a b` (row by row, truncated to the grid)
* `NumpyArrayListHasher`  (sorted tuple of the content digests of the children)  ↦ `keyS`
  = the children sorted by content (digest injectivity is the trusted xxhash assumption)
* `NumpyTwoArraysHasher`  (frozenset of the two digests)                       ↦ `keyPair`
  = the unordered pair. -/
namespace PhyModel.Memo
open PhyModel

/-- a child's vector per sample: `S` rows of `G` grid values -/
abbrev Mat := List Vec

/-- `_convolve_two_children`: truncated convolution in every sample (row) -/
def convM (G : Nat) (a b : Mat) : Mat := List.zipWith (conv G) a b

/-- the loop `for j in range(2, n): conv_res = _convolve_two_children(child[j], conv_res)` -/
def foldConv (G : Nat) (acc : Mat) : List Mat → Mat
  | [] => acc
  | c :: cs => foldConv G (convM G c acc) cs

/-- `compute_log_D` -/
def childD (G S : Nat) : List Mat → Mat
  | [] => List.replicate S (delta0 G)
  | [c] => c
  | c0 :: c1 :: cs => foldConv G (convM G c0 c1) cs

/-- `compute_log_S` (the code returns the scalar `0.0 = log 1` for no children: all-ones here) -/
def logS (G S : Nat) (children : List Mat) : Mat := (childD G S children).map (prefixSum G)

/-! ### content order and keys -/

def cmpVec : List Rat → List Rat → Ordering
  | [], [] => .eq
  | [], _ :: _ => .lt
  | _ :: _, [] => .gt
  | a :: as, b :: bs => if a < b then .lt else if b < a then .gt else cmpVec as bs

def cmpMat : Mat → Mat → Ordering
  | [], [] => .eq
  | [], _ :: _ => .lt
  | _ :: _, [] => .gt
  | a :: as, b :: bs =>
    match cmpVec a b with
    | .lt => .lt
    | .gt => .gt
    | .eq => cmpMat as bs

def matLe (a b : Mat) : Bool :=
  match cmpMat a b with
  | .gt => false
  | _ => true

def insertMat (a : Mat) : List Mat → List Mat
  | [] => [a]
  | b :: l => if matLe a b then a :: b :: l else b :: insertMat a l

/-- key of `list_of_np_cache`: the multiset of the children's contents (as a sorted list) -/
def keyS (children : List Mat) : List Mat := children.foldr insertMat []

/-- key of `two_np_arr_cache`: the unordered pair of contents -/
def keyPair (a b : Mat) : Mat × Mat := if matLe a b then (a, b) else (b, a)

/-! ### the memoised functions as `Cache` instances (no environment: `E = Unit`) -/

def logSKey (_ : Unit) (children : List Mat) : List Mat := keyS children
def logSFun (G S : Nat) (_ : Unit) (children : List Mat) : Mat := logS G S children

def convKey (_ : Unit) (ab : Mat × Mat) : Mat × Mat := keyPair ab.1 ab.2
def convFun (G : Nat) (_ : Unit) (ab : Mat × Mat) : Mat := convM G ab.1 ab.2

/-! ### a memo table in front of a function that reads a changing environment

The proposal caches: the environment is the concentration value `alpha` (mutated in place on the
shared `tree_dist` between sweeps), the argument is everything else.  `withEnv = true` is the key of
the code (`alpha` passed as an explicit key component); `withEnv = false` is the defective variant
whose key forgets the environment (used for the non-vacuity example of C14 and by the driver). -/

def envKey (withEnv : Bool) (e : Nat) (a : Nat) : Nat × Nat := if withEnv then (e, a) else (0, a)

/-- does the next operation hit?  (`step` itself only returns the value) -/
def isHit {E A K V : Type} [DecidableEq K] (key : E → A → K) (c : Cache.Cache K V) : Cache.Op E A → Bool
  | .call e a => (Cache.lookup (key e a) c.entries).isSome
  | .clear => false

/-- `Cache.run` that also reports hit/miss per operation and the table size after it -/
def runTrace {E A K V : Type} [DecidableEq K] (key : E → A → K) (f : E → A → V)
    (c : Cache.Cache K V) : List (Cache.Op E A) → List (Bool × Option V × Nat)
  | [] => []
  | op :: ops =>
    let h := isHit key c op
    let r := Cache.step key f c op
    (h, r.2, r.1.entries.length) :: runTrace key f r.1 ops

end PhyModel.Memo
