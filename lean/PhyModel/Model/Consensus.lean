import PhyModel.Model.Tree
/-! Import-free executable model of the consensus command (C16):
`process_trace/consensus.py` (`clade_probabilities`, `key_above_threshold`, `consensus`,
`find_smallest_superset`, `relabel`, `clean_tree`) and `process_trace.py`
(`write_consensus_results` weighting, `get_tree_from_consensus_graph`, `from_dict_nx`).

A clade is a duplicate-free list of data indices, compared as a *set* (`setEq`), exactly like the
code's `frozenset`s; `len` of a frozenset is the list's length.  Iteration over a Python `set` has
no specified order: every function here takes its candidates in list order, the theorems of
`Props/C16.lean` hold for every order. -/
namespace PhyModel.Consensus
open PhyModel.Orders

abbrev Clade := List Nat

/-- keep the last occurrence of each index (a frozenset has no duplicates) -/
def dedupL : List Nat → List Nat
  | [] => []
  | a :: l => if a ∈ l then dedupL l else a :: dedupL l

def subsetL (a b : List Nat) : Bool := a.all fun x => decide (x ∈ b)

/-- frozenset equality -/
def setEq (a b : Clade) : Bool := subsetL a b && subsetL b a

def memC (c : Clade) (l : List Clade) : Bool := l.any fun d => setEq c d

/-- a Python set of frozensets: one representative per set -/
def dedupC : List Clade → List Clade
  | [] => []
  | c :: l => if memC c l then dedupC l else c :: dedupC l

/-- `_clades`: one clade per clone (own data and everything below it) -/
def cladesOf : DF → List Clade
  | .nil => []
  | .cons d k s => (dedupL (k.all ++ d) :: cladesOf k) ++ cladesOf s

/-- `get_clades(tree)`: the frozenset of the tree's clades -/
def cladeSet (f : DF) : List Clade := dedupC (cladesOf f)

/-- `clade_probabilities` accumulation: total weight of the trees whose clade set contains `c`
(stops at the shorter list; `run` rejects a weight list shorter than the tree list) -/
def supportW : List Rat → List (List Clade) → Clade → Rat
  | w :: ws, cl :: cls, c => (if memC c cl then w else 0) + supportW ws cls c
  | _, _, _ => 0

/-- support of a clade: `count / len(trees)` (counts) or the sum of the trees' weights -/
def support (weights : Option (List Rat)) (cls : List (List Clade)) (c : Clade) : Rat :=
  match weights with
  | none => supportW (cls.map fun _ => 1) cls c / (cls.length : Rat)
  | some ws => supportW ws cls c

/-- every clade seen in some tree (the keys of `clades_counter`) -/
def candidates (cls : List (List Clade)) : List Clade := dedupC cls.flatten

/-- `key_above_threshold`: strictly above -/
def majority (weights : Option (List Rat)) (cls : List (List Clade)) (θ : Rat) : List Clade :=
  (candidates cls).filter fun c => decide (θ < support weights cls c)

/-- the loop of `find_smallest_superset` over the candidates in list order; `best = none` is the
initial "size = inf" state -/
def findSmallestGo (q : Clade) : List Clade → Option Clade → Except String (Option Clade)
  | [], best => pure best
  | c :: cs, best =>
    if subsetL q c then
      match best with
      | none => findSmallestGo q cs (some c)
      | some b =>
        if c.length = b.length then throw "Inconsistent set of clades"
        else if c.length < b.length then findSmallestGo q cs (some c)
        else findSmallestGo q cs (some b)
    else findSmallestGo q cs best

/-- `set_of_sets.discard(query_set)` -/
def discard (q : Clade) (m : List Clade) : List Clade := m.filter fun d => !setEq d q

def findSmallestSuperset (m : List Clade) (q : Clade) : Except String (Option Clade) :=
  findSmallestGo q (discard q m) none

/-- `consensus`: the digraph as a table clade ↦ parent clade (none = root of the graph) -/
def parentTable (m : List Clade) : Except String (List (Clade × Option Clade)) :=
  m.mapM fun c => do
    let p ← findSmallestSuperset m c
    pure (c, p)

def isParent (c : Clade) (e : Clade × Option Clade) : Bool :=
  match e.2 with
  | some p => setEq p c
  | none => false

def childrenOf (tbl : List (Clade × Option Clade)) (c : Clade) : List Clade :=
  (tbl.filter (isParent c)).map (·.1)

/-- `set.remove`: KeyError when absent -/
def removeOne (x : Nat) : List Nat → Option (List Nat)
  | [] => none
  | a :: l => if a = x then some l else (removeOne x l).map (a :: ·)

def removeAll : List Nat → List Nat → Except String (List Nat)
  | [], r => pure r
  | x :: xs, r =>
    match removeOne x r with
    | none => throw s!"KeyError {x}"
    | some r' => removeAll xs r'

def removeChildren : List Clade → List Nat → Except String (List Nat)
  | [], r => pure r
  | ch :: chs, r => do
    let r' ← removeAll ch r
    removeChildren chs r'

/-- `_relabel`: own data of the node keyed by clade `c` -/
def ownOf (tbl : List (Clade × Option Clade)) (c : Clade) : Except String (List Nat) :=
  removeChildren (childrenOf tbl c) c

def lookupOwn (owns : List (Clade × List Nat)) (c : Clade) : List Nat :=
  match owns.find? fun e => setEq e.1 c with
  | some e => e.2
  | none => []

/-- the clone tree below the node keyed by `c` (`fuel` ≥ number of nodes is always enough: a parent
is a strict superset) -/
def buildNode (tbl : List (Clade × Option Clade)) (owns : List (Clade × List Nat)) :
    Nat → Clade → (List Nat × DF)
  | 0, c => (lookupOwn owns c, .nil)
  | fuel+1, c => (lookupOwn owns c, Forest.ofRoots ((childrenOf tbl c).map (buildNode tbl owns fuel)))

/-- `get_tree_from_consensus_graph`: data points that carry no label of a consensus node go to the
outlier node (clone id -1) -/
def outliersOf (n : Nat) (owns : List (Clade × List Nat)) : List Nat :=
  (List.range n).filter fun i => !decide (i ∈ owns.flatMap (·.2))

structure Result where
  forest : DF
  outs : List Nat
  majority : List Clade
  supports : List (Clade × Rat)
  owns : List (Clade × List Nat)
  parents : List (Clade × Option Clade)

/-- nesting, relabelling and conversion to a tree on data points `0 … n-1`:
`consensus` + `relabel` + `clean_tree` + `get_tree_from_consensus_graph` + `from_dict_nx` -/
def nest (n : Nat) (m : List Clade) : Except String (DF × List Nat × List (Clade × List Nat) × List (Clade × Option Clade)) := do
  let tbl ← parentTable m
  let owns ← m.mapM fun c => do
    let o ← ownOf tbl c
    pure (c, o)
  let covered := owns.flatMap (·.2)
  if covered.any fun i => decide (n ≤ i) then throw "KeyError: data index outside the data set"
  let roots := (tbl.filter fun e => e.2.isNone).map (·.1)
  let forest := Forest.ofRoots (roots.map (buildNode tbl owns m.length))
  pure (forest, outliersOf n owns, owns, tbl)

/-- `get_consensus_tree` followed by `get_tree_from_consensus_graph` -/
def run (n : Nat) (trees : List DF) (weights : Option (List Rat)) (θ : Rat) : Except String Result := do
  match weights with
  | some ws => if ws.length < trees.length then throw "IndexError: fewer weights than trees"
  | none => pure ()
  let cls := trees.map cladeSet
  let m := majority weights cls θ
  let (forest, outs, owns, tbl) ← nest n m
  pure { forest, outs, majority := m, supports := (candidates cls).map fun c => (c, support weights cls c),
         owns, parents := tbl }

/-! ### weighted mode of `write_consensus_results`: one entry per distinct topology, weight
∝ (largest recorded `p_one`) × (number of occurrences), normalised -/

def sameTree (a b : DF × List Nat) : Bool :=
  let ca := cladeSet a.1
  let cb := cladeSet b.1
  ca.all (fun c => memC c cb) && cb.all (fun c => memC c ca) && setEq a.2 b.2

/-- `count_topology` (insertion order of first occurrence, as a Python dict) -/
def countTopology : List ((DF × List Nat) × Rat × Nat) → (DF × List Nat) → Rat → List ((DF × List Nat) × Rat × Nat)
  | [], t, p => [(t, p, 1)]
  | (t', p', k) :: rest, t, p =>
    if sameTree t' t then (t', (if p' < p then p else p'), k + 1) :: rest
    else (t', p', k) :: countTopology rest t p

def topologies (trace : List ((DF × List Nat) × Rat)) : List ((DF × List Nat) × Rat × Nat) :=
  trace.foldl (fun acc e => countTopology acc e.1 e.2) []

def lsum (l : List Rat) : Rat := l.foldl (· + ·) 0

/-- trees and normalised weights handed to `get_consensus_tree` in weighted mode -/
def weightedInput (trace : List ((DF × List Nat) × Rat)) : List DF × List Rat :=
  let tp := topologies trace
  let raw := tp.map fun e => e.2.1 * (e.2.2 : Rat)
  let z := lsum raw
  (tp.map (·.1.1), raw.map (· / z))

end PhyModel.Consensus
