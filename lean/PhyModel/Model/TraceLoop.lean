import PhyModel.Model.RunLoop
import PhyModel.Model.DictRT
/-! Import-free model of the *stateful* part of `run.py:_run_main_sampler` for C15: what a trace entry
is built from.  The control flow (loop bounds `for i in range(num_iters)`, `if i % thin == 0`, the
time-limit `break` after the append) is the one of `RunLoop.mainFrom`; here the loop also carries the
chain state `(tree, alpha)`.  Everything random or numerical enters as an oracle (a function of the
iteration number), so theorems quantify over every outcome:

* `moves i t`   — the tree after the (sub)tree particle-Gibbs update, the data-point moves and the
                  prune-regraft moves of iteration `i` (before `relabel_nodes`);
* `conc i α t`  — the value `conc_sampler.sample` returns in iteration `i`;
* `clock i`     — `timer.elapsed` as read inside iteration `i` (the `with timer:` block adds an
                  iteration's duration only when it is left, so this is burn-in + iterations `< i`);
* `stop i`      — the outcome of `timer.elapsed >= max_time` in iteration `i`. -/
namespace PhyModel.TraceLoop
open PhyModel PhyModel.Store PhyModel.Store.Store

/-- one element of `results["trace"]`; `logPOne` in the probability domain -/
structure Entry where
  iter : Nat
  time : Rat
  alpha : Rat
  logPOne : Rat
  tree : TDict

/-- `(tree, tree_dist.prior.alpha)` -/
structure St where
  tree : Store
  alpha : Rat

structure Oracles where
  moves : Nat → Store → Store
  conc : Nat → Rat → Store → Rat
  clock : Nat → Rat
  stop : Nat → Bool

/-- the dict `append_to_trace(i, timer, trace, tree, tree_dist)` appends -/
def mkEntry (dt : Data) (i : Nat) (time : Rat) (st : St) : Entry :=
  { iter := i, time := time, alpha := st.alpha, logPOne := pOneC dt st.alpha st.tree, tree := toDict st.tree }

def appendToTrace (dt : Data) (i : Nat) (time : Rat) (st : St) (tr : List Entry) : List Entry :=
  tr ++ [mkEntry dt i time st]

/-- the body of one main iteration up to (not including) the append: samplers, `tree.relabel_nodes()`,
then `update_concentration_value` when `concentration_update` is on -/
def body (o : Oracles) (cu : Bool) (i : Nat) (st : St) : St :=
  let t := (o.moves i st.tree).relabelNodes
  { tree := t, alpha := if cu then o.conc i st.alpha t else st.alpha }

/-- `for i in range(num_iters)` from iteration `i` with `fuel` iterations left; returns the trace, the
final state and the number of iterations executed -/
def mainLoop (dt : Data) (o : Oracles) (cu : Bool) (thin : Nat) :
    Nat → Nat → St → List Entry → List Entry × St × Nat
  | 0, i, st, tr => (tr, st, i)
  | fuel + 1, i, st, tr =>
    let st' := body o cu i st
    let tr' := if i % thin = 0 then appendToTrace dt i (o.clock i) st' tr else tr
    if o.stop i then (tr', st', i + 1) else mainLoop dt o cu thin fuel (i + 1) st' tr'

/-- `_run_main_sampler`: `setup_trace` records the post-burn-in state as `iter = 0`, then the loop -/
def runMain (dt : Data) (o : Oracles) (cu : Bool) (thin numIters : Nat) (st0 : St) : List Entry × St × Nat :=
  mainLoop dt o cu thin numIters 0 st0 (appendToTrace dt 0 (o.clock 0) st0 [])

/-- the chain state after `i` main iterations (`stateAt 0` = the state after burn-in) -/
def stateAt (o : Oracles) (cu : Bool) (st0 : St) : Nat → St
  | 0 => st0
  | i + 1 => body o cu i (stateAt o cu st0 i)

/-- the iterations `j` with `i ≤ j < m` that are multiples of the thinning interval, in order -/
def sched (thin i m : Nat) : List Nat := (List.range' i (m - i)).filter fun j => j % thin = 0

/-- the stop oracle of a wall clock with limit `maxT` (`none` = `inf`) -/
def stopOfClock (maxT : Option Rat) (clock : Nat → Rat) (i : Nat) : Bool :=
  match maxT with
  | none => false
  | some m => decide (m ≤ clock i)

end PhyModel.TraceLoop
