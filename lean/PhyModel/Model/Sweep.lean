import PhyModel.Model.Moves
import PhyModel.Model.PGSpec
/-! Import-free model of one full iteration of `run.py:_run_main_sampler` with
`subtree_update_prob = 0`, on canonical trees:

    tree = tree_sampler.sample_tree(tree)                      -- `SMC.pgStep`
    for _ in range(num_samples_data_point):  tree = dp_sampler.sample_tree(tree)    -- `Moves.dataPointMove`
    for _ in range(num_samples_prune_regraph): tree = prg_sampler.sample_tree(tree) -- `Moves.pruneRegraft`
    tree.relabel_nodes()                                       -- no effect on the canonical tree

The concentration value is a parameter that is held fixed within the sweep (the update of the
concentration value between sweeps is the subject of C05). -/
namespace PhyModel.Sweep
open Moves

/-- `k` successive draws from the kernel `K` (equal outcomes merged after every draw) -/
def iter (K : T → Dist T) : Nat → T → Dist T
  | 0, x => Dist.pure x
  | k+1, x => Dist.norm (Dist.bind (K x) (iter K k))

/-- `run.py:setup_samplers`: the data-point and prune-regraft samplers share the tree distribution of
the kernel (same data, same concentration value); the data-point sampler uses the outlier set iff
outlier modelling is on (`outlier_prob > 0`) -/
def mvOf (r : SMC.Run) : Moves.Cfg := ⟨r.dt, r.c.α, r.c.op != 0⟩

/-- one iteration of the main loop with `subtree_update_prob = 0`: whole-tree particle Gibbs, then `k₁`
data-point scans, then `k₂` prune-regraft moves -/
def sweepModel (r : SMC.Run) (mv : Moves.Cfg) (k₁ k₂ : Nat) (x : T) : Dist T :=
  Dist.norm (Dist.bind (SMC.pgStep r x) fun x₁ =>
    Dist.bind (iter (dataPointMove mv) k₁ x₁) (iter (pruneRegraft mv) k₂))

/-- `n` iterations of the main loop at a fixed concentration value -/
def chainModel (r : SMC.Run) (mv : Moves.Cfg) (k₁ k₂ n : Nat) (x : T) : Dist T :=
  iter (sweepModel r mv k₁ k₂) n x

/-- the common state space: the complete trees on the data points `D`, each listed once -/
def space (c : Proposal.Cfg) (D : List Nat) : List T := (PGSpec.finals c D).eraseDups

end PhyModel.Sweep
