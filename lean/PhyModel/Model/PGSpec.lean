import PhyModel.Model.SMC
/-! Import-free definitions for the particle-Gibbs instance of the abstract conditional-SMC theorem
(C01): the partial trees reachable from the empty tree by placing the data points of a fixed order
one after the other (`level`, `states`) — the finite state space on which `ASMC.Spec` is
instantiated. -/
namespace PhyModel.PGSpec
open Orders Proposal

/-- the outlier placement is only available when outlier modelling is on -/
def permitted (c : Cfg) (kt : Kind × T) : Bool :=
  match kt.1 with
  | .outlier => c.op != 0
  | _ => true

/-- the states a proposal can move to from `p` when data point `i` is placed -/
def children (c : Cfg) (p : T) (i : Nat) : List T :=
  ((placements p i).filter (permitted c)).map (·.2)

/-- the partial trees holding exactly the first `t` data points of `σ` -/
def level (c : Cfg) (σ : List Nat) : Nat → List T
  | 0 => [T.empty]
  | t+1 =>
    match σ[t]? with
    | none => []
    | some i => (level c σ t).flatMap fun p => children c p i

/-- every partial tree met along `σ` -/
def states (c : Cfg) (σ : List Nat) : List T :=
  (List.range (σ.length + 1)).flatMap (level c σ)

/-- number of data points a state holds (= its level) -/
def lev (x : T) : Nat := x.f.all.length + x.out.length

/-- every partial tree met along any order of the data points `D` -/
def allStates (c : Cfg) (D : List Nat) : List T :=
  (perms D).flatMap (states c)

/-- the complete trees on the data points `D` -/
def finals (c : Cfg) (D : List Nat) : List T :=
  (perms D).flatMap fun σ => level c σ D.length

end PhyModel.PGSpec
