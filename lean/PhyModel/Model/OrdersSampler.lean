import PhyModel.Model.Orders
import PhyModel.Model.Dist
namespace PhyModel.Orders
open PhyModel PhyModel.Dist

/-- mirrors `RootPermutationDistribution.sample(tree, rng, source=node)`: children's orders are
sampled recursively and bridge-shuffled, the clone's own data are shuffled and appended -/
def sampleF : Forest → Dist (List Nat)
  | .nil => Dist.pure []
  | .cons d k s =>
    Dist.bind (sampleF k) fun ok => Dist.bind (uniform (perms d)) fun pd =>
      Dist.bind (sampleF s) fun os => uniform (inter (ok ++ pd) os)

/-- mirrors the call at the virtual root: outliers are shuffled and bridge-shuffled in -/
def sampleOrder (f : Forest) (out : List Nat) : Dist (List Nat) :=
  Dist.bind (sampleF f) fun o => Dist.bind (uniform (perms out)) fun po => uniform (inter o po)

end PhyModel.Orders
