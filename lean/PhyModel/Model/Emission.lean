import PhyModel.Model.Lik
/-! Import-free executable model of the PyClone emission model (C05):
`phyclone/data/pyclone.py` (`get_major_cn_prior`, `log_pyclone_binomial_pdf`,
`log_pyclone_beta_binomial_pdf`, `DataPoint.to_likelihood_grid`, `_create_clustered_data_arr`,
`compute_outlier_prob`, the outlier-probability part of `_setup_cluster_df`) and the pmf primitives of
`phyclone/utils/math.py`.  Exact rationals, probability domain: a log-likelihood in the code is the
log of the rational computed here; sums of log grids are products. -/
namespace PhyModel.Emission

def fact : Nat → Nat
  | 0 => 1
  | n+1 => (n+1) * fact n

def qpow (q : Rat) : Nat → Rat
  | 0 => 1
  | n+1 => qpow q n * q

/-- rising factorial (Pochhammer symbol) `a (a+1) … (a+n-1)` = Γ(a+n)/Γ(a) -/
def rising (a : Rat) : Nat → Rat
  | 0 => 1
  | n+1 => rising a n * (a + (n : Rat))

def qmin (a b : Rat) : Rat := if a ≤ b then a else b

/-- `log_binomial_coefficient`: exp (lgamma(n+1) - lgamma(x+1) - lgamma(n-x+1)) -/
def chooseQ (n x : Nat) : Rat := (fact n : Rat) / ((fact x : Rat) * (fact (n - x) : Rat))

/-- `log_binomial_likelihood`, branches for p = 0 and p = 1 included -/
def binomLik (n x : Nat) (p : Rat) : Rat :=
  if p = 0 then (if x = 0 then 1 else 0)
  else if p = 1 then (if x = n then 1 else 0)
  else qpow p x * qpow (1 - p) (n - x)

/-- `log_binomial_pdf` -/
def binomPmf (n x : Nat) (p : Rat) : Rat := chooseQ n x * binomLik n x p

/-- `log_beta_binomial_likelihood` = B(a+x, b+n-x) / B(a, b), as a ratio of rising factorials -/
def betaBinomLik (n x : Nat) (a b : Rat) : Rat :=
  rising a x * rising b (n - x) / rising (a + b) n

/-- `log_beta_binomial_pdf` -/
def betaBinomPmf (n x : Nat) (a b : Rat) : Rat := chooseQ n x * betaBinomLik n x a b

/-- one mutational genotype: copy numbers and per-copy variant probabilities of the normal,
reference and variant populations -/
structure Genotype where
  cnN : Nat
  cnR : Nat
  cnV : Nat
  muN : Rat
  muR : Rat
  muV : Rat
deriving Repr

/-- `get_major_cn_prior` (the genotype list; the prior is uniform over it).  Mirrors the loop over
`x = 1..major` followed by the membership test for the "mutation after the copy-number change"
genotype. -/
def genotypes (major minor normal : Nat) (eps : Rat) : List Genotype :=
  let total := major + minor
  let before : List Genotype := (List.range major).map fun i =>
    { cnN := normal, cnR := normal, cnV := total, muN := eps, muR := eps,
      muV := qmin (1 - eps) (((i + 1 : Nat) : Rat) / (total : Rat)) }
  let seen := before.any fun g => g.cnN == normal && g.cnR == total && g.cnV == total
  if seen then before
  else before ++ [{ cnN := normal, cnR := total, cnV := total, muN := eps, muR := eps,
                    muV := qmin (1 - eps) (1 / (total : Rat)) }]

/-- the three population weights times the copy numbers -/
def wN (g : Genotype) (t : Rat) : Rat := (1 - t) * (g.cnN : Rat)
def wR (g : Genotype) (t f : Rat) : Rat := t * (1 - f) * (g.cnR : Rat)
def wV (g : Genotype) (t f : Rat) : Rat := t * f * (g.cnV : Rat)

def vafDen (g : Genotype) (t f : Rat) : Rat := wN g t + wR g t f + wV g t f

/-- expected variant allele fraction at tumour content `t`, cellular prevalence `f` -/
def expVaf (g : Genotype) (t f : Rat) : Rat :=
  (wN g t * g.muN + wR g t f * g.muR + wV g t f * g.muV) / vafDen g t f

inductive Density where
  | binomial
  | betaBinomial (s : Rat)

/-- one mutation in one sample, as read from the input file -/
structure Obs where
  ref : Nat
  alt : Nat
  major : Nat
  minor : Nat
  normal : Nat
  eps : Rat
  t : Rat

def genoLik (d : Density) (n x : Nat) (v : Rat) : Rat :=
  match d with
  | .binomial => binomPmf n x v
  | .betaBinomial s => betaBinomPmf n x (v * s) (s - v * s)

/-- `log_pyclone_binomial_pdf` / `log_pyclone_beta_binomial_pdf`: mixture over the genotypes with
the uniform prior `log_normalize(zeros)` -/
def sampleLik (d : Density) (o : Obs) (f : Rat) : Rat :=
  let gs := genotypes o.major o.minor o.normal o.eps
  (gs.map fun g => (1 / (gs.length : Rat)) * genoLik d (o.ref + o.alt) o.alt (expVaf g o.t f)).sum

/-- `np.linspace(0, 1, G)[k]` (0 for a one-point grid) -/
def ccf (G k : Nat) : Rat := (k : Rat) / ((G - 1 : Nat) : Rat)

def obsGrid (d : Density) (G : Nat) (o : Obs) : Vec :=
  (List.range G).map fun k => sampleLik d o (ccf G k)

/-- `DataPoint.to_likelihood_grid`: one row per sample -/
def mutGrid (d : Density) (G : Nat) (rows : List Obs) : List Vec := rows.map (obsGrid d G)

/-- what the real code does not accept (exception or non-finite result) -/
def obsError (d : Density) (G : Nat) (o : Obs) : Option String :=
  if o.major = 0 then some "major copy number 0 (removed by the loader)"
  else if o.major < o.minor then some "MajorCopyNumberError"
  else
    let gs := genotypes o.major o.minor o.normal o.eps
    let fs := (List.range G).map (ccf G)
    if gs.any fun g => fs.any fun f => vafDen g o.t f == 0 then some "ZeroDivisionError"
    else match d with
      | .binomial => none
      | .betaBinomial s =>
        if gs.any fun g => fs.any fun f =>
            let v := expVaf g o.t f
            decide (v * s ≤ 0) || decide (s - v * s ≤ 0)
        then some "beta-binomial parameter not positive" else none

/-- pointwise product of two S × G grids (`+` of log grids) -/
def gridMul (a b : List Vec) : List Vec := List.zipWith (List.zipWith (· * ·)) a b

def gridOnes (S G : Nat) : List Vec := List.replicate S (List.replicate G 1)

/-- `_create_clustered_data_arr`: `np.sum(np.array(member grids), axis=0)` in the log domain -/
def clusterGrid (S G : Nat) (members : List (List Vec)) : List Vec :=
  members.foldl gridMul (gridOnes S G)

def entry (g : List Vec) (s k : Nat) : Rat := getQ (g.getD s []) k

/-- `compute_outlier_prob` in the probability domain: `(p^size, (1-p)^size)`; for `p = 0` the code
returns the pair of log values `(0, 0)`, which downstream means "outliers disabled" -/
def outlierTerms (p : Rat) (size : Nat) : Rat × Rat :=
  if p = 0 then (1, 1) else (qpow p size, qpow (1 - p) size)

/-- the per-cluster prior outlier probability chosen by `_setup_cluster_df` (without the
chromosome-based assignment): `col` is the cluster file's `outlier_prob` column if present -/
def resolveClusterProb (col : Option Rat) (assign : Bool) (lowLoss outlierProb : Rat) : Rat :=
  let v := match col with
    | some c => c
    | none => if assign then lowLoss else outlierProb
  if assign then v
  else if outlierProb = 0 then 0
  else if v = 0 then outlierProb else v

end PhyModel.Emission
