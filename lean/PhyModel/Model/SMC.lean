import PhyModel.Model.Proposal
import PhyModel.Model.OrdersSampler
/-! Import-free model of the conditional SMC sweep and the particle-Gibbs tree update (C01):
`ConditionalSMCSampler` (retained path in slot 0, adaptive multinomial resampling of the other
slots, weights carried when not resampling, last-step correction) and
`ParticleGibbsTreeSampler.sample_tree`, as exact finite distributions. -/
namespace PhyModel
open Orders Proposal

namespace SMC

abbrev Swarm := List (T × Rat)

/-- the forest induced on the data points selected by `keep`: a clone none of whose data is kept does
not exist yet and its (kept) children stand one level up — this is how `_get_constrained_path`
rebuilds the tree along a compatible order -/
def restrictF (keep : Nat → Bool) : DF → DF
  | .nil => .nil
  | .cons d k s =>
    let d' := d.filter keep
    let k' := restrictF keep k
    let s' := restrictF keep s
    if d'.isEmpty then Forest.ofRoots (k'.roots ++ s'.roots)
    else .cons d' k' s'

def restrict (x : T) (kept : List Nat) : T :=
  T.mk' (restrictF (fun i => kept.contains i) x.f) (x.out.filter fun i => kept.contains i)

def lookupQ (tab : List (T × Rat)) (t : T) : Rat :=
  match tab.find? (fun tq => tq.1 == t) with
  | some tq => tq.2
  | none => 0

structure Run where
  dt : Data
  c : Cfg
  N : Nat
  θ : Rat

/-- one proposed particle: `propose_particle` then `_get_log_w`, weight multiplied onto `W` -/
def propose (r : Run) (first last : Bool) (p : T) (W : Rat) (i : Nat) : Dist (T × Rat) :=
  let tab := table r.dt r.c first p i
  Dist.fmap (fun t => (t, W * incrWeight r.dt r.c first last p t (lookupQ tab t))) (sampler r.dt r.c first p i)

/-- the retained particle's weight update along the constrained path -/
def retainedW (r : Run) (first last : Bool) (p t : T) (W : Rat) (i : Nat) : Rat :=
  W * incrWeight r.dt r.c first last p t (lookupQ (table r.dt r.c first p i) t)

def sumW (sw : Swarm) : Rat := (sw.map (·.2)).foldl (· + ·) 0
def sumW2 (sw : Swarm) : Rat := (sw.map fun x => x.2 * x.2).foldl (· + ·) 0

/-- `relative_ess <= resample_threshold` -/
def needResample (r : Run) (sw : Swarm) : Bool :=
  decide (sumW sw * sumW sw / ((sw.length : Rat) * sumW2 sw) ≤ r.θ)

/-- all sequences of `m` ancestor draws from the normalised weights -/
def ancestorSeqs (sw : Swarm) : Nat → Dist (List Nat)
  | 0 => Dist.pure []
  | m+1 =>
    Dist.bind (Dist.categorical ((List.range sw.length).map fun k => (k, (sw.getD k (T.empty, 0)).2))) fun a =>
      Dist.fmap (fun l => a :: l) (ancestorSeqs sw m)

/-- `_resample_swarm`: slot 0 keeps the retained particle, the other slots are drawn by
`multinomial(N-1, weights)` and laid out in index order; all weights become 1/N -/
def resample (r : Run) (sw : Swarm) : Dist Swarm :=
  if needResample r sw then
    let u : Rat := 1 / (r.N : Rat)
    Dist.norm (Dist.fmap (fun anc =>
      ((sw.getD 0 (T.empty, 0)).1, u) ::
        (Forest.sortNat anc).map fun a => ((sw.getD a (T.empty, 0)).1, u)) (ancestorSeqs sw (r.N - 1)))
  else Dist.pure sw

/-- propose for slots 1.. in order -/
def proposeAll (r : Run) (first last : Bool) (i : Nat) : List (T × Rat) → Dist Swarm
  | [] => Dist.pure []
  | (p, W) :: rest =>
    Dist.bind (propose r first last p W i) fun pw =>
      Dist.fmap (fun l => pw :: l) (proposeAll r first last i rest)

/-- `_init_swarm`: first data point; every slot starts from the empty state with weight 1/N -/
def initSwarm (r : Run) (x : T) (σ : List Nat) : Dist Swarm :=
  match σ with
  | [] => Dist.pure []
  | i :: rest =>
    let u : Rat := 1 / (r.N : Rat)
    let last := rest.isEmpty
    let x1 := restrict x [i]
    Dist.fmap (fun l => (x1, retainedW r true last T.empty x1 u i) :: l)
      (proposeAll r true last i ((List.range (r.N - 1)).map fun _ => (T.empty, u)))

/-- `_update_swarm` for the data point at position `t` (0-based) of σ -/
def update (r : Run) (x : T) (σ : List Nat) (t : Nat) (sw : Swarm) : Dist Swarm :=
  match σ[t]? , sw with
  | some i, (p0, W0) :: rest =>
    let last := t + 1 == σ.length
    let xt := restrict x (σ.take (t + 1))
    Dist.fmap (fun l => (xt, retainedW r false last p0 xt W0 i) :: l) (proposeAll r false last i rest)
  | _, _ => Dist.pure sw

/-- resample-if-needed then update, for positions 1 .. T-1 -/
def sweep (r : Run) (x : T) (σ : List Nat) : Nat → Nat → Dist Swarm → Dist Swarm
  | 0, _, d => d
  | fuel+1, t, d =>
    if t ≥ σ.length then d
    else
      sweep r x σ fuel (t + 1)
        (Dist.norm (Dist.bind d fun sw => Dist.bind (resample r sw) fun sw' => update r x σ t sw'))

/-- `AbstractSMCSampler.sample`: `_init_swarm`, `_resample_swarm`, then for every further data point
`_update_swarm` followed (except after the last one) by `_resample_swarm`.  With a single data point
the loop is empty, so the swarm of the first (= last) step is resampled (if the rule fires) before
the final draw; with more data points the resampling after `_init_swarm` is the one in front of the
first `_update_swarm` in `sweep`. -/
def csmc (r : Run) (x : T) (σ : List Nat) : Dist Swarm :=
  let d0 := Dist.norm (initSwarm r x σ)
  if σ.length = 1 then Dist.norm (Dist.bind d0 fun sw => resample r sw)
  else sweep r x σ σ.length 1 d0

/-- final draw proportional to the swarm weights -/
def select (sw : Swarm) : Dist T := Dist.categorical sw

/-- `ParticleGibbsTreeSampler.sample_tree` -/
def pgStep (r : Run) (x : T) : Dist T :=
  Dist.norm (Dist.bind (Dist.norm (sampleOrder x.f x.out)) fun σ =>
    Dist.bind (csmc r x σ) select)

/-- given the order (for localising disagreements) -/
def pgGiven (r : Run) (x : T) (σ : List Nat) : Dist T :=
  Dist.norm (Dist.bind (csmc r x σ) select)

/-! ### Unconditional SMC (`SMCSampler`, used by the burn-in sampler `UnconditionalSMCSampler`) -/

/-- `SMCSampler._resample_swarm`: all N slots are redrawn by `multinomial(N, weights)` -/
def resampleFree (r : Run) (sw : Swarm) : Dist Swarm :=
  if needResample r sw then
    let u : Rat := 1 / (r.N : Rat)
    Dist.norm (Dist.fmap (fun anc =>
      (Forest.sortNat anc).map fun a => ((sw.getD a (T.empty, 0)).1, u)) (ancestorSeqs sw r.N))
  else Dist.pure sw

def sweepFree (r : Run) (σ : List Nat) : Nat → Nat → Dist Swarm → Dist Swarm
  | 0, _, d => d
  | fuel+1, t, d =>
    match σ[t]? with
    | none => d
    | some i =>
      let last := t + 1 == σ.length
      -- update, then (except after the last data point) resample
      let upd := Dist.norm (Dist.bind d fun sw => proposeAll r (t == 0) last i sw)
      let nxt := if last then upd else Dist.norm (Dist.bind upd fun sw => resampleFree r sw)
      sweepFree r σ fuel (t + 1) nxt

/-- `SMCSampler.sample`: N empty particles with weight 1/N, then one update per data point -/
def smc (r : Run) (σ : List Nat) : Dist Swarm :=
  sweepFree r σ σ.length 0 (Dist.pure ((List.range r.N).map fun _ => (T.empty, 1 / (r.N : Rat))))

/-- `UnconditionalSMCSampler.sample_tree`: the data order is drawn from the current tree, the new
tree is drawn from the final swarm in proportion to the weights -/
def smcStep (r : Run) (x : T) : Dist T :=
  Dist.norm (Dist.bind (Dist.norm (sampleOrder x.f x.out)) fun σ =>
    Dist.bind (smc r σ) select)

end SMC
end PhyModel
