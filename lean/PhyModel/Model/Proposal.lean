import PhyModel.Model.Density
import PhyModel.Model.Dist
/-! Import-free model of the three SMC proposals (C08): the placements of one data point on a parent
state, each proposal both as the table that mirrors `log_p()` and as the `Dist` that mirrors
`sample()`, and the particle weights of `Kernel.create_particle` / `_get_log_w`. -/
namespace PhyModel
open Orders

deriving instance BEq, DecidableEq, Repr for Orders.Forest

/-- a clone tree up to labelling: canonical forest and sorted outlier list -/
structure T where
  f : DF
  out : List Nat
deriving BEq, DecidableEq, Repr

namespace T
def empty : T := ⟨.nil, []⟩
def mk' (f : DF) (out : List Nat) : T := ⟨f.canon, Forest.sortNat out⟩
end T

namespace Dist
/-- draw from unnormalised non-negative weights -/
def categorical {α} (l : List (α × Rat)) : Dist α :=
  let tot := (l.map (·.2)).foldl (· + ·) 0
  l.map fun aw => (aw.1, aw.2 / tot)

def addTo {α} [BEq α] (a : α) (q : Rat) : List (α × Rat) → List (α × Rat)
  | [] => [(a, q)]
  | (b, p) :: l => if a == b then (b, p + q) :: l else (b, p) :: addTo a q l

/-- merge equal outcomes, drop impossible ones -/
def norm {α} [BEq α] (d : Dist α) : Dist α :=
  (d.foldl (fun acc aq => addTo aq.1 aq.2 acc) []).filter fun aq => aq.2 != 0

def fmap {α β} (g : α → β) (d : Dist α) : Dist β := List.map (fun aq => (g aq.1, aq.2)) d
/-- multiply every probability by `c` -/
def scale {α} (c : Rat) (d : Dist α) : Dist α := List.map (fun aq => (aq.1, aq.2 * c)) d
def bernoulli (p : Rat) : Dist Bool := [(true, p), (false, 1 - p)]
end Dist

namespace Proposal

/-- all sublists (as chosen / not chosen split) of the top-level clones, with the number chosen -/
def splits {α} : List α → List (List α × List α)
  | [] => [([], [])]
  | a :: l => (splits l).flatMap fun (c, r) => [(a :: c, r), (c, a :: r)]

inductive Kind where
  | existing (j : Nat)           -- into the j-th top-level clone
  | newNode (children : Nat)     -- new clone above `children` top-level clones
  | outlier
deriving BEq, DecidableEq, Repr

def addAt (i : Nat) : Nat → List (List Nat × DF) → List (List Nat × DF)
  | _, [] => []
  | 0, (d, k) :: r => (d ++ [i], k) :: r
  | j+1, x :: r => x :: addAt i j r

/-- every way of placing data point `i` on the parent state (outlier placement included; callers
filter it by the outlier setting) -/
def placements (p : T) (i : Nat) : List (Kind × T) :=
  let rs := p.f.roots
  ((List.range rs.length).map fun j => (Kind.existing j, T.mk' (Forest.ofRoots (addAt i j rs)) p.out)) ++
  ((splits rs).map fun (c, r) =>
      (Kind.newNode c.length, T.mk' (Forest.ofRoots (([i], Forest.ofRoots c) :: r)) p.out)) ++
  [(Kind.outlier, T.mk' p.f (p.out ++ [i]))]

def binom (n k : Nat) : Rat := (fact n : Rat) / ((fact k : Rat) * (fact (n - k) : Rat))

inductive Prop3 where
  | bootstrap | semi | full
deriving BEq, DecidableEq, Repr

structure Cfg where
  kind : Prop3
  op : Rat            -- outlier proposal probability (0 = outlier modelling off)
  α : Rat
  usePerm : Bool      -- kernel built with a permutation distribution

def pdfOf (c : Cfg) (t : T) : Rat := if c.usePerm then 1 / countCode t.f t.out.length else 1

def pMargT (dt : Data) (c : Cfg) (t : T) : Rat := Density.pMarg dt c.α t.f t.out
def pOneT (dt : Data) (c : Cfg) (t : T) : Rat := Density.pOne dt c.α t.f t.out

/-- the table mirroring `log_p()`: proposal probability of each placement.
`first` = there is no parent particle at all (first data point). -/
def table (dt : Data) (c : Cfg) (first : Bool) (p : T) (i : Nat) : List (T × Rat) :=
  let pl := placements p i
  let r := p.f.numRoots
  let allowOut := c.op != 0
  match c.kind with
  | .bootstrap =>
    pl.filterMap fun (k, t) =>
      match k with
      | .outlier => if allowOut then some (t, c.op) else none
      | .existing _ => some (t, (1 - c.op) / 2 / (r : Rat))
      | .newNode ch =>
        if first || r = 0 then some (t, 1 - c.op)
        else some (t, (1 - c.op) / 2 / ((r : Rat) + 1) / binom r ch)
  | .semi =>
    if r = 0 then
      -- empty parent: new clone and (if allowed) outlier, weighted by the marginal density
      let cand := pl.filter fun (k, _) => match k with
        | .outlier => allowOut | .newNode _ => true | .existing _ => false
      Dist.categorical (cand.map fun (_, t) => (t, pMargT dt c t))
    else
      let ex := pl.filter fun (k, _) => match k with
        | .outlier => allowOut | .existing _ => true | .newNode _ => false
      let exq := Dist.categorical (ex.map fun (_, t) => (t, pMargT dt c t))
      (Dist.scale (1 / 2) exq) ++
      (pl.filterMap fun (k, t) => match k with
        | .newNode ch => some (t, (1 : Rat) / 2 / ((r : Rat) + 1) / binom r ch)
        | _ => none)
  | .full =>
    let cand := pl.filter fun (k, _) => match k with
      | .outlier => allowOut | _ => true
    Dist.categorical (cand.map fun (_, t) => (t, pMargT dt c t))

/-- uniform choice of `c` distinct elements in order (numpy `choice(..., replace=False)`), returned
as the chosen / remaining split -/
def chooseK {α} [BEq α] : Nat → List α → Dist (List α × List α)
  | 0, l => Dist.pure ([], l)
  | c+1, l =>
    Dist.bind (Dist.uniform (List.range l.length)) fun j =>
      match l[j]? with
      | none => []
      | some a => Dist.fmap (fun (ch, r) => (a :: ch, r)) (chooseK c (l.eraseIdx j))

/-- the `Dist` mirroring `sample()` (control flow of the code: Bernoulli thresholds, uniform choice of
a top-level clone, uniform number of children then uniform subset) -/
def sampler (dt : Data) (c : Cfg) (first : Bool) (p : T) (i : Nat) : Dist T :=
  let rs := p.f.roots
  let r := rs.length
  let newNodeD : Dist T :=
    Dist.bind (Dist.uniform (List.range (r + 1))) fun ch =>
      Dist.fmap (fun (cs, rest) => T.mk' (Forest.ofRoots (([i], Forest.ofRoots cs) :: rest)) p.out)
        (chooseK ch rs)
  let outT : T := T.mk' p.f (p.out ++ [i])
  let existingD : Dist T :=
    Dist.fmap (fun j => T.mk' (Forest.ofRoots (addAt i j rs)) p.out) (Dist.uniform (List.range r))
  match c.kind with
  | .bootstrap =>
    if first || r = 0 then
      -- u < 1 - op : new clone, else outlier
      (Dist.scale (1 - c.op) newNodeD) ++
        (if c.op != 0 then [(outT, c.op)] else [])
    else
      (Dist.scale ((1 - c.op) / 2) existingD) ++
      (Dist.scale ((1 - c.op) / 2) newNodeD) ++
      (if c.op != 0 then [(outT, c.op)] else [])
  | .semi =>
    let allowOut := c.op != 0
    if r = 0 then
      Dist.categorical
        ((if allowOut then [(outT, pMargT dt c outT)] else []) ++
         [(T.mk' (Forest.ofRoots [([i], .nil)]) p.out,
           pMargT dt c (T.mk' (Forest.ofRoots [([i], .nil)]) p.out))])
    else
      let ex := ((List.range r).map fun j => T.mk' (Forest.ofRoots (addAt i j rs)) p.out) ++
        (if allowOut then [outT] else [])
      (Dist.scale (1 / 2) (Dist.categorical (ex.map fun t => (t, pMargT dt c t)))) ++
      (Dist.scale (1 / 2) newNodeD)
  | .full => table dt c first p i

/-- `Kernel.create_particle` (+ `_get_log_w` when `last`): incremental weight of moving from the parent
state to `t` when `t` was proposed with probability `q` -/
def incrWeight (dt : Data) (c : Cfg) (first last : Bool) (p t : T) (q : Rat) : Rat :=
  let num := pMargT dt c t * pdfOf c t
  let den := if first then q else pMargT dt c p * pdfOf c p * q
  let w := num / den
  if last then w / pMargT dt c t * pOneT dt c t else w

end Proposal
end PhyModel
