/-! Import-free model of the trace file framing (C20).

`phyclone` writes the whole result with one `pickle.dump` into one `gzip.GzipFile` and every
summary command reads it back with one `pickle.load` from a `gzip.GzipFile`.  Two layers:

* a **self-delimiting serialiser** (`enc` / `decode`) for nested lists of naturals — the role pickle
  plays: an opcode stream whose last symbol closes the outermost object (pickle's `STOP`); the
  decoder reads exactly the symbols of one object and never looks at what follows;
* a **stream container** (`pack` / `deliver`) — the role gzip plays: header (magic), body blocks
  (flag, length, data; the last block carries the final flag = end marker), trailer (checksum,
  length).  `deliver` is the *incremental* reader the real code uses: it hands out every body symbol
  it can reach and, like `gzip` under `pickle.load`, does not consult the trailer unless asked for
  more symbols than the body holds.  `unpack` is the strict reader (end marker and trailer required).

The composed reader is `readLazy` (what the code does) / `readStrict`.  zlib and pickle themselves
are not modelled; their lawfulness is the hypothesis set `Lawful` of the abstract theorem, which
the concrete codec below instantiates. -/
namespace PhyModel.Framing

/-- one stream symbol ("byte") -/
abbrev Sym := Nat

/-- nested lists of naturals in first-item / rest form (no nested inductive):
`nil` = end of list, `num n r` = the number `n` followed by `r`, `sub v r` = the list `v` followed by `r`. -/
inductive Val where
  | nil : Val
  | num : Nat → Val → Val
  | sub : Val → Val → Val
deriving DecidableEq, Repr, Inhabited

namespace Val
def size : Val → Nat
  | nil => 1
  | num _ r => 1 + r.size
  | sub v r => 1 + v.size + r.size
end Val

/-! ### serialiser -/

/-- opcode stream: `0` closes the current list, `1 n` is a number, `2` opens a sub-list -/
def enc : Val → List Sym
  | .nil => [0]
  | .num n r => 1 :: n :: enc r
  | .sub v r => 2 :: (enc v ++ enc r)

/-- recursive-descent decoder with fuel; returns the value and the unread rest -/
def decAux : Nat → List Sym → Option (Val × List Sym)
  | 0, _ => none
  | _ + 1, [] => none
  | f + 1, t :: s =>
    if t = 0 then some (.nil, s)
    else if t = 1 then
      match s with
      | [] => none
      | n :: r =>
        match decAux f r with
        | none => none
        | some (v, r') => some (.num n v, r')
    else if t = 2 then
      match decAux f s with
      | none => none
      | some (v, r') =>
        match decAux f r' with
        | none => none
        | some (w, r'') => some (.sub v w, r'')
    else none

/-- reads one object from the front of the stream; like `pickle.load`, whatever follows the closing
symbol is not looked at -/
def decode (s : List Sym) : Option Val :=
  match decAux (s.length + 1) s with
  | some (v, _) => some v
  | none => none

/-! ### container -/

def header : List Sym := [31, 139, 8]

def checksum (b : List Sym) : Nat := (b.foldl (· + ·) 1) % 65521

def trailer (b : List Sym) : List Sym := [checksum b, b.length]

/-- body blocks of at most `B+1` data symbols: `flag :: len :: data`, flag `1` on the last block -/
def blocksF (B : Nat) : Nat → List Sym → List Sym
  | 0, b => 1 :: b.length :: b
  | f + 1, b =>
    if b.length ≤ B + 1 then 1 :: b.length :: b
    else 0 :: (B + 1) :: (b.take (B + 1) ++ blocksF B f (b.drop (B + 1)))

def blocks (B : Nat) (b : List Sym) : List Sym := blocksF B b.length b

def pack (B : Nat) (b : List Sym) : List Sym := header ++ blocks B b ++ trailer b

/-- incremental body reader: every body symbol reachable in the (possibly cut) block stream -/
def deliverF : Nat → List Sym → List Sym
  | 0, _ => []
  | f + 1, flag :: len :: rest =>
    if flag = 1 then rest.take len
    else if flag = 0 then
      if rest.length < len then rest else rest.take len ++ deliverF f (rest.drop len)
    else []
  | _ + 1, _ => []

/-- `none` = rejected outright (magic missing), otherwise the body symbols that can be handed out -/
def deliver (s : List Sym) : Option (List Sym) :=
  if s.take 3 = header then some (deliverF s.length (s.drop 3)) else none

/-- strict block parser: all blocks up to and including the final one must be complete -/
def parseF : Nat → List Sym → Option (List Sym × List Sym)
  | 0, _ => none
  | f + 1, flag :: len :: rest =>
    if rest.length < len then none
    else if flag = 1 then some (rest.take len, rest.drop len)
    else if flag = 0 then
      match parseF f (rest.drop len) with
      | none => none
      | some (p, r) => some (rest.take len ++ p, r)
    else none
  | _ + 1, _ => none

/-- strict reader: header, every block, the end marker and a matching trailer, nothing else -/
def unpack (s : List Sym) : Option (List Sym) :=
  if s.take 3 = header then
    match parseF s.length (s.drop 3) with
    | some (p, [c, l]) => if c = checksum p ∧ l = p.length then some p else none
    | _ => none
  else none

/-! ### composed readers -/

def readLazy (s : List Sym) : Option Val := (deliver s).bind decode
def readStrict (s : List Sym) : Option Val := (unpack s).bind decode

/-- the file written for `x` -/
def file (B : Nat) (x : Val) : List Sym := pack B (enc x)

/-- what a summary command obtains from the first `n` symbols of the file -/
def readPrefix (B : Nat) (x : Val) (n : Nat) : Option Val := readLazy ((file B x).take n)
def readPrefixStrict (B : Nat) (x : Val) (n : Nat) : Option Val := readStrict ((file B x).take n)

/-- first prefix length from which the whole body can be handed out -/
def bodyEnd (B : Nat) (x : Val) : Nat := header.length + (blocks B (enc x)).length

/-- outcome class of a read: 0 = error, 1 = exactly the original, 2 = something else (never) -/
def outcomeClass (x : Val) : Option Val → Nat
  | none => 0
  | some y => if y = x then 1 else 2

/-! ### abstract version: what the argument needs from *any* serialiser / container

The real `pickle` and `gzip` are not modelled.  The safety argument only uses the four laws below;
they are the explicit assumptions about the real libraries, and the concrete codec above satisfies
them (`Props/C20.lean`), so they are not vacuous. -/

structure Serialiser (α : Type) where
  enc : α → List Sym
  dec : List Sym → Option α

/-- `dec_enc`: loading a stream that starts with a complete dump returns the dumped object and does
not depend on what follows; `dec_proper_prefix`: a dump cut anywhere before its last symbol does not
load. -/
structure Serialiser.Lawful {α : Type} (S : Serialiser α) : Prop where
  dec_enc : ∀ (x : α) (r : List Sym), S.dec (S.enc x ++ r) = some x
  dec_proper_prefix : ∀ (x : α) (p : List Sym), p <+: S.enc x → p ≠ S.enc x → S.dec p = none

structure Container where
  pack : List Sym → List Sym
  deliver : List Sym → Option (List Sym)

/-- `deliver_cut`: from a cut file the reader hands out nothing but a prefix of the body that was
packed (or rejects the file); `deliver_full`: from the complete file it hands out the whole body. -/
structure Container.Lawful (C : Container) : Prop where
  deliver_cut : ∀ (b : List Sym) (n : Nat),
    C.deliver ((C.pack b).take n) = none ∨ ∃ k, C.deliver ((C.pack b).take n) = some (b.take k)
  deliver_full : ∀ b : List Sym, C.deliver (C.pack b) = some b

/-- the composed reader on the first `n` symbols of the file written for `x` -/
def readCut {α : Type} (S : Serialiser α) (C : Container) (x : α) (n : Nat) : Option α :=
  (C.deliver ((C.pack (S.enc x)).take n)).bind S.dec

def valSerialiser : Serialiser Val := ⟨enc, decode⟩
def blockContainer (B : Nat) : Container := ⟨pack B, deliver⟩

end PhyModel.Framing
