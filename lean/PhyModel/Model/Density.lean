import PhyModel.Model.Tree
/-! Import-free model of the FS-CRP joint density in its two forms (C03), written from the
formula in the probability domain. -/
namespace PhyModel
open Orders

def rpow (q : Rat) : Nat → Rat
  | 0 => 1
  | n+1 => q * rpow q n

def factQ (n : Nat) : Rat := (fact n : Rat)

namespace Density

/-- product over clones of `(size - 1)!` -/
def sizeTerm : DF → Rat
  | .nil => 1
  | .cons d k s => factQ (d.length - 1) * sizeTerm k * sizeTerm s

def crp (α : Rat) (f : DF) : Rat := rpow α f.nodes * sizeTerm f

/-- `1 / (K+1)^(K-1)` (1 when there is no clone) -/
def topoMarg (f : DF) : Rat :=
  if f.nodes = 0 then 1 else 1 / rpow ((f.nodes : Rat) + 1) (f.nodes - 1)

/-- product over top-level clones of `1 / m^(m-1)`, m = number of clones in its subtree -/
def subtreeTerm : DF → Rat
  | .nil => 1
  | .cons _ k s => (1 / rpow ((1 + k.nodes : Nat) : Rat) k.nodes) * subtreeTerm s

def cConst : Rat := 1000

/-- penalty for additional top-level clones: `c^{-(r-1)} (1 - c⁻¹) / (1 - c⁻ʳ)`, 1 for r = 0 -/
def rTerm (r : Nat) : Rat :=
  if r = 0 then 1
  else (1 / rpow cConst (r - 1)) * ((1 - 1 / cConst) / (1 - 1 / rpow cConst r))

def topoOne (f : DF) : Rat := subtreeTerm f * rTerm f.numRoots

/-- product over the nodes of the forest of `1 / (number of children)!` -/
def multNodes : DF → Rat
  | .nil => 1
  | .cons _ k s => (1 / factQ k.numRoots) * multNodes k * multNodes s

/-- including the virtual root -/
def mult (f : DF) : Rat := (1 / factQ f.numRoots) * multNodes f

def outlierPriorIn (dt : Data) (l : List Nat) : Rat :=
  prodL (l.map fun i => if dt.opOf i = 0 then 1 else rpow (1 - dt.opOf i) (dt.szOf i))

def outlierPriorOut (dt : Data) (l : List Nat) : Rat :=
  prodL (l.map fun i => if dt.opOf i = 0 then 1 else rpow (dt.opOf i) (dt.szOf i))

/-- marginal likelihood a data point would have alone in a single-clone tree -/
def outlierMarg1 (dt : Data) (i : Nat) : Rat :=
  prodL ((List.range dt.S).map fun s => vsum (rootR dt s (.cons [i] .nil .nil)))

def outlierMarg (dt : Data) (out : List Nat) : Rat := prodL (out.map (outlierMarg1 dt))

def dataMarg (dt : Data) (f : DF) : Rat :=
  if f.numRoots = 0 then 1 else prodL ((List.range dt.S).map fun s => vsum (rootR dt s f))

def dataOne (dt : Data) (f : DF) : Rat :=
  if f.numRoots = 0 then 1 else prodL ((List.range dt.S).map fun s => getQ (rootR dt s f) (dt.G - 1))

def common (dt : Data) (α : Rat) (f : DF) (out : List Nat) : Rat :=
  crp α f * mult f * outlierPriorIn dt f.all * outlierPriorOut dt out * outlierMarg dt out

/-- `TreeJointDistribution.log_p` -/
def pMarg (dt : Data) (α : Rat) (f : DF) (out : List Nat) : Rat :=
  common dt α f out * topoMarg f * dataMarg dt f

/-- `TreeJointDistribution.log_p_one` (the value a trace records) -/
def pOne (dt : Data) (α : Rat) (f : DF) (out : List Nat) : Rat :=
  common dt α f out * topoOne f * dataOne dt f

end Density
end PhyModel
