import PhyModel.Model.Tree
/-! Import-free model of the concentration update (C13):
`phyclone/mcmc/concentration.py: GammaPriorConcentrationSampler.sample`,
`phyclone/run.py: update_concentration_value` and the part of `_run_main_sampler` that decides
which concentration value is in force when a trace entry is written.

The three continuous draws themselves are *not* modelled (scipy is trusted to sample from the
distribution whose parameters it is handed); the model gives the **parameters** of the draws as
exact rational functions of `(a, b, old α, K, n, L, bernoulli outcome)` where `L = -log η ≥ 0`
stands for the only transcendental quantity (`η` is the Beta draw). -/
namespace PhyModel.Conc

/-- `rate = b - np.log(eta)` with `L = -log eta` -/
def rate (b L : Rat) : Rat := b + L

/-- `shape = a + k - 1` (before the Bernoulli outcome is added) -/
def shape0 (a : Rat) (K : Nat) : Rat := a + (K : Rat) - 1

/-- `x = shape / (n * rate)`: the mixture odds `π / (1 - π)` -/
def odds (a b L : Rat) (K n : Nat) : Rat := shape0 a K / ((n : Rat) * rate b L)

/-- `pi = x / (1 + x)` -/
def piOf (x : Rat) : Rat := x / (1 + x)

/-- `shape += bernoulli.rvs(pi)` -/
def shapeOf (a : Rat) (K : Nat) (bern : Bool) : Rat := shape0 a K + (if bern then 1 else 0)

/-- what one call of `sample` hands to scipy when `num_clusters ≥ 1` -/
structure Mix where
  betaA : Rat      -- `beta.rvs(a = old_value + 1, ...)`
  betaB : Rat      -- `beta.rvs(..., b = n)`
  rate : Rat
  odds : Rat
  pi : Rat         -- `bernoulli.rvs(pi)`
  shape : Rat      -- first argument of the final `gamma.rvs`
  scale : Rat      -- `scale = 1 / rate`
deriving Repr, DecidableEq

inductive Plan where
  /-- `num_clusters == 0`: one draw from the prior `gamma.rvs(a, scale = 1/b)` -/
  | prior (shape scale : Rat)
  /-- the Escobar–West step -/
  | mix (m : Mix)
deriving Repr, DecidableEq

/-- The parameters of every draw of `sample(old_value = α, num_clusters = K, num_data_points = n)`
for a sampler built with `(a, b)`, given the Beta draw through `L = -log η` and the Bernoulli
outcome.  `none` where the real code does not produce a value (division by zero / nan):
clones but no data point in them. -/
def plan (a b α : Rat) (K n : Nat) (L : Rat) (bern : Bool) : Option Plan :=
  if K = 0 then some (.prior a (1 / b))
  else if n = 0 ∨ rate b L = 0 ∨ 1 + odds a b L K n = 0 then none
  else some (.mix {
    betaA := α + 1, betaB := n, rate := rate b L, odds := odds a b L K n,
    pi := piOf (odds a b L K n), shape := shapeOf a K bern, scale := 1 / rate b L })

/-- `1e-10` -/
def floorVal : Rat := 1 / 10000000000

/-- `new_value = max(new_value, 1e-10)` — applied to the draw of either branch (after the repair
"apply the concentration floor to the draw from the prior as well") -/
def finish (g : Rat) : Rat := if g < floorVal then floorVal else g

/-! ### `update_concentration_value`: K and n from the tree -/

/-- `tree.node_data` without the virtual root: one entry per clone (key `some label`, here the
preorder position) plus the entry of the outlier set (key `none`, the code's `-1`); the latter is
present only when it was ever touched — `hasOutKey` — and its presence must not matter. -/
def cloneData : DF → List (List Nat)
  | .nil => []
  | .cons d k s => d :: (cloneData k ++ cloneData s)

def keyFrom : Nat → List (List Nat) → List (Option Nat × List Nat)
  | _, [] => []
  | i, d :: l => (some i, d) :: keyFrom (i + 1) l

def nodeData (f : DF) (outs : List Nat) (hasOutKey : Bool) : List (Option Nat × List Nat) :=
  let keyed := keyFrom 0 (cloneData f)
  if hasOutKey ∨ outs ≠ [] then (none, outs) :: keyed else keyed

/-- the loop of `update_concentration_value`: skip the outlier key, collect `len(node_data)` -/
def nodeSizes (nd : List (Option Nat × List Nat)) : List Nat :=
  (nd.filter fun e => e.1.isSome).map fun e => e.2.length

/-- `(len(node_sizes), sum(node_sizes))` -/
def kn (f : DF) (outs : List Nat) (hasOutKey : Bool := false) : Nat × Nat :=
  let s := nodeSizes (nodeData f outs hasOutKey)
  (s.length, s.sum)

/-! ### which value is in force: the shared prior object inside the run loop

`tree_dist.prior` is one object; `update_concentration_value` assigns to its `alpha` property, whose
setter also refreshes `log_alpha`; `append_to_trace` then reads `alpha` and evaluates `log_p_one`
(which reads `log_alpha`) on the same object. -/

/-- the prior object: `_alpha` and the cached `log_alpha` (kept as the value whose log it is) -/
structure Prior where
  alpha : Rat
  logOf : Rat
deriving Repr, DecidableEq

/-- the `alpha` setter -/
def Prior.set (_p : Prior) (v : Rat) : Prior := { alpha := v, logOf := v }

/-- a trace entry as far as the concentration is concerned: iteration, recorded `alpha`, and the
value whose logarithm `log_p_one` used -/
structure Entry where
  iter : Nat
  alpha : Rat
  used : Rat
deriving Repr, DecidableEq

def entry (i : Nat) (p : Prior) : Entry := { iter := i, alpha := p.alpha, used := p.logOf }

/-- iterations `i, i+1, …` of `_run_main_sampler` given the values `sample()` returns (one per
iteration; ignored when `update = false`) -/
def loop (update : Bool) (thin : Nat) : Nat → Prior → List Rat → List Entry
  | _, _, [] => []
  | i, p, v :: vs =>
    let p' := if update then p.set v else p
    let rest := loop update thin (i + 1) p' vs
    if i % thin = 0 then entry i p' :: rest else rest

/-- `setup_trace` followed by the loop -/
def runTrace (update : Bool) (thin : Nat) (init : Rat) (draws : List Rat) : List Entry :=
  let p0 : Prior := { alpha := init, logOf := init }
  entry 0 p0 :: loop update thin 0 p0 draws

end PhyModel.Conc
