import PhyModel.Model.SMC
/-! Import-free model of the auxiliary moves (C04): Gibbs reassignment of single data points
(`DataPointSampler`) and prune-and-regraft of a random subtree (`PruneRegraphSampler`). -/
namespace PhyModel
open Orders Proposal

namespace Moves

/-- every clone as (own data, children), preorder -/
def nodesOf : DF → List (List Nat × DF)
  | .nil => []
  | .cons d k s => (d, k) :: (nodesOf k ++ nodesOf s)

def removeDp (i : Nat) : DF → DF
  | .nil => .nil
  | .cons d k s => .cons (d.filter (· != i)) (removeDp i k) (removeDp i s)

/-- add `i` to the clone whose own data contains `key` -/
def addDpAt (key i : Nat) : DF → DF
  | .nil => .nil
  | .cons d k s => .cons (if d.contains key then d ++ [i] else d) (addDpAt key i k) (addDpAt key i s)

def holderSize (i : Nat) (f : DF) : Nat :=
  match (nodesOf f).find? (fun nd => nd.1.contains i) with
  | some nd => nd.1.length
  | none => 0

/-- remove the clone whose own data contains `key`, with its whole subtree -/
def removeSub (key : Nat) : DF → DF
  | .nil => .nil
  | .cons d k s => if d.contains key then removeSub key s else .cons d (removeSub key k) (removeSub key s)

/-- graft the single-rooted subtree `(sd, sk)` as a child of the clone whose data contains `key` -/
def attachUnder (key : Nat) (sd : List Nat) (sk : DF) : DF → DF
  | .nil => .nil
  | .cons d k s =>
    if d.contains key then .cons d (.cons sd sk k) (attachUnder key sd sk s)
    else .cons d (attachUnder key sd sk k) (attachUnder key sd sk s)

structure Cfg where
  dt : Data
  α : Rat
  outliers : Bool     -- the data-point move may use the outlier set

def pOneOf (c : Cfg) (t : T) : Rat := Density.pOne c.dt c.α t.f t.out

/-- `DataPointSampler._sample_tree` for data point `i` (or no change when it is the only member of a
clone) -/
def dpStep (c : Cfg) (x : T) (i : Nat) : Dist T :=
  let isOut := x.out.contains i
  if !(isOut || holderSize i x.f > 1) then Dist.pure x
  else
    let f0 := removeDp i x.f
    let out0 := x.out.filter (· != i)
    let cands := ((nodesOf f0).map fun nd => T.mk' (addDpAt (nd.1.headD 0) i f0) out0) ++
      (if c.outliers then [T.mk' f0 (out0 ++ [i])] else [])
    Dist.categorical (cands.map fun t => (t, pOneOf c t))

def dpFold (c : Cfg) : List Nat → Dist T → Dist T
  | [], d => d
  | i :: rest, d => dpFold c rest (Dist.norm (Dist.bind d fun x => dpStep c x i))

/-- `DataPointSampler.sample_tree`: one Gibbs scan in a uniformly random order -/
def dataPointMove (c : Cfg) (x : T) : Dist T :=
  Dist.norm (Dist.bind (Dist.uniform (perms (x.f.all ++ x.out))) fun σ => dpFold c σ (Dist.pure x))

/-- `PruneRegraphSampler.sample_tree` -/
def pruneRegraft (c : Cfg) (x : T) : Dist T :=
  let nds := nodesOf x.f
  if nds.length ≤ 1 then Dist.pure x
  else
    Dist.norm (Dist.bind (Dist.uniform nds) fun sub =>
      let key := sub.1.headD 0
      let pruned := removeSub key x.f
      if (nodesOf pruned).isEmpty then Dist.pure x
      else
        let cands := ((nodesOf pruned).map fun nd => T.mk' (attachUnder (nd.1.headD 0) sub.1 sub.2 pruned) x.out) ++
          [T.mk' (.cons sub.1 sub.2 pruned) x.out]
        Dist.categorical (cands.map fun t => (t, pOneOf c t)))

end Moves
end PhyModel
