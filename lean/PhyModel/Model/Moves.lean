import PhyModel.Model.SMC
/-! Import-free model of the auxiliary moves (C04): Gibbs reassignment of single data points
(`DataPointSampler`) and prune-and-regraft of a random subtree (`PruneRegraphSampler`). -/
namespace PhyModel
open Orders Proposal

namespace Moves

/-- every clone as (own data, children), preorder -/
def nodesOf : DF → List (List Nat × DF)
  | .nil => []
  | .cons d k s => (d, k) :: (nodesOf k ++ nodesOf s)

def removeDp (i : Nat) : DF → DF
  | .nil => .nil
  | .cons d k s => .cons (d.filter (· != i)) (removeDp i k) (removeDp i s)

/-- add `i` to the clone whose own data contains `key` -/
def addDpAt (key i : Nat) : DF → DF
  | .nil => .nil
  | .cons d k s => .cons (if d.contains key then d ++ [i] else d) (addDpAt key i k) (addDpAt key i s)

def holderSize (i : Nat) (f : DF) : Nat :=
  match (nodesOf f).find? (fun nd => nd.1.contains i) with
  | some nd => nd.1.length
  | none => 0

/-- remove the clone whose own data contains `key`, with its whole subtree -/
def removeSub (key : Nat) : DF → DF
  | .nil => .nil
  | .cons d k s => if d.contains key then removeSub key s else .cons d (removeSub key k) (removeSub key s)

/-- graft the single-rooted subtree `(sd, sk)` as a child of the clone whose data contains `key` -/
def attachUnder (key : Nat) (sd : List Nat) (sk : DF) : DF → DF
  | .nil => .nil
  | .cons d k s =>
    if d.contains key then .cons d (.cons sd sk k) (attachUnder key sd sk s)
    else .cons d (attachUnder key sd sk k) (attachUnder key sd sk s)

structure Cfg where
  dt : Data
  α : Rat
  outliers : Bool     -- the data-point move may use the outlier set

def pOneOf (c : Cfg) (t : T) : Rat := Density.pOne c.dt c.α t.f t.out

/-- `DataPointSampler._sample_tree` for data point `i` (or no change when it is the only member of a
clone) -/
def dpStep (c : Cfg) (x : T) (i : Nat) : Dist T :=
  let isOut := x.out.contains i
  if !(isOut || holderSize i x.f > 1) then Dist.pure x
  else
    let f0 := removeDp i x.f
    let out0 := x.out.filter (· != i)
    let cands := ((nodesOf f0).map fun nd => T.mk' (addDpAt (nd.1.headD 0) i f0) out0) ++
      (if c.outliers then [T.mk' f0 (out0 ++ [i])] else [])
    Dist.categorical (cands.map fun t => (t, pOneOf c t))

def dpFold (c : Cfg) : List Nat → Dist T → Dist T
  | [], d => d
  | i :: rest, d => dpFold c rest (Dist.norm (Dist.bind d fun x => dpStep c x i))

/-- `DataPointSampler.sample_tree`: one Gibbs scan in a uniformly random order -/
def dataPointMove (c : Cfg) (x : T) : Dist T :=
  Dist.norm (Dist.bind (Dist.uniform (perms (x.f.all ++ x.out))) fun σ => dpFold c σ (Dist.pure x))

/-- `PruneRegraphSampler.sample_tree` -/
def pruneRegraft (c : Cfg) (x : T) : Dist T :=
  let nds := nodesOf x.f
  if nds.length ≤ 1 then Dist.pure x
  else
    Dist.norm (Dist.bind (Dist.uniform nds) fun sub =>
      let key := sub.1.headD 0
      let pruned := removeSub key x.f
      if (nodesOf pruned).isEmpty then Dist.pure x
      else
        let cands := ((nodesOf pruned).map fun nd => T.mk' (attachUnder (nd.1.headD 0) sub.1 sub.2 pruned) x.out) ++
          [T.mk' (.cons sub.1 sub.2 pruned) x.out]
        Dist.categorical (cands.map fun t => (t, pOneOf c t)))

/-- the clone that is the parent of the clone holding `key` (none when that clone is top-level) -/
def parentOf (key : Nat) : DF → Option (List Nat × DF)
  | .nil => none
  | .cons d k s =>
    if (k.roots.any fun r => r.1.contains key) then some (d, k)
    else match parentOf key k with
      | some p => some p
      | none => parentOf key s

/-- graft every root of `sub` under the clone holding `key`, or at the top level when `key` is none -/
def attachAll (key : Option Nat) (sub : List (List Nat × DF)) (f : DF) : DF :=
  match key with
  | none => sub.foldr (fun r acc => .cons r.1 r.2 acc) f
  | some k => sub.foldr (fun r acc => attachUnder k r.1 r.2 acc) f

/-- `ParticleGibbsSubtreeSampler.sample_tree`: pick a data point that is not an outlier, take the
parent of its clone as the root of the region (the virtual root if the clone is top-level), run the
conditional SMC on that subtree together with all outliers, then re-weight every particle by the
ratio of the full tree's density to the subtree's (`_correct_weights`) before the final draw.  With
every data point an outlier the whole-tree update is used. -/
def subtreeMove (r : SMC.Run) (x : T) : Dist T :=
  let dps := x.f.all
  if dps.isEmpty then SMC.pgStep r x
  else
    Dist.norm (Dist.bind (Dist.uniform dps) fun i =>
      let (region, remaining, graftKey) : DF × DF × Option Nat :=
        match parentOf i x.f with
        | none => (x.f, Orders.Forest.nil, none)
        | some (pd, pk) =>
          let key := pd.headD 0
          (Orders.Forest.cons pd pk .nil, removeSub key x.f, (parentOf key x.f).map fun g => g.1.headD 0)
      let xs := T.mk' region x.out
      Dist.bind (Dist.norm (sampleOrder xs.f xs.out)) fun σ =>
        Dist.bind (SMC.csmc r xs σ) fun sw =>
          Dist.categorical (sw.map fun (tw : T × Rat) =>
            let full := T.mk' (attachAll graftKey tw.1.f.roots remaining) tw.1.out
            (full, tw.2 / Density.pOne r.dt r.c.α tw.1.f tw.1.out * Density.pOne r.dt r.c.α full.f full.out)))

/-! ### The random-subtree move, factored through the region choice

`subtreeMove` above is what the correspondence check runs against the real sampler and is left as it
is.  `regionOf` is its region choice, `subtreeGiven` everything that follows once the region is
fixed, `subtreeVia` the composition; `Proofs/PGSub1.lean` shows `subtreeMove = subtreeVia`. -/

/-- the region selected through data point `i`: (forest of the region, remaining forest, graft point) -/
def regionOf (x : T) (i : Nat) : DF × DF × Option Nat :=
  match parentOf i x.f with
  | none => (x.f, Orders.Forest.nil, none)
  | some (pd, pk) =>
    let key := pd.headD 0
    (Orders.Forest.cons pd pk .nil, removeSub key x.f, (parentOf key x.f).map fun g => g.1.headD 0)

/-- the full tree: the subtree `t` grafted back onto the remaining forest (under the clone holding the
graft key, or at the top level); the subtree carries all outliers -/
def graftBack (rem : DF) (graftKey : Option Nat) (t : T) : T :=
  T.mk' (attachAll graftKey t.f.roots rem) t.out

/-- `_correct_weights`: every particle becomes the full tree, its weight is divided by the subtree's
density and multiplied by the full tree's -/
def correctWeights (r : SMC.Run) (rem : DF) (graftKey : Option Nat) (sw : SMC.Swarm) : List (T × Rat) :=
  sw.map fun (tw : T × Rat) =>
    let full := graftBack rem graftKey tw.1
    (full, tw.2 / Density.pOne r.dt r.c.α tw.1.f tw.1.out * Density.pOne r.dt r.c.α full.f full.out)

/-- the random-subtree move once the region is fixed: conditional SMC on the subtree `xs` (region and
all outliers) along a random compatible order, weight correction, final draw -/
def subtreeGiven (r : SMC.Run) (rem : DF) (graftKey : Option Nat) (xs : T) : Dist T :=
  Dist.bind (Dist.norm (sampleOrder xs.f xs.out)) fun σ =>
    Dist.bind (SMC.csmc r xs σ) fun sw => Dist.categorical (correctWeights r rem graftKey sw)

/-- region choice, then `subtreeGiven` -/
def subtreeVia (r : SMC.Run) (x : T) : Dist T :=
  let dps := x.f.all
  if dps.isEmpty then SMC.pgStep r x
  else
    Dist.norm (Dist.bind (Dist.uniform dps) fun i =>
      let reg := regionOf x i
      subtreeGiven r reg.2.1 reg.2.2 (T.mk' reg.1 x.out))

end Moves
end PhyModel
