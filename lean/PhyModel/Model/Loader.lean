/-! # Input loader (`phyclone/data/pyclone.py`)

Rows of the input table as records; the loading pipeline as list functions, mirroring
`load_pyclone_data` step by step (the code as it is, quirks included):

* `_remove_cn_zero_mutations`      → `positive`   (keep rows with `major_cn > 0`)
* `sorted(df.sample_id.unique())`   → `samplesOf`  (sorted distinct sample ids of what is left)
* `_remove_duplicated_and_partially_absent_mutations` → `complete`
  (the *count-based* filter: keep the rows of a mutation whose remaining row count equals the
  number of samples)
* `_process_required_cols_on_df`    → defaults in `entry`
* `_create_loaded_pyclone_data_dict` → sort by mutation id, per mutation one entry per sample in
  sorted sample order (`pick` mirrors `group.at[sample, col]`: `KeyError` when the sample has no row,
  a `Series` — hence a `ValueError` in `get_major_cn_prior` — when it has several)
* `get_major_cn_prior`              → `majorCnPrior` (genotype rows and VAF rows; `major < minor`
  rejected)
* `load_data` / `_create_clustered_data_arr` → `loadData`, `loadClustered` (numbering 0..n-1).

Identifiers are strings compared code point by code point (Python `str` order = Lean `String`
order); integer-looking identifier columns, which pandas parses as numbers and sorts numerically,
are outside this model (the harness records what pandas does there).  Core Lean only. -/

namespace PhyModel.Loader

/-- one line of the input table; `tc` / `err` are read only when the table has the column -/
structure Row where
  mid : String
  sample : String
  ref : Nat
  alt : Nat
  major : Nat
  minor : Nat
  normal : Nat
  tc : Rat
  err : Rat
deriving DecidableEq, Repr

/-- what the real code raises -/
inductive LoadErr where
  /-- `group.at[sample, ...]` on a sample without a row for the mutation: `KeyError` -/
  | missingCell (m s : String)
  /-- several rows for (mutation, sample) in a group that passed the count filter: `ValueError` -/
  | dupCell (m s : String)
  /-- `MajorCopyNumberError` -/
  | majorLtMinor (major minor : Nat)
  /-- cluster path: a kept mutation that the cluster file does not mention: `KeyError` -/
  | noCluster (m : String)
deriving DecidableEq, Repr

/-- `SampleDataPoint(a, b, cn, mu, log_pi, t)`; `log_pi` is uniform over the rows of `cn` -/
structure Entry where
  a : Nat
  b : Nat
  cn : List (Nat × Nat × Nat)
  mu : List (Rat × Rat × Rat)
  t : Rat
deriving DecidableEq, Repr

def defaultTumourContent : Rat := 1
def defaultErrorRate : Rat := 1 / 1000

/-! ## generic helpers -/

/-- keep the last of equal elements (on a sorted list: adjacent duplicates collapse) -/
def dedup {α} [DecidableEq α] : List α → List α
  | [] => []
  | a :: t => if a ∈ t then dedup t else a :: dedup t

def strLe (a b : String) : Bool := decide (a ≤ b)
def natLe (a b : Nat) : Bool := decide (a ≤ b)

/-- `sorted(set(l))` -/
def sortedDistinct {α} [DecidableEq α] (le : α → α → Bool) (l : List α) : List α :=
  dedup (l.mergeSort le)

/-- `mapM` in the exception monad, first error wins (explicit recursion: easier to reason about) -/
def mapE {α β ε} (f : α → Except ε β) : List α → Except ε (List β)
  | [] => .ok []
  | a :: t =>
    match f a with
    | .error e => .error e
    | .ok b =>
      match mapE f t with
      | .error e => .error e
      | .ok bs => .ok (b :: bs)

/-- `enumerate(l, n)` -/
def enumFrom {α} (n : Nat) : List α → List (Nat × α)
  | [] => []
  | a :: t => (n, a) :: enumFrom (n + 1) t

/-! ## the pipeline -/

/-- `_remove_cn_zero_mutations` -/
def positive (rows : List Row) : List Row := rows.filter fun r => decide (0 < r.major)

/-- `sorted(df["sample_id"].unique())` -/
def samplesOf (rows : List Row) : List String := sortedDistinct strLe (rows.map (·.sample))

/-- size of the `groupby(mutation_id)` group -/
def countMut (rows : List Row) (m : String) : Nat := (rows.filter fun r => decide (r.mid = m)).length

/-- `_remove_duplicated_and_partially_absent_mutations`: `df.loc[group_size == samples_len]` -/
def complete (rows : List Row) (n : Nat) : List Row :=
  rows.filter fun r => decide (countMut rows r.mid = n)

/-- keys of the sorted group-by -/
def mutsOf (rows : List Row) : List String := sortedDistinct strLe (rows.map (·.mid))

/-- rows of one (mutation, sample) cell -/
def cell (rows : List Row) (m s : String) : List Row :=
  rows.filter fun r => decide (r.mid = m ∧ r.sample = s)

/-- `group.at[sample, col]` followed by the scalar use of the value -/
def pick (m s : String) : List Row → Except LoadErr Row
  | [] => .error (.missingCell m s)
  | [r] => .ok r
  | _ :: _ :: _ => .error (.dupCell m s)

/-- `get_major_cn_prior`: genotype rows `(normal, normal, total)` once per `x = 1..major` with
variant allele frequency `min(1 - err, x / total)`, plus `(normal, total, total)` with `1 / total`
unless that tuple is already present. -/
def majorCnPrior (major minor normal : Nat) (err : Rat) :
    Except LoadErr (List (Nat × Nat × Nat) × List (Rat × Rat × Rat)) :=
  let total := major + minor
  if major < minor then .error (.majorLtMinor major minor) else
  let vaf (x : Nat) : Rat := min (1 - err) ((x : Rat) / (total : Rat))
  let cn := List.replicate major (normal, normal, total)
  let mu := (List.range major).map fun i => (err, err, vaf (i + 1))
  let after := (normal, total, total)
  if after ∈ cn then .ok (cn, mu) else .ok (cn ++ [after], mu ++ [(err, err, vaf 1)])

/-- one `SampleDataPoint`; the optional columns default to 1.0 and 0.001 when absent -/
def entry (hasTC hasErr : Bool) (r : Row) : Except LoadErr Entry :=
  match majorCnPrior r.major r.minor r.normal (if hasErr then r.err else defaultErrorRate) with
  | .error e => .error e
  | .ok (cn, mu) =>
    .ok { a := r.ref, b := r.alt, cn := cn, mu := mu, t := if hasTC then r.tc else defaultTumourContent }

/-- the entry of one (mutation, sample) cell: `group.at[sample, ...]`, then `SampleDataPoint` -/
def cellEntry (hasTC hasErr : Bool) (kept : List Row) (m s : String) : Except LoadErr Entry :=
  match pick m s (cell kept m s) with
  | .error e => .error e
  | .ok r => entry hasTC hasErr r

/-- the per-sample vector of one mutation, in the order of `samples` -/
def mutEntries (hasTC hasErr : Bool) (kept : List Row) (samples : List String) (m : String) :
    Except LoadErr (String × List Entry) :=
  match mapE (cellEntry hasTC hasErr kept m) samples with
  | .error e => .error e
  | .ok es => .ok (m, es)

/-- the rows that survive both filters -/
def keptRows (rows : List Row) : List Row :=
  complete (positive rows) (samplesOf (positive rows)).length

/-- `load_pyclone_data`: `(samples, [(mutation, [entry per sample])])` -/
def load (hasTC hasErr : Bool) (rows : List Row) :
    Except LoadErr (List String × List (String × List Entry)) :=
  match mapE (mutEntries hasTC hasErr (keptRows rows) (samplesOf (positive rows))) (mutsOf (keptRows rows)) with
  | .error e => .error e
  | .ok data => .ok (samplesOf (positive rows), data)

/-- `load_data` without a cluster file: data points `(idx, name, entries)` -/
def loadData (hasTC hasErr : Bool) (rows : List Row) :
    Except LoadErr (List String × List (Nat × String × List Entry)) :=
  match load hasTC hasErr rows with
  | .error e => .error e
  | .ok (samples, data) => .ok (samples, enumFrom 0 data)

/-! ## cluster path (`_setup_cluster_df` with `assign_loss_prob = False`, `_create_clustered_data_arr`) -/

/-- one line of the cluster file restricted to the three columns the code keeps -/
structure CRow where
  mid : String
  cid : Nat
  prob : Option Rat   -- `none`: the file has no `outlier_prob` column
deriving DecidableEq, Repr

/-- `drop_duplicates()` (first occurrences, order kept) -/
def dropDups {α} [DecidableEq α] : List α → List α → List α
  | _, [] => []
  | seen, a :: t => if a ∈ seen then dropDups seen t else a :: dropDups (a :: seen) t

/-- the `outlier_prob` column after `_setup_cluster_df` (no loss-probability assignment) -/
def resolveProb (op : Rat) : Option Rat → Rat
  | none => op
  | some p => if op = 0 then 0 else if p = 0 then op else p

structure Cluster where
  idx : Nat
  cid : Nat
  members : List String   -- kept mutations summed into this data point, in sorted order
  size : Nat              -- `value_counts` of the cluster id in the de-duplicated cluster file
  prob : Rat
deriving DecidableEq, Repr

/-- `dict` built from a column pair: the last line wins -/
def lastWhere {α} (p : α → Bool) (l : List α) : Option α := (l.filter p).getLast?

/-- `clusters[mut]` for one kept mutation -/
def assignOne (cl : List CRow) (me : String × List Entry) : Except LoadErr (String × Nat) :=
  match lastWhere (fun c => decide (c.mid = me.1)) cl with
  | none => .error (.noCluster me.1)
  | some c => .ok (me.1, c.cid)

/-- one clustered data point: index, cluster id, the kept mutations summed into it -/
def mkCluster (cl : List CRow) (op : Rat) (assigned : List (String × Nat)) (ic : Nat × Nat) : Cluster :=
  { idx := ic.1, cid := ic.2,
    members := (assigned.filter fun a => decide (a.2 = ic.2)).map (·.1),
    size := (cl.filter fun c => decide (c.cid = ic.2)).length,
    prob := match lastWhere (fun c => decide (c.cid = ic.2)) cl with
            | none => op
            | some c => resolveProb op c.prob }

/-- `_create_clustered_data_arr`: clusters of the kept mutations in sorted cluster-id order -/
def clustersOf (cl : List CRow) (op : Rat) (assigned : List (String × Nat)) : List Cluster :=
  (enumFrom 0 (sortedDistinct natLe (assigned.map (·.2)))).map (mkCluster cl op assigned)

def loadClustered (hasTC hasErr : Bool) (rows : List Row) (clRaw : List CRow) (op : Rat) :
    Except LoadErr (List String × List Cluster) :=
  match load hasTC hasErr rows with
  | .error e => .error e
  | .ok (samples, data) =>
    match mapE (assignOne (dropDups [] clRaw)) data with
    | .error e => .error e
    | .ok assigned => .ok (samples, clustersOf (dropDups [] clRaw) op assigned)

end PhyModel.Loader
