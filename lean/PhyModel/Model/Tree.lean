import PhyModel.Model.Orders
import PhyModel.Model.Lik
/-! Import-free model: data forests (clone trees up to labelling), the data set, and the bridge
to the likelihood recursion of `Lik`.  A tree is `(DF, outliers)`. -/
namespace PhyModel

/-- first-child / next-sibling forest whose nodes carry the indices of their data points -/
abbrev DF := Orders.Forest

namespace Orders.Forest
open Orders (fact)

def nodes : DF → Nat
  | .nil => 0
  | .cons _ k s => 1 + nodes k + nodes s

def roots : DF → List (List Nat × DF)
  | .nil => []
  | .cons d k s => (d, k) :: roots s

def ofRoots : List (List Nat × DF) → DF
  | [] => .nil
  | (d, k) :: r => .cons d k (ofRoots r)

def numRoots : DF → Nat
  | .nil => 0
  | .cons _ _ s => 1 + numRoots s

def listMin : List Nat → Nat → Nat
  | [], m => m
  | a :: l, m => listMin l (if a < m then a else m)

/-- smallest data index in the forest (bound `m` when empty) -/
def minDp : DF → Nat → Nat
  | .nil, m => m
  | .cons d k s, m => minDp s (minDp k (listMin d m))

def big : Nat := 1000000000

def rootKey (r : List Nat × DF) : Nat := minDp r.2 (listMin r.1 big)

def insertSorted (r : List Nat × DF) : List (List Nat × DF) → List (List Nat × DF)
  | [] => [r]
  | x :: l => if rootKey r ≤ rootKey x then r :: x :: l else x :: insertSorted r l

def sortRoots (l : List (List Nat × DF)) : List (List Nat × DF) := l.foldr insertSorted []

def insertNat (a : Nat) : List Nat → List Nat
  | [] => [a]
  | b :: l => if a ≤ b then a :: b :: l else b :: insertNat a l

def sortNat (l : List Nat) : List Nat := l.foldr insertNat []

/-- canonical form: data lists sorted, siblings sorted by the smallest data index of their clade -/
def canon : DF → DF
  | .nil => .nil
  | .cons d k s => ofRoots (insertSorted (sortNat d, canon k) (roots (canon s)))

end Orders.Forest

/-- a data set: `vals i s` is the likelihood vector (probability domain) of data point `i` in sample
`s`; `op i` the outlier prior probability of data point `i` (0 = outlier modelling off for it);
`sz i` its cluster size -/
structure Data where
  G : Nat
  S : Nat
  vals : List (List Vec)
  op : List Rat
  sz : List Nat

namespace Data
def L (dt : Data) (i s : Nat) : Vec := (dt.vals.getD i []).getD s []
def n (dt : Data) : Nat := dt.vals.length
def opOf (dt : Data) (i : Nat) : Rat := dt.op.getD i 0
def szOf (dt : Data) (i : Nat) : Nat := dt.sz.getD i 1
def prior (dt : Data) : Rat := 1 / (dt.G : Rat)
end Data

def prodL (l : List Rat) : Rat := l.foldl (· * ·) 1

/-- a clone's own vector: uniform grid prior times the product of its data likelihoods -/
def nodeP (dt : Data) (s : Nat) (d : List Nat) : Vec :=
  (List.range dt.G).map fun k => dt.prior * prodL (d.map fun i => getQ (dt.L i s) k)

def toLik (dt : Data) (s : Nat) : DF → Forest
  | .nil => .nil
  | .cons d k sb => .cons (nodeP dt s d) (toLik dt s k) (toLik dt s sb)

/-- `log_r` of a clone with data `d` and children `k` -/
def nodeR (dt : Data) (s : Nat) (d : List Nat) (k : DF) : Vec :=
  pmul dt.G (nodeP dt s d) (prefixSum dt.G (D dt.G (toLik dt s k)))

/-- `log_r` of the virtual root (prior only): `tree.data_log_likelihood[s, :]` -/
def rootR (dt : Data) (s : Nat) (f : DF) : Vec :=
  (prefixSum dt.G (D dt.G (toLik dt s f))).map fun x => dt.prior * x

def vsum (v : Vec) : Rat := v.foldl (· + ·) 0

end PhyModel
