/-! Import-free executable model of the **rustworkx graph** inside `phyclone.tree.Tree` (C07, first
clause): a digraph in which shape is *not* structural.  `DG` = the live node indices plus the edge
list; the primitives mirror the `PyDiGraph` calls `tree.py` makes (`add_node`, `add_edge`,
`remove_edge`, `remove_nodes_from`, `remove_node_retain_edges`, `subgraph`, `compose`,
`extend_from_edge_list`, `descendants`, `successors`, `predecessors`, `copy`), and the `g…`
definitions are the graph part of each `Tree` method, composed from the primitives in the order the
Python composes them.

Indices that rustworkx hands out for new nodes (free-list reuse, compaction in `subgraph`) are
**parameters**: a single index for `add_node`, a renaming `ρ : Nat → Nat` of the source graph's
indices for `subgraph` / `compose`.  A primitive returns `none` where rustworkx raises (`remove_edge`
of a missing edge, `add_edge` / `descendants` on a dead index) and, as a guard of the model itself,
where the indices passed in are already in use or collide (rustworkx never does that).  The edge list
is in insertion order; rustworkx re-uses edge slots, so `edge_list()` of the real graph is compared
as a multiset.  There are no payloads here: names, data and caches are `Model/Store.lean`. -/
namespace PhyModel.Graph

structure DG where
  /-- live node indices (`node_indices()`); the virtual root is index 0 -/
  nodes : List Nat
  /-- `edge_list()`: (parent, child), insertion order -/
  edges : List (Nat × Nat)
deriving DecidableEq, Repr

def distinctB : List Nat → Bool
  | [] => true
  | a :: l => !l.contains a && distinctB l

namespace DG

def live (g : DG) (i : Nat) : Bool := g.nodes.contains i

/-- `successor_indices(i)` / `successors(i)` (as a set; rustworkx lists the newest edge first) -/
def successors (g : DG) (i : Nat) : List Nat := (g.edges.filter (·.1 == i)).map (·.2)

/-- `predecessor_indices(i)` / `predecessors(i)` -/
def predecessors (g : DG) (i : Nat) : List Nat := (g.edges.filter (·.2 == i)).map (·.1)

/-- `add_node(payload)` where rustworkx hands out index `i` -/
def addNode (g : DG) (i : Nat) : Option DG :=
  if g.live i then none else some { g with nodes := g.nodes ++ [i] }

/-- `add_edge(a, b, None)`: IndexError when an endpoint is not in the graph -/
def addEdge (g : DG) (a b : Nat) : Option DG :=
  if g.live a && g.live b then some { g with edges := g.edges ++ [(a, b)] } else none

/-- `remove_edge(a, b)`: NoEdgeBetweenNodes when there is none; one edge of a parallel bundle goes -/
def removeEdge (g : DG) (a b : Nat) : Option DG :=
  if g.edges.contains (a, b) then some { g with edges := g.edges.erase (a, b) } else none

/-- `remove_nodes_from(is)`: the nodes and every edge touching one of them; unknown indices are ignored -/
def removeNodesFrom (g : DG) (is : List Nat) : DG :=
  { nodes := g.nodes.filter fun v => !is.contains v,
    edges := g.edges.filter fun e => !is.contains e.1 && !is.contains e.2 }

/-- `remove_node_retain_edges(i)`: an edge parent → child for every (incoming, outgoing) pair, then the
node goes (with every edge touching it, new ones included); no error on an unknown index -/
def removeNodeRetainEdges (g : DG) (i : Nat) : DG :=
  let cross := (g.predecessors i).flatMap fun p => (g.successors i).map fun c => (p, c)
  removeNodesFrom { g with edges := g.edges ++ cross } [i]

/-- children of the nodes in `S` -/
def succOf (g : DG) (S : List Nat) : List Nat := (g.edges.filter fun e => S.contains e.1).map (·.2)

/-- children of `S` not yet in `S`, each once -/
def frontier (g : DG) (S : List Nat) : List Nat := (g.succOf S).eraseDups.filter fun v => !S.contains v

/-- breadth-first closure of `S` under the edges -/
def closure (g : DG) : Nat → List Nat → List Nat
  | 0, S => S
  | fuel + 1, S =>
    let nw := g.frontier S
    if nw.isEmpty then S else closure g fuel (S ++ nw)

/-- every node reachable from `i`, `i` included (each round adds a new edge target, so `edges.length`
rounds are enough: `Proofs/GraphClosure.lean`) -/
def reachFrom (g : DG) (i : Nat) : List Nat := g.closure g.edges.length [i]

/-- `rx.descendants(graph, i)`: everything reachable from `i` except `i`; IndexError on a dead index -/
def descendants (g : DG) (i : Nat) : Option (List Nat) :=
  if g.live i then some ((g.reachFrom i).filter (· != i)) else none

/-- `subgraph(is)`: a new graph on the listed live nodes and the edges among them; the new graph numbers
its nodes afresh (`ρ`; rustworkx uses 0, 1, … in increasing order of the old index) -/
def subgraph (g : DG) (is : List Nat) (ρ : Nat → Nat) : Option DG :=
  let ns := (g.nodes.filter is.contains).map ρ
  if distinctB ns then
    some { nodes := ns,
           edges := (g.edges.filter fun e => is.contains e.1 && is.contains e.2).map fun e => (ρ e.1, ρ e.2) }
  else none

/-- `compose(other, node_map)`: every node of `other` is added (under the index `ρ` gives it), every
edge of `other`, then one edge `a → ρ b` per `node_map` entry `{a: (b, None)}`.  `none`: the indices
passed in are in use or collide (model guard), or a `node_map` entry names a dead node of `self` or
of `other` (rustworkx then panics or links a recycled slot; `tree.py` reads the payload of the parent
before it calls `compose`). -/
def compose (g other : DG) (nodeMap : List (Nat × Nat)) (ρ : Nat → Nat) : Option DG :=
  let ns := other.nodes.map ρ
  if ns.any g.live || !distinctB ns then none
  else if nodeMap.any fun e => !g.live e.1 || !other.live e.2 then none
  else some { nodes := g.nodes ++ ns,
              edges := g.edges ++ other.edges.map (fun e => (ρ e.1, ρ e.2)) ++ nodeMap.map fun e => (e.1, ρ e.2) }

/-- `extend_from_edge_list(edges)` on a graph without holes (indices `0 … n-1`, the only way `from_dict`
uses it): nodes are added until both endpoints exist, then the edge -/
def extendFromEdgeList (g : DG) (edges : List (Nat × Nat)) : DG :=
  edges.foldl (fun g e =>
    let m := max e.1 e.2
    let n := g.nodes.length
    { nodes := if m < n then g.nodes else g.nodes ++ List.range' n (m + 1 - n), edges := g.edges ++ [e] }) g

end DG

open DG

/-! ### the graph part of each `Tree` method -/

/-- `Tree(grid_size)`: `PyDiGraph()`, `add_node(root)` -/
def gInit : DG := { nodes := [0], edges := [] }

/-- `create_root_node(children)`: `add_node`, `add_edge(root, new)`, then for each child
`remove_edge(root, child)`; `add_edge(new, child)` -/
def gCreateRootNode (g : DG) (new : Nat) (kids : List Nat) : Option DG := do
  let g1 ← g.addNode new
  let g2 ← g1.addEdge 0 new
  kids.foldlM (fun g c => do let g' ← g.removeEdge 0 c; g'.addEdge new c) g2

/-- `get_subtree(r)`, `r` a clone: `subgraph([r] + descendants(r))` (numbered by `ρ₁`), composed into a
fresh graph (numbered by `ρ₂`) with an edge from its root to the image of `r` -/
def gGetSubtree (g : DG) (r : Nat) (ρ₁ ρ₂ : Nat → Nat) : Option DG := do
  let d ← g.descendants r
  let sg ← g.subgraph (r :: d) ρ₁
  gInit.compose sg [(0, ρ₁ r)] ρ₂

/-- `remove_subtree(sub)`, the branch that keeps part of the tree:
`remove_nodes_from(descendants(r) + [r])` -/
def gRemoveSubtree (g : DG) (r : Nat) : Option DG := do
  let d ← g.descendants r
  pure (g.removeNodesFrom (d ++ [r]))

/-- `add_subtree(sub, parent)`: the payload of `parent` is read (IndexError on a dead index), `compose`
with an edge `parent → copy of sub's root`, then `remove_node_retain_edges(copy of sub's root)` -/
def gAddSubtree (g sub : DG) (parent : Nat) (ρ : Nat → Nat) : Option DG := do
  if !g.live parent then none
  let g1 ← g.compose sub [(parent, 0)] ρ
  pure (g1.removeNodeRetainEdges (ρ 0))

/-- `from_dict`: root node, then (only with a non-empty edge list) `extend_from_edge_list` and
`remove_nodes_from` of the indices that `node_idx_rev` (`live`) does not list -/
def gFromDict (edges : List (Nat × Nat)) (live : List Nat) : DG :=
  if edges.isEmpty then gInit
  else
    let g1 := gInit.extendFromEdgeList edges
    g1.removeNodesFrom (g1.nodes.filter fun v => !live.contains v)

/-- `PyDiGraph.copy()` -/
def gCopy (g : DG) : DG := g

/-! ### decidable shape check (`Proofs/GraphInv.lean`: `isForestB g = true ↔ IsForest g`) -/

def isForestB (g : DG) : Bool :=
  distinctB g.nodes && g.live 0 &&
  g.edges.all (fun e => g.live e.1 && g.live e.2 && e.2 != 0) &&
  g.nodes.all (fun v => v == 0 || (g.edges.map (·.2)).count v == 1) &&
  (let R := g.reachFrom 0; g.nodes.all R.contains)

/-! ### histories over several live graphs (the handles of `Store.Sys`) -/

/-- a renaming given as an association list (identity elsewhere) -/
def ren (m : List (Nat × Nat)) (i : Nat) : Nat := (m.lookup i).getD i

inductive GOp where
  /-- `Tree(grid_size)` -/
  | fresh
  | create (h new : Nat) (kids : List Nat)
  /-- `get_subtree(clone)`; the result is a new handle -/
  | getSub (h r : Nat) (m₁ m₂ : List (Nat × Nat))
  | rmSub (h r : Nat)
  /-- `remove_subtree(sub)` with `sub == self`: `self.__init__` -/
  | reinit (h : Nat)
  | addSub (h hs parent : Nat) (m : List (Nat × Nat))
  /-- `copy()` and `get_subtree(root)`; the result is a new handle -/
  | copy (h : Nat)
  /-- `from_dict` of a dictionary with the given `graph` and `node_idx_rev` keys replaces handle `h` -/
  | fromDict (h : Nat) (edges : List (Nat × Nat)) (live : List Nat)

abbrev GSys := List DG

def gStep (sys : GSys) : GOp → Option GSys
  | .fresh => some (sys ++ [gInit])
  | .create h new kids => do let g ← sys[h]?; let r ← gCreateRootNode g new kids; pure (sys.set h r)
  | .getSub h r m₁ m₂ => do let g ← sys[h]?; let s ← gGetSubtree g r (ren m₁) (ren m₂); pure (sys ++ [s])
  | .rmSub h r => do let g ← sys[h]?; let g' ← gRemoveSubtree g r; pure (sys.set h g')
  | .reinit h => do let _ ← sys[h]?; pure (sys.set h gInit)
  | .addSub h hs p m => do
    let g ← sys[h]?; let sb ← sys[hs]?; let g' ← gAddSubtree g (gCopy sb) p (ren m); pure (sys.set h g')
  | .copy h => do let g ← sys[h]?; pure (sys ++ [gCopy g])
  | .fromDict h edges live => do let _ ← sys[h]?; pure (sys.set h (gFromDict edges live))

/-- the side conditions of the call sites that success of the primitives does not imply
(`Proofs/GraphStep.lean`: `gLegalB op = true ↔ GLegal op`) -/
def gLegalB : GOp → Bool
  | .create _ new kids => kids.all (· != new)
  | .rmSub _ r => r != 0
  | .fromDict _ edges live => isForestB { nodes := live, edges := edges }
  | _ => true

def gRun (sys : GSys) (ops : List GOp) : Option GSys := ops.foldlM gStep sys

end PhyModel.Graph
