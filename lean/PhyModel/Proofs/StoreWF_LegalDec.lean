import PhyModel.Proofs.StoreWF_Dec
/-! C07: a decidable sufficient condition for `Legal` / `LegalRun`, so that a concrete history can be
shown legal by `decide +kernel` (non-vacuity of `wf_reachable`). -/
namespace PhyModel.Store
open PhyModel PhyModel.Store PhyModel.Store.Store SF AL

/-- the `remove_subtree` side condition, with the witnesses computed -/
def rmLegalD (s sb : Store) : Prop :=
  Store.keyEq sb s = true ∨
    match sb.roots with
    | [r] => match s.nodeIdx.lookup r with
      | some i => match s.forest.findSub i with
        | some x => sb.nodes.Perm (SF.cons x.1 x.2 .nil).names
        | none => False
      | none => False
    | _ => False

instance (s sb : Store) : Decidable (rmLegalD s sb) := by
  unfold rmLegalD
  split
  · split
    · split <;> infer_instance
    · infer_instance
  · infer_instance

theorem rmLegal_of_dec {s sb : Store} (h : rmLegalD s sb) (hne : Store.keyEq sb s = false) :
    ∃ r i x, sb.roots = [r] ∧ s.nodeIdx.lookup r = some i ∧ s.forest.findSub i = some x ∧
      sb.nodes.Perm (SF.cons x.1 x.2 .nil).names := by
  unfold rmLegalD at h
  rcases h with h | h
  · rw [hne] at h; cases h
  · split at h
    · rename_i r hr
      split at h
      · rename_i i hi
        split at h
        · rename_i x hx; exact ⟨r, i, x, hr, hi, hx, h⟩
        · cases h
      · cases h
    · cases h

/-- decidable rendering of `Legal` (the handles are looked up instead of quantified over) -/
def legalD (sys : Sys) : Op → Prop
  | .create h _ d => d ≠ [] ∧ ∀ s ∈ sys[h]?, Dense s ∧ ∀ x ∈ d, x ∉ s.data.flatMap (·.2)
  | .createAdd h _ _ => ∀ s ∈ sys[h]?, Dense s
  | .rmSub h hs => ∀ s ∈ sys[h]?, ∀ sb ∈ sys[hs]?, rmLegalD s sb
  | .addSub h hs _ => ∀ s ∈ sys[h]?, ∀ sb ∈ sys[hs]?,
      ∀ d ∈ sb.forest.recs.flatMap (fun n => sb.dataOf n.name), d ∉ s.data.flatMap (·.2)
  | _ => True

instance (sys : Sys) (op : Op) : Decidable (legalD sys op) := by
  cases op <;> unfold legalD <;> infer_instance

theorem legal_of_dec {sys : Sys} {op : Op} (h : legalD sys op) : Legal sys op := by
  cases op with
  | create hd ch d => exact ⟨h.1, fun s hs => h.2 s (by simp [hs])⟩
  | createAdd hd ch dp => exact fun s hs => h s (by simp [hs])
  | rmSub hd hs =>
    exact fun s sb h1 h2 hne => rmLegal_of_dec (h s (by simp [h1]) sb (by simp [h2])) hne
  | addSub hd hs par => exact fun s sb h1 h2 => h s (by simp [h1]) sb (by simp [h2])
  | addDp _ _ _ => trivial
  | rmDp _ _ _ => trivial
  | rmOut _ _ => trivial
  | getSub _ _ => trivial
  | relabel _ => trivial
  | copy _ => trivial
  | dictRT _ => trivial
  | update _ => trivial
  | fresh => trivial

/-- Boolean check of a whole history -/
def legalRunB (dt : Data) : Sys → List Op → Bool
  | _, [] => true
  | sys, op :: ops => decide (legalD sys op) &&
      match step dt sys op with
      | some sys' => legalRunB dt sys' ops
      | none => true

theorem legalRun_of_B {dt : Data} {ops : List Op} {sys : Sys} (h : legalRunB dt sys ops = true) :
    LegalRun dt sys ops := by
  induction ops generalizing sys with
  | nil => trivial
  | cons op ops ih =>
    simp only [legalRunB, Bool.and_eq_true, decide_eq_true_eq] at h
    refine ⟨legal_of_dec h.1, fun sys' hs => ih ?_⟩
    have := h.2; rw [hs] at this; exact this

end PhyModel.Store
