import PhyModel.Proofs.PG9
import PhyModel.Proofs.PG16
import PhyModel.Proofs.PG17
import PhyModel.Proofs.PG19
/-! # C01, stage 3, part 11: the executable particle-Gibbs update `SMC.pgStep` has, for every test
function, the expectation given by the abstract kernel `pgKernel` (with `κ = u = 1/N`); hence it leaves
`pOne` invariant on the complete trees of the data set (`pg_invariant`). -/

namespace PhyModel.PG
open Finset BigOperators Proposal PGSpec Orders Orders.Forest

theorem sum_indicator_lsum {α : Type} [DecidableEq α] (P : List α) (F : α → ℚ) : ∀ (A : List α), A.Nodup →
    (∀ a ∈ A, a ∈ P) → ∑ s : {s // s ∈ P}, (if s.1 ∈ A then F s.1 else 0) = lsum A F := by
  intro A
  induction A with
  | nil => intro _ _; simp [lsum]
  | cons a A ih =>
    intro hnd hsub
    have ha : a ∉ A := (List.nodup_cons.mp hnd).1
    have hstep : ∀ s : {s // s ∈ P}, (if s.1 ∈ a :: A then F s.1 else 0)
        = (if (⟨a, hsub a List.mem_cons_self⟩ : {s // s ∈ P}) = s then F a else 0)
          + (if s.1 ∈ A then F s.1 else 0) := by
      intro s
      by_cases hs : s.1 = a
      · have : (⟨a, hsub a List.mem_cons_self⟩ : {s // s ∈ P}) = s := Subtype.ext hs.symm
        rw [if_pos (by rw [hs]; exact List.mem_cons_self), if_pos this, if_neg (by rw [hs]; exact ha), add_zero, hs]
      · have : ¬ (⟨a, hsub a List.mem_cons_self⟩ : {s // s ∈ P}) = s := fun h => hs (congrArg Subtype.val h).symm
        rw [if_neg this, zero_add]
        by_cases hA : s.1 ∈ A
        · rw [if_pos (List.mem_cons_of_mem _ hA), if_pos hA]
        · rw [if_neg (by simp [hs, hA]), if_neg hA]
    simp only [hstep]
    rw [Finset.sum_add_distrib, ih (List.nodup_cons.mp hnd).2 (fun b hb => hsub b (List.mem_cons_of_mem _ hb)),
      Finset.sum_ite_eq, lsum_cons]
    simp

variable {dt : Data} {c : Cfg} {D : List ℕ}

/-- **the executable update is the abstract kernel**: for a complete tree `x` of the data set and every
test function -/
theorem pgStep_E (h : HypD dt c D) (θ : ℚ) (m : ℕ) (x : St (allStates c D)) (hx : x.1 ∈ finals c D)
    (hh : T → ℚ) :
    Dist.E (SMC.pgStep (runOf dt c m θ) x.1) hh
      = ∑ y : St (allStates c D), pgKernel dt c D (uN m) θ m (uN m) x y * hh y.1 := by
  obtain ⟨w, hperm⟩ := finals_wft h hx
  have hsub : ∀ a ∈ allOrders x.1.f x.1.out, a ∈ perms D := by
    intro a ha
    exact mem_perms_of_perm D a ((allOrders_sound x.1.f x.1.out a ha).1.trans hperm)
  have hAnd := allOrders_nodup x.1.f x.1.out w.nodup
  -- left-hand side: average over the compatible orders
  unfold SMC.pgStep
  rw [Dist.E_norm, E_bind, Dist.E_norm, sampleOrder_uniform]
  -- right-hand side: sum over all orders with the indicator of compatibility
  let F : List ℕ → ℚ := fun σ => if hσ : σ ∈ perms D then
    ∑ y : St (allStates c D), kernelAlong dt c D (uN m) θ m (uN m) ⟨σ, hσ⟩ x y * hh y.1 else 0
  have hR : ∑ y : St (allStates c D), pgKernel dt c D (uN m) θ m (uN m) x y * hh y.1
      = (1 / ((allOrders x.1.f x.1.out).length : ℚ)) * lsum (allOrders x.1.f x.1.out) F := by
    unfold pgKernel
    simp only [Finset.sum_mul]
    rw [Finset.sum_comm]
    rw [← sum_indicator_lsum (perms D) F _ hAnd hsub, Finset.mul_sum]
    apply Finset.sum_congr rfl
    intro s _
    unfold uOrd
    rw [countCode_eq_length]
    by_cases hs : s.1 ∈ allOrders x.1.f x.1.out
    · have hF : F s.1 = ∑ y : St (allStates c D), kernelAlong dt c D (uN m) θ m (uN m) s x y * hh y.1 := by
        simp only [F, s.2, dif_pos]
      simp only [if_pos hs]
      rw [hF, Finset.mul_sum]
      apply Finset.sum_congr rfl
      intro y _
      ring
    · simp only [if_neg hs]
      simp
  rw [hR]
  congr 1
  apply lsum_congr
  intro σ hσ
  have hσp := hsub σ hσ
  have hh' := h.hyp hσp
  have hxl : x.1 ∈ level c σ σ.length := (reachable_iff_order c σ hh'.nodup x.1 w).mpr hσ
  obtain ⟨path, hp, hlast⟩ := exists_pathOK (L := allStates c D) hh'.nodup hh'.big (states_sub_allStates hσp) hxl
  have hne : σ ≠ [] := by
    intro h0
    have := length_of_mem_perms' hσp
    rw [h0] at this
    exact h.ne (List.length_eq_zero_iff.mp this.symm)
  have hpx : path σ.length = x := Subtype.ext hlast
  have := csmc_E hh' (inj_of_hyp hh') (states_sub_allStates hσp) θ m hp hne hh
  rw [hpx] at this
  simp only [F, hσp, dif_pos]
  exact this

/-- **Stage 3: `SMC.pgStep` leaves `pOne` invariant** on the complete trees of the data set: with
`P(pgStep x = y)` the expectation of the indicator of `y` -/
theorem pg_invariant (h : HypD dt c D) (θ : ℚ) (m : ℕ) (y : St (allStates c D)) :
    ∑ x : St (allStates c D), piD dt c D x.1 *
        Dist.E (SMC.pgStep (runOf dt c m θ) x.1) (fun z => if z = y.1 then 1 else 0)
      = piD dt c D y.1 := by
  rw [← pg_invariant_abstract h (uN m) (uN_pos m) θ m (uN m) (uN_pos m) y]
  apply Finset.sum_congr rfl
  intro x _
  by_cases hx : x.1 ∈ finals c D
  · rw [pgStep_E h θ m x hx]
    congr 1
    have : ∀ y' : St (allStates c D),
        pgKernel dt c D (uN m) θ m (uN m) x y' * (if y'.1 = y.1 then (1 : ℚ) else 0)
          = if y' = y then pgKernel dt c D (uN m) θ m (uN m) x y' else 0 := by
      intro y'
      by_cases hy : y' = y
      · rw [if_pos hy, if_pos (congrArg Subtype.val hy), mul_one]
      · rw [if_neg hy, if_neg (fun e => hy (Subtype.ext e)), mul_zero]
    simp only [this]
    rw [Finset.sum_ite_eq']
    simp
  · have : piD dt c D x.1 = 0 := by unfold piD; rw [if_neg hx]
    rw [this, zero_mul, zero_mul]

#print axioms pg_invariant
end PhyModel.PG
