import PhyModel.Proofs.PGSub1
import PhyModel.Proofs.PGSub2
import PhyModel.Proofs.PG20
/-! # C04, random-subtree move, part 3: given the region, the move is a particle-Gibbs update for the
full-tree density restricted to the trees `graftBack rem gk y`.

* `selectH_E` — the draw from the corrected weights (`Moves.correctWeights`, `_correct_weights`) is the
  abstract corrected selection `ASMC.selH` with `h y = pOne(graftBack y) / pOne y`;
* `subtree_csmc_E` — `SMC.csmc` followed by that draw is the abstract kernel `ASMC.kernelXH`;
* `subtree_invariant_abstract` — order draw composed with the corrected sweep leaves
  `y ↦ pOne (graftBack rem gk y)` invariant on the complete subtrees of the region's data;
* `subtreeGiven_E` — the executable `Moves.subtreeGiven` is that mixture kernel, pushed forward by
  `graftBack`. -/

namespace PhyModel.PG
open Finset BigOperators Proposal PGSpec Orders Orders.Forest
open PhyModel.Moves (graftBack correctWeights subtreeGiven)

variable {dt : Data} {c : Cfg} {σ : List ℕ} {L : List T}

/-- the weight-correction factor of `_correct_weights` -/
def hC (dt : Data) (c : Cfg) (rem : DF) (gk : Option ℕ) (x : T) : ℚ :=
  pOneT dt c (graftBack rem gk x) / pOneT dt c x

/-- the corrected selection does not depend on the order of the slots `1 … m` -/
theorem selH_sym {X : Type} [Fintype X] [DecidableEq X] {m : ℕ} (h : X → ℚ) (φ : X → ℚ) :
    ASMC.Sym0 (fun S : ASMC.Sys X m => ∑ y, ASMC.selH h S y * φ y) := by
  intro ρ S
  exact ASMC.sel_sym φ ρ (ASMC.corr h S)

/-- **the corrected draw** -/
theorem selectH_E {m : ℕ} (rem : DF) (gk : Option ℕ) (θ : ℚ) (S : ASMC.Sys (St L) m) (φ : T → ℚ) :
    Dist.E (Dist.categorical (correctWeights (runOf dt c m θ) rem gk (swOf S))) φ
      = ∑ y : St L, ASMC.selH (fun z : St L => hC dt c rem gk z.1) S y * φ (graftBack rem gk y.1) := by
  rw [Dist.E_categorical]
  unfold correctWeights
  rw [lsum_map, lsum_map, swOf, lsum_ofFn, lsum_ofFn]
  unfold ASMC.selH ASMC.sel
  simp only [Finset.sum_mul]
  rw [Finset.sum_comm, Finset.sum_div]
  apply Finset.sum_congr rfl
  intro k _
  have : ∀ y : St L, ASMC.wbar (ASMC.corr (fun z : St L => hC dt c rem gk z.1) S) k
        * (if ((ASMC.corr (fun z : St L => hC dt c rem gk z.1) S) k).1 = y then 1 else 0) * φ (graftBack rem gk y.1)
      = if (S k).1 = y then ASMC.wbar (ASMC.corr (fun z : St L => hC dt c rem gk z.1) S) k
          * φ (graftBack rem gk y.1) else 0 := by
    intro y
    show _ * (if (S k).1 = y then 1 else 0) * _ = _
    split_ifs <;> ring
  simp only [this]
  rw [Finset.sum_ite_eq]
  simp only [Finset.mem_univ, if_true]
  unfold ASMC.wbar ASMC.tot ASMC.corr hC pOneT
  simp only [runOf]
  have hden : ∑ i : Fin (m+1), ((S i).2 / Density.pOne dt c.α (S i).1.1.f (S i).1.1.out
        * Density.pOne dt c.α (graftBack rem gk (S i).1.1).f (graftBack rem gk (S i).1.1).out)
      = ∑ i : Fin (m+1), (S i).2 * (Density.pOne dt c.α (graftBack rem gk (S i).1.1).f (graftBack rem gk (S i).1.1).out
          / Density.pOne dt c.α (S i).1.1.f (S i).1.1.out) := by
    apply Finset.sum_congr rfl; intro i _; ring
  rw [hden]
  ring

/-- **conditional SMC on the subtree given the order, then the corrected draw** -/
theorem subtree_csmc_E (h : Hyp dt c σ) (hinj : Inj c σ) (hL : ∀ x ∈ states c σ, x ∈ L) (θ : ℚ) (m : ℕ)
    {x : T} {path : ℕ → St L} (hp : PathOK c σ x path) (hne : σ ≠ []) (rem : DF) (gk : Option ℕ)
    (φ : T → ℚ) :
    Dist.E (Dist.bind (SMC.csmc (runOf dt c m θ) x σ)
        fun sw => Dist.categorical (correctWeights (runOf dt c m θ) rem gk sw)) φ
      = ∑ y : St L, ASMC.kernelXH (spec dt c σ (uN m) L hL θ m) (uN m) (fun z : St L => hC dt c rem gk z.1)
          σ.length (path σ.length) y * φ (graftBack rem gk y.1) := by
  rw [E_bind]
  have hGS : (fun S : ASMC.Sys (St L) m =>
        Dist.E (Dist.categorical (correctWeights (runOf dt c m θ) rem gk (swOf S))) φ)
      = fun S => ∑ y : St L, ASMC.selH (fun z : St L => hC dt c rem gk z.1) S y * φ (graftBack rem gk y.1) := by
    funext S; exact selectH_E rem gk θ S φ
  have hG : ASMC.Sym0 (fun S : ASMC.Sys (St L) m =>
      Dist.E (Dist.categorical (correctWeights (runOf dt c m θ) rem gk (swOf S))) φ) := by
    rw [hGS]; exact selH_sym _ (fun y : St L => φ (graftBack rem gk y.1))
  rw [csmc_E_gen h hinj hL θ m hp hne
    (fun sw => Dist.E (Dist.categorical (correctWeights (runOf dt c m θ) rem gk sw)) φ) hG, hGS]
  exact (ASMC.sum_kernelXH _ _ _ (fun y : St L => φ (graftBack rem gk y.1))).symm

/-! ### the order draw composed with the corrected sweep -/

variable {D : List ℕ}

/-- the target given the region: the full tree's density, on the complete subtrees of the region's data -/
def piR (dt : Data) (c : Cfg) (D : List ℕ) (rem : DF) (gk : Option ℕ) (x : T) : ℚ :=
  if x ∈ finals c D then pOneT dt c (graftBack rem gk x) else 0

/-- the corrected conditional SMC kernel along `σ` (the code's schedule) -/
def kernelAlongH (dt : Data) (c : Cfg) (D : List ℕ) (rem : DF) (gk : Option ℕ) (κ θ : ℚ) (m : ℕ) (u : ℚ)
    (s : Ord D) (x y : St (allStates c D)) : ℚ :=
  ASMC.kernelXH (spec dt c s.1 κ (allStates c D) (states_sub_allStates s.2) θ m) u
    (fun z : St (allStates c D) => hC dt c rem gk z.1) s.1.length x y

/-- the random-subtree kernel given the region, on subtrees: draw the order, sweep, correct, draw -/
def subKernel (dt : Data) (c : Cfg) (D : List ℕ) (rem : DF) (gk : Option ℕ) (κ θ : ℚ) (m : ℕ) (u : ℚ)
    (x y : St (allStates c D)) : ℚ :=
  ∑ s : Ord D, uOrd x.1 s.1 * kernelAlongH dt c D rem gk κ θ m u s x y

theorem finals_pOne_pos (h : HypD dt c D) {x : T} (hx : x ∈ finals c D) : 0 < pOneT dt c x := by
  obtain ⟨σ, hσ, hxl⟩ := mem_finals.mp hx
  exact level_pOne_pos (h.hyp hσ) hxl

theorem piR_eq (h : HypD dt c D) (rem : DF) (gk : Option ℕ) (x : T) :
    piR dt c D rem gk x = piD dt c D x * hC dt c rem gk x := by
  unfold piR piD hC
  by_cases hx : x ∈ finals c D
  · rw [if_pos hx, if_pos hx]
    have := ne_of_gt (finals_pOne_pos h hx)
    field_simp
  · rw [if_neg hx, if_neg hx, zero_mul]

/-- **given the region, order draw + corrected sweep leave the full-tree density invariant** on the
complete subtrees of the region's data -/
theorem subtree_invariant_abstract (h : HypD dt c D) (rem : DF) (gk : Option ℕ)
    (hpos : ∀ y ∈ finals c D, 0 < pOneT dt c (graftBack rem gk y))
    (κ : ℚ) (hκ : 0 < κ) (θ : ℚ) (m : ℕ) (u : ℚ) (hu : 0 < u) (y : St (allStates c D)) :
    ∑ x : St (allStates c D), piR dt c D rem gk x.1 * subKernel dt c D rem gk κ θ m u x y
      = piR dt c D rem gk y.1 := by
  apply Moves.aux_mixture_invariant (fun x : St (allStates c D) => piR dt c D rem gk x.1)
    (fun x (s : Ord D) => uOrd x.1 s.1) (fun s x y => kernelAlongH dt c D rem gk κ θ m u s x y)
  · intro x hx
    apply uOrd_sum h
    by_contra hf
    exact hx (by unfold piR; rw [if_neg hf])
  · intro s y
    apply mul_left_cancel₀ (ne_of_gt hκ)
    rw [Finset.mul_sum]
    have hg : ∀ x : T, κ * (piR dt c D rem gk x * uOrd x s.1)
        = gT dt c s.1 κ s.1.length x * hC dt c rem gk x := by
      intro x
      rw [piR_eq h, ← piD_uOrd h κ s x]; ring
    simp only [← mul_assoc, hg]
    have hh : ∀ x : St (allStates c D),
        0 < (spec dt c s.1 κ (allStates c D) (states_sub_allStates s.2) θ m).g s.1.length x →
        0 < (fun z : St (allStates c D) => hC dt c rem gk z.1) x := by
      intro x hx
      have hxl : x.1 ∈ level c s.1 s.1.length := mem_of_gT_pos hx
      have hxf : x.1 ∈ finals c D := mem_finals.mpr ⟨s.1, s.2, hxl⟩
      exact div_pos (hpos _ hxf) (finals_pOne_pos h hxf)
    exact ASMC.csmc_corrected_invariant_X (spec_valid (h.hyp s.2) hκ (states_sub_allStates s.2) θ m) hu hh y

/-- **the executable move given the region is the abstract mixture kernel pushed forward by
`graftBack`**: for a complete subtree `x` of the region's data and every test function on full trees -/
theorem subtreeGiven_E (h : HypD dt c D) (rem : DF) (gk : Option ℕ) (θ : ℚ) (m : ℕ)
    (x : St (allStates c D)) (hx : x.1 ∈ finals c D) (φ : T → ℚ) :
    Dist.E (subtreeGiven (runOf dt c m θ) rem gk x.1) φ
      = ∑ y : St (allStates c D), subKernel dt c D rem gk (uN m) θ m (uN m) x y * φ (graftBack rem gk y.1) := by
  obtain ⟨w, hperm⟩ := finals_wft h hx
  have hsub : ∀ a ∈ allOrders x.1.f x.1.out, a ∈ perms D := by
    intro a ha
    exact mem_perms_of_perm D a ((allOrders_sound x.1.f x.1.out a ha).1.trans hperm)
  have hAnd := allOrders_nodup x.1.f x.1.out w.nodup
  unfold subtreeGiven
  rw [E_bind, Dist.E_norm, sampleOrder_uniform]
  let F : List ℕ → ℚ := fun σ => if hσ : σ ∈ perms D then
    ∑ y : St (allStates c D), kernelAlongH dt c D rem gk (uN m) θ m (uN m) ⟨σ, hσ⟩ x y * φ (graftBack rem gk y.1)
    else 0
  have hR : ∑ y : St (allStates c D), subKernel dt c D rem gk (uN m) θ m (uN m) x y * φ (graftBack rem gk y.1)
      = (1 / ((allOrders x.1.f x.1.out).length : ℚ)) * lsum (allOrders x.1.f x.1.out) F := by
    unfold subKernel
    simp only [Finset.sum_mul]
    rw [Finset.sum_comm]
    rw [← sum_indicator_lsum (perms D) F _ hAnd hsub, Finset.mul_sum]
    apply Finset.sum_congr rfl
    intro s _
    unfold uOrd
    rw [countCode_eq_length]
    by_cases hs : s.1 ∈ allOrders x.1.f x.1.out
    · have hF : F s.1 = ∑ y : St (allStates c D),
          kernelAlongH dt c D rem gk (uN m) θ m (uN m) s x y * φ (graftBack rem gk y.1) := by
        simp only [F, s.2, dif_pos]
      simp only [if_pos hs]
      rw [hF, Finset.mul_sum]
      apply Finset.sum_congr rfl
      intro y _
      ring
    · simp only [if_neg hs]
      simp
  rw [hR]
  congr 1
  apply lsum_congr
  intro σ hσ
  have hσp := hsub σ hσ
  have hh' := h.hyp hσp
  have hxl : x.1 ∈ level c σ σ.length := (reachable_iff_order c σ hh'.nodup x.1 w).mpr hσ
  obtain ⟨path, hp, hlast⟩ := exists_pathOK (L := allStates c D) hh'.nodup hh'.big (states_sub_allStates hσp) hxl
  have hne : σ ≠ [] := by
    intro h0
    have := length_of_mem_perms' hσp
    rw [h0] at this
    exact h.ne (List.length_eq_zero_iff.mp this.symm)
  have hpx : path σ.length = x := Subtype.ext hlast
  have := subtree_csmc_E hh' (inj_of_hyp hh') (states_sub_allStates hσp) θ m hp hne rem gk φ
  rw [hpx] at this
  simp only [F, hσp, dif_pos]
  exact this

end PhyModel.PG
