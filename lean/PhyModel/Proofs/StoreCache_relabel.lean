import PhyModel.Proofs.StoreCache_Map
/-! C06, `Tree.relabel_nodes` (names only), `Tree.update` (full recomputation), the empty tree. -/
namespace PhyModel.Store.C06
open PhyModel

/-- **C06, `Tree(grid_size)`** -/
theorem cacheOK_init (dt : Data) : CacheOK dt (Store.init dt) :=
  ⟨trivial, fun h => by cases h⟩

/-- **C06, `relabel_nodes`** -/
theorem cacheOK_relabel (dt : Data) (s : Store) (hc : CacheOK dt s) : CacheOK dt s.relabelNodes := by
  have he := er_relabelSF s.forest 0
  refine ⟨(cacheOKsf_of_er_eq dt he).2 hc.1, fun hn => ?_⟩
  show s.rootR = recompRoot dt (Store.relabelSF s.forest 0).1
  rw [recompRoot_of_er_eq dt he]
  exact hc.2 (by rw [← isNil_of_er_eq he]; exact hn)

/-- **C06, `update`** -/
theorem cacheOK_update (dt : Data) (s : Store) (hc : CacheOK dt s) : CacheOK dt (s.update dt) :=
  ⟨cacheOKsf_updAll dt _ ((cacheOKsf_iff dt _).1 hc.1).1, fun _ => rfl⟩

/-- **C06**: touching `_data` keys does not concern the cache -/
theorem cacheOK_touch (dt : Data) (s : Store) (l : List Int) (hc : CacheOK dt s) :
    CacheOK dt (s.touch l) := hc

end PhyModel.Store.C06
