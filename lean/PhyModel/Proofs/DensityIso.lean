import PhyModel.Proofs.DFIso
/-! Every factor of the FS-CRP joint density is invariant under `DFIsoP` (sibling order at any
depth, order inside a clone's data list) and under permutations of the outlier list. -/

namespace PhyModel
open Orders Orders.Forest

namespace Density

theorem crp_isoP (α : ℚ) {f g : DF} (h : DFIsoP f g) : crp α f = crp α g := by
  unfold crp; rw [nodes_isoP h, sizeTerm_isoP h]

theorem topoMarg_isoP {f g : DF} (h : DFIsoP f g) : topoMarg f = topoMarg g := by
  unfold topoMarg; rw [nodes_isoP h]

theorem topoOne_isoP {f g : DF} (h : DFIsoP f g) : topoOne f = topoOne g := by
  unfold topoOne; rw [numRoots_isoP h, subtreeTerm_isoP h]

theorem mult_isoP {f g : DF} (h : DFIsoP f g) : mult f = mult g := by
  unfold mult; rw [numRoots_isoP h, multNodes_isoP h]

theorem outlierPriorIn_perm (dt : Data) {l l' : List ℕ} (h : l.Perm l') :
    outlierPriorIn dt l = outlierPriorIn dt l' := prodL_map_perm _ h

theorem outlierPriorOut_perm (dt : Data) {l l' : List ℕ} (h : l.Perm l') :
    outlierPriorOut dt l = outlierPriorOut dt l' := prodL_map_perm _ h

theorem outlierMarg_perm (dt : Data) {l l' : List ℕ} (h : l.Perm l') :
    outlierMarg dt l = outlierMarg dt l' := prodL_map_perm _ h

theorem dataMarg_isoP (dt : Data) {f g : DF} (h : DFIsoP f g) : dataMarg dt f = dataMarg dt g := by
  unfold dataMarg; rw [numRoots_isoP h]
  simp only [rootR_isoP dt _ h]

theorem dataOne_isoP (dt : Data) {f g : DF} (h : DFIsoP f g) : dataOne dt f = dataOne dt g := by
  unfold dataOne; rw [numRoots_isoP h]
  simp only [rootR_isoP dt _ h]

theorem common_isoP (dt : Data) (α : ℚ) {f g : DF} {out out' : List ℕ}
    (h : DFIsoP f g) (ho : out.Perm out') : common dt α f out = common dt α g out' := by
  unfold common
  rw [crp_isoP α h, mult_isoP h, outlierPriorIn_perm dt (all_isoP h),
    outlierPriorOut_perm dt ho, outlierMarg_perm dt ho]

theorem pOne_isoP (dt : Data) (α : ℚ) {f g : DF} {out out' : List ℕ}
    (h : DFIsoP f g) (ho : out.Perm out') : pOne dt α f out = pOne dt α g out' := by
  unfold pOne; rw [common_isoP dt α h ho, topoOne_isoP h, dataOne_isoP dt h]

theorem pMarg_isoP (dt : Data) (α : ℚ) {f g : DF} {out out' : List ℕ}
    (h : DFIsoP f g) (ho : out.Perm out') : pMarg dt α f out = pMarg dt α g out' := by
  unfold pMarg; rw [common_isoP dt α h ho, topoMarg_isoP h, dataMarg_isoP dt h]

end Density
end PhyModel
