import PhyModel.Proofs.ASMC5
/-! # Conditional SMC with a resampling step in front of the final draw.

`AbstractSMCSampler.sample` resamples the swarm after `_init_swarm`; with a single data point that is
the last thing it does before the final draw.  `kernelR` is the conditional-SMC kernel whose final
selection is preceded by "resample if the rule fires" (slot 0 kept, the other slots drawn from the
normalised weights, all weights reset to `u`); it leaves the level-`T` target invariant for every `T`
(`csmc_invariant_final_resample`). -/

open Finset BigOperators

namespace ASMC

variable {X : Type} [Fintype X] [DecidableEq X] {m : ℕ}
variable {sp : Spec (m := m) X} {u : ℚ}

variable (sp) (u) in
/-- resample if the rule of step `T` fires, then pick a slot in proportion to the weights -/
def selR (T : ℕ) (S : Sys X m) (y : X) : ℚ :=
  if sp.rs T (wts S) then resC u S (fun S' => sel S' y) else sel S y

variable (sp) (u) in
/-- the conditional-SMC kernel with a final resampling step -/
def kernelR (T : ℕ) (x y : X) : ℚ := C sp u T x (fun S => selR sp u T S y)

/-- indicator that the retained slot holds `y` -/
def ind0 (y : X) (S : Sys X m) : ℚ := if (S 0).1 = y then 1 else 0

/-- **exchangeability, used**: under the level-`T` law, weighting by a slot-symmetric factor `c`, the
weight-proportional selection may be replaced by "look at slot 0" -/
theorem M_sel_symm {T : ℕ} (hv : ValidTo sp T) (hu : 0 < u) (c : Sys X m → ℚ)
    (hc : ∀ (σ : Equiv.Perm (Fin (m+1))) S, c (S ∘ σ) = c S) (y : X) :
    M sp u T (fun S => c S * sel S y) = M sp u T (fun S => c S * ind0 y S) := by
  have hlin := PhiM_lin (sp := sp) (u := u) T
  have hex := PhiM_exch (sp := sp) (u := u) hv hu T (le_refl T)
  have e1 : M sp u T (fun S => c S * sel S y) = PhiM sp u T (fun S => c S * sel S y * wbar S 0) := by
    unfold PhiM
    apply M_congr hv hu T (le_refl T)
    intro S hS
    have hw : (S 0).2 ≠ 0 := ne_of_gt (hS 0).1
    have htot : tot S ≠ 0 := ne_of_gt (tot_pos hS)
    unfold wbar; field_simp
  have e2 : PhiM sp u T (fun S => c S * sel S y * wbar S 0)
      = PhiM sp u T (fun S => c S * (wbar S 0 * ind0 y S)) := by
    have hsum : (fun S : Sys X m => c S * sel S y * wbar S 0)
        = fun S => ∑ k, (c S * (wbar S k * (if (S k).1 = y then 1 else 0)) * wbar S 0) := by
      funext S; unfold sel; rw [Finset.mul_sum, Finset.sum_mul]
    rw [hsum, hlin.sum]
    have hk : ∀ k : Fin (m+1),
        PhiM sp u T (fun S => c S * (wbar S k * (if (S k).1 = y then 1 else 0)) * wbar S 0)
        = PhiM sp u T (fun S => c S * (wbar S 0 * (if (S 0).1 = y then 1 else 0)) * wbar S k) := by
      intro k
      have := hex (Equiv.swap 0 k)
        (fun S => c S * (wbar S 0 * (if (S 0).1 = y then 1 else 0)) * wbar S k)
      rw [← this]
      congr 1; funext S
      simp only [hc, wbar_perm, Function.comp, Equiv.swap_apply_left, Equiv.swap_apply_right]
    simp only [hk]
    rw [← hlin.sum]
    apply PhiM_congr hv hu T (le_refl T)
    intro S hS
    rw [← Finset.mul_sum, wbar_sum hS, mul_one]
    rfl
  have e3 : PhiM sp u T (fun S => c S * (wbar S 0 * ind0 y S)) = M sp u T (fun S => c S * ind0 y S) := by
    unfold PhiM
    apply M_congr hv hu T (le_refl T)
    intro S hS
    have hw : (S 0).2 ≠ 0 := ne_of_gt (hS 0).1
    have htot : tot S ≠ 0 := ne_of_gt (tot_pos hS)
    unfold wbar; field_simp
  rw [e1, e2, e3]

/-- slot 0 holds the retained state -/
theorem M_ind0 {T : ℕ} (hv : ValidTo sp T) (hu : 0 < u) (y : X) :
    M sp u T (fun S => ind0 y S) = sp.g T y := by
  unfold M
  rw [Finset.sum_eq_single y]
  · by_cases hy : 0 < sp.g T y
    · have : C sp u T y (fun S => ind0 y S) = C sp u T y (fun _ => 1) :=
        C_congr hv hu T y (le_refl T) hy (fun S hS => by simp [ind0, hS.1])
      rw [this, C_one hv hu T y (le_refl T) hy, mul_one]
    · have : sp.g T y = 0 := le_antisymm (not_lt.mp hy) (hv.gnn _ _)
      rw [this]; simp
  · intro x _ hne
    by_cases hx : 0 < sp.g T x
    · have : C sp u T x (fun S => ind0 y S) = C sp u T x (fun _ => 0) :=
        C_congr hv hu T x (le_refl T) hx (fun S hS => by simp [ind0, hS.1, hne])
      rw [this, (C_lin T x).zero, mul_zero]
    · have : sp.g T x = 0 := le_antisymm (not_lt.mp hx) (hv.gnn _ _)
      rw [this]; simp
  · intro h; exact absurd (mem_univ _) h

/-- after resampling all weights are `u`: the selection is uniform over the slots; slot 0 is the
retained one and each other slot holds an independent draw from the old weights -/
theorem resC_sel {t : ℕ} (hu : 0 < u) {S : Sys X m} (hS : GoodW sp t S) (y : X) :
    resC u S (fun S' => sel S' y) = (1 / ((m : ℚ) + 1)) * (ind0 y S + (m : ℚ) * sel S y) := by
  have hu' : u ≠ 0 := ne_of_gt hu
  have hm : ((m : ℚ) + 1) ≠ 0 := by positivity
  -- the selection on a reset system
  have hsel : ∀ a : Fin m → Fin (m+1),
      sel (fun j => reset u (S ((Fin.cons 0 a : Fin (m+1) → Fin (m+1)) j))) y
        = (1 / ((m : ℚ) + 1)) * (ind0 y S + ∑ i : Fin m, (if (S (a i)).1 = y then 1 else 0)) := by
    intro a
    unfold sel wbar tot
    simp only [reset, Finset.sum_const, Finset.card_univ, Fintype.card_fin, nsmul_eq_mul]
    rw [Fin.sum_univ_succ]
    simp only [Fin.cons_zero, Fin.cons_succ, ind0]
    rw [← Finset.mul_sum, ← mul_add]
    congr 1
    push_cast
    field_simp
  unfold resC
  simp only [hsel]
  have hre : ∀ a : Fin m → Fin (m+1),
      (∏ i, wbar S (a i)) * (1 / ((m : ℚ) + 1) * (ind0 y S + ∑ i : Fin m, (if (S (a i)).1 = y then 1 else 0)))
        = 1 / ((m : ℚ) + 1) * ((∏ i, wbar S (a i)) * ind0 y S
            + ∑ i : Fin m, (∏ j, wbar S (a j)) * (if (S (a i)).1 = y then 1 else 0)) := by
    intro a; rw [← Finset.mul_sum]; ring
  simp only [hre]
  rw [← Finset.mul_sum]
  congr 1
  rw [Finset.sum_add_distrib]
  -- total mass of the ancestor draws
  have hone : ∑ a : Fin m → Fin (m+1), ∏ i, wbar S (a i) = 1 := by
    have := (Finset.prod_univ_sum (fun (_ : Fin m) => (Finset.univ : Finset (Fin (m+1))))
      (fun _ j => wbar S j)).symm
    rw [Fintype.piFinset_univ] at this
    rw [this]
    exact Finset.prod_eq_one (fun i _ => wbar_sum hS)
  -- marginal of one ancestor
  have hmarg : ∀ i : Fin m, ∑ a : Fin m → Fin (m+1), (∏ j, wbar S (a j)) * (if (S (a i)).1 = y then 1 else 0)
      = sel S y := by
    intro i
    have h := (Finset.prod_univ_sum (fun (_ : Fin m) => (Finset.univ : Finset (Fin (m+1))))
      (fun j k => wbar S k * (if j = i then (if (S k).1 = y then (1 : ℚ) else 0) else 1))).symm
    rw [Fintype.piFinset_univ] at h
    have hl : ∀ a : Fin m → Fin (m+1),
        ∏ j, (wbar S (a j) * (if j = i then (if (S (a j)).1 = y then (1 : ℚ) else 0) else 1))
          = (∏ j, wbar S (a j)) * (if (S (a i)).1 = y then 1 else 0) := by
      intro a
      rw [Finset.prod_mul_distrib]
      congr 1
      rw [Finset.prod_ite_eq']
      simp
    simp only [hl] at h
    rw [h]
    rw [Finset.prod_eq_single i]
    · simp only [if_true]; rfl
    · intro j _ hj
      simp only [if_neg hj, mul_one]
      exact wbar_sum hS
    · intro h'; exact absurd (mem_univ _) h'
  rw [← Finset.sum_mul, hone, one_mul]
  congr 1
  rw [Finset.sum_comm]
  simp only [hmarg]
  simp

/-- **Conditional SMC with a final resampling step leaves the target invariant**, for every number of
particles, every number of steps, every symmetric adaptive rule and every `u > 0`. -/
theorem csmc_invariant_final_resample {T : ℕ} (hv : ValidTo sp T) (hu : 0 < u) (y : X) :
    ∑ x, sp.g T x * kernelR sp u T x y = sp.g T y := by
  have hm : ((m : ℚ) + 1) ≠ 0 := by positivity
  show M sp u T (fun S => selR sp u T S y) = sp.g T y
  -- on good systems the final step is an explicit mixture of `sel` and "slot 0"
  have e0 : M sp u T (fun S => selR sp u T S y)
      = M sp u T (fun S => (c1 sp T S * ((m : ℚ) / ((m : ℚ) + 1)) + (1 - c1 sp T S)) * sel S y
          + (c1 sp T S * (1 / ((m : ℚ) + 1))) * ind0 y S) := by
    apply M_congr hv hu T (le_refl T)
    intro S hS
    unfold selR c1
    split
    · rw [resC_sel hu hS]; field_simp; ring
    · ring
  rw [e0, (M_lin T).add]
  have hsym : ∀ (σ : Equiv.Perm (Fin (m+1))) (S : Sys X m),
      (c1 sp T (S ∘ σ) * ((m : ℚ) / ((m : ℚ) + 1)) + (1 - c1 sp T (S ∘ σ)))
        = (c1 sp T S * ((m : ℚ) / ((m : ℚ) + 1)) + (1 - c1 sp T S)) := by
    intro σ S; rw [c1_perm hv]
  rw [M_sel_symm hv hu _ hsym y, ← (M_lin T).add, ← M_ind0 hv hu y]
  congr 1
  funext S
  field_simp
  ring

variable (sp) (u) in
/-- the kernel of `AbstractSMCSampler.sample` as scheduled in the code: the resampling step that follows
`_init_swarm` is the last thing before the final draw exactly when there is a single step -/
def kernelX (T : ℕ) (x y : X) : ℚ := if T = 1 then kernelR sp u T x y else kernel sp u T x y

theorem csmc_invariant_X {T : ℕ} (hv : ValidTo sp T) (hu : 0 < u) (y : X) :
    ∑ x, sp.g T x * kernelX sp u T x y = sp.g T y := by
  unfold kernelX
  split
  · exact csmc_invariant_final_resample hv hu y
  · exact csmc_invariant_to hv hu y

#print axioms csmc_invariant_final_resample
end ASMC
