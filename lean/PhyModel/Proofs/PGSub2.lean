import PhyModel.Proofs.PG16
import PhyModel.Proofs.ASMC8
/-! # C04, random-subtree move, part 2: the executable sweep `SMC.csmc` against the abstract schedule
functional `ASMC.CX`, for **any** final functional `G` of the swarm that does not depend on the order of
the slots `1 … m` (`csmc_E_gen`).  `PG.csmc_E` is the case `G = E[hh(select ·)]`; the random-subtree
move uses `G = E[φ(draw from the corrected weights)]`. -/

namespace PhyModel.PG
open Finset BigOperators Proposal PGSpec Orders.Forest

variable {dt : Data} {c : Cfg} {σ : List ℕ} {L : List T}

/-- at least two data points: no resampling after the last step -/
theorem csmc_E_gen_many (h : Hyp dt c σ) (hinj : Inj c σ) (hL : ∀ x ∈ states c σ, x ∈ L) (θ : ℚ) (m : ℕ)
    {x : T} {path : ℕ → St L} (hp : PathOK c σ x path) (hne : σ ≠ []) (hlen1 : σ.length ≠ 1)
    (G : SMC.Swarm → ℚ) (hG : ASMC.Sym0 (fun S : ASMC.Sys (St L) m => G (swOf S))) :
    Dist.E (SMC.csmc (runOf dt c m θ) x σ) G
      = ASMC.C (spec dt c σ (uN m) L hL θ m) (uN m) σ.length (path σ.length) (fun S => G (swOf S)) := by
  have hv := spec_valid h (uN_pos m) hL θ m
  have hlen : 0 < σ.length := List.length_pos_of_ne_nil hne
  set sp := spec dt c σ (uN m) L hL θ m with hsp
  have hparent : ∀ t, t < σ.length → sp.parent (path (t+1)) = path t := fun t ht =>
    spec_parent_child h hL θ m (hp.lvl t (le_of_lt ht)) (List.getElem?_eq_getElem ht) (hp.child t ht)
  rw [ASMC.C_eq_Fwd path σ.length hparent]
  unfold SMC.csmc
  simp only [if_neg hlen1]
  rw [sweep_E, Dist.E_norm, init_E h hinj hL θ m hp hne]
  obtain ⟨k, hk⟩ : ∃ k, σ.length = k + 1 := ⟨σ.length - 1, by omega⟩
  rw [hk]
  simp only [ASMC.Fwd]
  have hrs : sp.rs 0 (ASMC.wts (ASMC.S0 sp)) = false := by
    show essRule θ m 0 (ASMC.wts (ASMC.S0 sp)) = false
    unfold essRule; rfl
  unfold ASMC.stepC
  rw [hrs]
  simp only [Bool.false_eq_true, if_false]
  have hx' : 0 < sp.g (0+1) (path (0+1)) := gT_pos h (uN_pos m) (hp.lvl 1 hlen)
  have hp0 : (path 0).1 = T.empty := by
    have := hp.lvl 0 (Nat.zero_le _)
    simpa [level] using this
  have hS0 : ASMC.Good sp 0 (path 0) (ASMC.S0 sp) := by
    refine ⟨Subtype.ext (by rw [hp0]; rfl), fun i => ⟨one_pos, ?_⟩⟩
    show 0 < gT dt c σ (uN m) 0 T.empty
    exact gT_pos h (uN_pos m) (by simp [level])
  apply ASMC.propC_congr hv hlen hS0.2 hx'
  · rw [hparent 0 hlen]; exact hS0.1.symm
  · intro T hT
    rw [← hk]
    exact contE_eq_Fwd h hinj hL θ m hp G hG k 1 one_ne_zero (by omega) σ.length (by omega) T hT

/-- a single data point: the swarm of the first (= last) step is resampled, if the rule fires, before
the final functional is applied -/
theorem csmc_E_gen_one (h : Hyp dt c σ) (hinj : Inj c σ) (hL : ∀ x ∈ states c σ, x ∈ L) (θ : ℚ) (m : ℕ)
    {x : T} {path : ℕ → St L} (hp : PathOK c σ x path) (hlen1 : σ.length = 1)
    (G : SMC.Swarm → ℚ) (hG : ASMC.Sym0 (fun S : ASMC.Sys (St L) m => G (swOf S))) :
    Dist.E (SMC.csmc (runOf dt c m θ) x σ) G
      = ASMC.C (spec dt c σ (uN m) L hL θ m) (uN m) 1 (path 1)
          (ASMC.finR (spec dt c σ (uN m) L hL θ m) (uN m) 1 (fun S => G (swOf S))) := by
  have hne : σ ≠ [] := by intro h0; rw [h0] at hlen1; simp at hlen1
  set sp := spec dt c σ (uN m) L hL θ m with hsp
  unfold SMC.csmc
  simp only [if_pos hlen1]
  rw [Dist.E_norm, E_bind, Dist.E_norm, init_E h hinj hL θ m hp hne]
  have hC : ∀ f : ASMC.Sys (St L) m → ℚ, ASMC.C sp (uN m) 1 (path 1) f
      = ASMC.propC sp 0 (path 1) (ASMC.S0 sp) f := by
    intro f
    have hrs : sp.rs 0 (ASMC.wts (ASMC.S0 sp)) = false := by
      show essRule θ m 0 (ASMC.wts (ASMC.S0 sp)) = false
      unfold essRule; rfl
    simp only [ASMC.C, ASMC.stepC, hrs, Bool.false_eq_true, if_false]
  rw [hC]
  congr 1
  funext S
  rw [resample_E (runOf dt c m θ) rfl S 1 one_ne_zero G]
  · rfl
  · intro a ρ
    exact hG ρ _

/-- **conditional SMC given the order, any slot-symmetric final functional**: the executable sweep has
the law of the abstract particle system under the code's schedule -/
theorem csmc_E_gen (h : Hyp dt c σ) (hinj : Inj c σ) (hL : ∀ x ∈ states c σ, x ∈ L) (θ : ℚ) (m : ℕ)
    {x : T} {path : ℕ → St L} (hp : PathOK c σ x path) (hne : σ ≠ [])
    (G : SMC.Swarm → ℚ) (hG : ASMC.Sym0 (fun S : ASMC.Sys (St L) m => G (swOf S))) :
    Dist.E (SMC.csmc (runOf dt c m θ) x σ) G
      = ASMC.CX (spec dt c σ (uN m) L hL θ m) (uN m) σ.length (path σ.length) (fun S => G (swOf S)) := by
  unfold ASMC.CX
  by_cases hlen1 : σ.length = 1
  · simp only [if_pos hlen1]
    have := csmc_E_gen_one h hinj hL θ m hp hlen1 G hG
    rw [hlen1]
    exact this
  · simp only [if_neg hlen1]
    exact csmc_E_gen_many h hinj hL θ m hp hne hlen1 G hG

end PhyModel.PG
