import PhyModel.Proofs.ConsBridge1
/-! Bridge, part 2: clades of a model forest are laminar; the executable support is the
Finset-level `Consensus.support`; the majority family is laminar. -/
open Finset

namespace PhyModel.ConsBridge
open PhyModel.Consensus PhyModel.Orders

/-- the model forest read as the forest of `Proofs/Consensus.lean` -/
def toC : DF → _root_.Consensus.Forest
  | .nil => .nil
  | .cons d k s => .cons d (toC k) (toC s)

theorem toC_all : ∀ f : DF, (toC f).all = f.all
  | .nil => rfl
  | .cons d k s => by simp [toC, _root_.Consensus.Forest.all, Forest.all, toC_all k, toC_all s]

theorem toC_clades : ∀ f : DF, (cladesOf f).map List.toFinset = (toC f).clades
  | .nil => rfl
  | .cons d k s => by
    simp only [cladesOf, toC, _root_.Consensus.Forest.clades, List.map_append, List.map_cons,
      toC_clades k, toC_clades s, toFinset_dedupL, toC_all]

theorem F_cladeSet (f : DF) : F (cladeSet f) = (toC f).clades.toFinset := by
  unfold cladeSet
  rw [F_dedupC, F, toC_clades]

theorem cladeSet_laminar (f : DF) (h : f.all.Nodup) : _root_.Consensus.Laminar (F (cladeSet f)) := by
  intro a ha b hb
  rw [F_cladeSet, List.mem_toFinset] at ha hb
  exact _root_.Consensus.clades_laminar (toC f) (by rw [toC_all]; exact h) a ha b hb

/-- every clone holds at least one data point -/
def NonemptyClones : DF → Prop
  | .nil => True
  | .cons d k s => d ≠ [] ∧ NonemptyClones k ∧ NonemptyClones s

theorem cladesOf_nonempty : ∀ (f : DF), NonemptyClones f → ∀ c ∈ cladesOf f, c.toFinset.Nonempty
  | .nil, _, c, hc => by simp [cladesOf] at hc
  | .cons d k s, h, c, hc => by
    obtain ⟨hd, hk, hs⟩ := h
    simp only [cladesOf, List.mem_append, List.mem_cons] at hc
    rcases hc with (rfl | hc) | hc
    · rw [toFinset_dedupL]
      obtain ⟨x, hx⟩ := List.exists_mem_of_ne_nil d hd
      exact ⟨x, by simp [hx]⟩
    · exact cladesOf_nonempty k hk c hc
    · exact cladesOf_nonempty s hs c hc

theorem cladesOf_nodup : ∀ (f : DF), ∀ c ∈ cladesOf f, c.Nodup
  | .nil, c, hc => by simp [cladesOf] at hc
  | .cons d k s, c, hc => by
    simp only [cladesOf, List.mem_append, List.mem_cons] at hc
    rcases hc with (rfl | hc) | hc
    · exact nodup_dedupL _
    · exact cladesOf_nodup k c hc
    · exact cladesOf_nodup s c hc

/-! ### support -/

/-- index form of the accumulation loop -/
theorem supportW_eq_sum : ∀ (ws : List ℚ) (cls : List (List Clade)) (c : Clade),
    cls.length ≤ ws.length →
    supportW ws cls c = ∑ i ∈ range cls.length, if c.toFinset ∈ F (cls.getD i []) then ws.getD i 0 else 0
  | _, [], c, _ => by cases ‹List ℚ› <;> simp [supportW]
  | [], _ :: _, _, h => by simp at h
  | w :: ws, cl :: cls, c, h => by
    have ih := supportW_eq_sum ws cls c (by simpa using h)
    simp only [supportW, List.length_cons]
    rw [Finset.sum_range_succ', ih, add_comm]
    congr 1
    by_cases hm : memC c cl = true
    · simp [hm, memC_iff.mp hm]
    · have : c.toFinset ∉ F cl := fun h' => hm (memC_iff.mpr h')
      simp [hm, this]

theorem supportW_div (k : ℚ) : ∀ (ws : List ℚ) (cls : List (List Clade)) (c : Clade),
    supportW ws cls c / k = supportW (ws.map (· / k)) cls c
  | [], cls, c => by cases cls <;> simp [supportW]
  | _ :: _, [], c => by simp [supportW]
  | w :: ws, cl :: cls, c => by
    simp only [supportW, List.map_cons, add_div, supportW_div k ws cls c]
    split <;> simp

/-- weights and per-tree clade families as functions of the tree index -/
def wOf (weights : Option (List ℚ)) (T : ℕ) (i : ℕ) : ℚ :=
  match weights with
  | none => 1 / (T : ℚ)
  | some ws => ws.getD i 0

def clOf (cls : List (List Clade)) (i : ℕ) : Finset (Finset ℕ) := F (cls.getD i [])

theorem support_eq (weights : Option (List ℚ)) (cls : List (List Clade)) (c : Clade)
    (hw : ∀ ws, weights = some ws → cls.length ≤ ws.length) :
    support weights cls c =
      _root_.Consensus.support (range cls.length) (wOf weights cls.length) (clOf cls) c.toFinset := by
  unfold _root_.Consensus.support
  rw [Finset.sum_filter]
  cases weights with
  | some ws =>
    simp only [support, wOf]
    rw [supportW_eq_sum ws cls c (hw ws rfl)]
    rfl
  | none =>
    simp only [support, wOf]
    rw [supportW_div, supportW_eq_sum _ cls c (by simp)]
    apply Finset.sum_congr rfl
    intro i hi
    have hi' : i < cls.length := Finset.mem_range.mp hi
    simp only [clOf]
    have hg : (List.map (fun x => x / (cls.length : ℚ)) (List.map (fun _ => (1 : ℚ)) cls)).getD i 0
        = 1 / (cls.length : ℚ) := by
      simp [List.getD_eq_getElem?_getD, hi']
    rw [hg]
    by_cases h : c.toFinset ∈ F (cls.getD i []) <;> simp

end PhyModel.ConsBridge
