import PhyModel.Proofs.TablePos
/-! Placing data point `i` on a parent state produces trees that mention only the parent's data
points and `i` (canonicalisation included), so `Good` is inherited by every placement. -/
namespace PhyModel
open Orders C19P

namespace Orders.Forest

theorem ofRoots_roots : ∀ f : DF, ofRoots f.roots = f
  | .nil => rfl
  | .cons d k s => by simp [roots, ofRoots, ofRoots_roots s]

theorem mem_all_ofRoots {x : ℕ} : ∀ l : List (List ℕ × DF),
    x ∈ (ofRoots l).all ↔ ∃ r ∈ l, x ∈ r.2.all ∨ x ∈ r.1
  | [] => by simp [ofRoots, Forest.all]
  | (d, k) :: r => by
    simp only [ofRoots, Forest.all, List.mem_append, mem_all_ofRoots r, List.mem_cons, exists_eq_or_imp]

theorem mem_all_roots {x : ℕ} (f : DF) : x ∈ f.all ↔ ∃ r ∈ f.roots, x ∈ r.2.all ∨ x ∈ r.1 := by
  conv_lhs => rw [← ofRoots_roots f]
  exact mem_all_ofRoots f.roots

theorem mem_insertSorted (r y : List ℕ × DF) : ∀ l, y ∈ insertSorted r l ↔ y = r ∨ y ∈ l
  | [] => by simp [insertSorted]
  | x :: l => by
    simp only [insertSorted]
    split
    · simp
    · simp only [List.mem_cons, mem_insertSorted r y l]; tauto

theorem mem_insertNat (a x : ℕ) : ∀ l, x ∈ insertNat a l ↔ x = a ∨ x ∈ l
  | [] => by simp [insertNat]
  | b :: l => by
    simp only [insertNat]
    split
    · simp
    · simp only [List.mem_cons, mem_insertNat a x l]; tauto

theorem mem_sortNat (x : ℕ) : ∀ l, x ∈ sortNat l ↔ x ∈ l
  | [] => by simp [sortNat]
  | a :: l => by
    have ih := mem_sortNat x l
    unfold sortNat at ih ⊢
    simp only [List.foldr_cons, mem_insertNat, ih, List.mem_cons]

theorem mem_canon_all {x : ℕ} : ∀ f : DF, x ∈ f.canon.all → x ∈ f.all
  | .nil => by simp [canon]
  | .cons d k s => by
    intro h
    simp only [canon] at h
    rw [mem_all_ofRoots] at h
    obtain ⟨r, hr, hx⟩ := h
    rcases (mem_insertSorted _ _ _).1 hr with rfl | hr'
    · rcases hx with hx | hx
      · have := mem_canon_all k hx
        simp [Forest.all, this]
      · have := (mem_sortNat x d).1 hx
        simp [Forest.all, this]
    · have h2 : x ∈ (canon s).all := (mem_all_roots (canon s)).2 ⟨r, hr', hx⟩
      have := mem_canon_all s h2
      simp [Forest.all, this]

end Orders.Forest

namespace Proposal
open Orders.Forest

theorem addAt_mem (i : ℕ) : ∀ (j : ℕ) (rs : List (List ℕ × DF)) (y : List ℕ × DF), y ∈ addAt i j rs →
    y ∈ rs ∨ ∃ d k, (d, k) ∈ rs ∧ y = (d ++ [i], k)
  | _, [], y, h => by simp [addAt] at h
  | 0, (d, k) :: r, y, h => by
    simp only [addAt, List.mem_cons] at h
    rcases h with rfl | h
    · exact Or.inr ⟨d, k, by simp, rfl⟩
    · exact Or.inl (by simp [h])
  | j + 1, x :: r, y, h => by
    simp only [addAt, List.mem_cons] at h
    rcases h with rfl | h
    · exact Or.inl (by simp)
    · rcases addAt_mem i j r y h with h | ⟨d, k, hm, rfl⟩
      · exact Or.inl (by simp [h])
      · exact Or.inr ⟨d, k, by simp [hm], rfl⟩

theorem splits_mem {α} : ∀ (l : List α) (c r : List α), (c, r) ∈ splits l → ∀ y, (y ∈ c ∨ y ∈ r) → y ∈ l
  | [], c, r, h, y, hy => by
    simp [splits] at h
    obtain ⟨rfl, rfl⟩ := h
    simp at hy
  | a :: l, c, r, h, y, hy => by
    simp only [splits, List.mem_flatMap] at h
    obtain ⟨⟨c', r'⟩, hm, hcr⟩ := h
    simp only [List.mem_cons, Prod.mk.injEq, List.not_mem_nil, or_false] at hcr
    have ih := splits_mem l c' r' hm y
    rcases hcr with ⟨rfl, rfl⟩ | ⟨rfl, rfl⟩
    · rcases hy with hy | hy
      · rcases List.mem_cons.1 hy with rfl | hy
        · simp
        · exact List.mem_cons_of_mem _ (ih (Or.inl hy))
      · exact List.mem_cons_of_mem _ (ih (Or.inr hy))
    · rcases hy with hy | hy
      · exact List.mem_cons_of_mem _ (ih (Or.inl hy))
      · rcases List.mem_cons.1 hy with rfl | hy
        · simp
        · exact List.mem_cons_of_mem _ (ih (Or.inr hy))

/-- the data points of a placed tree are those of the parent plus `i` -/
theorem placements_idx (p : T) (i : ℕ) : ∀ kt ∈ placements p i, ∀ x, x ∈ kt.2.f.all ++ kt.2.out →
    x ∈ p.f.all ++ p.out ∨ x = i := by
  intro kt hkt x hx
  simp only [placements, List.mem_append, List.mem_map, List.mem_range, List.mem_singleton] at hkt
  rcases hkt with (⟨j, _, rfl⟩ | ⟨⟨c, r⟩, hcr, rfl⟩) | rfl
  · -- into the j-th top-level clone
    simp only [T.mk', List.mem_append] at hx
    rcases hx with hx | hx
    · have h1 := mem_canon_all _ hx
      obtain ⟨y, hy, hxy⟩ := (mem_all_ofRoots _).1 h1
      rcases addAt_mem i j _ y hy with hy | ⟨d, k, hm, rfl⟩
      · exact Or.inl (List.mem_append.2 (Or.inl ((mem_all_roots p.f).2 ⟨y, hy, hxy⟩)))
      · rcases hxy with hxy | hxy
        · exact Or.inl (List.mem_append.2 (Or.inl ((mem_all_roots p.f).2 ⟨(d, k), hm, Or.inl hxy⟩)))
        · rcases List.mem_append.1 hxy with hxy | hxy
          · exact Or.inl (List.mem_append.2 (Or.inl ((mem_all_roots p.f).2 ⟨(d, k), hm, Or.inr hxy⟩)))
          · exact Or.inr (by simpa using hxy)
    · exact Or.inl (List.mem_append.2 (Or.inr ((mem_sortNat x _).1 hx)))
  · -- new clone above the chosen top-level clones
    simp only [T.mk', List.mem_append] at hx
    rcases hx with hx | hx
    · have h1 := mem_canon_all _ hx
      obtain ⟨y, hy, hxy⟩ := (mem_all_ofRoots _).1 h1
      rcases List.mem_cons.1 hy with rfl | hy
      · rcases hxy with hxy | hxy
        · obtain ⟨z, hz, hxz⟩ := (mem_all_ofRoots _).1 hxy
          have := splits_mem _ c r hcr z (Or.inl hz)
          exact Or.inl (List.mem_append.2 (Or.inl ((mem_all_roots p.f).2 ⟨z, this, hxz⟩)))
        · exact Or.inr (by simpa using hxy)
      · have := splits_mem _ c r hcr y (Or.inr hy)
        exact Or.inl (List.mem_append.2 (Or.inl ((mem_all_roots p.f).2 ⟨y, this, hxy⟩)))
    · exact Or.inl (List.mem_append.2 (Or.inr ((mem_sortNat x _).1 hx)))
  · -- outlier
    simp only [T.mk', List.mem_append] at hx
    rcases hx with hx | hx
    · exact Or.inl (List.mem_append.2 (Or.inl (mem_canon_all _ hx)))
    · rcases List.mem_append.1 ((mem_sortNat x _).1 hx) with hx | hx
      · exact Or.inl (List.mem_append.2 (Or.inr hx))
      · exact Or.inr (by simpa using hx)

theorem placements_good (dt : Data) (p : T) (i : ℕ) (hp : Good dt p.f p.out) (hi : GoodIdx dt i) :
    ∀ kt ∈ placements p i, Good dt kt.2.f kt.2.out := by
  intro kt hkt x hx
  rcases placements_idx p i kt hkt x hx with h | rfl
  · exact hp x h
  · exact hi

end Proposal
end PhyModel
