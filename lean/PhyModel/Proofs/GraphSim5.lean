import PhyModel.Proofs.GraphSim4
/-! Simulation of the structural store model by the graph model, the step theorem: **every edit of the
structural store model (`Store.step`) that does not raise is simulated by legal graph-level edits
(`gStep`) on the graphs of the stores**, handle by handle, up to the order of the node list and of the
edge list (`GEquiv`).  The edits of payloads (`add_data_point_to_node`, `remove_data_point_from_node`,
`remove_data_point_from_outliers`, `relabel_nodes`, `update`) need no graph-level edit; every other edit
needs exactly one.  With `forest_step` (`Proofs/GraphStep.lean`) and `GEquiv.isForest` the graphs of the
stores after the step are rooted forests *because the graph operations keep them so*, not because the
structural model cannot express anything else. -/
namespace PhyModel.Graph
open PhyModel PhyModel.Store PhyModel.Store.SF

/-- **C07, graph shape: the structural store model is simulated by the graph model (step).** -/
theorem graph_step {dt : Data} {sys sys' : Store.Sys} {op : Store.Op} (hall : ∀ s ∈ sys, Store.WF s ∧ Store.Full s)
    (hstep : Store.step dt sys op = some sys') :
    ∃ gops : List GOp, (∀ o ∈ gops, GLegal o) ∧ ∃ gs', gRun (graphsOf sys) gops = some gs' ∧
      List.Forall₂ GEquiv gs' (graphsOf sys') := by
  show Simulates sys sys'
  have hinv : ∀ {h : Nat} {s : Store}, sys[h]? = some s → WF s ∧ Full s :=
    fun hs => hall _ (List.mem_of_getElem? hs)
  cases op with
  | create h ch d =>
    simp only [Store.step, Option.bind_eq_bind, Option.pure_def, Option.bind_eq_some_iff,
      Option.some.injEq] at hstep
    obtain ⟨s, hs, r, hr, rfl⟩ := hstep
    exact sim_create (hinv hs).1 hs hr rfl
  | createAdd h ch dp =>
    simp only [Store.step, Option.bind_eq_bind, Option.pure_def, Option.bind_eq_some_iff,
      Option.some.injEq] at hstep
    obtain ⟨s, hs, r, hr, r2, hr2, rfl⟩ := hstep
    exact sim_create (hinv hs).1 hs hr (graphOf_addDataPointToNode hr2)
  | addDp h dp nd =>
    simp only [Store.step, Option.bind_eq_bind, Option.pure_def, Option.bind_eq_some_iff,
      Option.some.injEq] at hstep
    obtain ⟨s, hs, r, hr, rfl⟩ := hstep
    exact sim_same hs (graphOf_addDataPointToNode hr)
  | rmDp h dp nd =>
    simp only [Store.step, Option.bind_eq_bind, Option.pure_def, Option.bind_eq_some_iff,
      Option.some.injEq] at hstep
    obtain ⟨s, hs, r, hr, rfl⟩ := hstep
    exact sim_same hs (graphOf_removeDataPointFromNode hr)
  | rmOut h dp =>
    simp only [Store.step, Option.bind_eq_bind, Option.pure_def, Option.bind_eq_some_iff,
      Option.some.injEq] at hstep
    obtain ⟨s, hs, r, hr, rfl⟩ := hstep
    exact sim_same hs (graphOf_removeDataPointFromOutliers hr)
  | getSub h rt =>
    simp only [Store.step, Option.bind_eq_bind, Option.pure_def, Option.bind_eq_some_iff,
      Option.some.injEq] at hstep
    obtain ⟨s, hs, r, hr, rfl⟩ := hstep
    cases rt with
    | none =>
      simp only [Store.getSubtree, Option.some.injEq] at hr
      subst hr
      have hsame : Store.setH sys h s = sys := set_of_getElem? hs
      simp only [Option.isSome_none, Bool.false_eq_true, if_false, hsame]
      exact sim_copy hs
    | some name =>
      simp only [Option.isSome_some, if_true]
      exact sim_getSub (hinv hs).1 hs hr
  | rmSub h hsub =>
    simp only [Store.step, Option.bind_eq_bind, Option.pure_def, Option.bind_eq_some_iff,
      Option.some.injEq] at hstep
    obtain ⟨s, hs, sb, hsb, r, hr, rfl⟩ := hstep
    rw [touch_nodes_of_full (hinv hs).2, touch_nodes_of_full (hinv hsb).2] at hr
    rw [touch_nodes_of_full (hinv hsb).2]
    exact sim_rmSub (hinv hs).1 hs hsb hr
  | addSub h hsub par =>
    simp only [Store.step, Option.bind_eq_bind, Option.pure_def, Option.bind_eq_some_iff,
      Option.some.injEq] at hstep
    obtain ⟨s, hs, sb, hsb, r, hr, rfl⟩ := hstep
    exact sim_addSub (hinv hs).1 (hinv hsb).1 hs hsb hr
  | relabel h =>
    simp only [Store.step, Option.bind_eq_bind, Option.pure_def, Option.bind_eq_some_iff,
      Option.some.injEq] at hstep
    obtain ⟨s, hs, rfl⟩ := hstep
    exact sim_same hs (graphOf_relabelNodes s)
  | copy h =>
    simp only [Store.step, Option.bind_eq_bind, Option.pure_def, Option.bind_eq_some_iff,
      Option.some.injEq] at hstep
    obtain ⟨s, hs, rfl⟩ := hstep
    exact sim_copy hs
  | dictRT h =>
    simp only [Store.step, Option.bind_eq_bind, Option.pure_def, Option.bind_eq_some_iff,
      Option.some.injEq] at hstep
    obtain ⟨s, hs, r, hr, rfl⟩ := hstep
    exact sim_dictRT (hinv hs) hs hr
  | update h =>
    simp only [Store.step, Option.bind_eq_bind, Option.pure_def, Option.bind_eq_some_iff,
      Option.some.injEq] at hstep
    obtain ⟨s, hs, rfl⟩ := hstep
    exact sim_same hs (graphOf_update dt s)
  | fresh =>
    simp only [Store.step, Option.some.injEq] at hstep
    subst hstep
    exact sim_fresh dt sys

theorem forall₂_isForest {a b : GSys} (h : List.Forall₂ GEquiv a b) (ha : ∀ g ∈ a, IsForest g) :
    ∀ g ∈ b, IsForest g := by
  induction h with
  | nil => intro g hg; cases hg
  | cons he _ ih =>
    intro g hg
    rcases List.mem_cons.1 hg with rfl | hg
    · exact he.isForest (ha _ (List.mem_cons_self ..))
    · exact ih (fun g hg => ha g (List.mem_cons_of_mem _ hg)) g hg

/-- the graphs of the stores after a step are rooted forests: consequence of the graph-level closure
theorem (`forest_run`), not of the structure of `SF` -/
theorem graph_step_forest {dt : Data} {sys sys' : Store.Sys} {op : Store.Op}
    (hall : ∀ s ∈ sys, Store.WF s ∧ Store.Full s) (hstep : Store.step dt sys op = some sys')
    (hf : ∀ g ∈ graphsOf sys, IsForest g) : ∀ g ∈ graphsOf sys', IsForest g := by
  obtain ⟨gops, hleg, gs', hrun, h2⟩ := graph_step hall hstep
  exact forall₂_isForest h2 (forest_run hf hleg hrun)

/-! ### non-vacuity -/

open C07Ex in
/-- the hypotheses hold for the system `[t2, sub]`; `remove_subtree(sub)` on handle 0 is the graph-level
`.rmSub 0 1`, `add_subtree` of handle 1 under clone 1 of the result is `.addSub 0 1 2 m` -/
example : (∀ s ∈ [t2, sub], WF s ∧ Full s) ∧
    (Store.step dt [t2, sub] (.rmSub 0 1)).map graphsOf = some (graphsOf [t3, sub]) ∧
    GLegal (.rmSub 0 1) ∧ gRun (graphsOf [t2, sub]) [.rmSub 0 1] = some (graphsOf [t3, sub]) ∧
    (Store.step dt [t3, sub] (.addSub 0 1 (some 1))).map graphsOf =
      some [⟨[0, 2, 3], [(0, 2), (2, 3)]⟩, ⟨[0, 1], [(0, 1)]⟩] ∧
    gRun (graphsOf [t3, sub]) [.addSub 0 1 2 [(0, 4), (1, 3)]] =
      some [⟨[0, 2, 3], [(0, 2), (2, 3)]⟩, ⟨[0, 1], [(0, 1)]⟩] := by
  refine ⟨?_, by decide +kernel⟩
  intro s hs
  simp only [List.mem_cons, List.not_mem_nil, or_false] at hs
  rcases hs with rfl | rfl
  · exact ⟨(Store.wfB_iff _).1 (by decide +kernel), by unfold Full; decide +kernel⟩
  · exact ⟨(Store.wfB_iff _).1 (by decide +kernel), by unfold Full; decide +kernel⟩

end PhyModel.Graph
