import PhyModel.Proofs.PropCanon
import PhyModel.Proofs.PropChoose
/-! # C08 helpers 4: normal forms of `placements` and of the three proposal tables, and the
normalised categorical distribution. -/

namespace PhyModel
open Finset BigOperators Dist Proposal Orders Orders.Forest

namespace Proposal
def exT (p : T) (i j : ℕ) : T := T.mk' (ofRoots (addAt i j p.f.roots)) p.out
def newT (p : T) (i : ℕ) (cr : List (List ℕ × DF) × List (List ℕ × DF)) : T :=
  T.mk' (ofRoots (([i], ofRoots cr.1) :: cr.2)) p.out
def outT (p : T) (i : ℕ) : T := T.mk' p.f (p.out ++ [i])
end Proposal

theorem placements_eq (p : T) (i : ℕ) :
    placements p i
      = (List.range p.f.roots.length).map (fun j => (Kind.existing j, exT p i j))
        ++ (splits p.f.roots).map (fun cr => (Kind.newNode cr.1.length, newT p i cr))
        ++ [(Kind.outlier, outT p i)] := by
  rfl

theorem table_bootstrap (dt : Data) (c : Cfg) (first : Bool) (p : T) (i : ℕ) (hk : c.kind = .bootstrap) :
    table dt c first p i
      = (List.range p.f.roots.length).map (fun j => (exT p i j, (1 - c.op) / 2 / (p.f.roots.length : ℚ)))
        ++ (splits p.f.roots).map (fun cr => (newT p i cr,
              if first || p.f.roots.length = 0 then 1 - c.op
              else (1 - c.op) / 2 / ((p.f.roots.length : ℚ) + 1) / binom p.f.roots.length cr.1.length))
        ++ (if c.op ≠ 0 then [(outT p i, c.op)] else []) := by
  unfold table
  rw [placements_eq]
  simp only [hk, numRoots_eq, List.filterMap_append, List.filterMap_map]
  congr 1
  · congr 1
    · simp
    · simp only [Function.comp_def]
      split_ifs <;> simp
  · by_cases h : c.op = 0 <;> simp [h]


namespace Proposal
/-- candidate list with marginal-density weights -/
def wts (dt : Data) (c : Cfg) (l : List T) : List (T × ℚ) := l.map fun t => (t, pMargT dt c t)
def exL (p : T) (i : ℕ) : List T := (List.range p.f.roots.length).map (exT p i)
def newL (p : T) (i : ℕ) : List T := (splits p.f.roots).map (newT p i)
def outL (c : Cfg) (p : T) (i : ℕ) : List T := if c.op ≠ 0 then [outT p i] else []
end Proposal

theorem table_full (dt : Data) (c : Cfg) (first : Bool) (p : T) (i : ℕ) (hk : c.kind = .full) :
    table dt c first p i = Dist.categorical (wts dt c (exL p i ++ newL p i ++ outL c p i)) := by
  unfold table
  rw [placements_eq]
  simp only [hk, wts, exL, newL, outL, List.filter_append, List.map_append, List.filter_map, List.map_map]
  congr 2
  · congr 1
    · simp [Function.comp_def]
    · simp [Function.comp_def]
  · by_cases h : c.op = 0 <;> simp [h]

theorem table_semi0 (dt : Data) (c : Cfg) (first : Bool) (p : T) (i : ℕ) (hk : c.kind = .semi)
    (hr : p.f.roots.length = 0) :
    table dt c first p i = Dist.categorical (wts dt c (newL p i ++ outL c p i)) := by
  unfold table
  rw [placements_eq]
  simp only [hk, numRoots_eq, hr, if_true, wts, newL, outL, List.filter_append, List.map_append, List.filter_map, List.map_map]
  congr 2
  · simp [Function.comp_def]
  · by_cases h : c.op = 0 <;> simp [h]

theorem table_semi (dt : Data) (c : Cfg) (first : Bool) (p : T) (i : ℕ) (hk : c.kind = .semi)
    (hr : p.f.roots.length ≠ 0) :
    table dt c first p i
      = Dist.scale (1 / 2) (Dist.categorical (wts dt c (exL p i ++ outL c p i)))
        ++ (splits p.f.roots).map (fun cr => (newT p i cr,
              (1 : ℚ) / 2 / ((p.f.roots.length : ℚ) + 1) / binom p.f.roots.length cr.1.length)) := by
  unfold table
  rw [placements_eq]
  simp only [hk, numRoots_eq, hr, if_false, wts, exL, outL, List.filter_append, List.map_append, List.filter_map, List.map_map,
    List.filterMap_append, List.filterMap_map]
  congr 1
  · congr 3
    · simp [Function.comp_def]
    · by_cases h : c.op = 0 <;> simp [h]
  · simp

/-! ### the categorical distribution -/

theorem foldl_add_eq (l : List ℚ) (c : ℚ) : l.foldl (· + ·) c = c + l.sum := by
  induction l generalizing c with
  | nil => simp
  | cons a l ih => simp only [List.foldl_cons, List.sum_cons]; rw [ih]; ring

theorem categorical_eq {α} (l : List (α × ℚ)) :
    Dist.categorical l = l.map (fun aw => (aw.1, aw.2 / lsum l (fun aw => aw.2))) := by
  unfold Dist.categorical
  simp only [foldl_add_eq, zero_add, lsum]

theorem lsum_wts (dt : Data) (c : Cfg) (L : List T) (F : T × ℚ → ℚ) :
    lsum (wts dt c L) F = lsum L (fun t => F (t, pMargT dt c t)) := by
  unfold wts; rw [lsum_map]

theorem categorical_wts (dt : Data) (c : Cfg) (L : List T) :
    Dist.categorical (wts dt c L)
      = L.map (fun t => (t, pMargT dt c t / lsum L (pMargT dt c))) := by
  rw [categorical_eq, lsum_wts]
  unfold wts
  rw [List.map_map]
  rfl

theorem E_categorical_wts (dt : Data) (c : Cfg) (L : List T) (h : T → ℚ) :
    E (Dist.categorical (wts dt c L)) h
      = lsum L (fun t => pMargT dt c t * h t) / lsum L (pMargT dt c) := by
  rw [categorical_wts, E_eq_lsum, lsum_map, div_eq_mul_inv, ← lsum_mul_right]
  apply lsum_congr
  intro t _
  simp only
  ring

theorem tsum_categorical_wts (dt : Data) (c : Cfg) (L : List T) (hne : lsum L (pMargT dt c) ≠ 0) :
    lsum (Dist.categorical (wts dt c L)) (fun tq => tq.2) = 1 := by
  rw [categorical_wts, lsum_map]
  simp only [div_eq_mul_inv]
  rw [lsum_mul_right, mul_inv_cancel₀ hne]

theorem mem_categorical_wts (dt : Data) (c : Cfg) (L : List T) (t : T) (ht : t ∈ L) :
    (t, pMargT dt c t / lsum L (pMargT dt c)) ∈ Dist.categorical (wts dt c L) := by
  rw [categorical_wts]
  exact List.mem_map.mpr ⟨t, ht, rfl⟩

theorem lsum_pos {α} (L : List α) (F : α → ℚ) (hne : L ≠ []) (h : ∀ a ∈ L, 0 < F a) : 0 < lsum L F := by
  induction L with
  | nil => exact absurd rfl hne
  | cons a L ih =>
    rw [lsum_cons]
    have ha := h a List.mem_cons_self
    by_cases hL : L = []
    · subst hL; simpa [lsum] using ha
    · have := ih hL (fun b hb => h b (List.mem_cons_of_mem _ hb))
      linarith

theorem newL_ne_nil (p : T) (i : ℕ) : newL p i ≠ [] := by
  unfold newL
  simp only [ne_eq, List.map_eq_nil_iff]
  exact splits_ne_nil _

/-- every candidate tree is (the tree of) a placement -/
theorem mem_cands (c : Cfg) (p : T) (i : ℕ) (t : T) (ht : t ∈ exL p i ++ newL p i ++ outL c p i) :
    ∃ kt ∈ placements p i, kt.2 = t := by
  rw [placements_eq]
  simp only [exL, newL, outL, List.mem_append, List.mem_map] at ht
  rcases ht with (⟨j, hj, rfl⟩ | ⟨cr, hcr, rfl⟩) | ht
  · exact ⟨(Kind.existing j, exT p i j), by simpa using hj, rfl⟩
  · refine ⟨(Kind.newNode cr.1.length, newT p i cr), ?_, rfl⟩
    simp only [List.mem_append, List.mem_map]
    exact Or.inl (Or.inr ⟨cr, hcr, rfl⟩)
  · by_cases h : c.op = 0
    · simp [h] at ht
    · simp [h] at ht
      subst ht
      exact ⟨(Kind.outlier, outT p i), by simp, rfl⟩

end PhyModel
