import PhyModel.Proofs.ConcGibbs
import Mathlib.MeasureTheory.Integral.Prod
/-! Integration against Mathlib's `betaMeasure`, `gammaMeasure` and Gamma mixtures in terms of the
densities on `(0,1)` / `(0,∞)`; a.e.-measurability of a function that is a.e. a parametrised
integral.  Used for the measure form of C13's Gibbs invariance. -/
open Real ProbabilityTheory MeasureTheory Set Function
open scoped ENNReal

namespace PhyModel.ConcDensity

/-- `∫ G d Beta(α, β) = ∫_{(0,1)} betaPDF · G`, for every `G` -/
lemma lintegral_betaMeasure (α β : ℝ) (G : ℝ → ℝ≥0∞) :
    ∫⁻ η, G η ∂betaMeasure α β = ∫⁻ η in Ioo (0 : ℝ) 1, betaPDF α β η * G η := by
  unfold betaMeasure
  have hm : Measurable (betaPDF α β) := (measurable_betaPDFReal α β).ennreal_ofReal
  rw [lintegral_withDensity_eq_lintegral_mul_non_measurable _ hm
    (ae_of_all _ fun _ => ENNReal.ofReal_lt_top)]
  refine (setLIntegral_eq_of_support_subset fun η hη => ?_).symm
  by_contra h
  refine hη ?_
  show betaPDF α β η * G η = 0
  rw [betaPDF, betaPDFReal, if_neg (by exact h), ENNReal.ofReal_zero, zero_mul]

/-- `∫ f d Gamma(s, r) = ∫_{(0,∞)} gammaPDF · f`, for every `f` -/
lemma lintegral_gammaMeasure (s r : ℝ) (f : ℝ → ℝ≥0∞) :
    ∫⁻ x, f x ∂gammaMeasure s r = ∫⁻ x in Ioi (0 : ℝ), gammaPDF s r x * f x := by
  unfold gammaMeasure
  have hm : Measurable (gammaPDF s r) := (measurable_gammaPDFReal s r).ennreal_ofReal
  rw [lintegral_withDensity_eq_lintegral_mul_non_measurable _ hm
    (ae_of_all _ fun _ => ENNReal.ofReal_lt_top), setLIntegral_congr Ioi_ae_eq_Ici]
  refine (setLIntegral_eq_of_support_subset fun x hx => ?_).symm
  by_contra h
  refine hx ?_
  show gammaPDF s r x * f x = 0
  rw [gammaPDF, gammaPDFReal, if_neg (by exact h), ENNReal.ofReal_zero, zero_mul]

/-- integration against the two-component Gamma mixture measure -/
lemma lintegral_gammaMixture {w s₁ s₂ r : ℝ} (hw0 : 0 ≤ w) (hw1 : w ≤ 1) (hs₁ : 0 < s₁)
    (hs₂ : 0 < s₂) (hr : 0 < r) (f : ℝ → ℝ≥0∞) (hf : Measurable f) :
    ∫⁻ x, f x ∂(ENNReal.ofReal w • gammaMeasure s₁ r + ENNReal.ofReal (1 - w) • gammaMeasure s₂ r)
      = ∫⁻ x in Ioi (0 : ℝ),
          ENNReal.ofReal (w * gammaPDFReal s₁ r x + (1 - w) * gammaPDFReal s₂ r x) * f x := by
  have hw' : 0 ≤ 1 - w := by linarith
  have hm : Measurable fun a => gammaPDF s₁ r a * f a :=
    (measurable_gammaPDFReal s₁ r).ennreal_ofReal.mul hf
  rw [lintegral_add_measure, lintegral_smul_measure, lintegral_smul_measure,
    lintegral_gammaMeasure, lintegral_gammaMeasure, smul_eq_mul, smul_eq_mul,
    ← lintegral_const_mul' _ _ ENNReal.ofReal_ne_top,
    ← lintegral_const_mul' _ _ ENNReal.ofReal_ne_top,
    ← lintegral_add_left (hm.const_mul _)]
  refine lintegral_congr fun x => ?_
  rw [ENNReal.ofReal_add (mul_nonneg hw0 (gammaPDFReal_nonneg hs₁ hr x))
    (mul_nonneg hw' (gammaPDFReal_nonneg hs₂ hr x)), ENNReal.ofReal_mul hw0,
    ENNReal.ofReal_mul hw', gammaPDF, gammaPDF]
  ring

/-- a real function that agrees on a measurable set `S` with a constant times the parametrised
Bochner integral of a jointly measurable function is a.e.-measurable on `S` -/
lemma aemeasurable_of_eq_integral {jt : ℝ → ℝ → ℝ} (hjt : Measurable (uncurry jt)) (ν : Measure ℝ)
    [SFinite ν] {S : Set ℝ} (hS : MeasurableSet S) (c : ℝ) (t : ℝ → ℝ)
    (h : ∀ x ∈ S, ∫ y, jt x y ∂ν = c * t x) (hc : c ≠ 0) :
    AEMeasurable t (volume.restrict S) := by
  have hm : Measurable fun x => c⁻¹ * ∫ y, jt x y ∂ν :=
    (hjt.stronglyMeasurable.integral_prod_right (ν := ν)).measurable.const_mul _
  refine ⟨_, hm, ?_⟩
  refine ae_restrict_of_forall_mem hS fun x hx => ?_
  show t x = c⁻¹ * ∫ y, jt x y ∂ν
  rw [h x hx, inv_mul_cancel_left₀ hc]

lemma mixR_eq (a b k n η x : ℝ) :
    mixR a b k n η x = mixPDF (wR a b k n η) (a + k - 1) (b - log η) x := by
  unfold mixR mixPDF
  rw [show a + k - 1 + 1 = a + k by ring]

/-- the constant of `joint_alpha` is bounded uniformly in `η ∈ (0,1)` -/
lemma joint_const_bound {a b k n η : ℝ} (ha : 0 < a) (hb : 0 < b) (hk : 1 ≤ k) (hn : 1 ≤ n)
    (h0 : 0 < η) (h1 : η < 1) :
    |b ^ a / Gamma a * (1 - η) ^ (n - 1) / mixConst (a + k - 1) (b - log η) n|
      ≤ b ^ a / Gamma a * (Gamma (a + k - 1) *
          ((a + k - 1) / b ^ (a + k - 1 + 1) + n / b ^ (a + k - 1))) := by
  have hlog : log η < 0 := log_neg h0 h1
  set s := a + k - 1 with hs_def
  set r := b - log η with hr_def
  have hs : 0 < s := by linarith
  have hr : 0 < r := by linarith
  have hbr : b ≤ r := by linarith
  have hn0 : 0 < n := by linarith
  have hGa := Gamma_pos_of_pos ha
  have hGs := Gamma_pos_of_pos hs
  have hη : 0 ≤ 1 - η := by linarith
  have hpow : 0 ≤ (1 - η) ^ (n - 1) := rpow_nonneg hη _
  have hC := mixConst_pos hs hr hn0
  have p1 : (1 - η) ^ (n - 1) ≤ 1 := rpow_le_one hη (by linarith) (by linarith)
  have e : (s + n * r) / r ^ (s + 1) = s / r ^ (s + 1) + n / r ^ s := by
    rw [rpow_add_one hr.ne']; field_simp
  have b1 : s / r ^ (s + 1) ≤ s / b ^ (s + 1) :=
    div_le_div_of_nonneg_left hs.le (rpow_pos_of_pos hb _) (rpow_le_rpow hb.le hbr (by linarith))
  have b2 : n / r ^ s ≤ n / b ^ s :=
    div_le_div_of_nonneg_left hn0.le (rpow_pos_of_pos hb _) (rpow_le_rpow hb.le hbr hs.le)
  rw [abs_of_nonneg (by positivity)]
  calc b ^ a / Gamma a * (1 - η) ^ (n - 1) / mixConst s r n
      = b ^ a / Gamma a * ((1 - η) ^ (n - 1) * (Gamma s * ((s + n * r) / r ^ (s + 1)))) := by
        unfold mixConst
        have : s + n * r ≠ 0 := by positivity
        field_simp
    _ ≤ b ^ a / Gamma a * (1 * (Gamma s * (s / b ^ (s + 1) + n / b ^ s))) := by
        rw [e]
        have : 0 ≤ s / r ^ (s + 1) + n / r ^ s := by positivity
        gcongr
    _ = _ := by ring

/-- the Escobar–West joint has finite total mass on `(0,∞) × (0,1)` -/
lemma lintegral_jointR_lt_top {a b k n : ℝ} (ha : 0 < a) (hb : 0 < b) (hk : 1 ≤ k) (hn : 1 ≤ n) :
    ∫⁻ x in Ioi (0 : ℝ), ∫⁻ η in Ioo (0 : ℝ) 1, ENNReal.ofReal (jointR a b k n x η) < ⊤ := by
  have hn0 : 0 < n := by linarith
  have hm : Measurable (uncurry fun x η => ENNReal.ofReal (jointR a b k n x η)) :=
    ENNReal.measurable_ofReal.comp (measurable_jointR a b k n)
  rw [lintegral_lintegral_swap hm.aemeasurable]
  set C := b ^ a / Gamma a * (Gamma (a + k - 1) *
          ((a + k - 1) / b ^ (a + k - 1 + 1) + n / b ^ (a + k - 1))) with hC
  have hle : ∀ η ∈ Ioo (0 : ℝ) 1,
      ∫⁻ x in Ioi (0 : ℝ), ENNReal.ofReal (jointR a b k n x η) ≤ ENNReal.ofReal C := by
    intro η hη
    have := (GibbsTwoStage.factor_of_real (volume.restrict (Ioi (0 : ℝ)))
      (fun x => jointR a b k n x η) (mixR a b k n η)
      (ae_restrict_of_forall_mem measurableSet_Ioi fun x hx =>
        jointR_nonneg ha hb hn0 hx hη.1 hη.2)
      (ae_of_all _ (mixR_nonneg ha hb hk hn0 hη.1 hη.2))
      (lintegral_mixR_Ioi ha hb hk hn0 hη.1 hη.2) _
      (ae_restrict_of_forall_mem measurableSet_Ioi fun x hx => by
        rw [mixR_eq]; exact joint_alpha ha hb hk hn0 hη.1 hη.2 hx)).1
    rw [this]
    exact ENNReal.ofReal_le_ofReal (joint_const_bound ha hb hk hn hη.1 hη.2)
  calc ∫⁻ η in Ioo (0 : ℝ) 1, ∫⁻ x in Ioi (0 : ℝ), ENNReal.ofReal (jointR a b k n x η)
      ≤ ∫⁻ _ in Ioo (0 : ℝ) 1, ENNReal.ofReal C := setLIntegral_mono measurable_const hle
    _ = ENNReal.ofReal C * volume (Ioo (0 : ℝ) 1) := setLIntegral_const _ _
    _ < ⊤ := ENNReal.mul_lt_top ENNReal.ofReal_lt_top (by simp)

end PhyModel.ConcDensity
