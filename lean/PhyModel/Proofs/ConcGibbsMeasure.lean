import PhyModel.Proofs.ConcGibbs
import Mathlib.MeasureTheory.Integral.Prod
/-! Integration against Mathlib's `betaMeasure`, `gammaMeasure` and Gamma mixtures in terms of the
densities on `(0,1)` / `(0,∞)`; a.e.-measurability of a function that is a.e. a parametrised
integral.  Used for the measure form of C13's Gibbs invariance. -/
open Real ProbabilityTheory MeasureTheory Set Function
open scoped ENNReal

namespace PhyModel.ConcDensity

/-- `∫ G d Beta(α, β) = ∫_{(0,1)} betaPDF · G`, for every `G` -/
lemma lintegral_betaMeasure (α β : ℝ) (G : ℝ → ℝ≥0∞) :
    ∫⁻ η, G η ∂betaMeasure α β = ∫⁻ η in Ioo (0 : ℝ) 1, betaPDF α β η * G η := by
  unfold betaMeasure
  have hm : Measurable (betaPDF α β) := (measurable_betaPDFReal α β).ennreal_ofReal
  rw [lintegral_withDensity_eq_lintegral_mul_non_measurable _ hm
    (ae_of_all _ fun _ => ENNReal.ofReal_lt_top)]
  refine (setLIntegral_eq_of_support_subset fun η hη => ?_).symm
  by_contra h
  refine hη ?_
  show betaPDF α β η * G η = 0
  rw [betaPDF, betaPDFReal, if_neg (by exact h), ENNReal.ofReal_zero, zero_mul]

/-- `∫ f d Gamma(s, r) = ∫_{(0,∞)} gammaPDF · f`, for every `f` -/
lemma lintegral_gammaMeasure (s r : ℝ) (f : ℝ → ℝ≥0∞) :
    ∫⁻ x, f x ∂gammaMeasure s r = ∫⁻ x in Ioi (0 : ℝ), gammaPDF s r x * f x := by
  unfold gammaMeasure
  have hm : Measurable (gammaPDF s r) := (measurable_gammaPDFReal s r).ennreal_ofReal
  rw [lintegral_withDensity_eq_lintegral_mul_non_measurable _ hm
    (ae_of_all _ fun _ => ENNReal.ofReal_lt_top), setLIntegral_congr Ioi_ae_eq_Ici]
  refine (setLIntegral_eq_of_support_subset fun x hx => ?_).symm
  by_contra h
  refine hx ?_
  show gammaPDF s r x * f x = 0
  rw [gammaPDF, gammaPDFReal, if_neg (by exact h), ENNReal.ofReal_zero, zero_mul]

/-- integration against the two-component Gamma mixture measure -/
lemma lintegral_gammaMixture {w s₁ s₂ r : ℝ} (hw0 : 0 ≤ w) (hw1 : w ≤ 1) (hs₁ : 0 < s₁)
    (hs₂ : 0 < s₂) (hr : 0 < r) (f : ℝ → ℝ≥0∞) (hf : Measurable f) :
    ∫⁻ x, f x ∂(ENNReal.ofReal w • gammaMeasure s₁ r + ENNReal.ofReal (1 - w) • gammaMeasure s₂ r)
      = ∫⁻ x in Ioi (0 : ℝ),
          ENNReal.ofReal (w * gammaPDFReal s₁ r x + (1 - w) * gammaPDFReal s₂ r x) * f x := by
  have hw' : 0 ≤ 1 - w := by linarith
  have hm : Measurable fun a => gammaPDF s₁ r a * f a :=
    (measurable_gammaPDFReal s₁ r).ennreal_ofReal.mul hf
  rw [lintegral_add_measure, lintegral_smul_measure, lintegral_smul_measure,
    lintegral_gammaMeasure, lintegral_gammaMeasure, smul_eq_mul, smul_eq_mul,
    ← lintegral_const_mul' _ _ ENNReal.ofReal_ne_top,
    ← lintegral_const_mul' _ _ ENNReal.ofReal_ne_top,
    ← lintegral_add_left (hm.const_mul _)]
  refine lintegral_congr fun x => ?_
  rw [ENNReal.ofReal_add (mul_nonneg hw0 (gammaPDFReal_nonneg hs₁ hr x))
    (mul_nonneg hw' (gammaPDFReal_nonneg hs₂ hr x)), ENNReal.ofReal_mul hw0,
    ENNReal.ofReal_mul hw', gammaPDF, gammaPDF]
  ring

/-- a real function that agrees on a measurable set `S` with a constant times the parametrised
Bochner integral of a jointly measurable function is a.e.-measurable on `S` -/
lemma aemeasurable_of_eq_integral {jt : ℝ → ℝ → ℝ} (hjt : Measurable (uncurry jt)) (ν : Measure ℝ)
    [SFinite ν] {S : Set ℝ} (hS : MeasurableSet S) (c : ℝ) (t : ℝ → ℝ)
    (h : ∀ x ∈ S, ∫ y, jt x y ∂ν = c * t x) (hc : c ≠ 0) :
    AEMeasurable t (volume.restrict S) := by
  have hm : Measurable fun x => c⁻¹ * ∫ y, jt x y ∂ν :=
    (hjt.stronglyMeasurable.integral_prod_right (ν := ν)).measurable.const_mul _
  refine ⟨_, hm, ?_⟩
  refine ae_restrict_of_forall_mem hS fun x hx => ?_
  show t x = c⁻¹ * ∫ y, jt x y ∂ν
  rw [h x hx, inv_mul_cancel_left₀ hc]

end PhyModel.ConcDensity
