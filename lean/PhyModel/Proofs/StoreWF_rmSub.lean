import PhyModel.Proofs.StoreWF_Facts
/-! C07, `Tree.remove_subtree`: the bookkeeping loop deletes exactly the `_data` / `_node_indices` /
`_node_indices_rev` entries of the subtree's names (`rmFold_spec`), the graph loses the subtree
(`removeSub`), and the result satisfies the invariant again (`removeSubtree_inv`); what happens to the
data (`removeSubtree_data`), the clone names (`removeSubtree_names`) and the outliers
(`removeSubtree_outliers`).  `Dense` is not preserved. -/
namespace PhyModel.Store
open PhyModel PhyModel.Store PhyModel.Store.Store SF AL

section AL
variable {κ : Type} [BEq κ] [LawfulBEq κ] {α : Type}
omit [BEq κ] [LawfulBEq κ] in
theorem keys_filter {ν : Type} (m : List (κ × ν)) (p : κ → Bool) :
    keys (m.filter (fun e => p e.1)) = (keys m).filter p := by
  simp [keys, List.filter_map, Function.comp_def]

omit [BEq κ] [LawfulBEq κ] in
theorem vals_filter_sublist (m : List (κ × List α)) (p : κ × List α → Bool) :
    (vals (m.filter p)).Sublist (vals m) := by
  induction m with
  | nil => simp
  | cons e m ih =>
    simp only [vals, List.filter_cons, List.flatMap_cons] at ih ⊢
    split
    · simp only [List.flatMap_cons]; exact (List.Sublist.refl _).append ih
    · exact ih.trans (List.sublist_append_right _ _)

theorem dOf_filter (m : List (κ × List α)) (p : κ → Bool) {k : κ} (h : p k = true) :
    dOf (m.filter (fun e => p e.1)) k = dOf m k := by
  simp [dOf, lookup_filter_key p, h]
/-- deleting a duplicate-free list of keys removes exactly their values -/
theorem vals_perm_filter {m : List (κ × List α)} (hnd : (keys m).Nodup) {l : List κ} (hl : l.Nodup) :
    (vals m).Perm (l.flatMap (dOf m) ++ vals (m.filter (fun e => !l.contains e.1))) := by
  induction l generalizing m with
  | nil => simp
  | cons a l ih =>
    obtain ⟨hal, hl⟩ := List.nodup_cons.1 hl
    have h1 := vals_perm_split hnd a
    have h2 := ih (nodup_keys_alDel (k := a) hnd) hl
    have h3 : l.flatMap (dOf (alDel m a)) = l.flatMap (dOf m) :=
      List.flatMap_congr fun k hk => dOf_alDel_ne (fun h => hal (h ▸ hk))
    have h4 : (alDel m a).filter (fun e => !l.contains e.1) = m.filter (fun e => !(a :: l).contains e.1) := by
      simp only [alDel, List.filter_filter, List.contains_cons, Bool.not_or, Bool.and_comm]
    rw [h3, h4] at h2
    simp only [List.flatMap_cons, List.append_assoc]
    exact h1.trans (List.Perm.append_left _ h2)
end AL

theorem WFG.sublist {rs rs' : List NodeRec} (hsl : rs'.Sublist rs) (h : WFG rs) : WFG rs' :=
  ⟨h.names_nodup.sublist (hsl.map _), h.idxs_nodup.sublist (hsl.map _),
    fun n hn => h.idx_pos n (hsl.subset hn), fun n hn => h.name_nonneg n (hsl.subset hn)⟩

/-- list level: the payloads `rs` split into the removed ones `sb` (whose names are `nms`) and the
remaining ones `rs'`; filtering the three maps by "name not in `nms`" re-establishes the three parts -/
theorem rm_lists {rs sb rs' : List NodeRec} {nms : List Int} {ni : List (Int × Nat)} {nir : List (Nat × Int)}
    {data : List (Int × List Nat)} (hp : rs.Perm (sb ++ rs')) (hn : nms.Perm (sb.map (·.name)))
    (hg : WFG rs) (hm : WFM rs ni nir) (hd : WFD rs data) :
    WFG rs' ∧ WFM rs' (ni.filter fun e => !nms.contains e.1) (nir.filter fun e => !nms.contains e.2) ∧
      WFD rs' (data.filter fun e => !nms.contains e.1) ∧
      (∀ n ∈ rs', n.name ∉ nms) ∧ (∀ n ∈ rs, n.name ∉ nms → n ∈ rs') := by
  have hg2 : WFG (sb ++ rs') := hg.perm hp.symm
  have hg' : WFG rs' := hg2.sublist (List.sublist_append_right _ _)
  have hin : ∀ n ∈ sb, n.name ∈ nms := fun n h => hn.symm.subset (List.mem_map.2 ⟨n, h, rfl⟩)
  have hout : ∀ n ∈ rs', n.name ∉ nms := by
    intro n h hc
    have hnd := hg2.names_nodup
    rw [List.map_append, List.nodup_append] at hnd
    exact hnd.2.2 _ (hn.subset hc) _ (List.mem_map.2 ⟨n, h, rfl⟩) rfl
  have hback : ∀ n ∈ rs, n.name ∉ nms → n ∈ rs' := by
    intro n h hc
    rcases List.mem_append.1 (hp.subset h) with h1 | h1
    · exact absurd (hin n h1) hc
    · exact h1
  have hfilt : (rs.filter fun n => !nms.contains n.name).Perm rs' := by
    refine (hp.filter _).trans ?_
    rw [List.filter_append]
    have h1 : sb.filter (fun n => !nms.contains n.name) = [] := by
      rw [List.filter_eq_nil_iff]; intro n h; simp [hin n h]
    have h2 : rs'.filter (fun n => !nms.contains n.name) = rs' := by
      rw [List.filter_eq_self]; intro n h; simp [hout n h]
    rw [h1, h2]; exact List.Perm.refl _
  refine ⟨hg', ⟨?_, ?_⟩, ⟨?_, ?_, ?_, ?_⟩, hout, hback⟩
  · refine (hm.1.filter _).trans ?_
    rw [List.filter_map]
    exact hfilt.map _
  · refine (hm.2.filter _).trans ?_
    rw [List.filter_map]
    exact hfilt.map _
  · rw [keys_filter data (fun k => !nms.contains k)]; exact hd.data_keys.filter _
  · intro k hk
    rw [keys_filter data (fun k => !nms.contains k), List.mem_filter] at hk
    rcases hd.data_sub k hk.1 with h | h
    · exact Or.inl h
    · right
      obtain ⟨n, hn', rfl⟩ := List.mem_map.1 h
      exact List.mem_map.2 ⟨n, hback n hn' (by simpa using hk.2), rfl⟩
  · intro n hn'
    rw [dOf_filter data (fun k => !nms.contains k) (by simpa using hout n hn')]
    exact hd.payload_data n (hp.symm.subset (List.mem_append_right _ hn'))
  · exact hd.data_nodup.sublist (vals_filter_sublist _ _)

/-! ### the bookkeeping loop -/

/-- one iteration of the bookkeeping loop of `removeSubtree` -/
def rmStep (st : Store) (nm : Int) : Option Store := do
  if !alHas st.data nm then none
  let ci ← st.nodeIdx.lookup nm
  if !alHas st.nodeIdxRev ci then none
  pure { st with data := alDel st.data nm, nodeIdx := alDel st.nodeIdx nm,
                 nodeIdxRev := alDel st.nodeIdxRev ci }

theorem rmStep_spec {st st' : Store} {nm : Int} (h : rmStep st nm = some st') :
    ∃ ci, st.nodeIdx.lookup nm = some ci ∧
      st' = { st with data := alDel st.data nm, nodeIdx := alDel st.nodeIdx nm,
                      nodeIdxRev := alDel st.nodeIdxRev ci } := by
  simp only [rmStep, Option.bind_eq_bind] at h
  split at h
  · simp at h
  · simp only [Option.bind_eq_some_iff] at h
    obtain ⟨ci, hci, h⟩ := h
    split at h
    · simp at h
    · simp only [Option.pure_def, Option.some.injEq] at h
      exact ⟨ci, hci, h.symm⟩

/-- the two index maps are inverse relations with unique keys -/
structure MapsOK (ni : List (Int × Nat)) (nir : List (Nat × Int)) : Prop where
  k1 : (keys ni).Nodup
  k2 : (keys nir).Nodup
  bij : ∀ nm i, (nm, i) ∈ ni ↔ (i, nm) ∈ nir

theorem WF.mapsOK {s : Store} (h : WF s) : MapsOK s.nodeIdx s.nodeIdxRev :=
  ⟨h.nodeIdx_keys, h.nodeIdxRev_keys, fun nm i => by rw [h.nodeIdx_iff, h.nodeIdxRev_iff]⟩

theorem MapsOK.alDel_rev {ni nir} (h : MapsOK ni nir) {nm : Int} {ci : Nat} (hl : ni.lookup nm = some ci) :
    alDel nir ci = nir.filter (fun e => !(e.2 == nm)) := by
  unfold alDel
  apply List.filter_congr
  rintro ⟨i, nm'⟩ he
  have hci : (ci, nm) ∈ nir := (h.bij _ _).1 (mem_of_lookup hl)
  have : i = ci ↔ nm' = nm := by
    constructor
    · rintro rfl
      have h1 := lookup_of_mem h.k2 he
      have h2 := lookup_of_mem h.k2 hci
      rw [h1] at h2; exact Option.some.inj h2
    · rintro rfl
      have h1 := lookup_of_mem h.k1 ((h.bij _ _).2 he)
      rw [h1] at hl; exact Option.some.inj hl
  by_cases hi : i = ci
  · simp [hi, this.1 hi]
  · have : nm' ≠ nm := fun hc => hi (this.2 hc)
    simp [hi, this]

theorem MapsOK.filter {ni nir} (h : MapsOK ni nir) (p : Int → Bool) :
    MapsOK (ni.filter (fun e => p e.1)) (nir.filter (fun e => p e.2)) := by
  refine ⟨h.k1.sublist (List.filter_sublist.map _), h.k2.sublist (List.filter_sublist.map _), fun nm i => ?_⟩
  simp only [List.mem_filter, h.bij]

/-- the loop leaves the graph alone and filters the three maps by "name not in `nms`" -/
theorem rmFold_spec {nms : List Int} {st s1 : Store} (hm : MapsOK st.nodeIdx st.nodeIdxRev)
    (h : nms.foldlM rmStep st = some s1) :
    s1 = { st with data := st.data.filter (fun e => !nms.contains e.1),
                   nodeIdx := st.nodeIdx.filter (fun e => !nms.contains e.1),
                   nodeIdxRev := st.nodeIdxRev.filter (fun e => !nms.contains e.2) } := by
  induction nms generalizing st with
  | nil => simp at h; subst h; simp
  | cons a l ih =>
    simp only [List.foldlM_cons, Option.bind_eq_bind, Option.bind_eq_some_iff] at h
    obtain ⟨st', h1, h2⟩ := h
    obtain ⟨ci, hci, rfl⟩ := rmStep_spec h1
    have hm' : MapsOK (alDel st.nodeIdx a) (alDel st.nodeIdxRev ci) := by
      rw [hm.alDel_rev hci]; exact hm.filter (fun k => !(k == a))
    rw [ih hm' h2, hm.alDel_rev hci]
    simp only [alDel, List.filter_filter, List.contains_cons, Bool.not_or, Bool.and_comm]

theorem removeSubtree_unf {dt : Data} {s sub s' : Store} (h : s.removeSubtree dt sub = some s')
    (hne : Store.keyEq sub s = false) :
    ∃ r par i s1, sub.roots.head? = some r ∧ s.nodeIdx.lookup r = some i ∧
      sub.nodes.foldlM rmStep s = some s1 ∧
      updatePathToRoot dt { s1 with forest := s1.forest.removeSub i } par = some s' := by
  simp only [removeSubtree, hne, Bool.false_eq_true, if_false, Option.bind_eq_bind] at h
  split at h
  · simp at h
  · simp only [Option.bind_eq_some_iff] at h
    obtain ⟨r, hr, par, _, i, hi, s1, hs1, h⟩ := h
    exact ⟨r, par, i, s1, hr, hi, hs1, h⟩

/-! ### the theorems -/

/-- the side condition of `Legal (.rmSub ..)` for a pair of stores -/
def RmLegal (s sub : Store) : Prop :=
  Store.keyEq sub s = false →
    ∃ r i x, sub.roots = [r] ∧ s.nodeIdx.lookup r = some i ∧ s.forest.findSub i = some x ∧
      sub.nodes.Perm (SF.cons x.1 x.2 .nil).names

/-- the store `removeSubtree` builds before it refreshes the cached vectors -/
def rmResult (s : Store) (i : Nat) (nms : List Int) : Store :=
  { s with forest := s.forest.removeSub i,
           data := s.data.filter (fun e => !nms.contains e.1),
           nodeIdx := s.nodeIdx.filter (fun e => !nms.contains e.1),
           nodeIdxRev := s.nodeIdxRev.filter (fun e => !nms.contains e.2) }

/-- shape of the non-degenerate branch -/
theorem removeSubtree_shape {dt : Data} {s sub s' : Store} (h : s.removeSubtree dt sub = some s')
    (hs : Inv0 s) (hleg : RmLegal s sub) (hne : Store.keyEq sub s = false) :
    ∃ i x par, s.forest.findSub i = some x ∧ sub.nodes.Perm ((x.1 :: x.2.recs).map (·.name)) ∧
      updatePathToRoot dt (rmResult s i sub.nodes) par = some s' := by
  obtain ⟨r, i, x, hr, hi, hx, hp⟩ := hleg hne
  obtain ⟨r', par, i', s1, hr', hi', hs1, h⟩ := removeSubtree_unf h hne
  rw [hr] at hr'; simp only [List.head?_cons, Option.some.injEq] at hr'; subst hr'
  rw [hi] at hi'; simp only [Option.some.injEq] at hi'; subst hi'
  have := rmFold_spec hs.1.mapsOK hs1
  subst this
  refine ⟨i, x, par, hx, ?_, h⟩
  simpa [SF.names] using hp

theorem removeSubtree_eq_init {dt : Data} {s sub s' : Store} (h : s.removeSubtree dt sub = some s')
    (he : Store.keyEq sub s = true) : s' = Store.init dt := by
  simp only [removeSubtree, he, if_true, Option.some.injEq] at h
  exact h.symm

theorem rmResult_inv {s : Store} {i : Nat} {x : NodeRec × SF} {nms : List Int} (hs : Inv0 s)
    (hx : s.forest.findSub i = some x) (hp : nms.Perm ((x.1 :: x.2.recs).map (·.name))) :
    Inv0 (rmResult s i nms) := by
  obtain ⟨hg, hm, hd, hout, hback⟩ :=
    rm_lists (removeSub_perm hs.1.idxs_nodup hx) hp hs.1.g hs.1.m hs.1.d
  refine ⟨(wf_iff _).2 ⟨hg, hm, hd⟩, fun n hn => ?_⟩
  show n.name ∈ keys ((s.data.filter (fun e => !nms.contains e.1)))
  rw [keys_filter s.data (fun k => !nms.contains k), List.mem_filter]
  exact ⟨hs.2 n ((removeSub_sublist i s.forest).subset hn), by simpa using hout n hn⟩

theorem removeSubtree_inv {dt : Data} {s sub s' : Store} (h : s.removeSubtree dt sub = some s')
    (hs : Inv0 s) (hleg : RmLegal s sub) : Inv0 s' := by
  cases he : Store.keyEq sub s with
  | true => rw [removeSubtree_eq_init h he]; exact inv_init dt
  | false =>
    obtain ⟨i, x, par, hx, hp, h⟩ := removeSubtree_shape h hs hleg he
    have hi := rmResult_inv hs hx hp
    have := updatePathToRoot_inv h
    exact ⟨this.1 hi.1, this.2.1 hi.2⟩

/-- data: in the non-degenerate branch exactly the `_data` entries of the subtree's names disappear -/
theorem removeSubtree_data {dt : Data} {s sub s' : Store} (h : s.removeSubtree dt sub = some s')
    (hs : Inv0 s) (hleg : RmLegal s sub) (hne : Store.keyEq sub s = false) :
    (vals s.data).Perm (sub.nodes.flatMap s.dataOf ++ vals s'.data) := by
  obtain ⟨i, x, par, hx, hp, h⟩ := removeSubtree_shape h hs hleg hne
  have hnd : sub.nodes.Nodup :=
    hp.nodup_iff.2 (hs.1.names_nodup.sublist ((findSub_some hx).2.map _))
  rw [(updatePathToRoot_spec h).2.2.2.1]
  exact vals_perm_filter hs.1.data_keys hnd

/-- graph: the clones of the subtree disappear, the others stay -/
theorem removeSubtree_names {dt : Data} {s sub s' : Store} (h : s.removeSubtree dt sub = some s')
    (hs : Inv0 s) (hleg : RmLegal s sub) (hne : Store.keyEq sub s = false) :
    s.forest.names.Perm (sub.nodes ++ s'.forest.names) := by
  obtain ⟨i, x, par, hx, hp, h⟩ := removeSubtree_shape h hs hleg hne
  have hc := (updatePathToRoot_spec h).1
  have hn : s'.forest.names = (s.forest.removeSub i).names := by
    have := congrArg (List.map (·.2.1)) hc
    simpa [SF.cores, SF.names, core, List.map_map, Function.comp_def, rmResult] using this
  rw [hn]
  have := (removeSub_perm hs.1.idxs_nodup hx).map (·.name)
  rw [List.map_append] at this
  exact this.trans (List.Perm.append_right _ hp.symm)

theorem removeSubtree_outliers {dt : Data} {s sub s' : Store} (h : s.removeSubtree dt sub = some s')
    (hs : Inv0 s) (hleg : RmLegal s sub) (hne : Store.keyEq sub s = false) :
    s'.outliers = s.outliers := by
  obtain ⟨i, x, par, hx, hp, h⟩ := removeSubtree_shape h hs hleg hne
  have hout : outKey ∉ sub.nodes := by
    intro hc
    obtain ⟨n, hn, hnm⟩ := List.mem_map.1 (hp.subset hc)
    have := hs.1.name_nonneg n ((findSub_some hx).2.subset hn)
    rw [hnm] at this; simp [outKey] at this
  simp only [Store.outliers, Store.dataOf, (updatePathToRoot_spec h).2.2.2.1, rmResult]
  rw [lookup_filter_key (fun k => !sub.nodes.contains k)]
  simp [hout]

end PhyModel.Store
