import PhyModel.Proofs.LoaderKept
/-! When does the loader model succeed (C17: `degenerate_rejected`, `major_lt_minor_rejected`),
and which mutations it keeps (`kept_iff`). -/

namespace PhyModel.Loader
open List

/-- no mutation passes the count filter with a wrong distribution over the samples (the "extra
rows in one sample offset missing rows in another" mix of the property's exclusions) -/
def NoOffsetMix (rows : List Row) : Prop :=
  ∀ m, countMut (positive rows) m = (samplesOf (positive rows)).length →
    ∀ s ∈ samplesOf (positive rows), (cell (positive rows) m s).length = 1

theorem mapE_error {α β ε} {f : α → Except ε β} : ∀ {l : List α} {e : ε},
    mapE f l = .error e → ∃ a ∈ l, f a = .error e
  | [], e, h => by simp [mapE] at h
  | a :: t, e, h => by
    cases hfa : f a with
    | error x =>
      simp only [mapE, hfa, Except.error.injEq] at h
      subst h
      exact ⟨a, mem_cons_self, hfa⟩
    | ok b =>
      cases ht : mapE f t with
      | error x =>
        simp only [mapE, hfa, ht, Except.error.injEq] at h
        subst h
        obtain ⟨a', ha', hf'⟩ := mapE_error ht
        exact ⟨a', mem_cons_of_mem _ ha', hf'⟩
      | ok bs => simp [mapE, hfa, ht] at h

theorem keptRows_subset_positive {rows : List Row} {r : Row} (h : r ∈ keptRows rows) : r ∈ positive rows :=
  (mem_filter.mp h).1

theorem mem_positive {rows : List Row} {r : Row} : r ∈ positive rows ↔ r ∈ rows ∧ 0 < r.major := by
  unfold positive
  rw [mem_filter, decide_eq_true_eq]

theorem mem_keptRows {rows : List Row} {r : Row} :
    r ∈ keptRows rows ↔ r ∈ positive rows ∧
      countMut (positive rows) r.mid = (samplesOf (positive rows)).length := by
  unfold keptRows complete
  rw [mem_filter, decide_eq_true_eq]

theorem mem_cell {rows : List Row} {m s : String} {r : Row} :
    r ∈ cell rows m s ↔ r ∈ rows ∧ r.mid = m ∧ r.sample = s := by
  unfold cell
  rw [mem_filter, decide_eq_true_eq]

theorem count_of_mem_mutsOf_kept {rows : List Row} {m : String} (h : m ∈ mutsOf (keptRows rows)) :
    countMut (positive rows) m = (samplesOf (positive rows)).length :=
  (mem_mutsOf_complete.mp h).1

theorem cell_kept_eq {rows : List Row} {m : String} (h : m ∈ mutsOf (keptRows rows)) (s : String) :
    cell (keptRows rows) m s = cell (positive rows) m s :=
  cell_complete_of_count (count_of_mem_mutsOf_kept h) s

theorem length_one {α} {l : List α} (h : l.length = 1) : ∃ a, l = [a] := by
  match l, h with
  | [a], _ => exact ⟨a, rfl⟩

/-- success criterion: the loader returns a result exactly when there is no offset mix and no
surviving row has `major < minor` -/
theorem load_ok_iff' {tc er : Bool} {rows : List Row} :
    (∃ res, load tc er rows = .ok res) ↔
      NoOffsetMix rows ∧ ∀ r ∈ keptRows rows, ¬ r.major < r.minor := by
  constructor
  · rintro ⟨⟨ss, data⟩, h⟩
    have hss : ss = samplesOf (positive rows) := (load_ok_shape h).1
    constructor
    · intro m hc s hs
      by_cases hex : ∃ r ∈ positive rows, r.mid = m
      · have hm : m ∈ mutsOf (keptRows rows) := mem_mutsOf_complete.mpr ⟨hc, hex⟩
        obtain ⟨r, e, hr, _⟩ := load_ok_cells h hm (hss ▸ hs)
        rw [← cell_kept_eq hm, hr]; rfl
      · -- a mutation without usable rows has count 0, so there is no sample at all
        have h0 : countMut (positive rows) m = 0 := by
          unfold countMut
          rw [length_eq_zero_iff, filter_eq_nil_iff]
          intro r hr hm
          exact hex ⟨r, hr, by simpa using hm⟩
        rw [h0] at hc
        have : samplesOf (positive rows) = [] := length_eq_zero_iff.mp hc.symm
        rw [this] at hs; simp at hs
    · intro r hr
      have hpos := keptRows_subset_positive hr
      have hm : r.mid ∈ mutsOf (keptRows rows) := mem_mutsOf.mpr ⟨r, hr, rfl⟩
      have hs : r.sample ∈ ss := hss ▸ mem_samplesOf.mpr ⟨r, hpos, rfl⟩
      obtain ⟨r', e, hr', he⟩ := load_ok_cells h hm hs
      have : r ∈ cell (keptRows rows) r.mid r.sample := mem_cell.mpr ⟨hr, rfl, rfl⟩
      rw [hr', mem_singleton] at this
      subst this
      exact entry_ok_iff.mp ⟨e, he⟩
  · rintro ⟨hno, hml⟩
    have : ∃ ds, mapE (mutEntries tc er (keptRows rows) (samplesOf (positive rows))) (mutsOf (keptRows rows)) = .ok ds := by
      apply mapE_ok_of
      intro m hm
      have : ∃ es, mapE (cellEntry tc er (keptRows rows) m) (samplesOf (positive rows)) = .ok es := by
        apply mapE_ok_of
        intro s hs
        have h1 := hno m (count_of_mem_mutsOf_kept hm) s hs
        rw [← cell_kept_eq hm] at h1
        obtain ⟨r, hr⟩ := length_one h1
        have hrk : r ∈ keptRows rows := (mem_cell.mp (hr ▸ mem_singleton.mpr rfl : r ∈ cell (keptRows rows) m s)).1
        obtain ⟨e, he⟩ := entry_ok_iff.mpr (hml r hrk)
        exact ⟨e, cellEntry_ok_iff.mpr ⟨r, hr, he⟩⟩
      obtain ⟨es, hes⟩ := this
      exact ⟨(m, es), by simp [mutEntries, hes]⟩
    obtain ⟨ds, hds⟩ := this
    exact ⟨(samplesOf (positive rows), ds), by simp [load, hds]⟩

/-- **which mutations are kept**, in terms of the raw table: a mutation is among the loaded data
exactly when every sample has exactly one row for it with a positive major copy number -/
theorem kept_iff' {tc er : Bool} {rows : List Row} {ss : List String} {data : List (String × List Entry)}
    (h : load tc er rows = .ok (ss, data)) (hne : ss ≠ []) (m : String) :
    m ∈ data.map (·.1) ↔
      ∀ s ∈ ss, (rows.filter fun r => decide (r.mid = m ∧ r.sample = s ∧ 0 < r.major)).length = 1 := by
  have hss : ss = samplesOf (positive rows) := (load_ok_shape h).1
  rw [load_ok_names h]
  simp only [← cell_positive]
  constructor
  · intro hm s hs
    obtain ⟨r, e, hr, _⟩ := load_ok_cells h hm hs
    rw [← cell_kept_eq hm, hr]; rfl
  · intro hall
    subst hss
    have hc : countMut (positive rows) m = (samplesOf (positive rows)).length := by
      rw [countMut_eq_sum_cells]
      exact sum_map_const_one _ _ hall
    obtain ⟨s0, hs0⟩ := exists_mem_of_ne_nil _ hne
    obtain ⟨r, hr⟩ := length_one (hall s0 hs0)
    have hr' : r ∈ cell (positive rows) m s0 := hr ▸ mem_singleton.mpr rfl
    exact mem_mutsOf_complete.mpr ⟨hc, r, (mem_cell.mp hr').1, (mem_cell.mp hr').2.1⟩

/-- under `NoOffsetMix` every error is the copy-number error -/
theorem load_error_kind {tc er : Bool} {rows : List Row} {e : LoadErr} (hno : NoOffsetMix rows)
    (h : load tc er rows = .error e) : ∃ r ∈ keptRows rows, r.major < r.minor ∧ e = .majorLtMinor r.major r.minor := by
  unfold load at h
  cases hm : mapE (mutEntries tc er (keptRows rows) (samplesOf (positive rows))) (mutsOf (keptRows rows)) with
  | ok ds => simp [hm] at h
  | error x =>
    simp only [hm, Except.error.injEq] at h
    subst h
    obtain ⟨m, hmem, hme⟩ := mapE_error hm
    unfold mutEntries at hme
    cases hc : mapE (cellEntry tc er (keptRows rows) m) (samplesOf (positive rows)) with
    | ok es => simp [hc] at hme
    | error y =>
      simp only [hc, Except.error.injEq] at hme
      subst hme
      obtain ⟨s, hs, hce⟩ := mapE_error hc
      have h1 := hno m (count_of_mem_mutsOf_kept hmem) s hs
      rw [← cell_kept_eq hmem] at h1
      obtain ⟨r, hr⟩ := length_one h1
      have hrk : r ∈ keptRows rows := (mem_cell.mp (hr ▸ mem_singleton.mpr rfl : r ∈ cell (keptRows rows) m s)).1
      unfold cellEntry at hce
      rw [hr] at hce
      simp only [pick] at hce
      by_cases hlt : r.major < r.minor
      · rw [entry_error hlt] at hce
        simp only [Except.error.injEq] at hce
        exact ⟨r, hrk, hlt, hce.symm⟩
      · obtain ⟨e', he'⟩ := entry_ok_iff.mpr hlt
        rw [he'] at hce
        cases hce

end PhyModel.Loader
