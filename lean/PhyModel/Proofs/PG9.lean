import PhyModel.Proofs.PG4
import PhyModel.Proofs.PG8
import PhyModel.Proofs.Gibbs
/-! # C01 instance, part 9 (stage 2): the order draw composed with the conditional SMC sweep.

With the order `σ` drawn uniformly from the compatible orders of the current tree (C09) and the sweep
along `σ` leaving `pOne · pdf` invariant on the trees reachable along `σ` (stage 1), and
`reachable_iff_order`, the mixture kernel leaves `pOne` invariant on the complete trees of the data
set (`pg_invariant_abstract`). -/

namespace PhyModel.PG
open Orders Orders.Forest Proposal PGSpec Finset BigOperators

/-- standing hypotheses for a data set with data indices `D` -/
structure HypD (dt : Data) (c : Cfg) (D : List ℕ) : Prop where
  hG : 0 < dt.G
  hα : 0 < c.α
  op0 : 0 ≤ c.op
  op1 : c.op < 1
  nodup : D.Nodup
  good : ∀ i ∈ D, C19P.GoodIdx dt i
  big : ∀ i ∈ D, i < Forest.big
  ne : D ≠ []
  perm : c.usePerm = true

variable {dt : Data} {c : Cfg} {D : List ℕ}

theorem HypD.hyp (h : HypD dt c D) {σ : List ℕ} (hσ : σ ∈ perms D) : Hyp dt c σ := by
  have hp := perm_of_mem_perms D σ hσ
  exact ⟨h.hG, h.hα, h.op0, h.op1, hp.nodup_iff.mpr h.nodup, fun i hi => h.good i (hp.subset hi),
    fun i hi => h.big i (hp.subset hi)⟩

theorem states_sub_allStates {σ : List ℕ} (hσ : σ ∈ perms D) : ∀ x ∈ states c σ, x ∈ allStates c D :=
  fun _ hx => List.mem_flatMap.mpr ⟨σ, hσ, hx⟩

/-- the orders of the data set, as a finite type -/
abbrev Ord (D : List ℕ) := {σ : List ℕ // σ ∈ perms D}

/-- the target: `pOne` on the complete trees of the data set -/
def piD (dt : Data) (c : Cfg) (D : List ℕ) (x : T) : ℚ := if x ∈ finals c D then pOneT dt c x else 0

/-- law of the order given the tree: uniform on the compatible orders, with the code's count -/
def uOrd (x : T) (σ : List ℕ) : ℚ :=
  if σ ∈ allOrders x.f x.out then 1 / countCode x.f x.out.length else 0

/-- the conditional SMC kernel along `σ` (with the code's schedule, `ASMC.kernelX`), on the common state
space of all orders -/
def kernelAlong (dt : Data) (c : Cfg) (D : List ℕ) (κ θ : ℚ) (m : ℕ) (u : ℚ) (s : Ord D)
    (x y : St (allStates c D)) : ℚ :=
  ASMC.kernelX (spec dt c s.1 κ (allStates c D) (states_sub_allStates s.2) θ m) u s.1.length x y

/-- the particle-Gibbs kernel: draw the order, sweep along it -/
def pgKernel (dt : Data) (c : Cfg) (D : List ℕ) (κ θ : ℚ) (m : ℕ) (u : ℚ) (x y : St (allStates c D)) : ℚ :=
  ∑ s : Ord D, uOrd x.1 s.1 * kernelAlong dt c D κ θ m u s x y

theorem sum_indicator_subtype {α : Type} [DecidableEq α] (P : List α) : ∀ (A : List α), A.Nodup →
    (∀ a ∈ A, a ∈ P) → ∀ v : ℚ, ∑ s : {s // s ∈ P}, (if s.1 ∈ A then v else 0) = (A.length : ℚ) * v := by
  intro A
  induction A with
  | nil => intro _ _ v; simp
  | cons a A ih =>
    intro hnd hsub v
    have ha : a ∉ A := (List.nodup_cons.mp hnd).1
    have hstep : ∀ s : {s // s ∈ P}, (if s.1 ∈ a :: A then v else 0)
        = (if (⟨a, hsub a List.mem_cons_self⟩ : {s // s ∈ P}) = s then v else 0) + (if s.1 ∈ A then v else 0) := by
      intro s
      by_cases hs : s.1 = a
      · have : (⟨a, hsub a List.mem_cons_self⟩ : {s // s ∈ P}) = s := Subtype.ext hs.symm
        rw [if_pos (by rw [hs]; exact List.mem_cons_self), if_pos this, if_neg (by rw [hs]; exact ha), add_zero]
      · have : ¬ (⟨a, hsub a List.mem_cons_self⟩ : {s // s ∈ P}) = s := fun h => hs (congrArg Subtype.val h).symm
        rw [if_neg this, zero_add]
        by_cases hA : s.1 ∈ A
        · rw [if_pos (List.mem_cons_of_mem _ hA), if_pos hA]
        · rw [if_neg (by simp [hs, hA]), if_neg hA]
    simp only [hstep]
    rw [Finset.sum_add_distrib, ih (List.nodup_cons.mp hnd).2 (fun b hb => hsub b (List.mem_cons_of_mem _ hb)),
      Finset.sum_ite_eq]
    simp only [Finset.mem_univ, if_true, List.length_cons]
    push_cast
    ring

theorem length_of_mem_perms' {σ : List ℕ} (hσ : σ ∈ perms D) : σ.length = D.length :=
  (perm_of_mem_perms D σ hσ).length_eq

theorem mem_finals {x : T} : x ∈ finals c D ↔ ∃ σ ∈ perms D, x ∈ level c σ σ.length := by
  unfold finals
  simp only [List.mem_flatMap]
  constructor
  · rintro ⟨σ, hσ, hx⟩; exact ⟨σ, hσ, by rw [length_of_mem_perms' hσ]; exact hx⟩
  · rintro ⟨σ, hσ, hx⟩; exact ⟨σ, hσ, by rw [← length_of_mem_perms' hσ]; exact hx⟩

theorem finals_wft (h : HypD dt c D) {x : T} (hx : x ∈ finals c D) :
    WFT c x ∧ (x.f.all ++ x.out).Perm D := by
  obtain ⟨σ, hσ, hxl⟩ := mem_finals.mp hx
  have hh := h.hyp hσ
  refine ⟨level_wft c σ hh.nodup hh.big hxl, ?_⟩
  have := (level_inv c σ _ x hxl).perm
  rw [List.take_length] at this
  exact this.trans (perm_of_mem_perms D σ hσ)

/-- **the joint target factorises**: `pOne x · P(σ | x)` is the last-level target of the sweep along `σ` -/
theorem piD_uOrd (h : HypD dt c D) (κ : ℚ) (s : Ord D) (x : T) :
    κ * (piD dt c D x * uOrd x s.1) = gT dt c s.1 κ s.1.length x := by
  have hh := h.hyp s.2
  have hlen : s.1.length ≠ 0 := by
    rw [length_of_mem_perms' s.2]
    exact fun h0 => h.ne (List.length_eq_zero_iff.mp h0)
  by_cases hx : x ∈ level c s.1 s.1.length
  · have hf : x ∈ finals c D := mem_finals.mpr ⟨s.1, s.2, hx⟩
    have w := level_wft c s.1 hh.nodup hh.big hx
    have ho := (reachable_iff_order c s.1 hh.nodup x w).mp hx
    unfold piD uOrd gT pdfOf
    rw [if_pos hf, if_pos ho, if_pos hx, if_neg hlen, if_pos rfl, if_pos h.perm]
  · have : gT dt c s.1 κ s.1.length x = 0 := by unfold gT; rw [if_neg hx]
    rw [this]
    unfold piD uOrd
    by_cases hf : x ∈ finals c D
    · have w := (finals_wft h hf).1
      have ho : s.1 ∉ allOrders x.f x.out := fun ho => hx ((reachable_iff_order c s.1 hh.nodup x w).mpr ho)
      rw [if_neg ho, mul_zero, mul_zero]
    · rw [if_neg hf, zero_mul, mul_zero]

/-- the order law is a probability distribution for every complete tree -/
theorem uOrd_sum (h : HypD dt c D) {x : T} (hx : x ∈ finals c D) : ∑ s : Ord D, uOrd x s.1 = 1 := by
  obtain ⟨w, hperm⟩ := finals_wft h hx
  obtain ⟨σ, hσ, hxl⟩ := mem_finals.mp hx
  have hσo := (reachable_iff_order c σ (h.hyp hσ).nodup x w).mp hxl
  have hsub : ∀ a ∈ allOrders x.f x.out, a ∈ perms D := by
    intro a ha
    have := (allOrders_sound x.f x.out a ha).1
    exact mem_perms_of_perm D a (this.trans hperm)
  have e := sum_indicator_subtype (perms D) _ (allOrders_nodup x.f x.out w.nodup) hsub
    (1 / countCode x.f x.out.length)
  have e' : ∑ s : Ord D, uOrd x s.1 = ((allOrders x.f x.out).length : ℚ) * (1 / countCode x.f x.out.length) := by
    rw [← e]
    apply Finset.sum_congr rfl
    intro s _
    unfold uOrd
    congr
  rw [e', countCode_eq_length]
  have : ((allOrders x.f x.out).length : ℚ) ≠ 0 := by
    have : 0 < (allOrders x.f x.out).length := List.length_pos_of_mem hσo
    exact_mod_cast this.ne'
  field_simp

/-- **Stage 2.**  Drawing the order uniformly from the compatible orders of the current tree and then
sweeping along it leaves `pOne` invariant on the complete trees of the data set. -/
theorem pg_invariant_abstract (h : HypD dt c D) (κ : ℚ) (hκ : 0 < κ) (θ : ℚ) (m : ℕ) (u : ℚ) (hu : 0 < u)
    (y : St (allStates c D)) :
    ∑ x : St (allStates c D), piD dt c D x.1 * pgKernel dt c D κ θ m u x y = piD dt c D y.1 := by
  apply Moves.aux_mixture_invariant (fun x : St (allStates c D) => piD dt c D x.1)
    (fun x (s : Ord D) => uOrd x.1 s.1) (fun s x y => kernelAlong dt c D κ θ m u s x y)
  · intro x hx
    apply uOrd_sum h
    by_contra hf
    exact hx (by unfold piD; rw [if_neg hf])
  · intro s y
    apply mul_left_cancel₀ (ne_of_gt hκ)
    rw [Finset.mul_sum]
    simp only [← mul_assoc, piD_uOrd h κ s]
    exact pg_csmc_invariant_X (h.hyp s.2) hκ (states_sub_allStates s.2) θ m u hu y

#print axioms pg_invariant_abstract
end PhyModel.PG
