import PhyModel.Proofs.StoreInv
import Mathlib.Data.List.Nodup
/-! C06, generic layer: the cache invariant split into its `p`-part (`POK`) and its `r`-part (`ROK`),
the `r`-part "except on the path to node `i`" (`ROKx`), and the two recomputation passes:
`updAll` establishes `ROK` outright, `updPath i` turns `ROKx i` into `ROK`. -/
namespace PhyModel.Store.C06
open PhyModel

/-! ### the invariant in parts -/

/-- `p`-part of the cache invariant: every clone's `p` is the prior times its data -/
def POK (dt : Data) : SF → Prop
  | .nil => True
  | .cons n k s => n.p = (List.range dt.S).map (fun sm => nodeP dt sm n.dps) ∧ POK dt k ∧ POK dt s

/-- `r`-part of the cache invariant, with the nodes satisfying `E n kids` excused -/
def ROKe (dt : Data) (E : NodeRec → SF → Prop) : SF → Prop
  | .nil => True
  | .cons n k s => (E n k ∨ n.r = recompR dt n k) ∧ ROKe dt E k ∧ ROKe dt E s

/-- every clone's `r` is `p ⊙ S(children's r)` -/
def ROK (dt : Data) : SF → Prop := ROKe dt fun _ _ => False

/-- "OK except on the path to `i`": the `r`-equation may fail at node `i` and at its ancestors only -/
def ROKx (dt : Data) (i : Nat) : SF → Prop := ROKe dt fun n k => n.idx = i ∨ i ∈ k.idxs

/-- the `r`-equation may fail at the proper ancestors of node `i` only -/
def ROKs (dt : Data) (i : Nat) : SF → Prop := ROKe dt fun _ k => i ∈ k.idxs

theorem ROKe_mono {dt : Data} {E E' : NodeRec → SF → Prop} (h : ∀ n k, E n k → E' n k) :
    ∀ f, ROKe dt E f → ROKe dt E' f
  | .nil, _ => trivial
  | .cons n k s, ⟨h1, h2, h3⟩ =>
    ⟨h1.elim (fun e => Or.inl (h n k e)) Or.inr, ROKe_mono h k h2, ROKe_mono h s h3⟩

theorem ROK.toROKx {dt : Data} {f : SF} (i : Nat) (h : ROK dt f) : ROKx dt i f :=
  ROKe_mono (fun _ _ e => e.elim) f h
theorem ROK.toROKs {dt : Data} {f : SF} (i : Nat) (h : ROK dt f) : ROKs dt i f :=
  ROKe_mono (fun _ _ e => e.elim) f h
theorem ROKs.toROKx {dt : Data} {f : SF} {i : Nat} (h : ROKs dt i f) : ROKx dt i f :=
  ROKe_mono (fun _ _ e => Or.inr e) f h

theorem ROK_cons {dt : Data} {n : NodeRec} {k s : SF} :
    ROK dt (.cons n k s) ↔ n.r = recompR dt n k ∧ ROK dt k ∧ ROK dt s := by
  simp [ROK, ROKe]

theorem ROKx_cons {dt : Data} {i : Nat} {n : NodeRec} {k s : SF} :
    ROKx dt i (.cons n k s) ↔
      ((n.idx = i ∨ i ∈ k.idxs) ∨ n.r = recompR dt n k) ∧ ROKx dt i k ∧ ROKx dt i s := Iff.rfl

theorem ROKs_cons {dt : Data} {i : Nat} {n : NodeRec} {k s : SF} :
    ROKs dt i (.cons n k s) ↔ (i ∈ k.idxs ∨ n.r = recompR dt n k) ∧ ROKs dt i k ∧ ROKs dt i s :=
  Iff.rfl

theorem cacheOKsf_iff (dt : Data) : ∀ f, CacheOKsf dt f ↔ POK dt f ∧ ROK dt f
  | .nil => by simp [CacheOKsf, POK, ROK, ROKe]
  | .cons n k s => by
    rw [ROK_cons]
    simp only [CacheOKsf, POK, cacheOKsf_iff dt k, cacheOKsf_iff dt s]
    tauto

/-! ### indices -/

@[simp] theorem idxs_nil : SF.nil.idxs = [] := rfl
@[simp] theorem idxs_cons (n : NodeRec) (k s : SF) :
    (SF.cons n k s).idxs = n.idx :: (k.idxs ++ s.idxs) := by simp [SF.idxs, SF.recs]
@[simp] theorem names_nil : SF.nil.names = [] := rfl
@[simp] theorem names_cons (n : NodeRec) (k s : SF) :
    (SF.cons n k s).names = n.name :: (k.names ++ s.names) := by simp [SF.names, SF.recs]

theorem nodup_cons_idxs {n : NodeRec} {k s : SF} (h : (SF.cons n k s).idxs.Nodup) :
    n.idx ∉ k.idxs ∧ n.idx ∉ s.idxs ∧ k.idxs.Nodup ∧ s.idxs.Nodup ∧
      (∀ j, j ∈ k.idxs → j ∉ s.idxs) := by
  rw [idxs_cons, List.nodup_cons, List.nodup_append] at h
  obtain ⟨h1, h2, h3, h4⟩ := h
  rw [List.mem_append, not_or] at h1
  exact ⟨h1.1, h1.2, h2, h3, fun j hj hj' => h4 j hj j hj' rfl⟩

/-- if `i` does not occur, the `r`-part except on the path to `i` is the whole `r`-part -/
theorem ROKx.toROK {dt : Data} {i : Nat} : ∀ {f : SF}, i ∉ f.idxs → ROKx dt i f → ROK dt f
  | .nil, _, _ => trivial
  | .cons n k s, hi, h => by
    rw [idxs_cons, List.mem_cons, List.mem_append] at hi
    push Not at hi
    rw [ROKx_cons] at h
    rw [ROK_cons]
    refine ⟨?_, ROKx.toROK hi.2.1 h.2.1, ROKx.toROK hi.2.2 h.2.2⟩
    rcases h.1 with (h1 | h1) | h1
    · exact absurd h1.symm hi.1
    · exact absurd h1 hi.2.1
    · exact h1

theorem ROKs.toROK {dt : Data} {i : Nat} {f : SF} (hi : i ∉ f.idxs) (h : ROKs dt i f) : ROK dt f :=
  ROKx.toROK hi h.toROKx

/-! ### `updAll` -/

theorem recompR_setR (dt : Data) (n : NodeRec) (x : List Vec) (k : SF) :
    recompR dt { n with r := x } k = recompR dt n k := rfl

/-- `Tree.update` makes every `r`-equation true, whatever the `r`s were before -/
theorem ROK_updAll (dt : Data) : ∀ f, ROK dt (updAll dt f)
  | .nil => trivial
  | .cons n k s => by
    rw [updAll, ROK_cons]
    exact ⟨rfl, ROK_updAll dt k, ROK_updAll dt s⟩

theorem POK_updAll (dt : Data) : ∀ f, POK dt f → POK dt (updAll dt f)
  | .nil, _ => trivial
  | .cons _ k s, ⟨h1, h2, h3⟩ => ⟨h1, POK_updAll dt k h2, POK_updAll dt s h3⟩

theorem cacheOKsf_updAll (dt : Data) (f : SF) (h : POK dt f) : CacheOKsf dt (updAll dt f) :=
  (cacheOKsf_iff dt _).2 ⟨POK_updAll dt f h, ROK_updAll dt f⟩

theorem isNil_updAll (dt : Data) (f : SF) : (updAll dt f).isNil = f.isNil := by
  cases f <;> rfl

/-! ### `updPath` -/

theorem updPath_cons (dt : Data) (i : Nat) (n : NodeRec) (k s : SF) :
    updPath dt i (.cons n k s) =
      if n.idx = i then (.cons { n with r := recompR dt n k } k s, true)
      else if (updPath dt i k).2 = true then
        (.cons { n with r := recompR dt n (updPath dt i k).1 } (updPath dt i k).1 s, true)
      else (.cons n k (updPath dt i s).1, (updPath dt i s).2) := rfl

theorem updPath_found (dt : Data) (i : Nat) : ∀ f, (updPath dt i f).2 = true ↔ i ∈ f.idxs
  | .nil => by simp [updPath]
  | .cons n k s => by
    have hk := updPath_found dt i k
    have hs := updPath_found dt i s
    rw [updPath_cons, idxs_cons, List.mem_cons, List.mem_append]
    by_cases h1 : n.idx = i
    · simp [h1]
    · rw [if_neg h1]
      by_cases h2 : (updPath dt i k).2 = true
      · rw [if_pos h2]
        have := hk.1 h2
        tauto
      · rw [if_neg h2]
        have h3 : i ∉ k.idxs := fun h => h2 (hk.2 h)
        have h4 : ¬ i = n.idx := fun e => h1 e.symm
        simp [h3, h4, hs]

/-- recomputing along the path from `i` to the top repairs exactly the excused equations -/
theorem ROK_updPath (dt : Data) (i : Nat) :
    ∀ f, f.idxs.Nodup → ROKx dt i f → ROK dt (updPath dt i f).1
  | .nil, _, _ => trivial
  | .cons n k s, hnd, h => by
    obtain ⟨hnk, hns, hk, hs, hks⟩ := nodup_cons_idxs hnd
    rw [ROKx_cons] at h
    rw [updPath_cons]
    by_cases h1 : n.idx = i
    · rw [if_pos h1, ROK_cons]
      exact ⟨rfl, ROKx.toROK (h1 ▸ hnk) h.2.1, ROKx.toROK (h1 ▸ hns) h.2.2⟩
    · rw [if_neg h1]
      by_cases h2 : (updPath dt i k).2 = true
      · rw [if_pos h2, ROK_cons]
        have hik := (updPath_found dt i k).1 h2
        exact ⟨rfl, ROK_updPath dt i k hk h.2.1, ROKx.toROK (hks i hik) h.2.2⟩
      · rw [if_neg h2]
        have hik : i ∉ k.idxs := fun e => h2 ((updPath_found dt i k).2 e)
        rw [ROK_cons]
        refine ⟨?_, ROKx.toROK hik h.2.1, ROK_updPath dt i s hs h.2.2⟩
        rcases h.1 with (h3 | h3) | h3
        · exact absurd h3 h1
        · exact absurd h3 hik
        · exact h3

theorem POK_updPath (dt : Data) (i : Nat) : ∀ f, POK dt f → POK dt (updPath dt i f).1
  | .nil, _ => trivial
  | .cons n k s, ⟨h1, h2, h3⟩ => by
    rw [updPath_cons]
    split
    · exact ⟨h1, h2, h3⟩
    · split
      · exact ⟨h1, POK_updPath dt i k h2, h3⟩
      · exact ⟨h1, h2, POK_updPath dt i s h3⟩

theorem isNil_updPath (dt : Data) (i : Nat) (f : SF) : (updPath dt i f).1.isNil = f.isNil := by
  cases f with
  | nil => rfl
  | cons n k s =>
    rw [updPath_cons]
    split
    · rfl
    · split <;> rfl

/-- `updPath i` re-establishes the cache invariant when the only violated `r`-equations are those
of the nodes on the path from `i` to the top -/
theorem cacheOKsf_updPath (dt : Data) (i : Nat) (f : SF) (hnd : f.idxs.Nodup) (hp : POK dt f)
    (hr : ROKx dt i f) : CacheOKsf dt (updPath dt i f).1 :=
  (cacheOKsf_iff dt _).2 ⟨POK_updPath dt i f hp, ROK_updPath dt i f hnd hr⟩

end PhyModel.Store.C06
