import PhyModel.Model.PGSpec
import PhyModel.Proofs.PropParent3
import PhyModel.Proofs.MovesCanon2
import PhyModel.Proofs.PlacementIdx
/-! # C01 instance, part 1: what every partial tree met along a fixed order looks like.

`PGSpec.level c σ t` lists the trees obtained from the empty tree by placing `σ[0], …, σ[t-1]`.
Each of them holds exactly those data points (`Inv.perm`), has no empty clone, and is in canonical
form — which is what the C08 theorems (`recover_placement`, `support_complete`, …) ask of a parent
state. -/

namespace PhyModel.PG
open Orders Orders.Forest Proposal PGSpec

theorem all_ofRoots (l : List (List ℕ × DF)) :
    (ofRoots l).all = l.flatMap (fun x => x.2.all ++ x.1) := by
  rw [all_eq_flatMap_roots, PhyModel.roots_ofRoots]

theorem addAt_perm (i : ℕ) : ∀ (rs : List (List ℕ × DF)) (j : ℕ), j < rs.length →
    ((addAt i j rs).flatMap (fun x => x.2.all ++ x.1)).Perm (rs.flatMap (fun x => x.2.all ++ x.1) ++ [i]) := by
  intro rs
  induction rs with
  | nil => intro j hj; simp at hj
  | cons x rs ih =>
    intro j hj
    obtain ⟨d, k⟩ := x
    cases j with
    | zero =>
      simp only [addAt, List.flatMap_cons, List.append_assoc]
      refine List.Perm.append_left _ (List.Perm.append_left _ ?_)
      exact List.perm_append_comm
    | succ j =>
      simp only [addAt, List.flatMap_cons, List.append_assoc]
      refine List.Perm.append_left _ (List.Perm.append_left _ ?_)
      exact ih j (by simpa using hj)

/-- a placement holds the parent's data points and the new one -/
theorem placement_perm (p : T) (i : ℕ) (kt : Kind × T) (hkt : kt ∈ placements p i) :
    (kt.2.f.all ++ kt.2.out).Perm (p.f.all ++ p.out ++ [i]) := by
  rw [placements_eq] at hkt
  simp only [List.mem_append, List.mem_map, List.mem_range, List.mem_singleton] at hkt
  rcases hkt with (⟨j, hj, rfl⟩ | ⟨cr, hcr, rfl⟩) | rfl
  · simp only [exT, T.mk']
    refine ((Canon.canon_all_perm _).append (Canon.sortNat_perm _)).trans ?_
    rw [all_ofRoots]
    refine ((addAt_perm i _ j hj).append_right _).trans ?_
    rw [← all_eq_flatMap_roots, List.append_assoc, List.append_assoc]
    exact List.Perm.append_left _ List.perm_append_comm
  · simp only [newT, T.mk']
    refine ((Canon.canon_all_perm _).append (Canon.sortNat_perm _)).trans ?_
    rw [all_ofRoots, List.flatMap_cons, all_ofRoots]
    have h1 := (splits_perm _ _ hcr).flatMap_right (fun x : List ℕ × DF => x.2.all ++ x.1)
    rw [List.flatMap_append, ← all_eq_flatMap_roots] at h1
    simp only [List.append_assoc]
    have h2 : (List.flatMap (fun x : List ℕ × DF => x.2.all ++ x.1) cr.1 ++ ([i] ++ (List.flatMap (fun x : List ℕ × DF => x.2.all ++ x.1) cr.2 ++ p.out))).Perm
        ((List.flatMap (fun x : List ℕ × DF => x.2.all ++ x.1) cr.1 ++ List.flatMap (fun x : List ℕ × DF => x.2.all ++ x.1) cr.2) ++ (p.out ++ [i])) := by
      rw [List.append_assoc]
      refine List.Perm.append_left _ ?_
      refine List.perm_append_comm.trans ?_
      simp only [List.append_assoc]
      exact List.Perm.refl _
    exact h2.trans (h1.append_right _)
  · simp only [outT, T.mk']
    refine ((Canon.canon_all_perm _).append (Canon.sortNat_perm _)).trans ?_
    rw [List.append_assoc]

theorem placement_allNonempty (p : T) (i : ℕ) (hne : AllNonempty p.f) (kt : Kind × T)
    (hkt : kt ∈ placements p i) : AllNonempty kt.2.f := by
  have hroots := (allNonempty_iff_roots p.f).mp hne
  rw [placements_eq] at hkt
  simp only [List.mem_append, List.mem_map, List.mem_range, List.mem_singleton] at hkt
  rcases hkt with (⟨j, _, rfl⟩ | ⟨cr, hcr, rfl⟩) | rfl
  · simp only [exT, T.mk']
    apply allNonempty_canon
    rw [allNonempty_ofRoots]
    intro y hy
    rcases addAt_mem i j _ y hy with hy | ⟨d, k, hm, rfl⟩
    · exact hroots y hy
    · exact ⟨by simp, (hroots _ hm).2⟩
  · simp only [newT, T.mk']
    apply allNonempty_canon
    obtain ⟨hc, hr, _⟩ := mem_splits _ _ hcr
    rw [allNonempty_ofRoots]
    intro y hy
    rcases List.mem_cons.1 hy with rfl | hy
    · exact ⟨by simp, (allNonempty_ofRoots _).mpr (fun z hz => hroots z (hc z hz))⟩
    · exact hroots y (hr y hy)
  · simp only [outT, T.mk']
    exact allNonempty_canon _ hne

theorem mk'_idem (f : DF) (o : List ℕ) : T.mk' (T.mk' f o).f (T.mk' f o).out = T.mk' f o := by
  simp only [T.mk', PhyModel.canon_idem, PhyModel.sortNat_idem]

theorem placement_canon (p : T) (i : ℕ) (kt : Kind × T) (hkt : kt ∈ placements p i) :
    T.mk' kt.2.f kt.2.out = kt.2 := by
  rw [placements_eq] at hkt
  simp only [List.mem_append, List.mem_map, List.mem_range, List.mem_singleton] at hkt
  rcases hkt with (⟨j, _, rfl⟩ | ⟨cr, _, rfl⟩) | rfl
  · exact mk'_idem _ _
  · exact mk'_idem _ _
  · exact mk'_idem _ _

/-- what is known of a state of level `t` along `σ` -/
structure Inv (σ : List ℕ) (t : ℕ) (x : T) : Prop where
  le : t ≤ σ.length
  perm : (x.f.all ++ x.out).Perm (σ.take t)
  ne : AllNonempty x.f
  canon : T.mk' x.f x.out = x

theorem mem_children {c : Cfg} {p : T} {i : ℕ} {x : T} :
    x ∈ children c p i ↔ ∃ kt ∈ placements p i, (kt.1 = .outlier → c.op ≠ 0) ∧ kt.2 = x := by
  unfold children
  simp only [List.mem_map, List.mem_filter]
  constructor
  · rintro ⟨kt, ⟨hkt, hp⟩, rfl⟩
    refine ⟨kt, hkt, ?_, rfl⟩
    intro hk
    unfold permitted at hp
    rw [hk] at hp
    simpa using hp
  · rintro ⟨kt, hkt, hp, rfl⟩
    refine ⟨kt, ⟨hkt, ?_⟩, rfl⟩
    unfold permitted
    obtain ⟨k, t⟩ := kt
    cases k with
    | outlier => simpa using hp rfl
    | existing j => rfl
    | newNode ch => rfl

theorem mem_level_succ {c : Cfg} {σ : List ℕ} {t : ℕ} {x : T} :
    x ∈ level c σ (t+1) ↔ ∃ i, σ[t]? = some i ∧ ∃ p ∈ level c σ t, x ∈ children c p i := by
  simp only [level]
  cases h : σ[t]? with
  | none => simp
  | some i => simp [List.mem_flatMap]

theorem level_inv (c : Cfg) (σ : List ℕ) : ∀ (t : ℕ) (x : T), x ∈ level c σ t → Inv σ t x := by
  intro t
  induction t with
  | zero =>
    intro x hx
    simp only [level, List.mem_singleton] at hx
    subst hx
    exact ⟨Nat.zero_le _, by simp [T.empty, Forest.all], trivial, rfl⟩
  | succ t ih =>
    intro x hx
    obtain ⟨i, hi, p, hp, hx⟩ := mem_level_succ.mp hx
    obtain ⟨kt, hkt, _, rfl⟩ := mem_children.mp hx
    have hp' := ih p hp
    obtain ⟨hlt, rfl⟩ := List.getElem?_eq_some_iff.mp hi
    refine ⟨hlt, ?_, placement_allNonempty p _ hp'.ne kt hkt, placement_canon p _ kt hkt⟩
    refine (placement_perm p _ kt hkt).trans ?_
    rw [List.take_succ_eq_append_getElem hlt]
    exact hp'.perm.append_right _

theorem Inv.lev {σ : List ℕ} {t : ℕ} {x : T} (h : Inv σ t x) : lev x = t := by
  have := h.perm.length_eq
  simp only [List.length_append, List.length_take] at this
  unfold PGSpec.lev
  have := h.le
  omega

theorem mem_states {c : Cfg} {σ : List ℕ} {x : T} :
    x ∈ states c σ ↔ ∃ t, t ≤ σ.length ∧ x ∈ level c σ t := by
  unfold states
  simp only [List.mem_flatMap, List.mem_range]
  constructor
  · rintro ⟨t, ht, hx⟩; exact ⟨t, by omega, hx⟩
  · rintro ⟨t, ht, hx⟩; exact ⟨t, by omega, hx⟩

end PhyModel.PG
