import PhyModel.Model.Trace
import Mathlib.Order.Defs.LinearOrder
import Mathlib.Data.List.Basic
/-! Helper lemmas for C11, part 1: positions (`flat`, `lookup`), the MAP scan, the sort, the archive. -/
namespace PhyModel.Trace

variable {κ σ : Type}

/-! ### positions -/

theorem mem_enumFrom {c : Nat} {es : List (κ × σ)} {i : Nat} {r : Rec κ σ} (h : r ∈ enumFrom c i es) :
    r.chain = c ∧ i ≤ r.iter ∧ es[r.iter - i]? = some (r.key, r.score) := by
  induction es generalizing i with
  | nil => simp [enumFrom] at h
  | cons e es ih =>
    obtain ⟨k, s⟩ := e
    simp only [enumFrom, List.mem_cons] at h
    rcases h with h | h
    · subst h; simp
    · obtain ⟨h1, h2, h3⟩ := ih h
      refine ⟨h1, by omega, ?_⟩
      have : r.iter - i = (r.iter - (i + 1)) + 1 := by omega
      rw [this]; simpa using h3

theorem enumFrom_map (c i : Nat) (es : List (κ × σ)) :
    (enumFrom c i es).map (fun r => (r.key, r.score)) = es := by
  induction es generalizing i with
  | nil => rfl
  | cons e es ih => obtain ⟨k, s⟩ := e; simp [enumFrom, ih]

theorem flat_map (tr : Trace κ σ) : (flat tr).map (fun r => (r.key, r.score)) = entries tr := by
  induction tr with
  | nil => rfl
  | cons ch t ih =>
    obtain ⟨c, es⟩ := ch
    simp [flat, entries, enumFrom_map] at ih ⊢
    exact ih

theorem flat_length (tr : Trace κ σ) : (flat tr).length = (entries tr).length := by
  rw [← flat_map, List.length_map]

theorem mem_entries_iff {tr : Trace κ σ} {e : κ × σ} :
    e ∈ entries tr ↔ ∃ r ∈ flat tr, r.key = e.1 ∧ r.score = e.2 := by
  rw [← flat_map, List.mem_map]
  constructor
  · rintro ⟨r, hr, rfl⟩; exact ⟨r, hr, rfl, rfl⟩
  · rintro ⟨r, hr, h1, h2⟩; exact ⟨r, hr, by rw [h1, h2]⟩

theorem flat_chain_mem {tr : Trace κ σ} {r : Rec κ σ} (h : r ∈ flat tr) :
    r.chain ∈ tr.map (fun ch => ch.1) := by
  induction tr with
  | nil => simp [flat] at h
  | cons ch t ih =>
    obtain ⟨c, es⟩ := ch
    simp only [flat, List.mem_append] at h
    rcases h with h | h
    · simp [(mem_enumFrom h).1]
    · simp only [List.map_cons, List.mem_cons]; right; exact ih h

/-- with distinct chain numbers, a scanned record's `(chain, iter)` leads back to its entry -/
theorem lookup_of_mem_flat {tr : Trace κ σ} (hwf : WF tr) {r : Rec κ σ} (h : r ∈ flat tr) :
    lookup tr r.chain r.iter = some (r.key, r.score) := by
  induction tr with
  | nil => simp [flat] at h
  | cons ch t ih =>
    obtain ⟨c, es⟩ := ch
    simp only [WF, List.map_cons, List.nodup_cons] at hwf
    simp only [flat, List.mem_append] at h
    rcases h with h | h
    · obtain ⟨h1, _, h3⟩ := mem_enumFrom h
      simp only [lookup, List.find?_cons, h1, beq_self_eq_true]
      simpa using h3
    · have hc : r.chain ≠ c := fun e => hwf.1 (e ▸ flat_chain_mem h)
      have : (c == r.chain) = false := by simp [Ne.symm hc]
      have := ih hwf.2 h
      simp only [lookup, List.find?_cons, ‹(c == r.chain) = false›] at this ⊢
      exact this

theorem lookup_mem {tr : Trace κ σ} {c i : Nat} {e : κ × σ} (h : lookup tr c i = some e) :
    e ∈ entries tr := by
  unfold lookup at h
  split at h
  · next ch hf =>
    have hm := List.mem_of_find?_eq_some hf
    simp only [entries, List.mem_flatMap]
    exact ⟨ch, hm, List.mem_of_getElem? h⟩
  · cases h

/-! ### the MAP scan -/

section scan
variable [LinearOrder σ]

theorem foldl_better_some (l : List (Rec κ σ)) (s : Rec κ σ) :
    ∃ b, l.foldl better (some s) = some b ∧ (b = s ∨ b ∈ l) ∧ s.score ≤ b.score ∧
      ∀ r ∈ l, r.score ≤ b.score := by
  induction l generalizing s with
  | nil => exact ⟨s, rfl, Or.inl rfl, le_refl _, by simp⟩
  | cons a l ih =>
    simp only [List.foldl_cons, better]
    split
    · next hlt =>
      obtain ⟨b, h1, h2, h3, h4⟩ := ih a
      refine ⟨b, h1, ?_, le_trans (le_of_lt hlt) h3, ?_⟩
      · rcases h2 with h2 | h2
        · right; simp [h2]
        · right; simp [h2]
      · intro r hr
        rcases List.mem_cons.mp hr with rfl | hr
        · exact h3
        · exact h4 r hr
    · next hlt =>
      obtain ⟨b, h1, h2, h3, h4⟩ := ih s
      refine ⟨b, h1, ?_, h3, ?_⟩
      · rcases h2 with h2 | h2
        · left; exact h2
        · right; simp [h2]
      · intro r hr
        rcases List.mem_cons.mp hr with rfl | hr
        · exact le_trans (not_lt.mp hlt) h3
        · exact h4 r hr

/-- the scan of a non-empty list ends on one of its records, and that record is maximal -/
theorem mapScan_spec {l : List (Rec κ σ)} (hne : l ≠ []) :
    ∃ b, mapScan l = some b ∧ b ∈ l ∧ ∀ r ∈ l, r.score ≤ b.score := by
  cases l with
  | nil => exact absurd rfl hne
  | cons a l =>
    obtain ⟨b, h1, h2, h3, h4⟩ := foldl_better_some l a
    refine ⟨b, by simpa [mapScan, better] using h1, ?_, ?_⟩
    · rcases h2 with h2 | h2
      · simp [h2]
      · simp [h2]
    · intro r hr
      rcases List.mem_cons.mp hr with rfl | hr
      · exact h3
      · exact h4 r hr

theorem mapScan_nil : mapScan ([] : List (Rec κ σ)) = none := rfl

end scan

/-! ### the sort -/

section sort
variable {α : Type} (le : α → α → Bool)

theorem insertBy_perm (a : α) (l : List α) : (insertBy le a l).Perm (a :: l) := by
  induction l with
  | nil => exact List.Perm.refl _
  | cons b l ih =>
    simp only [insertBy]
    split
    · exact List.Perm.refl _
    · exact (List.Perm.cons b ih).trans (List.Perm.swap a b l)

theorem sortBy_perm (l : List α) : (sortBy le l).Perm l := by
  induction l with
  | nil => exact List.Perm.refl _
  | cons a l ih =>
    show (insertBy le a (sortBy le l)).Perm (a :: l)
    exact (insertBy_perm le a _).trans (List.Perm.cons a ih)

variable {le}

theorem insertBy_pairwise (tot : ∀ a b, le a b = true ∨ le b a = true)
    (trans : ∀ a b c, le a b = true → le b c = true → le a c = true) (a : α) {l : List α}
    (h : l.Pairwise (fun x y => le x y = true)) : (insertBy le a l).Pairwise (fun x y => le x y = true) := by
  induction l with
  | nil => simp [insertBy]
  | cons b l ih =>
    obtain ⟨hb, hl⟩ := List.pairwise_cons.mp h
    simp only [insertBy]
    split
    · next hab =>
      refine List.pairwise_cons.mpr ⟨?_, h⟩
      intro x hx
      rcases List.mem_cons.mp hx with rfl | hx
      · exact hab
      · exact trans _ _ _ hab (hb x hx)
    · next hab =>
      refine List.pairwise_cons.mpr ⟨?_, ih hl⟩
      intro x hx
      rcases List.mem_cons.mp ((insertBy_perm le a l).mem_iff.mp hx) with rfl | hx
      · rcases tot x b with h | h
        · exact absurd h hab
        · exact h
      · exact hb x hx

theorem sortBy_pairwise (tot : ∀ a b, le a b = true ∨ le b a = true)
    (trans : ∀ a b c, le a b = true → le b c = true → le a c = true) (l : List α) :
    (sortBy le l).Pairwise (fun x y => le x y = true) := by
  induction l with
  | nil => exact List.Pairwise.nil
  | cons a l ih => exact insertBy_pairwise tot trans a ih

end sort

/-! ### ranks and the archive -/

section arch
variable {α : Type}

theorem mem_ranked {i : Nat} {l : List α} {p : Nat × α} (h : p ∈ ranked i l) : i ≤ p.1 := by
  induction l generalizing i with
  | nil => simp [ranked] at h
  | cons a l ih =>
    simp only [ranked, List.mem_cons] at h
    rcases h with rfl | h
    · exact Nat.le_refl _
    · exact Nat.le_of_succ_le (ih h)

theorem ranked_filter_lt (i k : Nat) (l : List α) :
    (ranked i l).filter (fun p => !decide (p.1 ≥ i + k)) = ranked i (l.take k) := by
  induction l generalizing i k with
  | nil => simp [ranked]
  | cons a l ih =>
    cases k with
    | zero =>
      simp only [List.take_zero, ranked, Nat.add_zero]
      apply List.filter_eq_nil_iff.mpr
      intro p hp
      have : i ≤ p.1 := mem_ranked (l := a :: l) hp
      simp [this]
    | succ k =>
      have h1 : ¬ (i ≥ i + (k + 1)) := by omega
      have h2 : i + (k + 1) = (i + 1) + k := by omega
      simp only [ranked, List.take_succ_cons, List.filter_cons, h1, decide_false, Bool.not_false, if_true]
      rw [h2, ih]

theorem ranked_map_snd (i : Nat) (l : List α) : (ranked i l).map Prod.snd = l := by
  induction l generalizing i with
  | nil => rfl
  | cons a l ih => simp [ranked, ih]

theorem ranked_map_fst (i : Nat) (l : List α) : (ranked i l).map Prod.fst = List.range' i l.length := by
  induction l generalizing i with
  | nil => rfl
  | cons a l ih => simp [ranked, ih, List.range'_succ]

end arch

end PhyModel.Trace
