import PhyModel.Proofs.StoreCache_Vec
/-! C06, locating layer: `findSub`, `setRec`, `parentIn` against the index list, which equations a
payload replacement at node `i` can break, and `_update_path_to_root` as a consumer of `ROKx`. -/
namespace PhyModel.Store.C06
open PhyModel

/-- the part of C07's well-formedness that the cache proofs use: graph indices are unique and the
name → index map sends a clone's name to that clone's index -/
structure WFc (s : Store) : Prop where
  idxs_nodup : s.forest.idxs.Nodup
  lookup_idx : ∀ n ∈ s.forest.recs, ∀ j, s.nodeIdx.lookup n.name = some j → j = n.idx

theorem lookup_mem {κ ν} [BEq κ] [LawfulBEq κ] :
    ∀ (m : List (κ × ν)) (k : κ) (v : ν), m.lookup k = some v → (k, v) ∈ m
  | [], _, _, h => by simp at h
  | (k', v') :: m, k, v, h => by
    rw [List.lookup_cons] at h
    by_cases hk : k = k'
    · subst hk
      simp at h
      simp [h]
    · have : (k == k') = false := by simpa using hk
      rw [this] at h
      exact List.mem_cons_of_mem _ (lookup_mem m k v h)

theorem _root_.PhyModel.Store.WF.toWFc {s : Store} (h : WF s) : WFc s where
  idxs_nodup := h.idxs_nodup
  lookup_idx := by
    intro n hn j hj
    obtain ⟨m, hm, hm1, hm2⟩ := (h.nodeIdx_iff n.name j).1 (lookup_mem _ _ _ hj)
    have hnn := h.names_nodup
    unfold SF.names at hnn
    have : m = n := List.inj_on_of_nodup_map hnn hm hn hm1
    rw [← hm2, this]

/-! ### `findSub` -/

theorem recs_cons (n : NodeRec) (k s : SF) : (SF.cons n k s).recs = n :: (k.recs ++ s.recs) := rfl

theorem mem_idxs_of_mem_recs {f : SF} {n : NodeRec} (h : n ∈ f.recs) : n.idx ∈ f.idxs :=
  List.mem_map_of_mem h

theorem findSub_cons (i : Nat) (n : NodeRec) (k s : SF) :
    SF.findSub i (.cons n k s) = if n.idx = i then some (n, k) else
      match SF.findSub i k with
      | some x => some x
      | none => SF.findSub i s := rfl

theorem findSub_none_iff (i : Nat) : ∀ f : SF, f.findSub i = none ↔ i ∉ f.idxs
  | .nil => by simp [SF.findSub]
  | .cons n k s => by
    have hk := findSub_none_iff i k
    have hs := findSub_none_iff i s
    rw [findSub_cons, idxs_cons, List.mem_cons, List.mem_append]
    by_cases h1 : n.idx = i
    · simp [h1]
    · rw [if_neg h1]
      have h1' : ¬ i = n.idx := fun e => h1 e.symm
      cases hf : SF.findSub i k with
      | none => simp only [hs]; rw [hf] at hk; simp at hk; tauto
      | some x => rw [hf] at hk; simp at hk; simp [hk]

theorem findSub_spec (i : Nat) : ∀ (f : SF) (n : NodeRec) (k : SF), f.findSub i = some (n, k) →
    n.idx = i ∧ n ∈ f.recs
  | .nil, _, _, h => by simp [SF.findSub] at h
  | .cons m km sm, n, k, h => by
    rw [findSub_cons] at h
    rw [recs_cons]
    by_cases h1 : m.idx = i
    · rw [if_pos h1] at h
      cases h
      exact ⟨h1, List.mem_cons_self⟩
    · rw [if_neg h1] at h
      cases hf : SF.findSub i km with
      | none =>
        rw [hf] at h
        have := findSub_spec i sm n k h
        exact ⟨this.1, List.mem_cons_of_mem _ (List.mem_append_right _ this.2)⟩
      | some x =>
        rw [hf] at h
        cases h
        have := findSub_spec i km n k hf
        exact ⟨this.1, List.mem_cons_of_mem _ (List.mem_append_left _ this.2)⟩

/-! ### `setRec` -/

theorem setRec_cons (i : Nat) (g : NodeRec → NodeRec) (n : NodeRec) (k s : SF) :
    Store.setRec i g (.cons n k s) =
      .cons (if n.idx = i then g n else n) (Store.setRec i g k) (Store.setRec i g s) := rfl

theorem setRec_of_notMem (i : Nat) (g : NodeRec → NodeRec) :
    ∀ f : SF, i ∉ f.idxs → Store.setRec i g f = f
  | .nil, _ => rfl
  | .cons n k s, h => by
    rw [idxs_cons, List.mem_cons, List.mem_append] at h
    push Not at h
    rw [setRec_cons, if_neg (fun e => h.1 e.symm), setRec_of_notMem i g k h.2.1,
      setRec_of_notMem i g s h.2.2]

theorem recs_mapRecs (g : NodeRec → NodeRec) : ∀ f : SF, (f.mapRecs g).recs = f.recs.map g
  | .nil => rfl
  | .cons n k s => by
    simp [SF.mapRecs, SF.recs, recs_mapRecs g k, recs_mapRecs g s]

theorem idxs_setRec_const (i : Nat) (n' : NodeRec) (hi : n'.idx = i) (f : SF) :
    (Store.setRec i (fun _ => n') f).idxs = f.idxs := by
  unfold Store.setRec SF.idxs
  rw [recs_mapRecs, List.map_map]
  apply List.map_congr_left
  intro n _
  by_cases h : n.idx = i <;> simp [h, hi]

/-- the (name, index) pairs of the payloads do not change when the replacement keeps both -/
theorem recs_setRec_const (i : Nat) (n n' : NodeRec) (f : SF) (hn : n ∈ f.recs)
    (hi : n'.idx = n.idx) (hnm : n'.name = n.name) :
    ∀ p ∈ (Store.setRec i (fun _ => n') f).recs, ∃ m ∈ f.recs, m.name = p.name ∧ m.idx = p.idx := by
  intro p hp
  unfold Store.setRec at hp
  rw [recs_mapRecs, List.mem_map] at hp
  obtain ⟨m, hm, rfl⟩ := hp
  by_cases h : m.idx = i
  · exact ⟨n, hn, by simp [h, hnm], by simp [h, hi]⟩
  · exact ⟨m, hm, by simp [h], by simp [h]⟩

theorem POK_setRec_const (dt : Data) (i : Nat) (n' : NodeRec)
    (hp : n'.p = (List.range dt.S).map (fun sm => nodeP dt sm n'.dps)) :
    ∀ f, POK dt f → POK dt (Store.setRec i (fun _ => n') f)
  | .nil, _ => trivial
  | .cons n k s, ⟨h1, h2, h3⟩ => by
    rw [setRec_cons]
    refine ⟨?_, POK_setRec_const dt i n' hp k h2, POK_setRec_const dt i n' hp s h3⟩
    split
    · exact hp
    · exact h1

/-- replacing the payload of node `i` can only break the equations on the path to `i` -/
theorem ROKx_setRec_const (dt : Data) (i : Nat) (n' : NodeRec) (hi : n'.idx = i) :
    ∀ f, ROK dt f → ROKx dt i (Store.setRec i (fun _ => n') f)
  | .nil, _ => trivial
  | .cons n k s, h => by
    rw [ROK_cons] at h
    rw [setRec_cons, ROKx_cons]
    refine ⟨?_, ROKx_setRec_const dt i n' hi k h.2.1, ROKx_setRec_const dt i n' hi s h.2.2⟩
    by_cases h1 : n.idx = i
    · exact Or.inl (Or.inl (by rw [if_pos h1]; exact hi))
    · rw [if_neg h1]
      by_cases h2 : i ∈ k.idxs
      · exact Or.inl (Or.inr (by rw [idxs_setRec_const i n' hi]; exact h2))
      · rw [setRec_of_notMem i _ k h2]
        exact Or.inr h.1

/-- ... and only those of the proper ancestors if the new payload satisfies its own equation -/
theorem ROKs_setRec_const (dt : Data) (i : Nat) (n' : NodeRec) (hi : n'.idx = i) :
    ∀ (f : SF) (n : NodeRec) (k : SF), f.idxs.Nodup → ROK dt f → f.findSub i = some (n, k) →
      n'.r = recompR dt n' k → ROKs dt i (Store.setRec i (fun _ => n') f)
  | .nil, _, _, _, _, h, _ => by simp [SF.findSub] at h
  | .cons m km sm, n, k, hnd, h, hf, hr => by
    obtain ⟨hnk, hns, hk, hs, hks⟩ := nodup_cons_idxs hnd
    rw [ROK_cons] at h
    rw [findSub_cons] at hf
    rw [setRec_cons, ROKs_cons]
    by_cases h1 : m.idx = i
    · rw [if_pos h1] at hf
      cases hf
      rw [if_pos h1, setRec_of_notMem i _ km (h1 ▸ hnk), setRec_of_notMem i _ sm (h1 ▸ hns)]
      exact ⟨Or.inr hr, h.2.1.toROKs i, h.2.2.toROKs i⟩
    · rw [if_neg h1] at hf
      rw [if_neg h1]
      by_cases h2 : i ∈ km.idxs
      · have hne : SF.findSub i km ≠ none := fun e => (findSub_none_iff i km).1 e h2
        cases hfk : SF.findSub i km with
        | none => exact absurd hfk hne
        | some x =>
          rw [hfk] at hf
          cases hf
          rw [setRec_of_notMem i _ sm (hks i h2)]
          exact ⟨Or.inl (by rw [idxs_setRec_const i n' hi]; exact h2),
            ROKs_setRec_const dt i n' hi km n k hk h.2.1 hfk hr, h.2.2.toROKs i⟩
      · rw [(findSub_none_iff i km).2 h2] at hf
        rw [setRec_of_notMem i _ km h2]
        exact ⟨Or.inr h.1, h.2.1.toROKs i, ROKs_setRec_const dt i n' hi sm n k hs h.2.2 hf hr⟩

/-! ### `parentIn` -/

theorem parentIn_cons (i : Nat) (par : Option NodeRec) (n : NodeRec) (k s : SF) :
    SF.parentIn i par (.cons n k s) = if n.idx = i then some par else
      match SF.parentIn i (some n) k with
      | some x => some x
      | none => SF.parentIn i par s := rfl

theorem parentIn_none_iff (i : Nat) : ∀ (f : SF) (par : Option NodeRec),
    SF.parentIn i par f = none ↔ i ∉ f.idxs
  | .nil, _ => by simp [SF.parentIn]
  | .cons n k s, par => by
    have hk := parentIn_none_iff i k (some n)
    have hs := parentIn_none_iff i s par
    rw [parentIn_cons, idxs_cons, List.mem_cons, List.mem_append]
    by_cases h1 : n.idx = i
    · simp [h1]
    · rw [if_neg h1]
      have h1' : ¬ i = n.idx := fun e => h1 e.symm
      cases hf : SF.parentIn i (some n) k with
      | none => simp only [hs]; rw [hf] at hk; simp at hk; tauto
      | some x => rw [hf] at hk; simp at hk; simp [hk]

/-- if only the proper ancestors of `i` are excused, then everything is in order when `i` is a
top-level clone, and otherwise everything except the path to the parent of `i` -/
theorem ROKs_parent (dt : Data) (i : Nat) : ∀ (f : SF) (par : Option NodeRec) (q : Option NodeRec),
    f.idxs.Nodup → ROKs dt i f → SF.parentIn i par f = some q →
    (q = par ∧ ROK dt f) ∨ (∃ p, q = some p ∧ p ∈ f.recs ∧ ROKx dt p.idx f)
  | .nil, _, _, _, _, h => by simp [SF.parentIn] at h
  | .cons n k s, par, q, hnd, h, hq => by
    obtain ⟨hnk, hns, hk, hs, hks⟩ := nodup_cons_idxs hnd
    rw [ROKs_cons] at h
    rw [parentIn_cons] at hq
    by_cases h1 : n.idx = i
    · rw [if_pos h1] at hq
      cases hq
      refine Or.inl ⟨rfl, ROK_cons.2 ⟨?_, h.2.1.toROK (h1 ▸ hnk), h.2.2.toROK (h1 ▸ hns)⟩⟩
      exact h.1.resolve_left (h1 ▸ hnk)
    · rw [if_neg h1] at hq
      cases hpk : SF.parentIn i (some n) k with
      | some x =>
        rw [hpk] at hq
        cases hq
        have hik : i ∈ k.idxs := by
          by_contra hc
          rw [(parentIn_none_iff i k (some n)).2 hc] at hpk
          cases hpk
        have hsOK : ROK dt s := h.2.2.toROK (hks i hik)
        refine Or.inr ?_
        rcases ROKs_parent dt i k (some n) q hk h.2.1 hpk with ⟨rfl, hkOK⟩ | ⟨p, rfl, hp, hpx⟩
        · exact ⟨n, rfl, List.mem_cons_self, ROKx_cons.2
            ⟨Or.inl (Or.inl rfl), hkOK.toROKx _, hsOK.toROKx _⟩⟩
        · exact ⟨p, rfl, List.mem_cons_of_mem _ (List.mem_append_left _ hp), ROKx_cons.2
            ⟨Or.inl (Or.inr (mem_idxs_of_mem_recs hp)), hpx, hsOK.toROKx _⟩⟩
      | none =>
        rw [hpk] at hq
        have hik : i ∉ k.idxs := (parentIn_none_iff i k (some n)).1 hpk
        have hkOK : ROK dt k := h.2.1.toROK hik
        have hloc : n.r = recompR dt n k := h.1.resolve_left hik
        rcases ROKs_parent dt i s par q hs h.2.2 hq with ⟨rfl, hsOK⟩ | ⟨p, rfl, hp, hpx⟩
        · exact Or.inl ⟨rfl, ROK_cons.2 ⟨hloc, hkOK, hsOK⟩⟩
        · exact Or.inr ⟨p, rfl, List.mem_cons_of_mem _ (List.mem_append_right _ hp), ROKx_cons.2
            ⟨Or.inr hloc, hkOK.toROKx _, hpx⟩⟩

/-! ### `_update_path_to_root` -/

theorem updatePath_none (dt : Data) (s s' : Store)
    (h : Store.updatePathToRoot dt s none = some s') :
    s' = { s with rootR := recompRoot dt s.forest } := by
  unfold Store.updatePathToRoot at h
  cases h
  rfl

theorem updatePath_some (dt : Data) (s s' : Store) (name : Int)
    (h : Store.updatePathToRoot dt s (some name) = some s') :
    ∃ i, s.nodeIdx.lookup name = some i ∧ i ∈ s.forest.idxs ∧
      s' = { s with forest := (updPath dt i s.forest).1,
                    rootR := recompRoot dt (updPath dt i s.forest).1 } := by
  unfold Store.updatePathToRoot at h
  simp only [Option.bind_eq_bind, Option.bind_eq_some_iff] at h
  obtain ⟨i, hi, h⟩ := h
  split at h
  · cases h
  · rename_i hf
    split at h
    · cases h
    · cases h
      refine ⟨i, hi, (updPath_found dt i s.forest).1 (by simpa using hf), rfl⟩

/-- recomputation from the virtual root: the forest must already be in order -/
theorem cacheOK_updatePath_none (dt : Data) (s s' : Store) (hf : CacheOKsf dt s.forest)
    (h : Store.updatePathToRoot dt s none = some s') : CacheOK dt s' := by
  rw [updatePath_none dt s s' h]
  exact ⟨hf, fun _ => rfl⟩

/-- recomputation from clone `name`: everything off the path to that clone must be in order -/
theorem cacheOK_updatePath_some (dt : Data) (s s' : Store) (name : Int)
    (hnd : s.forest.idxs.Nodup) (hp : POK dt s.forest)
    (hr : ∀ i, s.nodeIdx.lookup name = some i → ROKx dt i s.forest)
    (h : Store.updatePathToRoot dt s (some name) = some s') : CacheOK dt s' := by
  obtain ⟨i, hi, _, rfl⟩ := updatePath_some dt s s' name h
  exact ⟨cacheOKsf_updPath dt i s.forest hnd hp (hr i hi), fun _ => rfl⟩

end PhyModel.Store.C06
