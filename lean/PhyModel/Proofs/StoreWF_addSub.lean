import PhyModel.Proofs.StoreWF_addSubA
/-! `Tree.add_subtree` (C07): grafting a well-formed subtree whose clone data are not yet in the tree
preserves the invariant `Inv0` (`Dense` is not preserved), appends the clone-side data of the subtree
to `_data` (the subtree's outliers are dropped, as in the code) and leaves the outliers alone.
`Full s` is needed: a clone of `s` without `_data` key would make the clash test of
`relabelGrafted` miss a clash. -/
namespace PhyModel.Store
open PhyModel PhyModel.Store PhyModel.Store.Store SF AL

/-- the store `add_subtree` hands to `_update_path_to_root`, as a function of the grafted forest -/
def graftMid (s sub : Store) (f1 : SF) : Store :=
  let r := relabelGrafted sub (reindex sub.forest s.fresh).1.recs (listMaxInt (f1.names ++ sub.nodes) (-1))
    s.data s.nodeIdx s.nodeIdxRev []
  { forest := f1.mapRecs fun n => match r.2.2.2.lookup n.idx with
      | some nm => { n with name := nm }
      | none => n,
    rootR := s.rootR, nodeIdx := r.2.1, nodeIdxRev := r.2.2.1, data := r.1, last := sub.last }

theorem addSubtree_mid {dt : Data} {s sub s' : Store} {parent : Option Int}
    (h : s.addSubtree dt sub parent = some s') :
    ∃ f1 src, (f1 = SF.append (reindex sub.forest s.fresh).1 s.forest ∨
        ∃ pi ∈ s.forest.idxs, f1 = SF.graftAt pi (reindex sub.forest s.fresh).1 s.forest) ∧
      updatePathToRoot dt (graftMid s sub f1) src = some s' := by
  cases parent with
  | none =>
    simp only [addSubtree, Option.bind_eq_bind, Option.bind_eq_some_iff] at h
    obtain ⟨f1, hf1, h⟩ := h
    cases hf1
    exact ⟨_, none, Or.inl rfl, h⟩
  | some pn =>
    simp only [addSubtree, Option.bind_eq_bind, Option.bind_eq_some_iff] at h
    obtain ⟨pi, hpi, x, hx, f1, hf1, pi', _, pr, _, h⟩ := h
    cases hf1
    refine ⟨_, some pr.name, Or.inr ⟨pi, ?_, rfl⟩, h⟩
    by_contra hc; rw [findSub_none_iff.2 hc] at hx; cases hx

/-- the grafted payloads under their new names -/
def renamed (L : List (NodeRec × Int)) : List NodeRec := L.map fun p => { p.1 with name := p.2 }

theorem reindex_names (f : SF) (c : Nat) : (reindex f c).1.names = f.names :=
  reindex_map (·.name) (fun _ _ => rfl) f c

theorem graftMid_spec {s sub : Store} {f1 : SF} (hs : Inv0 s) (hsub : WF sub)
    (hperm : f1.recs.Perm ((reindex sub.forest s.fresh).1.recs ++ s.forest.recs)) :
    ∃ L : List (NodeRec × Int), L.map (·.1) = (reindex sub.forest s.fresh).1.recs ∧
      (L.map (·.2)).Nodup ∧ (∀ nm ∈ L.map (·.2), nm ∉ keys s.data ∧ 0 ≤ nm) ∧
      (graftMid s sub f1).data = s.data ++ L.map (fun p => (p.2, sub.dataOf p.1.name)) ∧
      (graftMid s sub f1).nodeIdx = s.nodeIdx ++ L.map (fun p => (p.2, p.1.idx)) ∧
      (graftMid s sub f1).nodeIdxRev = s.nodeIdxRev ++ L.map (fun p => (p.1.idx, p.2)) ∧
      (graftMid s sub f1).forest.recs.Perm (renamed L ++ s.forest.recs) := by
  obtain ⟨hw, hfull⟩ := hs
  have hmax := listMaxInt_ge (f1.names ++ sub.nodes) (-1)
  have hold : ∀ n ∈ s.forest.recs, n.idx < s.fresh := fun n hn => by
    have := le_maxIdx hn; simp only [Store.fresh]; omega
  have hnew : ∀ n ∈ (reindex sub.forest s.fresh).1.recs, s.fresh ≤ n.idx := fun n hn =>
    (reindex_idx_bounds hn).1
  obtain ⟨L, hL1, hL2, hL3, hL4⟩ := relabelGrafted_spec sub (reindex sub.forest s.fresh).1.recs
    (listMaxInt (f1.names ++ sub.nodes) (-1)) s.data s.nodeIdx s.nodeIdxRev [] hmax.1
    (fun k hk => by
      rcases hw.d.data_sub k hk with rfl | hk'
      · exact hmax.1
      · refine hmax.2 k (List.mem_append_left _ ?_)
        obtain ⟨n, hn, rfl⟩ := List.mem_map.1 hk'
        exact mem_names.2 ⟨n, hperm.symm.subset (List.mem_append_right _ hn), rfl⟩)
    (fun n hn => by
      have h1 : n.name ∈ sub.forest.names := by
        rw [← reindex_names sub.forest s.fresh]; exact mem_names.2 ⟨n, hn, rfl⟩
      obtain ⟨m, hm, hmn⟩ := mem_names.1 h1
      exact ⟨hmn ▸ hsub.name_nonneg m hm, hmax.2 _ (List.mem_append_right _ h1)⟩)
    (fun k hk => by
      obtain ⟨e, he, rfl⟩ := List.mem_map.1 hk
      obtain ⟨n, hn, h1, _⟩ := (hw.nodeIdx_iff e.1 e.2).1 he
      exact h1 ▸ hfull n hn)
    (fun n hn hk => by
      obtain ⟨e, he, h1⟩ := List.mem_map.1 hk
      obtain ⟨m, hm, _, h2⟩ := (hw.nodeIdxRev_iff e.1 e.2).1 he
      have := hold m hm; have := hnew n hn; omega)
    (reindex_idxs_nodup _ _)
  refine ⟨L, hL1, hL3, hL4, ?_, ?_, ?_, ?_⟩
  · simp only [graftMid, hL2, relabelOut]
  · simp only [graftMid, hL2, relabelOut]
  · simp only [graftMid, hL2, relabelOut]
  · simp only [graftMid, hL2, relabelOut, recs_mapRecs, List.nil_append]
    refine (hperm.map _).trans ?_
    rw [List.map_append]
    have hkeys : keys (L.map fun p => (p.1.idx, p.2)) = (reindex sub.forest s.fresh).1.idxs := by
      simp only [keys, List.map_map, SF.idxs, ← hL1]; rfl
    have h1 : s.forest.recs.map (fun n => match (L.map fun p => (p.1.idx, p.2)).lookup n.idx with
        | some nm => { n with name := nm }
        | none => n) = s.forest.recs := by
      conv_rhs => rw [← List.map_id s.forest.recs]
      apply List.map_congr_left
      intro n hn
      have : (L.map fun p => (p.1.idx, p.2)).lookup n.idx = none := by
        rw [lookup_none_iff, hkeys]
        intro hc
        obtain ⟨m, hm, hmi⟩ := mem_idxs.1 hc
        have := hold n hn; have := hnew m hm; omega
      simp [this]
    have h2 : (reindex sub.forest s.fresh).1.recs.map (fun n =>
        match (L.map fun p => (p.1.idx, p.2)).lookup n.idx with
        | some nm => { n with name := nm }
        | none => n) = renamed L := by
      rw [← hL1, List.map_map, renamed]
      apply List.map_congr_left
      intro p hp
      have : (L.map fun p => (p.1.idx, p.2)).lookup p.1.idx = some p.2 :=
        lookup_of_mem (hkeys ▸ reindex_idxs_nodup _ _) (List.mem_map.2 ⟨p, hp, rfl⟩)
      simp [this]
    rw [h1, h2]


/-- the clone-side data of a store, as `Legal (.addSub ..)` lists them -/
def cloneData (sub : Store) : List Nat := sub.forest.recs.flatMap (fun n => sub.dataOf n.name)

theorem cloneData_eq (sub : Store) : cloneData sub = sub.forest.names.flatMap (dOf sub.data) := by
  simp only [cloneData, SF.names, List.flatMap_map]; rfl

theorem flatMap_relabelled {s sub : Store} {L : List (NodeRec × Int)}
    (hL : L.map (·.1) = (reindex sub.forest s.fresh).1.recs) :
    vals (L.map fun p => (p.2, sub.dataOf p.1.name)) = cloneData sub := by
  rw [cloneData_eq, ← reindex_names sub.forest s.fresh, SF.names, ← hL]
  simp only [vals, List.flatMap_map, List.map_map]; rfl

theorem graftMid_data {s sub : Store} {f1 : SF} (hs : Inv0 s) (hsub : WF sub)
    (hperm : f1.recs.Perm ((reindex sub.forest s.fresh).1.recs ++ s.forest.recs)) :
    vals (graftMid s sub f1).data = vals s.data ++ cloneData sub ∧
      (graftMid s sub f1).outliers = s.outliers := by
  obtain ⟨L, hL1, _, hL4, hd, _⟩ := graftMid_spec hs hsub hperm
  refine ⟨by rw [hd]; exact List.flatMap_append.trans (congrArg _ (flatMap_relabelled hL1)), ?_⟩
  show ((graftMid s sub f1).data.lookup outKey).getD [] = (s.data.lookup outKey).getD []
  have : (L.map fun p => (p.2, sub.dataOf p.1.name)).lookup outKey = none := by
    rw [lookup_none_iff]
    intro hc
    have : outKey ∈ L.map (·.2) := by simpa [keys, List.map_map, Function.comp_def] using hc
    have := (hL4 _ this).2; simp [outKey] at this
  rw [hd, List.lookup_append, this, Option.or_none]


theorem graftMid_inv {s sub : Store} {f1 : SF} (hs : Inv0 s) (hsub : WF sub)
    (hperm : f1.recs.Perm ((reindex sub.forest s.fresh).1.recs ++ s.forest.recs))
    (hleg : ∀ d ∈ cloneData sub, d ∉ vals s.data) : Inv0 (graftMid s sub f1) := by
  obtain ⟨L, hL1, hL3, hL4, hd, hni, hnir, hf⟩ := graftMid_spec hs hsub hperm
  obtain ⟨hw, hfull⟩ := hs
  have hRn : (renamed L).map (·.name) = L.map (·.2) := by
    simp [renamed, List.map_map, Function.comp_def]
  have hRi : (renamed L).map (·.idx) = (reindex sub.forest s.fresh).1.idxs := by
    rw [SF.idxs, ← hL1]; simp [renamed, List.map_map, Function.comp_def]
  have hkd : (L.map fun p => (p.2, sub.dataOf p.1.name)).map (·.1) = L.map (·.2) := by
    simp [List.map_map, Function.comp_def]
  have hnewi : ∀ n ∈ renamed L, s.fresh ≤ n.idx := fun n hn => by
    have : n.idx ∈ (reindex sub.forest s.fresh).1.idxs := hRi ▸ List.mem_map.2 ⟨n, hn, rfl⟩
    obtain ⟨m, hm, hmi⟩ := mem_idxs.1 this
    exact hmi ▸ (reindex_idx_bounds hm).1
  have hold : ∀ n ∈ s.forest.recs, n.idx < s.fresh := fun n hn => by
    have := le_maxIdx hn; simp only [Store.fresh]; omega
  have hG : WFG (renamed L ++ s.forest.recs) := by
    refine ⟨?_, ?_, fun n hn => ?_, fun n hn => ?_⟩
    · rw [List.map_append, hRn]
      refine List.nodup_append.2 ⟨hL3, hw.names_nodup, fun a ha b hb hab => ?_⟩
      obtain ⟨n, hn, rfl⟩ := List.mem_map.1 hb
      exact (hL4 a ha).1 (hab ▸ hfull n hn)
    · rw [List.map_append, hRi]
      refine List.nodup_append.2 ⟨reindex_idxs_nodup _ _, hw.idxs_nodup, fun a ha b hb hab => ?_⟩
      obtain ⟨n, hn, rfl⟩ := List.mem_map.1 hb
      obtain ⟨m, hm, rfl⟩ := mem_idxs.1 ha
      have := hold n hn; have := (reindex_idx_bounds hm).1; omega
    · rcases List.mem_append.1 hn with h | h
      · have := hnewi n h; simp only [Store.fresh] at this; omega
      · exact hw.idx_pos n h
    · rcases List.mem_append.1 hn with h | h
      · exact (hL4 n.name (hRn ▸ List.mem_map.2 ⟨n, h, rfl⟩)).2
      · exact hw.name_nonneg n h
  have hM : WFM (renamed L ++ s.forest.recs) (graftMid s sub f1).nodeIdx (graftMid s sub f1).nodeIdxRev := by
    refine ⟨?_, ?_⟩
    · rw [hni, List.map_append]
      have : (renamed L).map (fun n => (n.name, n.idx)) = L.map (fun p => (p.2, p.1.idx)) := by
        simp [renamed, List.map_map, Function.comp_def]
      rw [this]
      exact (hw.m.1.append_right _).trans List.perm_append_comm
    · rw [hnir, List.map_append]
      have : (renamed L).map (fun n => (n.idx, n.name)) = L.map (fun p => (p.1.idx, p.2)) := by
        simp [renamed, List.map_map, Function.comp_def]
      rw [this]
      exact (hw.m.2.append_right _).trans List.perm_append_comm
  have hkn : (keys (graftMid s sub f1).data).Nodup := by
    rw [hd, keys, List.map_append]
    refine List.nodup_append.2 ⟨hw.data_keys, hkd ▸ hL3, fun a ha b hb hab => ?_⟩
    exact (hL4 b (hkd ▸ hb)).1 (hab ▸ ha)
  have hD : WFD (renamed L ++ s.forest.recs) (graftMid s sub f1).data := by
    refine ⟨hkn, fun k hk => ?_, fun n hn => ?_, ?_⟩
    · rw [hd, keys, List.map_append, List.mem_append] at hk
      rw [List.map_append, List.mem_append, hRn]
      rcases hk with hk | hk
      · exact (hw.d.data_sub k hk).imp id Or.inr
      · exact Or.inr (Or.inl (hkd ▸ hk))
    · rcases List.mem_append.1 hn with h | h
      · obtain ⟨p, hp, rfl⟩ := List.mem_map.1 h
        have h1 : dOf (graftMid s sub f1).data p.2 = sub.dataOf p.1.name := by
          have : (graftMid s sub f1).data.lookup p.2 = some (sub.dataOf p.1.name) :=
            lookup_of_mem hkn (hd ▸ List.mem_append_right _ (List.mem_map.2 ⟨p, hp, rfl⟩))
          simp [dOf, this]
        show p.1.dps.Perm _
        rw [h1]
        have h2 : (p.1.name, p.1.dps) ∈ sub.forest.recs.map (fun n => (n.name, n.dps)) := by
          rw [← reindex_map (fun n => (n.name, n.dps)) (fun _ _ => rfl) sub.forest s.fresh, ← hL1,
            List.map_map]
          exact List.mem_map.2 ⟨p, hp, rfl⟩
        obtain ⟨m, hm, hme⟩ := List.mem_map.1 h2
        simp only [Prod.mk.injEq] at hme
        rw [← hme.1, ← hme.2]; exact hsub.payload_data m hm
      · have h1 : dOf (graftMid s sub f1).data n.name = dOf s.data n.name := by
          obtain ⟨v, hv⟩ := Option.isSome_iff_exists.1 (lookup_isSome_iff.2 (hfull n h))
          simp [dOf, hd, List.lookup_append, hv]
        rw [h1]; exact hw.payload_data n h
    · rw [(graftMid_data ⟨hw, hfull⟩ hsub hperm).1]
      refine List.nodup_append.2 ⟨hw.data_nodup, ?_, fun a ha b hb hab => hleg b hb (hab ▸ ha)⟩
      rw [cloneData_eq]
      exact flatMap_dOf_nodup hsub.data_keys hsub.data_nodup hsub.names_nodup
  refine ⟨(wf_iff _).2 ⟨hG.perm hf, hM.perm hf, hD.perm hf⟩, fun n hn => ?_⟩
  rw [hd, List.map_append, List.mem_append]
  rcases List.mem_append.1 (hf.subset hn) with h | h
  · right; exact hkd ▸ hRn ▸ List.mem_map.2 ⟨n, h, rfl⟩
  · exact Or.inl (hfull n h)


/-- `add_subtree` = graft, relabel (`graftMid`), then refresh cached vectors -/
theorem addSubtree_mid' {dt : Data} {s sub s' : Store} {parent : Option Int}
    (h : s.addSubtree dt sub parent = some s') (hs : Inv0 s) :
    ∃ f1 src, f1.recs.Perm ((reindex sub.forest s.fresh).1.recs ++ s.forest.recs) ∧
      updatePathToRoot dt (graftMid s sub f1) src = some s' := by
  obtain ⟨f1, src, hf1, hu⟩ := addSubtree_mid h
  refine ⟨f1, src, ?_, hu⟩
  rcases hf1 with rfl | ⟨pi, hpi, rfl⟩
  · rw [recs_append]
  · exact graftAt_perm _ hs.1.idxs_nodup hpi

theorem addSubtree_inv {dt : Data} {s sub s' : Store} {parent : Option Int}
    (h : s.addSubtree dt sub parent = some s') (hs : Inv0 s) (hsub : WF sub)
    (hleg : ∀ d ∈ cloneData sub, d ∉ vals s.data) : Inv0 s' := by
  obtain ⟨f1, src, hperm, hu⟩ := addSubtree_mid' h hs
  obtain ⟨hw, hf⟩ := graftMid_inv hs hsub hperm hleg
  obtain ⟨h1, h2, _⟩ := updatePathToRoot_inv hu
  exact ⟨h1 hw, h2 hf⟩

/-- data, exact form: the clone-side data of the subtree are appended -/
theorem addSubtree_data_eq {dt : Data} {s sub s' : Store} {parent : Option Int}
    (h : s.addSubtree dt sub parent = some s') (hs : Inv0 s) (hsub : WF sub) :
    vals s'.data = vals s.data ++ cloneData sub := by
  obtain ⟨f1, src, hperm, hu⟩ := addSubtree_mid' h hs
  obtain ⟨_, _, _, hd, _⟩ := updatePathToRoot_spec hu
  rw [hd]; exact (graftMid_data hs hsub hperm).1

/-- data: the clone-side data of the subtree are added (its outliers are dropped, as in the code) -/
theorem addSubtree_data {dt : Data} {s sub s' : Store} {parent : Option Int}
    (h : s.addSubtree dt sub parent = some s') (hs : Inv0 s) (hsub : WF sub) :
    (vals s'.data).Perm (vals s.data ++ cloneData sub) :=
  List.Perm.of_eq (addSubtree_data_eq h hs hsub)

theorem addSubtree_outliers {dt : Data} {s sub s' : Store} {parent : Option Int}
    (h : s.addSubtree dt sub parent = some s') (hs : Inv0 s) (hsub : WF sub) :
    s'.outliers = s.outliers := by
  obtain ⟨f1, src, hperm, hu⟩ := addSubtree_mid' h hs
  obtain ⟨_, _, _, hd, _⟩ := updatePathToRoot_spec hu
  simp only [Store.outliers, Store.dataOf, hd]
  exact (graftMid_data hs hsub hperm).2

end PhyModel.Store
