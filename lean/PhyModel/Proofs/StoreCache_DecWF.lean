import PhyModel.Proofs.StoreCache_Dec
import PhyModel.Proofs.StoreWFB
/-! C06, non-vacuity support: C07's `WF` along a concrete run, checked through `wfB`. -/
namespace PhyModel.Store.C06
open PhyModel

theorem along_wf_of_bool (dt : Data) (ops : List Op) (sys : Sys)
    (h : alongB dt (fun sy => sy.all Store.wfB) sys ops = true) :
    Along dt (fun sy => ∀ s ∈ sy, WF s) sys ops :=
  Along.mono (fun _ hsy s hs => (wfB_iff s).1 (List.all_eq_true.1 hsy s hs))
    (alongB_sound dt _ ops sys h)

theorem forall_wf_of_bool (sys : Sys) (h : sys.all Store.wfB = true) : ∀ s ∈ sys, WF s :=
  fun s hs => (wfB_iff s).1 (List.all_eq_true.1 h s hs)

theorem forall_cacheOK_of_bool (dt : Data) (sys : Sys) (h : sys.all (Store.cacheOKB dt) = true) :
    ∀ s ∈ sys, CacheOK dt s :=
  fun s hs => (cacheOKB_iff dt s).1 (List.all_eq_true.1 h s hs)

end PhyModel.Store.C06
