import PhyModel.Proofs.StoreCache_Gen
/-! C06, generic layer: the cache invariant does not look at graph indices or names.  Payload maps
that keep `dps`, `p`, `r` (`mapRecs`), and the counter-threading renumberings `reindex` / `relabelSF`
(through the erasure `er`), preserve it. -/
namespace PhyModel.Store.C06
open PhyModel

theorem mapRecs_cons (g : NodeRec → NodeRec) (n : NodeRec) (k s : SF) :
    (SF.cons n k s).mapRecs g = .cons (g n) (k.mapRecs g) (s.mapRecs g) := rfl

theorem Dc_mapRecs (G sm : Nat) (g : NodeRec → NodeRec) (hr : ∀ n, (g n).r = n.r) :
    ∀ f : SF, Dc G sm (f.mapRecs g) = Dc G sm f
  | .nil => rfl
  | .cons n k s => by simp only [mapRecs_cons, Dc, hr, Dc_mapRecs G sm g hr s]

theorem recompR_congr (dt : Data) (n n' : NodeRec) (k k' : SF) (hp : n'.p = n.p)
    (hk : ∀ sm, Dc dt.G sm k' = Dc dt.G sm k) : recompR dt n' k' = recompR dt n k := by
  unfold recompR
  simp only [hp, hk]

theorem recompRoot_congr (dt : Data) (f f' : SF) (hk : ∀ sm, Dc dt.G sm f' = Dc dt.G sm f) :
    recompRoot dt f' = recompRoot dt f := by
  unfold recompRoot
  simp only [hk]

theorem isNil_mapRecs (g : NodeRec → NodeRec) (f : SF) : (f.mapRecs g).isNil = f.isNil := by
  cases f <;> rfl

theorem idxs_mapRecs (g : NodeRec → NodeRec) (hi : ∀ n, (g n).idx = n.idx) :
    ∀ f : SF, (f.mapRecs g).idxs = f.idxs
  | .nil => rfl
  | .cons n k s => by
    rw [mapRecs_cons, idxs_cons, idxs_cons, hi, idxs_mapRecs g hi k, idxs_mapRecs g hi s]

theorem POK_mapRecs (dt : Data) (g : NodeRec → NodeRec) (hd : ∀ n, (g n).dps = n.dps)
    (hp : ∀ n, (g n).p = n.p) : ∀ f : SF, POK dt (f.mapRecs g) ↔ POK dt f
  | .nil => Iff.rfl
  | .cons n k s => by
    simp only [mapRecs_cons, POK, hd, hp, POK_mapRecs dt g hd hp k, POK_mapRecs dt g hd hp s]

theorem ROKe_mapRecs (dt : Data) (g : NodeRec → NodeRec) (hp : ∀ n, (g n).p = n.p)
    (hr : ∀ n, (g n).r = n.r) (E E' : NodeRec → SF → Prop)
    (hE : ∀ n k, E' (g n) (k.mapRecs g) ↔ E n k) :
    ∀ f : SF, ROKe dt E' (f.mapRecs g) ↔ ROKe dt E f
  | .nil => Iff.rfl
  | .cons n k s => by
    simp only [mapRecs_cons, ROKe, hE, hr, ROKe_mapRecs dt g hp hr E E' hE k,
      ROKe_mapRecs dt g hp hr E E' hE s,
      recompR_congr dt n (g n) k (k.mapRecs g) (hp n) (fun sm => Dc_mapRecs dt.G sm g hr k)]

theorem ROK_mapRecs (dt : Data) (g : NodeRec → NodeRec) (hp : ∀ n, (g n).p = n.p)
    (hr : ∀ n, (g n).r = n.r) (f : SF) : ROK dt (f.mapRecs g) ↔ ROK dt f :=
  ROKe_mapRecs dt g hp hr _ _ (fun _ _ => Iff.rfl) f

theorem ROKx_mapRecs (dt : Data) (i : Nat) (g : NodeRec → NodeRec) (hi : ∀ n, (g n).idx = n.idx)
    (hp : ∀ n, (g n).p = n.p) (hr : ∀ n, (g n).r = n.r) (f : SF) :
    ROKx dt i (f.mapRecs g) ↔ ROKx dt i f :=
  ROKe_mapRecs dt g hp hr _ _ (fun n k => by rw [hi, idxs_mapRecs g hi]) f

theorem cacheOKsf_mapRecs (dt : Data) (g : NodeRec → NodeRec) (hd : ∀ n, (g n).dps = n.dps)
    (hp : ∀ n, (g n).p = n.p) (hr : ∀ n, (g n).r = n.r) (f : SF) :
    CacheOKsf dt (f.mapRecs g) ↔ CacheOKsf dt f := by
  rw [cacheOKsf_iff, cacheOKsf_iff, POK_mapRecs dt g hd hp, ROK_mapRecs dt g hp hr]

/-! ### erasure of indices and names -/

/-- forget graph indices and names -/
def erRec (n : NodeRec) : NodeRec := { n with idx := 0, name := 0 }
def er (f : SF) : SF := f.mapRecs erRec

theorem er_cons (n : NodeRec) (k s : SF) :
    er (.cons n k s) = .cons (erRec n) (er k) (er s) := rfl

theorem cacheOKsf_er (dt : Data) (f : SF) : CacheOKsf dt (er f) ↔ CacheOKsf dt f :=
  cacheOKsf_mapRecs dt erRec (fun _ => rfl) (fun _ => rfl) (fun _ => rfl) f

theorem POK_er (dt : Data) (f : SF) : POK dt (er f) ↔ POK dt f :=
  POK_mapRecs dt erRec (fun _ => rfl) (fun _ => rfl) f

theorem Dc_er (G sm : Nat) (f : SF) : Dc G sm (er f) = Dc G sm f :=
  Dc_mapRecs G sm erRec (fun _ => rfl) f

theorem cacheOKsf_of_er_eq (dt : Data) {f f' : SF} (h : er f' = er f) :
    CacheOKsf dt f' ↔ CacheOKsf dt f := by
  rw [← cacheOKsf_er dt f', h, cacheOKsf_er]

theorem POK_of_er_eq (dt : Data) {f f' : SF} (h : er f' = er f) : POK dt f' ↔ POK dt f := by
  rw [← POK_er dt f', h, POK_er]

theorem recompRoot_of_er_eq (dt : Data) {f f' : SF} (h : er f' = er f) :
    recompRoot dt f' = recompRoot dt f :=
  recompRoot_congr dt f f' fun sm => by rw [← Dc_er, h, Dc_er]

theorem isNil_of_er_eq {f f' : SF} (h : er f' = er f) : f'.isNil = f.isNil := by
  have h1 : (er f').isNil = f'.isNil := isNil_mapRecs _ _
  have h2 : (er f).isNil = f.isNil := isNil_mapRecs _ _
  rw [← h1, h, h2]

theorem er_mapRecs (g : NodeRec → NodeRec) (hd : ∀ n, (g n).dps = n.dps) (hp : ∀ n, (g n).p = n.p)
    (hr : ∀ n, (g n).r = n.r) : ∀ f : SF, er (f.mapRecs g) = er f
  | .nil => rfl
  | .cons n k s => by
    rw [mapRecs_cons, er_cons, er_cons, er_mapRecs g hd hp hr k, er_mapRecs g hd hp hr s]
    simp only [erRec, hd, hp, hr]

theorem er_reindex : ∀ (f : SF) (c : Nat), er (Store.reindex f c).1 = er f
  | .nil, _ => rfl
  | .cons n k s, c => by
    simp only [Store.reindex, er_cons, er_reindex k, er_reindex s, erRec]

theorem er_relabelSF : ∀ (f : SF) (c : Int), er (Store.relabelSF f c).1 = er f
  | .nil, _ => rfl
  | .cons n k s, c => by
    simp only [Store.relabelSF, er_cons, er_relabelSF k, er_relabelSF s, erRec]

theorem er_append : ∀ f g : SF, er (f.append g) = (er f).append (er g)
  | .nil, _ => rfl
  | .cons n k s, g => by simp only [SF.append, er_cons, er_append s g]

end PhyModel.Store.C06
