import Mathlib.Algebra.BigOperators.Group.Finset.Basic
import Mathlib.Algebra.BigOperators.Ring.Finset
import Mathlib.Algebra.Order.Field.Rat
import Mathlib.Data.Fintype.BigOperators
import Mathlib.Algebra.BigOperators.Field
import Mathlib.Algebra.Order.BigOperators.Group.Finset
import Mathlib.Tactic.Ring
import Mathlib.Tactic.Linarith
import Mathlib.Tactic.FieldSimp

open Finset BigOperators

namespace Moves

variable {X Sg Cc : Type} [Fintype X] [Fintype Sg] [Fintype Cc] [DecidableEq X]

/-- Auxiliary-variable mixture: draw σ | x ~ u x ·, then apply a kernel that leaves
x ↦ π x * u x σ invariant.  The mixture leaves π invariant. -/
theorem aux_mixture_invariant (π : X → ℚ) (u : X → Sg → ℚ) (P : Sg → X → X → ℚ)
    (hu : ∀ x, π x ≠ 0 → ∑ s, u x s = 1)
    (hP : ∀ s y, ∑ x, (π x * u x s) * P s x y = π y * u y s) (y : X) :
    ∑ x, π x * (∑ s, u x s * P s x y) = π y := by
  have h1 : ∑ x, π x * (∑ s, u x s * P s x y) = ∑ s, ∑ x, (π x * u x s) * P s x y := by
    rw [Finset.sum_comm]
    apply Finset.sum_congr rfl; intro x _
    rw [Finset.mul_sum]
    apply Finset.sum_congr rfl; intro s _; ring
  rw [h1]
  simp only [hP]
  rw [← Finset.mul_sum]
  by_cases hy : π y = 0
  · rw [hy]; simp
  · rw [hu y hy, mul_one]

/-- A move that picks a choice `c` with probability `r x c`, then redraws the state within the
block `{z | rel c x z}` proportionally to π.  If each `rel c` is an equivalence relation and the
choice probability is constant on blocks, π is invariant. -/
theorem gibbs_block_invariant (π : X → ℚ) (hπ : ∀ x, 0 ≤ π x)
    (r : X → Cc → ℚ) (hr : ∀ x, π x ≠ 0 → ∑ c, r x c = 1)
    (rel : Cc → X → X → Prop) [∀ c x z, Decidable (rel c x z)]
    (hrefl : ∀ c x, rel c x x) (hsymm : ∀ c x z, rel c x z → rel c z x)
    (htrans : ∀ c x z w, rel c x z → rel c z w → rel c x w)
    (hconst : ∀ c x z, rel c x z → r x c = r z c) (y : X) :
    ∑ x, π x * (∑ c, r x c * (if rel c x y then π y / (∑ z, if rel c x z then π z else 0) else 0))
      = π y := by
  by_cases hy : π y = 0
  · rw [hy]; simp
  have hypos : 0 < π y := lt_of_le_of_ne (hπ y) (Ne.symm hy)
  -- block mass
  set Z : Cc → X → ℚ := fun c x => ∑ z, if rel c x z then π z else 0 with hZ
  have hZeq : ∀ c x, rel c x y → Z c x = Z c y := by
    intro c x hxy
    simp only [hZ]
    apply Finset.sum_congr rfl
    intro z _
    by_cases h : rel c x z
    · have : rel c y z := htrans c y x z (hsymm c x y hxy) h
      simp [h, this]
    · have : ¬ rel c y z := fun h' => h (htrans c x y z hxy h')
      simp [h, this]
  have hZpos : ∀ c, 0 < Z c y := by
    intro c
    simp only [hZ]
    apply lt_of_lt_of_le hypos
    have : π y = if rel c y y then π y else 0 := by simp [hrefl]
    rw [this]
    exact Finset.single_le_sum (f := fun z => if rel c y z then π z else 0)
      (fun z _ => by by_cases h : rel c y z <;> simp [h, hπ]) (mem_univ y)
  have h1 : ∑ x, π x * (∑ c, r x c * (if rel c x y then π y / Z c x else 0))
      = ∑ c, r y c * (π y / Z c y) * (∑ x, if rel c y x then π x else 0) := by
    simp only [Finset.mul_sum]
    rw [Finset.sum_comm]
    apply Finset.sum_congr rfl; intro c _
    apply Finset.sum_congr rfl; intro x _
    by_cases h : rel c x y
    · have h' : rel c y x := hsymm c x y h
      rw [if_pos h, if_pos h', hZeq c x h, hconst c x y h]; ring
    · have h' : ¬ rel c y x := fun hh => h (hsymm c y x hh)
      rw [if_neg h, if_neg h']; ring

  have hgoal : ∑ x, π x * (∑ c, r x c * (if rel c x y then π y / (∑ z, if rel c x z then π z else 0) else 0))
      = ∑ x, π x * (∑ c, r x c * (if rel c x y then π y / Z c x else 0)) := rfl
  rw [hgoal, h1]
  have h2 : ∀ c, r y c * (π y / Z c y) * (∑ x, if rel c y x then π x else 0) = r y c * π y := by
    intro c
    have hz := ne_of_gt (hZpos c)
    show r y c * (π y / Z c y) * Z c y = r y c * π y
    field_simp
  simp only [h2]
  rw [← Finset.sum_mul, hr y hy, one_mul]

#print axioms aux_mixture_invariant
#print axioms gibbs_block_invariant
end Moves
