import PhyModel.Proofs.StoreWF_Facts
/-! Dictionary round trip, part A (C07/C15): the edge list `edgesOf` written by `Tree.to_dict`
determines the children of every graph index (`kidsIdx`), the node/children pairs of a forest in
preorder (`SF.subs`), and `recAdd` on a fresh payload with a duplicate-free list. -/
namespace PhyModel.Store
open PhyModel PhyModel.Store PhyModel.Store.Store SF AL

/-- every node of a forest together with its children forest, in preorder -/
def SF.subs : SF → List (NodeRec × SF)
  | .nil => []
  | .cons n k s => (n, k) :: (SF.subs k ++ SF.subs s)

theorem SF.subs_fst (f : SF) : f.subs.map (·.1) = f.recs := by
  induction f with
  | nil => rfl
  | cons n k s ihk ihs => simp [SF.subs, ihk, ihs]

theorem SF.mem_recs_of_subs {f : SF} {x : NodeRec × SF} (h : x ∈ f.subs) : x.1 ∈ f.recs := by
  rw [← SF.subs_fst]; exact List.mem_map.2 ⟨x, h, rfl⟩

theorem SF.mem_idxs_of_subs {f : SF} {x : NodeRec × SF} (h : x ∈ f.subs) : x.1.idx ∈ f.idxs :=
  mem_idxs.2 ⟨x.1, SF.mem_recs_of_subs h, rfl⟩

/-! ### the edge list -/

theorem edgesOf_length (p : Nat) (f : SF) : (edgesOf p f).length = f.numNodes := by
  induction f generalizing p with
  | nil => rfl
  | cons n k s ihk ihs => simp [edgesOf, SF.numNodes, ihk, ihs]; omega

theorem edgesOf_fst {p : Nat} {f : SF} {e : Nat × Nat} (h : e ∈ edgesOf p f) : e.1 = p ∨ e.1 ∈ f.idxs := by
  induction f generalizing p with
  | nil => simp [edgesOf] at h
  | cons n k s ihk ihs =>
    simp only [edgesOf, List.mem_cons, List.mem_append] at h
    simp only [idxs_cons, List.mem_cons, List.mem_append]
    rcases h with rfl | h | h
    · exact Or.inl rfl
    · rcases ihk h with h | h
      · exact Or.inr (Or.inl h)
      · exact Or.inr (Or.inr (Or.inl h))
    · rcases ihs h with h | h
      · exact Or.inl h
      · exact Or.inr (Or.inr (Or.inr h))

theorem edgesOf_snd {p : Nat} {f : SF} {e : Nat × Nat} (h : e ∈ edgesOf p f) : e.2 ∈ f.idxs := by
  induction f generalizing p with
  | nil => simp [edgesOf] at h
  | cons n k s ihk ihs =>
    simp only [edgesOf, List.mem_cons, List.mem_append] at h
    simp only [idxs_cons, List.mem_cons, List.mem_append]
    rcases h with rfl | h | h
    · exact Or.inl rfl
    · exact Or.inr (Or.inl (ihk h))
    · exact Or.inr (Or.inr (ihs h))

theorem edgesOf_map_snd (p : Nat) (f : SF) : (edgesOf p f).map (·.2) = f.idxs := by
  induction f generalizing p with
  | nil => rfl
  | cons n k s ihk ihs => simp [edgesOf, ihk, ihs]

/-- the targets of the edges leaving `c`, in list order (what `buildSF` recurses on) -/
def kidsIdx (es : List (Nat × Nat)) (c : Nat) : List Nat := (es.filter (·.1 = c)).map (·.2)

theorem kidsIdx_append (a b : List (Nat × Nat)) (c : Nat) :
    kidsIdx (a ++ b) c = kidsIdx a c ++ kidsIdx b c := by simp [kidsIdx]

theorem kidsIdx_cons (e : Nat × Nat) (a : List (Nat × Nat)) (c : Nat) :
    kidsIdx (e :: a) c = if e.1 = c then e.2 :: kidsIdx a c else kidsIdx a c := by
  by_cases h : e.1 = c <;> simp [kidsIdx, h]

/-- an index that is neither the parent label nor in the forest has no outgoing edge -/
theorem kidsIdx_edgesOf_nil {p c : Nat} {f : SF} (hp : c ≠ p) (hc : c ∉ f.idxs) :
    kidsIdx (edgesOf p f) c = [] := by
  simp only [kidsIdx, List.map_eq_nil_iff, List.filter_eq_nil_iff, decide_eq_true_eq]
  intro e he hec
  rcases edgesOf_fst he with h | h
  · exact hp (hec ▸ h)
  · exact hc (hec ▸ h)

/-- the edges leaving the parent label list the top-level trees -/
theorem kidsIdx_edgesOf_self {p : Nat} {f : SF} (hp : p ∉ f.idxs) :
    kidsIdx (edgesOf p f) p = f.rootRecs.map (·.idx) := by
  induction f with
  | nil => rfl
  | cons n k s _ ihs =>
    simp only [idxs_cons, List.mem_cons, List.mem_append, not_or] at hp
    simp only [edgesOf, kidsIdx_cons, kidsIdx_append, if_true, SF.rootRecs, List.map_cons]
    rw [kidsIdx_edgesOf_nil hp.1 hp.2.1, ihs hp.2.2]; rfl

/-- the edges leaving a node of the forest list that node's children -/
theorem kidsIdx_edgesOf_sub {p : Nat} {f : SF} (hnd : f.idxs.Nodup) (hp : p ∉ f.idxs)
    {x : NodeRec × SF} (hx : x ∈ f.subs) :
    kidsIdx (edgesOf p f) x.1.idx = x.2.rootRecs.map (·.idx) := by
  induction f generalizing p with
  | nil => simp [SF.subs] at hx
  | cons n k s ihk ihs =>
    simp only [idxs_cons, List.nodup_cons, List.mem_append, not_or, List.nodup_append] at hnd
    obtain ⟨⟨hnk, hns⟩, hk, hs, hdis⟩ := hnd
    simp only [idxs_cons, List.mem_cons, List.mem_append, not_or] at hp
    obtain ⟨hpn, hpk, hps⟩ := hp
    simp only [SF.subs, List.mem_cons, List.mem_append] at hx
    simp only [edgesOf, kidsIdx_cons, kidsIdx_append]
    rcases hx with rfl | hx | hx
    · simp only [hpn, if_false]
      rw [kidsIdx_edgesOf_self hnk, kidsIdx_edgesOf_nil (Ne.symm hpn) hns, List.append_nil]
    · have hi := SF.mem_idxs_of_subs hx
      have h1 : p ≠ x.1.idx := fun h => hpk (h ▸ hi)
      have h2 : x.1.idx ∉ s.idxs := fun h => hdis _ hi _ h rfl
      simp only [h1, if_false]
      rw [ihk hk hnk hx, kidsIdx_edgesOf_nil (Ne.symm h1) h2, List.append_nil]
    · have hi := SF.mem_idxs_of_subs hx
      have h1 : p ≠ x.1.idx := fun h => hps (h ▸ hi)
      have h2 : x.1.idx ∉ k.idxs := fun h => hdis _ h _ hi rfl
      have h3 : x.1.idx ≠ n.idx := fun h => hns (h ▸ hi)
      simp only [h1, if_false]
      rw [ihs hs hps hx, kidsIdx_edgesOf_nil h3 h2, List.nil_append]

theorem edgesOf_eq_nil {p : Nat} {f : SF} : edgesOf p f = [] ↔ f = .nil := by
  cases f <;> simp [edgesOf]

/-! ### `recAdd` -/

theorem recAdd_nil (dt : Data) (n : NodeRec) : recAdd dt n [] = some n := rfl

theorem recAdd_spec (dt : Data) {dl : List Nat} (hnd : dl.Nodup) (n : NodeRec)
    (hdis : ∀ d ∈ dl, d ∉ n.dps) :
    ∃ n', recAdd dt n dl = some n' ∧ n'.idx = n.idx ∧ n'.name = n.name ∧ n'.dps = n.dps ++ dl := by
  induction dl generalizing n with
  | nil => exact ⟨n, rfl, rfl, rfl, by simp⟩
  | cons a l ih =>
    simp only [List.nodup_cons] at hnd
    have ha : n.dps.contains a = false := by
      simpa using hdis a (by simp)
    obtain ⟨n', h1, h2, h3, h4⟩ := ih hnd.2
      { n with dps := n.dps ++ [a], p := mulData dt n.p a, r := mulData dt n.r a }
      (fun d hd => by
        simp only [List.mem_append, List.mem_singleton, not_or]
        exact ⟨hdis d (by simp [hd]), fun h => hnd.1 (h ▸ hd)⟩)
    refine ⟨n', ?_, h2, h3, by simpa using h4⟩
    unfold recAdd at h1 ⊢
    simp only [List.foldlM_cons, ha, Bool.false_eq_true, if_false, Option.bind_eq_bind, Option.bind_some]
    exact h1

/-- a fresh payload filled from a duplicate-free list carries exactly that list -/
theorem recAdd_fresh (dt : Data) (c : Nat) (name : Int) {dl : List Nat} (hnd : dl.Nodup) :
    ∃ n', recAdd dt (freshRec dt c name) dl = some n' ∧ n'.idx = c ∧ n'.name = name ∧ n'.dps = dl := by
  obtain ⟨n', h1, h2, h3, h4⟩ := recAdd_spec dt hnd (freshRec dt c name) (by simp [freshRec])
  exact ⟨n', h1, h2, h3, by simpa [freshRec] using h4⟩

end PhyModel.Store
