import PhyModel.Proofs.Framing
/-! Helper lemmas for C20: what the incremental container reader hands out on a cut file. -/
namespace PhyModel.Framing

theorem deliverF_nil (f : Nat) : deliverF f [] = [] := by
  cases f <;> simp [deliverF]

theorem deliverF_single (f : Nat) (a : Sym) : deliverF f [a] = [] := by
  cases f <;> simp [deliverF]

theorem blocksF_length_ge (B g : Nat) (b : List Sym) : 2 ≤ (blocksF B g b).length := by
  cases g with
  | zero => simp [blocksF]
  | succ g =>
    simp only [blocksF]
    split <;> simp

/-- On the first `n` symbols of a block stream (followed by anything) the incremental reader hands
out a prefix `take k b` of the true body; `k` falls short of the body while a symbol of the block
stream is missing and reaches it as soon as the block stream is complete. -/
theorem deliverF_take (B : Nat) : ∀ (g : Nat) (b t : List Sym) (n f : Nat),
    ((blocksF B g b ++ t).take n).length ≤ f →
    ∃ k, deliverF f ((blocksF B g b ++ t).take n) = b.take k ∧
      (b ≠ [] → n < (blocksF B g b).length → k < b.length) ∧
      ((blocksF B g b).length ≤ n → b.length ≤ k) := by
  -- the shape shared by every final block
  have final : ∀ (b t : List Sym) (n f : Nat),
      ((1 :: b.length :: b ++ t).take n).length ≤ f →
      ∃ k, deliverF f ((1 :: b.length :: b ++ t).take n) = b.take k ∧
        (b ≠ [] → n < (1 :: b.length :: b).length → k < b.length) ∧
        ((1 :: b.length :: b).length ≤ n → b.length ≤ k) := by
    intro b t n f hf
    match n with
    | 0 =>
      refine ⟨0, by simp [deliverF_nil], ?_, by simp⟩
      intro hb _; exact List.length_pos_iff.mpr hb
    | 1 =>
      refine ⟨0, by simp [deliverF_single], ?_, by simp⟩
      intro hb _; exact List.length_pos_iff.mpr hb
    | m + 2 =>
      cases f with
      | zero => simp at hf
      | succ f =>
        refine ⟨min b.length m, ?_, ?_, ?_⟩
        · simp only [List.cons_append, List.take_succ_cons, deliverF, if_true]
          rw [List.take_take, List.take_append_of_le_length (Nat.min_le_left _ _)]
        · intro _ h; simp at h; omega
        · intro h; simp at h; omega
  intro g
  induction g with
  | zero => intro b t n f hf; simpa [blocksF] using final b t n f (by simpa [blocksF] using hf)
  | succ g ih =>
    intro b t n f hf
    by_cases hb : b.length ≤ B + 1
    · simpa [blocksF, hb] using final b t n f (by simpa [blocksF, hb] using hf)
    · have hbne : b ≠ [] := by intro h; simp [h] at hb
      have hlen : (blocksF B (g + 1) b).length = 2 + (B + 1) + (blocksF B g (b.drop (B + 1))).length := by
        simp [blocksF, hb]; omega
      have hshape : blocksF B (g + 1) b ++ t
          = 0 :: (B + 1) :: (b.take (B + 1) ++ (blocksF B g (b.drop (B + 1)) ++ t)) := by
        simp [blocksF, hb]
      rw [hshape] at hf ⊢
      rw [hlen]
      match n with
      | 0 =>
        refine ⟨0, by simp [deliverF_nil], ?_, by omega⟩
        intro _ _; exact List.length_pos_iff.mpr hbne
      | 1 =>
        refine ⟨0, by simp [deliverF_single], ?_, by omega⟩
        intro _ _; exact List.length_pos_iff.mpr hbne
      | m + 2 =>
        cases f with
        | zero => simp at hf
        | succ f =>
          have htl : (b.take (B + 1)).length = B + 1 := by simp; omega
          by_cases hm : m < B + 1
          · refine ⟨m, ?_, by intro _ _; omega, by intro h; omega⟩
            simp only [List.take_succ_cons, deliverF]
            have e : (b.take (B + 1) ++ (blocksF B g (b.drop (B + 1)) ++ t)).take m = b.take m := by
              rw [List.take_append_of_le_length (by omega), List.take_take]
              congr 1; omega
            rw [e]
            have : (b.take m).length < B + 1 := by simp; omega
            simp only [Nat.zero_ne_one, if_false, if_true, this]
          · have hm' : B + 1 ≤ m := by omega
            have e : (b.take (B + 1) ++ (blocksF B g (b.drop (B + 1)) ++ t)).take m
                = b.take (B + 1) ++ (blocksF B g (b.drop (B + 1)) ++ t).take (m - (B + 1)) := by
              rw [List.take_append, htl]
              rw [List.take_of_length_le (by omega)]
            simp only [List.take_succ_cons] at hf ⊢
            rw [e] at hf ⊢
            obtain ⟨k', hk, h2, h3⟩ := ih (b.drop (B + 1)) t (m - (B + 1)) f (by
              simp only [List.length_cons, List.length_append, htl] at hf
              omega)
            refine ⟨B + 1 + k', ?_, ?_, ?_⟩
            · simp only [deliverF]
              have hnl : ¬ (b.take (B + 1) ++ (blocksF B g (b.drop (B + 1)) ++ t).take (m - (B + 1))).length < B + 1 := by
                simp only [List.length_append, htl]; omega
              simp only [Nat.zero_ne_one, if_false, if_true, hnl]
              rw [List.take_append_of_le_length (by omega), List.take_take, Nat.min_self,
                List.drop_append_of_le_length (by omega)]
              rw [List.drop_of_length_le (by omega), List.nil_append, hk]
              exact List.take_add.symm
            · intro _ h
              have hd : b.drop (B + 1) ≠ [] := by
                intro h0
                have := congrArg List.length h0
                simp at this; omega
              have := h2 hd (by omega)
              simp at this; omega
            · intro h
              have := h3 (by omega)
              simp at this; omega

end PhyModel.Framing

namespace PhyModel.Framing

theorem pack_eq (B : Nat) (b : List Sym) :
    pack B b = 31 :: 139 :: 8 :: (blocksF B b.length b ++ trailer b) := by
  simp [pack, header, blocks]

/-- The incremental reader on the first `n` symbols of a packed file: rejected inside the header,
afterwards a prefix of the true body, the whole body exactly from the end of the block stream on. -/
theorem deliver_take (B : Nat) (b : List Sym) (n : Nat) :
    (n < 3 ∧ deliver ((pack B b).take n) = none) ∨
    (3 ≤ n ∧ ∃ k, deliver ((pack B b).take n) = some (b.take k) ∧
      (b ≠ [] → n < 3 + (blocks B b).length → k < b.length) ∧
      (3 + (blocks B b).length ≤ n → b.length ≤ k)) := by
  rw [pack_eq]
  match n with
  | 0 => left; simp [deliver, header]
  | 1 => left; simp [deliver, header]
  | 2 => left; simp [deliver, header]
  | m + 3 =>
    right
    refine ⟨by omega, ?_⟩
    obtain ⟨k, hk, h2, h3⟩ := deliverF_take B b.length b (trailer b) m
      ((31 :: 139 :: 8 :: (blocksF B b.length b ++ trailer b)).take (m + 3)).length (by
        simp only [List.take_succ_cons, List.length_cons]; omega)
    refine ⟨k, ?_, ?_, ?_⟩
    · simp only [deliver, List.take_succ_cons, List.take_zero, header, if_true, List.drop_succ_cons,
        List.drop_zero]
      simp only [List.take_succ_cons] at hk
      rw [hk]
    · intro hb hn; exact h2 hb (by simp only [blocks] at hn; omega)
    · intro hn; exact h3 (by simp only [blocks] at hn; omega)

end PhyModel.Framing
