import PhyModel.Proofs.StoreWF_rmSub
/-! C07, `Tree.get_subtree`: the extracted tree is well-formed and `Full` (`getSubtree_wf`,
`getSubtree_inv`), it is the subtree found at the index registered for the name, carrying the `_data`
entries of its clones and no outliers (`getSubtree_shape`, `getSubtree_data`), and it is a legal
argument of `remove_subtree` on the same tree (`getSubtree_rmLegal`). -/
namespace PhyModel.Store
open PhyModel PhyModel.Store PhyModel.Store.Store SF AL

/-- lookup in an association list built from a key function and a value that depends on the key only -/
theorem lookup_map_key {α κ ν : Type} [BEq κ] [LawfulBEq κ] (l : List α) (k : α → κ) (v : κ → ν) (key : κ) :
    (l.map (fun a => (k a, v (k a)))).lookup key = if key ∈ l.map k then some (v key) else none := by
  induction l with
  | nil => simp
  | cons a l ih =>
    by_cases h : key = k a
    · subst h; simp
    · have : (key == k a) = false := by simpa using h
      simp only [List.map_cons, List.lookup_cons, this, ih, List.mem_cons, h, false_or]

theorem dOf_map_key {α : Type} (l : List α) (k : α → Int) (v : Int → List Nat) (key : Int) :
    dOf (l.map (fun a => (k a, v (k a)))) key = if key ∈ l.map k then v key else [] := by
  unfold dOf; rw [lookup_map_key]; split <;> rfl

theorem vals_map_key {α : Type} (l : List α) (k : α → Int) (v : Int → List Nat) :
    vals (l.map (fun a => (k a, v (k a)))) = (l.map k).flatMap v := by
  induction l with
  | nil => rfl
  | cons a l ih => simp only [vals, List.map_cons, List.flatMap_cons] at ih ⊢; rw [ih]

/-- the forest `getSubtree` builds from the subtree found in the source -/
def subForest (dt : Data) (x : NodeRec × SF) : SF := updAll dt (reindex (SF.cons x.1 x.2 .nil) 1).1

/-- the store `getSubtree` builds -/
def subStore (dt : Data) (s : Store) (x : NodeRec × SF) : Store :=
  let f := subForest dt x
  { forest := f, rootR := recompRoot dt f,
    nodeIdx := f.recs.map fun n => (n.name, n.idx),
    nodeIdxRev := f.recs.map fun n => (n.idx, n.name),
    data := f.recs.map fun n => (n.name, s.dataOf n.name),
    last := none }

theorem getSubtree_unf {dt : Data} {s r : Store} {name : Int} (h : s.getSubtree dt (some name) = some r) :
    ∃ i x, s.nodeIdx.lookup name = some i ∧ s.forest.findSub i = some x ∧ r = subStore dt s x := by
  simp only [getSubtree, Option.bind_eq_bind, Option.bind_eq_some_iff] at h
  obtain ⟨i, hi, x, hx, h⟩ := h
  simp only [Option.pure_def, Option.some.injEq] at h
  exact ⟨i, x, hi, hx, h.symm⟩

theorem subForest_map {β} (h : NodeRec → β) (h1 : ∀ n r, h { n with r := r } = h n)
    (h2 : ∀ n c, h { n with idx := c } = h n) (dt : Data) (x : NodeRec × SF) :
    (subForest dt x).recs.map h = (x.1 :: x.2.recs).map h := by
  unfold subForest
  rw [updAll_map h h1, reindex_map h h2]; simp

theorem subForest_names (dt : Data) (x : NodeRec × SF) :
    (subForest dt x).names = (SF.cons x.1 x.2 .nil).names := by
  have := subForest_map (·.name) (fun _ _ => rfl) (fun _ _ => rfl) dt x
  simpa [SF.names] using this

theorem subForest_idxs (dt : Data) (x : NodeRec × SF) :
    (subForest dt x).idxs = List.range' 1 (SF.cons x.1 x.2 .nil).numNodes := by
  unfold subForest SF.idxs
  rw [updAll_map (·.idx) (fun _ _ => rfl)]
  exact reindex_idxs _ 1

theorem subForest_rootRecs (dt : Data) (x : NodeRec × SF) :
    (subForest dt x).rootRecs.map (·.name) = [x.1.name] := by
  simp [subForest, reindex, updAll, SF.rootRecs]

/-- every payload of the extracted forest is a payload of the found subtree up to index and cache -/
theorem subForest_mem {dt : Data} {x : NodeRec × SF} {n : NodeRec} (hn : n ∈ (subForest dt x).recs) :
    ∃ m ∈ x.1 :: x.2.recs, m.name = n.name ∧ m.dps = n.dps := by
  have hm : (n.name, n.dps) ∈ (subForest dt x).recs.map (fun n => (n.name, n.dps)) :=
    List.mem_map.2 ⟨n, hn, rfl⟩
  rw [subForest_map _ (fun _ _ => rfl) (fun _ _ => rfl)] at hm
  obtain ⟨m, hm, he⟩ := List.mem_map.1 hm
  simp only [Prod.mk.injEq] at he
  exact ⟨m, hm, he.1, he.2⟩

theorem subStore_wf {dt : Data} {s : Store} {i : Nat} {x : NodeRec × SF} (hw : WF s)
    (hx : s.forest.findSub i = some x) : WF (subStore dt s x) ∧ Full (subStore dt s x) := by
  have hsl := (findSub_some hx).2
  have hnames : ((subForest dt x).recs.map (·.name)).Nodup := by
    rw [subForest_map _ (fun _ _ => rfl) (fun _ _ => rfl)]
    exact hw.names_nodup.sublist (hsl.map _)
  have hkeys : keys ((subForest dt x).recs.map fun n => (n.name, s.dataOf n.name)) =
      (subForest dt x).recs.map (·.name) := by
    simp [keys, List.map_map, Function.comp_def]
  refine ⟨(wf_iff _).2 ⟨⟨hnames, ?_, ?_, ?_⟩, ⟨List.Perm.refl _, List.Perm.refl _⟩, ⟨?_, ?_, ?_, ?_⟩⟩, ?_⟩
  · have := subForest_idxs dt x
    show (subForest dt x).idxs.Nodup
    rw [this]; exact List.nodup_range'
  · intro n (hn : n ∈ (subForest dt x).recs)
    have : n.idx ∈ (subForest dt x).idxs := mem_idxs.2 ⟨n, hn, rfl⟩
    rw [subForest_idxs, List.mem_range'_1] at this
    omega
  · intro n (hn : n ∈ (subForest dt x).recs)
    obtain ⟨m, hm, h1, _⟩ := subForest_mem hn
    rw [← h1]; exact hw.name_nonneg m (hsl.subset hm)
  · show (keys ((subForest dt x).recs.map fun n => (n.name, s.dataOf n.name))).Nodup
    rw [hkeys]; exact hnames
  · intro k hk
    right
    have : k ∈ keys ((subForest dt x).recs.map fun n => (n.name, s.dataOf n.name)) := hk
    rwa [hkeys] at this
  · intro n (hn : n ∈ (subForest dt x).recs)
    show n.dps.Perm (dOf ((subForest dt x).recs.map fun n => (n.name, s.dataOf n.name)) n.name)
    rw [dOf_map_key (subForest dt x).recs (·.name) s.dataOf, if_pos (List.mem_map.2 ⟨n, hn, rfl⟩)]
    obtain ⟨m, hm, h1, h2⟩ := subForest_mem hn
    rw [← h1, ← h2]; exact hw.payload_data m (hsl.subset hm)
  · show (vals ((subForest dt x).recs.map fun n => (n.name, s.dataOf n.name))).Nodup
    rw [vals_map_key (subForest dt x).recs (·.name) s.dataOf]
    exact flatMap_dOf_nodup hw.data_keys hw.data_nodup hnames
  · intro n (hn : n ∈ (subForest dt x).recs)
    show n.name ∈ keys ((subForest dt x).recs.map fun n => (n.name, s.dataOf n.name))
    rw [hkeys]; exact List.mem_map.2 ⟨n, hn, rfl⟩

/-! ### the theorems -/

theorem getSubtree_none {dt : Data} {s r : Store} (h : s.getSubtree dt none = some r) : r = s := by
  simp only [getSubtree, Option.some.injEq] at h; exact h.symm

/-- only `WF` of the source is needed when a clone is extracted -/
theorem getSubtree_wf {dt : Data} {s r : Store} {name : Int} (h : s.getSubtree dt (some name) = some r)
    (hw : WF s) : WF r ∧ Full r := by
  obtain ⟨i, x, _, hx, rfl⟩ := getSubtree_unf h
  exact subStore_wf hw hx

theorem getSubtree_inv {dt : Data} {s r : Store} {root : Option Int} (h : s.getSubtree dt root = some r)
    (hs : Inv0 s) : Inv0 r := by
  cases root with
  | none => rw [getSubtree_none h]; exact hs
  | some name => exact getSubtree_wf h hs.1

/-- shape of the result for a clone: it is the subtree found at the index registered for `name` -/
theorem getSubtree_shape {dt : Data} {s r : Store} {name : Int} (h : s.getSubtree dt (some name) = some r)
    (hw : WF s) :
    ∃ i x, s.nodeIdx.lookup name = some i ∧ s.forest.findSub i = some x ∧ x.1.name = name ∧
      r.nodes = (SF.cons x.1 x.2 .nil).names ∧ r.roots = [name] ∧
      (∀ nm ∈ r.nodes, nm ∈ s.nodes) ∧
      (∀ nm, r.dataOf nm = if nm ∈ r.nodes then s.dataOf nm else []) ∧
      r.outliers = [] := by
  obtain ⟨i, x, hi, hx, rfl⟩ := getSubtree_unf h
  have hnm := (hw.findSub_of_lookup hi hx).2.1
  have hsl := (findSub_some hx).2
  have hnodes : (subStore dt s x).nodes = (SF.cons x.1 x.2 .nil).names := subForest_names dt x
  have hsub : ∀ nm ∈ (subStore dt s x).nodes, nm ∈ s.nodes := by
    intro nm h1
    rw [hnodes] at h1
    obtain ⟨n, hn, rfl⟩ := mem_names.1 h1
    exact mem_names.2 ⟨n, hsl.subset (by simpa using hn), rfl⟩
  have hdata : ∀ nm, (subStore dt s x).dataOf nm =
      if nm ∈ (subStore dt s x).nodes then s.dataOf nm else [] := fun nm =>
    dOf_map_key (subForest dt x).recs (·.name) s.dataOf nm
  refine ⟨i, x, hi, hx, hnm, hnodes, ?_, hsub, hdata, ?_⟩
  · show (subForest dt x).rootRecs.map (·.name) = [name]
    rw [subForest_rootRecs, hnm]
  · show (subStore dt s x).dataOf outKey = []
    rw [hdata, if_neg]
    intro hc
    obtain ⟨n, hn, h1⟩ := mem_names.1 (hsub _ hc)
    have := hw.name_nonneg n hn
    rw [h1] at this; simp [outKey] at this

/-- data of the extracted tree = `_data` of the clade of the root, in preorder -/
theorem getSubtree_data {dt : Data} {s r : Store} {name : Int} (h : s.getSubtree dt (some name) = some r)
    (_hw : WF s) : vals r.data = r.nodes.flatMap s.dataOf := by
  obtain ⟨i, x, _, _, rfl⟩ := getSubtree_unf h
  exact vals_map_key (subForest dt x).recs (·.name) s.dataOf

/-- the extracted subtree is a legal argument of `removeSubtree` on the same tree -/
theorem getSubtree_rmLegal {dt : Data} {s r : Store} {name : Int} (h : s.getSubtree dt (some name) = some r)
    (hw : WF s) : RmLegal s r := by
  obtain ⟨i, x, hi, hx, _, hn, hr, _⟩ := getSubtree_shape h hw
  exact fun _ => ⟨name, i, x, hr, hi, hx, hn ▸ List.Perm.refl _⟩

end PhyModel.Store
