import PhyModel.Model.MapSpec
import PhyModel.Proofs.MapProofs
import Mathlib.Algebra.Order.Field.Basic
/-! Helper lemmas for C10: the checker `evalM` of `MapDP` agrees with the structural specification
(`Feasible`, `topTotal`, `objective`), the value table of the dynamic programme at the root equals
the objective of the traceback, and the clonal-prevalence fold is CCF minus children's CCFs. -/
namespace PhyModel.MapDP

theorem evalM_iff : ∀ (f : Forest) (a : List ℕ) (t : ℕ) (v : ℚ),
    evalM f a = some (t, v) ↔ Feasible f a ∧ topTotal f a = t ∧ objective f a = v := by
  intro f
  induction f with
  | nil =>
    intro a t v
    simp only [evalM, Feasible, topTotal, objective, Option.some.injEq, Prod.mk.injEq, true_and]
  | cons p k s ihk ihs =>
    intro a t v
    cases a with
    | nil => simp [evalM, Feasible]
    | cons i rest =>
      simp only [evalM, Feasible, topTotal, objective]
      cases hk : evalM k (rest.take k.size) with
      | none =>
        have : ¬ Feasible k (rest.take k.size) := by
          intro hF
          have := (ihk (rest.take k.size) _ _).mpr ⟨hF, rfl, rfl⟩
          rw [hk] at this; cases this
        simp [this]
      | some tv =>
        obtain ⟨tk, vk⟩ := tv
        obtain ⟨hFk, htk, hvk⟩ := (ihk _ _ _).mp hk
        cases hs : evalM s (rest.drop k.size) with
        | none =>
          have : ¬ Feasible s (rest.drop k.size) := by
            intro hF
            have := (ihs (rest.drop k.size) _ _).mpr ⟨hF, rfl, rfl⟩
            rw [hs] at this; cases this
          simp [this]
        | some tv2 =>
          obtain ⟨ts, vs⟩ := tv2
          obtain ⟨hFs, hts, hvs⟩ := (ihs _ _ _).mp hs
          simp only [htk, hvk, hts, hvs, hFk, hFs, and_true]
          by_cases hle : tk ≤ i
          · simp [hle]
          · simp [hle]

theorem evalM_of_feasible {f : Forest} {a : List ℕ} (h : Feasible f a) :
    evalM f a = some (topTotal f a, objective f a) :=
  (evalM_iff f a _ _).mpr ⟨h, rfl, rfl⟩

/-- the value the dynamic programme holds for the root at index `G-1` is the objective of the
assignment the traceback reads off -/
theorem rootValue_eq (G : ℕ) (hG : 0 < G) (f : Forest) :
    rootValue G f = objective f (mapAssign G f) := by
  unfold rootValue
  set Dk := dAll G (zeros G) f with hDk
  have hG1 : G - 1 < G := by omega
  set c2 := getN (sStep G Dk).1 (G - 1) with hc2
  have hc2' : c2 = (scanS Dk (G - 1)).1 := by rw [hc2, sStep_choice G Dk (G - 1) hG1]
  obtain ⟨hS1, hS2, _⟩ := scanS_spec Dk (G - 1)
  have hc2le : c2 ≤ G - 1 := by rw [hc2']; exact hS1
  obtain ⟨⟨_, _, tF, vF, he, _, hval⟩, _⟩ := inv_all G f (zeros G) c2 (by omega)
  have hm : mapAssign G f = (tbForest G (zeros G) f c2).1 := rfl
  rw [hm]
  obtain ⟨_, _, hobj⟩ := (evalM_iff _ _ _ _).mp he
  rw [sStep_val G Dk (G - 1) hG1, hS2, ← hc2', hval, getQ_zeros, add_zero, hobj]

theorem foldl_sub_eq (G : ℕ) (l : List ℕ) (x : ℚ) :
    l.foldl (fun acc c => acc - ccf G c) x = x - ((l.map (ccf G)).sum) := by
  induction l generalizing x with
  | nil => simp
  | cons c l ih => simp only [List.foldl_cons, List.map_cons, List.sum_cons, ih]; ring

theorem sum_topIdx : ∀ (f : Forest) (a : List ℕ), (topIdx f a).sum = topTotal f a := by
  intro f
  induction f with
  | nil => intro a; simp [topIdx, topTotal]
  | cons p k s _ ihs =>
    intro a
    cases a with
    | nil => simp [topIdx, topTotal]
    | cons i rest => simp [topIdx, topTotal, ihs]

theorem sum_map_ccf (G : ℕ) (l : List ℕ) : (l.map (ccf G)).sum = ccf G l.sum := by
  induction l with
  | nil => simp [ccf]
  | cons c l ih => simp only [List.map_cons, List.sum_cons, ih, ccf]; push_cast; ring

theorem ccf_mono (G : ℕ) (hG : 2 ≤ G) {a b : ℕ} (h : a ≤ b) : ccf G a ≤ ccf G b := by
  unfold ccf
  have hpos : (0 : ℚ) < (G : ℚ) - 1 := by
    have : (2 : ℚ) ≤ (G : ℚ) := by exact_mod_cast hG
    linarith
  exact div_le_div_of_nonneg_right (by exact_mod_cast h) hpos.le

end PhyModel.MapDP
