import PhyModel.Model.Conc
import Mathlib.Data.List.Perm.Basic
import Mathlib.Data.List.Nodup
import Mathlib.Data.List.Range
import Mathlib.Algebra.Order.Field.Rat
import Mathlib.Tactic.Ring
import Mathlib.Tactic.Linarith
import Mathlib.Tactic.FieldSimp
import Mathlib.Tactic.Positivity
/-! Helper lemmas about the import-free model `Model/Conc.lean` (C13). -/
namespace PhyModel.Conc
open PhyModel.Orders

/-! ### K and n -/

lemma nodeSizes_keyFrom (i : ℕ) (l : List (List ℕ)) :
    nodeSizes (keyFrom i l) = l.map List.length := by
  induction l generalizing i with
  | nil => rfl
  | cons d l ih =>
    have := ih (i + 1)
    simp only [nodeSizes] at this ⊢
    simp [keyFrom, this]

lemma nodeSizes_nodeData (f : DF) (outs : List ℕ) (hk : Bool) :
    nodeSizes (nodeData f outs hk) = (cloneData f).map List.length := by
  unfold nodeData
  split
  · have := nodeSizes_keyFrom 0 (cloneData f)
    simp only [nodeSizes] at this ⊢
    simp [this]
  · exact nodeSizes_keyFrom 0 _

lemma cloneData_length (f : DF) : (cloneData f).length = Forest.nodes f := by
  induction f with
  | nil => rfl
  | cons d k s ihk ihs => simp [cloneData, Forest.nodes, ihk, ihs]; omega

lemma cloneData_sum (f : DF) : ((cloneData f).map List.length).sum = f.all.length := by
  induction f with
  | nil => rfl
  | cons d k s ihk ihs =>
    simp only [cloneData, Forest.all, List.map_cons, List.map_append, List.sum_cons,
      List.sum_append, List.length_append, ihk, ihs]
    omega

lemma kn_eq (f : DF) (outs : List ℕ) (hk : Bool) :
    kn f outs hk = (Forest.nodes f, f.all.length) := by
  unfold kn
  simp only [nodeSizes_nodeData, List.length_map, cloneData_length, cloneData_sum]

/-- the data points of the clones are exactly the data points that are not outliers -/
lemma all_length_eq_filter (f : DF) (outs : List ℕ) (N : ℕ)
    (h : (f.all ++ outs).Perm (List.range N)) :
    f.all.length = ((List.range N).filter fun i => i ∉ outs).length := by
  have hnd : (f.all ++ outs).Nodup := h.nodup_iff.mpr List.nodup_range
  have hdis := (List.nodup_append.mp hnd).2.2
  have hp := (h.filter fun i => decide (i ∉ outs)).length_eq
  rw [← hp, List.filter_append]
  have h1 : f.all.filter (fun i => decide (i ∉ outs)) = f.all := by
    apply List.filter_eq_self.mpr
    intro x hx
    simp only [decide_eq_true_eq]
    intro hxo
    exact hdis x hx x hxo rfl
  have h2 : outs.filter (fun i => decide (i ∉ outs)) = [] := by
    apply List.filter_eq_nil_iff.mpr
    intro x hx
    simp [hx]
  rw [h1, h2]; simp

/-! ### the loop -/

lemma loop_true_spec (thin : ℕ) (draws : List ℚ) : ∀ (i : ℕ) (p : Prior),
    ∀ e ∈ loop true thin i p draws,
      e.used = e.alpha ∧ i ≤ e.iter ∧ e.iter % thin = 0 ∧ draws[e.iter - i]? = some e.alpha := by
  induction draws with
  | nil => intro i p e he; simp [loop] at he
  | cons v vs ih =>
    intro i p e he
    simp only [loop, if_true] at he
    have hrest : ∀ e ∈ loop true thin (i + 1) (p.set v) vs,
        e.used = e.alpha ∧ i ≤ e.iter ∧ e.iter % thin = 0 ∧ (v :: vs)[e.iter - i]? = some e.alpha := by
      intro e he
      obtain ⟨h1, h2, h3, h4⟩ := ih (i + 1) (p.set v) e he
      refine ⟨h1, by omega, h3, ?_⟩
      have : e.iter - i = (e.iter - (i + 1)) + 1 := by omega
      rw [this, List.getElem?_cons_succ]; exact h4
    split at he
    · rcases List.mem_cons.mp he with rfl | he
      · simp_all [entry, Prior.set]
      · exact hrest e he
    · exact hrest e he

lemma loop_false_spec (thin : ℕ) (draws : List ℚ) : ∀ (i : ℕ) (p : Prior),
    ∀ e ∈ loop false thin i p draws, e.used = p.logOf ∧ e.alpha = p.alpha := by
  induction draws with
  | nil => intro i p e he; simp [loop] at he
  | cons v vs ih =>
    intro i p e he
    simp only [loop, Bool.false_eq_true, if_false] at he
    split at he
    · rcases List.mem_cons.mp he with rfl | he
      · simp [entry]
      · exact ih _ _ e he
    · exact ih _ _ e he

lemma loop_iters (upd : Bool) (thin : ℕ) (draws : List ℚ) : ∀ (i : ℕ) (p : Prior),
    (loop upd thin i p draws).map Entry.iter
      = (List.range' i draws.length).filter fun j => j % thin = 0 := by
  induction draws with
  | nil => intro i p; simp [loop]
  | cons v vs ih =>
    intro i p
    simp only [loop, List.length_cons, List.range'_succ, List.filter_cons]
    by_cases h : i % thin = 0
    · simp [h, ih, entry]
    · simp [h, ih]

/-! ### parameters -/

lemma odds_pos {a b L : ℚ} {K n : ℕ} (ha : 0 < a) (hb : 0 < b) (hL : 0 ≤ L) (hK : 1 ≤ K)
    (hn : 1 ≤ n) : 0 < odds a b L K n := by
  unfold odds shape0 rate
  have hK' : (1 : ℚ) ≤ K := by exact_mod_cast hK
  have hn' : (0 : ℚ) < n := by exact_mod_cast hn
  have : 0 < a + (K : ℚ) - 1 := by linarith
  have : 0 < b + L := by linarith
  positivity

end PhyModel.Conc
