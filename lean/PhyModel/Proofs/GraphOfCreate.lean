import PhyModel.Proofs.GraphOf
import PhyModel.Proofs.GraphCreate
import Mathlib.Data.List.Perm.Subperm
/-! The structural `create_root_node` of the store model (`Store.createRootNode`: the new clone is put on
top of the selected top-level trees, `SF.cons n1 tr.1 tr.2` with `tr = takeRoots cis forest`) is a
correct abstraction of the primitive-level graph manipulation (`gCreateRootNode`: `add_node`,
`add_edge(root, new)`, then `remove_edge(root, child)`; `add_edge(new, child)` per child): on the graph
of the forest the primitive sequence succeeds and yields the graph of the new forest, node list and
edge list up to order. -/
namespace PhyModel.Graph
open PhyModel.Store PhyModel.Store.SF

/-- graph indices of the top-level clones -/
def topIdxs (f : SF) : List Nat := f.rootRecs.map (·.idx)

@[simp] theorem topIdxs_nil : topIdxs .nil = [] := rfl
@[simp] theorem topIdxs_cons (n : NodeRec) (k s : SF) : topIdxs (.cons n k s) = n.idx :: topIdxs s := rfl

theorem topIdxs_sublist (f : SF) : (topIdxs f).Sublist f.idxs := (rootRecs_sublist f).map _

theorem takeRoots_cons' (is : List Nat) (n : NodeRec) (k s : SF) :
    SF.takeRoots is (.cons n k s) =
      if is.contains n.idx then (.cons n k (SF.takeRoots is s).1, (SF.takeRoots is s).2)
      else ((SF.takeRoots is s).1, .cons n k (SF.takeRoots is s).2) := rfl

/-- the selected top-level clones are those whose index is listed -/
theorem topIdxs_takeRoots (is : List Nat) : ∀ f : SF,
    topIdxs (f.takeRoots is).1 = (topIdxs f).filter fun c => is.contains c
  | .nil => rfl
  | .cons n k s => by
    rw [takeRoots_cons']
    by_cases h : is.contains n.idx = true
    · rw [if_pos h, topIdxs_cons, topIdxs_cons, List.filter_cons_of_pos h, topIdxs_takeRoots is s]
    · rw [if_neg h, topIdxs_cons, List.filter_cons_of_neg h, topIdxs_takeRoots is s]

/-- every top-level clone hangs under the index the forest is read from -/
theorem top_edge_mem : ∀ {f : SF} {par c : Nat}, c ∈ topIdxs f → (par, c) ∈ Store.edgesOf par f
  | .nil, _, _, h => by simp at h
  | .cons n k s, par, c, h => by
    simp only [topIdxs_cons, List.mem_cons] at h
    simp only [edgesOf_cons, List.mem_cons, List.mem_append]
    rcases h with rfl | h
    · exact .inl rfl
    · exact .inr (.inr (top_edge_mem h))

/-- splitting the top-level trees only reorders the edge list -/
theorem edgesOf_takeRoots (is : List Nat) (par : Nat) : ∀ f : SF,
    (Store.edgesOf par f).Perm (Store.edgesOf par (f.takeRoots is).1 ++ Store.edgesOf par (f.takeRoots is).2)
  | .nil => by simp [SF.takeRoots]
  | .cons n k s => by
    have ih := edgesOf_takeRoots is par s
    rw [takeRoots_cons']
    split
    · simp only [edgesOf_cons, List.cons_append, List.append_assoc]
      exact (ih.append_left _).cons _
    · simp only [edgesOf_cons]
      refine (List.Perm.cons _ ?_).trans List.perm_middle.symm
      exact (ih.append_left _).trans (List.perm_append_comm_assoc _ _ _)

/-- the edges below the top level: they do not depend on where the forest hangs -/
def innerEdges : SF → List (Nat × Nat)
  | .nil => []
  | .cons n k s => Store.edgesOf n.idx k ++ innerEdges s

theorem edgesOf_perm_top : ∀ (f : SF) (par : Nat),
    (Store.edgesOf par f).Perm ((topIdxs f).map (fun c => (par, c)) ++ innerEdges f)
  | .nil, _ => by simp [innerEdges]
  | .cons n k s, par => by
    simp only [edgesOf_cons, topIdxs_cons, List.map_cons, List.cons_append, innerEdges]
    exact (((edgesOf_perm_top s par).append_left _).trans (List.perm_append_comm_assoc _ _ _)).cons _

/-- moving a forest from under `p` to under `q` exchanges the top-level edges only -/
theorem edgesOf_swap_top (f : SF) (p q : Nat) :
    (Store.edgesOf p f ++ (topIdxs f).map fun c => (q, c)).Perm
      (Store.edgesOf q f ++ (topIdxs f).map fun c => (p, c)) := by
  refine ((edgesOf_perm_top f p).append_right _).trans (.trans ?_ ((edgesOf_perm_top f q).append_right _).symm)
  simp only [List.append_assoc]
  refine (List.perm_append_comm_assoc _ _ _).trans ?_
  refine List.Perm.trans ?_ (List.perm_append_comm_assoc _ _ _)
  exact (List.perm_append_comm.append_left _)

/-- **counting**: when as many top-level trees were selected as indices were listed, the listed indices
are distinct and are exactly the indices of the selected trees -/
theorem cis_perm_top {f : SF} {cis : List Nat} (hn : f.idxs.Nodup)
    (hlen : (f.takeRoots cis).1.rootRecs.length = cis.length) :
    cis.Nodup ∧ (topIdxs (f.takeRoots cis).1).Perm cis ∧ ∀ c ∈ cis, c ∈ topIdxs f := by
  have hnd : (topIdxs (f.takeRoots cis).1).Nodup := by
    rw [topIdxs_takeRoots]
    exact (hn.sublist (topIdxs_sublist f)).filter _
  have hsub : topIdxs (f.takeRoots cis).1 ⊆ cis := by
    intro c hc
    rw [topIdxs_takeRoots, List.mem_filter] at hc
    simpa using hc.2
  have hp : (topIdxs (f.takeRoots cis).1).Perm cis :=
    (List.subperm_of_subset hnd hsub).perm_of_length_le (by simp [topIdxs, hlen])
  refine ⟨hp.nodup_iff.1 hnd, hp, fun c hc => ?_⟩
  have := hp.symm.subset hc
  rw [topIdxs_takeRoots, List.mem_filter] at this
  exact this.1

/-- **the structural `create_root_node` is what the graph primitives do**: on the graph of a forest with
distinct non-zero indices, `add_node`; `add_edge(root, new)`; per child `remove_edge(root, child)`,
`add_edge(new, child)` succeeds exactly in the situation in which the store model goes on (as many
top-level trees selected as children listed), and the graph it leaves is the graph of the forest with
the new clone on top of the selected trees — node list and edge list up to order. -/
theorem graph_createRootNode {f : SF} {n1 : NodeRec} {cis : List Nat} (hn : f.idxs.Nodup) (h0 : 0 ∉ f.idxs)
    (hnew : n1.idx ∉ f.idxs) (hnew0 : n1.idx ≠ 0)
    (hlen : (f.takeRoots cis).1.rootRecs.length = cis.length) :
    ∃ g', gCreateRootNode (graphOf f) n1.idx cis = some g' ∧
      g'.nodes.Perm (graphOf (.cons n1 (f.takeRoots cis).1 (f.takeRoots cis).2)).nodes ∧
      g'.edges.Perm (graphOf (.cons n1 (f.takeRoots cis).1 (f.takeRoots cis).2)).edges := by
  have _ := h0
  obtain ⟨hnd, hp, htop⟩ := cis_perm_top hn hlen
  have hs : (gCreateRootNode (graphOf f) n1.idx cis).isSome = true := by
    refine gCreateRootNode_isSome ?_ (by simp) hnd fun c hc => ?_
    · simp only [graphOf_nodes, List.mem_cons, not_or]
      exact ⟨hnew0, hnew⟩
    · have hc' := htop c hc
      exact ⟨List.mem_cons_of_mem _ ((topIdxs_sublist f).subset hc'), top_edge_mem hc'⟩
  obtain ⟨g', hg⟩ := Option.isSome_iff_exists.1 hs
  obtain ⟨_, hnodes, hedges, _⟩ := gCreateRootNode_spec hg
  refine ⟨g', hg, ?_, ?_⟩
  · rw [hnodes]
    simp only [graphOf_nodes, idxs_cons, List.cons_append]
    refine List.Perm.cons 0 ?_
    refine List.perm_append_singleton _ _ |>.trans (List.Perm.cons _ ?_)
    have := (takeRoots_perm cis f).map (·.idx)
    simpa [SF.idxs] using this.symm
  · simp only [graphOf_edges, edgesOf_cons] at hedges ⊢
    refine (List.perm_append_right_iff (cis.map fun c => (0, c))).1 (hedges.trans ?_)
    refine List.perm_middle.trans ?_
    simp only [List.cons_append]
    refine List.Perm.cons _ ?_
    -- `edgesOf 0 f ++ new→kids ~ (edgesOf new tr.1 ++ edgesOf 0 tr.2) ++ root→kids`
    have hq : ∀ q : Nat, (cis.map fun c => (q, c)).Perm ((topIdxs (f.takeRoots cis).1).map fun c => (q, c)) :=
      fun q => (hp.map _).symm
    refine (((edgesOf_takeRoots cis 0 f).append (hq n1.idx))).trans ?_
    refine List.Perm.trans ?_ ((List.Perm.refl _).append (hq 0).symm)
    -- `(A0 ++ B) ++ Tn ~ (An ++ B) ++ T0`
    refine ((List.perm_append_comm.append_right _).trans ?_)
    refine List.Perm.trans ?_ (List.perm_append_comm.append_right _)
    simp only [List.append_assoc]
    exact (edgesOf_swap_top _ 0 n1.idx).append_left _

/-! ### non-vacuity: four clones, a new clone on top of two of the three top-level trees -/

private def mk (i : Nat) (nm : Int) : NodeRec := { idx := i, name := nm, dps := [], p := [], r := [] }

/-- top-level clones 1, 3, 4; clone 2 below clone 1 -/
private def exF : SF := .cons (mk 1 0) (.cons (mk 2 1) .nil .nil) (.cons (mk 3 2) .nil (.cons (mk 4 3) .nil .nil))

example : exF.idxs.Nodup ∧ 0 ∉ exF.idxs ∧ (mk 5 4).idx ∉ exF.idxs ∧ (mk 5 4).idx ≠ 0 ∧
    (exF.takeRoots [4, 1]).1.rootRecs.length = [4, 1].length ∧
    graphOf exF = ⟨[0, 1, 2, 3, 4], [(0, 1), (1, 2), (0, 3), (0, 4)]⟩ ∧
    gCreateRootNode (graphOf exF) 5 [4, 1] =
      some ⟨[0, 1, 2, 3, 4, 5], [(1, 2), (0, 3), (0, 5), (5, 4), (5, 1)]⟩ ∧
    graphOf (.cons (mk 5 4) (exF.takeRoots [4, 1]).1 (exF.takeRoots [4, 1]).2) =
      ⟨[0, 5, 1, 2, 4, 3], [(0, 5), (5, 1), (1, 2), (5, 4), (0, 3)]⟩ ∧
    -- a child that is not a top-level clone, or one listed twice: the store model stops, and so does the graph
    (exF.takeRoots [2]).1.rootRecs.length ≠ [2].length ∧ gCreateRootNode (graphOf exF) 5 [2] = none ∧
    (exF.takeRoots [3, 3]).1.rootRecs.length ≠ [3, 3].length ∧ gCreateRootNode (graphOf exF) 5 [3, 3] = none := by
  decide +kernel

end PhyModel.Graph
