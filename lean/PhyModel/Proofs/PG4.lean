import PhyModel.Proofs.PG3
import PhyModel.Proofs.ASMC6
/-! # C01 instance, part 4: PhyClone's conditional SMC along a fixed order satisfies
`ASMC.ValidTo … σ.length`, hence leaves the last-level target `pOne · pdf` invariant. -/

namespace PhyModel.PG
open Orders Orders.Forest Proposal PGSpec Finset BigOperators

variable {dt : Data} {c : Cfg} {σ : List ℕ} {L : List T} {κ : ℚ}

/-- summing the table probabilities over a finite type of trees containing every listed tree gives
the total mass of the table -/
theorem sum_tprob (tab : List (T × ℚ)) (hk : ∀ tq ∈ tab, tq.1 ∈ L) :
    ∑ x : St L, tprob tab x.1 = lsum tab (fun tq => tq.2) := by
  induction tab with
  | nil => simp [tprob, lsum]
  | cons a tab ih =>
    have hstep : ∀ x : St L, tprob (a :: tab) x.1 = (if (⟨a.1, hk a List.mem_cons_self⟩ : St L) = x then a.2 else 0)
        + tprob tab x.1 := by
      intro x
      unfold tprob
      rw [lsum_cons]
      congr 1
      by_cases hx : a.1 = x.1
      · rw [if_pos hx, if_pos (Subtype.ext hx)]
      · rw [if_neg hx, if_neg (fun h => hx (congrArg Subtype.val h))]
    simp only [hstep]
    rw [Finset.sum_add_distrib, ih (fun tq htq => hk tq (List.mem_cons_of_mem _ htq)), lsum_cons]
    congr 1
    rw [Finset.sum_ite_eq]
    simp

theorem level_mem_L (hL : ∀ x ∈ states c σ, x ∈ L) {t : ℕ} {x : T} (hx : x ∈ level c σ t) : x ∈ L :=
  hL x (mem_states.mpr ⟨t, (level_inv c σ t x hx).le, hx⟩)

theorem spec_parent_child (h : Hyp dt c σ) (hL : ∀ x ∈ states c σ, x ∈ L) (θ : ℚ) (m : ℕ)
    {t : ℕ} {x x' : St L} (hx : x.1 ∈ level c σ t) {i : ℕ} (hi : σ[t]? = some i)
    (hc : x'.1 ∈ children c x.1 i) : (spec dt c σ κ L hL θ m).parent x' = x := by
  have hp := parentT_child h hx hi hc
  show (if h : parentT σ x'.1 ∈ L then (⟨_, h⟩ : St L) else x') = x
  have hm : parentT σ x'.1 ∈ L := by rw [hp]; exact x.2
  rw [dif_pos hm]
  exact Subtype.ext hp

/-- **Stage 1.**  The PhyClone instance satisfies the hypotheses of the abstract conditional-SMC
theorem up to the horizon `σ.length`. -/
theorem spec_valid (h : Hyp dt c σ) (hκ : 0 < κ) (hL : ∀ x ∈ states c σ, x ∈ L) (θ : ℚ) (m : ℕ) :
    ASMC.ValidTo (spec dt c σ κ L hL θ m) σ.length where
  g0 := by
    intro x
    show gT dt c σ κ 0 x.1 = _
    unfold gT
    simp only [level, List.mem_singleton, if_true]
    by_cases hx : x.1 = T.empty
    · rw [if_pos hx, if_pos (Subtype.ext hx)]
    · rw [if_neg hx, if_neg (fun h' => hx (congrArg Subtype.val h'))]
  gnn := fun t x => gT_nonneg h hκ t x.1
  qnn := fun t x x' => qT_nonneg h t x.1 x'.1
  qsum := by
    intro t x ht hg
    have hx := mem_of_gT_pos hg
    have hi : σ[t]? = some σ[t] := List.getElem?_eq_getElem ht
    show ∑ x' : St L, qT dt c σ t x.1 x'.1 = 1
    unfold qT
    simp only [if_pos hx, hi]
    rw [sum_tprob]
    · exact table_sum_one_proof dt c _ x.1 _ (level_first hx) (fun _ => level_placements_pos h hx hi)
    · intro tq htq
      have := (table_entry dt c _ x.1 _ h.op0 h.op1 (level_placements_pos h hx hi) tq htq).2
      exact level_mem_L hL (child_mem_level hx hi this)
  qparent := by
    intro t x x' _ hq
    obtain ⟨hx, i, hi, hc⟩ := of_qT_pos h hq
    exact spec_parent_child h hL θ m hx hi hc
  qsupp := by
    intro t x x' _ _ hq
    obtain ⟨hx, i, hi, hc⟩ := of_qT_pos h hq
    exact gT_pos h hκ (child_mem_level hx hi hc)
  gsupp := by
    intro t x' _ hg
    have hx' := mem_of_gT_pos hg
    obtain ⟨i, hi, p, hp, hc⟩ := mem_level_succ.mp hx'
    have hpar : (spec dt c σ κ L hL θ m).parent x' = ⟨p, level_mem_L hL hp⟩ :=
      spec_parent_child h hL θ m (x := ⟨p, level_mem_L hL hp⟩) hp hi hc
    rw [hpar]
    exact ⟨gT_pos h hκ hp, qT_pos h hp hi hc⟩
  rssymm := fun t w τ => essRule_symm θ m t w τ

/-- **Conditional SMC along a fixed order leaves `pOne · pdf` on the complete trees reachable along
that order invariant** — any number of particles `m + 1`, any threshold, any `u > 0`. -/
theorem pg_csmc_invariant (h : Hyp dt c σ) (hκ : 0 < κ) (hL : ∀ x ∈ states c σ, x ∈ L) (θ : ℚ) (m : ℕ)
    (u : ℚ) (hu : 0 < u) (y : St L) :
    ∑ x : St L, gT dt c σ κ σ.length x.1 * ASMC.kernel (spec dt c σ κ L hL θ m) u σ.length x y
      = gT dt c σ κ σ.length y.1 :=
  ASMC.csmc_invariant_to (spec_valid h hκ hL θ m) hu y

/-- the same for the kernel with the code's schedule (`ASMC.kernelX`: with a single data point the swarm
is resampled, if the rule fires, before the final draw) -/
theorem pg_csmc_invariant_X (h : Hyp dt c σ) (hκ : 0 < κ) (hL : ∀ x ∈ states c σ, x ∈ L) (θ : ℚ) (m : ℕ)
    (u : ℚ) (hu : 0 < u) (y : St L) :
    ∑ x : St L, gT dt c σ κ σ.length x.1 * ASMC.kernelX (spec dt c σ κ L hL θ m) u σ.length x y
      = gT dt c σ κ σ.length y.1 :=
  ASMC.csmc_invariant_X (spec_valid h hκ hL θ m) hu y

/-- the abstract incremental weight is the model's `incrWeight` (with the table probability as `q`),
times `κ` at the first step -/
theorem incr_eq_incrWeight (h : Hyp dt c σ) (hκ : 0 < κ) (hL : ∀ x ∈ states c σ, x ∈ L) (θ : ℚ) (m : ℕ)
    {t : ℕ} {x x' : St L} (hx : x.1 ∈ level c σ t) {i : ℕ} (hi : σ[t]? = some i)
    (hc : x'.1 ∈ children c x.1 i) :
    ASMC.incr (spec dt c σ κ L hL θ m) t x x'
      = (if t = 0 then κ else 1) *
        incrWeight dt c (t == 0) (t + 1 == σ.length) x.1 x'.1 (tprob (table dt c (t == 0) x.1 i) x'.1) := by
  have hx' := child_mem_level hx hi hc
  have hM' := ne_of_gt (level_pMarg_pos h hx')
  show gT dt c σ κ (t+1) x'.1 / (gT dt c σ κ t x.1 * qT dt c σ t x.1 x'.1) = _
  have hq : qT dt c σ t x.1 x'.1 = tprob (table dt c (t == 0) x.1 i) x'.1 := by
    unfold qT; rw [if_pos hx]; simp only [hi]
  rw [hq]
  have hlt : t < σ.length := (List.getElem?_eq_some_iff.mp hi).1
  have hne : t ≠ σ.length := ne_of_lt hlt
  have hM := ne_of_gt (level_pMarg_pos h hx)
  have hpdf := ne_of_gt (pdfOf_pos c x.1)
  unfold gT incrWeight
  rw [if_pos hx, if_pos hx', if_neg (Nat.succ_ne_zero t), if_neg hne]
  by_cases ht : t = 0
  · subst ht
    by_cases hl : 0 + 1 = σ.length
    · simp [hl]; field_simp
    · simp [hl]; ring
  · have hκ0 := ne_of_gt hκ
    by_cases hl : t + 1 = σ.length
    · simp [ht, hl]; field_simp
    · simp [ht, hl]; field_simp

#print axioms pg_csmc_invariant
end PhyModel.PG
