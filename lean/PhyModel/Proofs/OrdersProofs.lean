import PhyModel.Model.Orders
import Mathlib.Data.Nat.Choose.Basic
import Mathlib.Data.Nat.Factorial.Basic
import Mathlib.Data.Nat.Choose.Cast
import Mathlib.Algebra.Order.Field.Rat
import Mathlib.Algebra.BigOperators.Group.List.Basic
import Mathlib.Tactic.Ring
import Mathlib.Tactic.Linarith
import Mathlib.Tactic.FieldSimp

namespace PhyModel.Orders

theorem length_flatMap_const {α β : Type} (L : List α) (g : α → List β) (c : ℕ)
    (h : ∀ a ∈ L, (g a).length = c) : (L.flatMap g).length = L.length * c := by
  induction L with
  | nil => simp
  | cons a L ih =>
    rw [List.flatMap_cons, List.length_append, h a (by simp), ih (fun b hb => h b (by simp [hb]))]
    simp [Nat.succ_mul]; ring

theorem length_inter : ∀ (xs ys : List ℕ),
    (inter xs ys).length = Nat.choose (xs.length + ys.length) xs.length := by
  intro xs
  induction xs with
  | nil => intro ys; simp [inter]
  | cons x xs ihx =>
    intro ys
    induction ys with
    | nil => simp [inter]
    | cons y ys ihy =>
      simp only [inter, List.length_append, List.length_map]
      rw [ihx (y :: ys), ihy]
      simp only [List.length_cons]
      have : xs.length + 1 + (ys.length + 1) = (xs.length + ys.length + 1) + 1 := by omega
      rw [this, Nat.choose_succ_succ']
      have h1 : xs.length + (ys.length + 1) = xs.length + ys.length + 1 := by omega
      have h2 : xs.length + 1 + ys.length = xs.length + ys.length + 1 := by omega
      rw [h1, h2]

theorem length_of_mem_inter : ∀ (xs ys l : List ℕ), l ∈ inter xs ys → l.length = xs.length + ys.length := by
  intro xs
  induction xs with
  | nil => intro ys l h; simp [inter] at h; simp [h]
  | cons x xs ihx =>
    intro ys
    induction ys with
    | nil => intro l h; simp [inter] at h; simp [h]
    | cons y ys ihy =>
      intro l h
      simp only [inter, List.mem_append, List.mem_map] at h
      rcases h with ⟨l', hl', rfl⟩ | ⟨l', hl', rfl⟩
      · have := ihx (y :: ys) l' hl'
        simp only [List.length_cons] at this ⊢; omega
      · have := ihy l' hl'
        simp only [List.length_cons] at this ⊢; omega

theorem length_insertAll (a : ℕ) (l : List ℕ) : (insertAll a l).length = l.length + 1 := by
  induction l with
  | nil => simp [insertAll]
  | cons b l ih => simp [insertAll, ih]

theorem length_of_mem_insertAll (a : ℕ) (l l' : List ℕ) (h : l' ∈ insertAll a l) :
    l'.length = l.length + 1 := by
  induction l generalizing l' with
  | nil => simp [insertAll] at h; simp [h]
  | cons b l ih =>
    simp only [insertAll, List.mem_cons, List.mem_map] at h
    rcases h with rfl | ⟨l'', hl'', rfl⟩
    · simp
    · simp [ih l'' hl'']

theorem length_of_mem_perms (l l' : List ℕ) (h : l' ∈ perms l) : l'.length = l.length := by
  induction l generalizing l' with
  | nil => simp [perms] at h; simp [h]
  | cons a l ih =>
    simp only [perms, List.mem_flatMap] at h
    obtain ⟨p, hp, hl'⟩ := h
    rw [length_of_mem_insertAll a p l' hl', ih p hp]; simp

theorem length_perms (l : List ℕ) : (perms l).length = l.length.factorial := by
  induction l with
  | nil => simp [perms]
  | cons a l ih =>
    simp only [perms]
    rw [length_flatMap_const _ _ (l.length + 1)]
    · rw [ih]; simp [Nat.factorial_succ]; ring
    · intro p hp
      rw [length_insertAll, length_of_mem_perms l p hp]

theorem Forest.size_cons (d : List ℕ) (k s : Forest) :
    (Forest.cons d k s).size = k.size + d.length + s.size := by
  simp [Forest.size, Forest.all]; omega

theorem length_of_mem_orders : ∀ (f : Forest) (o : List ℕ), o ∈ orders f → o.length = f.size := by
  intro f
  induction f with
  | nil => intro o h; simp [orders] at h; simp [h, Forest.size, Forest.all]
  | cons d k s ihk ihs =>
    intro o h
    simp only [orders, List.mem_flatMap] at h
    obtain ⟨ok, hok, pd, hpd, os, hos, ho⟩ := h
    rw [length_of_mem_inter _ _ _ ho, List.length_append, ihk ok hok, ihs os hos,
      length_of_mem_perms d pd hpd, Forest.size_cons]

/-- the number of compatible orders in closed (binomial-product) form -/
def countF : Forest → ℕ
  | .nil => 1
  | .cons d k s =>
    countF k * (d.length.factorial * (countF s *
      Nat.choose (k.size + d.length + s.size) (k.size + d.length)))

theorem length_orders : ∀ f : Forest, (orders f).length = countF f := by
  intro f
  induction f with
  | nil => simp [orders, countF]
  | cons d k s ihk ihs =>
    simp only [orders, countF]
    rw [length_flatMap_const _ _
      (d.length.factorial * (countF s * Nat.choose (k.size + d.length + s.size) (k.size + d.length)))]
    · rw [ihk]
    · intro ok hok
      rw [length_flatMap_const _ _
        (countF s * Nat.choose (k.size + d.length + s.size) (k.size + d.length))]
      · rw [length_perms]
      · intro pd hpd
        rw [length_flatMap_const _ _ (Nat.choose (k.size + d.length + s.size) (k.size + d.length))]
        · rw [ihs]
        · intro os hos
          rw [length_inter, List.length_append, length_of_mem_orders k ok hok,
            length_of_mem_orders s os hos, length_of_mem_perms d pd hpd]

theorem length_allOrders (f : Forest) (out : List ℕ) :
    (allOrders f out).length
      = countF f * (out.length.factorial * Nat.choose (f.size + out.length) f.size) := by
  unfold allOrders
  rw [length_flatMap_const _ _ (out.length.factorial * Nat.choose (f.size + out.length) f.size),
    length_orders]
  intro o ho
  rw [length_flatMap_const _ _ (Nat.choose (f.size + out.length) f.size), length_perms]
  intro po hpo
  rw [length_inter, length_of_mem_orders f o ho, length_of_mem_perms out po hpo]

#print axioms length_allOrders
end PhyModel.Orders
