import PhyModel.Proofs.StoreCache_Path
/-! C06, `Tree.add_data_point_to_node`: the clone's own `p` and `r` are multiplied in place (its own
equation stays true because both sides are multiplied), its ancestors are recomputed from the
parent up. -/
namespace PhyModel.Store.C06
open PhyModel

theorem recAt_some {s : Store} {i : Nat} {n : NodeRec} (h : s.recAt i = some n) :
    ∃ k, s.forest.findSub i = some (n, k) := by
  unfold Store.recAt at h
  cases hf : s.forest.findSub i with
  | none => rw [hf] at h; cases h
  | some x => rw [hf] at h; cases h; exact ⟨x.2, rfl⟩

theorem getParent_some {s : Store} {name : Int} {par : Option Int}
    (h : s.getParent name = some par) :
    ∃ i q, s.nodeIdx.lookup name = some i ∧ SF.parentIn i none s.forest = some q ∧
      par = q.map (·.name) := by
  unfold Store.getParent at h
  simp only [Option.bind_eq_bind, Option.bind_eq_some_iff, Option.pure_def] at h
  obtain ⟨i, hi, q, hq, h⟩ := h
  cases h
  exact ⟨i, q, hi, hq, rfl⟩

/-- the equations at a located node -/
theorem findSub_local (dt : Data) (i : Nat) : ∀ (f : SF) (n : NodeRec) (k : SF), POK dt f → ROK dt f →
    f.findSub i = some (n, k) →
    n.p = (List.range dt.S).map (fun sm => nodeP dt sm n.dps) ∧ n.r = recompR dt n k
  | .nil, _, _, _, _, hf => by simp [SF.findSub] at hf
  | .cons m km sm, n, k, hp, hr, hf => by
    rw [findSub_cons] at hf
    rw [ROK_cons] at hr
    by_cases e : m.idx = i
    · rw [if_pos e] at hf; cases hf; exact ⟨hp.1, hr.1⟩
    · rw [if_neg e] at hf
      cases hfk : SF.findSub i km with
      | none => rw [hfk] at hf; exact findSub_local dt i sm n k hp.2.2 hr.2.2 hf
      | some x => rw [hfk] at hf; cases hf; exact findSub_local dt i km n k hp.2.1 hr.2.1 hfk

/-- the forest after the in-place multiplication at node `i` -/
theorem addDp_forest (dt : Data) (f : SF) (i : Nat) (n : NodeRec) (k : SF) (n' : NodeRec)
    (dps : List Nat) (hnd : f.idxs.Nodup) (hc : CacheOKsf dt f) (hf : f.findSub i = some (n, k))
    (hn' : recAdd dt n dps = some n') :
    (Store.setRec i (fun _ => n') f).idxs.Nodup ∧ POK dt (Store.setRec i (fun _ => n') f) ∧
    ROKs dt i (Store.setRec i (fun _ => n') f) ∧
    (∀ p ∈ (Store.setRec i (fun _ => n') f).recs, ∃ m ∈ f.recs, m.name = p.name ∧ m.idx = p.idx) := by
  obtain ⟨hp, hr⟩ := (cacheOKsf_iff dt f).1 hc
  obtain ⟨hni, hnr⟩ := findSub_spec i f n k hf
  obtain ⟨h1, h2, _, h4, h5⟩ := recAdd_spec dt dps n n' hn'
  have hi' : n'.idx = i := h1.trans hni
  have hloc := findSub_local dt i f n k hp hr hf
  refine ⟨by rw [idxs_setRec_const i n' hi']; exact hnd,
    POK_setRec_const dt i n' (h4 hloc.1) f hp,
    ROKs_setRec_const dt i n' hi' f n k hnd hr hf (h5 k hloc.2),
    recs_setRec_const i n n' f hnr h1 h2⟩

/-- **C06, `add_data_point_to_node`** -/
theorem cacheOK_addDp (dt : Data) (s s' : Store) (dp : Nat) (node : Int) (hw : WFc s)
    (hc : CacheOK dt s) (h : s.addDataPointToNode dt dp node = some s') : CacheOK dt s' := by
  unfold Store.addDataPointToNode at h
  split at h
  · cases h
  · simp only [Option.bind_eq_bind, Option.pure_def] at h
    split at h
    · cases h; exact hc
    · simp only [Option.bind_eq_some_iff] at h
      obtain ⟨i, hi, n, hn, n', hn', par, hpar, hup⟩ := h
      obtain ⟨k, hf⟩ := recAt_some hn
      obtain ⟨hnd2, hp2, hs2, hrecs⟩ := addDp_forest dt s.forest i n k n' [dp] hw.idxs_nodup hc.1 hf hn'
      obtain ⟨i2, q, hi2, hq, rfl⟩ := getParent_some hpar
      have : i2 = i := Option.some.inj (hi2.symm.trans hi)
      subst this
      rcases ROKs_parent dt i2 _ none q hnd2 hs2 hq with ⟨rfl, hrok⟩ | ⟨p, rfl, hpm, hpx⟩
      · exact cacheOK_updatePath_none dt _ s' ((cacheOKsf_iff dt _).2 ⟨hp2, hrok⟩) hup
      · refine cacheOK_updatePath_some dt _ s' p.name hnd2 hp2 ?_ hup
        intro j hj
        obtain ⟨m, hm, hm1, hm2⟩ := hrecs p hpm
        have : j = m.idx := hw.lookup_idx m hm j (by rw [hm1]; exact hj)
        rw [this, hm2]
        exact hpx

end PhyModel.Store.C06
