import PhyModel.Proofs.StoreInv
import PhyModel.Proofs.DictRT
/-! C15: the shared store invariants of C06/C07 (`Proofs/StoreInv.lean`: `WF`, `Full`, `CacheOK`)
together with the payload-order normalisation `Aligned` imply the hypothesis `WFd` of the
dictionary round trip. -/
namespace PhyModel.Store
open SF Store

theorem lookup_of_mem_nodup {κ ν} [BEq κ] [LawfulBEq κ] : ∀ (l : List (κ × ν)) (k : κ) (v : ν),
    (k, v) ∈ l → (l.map (·.1)).Nodup → l.lookup k = some v := by
  intro l
  induction l with
  | nil => intro k v h _; cases h
  | cons a l ih =>
    intro k v h hnd
    obtain ⟨a1, a2⟩ := a
    simp only [List.map_cons, List.nodup_cons] at hnd
    rcases List.mem_cons.1 h with h | h
    · cases h; simp [List.lookup]
    · have hne : ¬ k = a1 := by
        intro e
        apply hnd.1
        rw [← e]
        exact List.mem_map.2 ⟨(k, v), h, rfl⟩
      have : (k == a1) = false := by simpa using hne
      simp only [List.lookup, this]
      exact ih k v h hnd.2

theorem nodup_of_mem_flatMap {α β} (f : α → List β) : ∀ (l : List α) (a : α),
    a ∈ l → (l.flatMap f).Nodup → (f a).Nodup := by
  intro l
  induction l with
  | nil => intro a h _; cases h
  | cons x l ih =>
    intro a h hnd
    simp only [List.flatMap_cons] at hnd
    have := List.nodup_append.1 hnd
    rcases List.mem_cons.1 h with h | h
    · rw [h]; exact this.1
    · exact ih a h this.2.1

theorem cacheOKsf_of_prop (dt : Data) : ∀ f : SF, CacheOKsf dt f → cacheOKsf dt f = true := by
  intro f
  induction f with
  | nil => intro _; rfl
  | cons n k s ihk ihs =>
    intro h
    obtain ⟨h1, h2, h3, h4⟩ := h
    simp only [cacheOKsf, vecsEq, Bool.and_eq_true, beq_iff_eq]
    exact ⟨⟨⟨h1, h2⟩, ihk h3⟩, ihs h4⟩

/-- the invariants a reachable store satisfies give the hypothesis of the round-trip theorem -/
theorem wfd_of_shared (dt : Data) (s : Store) (hw : WF s) (hf : Full s) (hc : CacheOK dt s) (ha : Aligned s) :
    WFd dt s := by
  have hdata : ∀ n ∈ s.forest.recs, s.data.lookup n.name = some n.dps ∧ n.dps.Nodup := by
    intro n hn
    obtain ⟨e, he, hname⟩ := List.mem_map.1 (hf n hn)
    obtain ⟨e1, e2⟩ := e
    simp only at hname
    subst hname
    have hl := lookup_of_mem_nodup s.data n.name e2 he hw.data_keys
    have hd : s.dataOf n.name = e2 := by simp [Store.dataOf, hl]
    have : n.dps = e2 := by rw [ha n hn, hd]
    rw [this]
    exact ⟨hl, nodup_of_mem_flatMap (·.2) s.data (n.name, e2) he hw.data_nodup⟩
  refine ⟨hw.idxs_nodup, hw.idx_pos, ?_, ?_, fun n hn => (hdata n hn).1, fun n hn => (hdata n hn).2, ?_,
    cacheOKsf_of_prop dt _ hc.1, hc.2⟩
  · intro n hn
    exact lookup_of_mem_nodup _ _ _ ((hw.nodeIdx_iff n.name n.idx).2 ⟨n, hn, rfl, rfl⟩) hw.nodeIdx_keys
  · intro n hn
    exact lookup_of_mem_nodup _ _ _ ((hw.nodeIdxRev_iff n.idx n.name).2 ⟨n, hn, rfl, rfl⟩) hw.nodeIdxRev_keys
  · intro e he
    rcases hw.data_sub e he with h | h
    · exact Or.inl h
    · obtain ⟨n, hn, hname⟩ := List.mem_map.1 h
      exact Or.inr ⟨n, hn, hname⟩

end PhyModel.Store

/-! ### a sufficient executable test for the shared invariants (used for the non-vacuity examples) -/
namespace PhyModel.Store
open SF Store

theorem wf_of_wfShB (s : Store) (h : wfShB s = true) : WF s := by
  simp only [wfShB, Bool.and_eq_true, List.all_eq_true, nodupB_iff, bne_iff_ne, decide_eq_true_eq,
    List.any_eq_true, beq_iff_eq, Bool.or_eq_true, List.contains_iff_mem, List.isPerm_iff] at h
  obtain ⟨⟨⟨⟨⟨⟨⟨⟨⟨⟨⟨⟨⟨h1, h2⟩, h3⟩, h4⟩, h5⟩, h6⟩, h7⟩, h8⟩, h9⟩, h10⟩, h11⟩, h12⟩, h13⟩, h14⟩ := h
  refine ⟨h1, h2, h3, h4, h5, h6, ?_, ?_, h11, ?_, h13, h14⟩
  · intro nm i
    constructor
    · intro hm
      obtain ⟨n, hn, e1, e2⟩ := h7 (nm, i) hm
      exact ⟨n, hn, e1, e2⟩
    · rintro ⟨n, hn, rfl, rfl⟩
      exact h8 n hn
  · intro i nm
    constructor
    · intro hm
      obtain ⟨n, hn, e1, e2⟩ := h9 (i, nm) hm
      exact ⟨n, hn, e1, e2⟩
    · rintro ⟨n, hn, rfl, rfl⟩
      exact h10 n hn
  · intro e he
    rcases h12 e he with ho | hm
    · exact Or.inl ho
    · exact Or.inr hm

theorem full_of_fullB (s : Store) (h : fullB s = true) : Full s := by
  intro n hn
  simp only [fullB, List.all_eq_true, alHas, List.any_eq_true, beq_iff_eq] at h
  obtain ⟨e, he, hk⟩ := h n hn
  exact List.mem_map.2 ⟨e, he, hk⟩

theorem aligned_of_alignedB (s : Store) (h : alignedB s = true) : Aligned s := by
  intro n hn
  simp only [alignedB, List.all_eq_true, beq_iff_eq] at h
  exact h n hn

theorem cacheOKsf_to_prop (dt : Data) : ∀ f : SF, cacheOKsf dt f = true → CacheOKsf dt f := by
  intro f
  induction f with
  | nil => intro _; trivial
  | cons n k s ihk ihs =>
    intro h
    simp only [cacheOKsf, vecsEq, Bool.and_eq_true, beq_iff_eq] at h
    exact ⟨h.1.1.1, h.1.1.2, ihk h.1.2, ihs h.2⟩

theorem cacheOK_of_cacheOKB (dt : Data) (s : Store) (h : cacheOKB dt s = true) : CacheOK dt s := by
  simp only [cacheOKB, Bool.and_eq_true, Bool.or_eq_true, vecsEq, beq_iff_eq] at h
  refine ⟨cacheOKsf_to_prop dt _ h.1, fun hn => ?_⟩
  rcases h.2 with h2 | h2
  · rw [hn] at h2; cases h2
  · exact h2

end PhyModel.Store
