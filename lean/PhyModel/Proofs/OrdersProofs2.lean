import PhyModel.Proofs.OrdersProofs

namespace PhyModel.Orders

theorem fact_eq (n : ℕ) : fact n = n.factorial := by
  induction n with
  | zero => rfl
  | succ n ih => simp [fact, ih, Nat.factorial_succ]

theorem foldl_mul_eq (l : List ℚ) (c : ℚ) : l.foldl (· * ·) c = c * l.prod := by
  induction l generalizing c with
  | nil => simp
  | cons a l ih => simp only [List.foldl_cons, List.prod_cons]; rw [ih]; ring

theorem multinomial_eq (l : List ℕ) :
    multinomial l = (l.sum.factorial : ℚ) / (l.map fun x => (x.factorial : ℚ)).prod := by
  unfold multinomial
  rw [foldl_mul_eq, one_mul, fact_eq]
  congr 2
  apply List.map_congr_left
  intro x _; rw [fact_eq]

theorem prod_fact_ne_zero (l : List ℕ) : (l.map fun x => (x.factorial : ℚ)).prod ≠ 0 := by
  induction l with
  | nil => simp
  | cons a l ih =>
    simp only [List.map_cons, List.prod_cons]
    exact mul_ne_zero (by exact_mod_cast Nat.factorial_ne_zero a) ih

theorem choose_cast (a b : ℕ) :
    ((Nat.choose (a + b) a : ℕ) : ℚ) = ((a + b).factorial : ℚ) / ((a.factorial : ℚ) * (b.factorial : ℚ)) := by
  have h := Nat.add_choose_mul_factorial_mul_factorial a b
  rw [← Nat.choose_symm_add] at h
  have ha : (a.factorial : ℚ) ≠ 0 := by exact_mod_cast Nat.factorial_ne_zero a
  have hb : (b.factorial : ℚ) ≠ 0 := by exact_mod_cast Nat.factorial_ne_zero b
  rw [eq_div_iff (mul_ne_zero ha hb)]
  have : ((Nat.choose (a + b) a * a.factorial * b.factorial : ℕ) : ℚ) = ((a + b).factorial : ℚ) := by
    rw [h]
  push_cast at this
  linarith

theorem multinomial_cons (a : ℕ) (l : List ℕ) :
    multinomial (a :: l) = (Nat.choose (a + l.sum) a : ℚ) * multinomial l := by
  rw [multinomial_eq, multinomial_eq, choose_cast]
  simp only [List.sum_cons, List.map_cons, List.prod_cons]
  have ha : (a.factorial : ℚ) ≠ 0 := by exact_mod_cast Nat.factorial_ne_zero a
  have hs : (l.sum.factorial : ℚ) ≠ 0 := by exact_mod_cast Nat.factorial_ne_zero _
  have hp := prod_fact_ne_zero l
  field_simp

theorem multinomial_nil : multinomial [] = 1 := by
  rw [multinomial_eq]; simp

theorem sum_sizes : ∀ f : Forest, (sizes f).sum = f.size := by
  intro f
  induction f with
  | nil => simp [sizes, Forest.size, Forest.all]
  | cons d k s _ ihs => simp only [sizes, List.sum_cons, ihs, Forest.size_cons]

theorem prodCounts_eq : ∀ f : Forest, prodCounts f * multinomial (sizes f) = (countF f : ℚ) := by
  intro f
  induction f with
  | nil => simp [prodCounts, sizes, multinomial_nil, countF]
  | cons d k s ihk ihs =>
    simp only [prodCounts, sizes, countF]
    rw [multinomial_cons, sum_sizes, fact_eq]
    push_cast
    rw [← ihk, ← ihs]
    have : k.size + d.length + s.size = k.size + d.length + s.size := rfl
    ring

/-- the code's count (probability-domain transcription of `log_count`, with the outlier
permutations) equals the number of enumerated orders -/
theorem countCode_eq_length (f : Forest) (out : List ℕ) :
    countCode f out.length = ((allOrders f out).length : ℚ) := by
  rw [length_allOrders]
  unfold countCode
  rw [prodCounts_eq, fact_eq, fact_eq, fact_eq]
  push_cast
  have hc := choose_cast f.size out.length
  rw [hc]
  have hm : (out.length.factorial : ℚ) ≠ 0 := by exact_mod_cast Nat.factorial_ne_zero _
  have hn : (f.size.factorial : ℚ) ≠ 0 := by exact_mod_cast Nat.factorial_ne_zero _
  field_simp

#print axioms countCode_eq_length
end PhyModel.Orders
