import PhyModel.Model.Emission
import PhyModel.Proofs.LikProofs
import Mathlib.Data.Nat.Choose.Sum
import Mathlib.Data.Nat.Choose.Cast
import Mathlib.Algebra.BigOperators.Field
import Mathlib.Algebra.Order.Field.Rat
import Mathlib.Tactic.Ring
import Mathlib.Tactic.Linarith
import Mathlib.Tactic.FieldSimp
/-! Helper lemmas for C05: the pmf primitives of the emission model (binomial theorem,
Chu–Vandermonde in rising-factorial form). -/

open Finset BigOperators

namespace PhyModel.Emission

theorem fact_eq (n : ℕ) : fact n = n.factorial := by
  induction n with
  | zero => rfl
  | succ n ih => simp [fact, ih, Nat.factorial_succ]

theorem qpow_eq (q : ℚ) (n : ℕ) : qpow q n = q ^ n := by
  induction n with
  | zero => simp [qpow]
  | succ n ih => simp [qpow, ih, pow_succ]

theorem chooseQ_eq {n x : ℕ} (h : x ≤ n) : chooseQ n x = (n.choose x : ℚ) := by
  unfold chooseQ
  rw [fact_eq, fact_eq, fact_eq, Nat.cast_choose ℚ h]

theorem binomLik_eq {n x : ℕ} (h : x ≤ n) (p : ℚ) :
    binomLik n x p = p ^ x * (1 - p) ^ (n - x) := by
  unfold binomLik
  by_cases h0 : p = 0
  · subst h0
    by_cases hx : x = 0
    · subst hx; simp
    · simp [hx]
  · by_cases h1 : p = 1
    · subst h1
      by_cases hx : x = n
      · subst hx; simp
      · have : n - x ≠ 0 := by omega
        simp [hx, this]
    · simp [h0, h1, qpow_eq]

/-- binomial theorem: the binomial pmf sums to one over `x = 0..n`, for every `p` -/
theorem binomPmf_sum (n : ℕ) (p : ℚ) : ∑ x ∈ range (n + 1), binomPmf n x p = 1 := by
  have h : ∀ x ∈ range (n + 1), binomPmf n x p = p ^ x * (1 - p) ^ (n - x) * (n.choose x : ℚ) := by
    intro x hx
    have hx' : x ≤ n := by have := mem_range.mp hx; omega
    unfold binomPmf
    rw [chooseQ_eq hx', binomLik_eq hx']
    ring
  rw [Finset.sum_congr rfl h, ← add_pow]
  simp

theorem rising_succ_left (a : ℚ) (n : ℕ) : rising a (n + 1) = a * rising (a + 1) n := by
  induction n with
  | zero => simp [rising]
  | succ n ih =>
    rw [rising, ih, rising]
    push_cast
    ring

theorem rising_pos {a : ℚ} (ha : 0 < a) (n : ℕ) : 0 < rising a n := by
  induction n with
  | zero => simp [rising]
  | succ n ih =>
    rw [rising]
    have : (0 : ℚ) ≤ (n : ℚ) := Nat.cast_nonneg n
    exact mul_pos ih (by linarith)

/-- Chu–Vandermonde identity for rising factorials -/
theorem rising_add (n : ℕ) : ∀ a b : ℚ,
    ∑ x ∈ range (n + 1), (n.choose x : ℚ) * (rising a x * rising b (n - x)) = rising (a + b) n := by
  induction n with
  | zero => intro a b; simp [rising]
  | succ n ih =>
    intro a b
    rw [Finset.sum_choose_succ_mul (fun i j => rising a i * rising b j) n]
    have h1 : ∀ i ∈ range (n + 1), (n.choose i : ℚ) * (rising a i * rising b (n + 1 - i))
        = b * ((n.choose i : ℚ) * (rising a i * rising (b + 1) (n - i))) := by
      intro i hi
      have hi' : i ≤ n := by have := mem_range.mp hi; omega
      have : n + 1 - i = (n - i) + 1 := by omega
      rw [this, rising_succ_left]
      ring
    have h2 : ∀ i ∈ range (n + 1), (n.choose i : ℚ) * (rising a (i + 1) * rising b (n - i))
        = a * ((n.choose i : ℚ) * (rising (a + 1) i * rising b (n - i))) := by
      intro i _
      rw [rising_succ_left]
      ring
    rw [Finset.sum_congr rfl h1, Finset.sum_congr rfl h2, ← Finset.mul_sum, ← Finset.mul_sum,
      ih a (b + 1), ih (a + 1) b, rising_succ_left (a + b) n]
    have e1 : a + (b + 1) = a + b + 1 := by ring
    have e2 : a + 1 + b = a + b + 1 := by ring
    rw [e1, e2]
    ring

/-- the beta-binomial pmf (Pochhammer form) sums to one over `x = 0..n` -/
theorem betaBinomPmf_sum (n : ℕ) {a b : ℚ} (hab : 0 < a + b) :
    ∑ x ∈ range (n + 1), betaBinomPmf n x a b = 1 := by
  have hne : rising (a + b) n ≠ 0 := ne_of_gt (rising_pos hab n)
  have h : ∀ x ∈ range (n + 1), betaBinomPmf n x a b
      = ((n.choose x : ℚ) * (rising a x * rising b (n - x))) / rising (a + b) n := by
    intro x hx
    have hx' : x ≤ n := by have := mem_range.mp hx; omega
    unfold betaBinomPmf betaBinomLik
    rw [chooseQ_eq hx']
    ring
  rw [Finset.sum_congr rfl h, ← Finset.sum_div, rising_add, div_self hne]

end PhyModel.Emission
