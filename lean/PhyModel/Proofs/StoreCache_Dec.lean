import PhyModel.Proofs.StoreCache_Step
/-! C06, decidable forms of the hypotheses (for the non-vacuity examples): `cacheOKB` decides
`CacheOK`, `wfcB` decides the part `WFc` of well-formedness, `alongB` checks a state predicate along
a concrete run, `dataNZB` decides `DataNZ`. -/
namespace PhyModel.Store.C06
open PhyModel

theorem cacheOKsf_iff_bool (dt : Data) : ∀ f : SF, Store.cacheOKsf dt f = true ↔ CacheOKsf dt f
  | .nil => by simp [Store.cacheOKsf, CacheOKsf]
  | .cons n k s => by
    simp only [Store.cacheOKsf, CacheOKsf, Bool.and_eq_true, Store.vecsEq, beq_iff_eq,
      cacheOKsf_iff_bool dt k, cacheOKsf_iff_bool dt s, and_assoc]

theorem cacheOKB_iff (dt : Data) (s : Store) : s.cacheOKB dt = true ↔ CacheOK dt s := by
  unfold Store.cacheOKB CacheOK
  rw [Bool.and_eq_true, Bool.or_eq_true, cacheOKsf_iff_bool, Store.vecsEq, beq_iff_eq]
  cases s.forest.isNil <;> simp

/-- decides `WFc` -/
def wfcB (s : Store) : Bool :=
  decide (s.forest.idxs.Nodup) && s.forest.recs.all fun n =>
    match s.nodeIdx.lookup n.name with
    | some j => j == n.idx
    | none => true

theorem wfcB_sound (s : Store) (h : wfcB s = true) : WFc s := by
  unfold wfcB at h
  rw [Bool.and_eq_true, decide_eq_true_iff, List.all_eq_true] at h
  refine ⟨h.1, fun n hn j hj => ?_⟩
  have := h.2 n hn
  rw [hj] at this
  exact (beq_iff_eq.1 this)

/-- checks `p` on every state an operation of `ops` is applied to, running from `sys` -/
def alongB (dt : Data) (p : Sys → Bool) : Sys → List Op → Bool
  | _, [] => true
  | sys, op :: ops => p sys && (match step dt sys op with
      | some sys' => alongB dt p sys' ops
      | none => true)

theorem alongB_sound (dt : Data) (p : Sys → Bool) : ∀ (ops : List Op) (sys : Sys),
    alongB dt p sys ops = true → Along dt (fun sy => p sy = true) sys ops
  | [], _, _ => trivial
  | op :: ops, sys, h => by
    simp only [alongB, Bool.and_eq_true] at h
    refine ⟨h.1, fun sys' hs => ?_⟩
    have h2 := h.2
    rw [hs] at h2
    exact alongB_sound dt p ops sys' h2

theorem along_wfc_of_bool (dt : Data) (ops : List Op) (sys : Sys)
    (h : alongB dt (fun sy => sy.all wfcB) sys ops = true) :
    Along dt (fun sy => ∀ s ∈ sy, WFc s) sys ops :=
  Along.mono (fun _ hsy s hs => wfcB_sound s (List.all_eq_true.1 hsy s hs))
    (alongB_sound dt _ ops sys h)

/-- decides `DataNZ` -/
def dataNZB (dt : Data) : Bool :=
  (List.range dt.n).all fun i => (List.range dt.S).all fun s => (List.range dt.G).all fun k =>
    getQ (dt.L i s) k != 0

theorem dataNZB_sound (dt : Data) (h : dataNZB dt = true) : DataNZ dt := by
  intro i s k hi hs hk
  unfold dataNZB at h
  simp only [List.all_eq_true, List.mem_range, bne_iff_ne] at h
  exact h i hi s hs k hk

end PhyModel.Store.C06
