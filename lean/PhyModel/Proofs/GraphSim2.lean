import PhyModel.Proofs.GraphSim1
import PhyModel.Proofs.GraphOfRemove
import PhyModel.Proofs.GraphOfStruct
import PhyModel.Proofs.StoreWF_getSub
import PhyModel.Proofs.StoreCache_rmSub
/-! Simulation of the structural store model by the graph model, part 2: `Tree.remove_subtree` and
`Tree.get_subtree` of the store model are the graph-level operations `gRemoveSubtree` /
`gGetSubtree` on the graph of the forest, up to `GEquiv`.  The renamings handed to the graph model are
association lists (`ren`), as in `GOp`. -/
namespace PhyModel.Graph
open PhyModel PhyModel.Store PhyModel.Store.SF

/-! ### renamings given as association lists -/

@[simp] theorem ren_nil (i : Nat) : ren [] i = i := rfl

theorem lookup_graph (φ : Nat → Nat) : ∀ (l : List Nat) (a : Nat), a ∈ l →
    (l.map fun b => (b, φ b)).lookup a = some (φ a)
  | [], _, h => by simp at h
  | b :: l, a, h => by
    by_cases hab : a = b
    · subst hab; simp
    · have hb : (a == b) = false := by simpa using hab
      have hm : a ∈ l := (List.mem_cons.1 h).resolve_left hab
      simp only [List.map_cons, List.lookup_cons, hb, lookup_graph φ l a hm]

/-- the association list of a function on `l` is that function on `l` -/
theorem ren_alist (φ : Nat → Nat) {l : List Nat} {a : Nat} (h : a ∈ l) :
    ren (l.map fun b => (b, φ b)) a = φ a := by
  simp [ren, lookup_graph φ l a h]

/-- `mapIdx` reads the renaming on the indices of the forest only -/
theorem mapIdx_congr {ρ ρ' : Nat → Nat} : ∀ (f : SF), (∀ a ∈ f.idxs, ρ a = ρ' a) → mapIdx ρ f = mapIdx ρ' f
  | .nil, _ => rfl
  | .cons n k s, h => by
    simp only [idxs_cons, List.mem_cons, List.mem_append] at h
    rw [mapIdx_cons, mapIdx_cons, h _ (.inl rfl), mapIdx_congr k fun a ha => h a (.inr (.inl ha)),
      mapIdx_congr s fun a ha => h a (.inr (.inr ha))]

theorem WF.zero_notMem {s : Store} (h : WF s) : 0 ∉ s.forest.idxs := fun hm => by
  obtain ⟨n, hn, hn0⟩ := mem_idxs.1 hm
  exact h.idx_pos n hn hn0

/-- an index registered in `_node_indices` is the index of a clone -/
theorem WF.lookup_mem_idxs {s : Store} (h : WF s) {nm : Int} {i : Nat} (hl : s.nodeIdx.lookup nm = some i) :
    i ∈ s.forest.idxs := by
  obtain ⟨n, hn, _, hi⟩ := (h.nodeIdx_iff nm i).1 (AL.mem_of_lookup hl)
  exact mem_idxs.2 ⟨n, hn, hi⟩

/-! ### `remove_subtree` -/

/-- **`Tree.remove_subtree` of the store model is `gRemoveSubtree`** (or `self.__init__` when the
subtree is the whole tree): the root `r` of the removed subtree is a clone. -/
theorem graph_store_removeSubtree {dt : Data} {s sub s' : Store} (hwf : WF s)
    (h : s.removeSubtree dt sub = some s') :
    (Store.keyEq sub s = true ∧ graphOf s'.forest = gInit) ∨
      ∃ r g', gRemoveSubtree (graphOf s.forest) r = some g' ∧ r ≠ 0 ∧ GEquiv g' (graphOf s'.forest) := by
  cases he : Store.keyEq sub s with
  | true => exact .inl ⟨rfl, by rw [removeSubtree_eq_init h he]; rfl⟩
  | false =>
    obtain ⟨r, par, i, s1, _, hi, hs1, h⟩ := removeSubtree_unf h he
    have hf : s1.forest = s.forest :=
      C06.foldlM_inv (fun a b : Store => b.forest = a.forest) (fun _ => rfl) (fun _ _ _ h1 h2 => h2.trans h1)
        rmStep (fun a x b hab => by obtain ⟨ci, _, rfl⟩ := rmStep_spec hab; rfl) _ _ _ hs1
    have him : i ∈ s.forest.idxs := WF.lookup_mem_idxs hwf hi
    obtain ⟨g', hg, hn, he'⟩ := graph_removeSub hwf.idxs_nodup (WF.zero_notMem hwf) him
    refine .inr ⟨i, g', hg, fun h0 => WF.zero_notMem hwf (h0 ▸ him), ?_⟩
    rw [graphOf_updatePathToRoot h]
    show GEquiv g' (graphOf (s1.forest.removeSub i))
    rw [hf]
    exact ⟨hn, he'⟩

/-! ### `get_subtree` -/

/-- `get_subtree(root)` is a copy -/
theorem graph_store_getSubtree_root {dt : Data} {s r : Store} (h : s.getSubtree dt none = some r) :
    gCopy (graphOf s.forest) = graphOf r.forest := by
  simp only [Store.getSubtree, Option.some.injEq] at h
  subst h; rfl

/-- **`Tree.get_subtree(clone)` of the store model is `gGetSubtree`**: `subgraph` keeps the indices
(`ren []`), `compose` numbers the copy from 1 in preorder (`m₂`: the association list of `reindexMap`). -/
theorem graph_store_getSubtree {dt : Data} {s r : Store} {name : Int} (hwf : WF s)
    (h : s.getSubtree dt (some name) = some r) :
    ∃ i m₂ g', gGetSubtree (graphOf s.forest) i (ren []) (ren m₂) = some g' ∧ GEquiv g' (graphOf r.forest) := by
  obtain ⟨i, x, _, hx, rfl⟩ := getSubtree_unf h
  have hn := hwf.idxs_nodup
  have h0 := WF.zero_notMem hwf
  obtain ⟨hxi, hsub⟩ := findSub_some hx
  have hidx : (SF.cons x.1 x.2 .nil).idxs = i :: x.2.idxs := by simp [hxi]
  have hnd : (SF.cons x.1 x.2 .nil).idxs.Nodup := by
    have h2 : (SF.cons x.1 x.2 .nil).idxs = (x.1 :: x.2.recs).map (·.idx) := by simp [SF.idxs]
    rw [h2]
    exact (hsub.map _).nodup hn
  let φ := reindexMap (.cons x.1 x.2 .nil) 1
  let m₂ := (i :: x.2.idxs).map fun a => (a, φ a)
  have hren : ∀ a ∈ i :: x.2.idxs, ren m₂ (ren [] a) = φ a := fun a ha => by
    rw [ren_nil]; exact ren_alist φ ha
  obtain ⟨g', hg, hnodes, hedges⟩ := graph_getSubtree (ρ₁ := ren []) (ρ₂ := ren m₂) hn h0 hx
    (fun a ha b hb hab => by
      rw [hren a ha, hren b hb] at hab
      exact reindexMap_inj (hidx ▸ ha) hab)
    (fun a ha hc => by
      rw [hren a ha] at hc
      have hc' : reindexMap (.cons x.1 x.2 .nil) 1 a = 0 := hc
      have := le_reindexMap (.cons x.1 x.2 .nil) 1 a
      omega)
  have hm : mapIdx (fun a => ren m₂ (ren [] a)) (.cons x.1 x.2 .nil) =
      (Store.reindex (.cons x.1 x.2 .nil) 1).1 := by
    rw [reindex_eq_mapIdx 1 hnd]
    exact mapIdx_congr _ fun a ha => hren a (hidx ▸ ha)
  rw [hm] at hnodes hedges
  refine ⟨i, m₂, g', hg, ?_⟩
  show GEquiv g' (graphOf (updAll dt (Store.reindex (.cons x.1 x.2 .nil) 1).1))
  rw [graphOf_updAll]
  exact ⟨hnodes, hedges⟩

/-! ### non-vacuity -/

open C07Ex in
/-- `t2` (clone 1 = index 2 above clone 0 = index 1): `get_subtree(0)` gives `sub`, whose removal gives
`t3`; the graph operations on the graph of `t2` give the graphs of `sub` and `t3` -/
example : WF t2 ∧ t2.getSubtree dt (some 0) ≠ none ∧
    graphOf t2.forest = ⟨[0, 2, 1], [(0, 2), (2, 1)]⟩ ∧
    gGetSubtree (graphOf t2.forest) 1 (ren []) (ren [(1, 1)]) = some (graphOf sub.forest) ∧
    Store.keyEq sub t2 = false ∧ (t2.removeSubtree dt sub).map (fun s => graphOf s.forest) = some (graphOf t3.forest) ∧
    gRemoveSubtree (graphOf t2.forest) 1 = some (graphOf t3.forest) :=
  ⟨(Store.wfB_iff _).1 (by decide +kernel), by decide +kernel⟩

end PhyModel.Graph
