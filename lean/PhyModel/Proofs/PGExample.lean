import PhyModel.Proofs.PG9
import PhyModel.Proofs.C19Example
import Mathlib.Tactic.FinCases
import Mathlib.Tactic.NormNum
/-! Concrete instances for the non-vacuity examples of C01: a three-state abstract specification with a
genuine branching (`ASMC.ValidTo` holds up to the horizon 1), and a PhyClone data set / order on which
the standing hypotheses `PG.Hyp` hold. -/

namespace PhyModel.PG
open Finset BigOperators

/-- a root with two children (target masses 1 and 2, each proposed with probability 1/2), one step,
two particles, never resampling -/
def exSpec : ASMC.Spec (m := 1) (Fin 3) where
  q t x x' := if t = 0 ∧ x = 0 ∧ x' ≠ 0 then 1/2 else 0
  g t x := if t = 0 then (if x = 0 then 1 else 0)
    else if t = 1 then (if x = 1 then 1 else if x = 2 then 2 else 0) else 0
  parent _ := 0
  x0 := 0
  rs _ _ := false

theorem exSpec_valid : ASMC.ValidTo exSpec 1 where
  g0 := by intro x; simp [exSpec]
  gnn := by intro t x; simp only [exSpec]; split_ifs <;> norm_num
  qnn := by intro t x x'; simp only [exSpec]; split_ifs <;> norm_num
  qsum := by
    intro t x ht hg
    have : t = 0 := by omega
    subst this
    have hx : x = 0 := by
      by_contra hx; simp [exSpec, hx] at hg
    subst hx
    simp [exSpec, Fin.sum_univ_succ]
  qparent := by
    intro t x x' ht hq
    have : t = 0 := by omega
    subst this
    by_contra hx
    have : ¬ (x = 0) := fun h => hx (by simp [exSpec, h])
    simp [exSpec, this] at hq
  qsupp := by
    intro t x x' ht _ hq
    have : t = 0 := by omega
    subst this
    fin_cases x' <;> simp [exSpec] at hq ⊢
  gsupp := by
    intro t x' ht hg
    have : t = 0 := by omega
    subst this
    fin_cases x' <;> simp [exSpec] at hg ⊢
  rssymm := by intro t w τ; rfl

/-- the last level of `exSpec` has two states of positive mass: the example branches -/
theorem exSpec_branches : 0 < exSpec.g 1 1 ∧ 0 < exSpec.g 1 2 := by
  constructor <;> simp [exSpec]

/-- two data points on a 2-point grid (the data set of the C19 example), semi-adapted proposal,
outlier proposal probability 1/10, permutation distribution on, order `[1, 0]` -/
def exCfg (k : Proposal.Prop3) : Proposal.Cfg := ⟨k, 1/10, 1, true⟩

theorem exHyp (k : Proposal.Prop3) : Hyp Props.C19.exData (exCfg k) [1, 0] where
  hG := by decide
  hα := by norm_num [exCfg]
  op0 := by norm_num [exCfg]
  op1 := by norm_num [exCfg]
  nodup := by decide
  good := by
    intro i hi
    simp only [List.mem_cons, List.not_mem_nil, or_false] at hi
    rcases hi with rfl | rfl
    · exact Props.C19.exGood1
    · exact Props.C19.exGood0
  big := by
    intro i hi
    simp only [List.mem_cons, List.not_mem_nil, or_false] at hi
    rcases hi with rfl | rfl <;> decide

theorem exHypD (k : Proposal.Prop3) : HypD Props.C19.exData (exCfg k) [0, 1] where
  hG := by decide
  hα := by norm_num [exCfg]
  op0 := by norm_num [exCfg]
  op1 := by norm_num [exCfg]
  nodup := by decide
  good := by
    intro i hi
    simp only [List.mem_cons, List.not_mem_nil, or_false] at hi
    rcases hi with rfl | rfl
    · exact Props.C19.exGood0
    · exact Props.C19.exGood1
  big := by
    intro i hi
    simp only [List.mem_cons, List.not_mem_nil, or_false] at hi
    rcases hi with rfl | rfl <;> decide
  ne := by simp
  perm := rfl

/-- data point 0 in a clone above the clone of data point 1 -/
def exChain : T := T.mk' (.cons [0] (.cons [1] .nil .nil) .nil) []

theorem exChain_wft (k : Proposal.Prop3) : WFT (exCfg k) exChain := by
  refine ⟨by decide +kernel, by decide +kernel, by decide +kernel, by decide +kernel, ?_⟩
  intro h; exact absurd h (by norm_num [exCfg])

end PhyModel.PG
