import PhyModel.Proofs.Positivity
/-! Positivity of the proposal tables and incremental weights (C19 `weights_positive`), given that
every tree obtained by placing the data point is `Good` (see `PlacementIdx` for that). -/
namespace PhyModel
open Orders C19P

theorem numRoots_eq_length : ∀ f : DF, f.numRoots = f.roots.length
  | .nil => rfl
  | .cons _ _ s => by simp [Forest.numRoots, Forest.roots, numRoots_eq_length s]; omega

namespace Dist

theorem categorical_mem {α} (l : List (α × ℚ)) (tq : α × ℚ) (h : tq ∈ categorical l) :
    ∃ aw ∈ l, tq = (aw.1, aw.2 / (l.map (·.2)).foldl (· + ·) 0) := by
  unfold categorical at h
  obtain ⟨aw, haw, rfl⟩ := List.mem_map.1 h
  exact ⟨aw, haw, rfl⟩

theorem categorical_pos {α} (l : List (α × ℚ)) (hl : ∀ aw ∈ l, 0 < aw.2) :
    ∀ tq ∈ categorical l, 0 < tq.2 := by
  intro tq h
  obtain ⟨aw, haw, rfl⟩ := categorical_mem l tq h
  refine div_pos (hl aw haw) (foldl_add_pos _ 0 (le_refl 0) ?_ ?_)
  · intro x hx
    obtain ⟨b, hb, rfl⟩ := List.mem_map.1 hx
    exact hl b hb
  · intro hnil
    have : aw.2 ∈ l.map (·.2) := List.mem_map.2 ⟨aw, haw, rfl⟩
    rw [hnil] at this
    simp at this

theorem scale_mem {α} (c : ℚ) (d : Dist α) (tq : α × ℚ) (h : tq ∈ scale c d) :
    ∃ aq ∈ d, tq = (aq.1, aq.2 * c) := by
  unfold scale at h
  obtain ⟨aq, haq, rfl⟩ := List.mem_map.1 h
  exact ⟨aq, haq, rfl⟩

end Dist

namespace Proposal

theorem binom_pos (n k : ℕ) : 0 < binom n k := by
  unfold binom
  have h1 : (0 : ℚ) < (fact n : ℚ) := by exact_mod_cast fact_pos _
  have h2 : (0 : ℚ) < (fact k : ℚ) := by exact_mod_cast fact_pos _
  have h3 : (0 : ℚ) < (fact (n - k) : ℚ) := by exact_mod_cast fact_pos _
  exact div_pos h1 (mul_pos h2 h3)

theorem pdfOf_pos (c : Cfg) (t : T) : 0 < pdfOf c t := by
  unfold pdfOf
  split
  · exact div_pos one_pos (countCode_pos _ _)
  · exact one_pos

/-- an `existing j` placement exists only when the parent has a top-level clone -/
theorem existing_mem_placements (p : T) (i j : ℕ) (t : T) (h : (Kind.existing j, t) ∈ placements p i) :
    0 < p.f.numRoots := by
  rw [numRoots_eq_length]
  simp only [placements, List.mem_append, List.mem_map, List.mem_range, List.mem_singleton,
    Prod.mk.injEq] at h
  rcases h with (⟨a, ha, _, _⟩ | ⟨x, _, hx, _⟩) | ⟨hx, _⟩
  · omega
  · exact absurd hx (by simp)
  · exact absurd hx (by simp)

/-- the candidates weighted by the marginal density -/
theorem cand_pos (dt : Data) (hG : 0 < dt.G) (c : Cfg) (hα : 0 < c.α) (p : T) (i : ℕ)
    (hall : ∀ kt ∈ placements p i, Good dt kt.2.f kt.2.out) (cand : List (Kind × T))
    (hsub : ∀ kt ∈ cand, kt ∈ placements p i) :
    ∀ aw ∈ cand.map (fun (kt : Kind × T) => (kt.2, pMargT dt c kt.2)), 0 < aw.2 := by
  intro aw h
  obtain ⟨kt, hkt, rfl⟩ := List.mem_map.1 h
  exact Density.pMarg_pos dt hG c.α hα _ _ (hall kt (hsub kt hkt))

/-- every entry of the table comes from a placement, with a positive probability -/
theorem table_pos (dt : Data) (hG : 0 < dt.G) (c : Cfg) (hα : 0 < c.α) (hop0 : 0 ≤ c.op) (hop1 : c.op < 1)
    (first : Bool) (p : T) (i : ℕ) (hall : ∀ kt ∈ placements p i, Good dt kt.2.f kt.2.out) :
    ∀ tq ∈ table dt c first p i, 0 < tq.2 ∧ ∃ kt ∈ placements p i, kt.2 = tq.1 := by
  intro tq h
  have h1op : 0 < 1 - c.op := by linarith
  have hopne : (c.op != 0) = true → 0 < c.op := by
    intro hne
    have : c.op ≠ 0 := by simpa using hne
    exact lt_of_le_of_ne hop0 (Ne.symm this)
  have hnew : ∀ ch, 0 < (1 : ℚ) / 2 / ((p.f.numRoots : ℚ) + 1) / binom p.f.numRoots ch := by
    intro ch
    have : (0 : ℚ) < (p.f.numRoots : ℚ) + 1 := by positivity
    exact div_pos (div_pos (by norm_num) this) (binom_pos _ _)
  unfold table at h
  cases hk : c.kind with
  | bootstrap =>
    simp only [hk] at h
    obtain ⟨⟨k, t⟩, hmem, hsome⟩ := List.mem_filterMap.1 h
    cases k with
    | outlier =>
      simp only at hsome
      split at hsome
      · rename_i hao
        cases hsome
        exact ⟨hopne hao, ⟨_, hmem, rfl⟩⟩
      · cases hsome
    | existing j =>
      simp only [Option.some.injEq] at hsome
      subst hsome
      have hr : (0 : ℚ) < (p.f.numRoots : ℚ) := by exact_mod_cast existing_mem_placements p i j t hmem
      exact ⟨div_pos (div_pos h1op (by norm_num)) hr, ⟨_, hmem, rfl⟩⟩
    | newNode ch =>
      simp only at hsome
      split at hsome
      · cases hsome
        exact ⟨h1op, ⟨_, hmem, rfl⟩⟩
      · cases hsome
        have : (0 : ℚ) < (p.f.numRoots : ℚ) + 1 := by positivity
        exact ⟨div_pos (div_pos (div_pos h1op (by norm_num)) this) (binom_pos _ _), ⟨_, hmem, rfl⟩⟩
  | semi =>
    simp only [hk] at h
    split at h
    · obtain ⟨aw, haw, rfl⟩ := Dist.categorical_mem _ _ h
      have hpos := Dist.categorical_pos _ (cand_pos dt hG c hα p i hall _ (fun kt hkt => (List.mem_filter.1 hkt).1)) _ h
      obtain ⟨kt, hkt, rfl⟩ := List.mem_map.1 haw
      exact ⟨hpos, ⟨kt, (List.mem_filter.1 hkt).1, rfl⟩⟩
    · rcases List.mem_append.1 h with h | h
      · obtain ⟨aq, haq, rfl⟩ := Dist.scale_mem _ _ _ h
        have hpos := Dist.categorical_pos _ (cand_pos dt hG c hα p i hall _ (fun kt hkt => (List.mem_filter.1 hkt).1)) _ haq
        obtain ⟨aw, haw, rfl⟩ := Dist.categorical_mem _ _ haq
        obtain ⟨kt, hkt, rfl⟩ := List.mem_map.1 haw
        exact ⟨mul_pos hpos (by norm_num), ⟨kt, (List.mem_filter.1 hkt).1, rfl⟩⟩
      · obtain ⟨⟨k, t⟩, hmem, hsome⟩ := List.mem_filterMap.1 h
        cases k with
        | newNode ch =>
          simp only [Option.some.injEq] at hsome
          subst hsome
          exact ⟨hnew ch, ⟨_, hmem, rfl⟩⟩
        | existing j => simp at hsome
        | outlier => simp at hsome
  | full =>
    simp only [hk] at h
    have hpos := Dist.categorical_pos _ (cand_pos dt hG c hα p i hall _ (fun kt hkt => (List.mem_filter.1 hkt).1)) _ h
    obtain ⟨aw, haw, rfl⟩ := Dist.categorical_mem _ _ h
    obtain ⟨kt, hkt, rfl⟩ := List.mem_map.1 haw
    exact ⟨hpos, ⟨kt, (List.mem_filter.1 hkt).1, rfl⟩⟩

/-- `create_particle` + `_get_log_w`: the incremental weight is positive (finite log-weight) -/
theorem incrWeight_pos (dt : Data) (hG : 0 < dt.G) (c : Cfg) (hα : 0 < c.α) (first last : Bool) (p t : T) (q : ℚ)
    (hq : 0 < q) (ht : Good dt t.f t.out) (hp : first = false → Good dt p.f p.out) :
    0 < incrWeight dt c first last p t q := by
  have hMt : 0 < pMargT dt c t := Density.pMarg_pos dt hG c.α hα _ _ ht
  have hOt : 0 < pOneT dt c t := Density.pOne_pos dt hG c.α hα _ _ ht
  have hnum : 0 < pMargT dt c t * pdfOf c t := mul_pos hMt (pdfOf_pos c t)
  have hden : 0 < (if first = true then q else pMargT dt c p * pdfOf c p * q) := by
    split
    · exact hq
    · rename_i hf
      have : first = false := by simpa using hf
      exact mul_pos (mul_pos (Density.pMarg_pos dt hG c.α hα _ _ (hp this)) (pdfOf_pos c p)) hq
  unfold incrWeight
  simp only
  split
  · exact mul_pos (div_pos (div_pos hnum hden) hMt) hOt
  · exact div_pos hnum hden

end Proposal
end PhyModel
