import PhyModel.Proofs.PGSub5
/-! # C04, random-subtree move, part 6: `Moves.parentOf` on well-formed forests.

For a clone `(sd, sk)` of a well-formed forest `f` holding the data point `key`:
`parentOf key f = none` exactly when the clone is top-level, and then `f` is the clone put back in front
of the pruned forest (`eqv_cons_removeSub`); `parentOf key f = some g` makes `g` a clone of `f` with
`(sd, sk)` among its children (`parentOf_spec`), and then `f` is the clone re-attached under any data
point of `g` in the pruned forest (`eqv_attachUnder_removeSub`).  These are the facts behind "the current
tree is the full tree of the subtree the move extracts". -/

namespace PhyModel.PG
open Proposal PGSpec Orders Orders.Forest Canon
open PhyModel.Moves (parentOf attachUnder removeSub nodesOf)

theorem anyRoot_iff (key : ℕ) (k : DF) :
    (k.roots.any fun r => r.1.contains key) = true ↔ ∃ r ∈ k.roots, key ∈ r.1 := by
  simp only [List.any_eq_true, List.contains_iff_mem]

theorem parentOf_cons_true {key : ℕ} {d : List ℕ} {k s : DF}
    (h : (k.roots.any fun r => r.1.contains key) = true) : parentOf key (.cons d k s) = some (d, k) := by
  simp only [parentOf, h, if_true]

theorem parentOf_cons_some {key : ℕ} {d : List ℕ} {k s : DF}
    (h : ¬ (k.roots.any fun r => r.1.contains key) = true) {p : List ℕ × DF} (hp : parentOf key k = some p) :
    parentOf key (.cons d k s) = some p := by
  simp only [parentOf, h, Bool.false_eq_true, if_false, hp]

theorem parentOf_cons_none {key : ℕ} {d : List ℕ} {k s : DF}
    (h : ¬ (k.roots.any fun r => r.1.contains key) = true) (hp : parentOf key k = none) :
    parentOf key (.cons d k s) = parentOf key s := by
  simp only [parentOf, h, Bool.false_eq_true, if_false, hp]

theorem parentOf_of_not_mem {key : ℕ} : ∀ {f : DF}, key ∉ f.all → parentOf key f = none := by
  intro f
  induction f with
  | nil => intro _; rfl
  | cons d k s ihk ihs =>
    intro h
    simp only [Forest.all, List.mem_append, not_or] at h
    have hany : ¬ (k.roots.any fun r => r.1.contains key) = true := by
      rw [anyRoot_iff]
      rintro ⟨r, hr, hkr⟩
      exact h.1.1 ((mem_all_iff_roots _ _).mpr ⟨r, hr, Or.inl hkr⟩)
    rw [parentOf_cons_none hany (ihk h.1.1), ihs h.2]

/-- **what `parentOf` returns** -/
theorem parentOf_spec {key : ℕ} {sd : List ℕ} {sk : DF} (hk : key ∈ sd) : ∀ {f : DF}, WF f →
    (sd, sk) ∈ nodesOf f →
    (parentOf key f = none → (sd, sk) ∈ f.roots) ∧
    (∀ g, parentOf key f = some g → g ∈ nodesOf f ∧ (sd, sk) ∈ g.2.roots) := by
  intro f
  induction f with
  | nil => intro _ h; simp [nodesOf] at h
  | cons d k s ihk ihs =>
    intro w hsub
    have hn := w.nodup
    simp only [Forest.all] at hn
    obtain ⟨hkd, _, hdisj2⟩ := List.nodup_append.mp hn
    obtain ⟨_, _, hdisj1⟩ := List.nodup_append.mp hkd
    have hself : (d, k) ∈ nodesOf (Orders.Forest.cons d k s) := mem_nodesOf_cons.mpr (Or.inl rfl)
    by_cases hany : (k.roots.any fun r => r.1.contains key) = true
    · -- a child of this root holds `key`: it is the clone, this root is the parent
      obtain ⟨r, hr, hkr⟩ := (anyRoot_iff key k).mp hany
      have hrn : r ∈ nodesOf (Orders.Forest.cons d k s) := nodesOf_kids_sub (roots_sub_nodes hr)
      have e : (sd, sk) = r := node_unique w hsub hrn hk hkr
      rw [parentOf_cons_true hany]
      refine ⟨fun h => by simp at h, ?_⟩
      intro g hg
      have : g = (d, k) := (Option.some.inj hg).symm
      subst this
      exact ⟨hself, e ▸ hr⟩
    · rcases mem_nodesOf_cons.mp hsub with e | hink | hins
      · -- the clone is this root
        obtain ⟨rfl, rfl⟩ := Prod.mk.inj e
        have hkk : key ∉ sk.all := fun h => hdisj1 key h key hk rfl
        have hks : key ∉ s.all := fun h => hdisj2 key (List.mem_append_right _ hk) key h rfl
        rw [parentOf_cons_none hany (parentOf_of_not_mem hkk), parentOf_of_not_mem hks]
        refine ⟨fun _ => by simp [roots], fun g hg => by simp at hg⟩
      · -- inside the children
        have hkk : key ∈ k.all := node_clade_sub hink key (List.mem_append_right _ hk)
        obtain ⟨h1, h2⟩ := ihk w.kids hink
        cases hp : parentOf key k with
        | none =>
          exact absurd ((anyRoot_iff key k).mpr ⟨(sd, sk), h1 hp, hk⟩) hany
        | some g =>
          rw [parentOf_cons_some hany hp]
          refine ⟨fun h => by simp at h, ?_⟩
          intro g' hg'
          have : g' = g := (Option.some.inj hg').symm
          subst this
          exact ⟨nodesOf_kids_sub (h2 g' hp).1, (h2 g' hp).2⟩
      · -- inside the later siblings
        have hks : key ∈ s.all := node_clade_sub hins key (List.mem_append_right _ hk)
        have hkk : key ∉ k.all := fun h => hdisj2 key (List.mem_append_left _ h) key hks rfl
        obtain ⟨h1, h2⟩ := ihs w.sibs hins
        rw [parentOf_cons_none hany (parentOf_of_not_mem hkk)]
        refine ⟨fun h => ?_, fun g hg => ⟨nodesOf_sibs_sub (h2 g hg).1, (h2 g hg).2⟩⟩
        simp only [roots, List.mem_cons]
        exact Or.inr (h1 h)

/-- a top-level clone put back in front of the pruned forest -/
theorem eqv_cons_removeSub {key : ℕ} {sd : List ℕ} {sk : DF} (hk : key ∈ sd) : ∀ {f : DF}, WF f →
    (sd, sk) ∈ f.roots → Eqv f (.cons sd sk (removeSub key f)) := by
  intro f
  induction f with
  | nil => intro _ h; simp [roots] at h
  | cons d k s _ ihs =>
    intro w hr
    have hn := w.nodup
    simp only [Forest.all] at hn
    obtain ⟨hkd, _, hdisj2⟩ := List.nodup_append.mp hn
    obtain ⟨_, _, hdisj1⟩ := List.nodup_append.mp hkd
    simp only [roots, List.mem_cons] at hr
    by_cases hkd' : key ∈ d
    · have hks : key ∉ s.all := fun h => hdisj2 key (List.mem_append_right _ hkd') key h rfl
      have hself : (d, k) ∈ nodesOf (Orders.Forest.cons d k s) := mem_nodesOf_cons.mpr (Or.inl rfl)
      have hsub : (sd, sk) ∈ nodesOf (Orders.Forest.cons d k s) := by
        rcases hr with e | h
        · rw [e]; exact hself
        · exact nodesOf_sibs_sub (roots_sub_nodes h)
      have e : (sd, sk) = (d, k) := node_unique w hsub hself hk hkd'
      obtain ⟨rfl, rfl⟩ := Prod.mk.inj e
      simp only [removeSub, List.contains_iff_mem.mpr hkd', if_true, removeSub_of_not_mem hks]
      exact Eqv.refl _
    · rcases hr with e | h
      · exact absurd ((Prod.mk.inj e).1 ▸ hk) hkd'
      · have hks : key ∈ s.all := (mem_all_iff_roots _ _).mpr ⟨_, h, Or.inl hk⟩
        have hkk : key ∉ k.all := fun h' => hdisj2 key (List.mem_append_left _ h') key hks rfl
        simp only [removeSub, not_contains_of_not_mem hkd', Bool.false_eq_true, if_false,
          removeSub_of_not_mem hkk]
        exact .trans (.cons (List.Perm.refl _) (Eqv.refl _) (ihs w.sibs h)) (.swap _ _ _ _ _)

/-- a child of the clone `g` re-attached under any data point of `g` in the pruned forest -/
theorem eqv_attachUnder_removeSub {key : ℕ} {sd : List ℕ} {sk : DF} (hk : key ∈ sd)
    {g : List ℕ × DF} (hsg : (sd, sk) ∈ g.2.roots) {a : ℕ} (ha : a ∈ g.1) : ∀ {f : DF}, WF f →
    g ∈ nodesOf f → a ∈ (removeSub key f).all ∧ Eqv f (attachUnder a sd sk (removeSub key f)) := by
  intro f
  induction f with
  | nil => intro _ h; simp [nodesOf] at h
  | cons d k s ihk ihs =>
    intro w hg
    have hn := w.nodup
    simp only [Forest.all] at hn
    obtain ⟨hkd, _, hdisj2⟩ := List.nodup_append.mp hn
    obtain ⟨_, _, hdisj1⟩ := List.nodup_append.mp hkd
    -- `key` lies among the descendants of `g`
    have hkg : key ∈ g.2.all := (mem_all_iff_roots _ _).mpr ⟨_, hsg, Or.inl hk⟩
    rcases mem_nodesOf_cons.mp hg with e | hink | hins
    · -- `g` is this root
      subst e
      have hkd' : key ∉ d := fun h => hdisj1 key hkg key h rfl
      have hks : key ∉ s.all := fun h => hdisj2 key (List.mem_append_left _ hkg) key h rfl
      have has : a ∉ s.all := fun h => hdisj2 a (List.mem_append_right _ ha) a h rfl
      simp only [removeSub, not_contains_of_not_mem hkd', Bool.false_eq_true, if_false,
        removeSub_of_not_mem hks]
      refine ⟨by simp only [Forest.all, List.mem_append]; exact Or.inl (Or.inr ha), ?_⟩
      simp only [attachUnder, List.contains_iff_mem.mpr ha, if_true, attachUnder_of_not_mem sd sk has]
      exact .cons (List.Perm.refl _) (eqv_cons_removeSub hk w.kids hsg) (Eqv.refl _)
    · -- `g` lies among the children
      have hsub := node_clade_sub hink
      have hkk : key ∈ k.all := hsub key (List.mem_append_left _ hkg)
      have hak : a ∈ k.all := hsub a (List.mem_append_right _ ha)
      have hkd' : key ∉ d := fun h => hdisj1 key hkk key h rfl
      have hks : key ∉ s.all := fun h => hdisj2 key (List.mem_append_left _ hkk) key h rfl
      have had : a ∉ d := fun h => hdisj1 a hak a h rfl
      have has : a ∉ s.all := fun h => hdisj2 a (List.mem_append_left _ hak) a h rfl
      obtain ⟨h1, h2⟩ := ihk w.kids hink
      simp only [removeSub, not_contains_of_not_mem hkd', Bool.false_eq_true, if_false,
        removeSub_of_not_mem hks]
      refine ⟨by simp only [Forest.all, List.mem_append]; exact Or.inl (Or.inl h1), ?_⟩
      simp only [attachUnder, not_contains_of_not_mem had, Bool.false_eq_true, if_false,
        attachUnder_of_not_mem sd sk has]
      exact .cons (List.Perm.refl _) h2 (Eqv.refl _)
    · -- `g` lies among the later siblings
      have hsub := node_clade_sub hins
      have hks : key ∈ s.all := hsub key (List.mem_append_left _ hkg)
      have has : a ∈ s.all := hsub a (List.mem_append_right _ ha)
      have hkd' : key ∉ d := fun h => hdisj2 key (List.mem_append_right _ h) key hks rfl
      have hkk : key ∉ k.all := fun h => hdisj2 key (List.mem_append_left _ h) key hks rfl
      have had : a ∉ d := fun h => hdisj2 a (List.mem_append_right _ h) a has rfl
      have hak : a ∉ k.all := fun h => hdisj2 a (List.mem_append_left _ h) a has rfl
      obtain ⟨h1, h2⟩ := ihs w.sibs hins
      simp only [removeSub, not_contains_of_not_mem hkd', Bool.false_eq_true, if_false,
        removeSub_of_not_mem hkk]
      refine ⟨by simp only [Forest.all, List.mem_append]; exact Or.inr h1, ?_⟩
      simp only [attachUnder, not_contains_of_not_mem had, Bool.false_eq_true, if_false,
        attachUnder_of_not_mem sd sk hak]
      exact .cons (List.Perm.refl _) (Eqv.refl _) h2

end PhyModel.PG
