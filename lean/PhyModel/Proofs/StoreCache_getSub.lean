import PhyModel.Proofs.StoreCache_Path
import PhyModel.Proofs.StoreCache_Map
/-! C06, `Tree.get_subtree`: the extracted subtree is renumbered and fully recomputed (`updAll`), so
only the `p`-part of the source is used. -/
namespace PhyModel.Store.C06
open PhyModel

theorem POK_findSub (dt : Data) (i : Nat) : ∀ (f : SF) (n : NodeRec) (k : SF), POK dt f →
    f.findSub i = some (n, k) → POK dt (.cons n k .nil)
  | .nil, _, _, _, hf => by simp [SF.findSub] at hf
  | .cons m km sm, n, k, hp, hf => by
    rw [findSub_cons] at hf
    by_cases e : m.idx = i
    · rw [if_pos e] at hf; cases hf; exact ⟨hp.1, hp.2.1, trivial⟩
    · rw [if_neg e] at hf
      cases hfk : SF.findSub i km with
      | none => rw [hfk] at hf; exact POK_findSub dt i sm n k hp.2.2 hf
      | some x => rw [hfk] at hf; cases hf; exact POK_findSub dt i km n k hp.2.1 hfk

/-- **C06, `get_subtree`** -/
theorem cacheOK_getSub (dt : Data) (s s' : Store) (root : Option Int) (hc : CacheOK dt s)
    (h : s.getSubtree dt root = some s') : CacheOK dt s' := by
  cases root with
  | none =>
    unfold Store.getSubtree at h
    cases h; exact hc
  | some name =>
    unfold Store.getSubtree at h
    simp only [Option.bind_eq_bind, Option.bind_eq_some_iff, Option.pure_def] at h
    obtain ⟨i, _, x, hx, h⟩ := h
    cases h
    have hp := ((cacheOKsf_iff dt _).1 hc.1).1
    have hp1 : POK dt (.cons x.1 x.2 .nil) := POK_findSub dt i s.forest x.1 x.2 hp hx
    have hp2 : POK dt (Store.reindex (.cons x.1 x.2 .nil) 1).1 :=
      (POK_of_er_eq dt (er_reindex _ 1)).2 hp1
    exact ⟨cacheOKsf_updAll dt _ hp2, fun _ => rfl⟩

end PhyModel.Store.C06
