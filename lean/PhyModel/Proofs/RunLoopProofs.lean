import PhyModel.Model.RunLoop
import Mathlib.Algebra.Order.Field.Rat
import Mathlib.Tactic.Linarith
/-! Helper lemmas for C19: the guards of the run-loop skeleton never fire on inputs in range. -/
namespace PhyModel.RunLoop

theorem idx_ok {α} (l : List α) (i : ℕ) (h : i < l.length) : idx l i = .ok l[i] := by
  simp [idx, h, pure, Except.pure]

theorem idx_zero_ok {α} (a : α) (l : List α) : idx (a :: l) 0 = .ok a := by
  simp [idx, pure, Except.pure]

theorem pyMod_ok (a b : ℕ) (h : 1 ≤ b) : pyMod a b = .ok (a % b) := by
  have : b ≠ 0 := by omega
  simp [pyMod, this, pure, Except.pure]

theorem fromPath_ok (T i : ℕ) (h1 : 1 ≤ i) (h2 : i ≤ T) : fromPath T i = .ok ⟨i, 0⟩ := by
  obtain ⟨j, rfl⟩ : ∃ j, i = j + 1 := ⟨i - 1, by omega⟩
  have hj : j < T := by omega
  simp [fromPath, path, idx, hj, bind, Except.bind, pure, Except.pure]

theorem fromPath_fail (T i : ℕ) (h : T < i) : fromPath T i = .error .indexOutOfRange := by
  obtain ⟨j, rfl⟩ : ∃ j, i = j + 1 := ⟨i - 1, by omega⟩
  have hj : ¬ j < T := by omega
  simp [fromPath, path, idx, hj, bind, Except.bind, throw, throwThe, MonadExceptOf.throw]

theorem expand_length (sw : List P) (ms : List ℕ) (h : ms.length = sw.length) :
    (expand sw ms).length = ms.sum := by
  induction sw generalizing ms with
  | nil =>
    cases ms with
    | nil => simp [expand]
    | cons m ms => simp at h
  | cons p ps ih =>
    cases ms with
    | nil => simp at h
    | cons m ms =>
      simp only [List.length_cons, Nat.add_right_cancel_iff] at h
      simp [expand, ih ms h]

theorem initSwarm_ok (N T : ℕ) (hN : 1 ≤ N) (hT : 1 ≤ T) :
    ∃ sw, initSwarm N T = .ok sw ∧ sw.length = N ∧ sw.head? = some ⟨1, 0⟩ := by
  refine ⟨⟨1, 0⟩ :: (List.range (N - 1)).map fun j => ⟨1, j + 1⟩, ?_, ?_, rfl⟩
  · simp [initSwarm, fromPath_ok T 1 (le_refl 1) hT, bind, Except.bind, pure, Except.pure]
  · simp; omega

theorem resampleStep_ok (N : ℕ) (sw : List P) (fire : Bool) (mult : List ℕ) (hN : 1 ≤ N)
    (hl : sw.length = N) (hm : mult.length = N) (hs : mult.sum = N - 1) :
    ∃ sw', resampleStep N sw fire mult = .ok sw' ∧ sw'.length = N ∧ sw'.head? = sw.head? := by
  cases sw with
  | nil => simp at hl; omega
  | cons p ps =>
    cases fire with
    | false => exact ⟨p :: ps, by simp [resampleStep, pure, Except.pure], hl, rfl⟩
    | true =>
      refine ⟨p :: expand (p :: ps) mult, ?_, ?_, rfl⟩
      · have hd : ¬ ((N : ℤ) - 1 < 0) := by omega
        simp [resampleStep, drawsGuard, hd, idx, bind, Except.bind, pure, Except.pure]
      · rw [List.length_cons, expand_length _ _ (by rw [hm, hl]), hs]; omega

theorem updateStep_ok (N T it : ℕ) (sw : List P) (hN : 1 ≤ N) (hl : sw.length = N) (h2 : it + 1 ≤ T) :
    ∃ sw', updateStep T it sw = .ok sw' ∧ sw'.length = N ∧ sw'.head? = some ⟨it + 1, 0⟩ := by
  cases sw with
  | nil => simp at hl; omega
  | cons p ps =>
    refine ⟨⟨it + 1, 0⟩ :: (List.range ((p :: ps).length - 1)).map fun j => ⟨it + 1, j + 1⟩, ?_, ?_, rfl⟩
    · simp [updateStep, fromPath_ok T (it + 1) (by omega) h2, idx, bind, Except.bind, pure, Except.pure]
    · simp at hl ⊢; omega

theorem loop_ok (N T : ℕ) (o : Oracle) (hN : 1 ≤ N)
    (hm : ∀ k, (o.mult k).length = N ∧ (o.mult k).sum = N - 1) :
    ∀ (fuel it : ℕ) (sw : List P), it ≤ T → T - it ≤ fuel → sw.length = N → sw.head? = some ⟨it, 0⟩ →
      ∃ sw', loop N T o fuel it sw = .ok sw' ∧ sw'.length = N ∧ sw'.head? = some ⟨T, 0⟩ := by
  intro fuel
  induction fuel with
  | zero =>
    intro it sw h1 h2 hl hh
    have : it = T := by omega
    subst this
    exact ⟨sw, by simp [loop, pure, Except.pure], hl, hh⟩
  | succ fuel ih =>
    intro it sw h1 h2 hl hh
    by_cases hlt : it < T
    · obtain ⟨sw1, e1, l1, hd1⟩ := updateStep_ok N T it sw hN hl (by omega)
      by_cases hlt2 : it < T - 1
      · obtain ⟨sw2, e2, l2, hd2⟩ := resampleStep_ok N sw1 (o.fire it) (o.mult it) hN l1 (hm it).1 (hm it).2
        obtain ⟨sw3, e3, l3, hd3⟩ := ih (it + 1) sw2 (by omega) (by omega) l2 (by rw [hd2, hd1])
        exact ⟨sw3, by simp [loop, hlt, hlt2, e1, e2, e3, bind, Except.bind], l3, hd3⟩
      · obtain ⟨sw3, e3, l3, hd3⟩ := ih (it + 1) sw1 (by omega) (by omega) l1 hd1
        exact ⟨sw3, by simp [loop, hlt, hlt2, e1, e3, bind, Except.bind, pure, Except.pure], l3, hd3⟩
    · have : it = T := by omega
      subst this
      exact ⟨sw, by simp [loop, pure, Except.pure], hl, hh⟩

theorem csmc_ok (N T : ℕ) (o : Oracle) (hN : 1 ≤ N) (hT : 1 ≤ T)
    (hm : ∀ k, (o.mult k).length = N ∧ (o.mult k).sum = N - 1) :
    ∃ sw, csmc N T o = .ok sw ∧ sw.length = N ∧ sw.head? = some ⟨T, 0⟩ := by
  obtain ⟨sw0, e0, l0, hd0⟩ := initSwarm_ok N T hN hT
  obtain ⟨sw1, e1, l1, hd1⟩ := resampleStep_ok N sw0 (o.fire 0) (o.mult 0) hN l0 (hm 0).1 (hm 0).2
  obtain ⟨sw2, e2, l2, hd2⟩ := loop_ok N T o hN hm T 1 sw1 hT (by omega) l1 (by rw [hd1, hd0])
  exact ⟨sw2, by simp [csmc, e0, e1, e2, bind, Except.bind], l2, hd2⟩

/-! ### subtree node choice -/

theorem choice_ok {α} (l : List α) (u : ℕ) (h : l.length ≠ 0) : ∃ a, choice l u = .ok a ∧ a ∈ l := by
  have hlt : u % l.length < l.length := Nat.mod_lt _ (Nat.pos_of_ne_zero h)
  exact ⟨l[u % l.length], by simp [choice, h, idx_ok l _ hlt], List.getElem_mem _⟩

theorem filterMap_id_nil_iff (labels : List (Option ℕ)) :
    (labels.filterMap id).length = 0 ↔ ∀ l ∈ labels, l = none := by
  induction labels with
  | nil => simp
  | cons a l ih =>
    cases a with
    | none => simp [ih]
    | some n => simp

theorem choice_empty {α} (l : List α) (u : ℕ) (h : l.length = 0) : choice l u = .error .emptyChoice := by
  unfold choice
  rw [if_pos h]
  rfl

theorem subtreeStep_nil (labels : List (Option ℕ)) (u : ℕ) (h : (labels.filterMap id).length = 0) :
    subtreeStep labels u = .ok .fallback := by
  show (if (labels.filterMap id).length = 0 then _ else _) = _
  rw [if_pos h]
  rfl

theorem subtreeStep_node (labels : List (Option ℕ)) (u a : ℕ) (h : (labels.filterMap id).length ≠ 0)
    (ha : choice (labels.filterMap id) u = .ok a) : subtreeStep labels u = .ok (.node a) := by
  show (if (labels.filterMap id).length = 0 then _ else _) = _
  rw [if_neg h, ha]
  rfl

theorem subtreeStepOld_nil (labels : List (Option ℕ)) (u : ℕ) (h : (labels.filterMap id).length = 0) :
    subtreeStepOld labels u = .error .emptyChoice := by
  unfold subtreeStepOld
  rw [choice_empty _ u h]
  rfl

theorem subtreeStepOld_node (labels : List (Option ℕ)) (u a : ℕ)
    (ha : choice (labels.filterMap id) u = .ok a) : subtreeStepOld labels u = .ok (.node a) := by
  unfold subtreeStepOld
  rw [ha]
  rfl

/-! ### weights -/

theorem total_pos (ws : List ℚ) (hne : ws ≠ []) (hp : ∀ w ∈ ws, 0 < w) : 0 < total ws := by
  induction ws with
  | nil => exact absurd rfl hne
  | cons a l ih =>
    have ha : 0 < a := hp a (by simp)
    have hl : 0 ≤ total l := by
      cases l with
      | nil => simp [total]
      | cons b l' => exact le_of_lt (ih (by simp) (fun w hw => hp w (by simp [hw])))
    have : total (a :: l) = a + total l := rfl
    rw [this]; linarith

theorem total_map_div (ws : List ℚ) (s : ℚ) : total (ws.map (· / s)) = total ws / s := by
  induction ws with
  | nil => simp [total]
  | cons a l ih =>
    have h1 : total ((a :: l).map (· / s)) = a / s + total (l.map (· / s)) := rfl
    have h2 : total (a :: l) = a + total l := rfl
    rw [h1, h2, ih, add_div]

/-! ### schedule -/

theorem burninFrom_ok (pf : ℕ) (hpf : 1 ≤ pf) (stop : ℕ → Bool) :
    ∀ fuel i, ∃ b, burninFrom pf stop fuel i = .ok b ∧ i ≤ b ∧ b ≤ i + fuel := by
  intro fuel
  induction fuel with
  | zero => intro i; exact ⟨i, by simp [burninFrom, pure, Except.pure], le_refl _, by omega⟩
  | succ fuel ih =>
    intro i
    by_cases hs : stop i = true
    · exact ⟨i + 1, by simp [burninFrom, pyMod_ok i pf hpf, hs, bind, Except.bind, pure, Except.pure], by omega, by omega⟩
    · obtain ⟨b, e, h1, h2⟩ := ih (i + 1)
      exact ⟨b, by simp [burninFrom, pyMod_ok i pf hpf, hs, e, bind, Except.bind], by omega, by omega⟩

theorem burninFrom_never (pf : ℕ) (hpf : 1 ≤ pf) :
    ∀ fuel i, burninFrom pf (fun _ => false) fuel i = .ok (i + fuel) := by
  intro fuel
  induction fuel with
  | zero => intro i; simp [burninFrom, pure, Except.pure]
  | succ fuel ih =>
    intro i
    simp [burninFrom, pyMod_ok i pf hpf, ih (i + 1), bind, Except.bind]
    omega

/-- invariant of the main loop: the trace only grows, by at most one entry per iteration, and keeps
its first entry -/
theorem mainFrom_ok (thin pf : ℕ) (hth : 1 ≤ thin) (hpf : 1 ≤ pf) (stop : ℕ → Bool) :
    ∀ fuel i (tr : List ℕ), tr ≠ [] →
      ∃ out m, mainFrom thin pf stop fuel i tr = .ok (out, m) ∧ i ≤ m ∧ m ≤ i + fuel ∧
        out.head? = tr.reverse.head? ∧ tr.length ≤ out.length ∧ out.length ≤ tr.length + (m - i) ∧
        (1 ≤ fuel → i % thin = 0 → i < m ∧ tr.length + 1 ≤ out.length) := by
  intro fuel
  induction fuel with
  | zero =>
    intro i tr _
    exact ⟨tr.reverse, i, by simp [mainFrom, pure, Except.pure], le_refl _, by omega, rfl, by simp, by simp, by omega⟩
  | succ fuel ih =>
    intro i tr hne
    have hrev : ∀ (x : ℕ), (x :: tr).reverse.head? = tr.reverse.head? := by
      intro x
      rw [List.reverse_cons]
      cases h : tr.reverse with
      | nil => simp at h; exact absurd h hne
      | cons a l => simp
    by_cases hm : i % thin = 0
    · by_cases hs : stop i = true
      · refine ⟨(i :: tr).reverse, i + 1, ?_, by omega, by omega, hrev i, by simp, by simp, ?_⟩
        · simp [mainFrom, pyMod_ok i pf hpf, pyMod_ok i thin hth, hm, hs, bind, Except.bind, pure, Except.pure]
        · intro _ _; simp
      · obtain ⟨out, m, e, h1, h2, h3, h4, h5, _⟩ := ih (i + 1) (i :: tr) (by simp)
        refine ⟨out, m, ?_, by omega, by omega, by rw [h3, hrev i], ?_, ?_, ?_⟩
        · simp [mainFrom, pyMod_ok i pf hpf, pyMod_ok i thin hth, hm, hs, e, bind, Except.bind]
        · simp at h4; omega
        · simp at h5; omega
        · intro _ _; simp at h4; exact ⟨by omega, by omega⟩
    · by_cases hs : stop i = true
      · refine ⟨tr.reverse, i + 1, ?_, by omega, by omega, rfl, by simp, by simp, ?_⟩
        · simp [mainFrom, pyMod_ok i pf hpf, pyMod_ok i thin hth, hm, hs, bind, Except.bind, pure, Except.pure]
        · intro _ h; exact absurd h hm
      · obtain ⟨out, m, e, h1, h2, h3, h4, h5, _⟩ := ih (i + 1) tr hne
        refine ⟨out, m, ?_, by omega, by omega, h3, h4, by omega, ?_⟩
        · simp [mainFrom, pyMod_ok i pf hpf, pyMod_ok i thin hth, hm, hs, e, bind, Except.bind]
        · intro _ h; exact absurd h hm

/-- without a time limit the main loop records exactly the thinned schedule -/
theorem mainFrom_never (thin pf : ℕ) (hth : 1 ≤ thin) (hpf : 1 ≤ pf) :
    ∀ fuel i (tr : List ℕ),
      mainFrom thin pf (fun _ => false) fuel i tr
        = .ok (tr.reverse ++ ((List.range fuel).map (· + i)).filter (fun j => j % thin = 0), i + fuel) := by
  intro fuel
  induction fuel with
  | zero => intro i tr; simp [mainFrom, pure, Except.pure]
  | succ fuel ih =>
    intro i tr
    have hr : (List.range (fuel + 1)).map (· + i) = i :: (List.range fuel).map (· + (i + 1)) := by
      rw [List.range_succ_eq_map]
      simp [List.map_map, Function.comp_def, Nat.add_comm, Nat.add_left_comm]
    by_cases hm : i % thin = 0
    · simp [mainFrom, pyMod_ok i pf hpf, pyMod_ok i thin hth, hm, ih (i + 1), hr, bind, Except.bind]
      omega
    · simp [mainFrom, pyMod_ok i pf hpf, pyMod_ok i thin hth, hm, ih (i + 1), hr, bind, Except.bind]
      omega

end PhyModel.RunLoop
