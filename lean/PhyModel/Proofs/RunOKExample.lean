import PhyModel.Proofs.RunOK7
import PhyModel.Proofs.C19Example
import PhyModel.Proofs.StoreWF_LegalDec
/-! # C19, run-level composition: a concrete chain satisfying every hypothesis of `run_entries_ok`.

Two data points on a 2-point grid (the data set of `Proofs/C19Example.lean`), semi-adapted proposal,
outlier modelling on, two particles, one data-point move and one prune-regraft move per iteration.
One burn-in iteration and one main iteration:

* start: both data points in one clone (`Tree.get_single_node_tree`);
* burn-in iteration 0: the unconditional SMC sweep returns "0 above 1", the data-point move leaves it,
  prune-regraft moves clone `{1}` to the top level — the store holds two top-level clones;
* main iteration 0: particle Gibbs returns "clone `{0}`, data point 1 an outlier", the auxiliary moves
  leave it.

The stores are built by legal edit histories on a fresh handle, as a particle is. -/

namespace PhyModel.RunOK.Ex
open PhyModel PhyModel.RunOK PhyModel.Store PhyModel.Store.Store PhyModel.TraceLoop
open PhyModel.Props.C19 (exData)

def exP : Params := ⟨exData, ⟨.semi, 1/10, 1, true⟩, 2, 1/2, 1, 1⟩

def x0 : T := ⟨.cons [0, 1] .nil .nil, []⟩
def xA : T := ⟨.cons [0] (.cons [1] .nil .nil) .nil, []⟩
def xC : T := ⟨.cons [0] .nil (.cons [1] .nil .nil), []⟩
def xD : T := ⟨.cons [0] .nil .nil, [1]⟩

def s0 : Store := ((run exData [Store.init exData] [.create 0 [] [0, 1]]).getD []).getD 0 (Store.init exData)
def opsB : List Op := [.fresh, .create 1 [] [0], .create 1 [] [1]]
def opsM : List Op := [.fresh, .create 1 [] [0], .addDp 1 1 (-1)]
/-- the burn-in oracle: two top-level clones, built on a fresh handle -/
def mvB (_ : ℕ) (s : Store) : Store := ((run exData [s] opsB).getD []).getD 1 s
/-- the main-loop oracle: clone `{0}` and the outlier 1, built on a fresh handle -/
def mvM (_ : ℕ) (s : Store) : Store := ((run exData [s] opsM).getD []).getD 1 s

def s1 : Store := (mvB 0 s0).relabelNodes

def exO : Oracles :=
  { moves := mvM, conc := fun _ _ _ => 2, clock := fun i => (i : Rat) + 1, stop := fun _ => false }

theorem listed_iff {α : Type} [DecidableEq α] (d : Dist α) (y : α) : Listed d y ↔ y ∈ d.map (·.1) := by
  unfold Listed
  simp

theorem so0 : Orders.sampleOrder x0.f x0.out = [([0, 1], 1 / 2), ([1, 0], 1 / 2)] := by
  simp [x0, Orders.sampleOrder, Orders.sampleF, Orders.inter, Orders.perms, Orders.insertAll, Dist.bind,
    Dist.uniform, Dist.pure]

theorem soC : Orders.sampleOrder xC.f xC.out = [([0, 1], 1 / 2), ([1, 0], 1 / 2)] := by
  simp [xC, Orders.sampleOrder, Orders.sampleF, Orders.inter, Orders.perms, Orders.insertAll, Dist.bind,
    Dist.uniform, Dist.pure]

theorem abs0 : absT s0 = x0 := by decide +kernel
theorem absB : absT (mvB 0 s0) = xC := by decide +kernel
theorem abs1 : absT s1 = xC := by decide +kernel
theorem absM : absT (mvM 0 s1) = xD := by decide +kernel

set_option maxRecDepth 100000 in
theorem smc_lists : Listed (SMC.smcStep (exP.run 1) x0) xA := by
  rw [listed_iff]
  unfold SMC.smcStep
  rw [so0]
  decide +kernel

set_option maxRecDepth 100000 in
theorem pg_lists : Listed (SMC.pgStep (exP.run 1) xC) xD := by
  rw [listed_iff]
  unfold SMC.pgStep
  rw [soC]
  decide +kernel

set_option maxRecDepth 100000 in
theorem dp_lists : Listed (Moves.dataPointMove (exP.mv 1) xA) xA ∧ Listed (Moves.dataPointMove (exP.mv 1) xD) xD := by
  rw [listed_iff, listed_iff]
  decide +kernel

set_option maxRecDepth 100000 in
theorem pr_lists : Listed (Moves.pruneRegraft (exP.mv 1) xA) xC ∧ Listed (Moves.pruneRegraft (exP.mv 1) xD) xD := by
  rw [listed_iff, listed_iff]
  decide +kernel

/-- burn-in iteration 0 is a sweep of the burn-in model -/
theorem sweepB : SweepOut exP .burnin 1 (absT s0) (absT (mvB 0 s0)) := by
  rw [abs0, absB]
  exact ⟨xA, xA, smc_lists, ⟨xA, rfl, dp_lists.1⟩, ⟨xA, rfl, pr_lists.1⟩⟩

/-- main iteration 0 is a sweep of the main-loop model -/
theorem sweepM : SweepOut exP .main 1 (absT s1) (absT (mvM 0 s1)) := by
  rw [abs1, absM]
  exact ⟨xD, xD, Or.inl pg_lists, ⟨xD, rfl, dp_lists.2⟩, ⟨xD, rfl, pr_lists.2⟩⟩

private theorem some_getD {α} (o : Option α) (d : α) (h : o.isSome = true) : o = some (o.getD d) := by
  cases o with
  | none => cases h
  | some a => rfl

private theorem get_getD {α} (l : List α) (i : ℕ) (d : α) (h : i < l.length) : l[i]? = some (l.getD i d) := by
  simp [List.getD, List.getElem?_eq_getElem h]

theorem legalB : LegalFrom exData s0 (mvB 0 s0) :=
  ⟨opsB, (run exData [s0] opsB).getD [], 1, legalRun_of_B (by decide +kernel), by decide,
    some_getD _ _ (by decide +kernel), get_getD _ 1 s0 (by decide +kernel)⟩

theorem legalM : LegalFrom exData s1 (mvM 0 s1) :=
  ⟨opsM, (run exData [s1] opsM).getD [], 1, legalRun_of_B (by decide +kernel), by decide,
    some_getD _ _ (by decide +kernel), get_getD _ 1 s1 (by decide +kernel)⟩

/-- the start store is built from the empty tree by a legal edit -/
theorem legal0 : LegalFrom exData (Store.init exData) s0 :=
  ⟨[.create 0 [] [0, 1]], (run exData [Store.init exData] [.create 0 [] [0, 1]]).getD [], 0,
    legalRun_of_B (by decide +kernel), by decide, some_getD _ _ (by decide +kernel),
    get_getD _ 0 (Store.init exData) (by decide +kernel)⟩

theorem sinv0 : SInv exData s0 :=
  ⟨wf_of_wfShB s0 (by decide +kernel), full_of_fullB s0 (by decide +kernel),
    cacheOK_of_cacheOKB exData s0 (by decide +kernel), aligned_of_alignedB s0 (by decide +kernel)⟩

theorem holds0 : Holds exP.c (List.range exData.n) (absT s0) := by
  rw [abs0]
  exact single_holds exP.c (D := [0, 1]) (by simp) (by decide) (by decide)

theorem realB : ∀ i, i < 1 → RealisesAt exP .burnin mvB i (burnState mvB i s0) := by
  intro i hi
  have : i = 0 := by omega
  subst this
  exact ⟨legalB, 1, sweepB⟩

theorem realM : ∀ k, k < 1 → RealisesAt exP .main exO.moves k (stateAt exO true ⟨burnState mvB 1 s0, 1⟩ k).tree := by
  intro k hk
  have : k = 0 := by omega
  subst this
  exact ⟨legalM, 1, sweepM⟩

end PhyModel.RunOK.Ex
