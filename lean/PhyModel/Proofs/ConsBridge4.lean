import PhyModel.Proofs.ConsBridge3
/-! Bridge, part 4: `find_smallest_superset` on a laminar family never raises, whatever the order
of the candidates, and returns a smallest strict superset. -/
open Finset

namespace PhyModel.ConsBridge
open PhyModel.Consensus PhyModel.Orders

/-- what the nesting step needs of the majority family -/
structure GoodFamily (m : List Clade) : Prop where
  lam : _root_.Consensus.Laminar (F m)
  ne : ∀ c ∈ m, c.toFinset.Nonempty
  nd : ∀ c ∈ m, c.Nodup
  pw : m.Pairwise fun a b => a.toFinset ≠ b.toFinset

theorem length_eq_card {c : List ℕ} (h : c.Nodup) : c.length = c.toFinset.card :=
  (List.toFinset_card_of_nodup h).symm

theorem mapM_ok {α β : Type} (f : α → Except String β) :
    ∀ l : List α, (∀ a ∈ l, ∃ b, f a = .ok b) → ∃ bs, l.mapM f = .ok bs
  | [], _ => ⟨[], rfl⟩
  | a :: l, h => by
    obtain ⟨b, hb⟩ := h a List.mem_cons_self
    obtain ⟨bs, hbs⟩ := mapM_ok f l (fun x hx => h x (List.mem_cons_of_mem _ hx))
    refine ⟨b :: bs, ?_⟩
    rw [List.mapM_cons, hb, hbs]
    rfl

theorem mapM_spec {α β : Type} (f : α → Except String β) :
    ∀ (l : List α) (bs : List β), l.mapM f = .ok bs → List.Forall₂ (fun a b => f a = .ok b) l bs
  | [], bs, h => by
    have : bs = [] := by
      have h' : (Except.ok [] : Except String (List β)) = .ok bs := h
      injection h' with h'; exact h'.symm
    subst this; exact List.Forall₂.nil
  | a :: l, bs, h => by
    rw [List.mapM_cons] at h
    cases hfa : f a with
    | error e => rw [hfa] at h; cases h
    | ok b =>
      cases hl : l.mapM f with
      | error e => rw [hfa, hl] at h; cases h
      | ok bs' =>
        rw [hfa, hl] at h
        have h' : (Except.ok (b :: bs') : Except String (List β)) = .ok bs := h
        injection h' with h'
        subst h'
        exact List.Forall₂.cons hfa (mapM_spec f l bs' hl)

theorem go_ok {m : List Clade} (hm : GoodFamily m) (q : Clade) (hq : q.toFinset.Nonempty) :
    ∀ (cs : List Clade) (best : Option Clade),
      (∀ c ∈ cs, c ∈ m) → (cs.Pairwise fun a b => a.toFinset ≠ b.toFinset) →
      (∀ b, best = some b → b ∈ m ∧ q.toFinset ⊆ b.toFinset ∧ ∀ c ∈ cs, c.toFinset ≠ b.toFinset) →
      ∃ r, findSmallestGo q cs best = .ok r
  | [], best, _, _, _ => ⟨best, rfl⟩
  | c :: cs, best, hmem, hpw, hb => by
    have hmem' : ∀ c' ∈ cs, c' ∈ m := fun c' h => hmem c' (List.mem_cons_of_mem _ h)
    obtain ⟨hc_rest, hpw'⟩ := List.pairwise_cons.mp hpw
    have hb' : ∀ b, best = some b → b ∈ m ∧ q.toFinset ⊆ b.toFinset ∧ ∀ c' ∈ cs, c'.toFinset ≠ b.toFinset :=
      fun b h => ⟨(hb b h).1, (hb b h).2.1, fun c' hc' => (hb b h).2.2 c' (List.mem_cons_of_mem _ hc')⟩
    have hnew : ∀ b, some c = some b → q.toFinset ⊆ c.toFinset →
        b ∈ m ∧ q.toFinset ⊆ b.toFinset ∧ ∀ c' ∈ cs, c'.toFinset ≠ b.toFinset := by
      intro b h hs
      injection h with h; subst h
      exact ⟨hmem _ List.mem_cons_self, hs, fun c' hc' h' => hc_rest c' hc' h'.symm⟩
    simp only [findSmallestGo]
    by_cases hs : subsetL q c = true
    · have hsub := subsetL_iff.mp hs
      simp only [hs, if_true]
      cases best with
      | none => exact go_ok hm q hq cs (some c) hmem' hpw' (fun b h => hnew b h hsub)
      | some b =>
        obtain ⟨hbm, hqb, hbne⟩ := hb b rfl
        simp only
        by_cases hlen : c.length = b.length
        · exfalso
          have hcm := hmem c List.mem_cons_self
          have hcard : c.toFinset.card = b.toFinset.card := by
            rw [← length_eq_card (hm.nd c hcm), ← length_eq_card (hm.nd b hbm), hlen]
          exact hbne c List.mem_cons_self
            (_root_.Consensus.smallest_superset_unique (F m) hm.lam q.toFinset hq c.toFinset b.toFinset
              (mem_F.mpr ⟨c, hcm, rfl⟩) (mem_F.mpr ⟨b, hbm, rfl⟩) hsub hqb hcard)
        · simp only [hlen, if_false]
          by_cases hlt : c.length < b.length
          · simp only [hlt, if_true]
            exact go_ok hm q hq cs (some c) hmem' hpw' (fun b h => hnew b h hsub)
          · simp only [hlt, if_false]
            exact go_ok hm q hq cs (some b) hmem' hpw' hb'
    · simp only [hs]
      exact go_ok hm q hq cs best hmem' hpw' hb'

theorem mem_discard {q d : Clade} {m : List Clade} :
    d ∈ discard q m ↔ d ∈ m ∧ d.toFinset ≠ q.toFinset := by
  unfold PhyModel.Consensus.discard
  simp only [List.mem_filter, Bool.not_eq_true', and_congr_right_iff]
  intro _
  constructor
  · intro h heq; rw [setEq_iff.mpr heq] at h; cases h
  · intro h
    cases hse : setEq d q with
    | false => rfl
    | true => exact absurd (setEq_iff.mp hse) h

/-- the "Inconsistent set of clades" branch is unreachable on a laminar family -/
theorem findSmallestSuperset_ok {m : List Clade} (hm : GoodFamily m) (c : Clade) (hc : c ∈ m) :
    ∃ r, findSmallestSuperset m c = .ok r :=
  go_ok hm c (hm.ne c hc) (discard c m) none (fun d hd => (mem_discard.mp hd).1)
    (List.Pairwise.filter _ hm.pw) (fun b h => by cases h)

theorem parentTable_ok {m : List Clade} (hm : GoodFamily m) : ∃ tbl, parentTable m = .ok tbl := by
  apply mapM_ok
  intro c hc
  obtain ⟨r, hr⟩ := findSmallestSuperset_ok hm c hc
  exact ⟨(c, r), by simp only [hr]; rfl⟩

end PhyModel.ConsBridge

namespace PhyModel.ConsBridge
open PhyModel.Consensus PhyModel.Orders

/-- a trace inside the property's domain: threshold at least one half, every tree uses a data
point at most once and has no clone without data, weights (if any) are one per tree,
non-negative and sum to at most one -/
structure Domain (trees : List DF) (weights : Option (List ℚ)) (θ : ℚ) : Prop where
  theta : 1 / 2 ≤ θ
  nodup : ∀ t ∈ trees, t.all.Nodup
  nonempty : ∀ t ∈ trees, NonemptyClones t
  weights : WeightsOK weights trees.length

theorem majority_good {trees : List DF} {weights : Option (List ℚ)} {θ : ℚ}
    (h : Domain trees weights θ) : GoodFamily (majority weights (trees.map cladeSet) θ) where
  lam := majority_laminar_model trees weights θ h.theta h.nodup h.weights
  ne := fun c hc => (majority_members trees weights θ h.nonempty c hc).1
  nd := fun c hc => (majority_members trees weights θ h.nonempty c hc).2
  pw := majority_pairwise _ _ _

theorem F_perm {m m' : List Clade} (h : m'.Perm m) : F m' = F m := by
  ext s; simp only [mem_F]
  constructor
  · rintro ⟨d, hd, e⟩; exact ⟨d, h.mem_iff.mp hd, e⟩
  · rintro ⟨d, hd, e⟩; exact ⟨d, h.mem_iff.mpr hd, e⟩

theorem GoodFamily.perm {m m' : List Clade} (hm : GoodFamily m) (h : m'.Perm m) : GoodFamily m' where
  lam := by rw [F_perm h]; exact hm.lam
  ne := fun c hc => hm.ne c (h.mem_iff.mp hc)
  nd := fun c hc => hm.nd c (h.mem_iff.mp hc)
  pw := (h.pairwise_iff (fun hxy => Ne.symm hxy)).mpr hm.pw

theorem mem_outliersOf {n : ℕ} {owns : List (Clade × List ℕ)} {i : ℕ} :
    i ∈ outliersOf n owns ↔ i < n ∧ ∀ e ∈ owns, i ∉ e.2 := by
  simp [outliersOf]

end PhyModel.ConsBridge
