import PhyModel.Proofs.GraphOf
import PhyModel.Proofs.GraphRemove
import PhyModel.Proofs.GraphGetSub
/-! The structural `SF.removeSub` of the store model is a correct abstraction of the graph-level
`remove_subtree` (`gRemoveSubtree`): in the graph of a structural forest with distinct non-zero
indices, what is reachable from clone `i` is exactly the structural subtree `findSub i`
(`reach_graphOf_iff`), and removing it leaves the graph of `removeSub i` (`graph_removeSub`). -/
namespace PhyModel.Graph
open PhyModel.Store PhyModel.Store.SF

/-! ### edges of a forest, by target -/

theorem nodup_edgesOf {f : SF} (hn : f.idxs.Nodup) (par : Nat) : (Store.edgesOf par f).Nodup :=
  List.Nodup.of_map (·.2) (by rw [targets_edgesOf]; exact hn)

/-- an edge is determined by its target -/
theorem edgesOf_target_inj {f : SF} {par : Nat} (hn : f.idxs.Nodup) {e e' : Nat × Nat}
    (he : e ∈ Store.edgesOf par f) (he' : e' ∈ Store.edgesOf par f) (h : e.2 = e'.2) : e = e' :=
  List.inj_on_of_nodup_map (f := (·.2)) (by rw [targets_edgesOf]; exact hn) he he' h

theorem exists_edge_of_mem_idxs {f : SF} (par : Nat) {v : Nat} (hv : v ∈ f.idxs) :
    ∃ e ∈ Store.edgesOf par f, e.2 = v := by
  rw [← targets_edgesOf f par] at hv
  exact List.mem_map.1 hv

/-- when the edges of `g` (under `par'`) are edges of `f`, an edge of `f` into a clone of `g` is an edge
of `g` -/
theorem mem_edgesOf_of_sub {f g : SF} {par par' : Nat} (hn : f.idxs.Nodup)
    (hsub : ∀ e ∈ Store.edgesOf par' g, e ∈ Store.edgesOf par f) {e : Nat × Nat}
    (he : e ∈ Store.edgesOf par f) (ht : e.2 ∈ g.idxs) : e ∈ Store.edgesOf par' g := by
  obtain ⟨e', he', h⟩ := exists_edge_of_mem_idxs par' ht
  rw [edgesOf_target_inj hn he (hsub e' he') h.symm]
  exact he'

/-! ### the two structural operations only select edges -/

/-- the edges below the node found by `findSub` are edges of the forest -/
theorem edgesOf_findSub_sub : ∀ {f : SF} {i : Nat} {x : NodeRec × SF} (par : Nat), f.findSub i = some x →
    ∀ e ∈ Store.edgesOf i x.2, e ∈ Store.edgesOf par f
  | .nil, _, _, _, h => by simp [findSub] at h
  | .cons n k s, i, x, par, h => by
    intro e he
    simp only [findSub] at h
    simp only [edgesOf_cons, List.mem_cons, List.mem_append]
    by_cases hni : n.idx = i
    · simp only [hni, if_true, Option.some.injEq] at h
      subst h
      exact .inr (.inl (hni ▸ he))
    · simp only [hni, if_false] at h
      cases hk : findSub i k with
      | some y =>
        rw [hk] at h; simp only [Option.some.injEq] at h; subst h
        exact .inr (.inl (edgesOf_findSub_sub n.idx hk e he))
      | none =>
        rw [hk] at h
        exact .inr (.inr (edgesOf_findSub_sub par h e he))

/-- the edges of what `removeSub` leaves are edges of the forest -/
theorem edgesOf_removeSub_sub (i : Nat) : ∀ (f : SF) (par : Nat),
    ∀ e ∈ Store.edgesOf par (f.removeSub i), e ∈ Store.edgesOf par f
  | .nil, _, e, he => by simp [removeSub] at he
  | .cons n k s, par, e, he => by
    simp only [removeSub] at he
    simp only [edgesOf_cons, List.mem_cons, List.mem_append]
    split at he
    · exact .inr (.inr he)
    · simp only [edgesOf_cons, List.mem_cons, List.mem_append] at he
      rcases he with he | he | he
      · exact .inl he
      · exact .inr (.inl (edgesOf_removeSub_sub i k n.idx e he))
      · exact .inr (.inr (edgesOf_removeSub_sub i s par e he))

/-! ### the index set splits into the subtree and the rest -/

theorem idxs_removeSub_perm {f : SF} {i : Nat} {x : NodeRec × SF} (hn : f.idxs.Nodup)
    (hx : f.findSub i = some x) : f.idxs.Perm ((i :: x.2.idxs) ++ (f.removeSub i).idxs) := by
  have := (removeSub_perm hn hx).map (·.idx)
  simpa [SF.idxs, (findSub_some hx).1] using this

/-- membership form of `idxs_removeSub_perm`: a clone is in the subtree or in the rest, not both -/
theorem mem_idxs_split {f : SF} {i : Nat} {x : NodeRec × SF} (hn : f.idxs.Nodup)
    (hx : f.findSub i = some x) :
    (∀ v, v ∈ f.idxs ↔ (v = i ∨ v ∈ x.2.idxs) ∨ v ∈ (f.removeSub i).idxs) ∧
    (∀ v, v = i ∨ v ∈ x.2.idxs → v ∉ (f.removeSub i).idxs) ∧
    (i :: x.2.idxs).Nodup ∧ (f.removeSub i).idxs.Nodup := by
  have hp := idxs_removeSub_perm hn hx
  have hnd := (List.Perm.nodup_iff hp).1 hn
  rw [List.nodup_append] at hnd
  refine ⟨fun v => ?_, fun v hv hv' => ?_, hnd.1, hnd.2.1⟩
  · rw [hp.mem_iff, List.mem_append, List.mem_cons]
  · exact hnd.2.2 v (List.mem_cons.2 hv) v hv' rfl

/-! ### reachability is the structural subtree -/

/-- **what is reachable from clone `i` in the graph of a structural forest is `i` and the clones of
the child forest `findSub` returns** -/
theorem reach_graphOf_iff {f : SF} {i : Nat} {x : NodeRec × SF} (hn : f.idxs.Nodup) (h0 : 0 ∉ f.idxs)
    (hx : f.findSub i = some x) (v : Nat) : Reach (graphOf f) i v ↔ v = i ∨ v ∈ x.2.idxs := by
  obtain ⟨hm, hdis, -, -⟩ := mem_idxs_split hn hx
  constructor
  · intro h
    induction h with
    | refl => exact .inl rfl
    | @step b c _ he ih =>
      have he : (b, c) ∈ Store.edgesOf 0 f := he
      rcases (hm c).1 (target_edgesOf he) with hc | hc
      · exact hc
      · exfalso
        have he' := mem_edgesOf_of_sub hn (edgesOf_removeSub_sub i f 0) he hc
        rcases source_edgesOf he' with hb | hb
        · have hb : b = 0 := hb
          subst hb
          exact h0 ((hm 0).2 (.inl ih))
        · exact hdis b ih hb
  · rintro (rfl | hv)
    · exact .refl _
    · exact reach_edgesOf x.2 i (edgesOf_findSub_sub 0 hx) v hv

/-! ### `remove_subtree` -/

/-- **the structural `removeSub` is the graph-level `remove_subtree`**: on the graph of a structural
forest the graph operation succeeds and returns the graph of `removeSub i` -/
theorem graph_removeSub {f : SF} {i : Nat} (hn : f.idxs.Nodup) (h0 : 0 ∉ f.idxs) (hi : i ∈ f.idxs) :
    ∃ g', gRemoveSubtree (graphOf f) i = some g' ∧
      g'.nodes.Perm (graphOf (f.removeSub i)).nodes ∧ g'.edges.Perm (graphOf (f.removeSub i)).edges := by
  obtain ⟨x, hx⟩ := findSub_isSome_of_mem hi
  obtain ⟨hm, hdis, -, hnr⟩ := mem_idxs_split hn hx
  have hr : i ∈ (graphOf f).nodes := List.mem_cons_of_mem _ hi
  obtain ⟨g', hg'⟩ := Option.isSome_iff_exists.1 (gRemoveSubtree_isSome hr)
  obtain ⟨-, D, hD, rfl⟩ := gRemoveSubtree_spec hg'
  have hD' : ∀ v, v ∈ D ↔ v = i ∨ v ∈ x.2.idxs := fun v => (hD v).trans (reach_graphOf_iff hn h0 hx v)
  have h0D : 0 ∉ D := fun h => h0 ((hm 0).2 (.inl ((hD' 0).1 h)))
  have h0r : 0 ∉ (f.removeSub i).idxs := fun h => h0 ((hm 0).2 (.inr h))
  refine ⟨_, hg', ?_, ?_⟩
  · refine (List.perm_ext_iff_of_nodup (l₁ := (0 :: f.idxs).filter fun v => !D.contains v)
      (l₂ := 0 :: (f.removeSub i).idxs) ((List.nodup_cons.2 ⟨h0, hn⟩).filter _) (List.nodup_cons.2 ⟨h0r, hnr⟩)).2 ?_
    intro v
    simp only [List.mem_filter, List.mem_cons, Bool.not_eq_true',
      List.contains_eq_mem, decide_eq_false_iff_not, hm, hD']
    constructor
    · rintro ⟨rfl | (h | h), hv⟩
      · exact .inl rfl
      · exact absurd h hv
      · exact .inr h
    · rintro (rfl | h)
      · exact ⟨.inl rfl, fun h => h0D ((hD' 0).2 h)⟩
      · exact ⟨.inr (.inr h), fun h' => hdis v h' h⟩
  · refine (List.perm_ext_iff_of_nodup
      (l₁ := (Store.edgesOf 0 f).filter fun e => !D.contains e.1 && !D.contains e.2)
      (l₂ := Store.edgesOf 0 (f.removeSub i)) ((nodup_edgesOf hn 0).filter _) (nodup_edgesOf hnr 0)).2 ?_
    intro e
    simp only [List.mem_filter, Bool.and_eq_true, Bool.not_eq_true',
      List.contains_eq_mem, decide_eq_false_iff_not, hD']
    constructor
    · rintro ⟨he, -, h2⟩
      rcases (hm e.2).1 (target_edgesOf he) with h | h
      · exact absurd h h2
      · exact mem_edgesOf_of_sub hn (edgesOf_removeSub_sub i f 0) he h
    · intro he
      refine ⟨edgesOf_removeSub_sub i f 0 e he, fun h => ?_, fun h => hdis _ h (target_edgesOf he)⟩
      rcases source_edgesOf he with h1 | h1
      · exact h0D ((hD' 0).2 (h1 ▸ h))
      · exact hdis _ h h1

/-! ### non-vacuity: five clones, depth 3; clone 2 has the child 1, its parent 4 also has the child 3 -/

private def nr (i : Nat) : NodeRec := { idx := i, name := i, dps := [i], p := [], r := [] }

private def f5 : SF :=
  .cons (nr 4) (.cons (nr 2) (.cons (nr 1) .nil .nil) (.cons (nr 3) .nil .nil)) (.cons (nr 5) .nil .nil)

/-- the hypotheses of `graph_removeSub` hold for `f5` and clone 4 (resp. 2), and this is what the graph
operation and the structural operation evaluate to -/
example : f5.idxs.Nodup ∧ 0 ∉ f5.idxs ∧ 4 ∈ f5.idxs ∧ 2 ∈ f5.idxs ∧
    graphOf f5 = { nodes := [0, 4, 2, 1, 3, 5], edges := [(0, 4), (4, 2), (2, 1), (4, 3), (0, 5)] } ∧
    gRemoveSubtree (graphOf f5) 4 = some { nodes := [0, 5], edges := [(0, 5)] } ∧
    graphOf (f5.removeSub 4) = { nodes := [0, 5], edges := [(0, 5)] } ∧
    gRemoveSubtree (graphOf f5) 2 = some { nodes := [0, 4, 3, 5], edges := [(0, 4), (4, 3), (0, 5)] } ∧
    graphOf (f5.removeSub 2) = { nodes := [0, 4, 3, 5], edges := [(0, 4), (4, 3), (0, 5)] } ∧
    ((f5.findSub 4).map fun x => x.2.idxs) = some [2, 1, 3] ∧
    ((f5.findSub 2).map fun x => x.2.idxs) = some [1] := by
  decide +kernel

end PhyModel.Graph
