import PhyModel.Proofs.PGSub4
/-! # C04, random-subtree move, part 5: distinct subtrees give distinct full trees.

The forest induced by the full tree `graftBack rem gk x` on the region's data `D` is the subtree `x`
again (`restrict_graftBack`), provided the remaining forest holds no data of `D`, its data are
pairwise distinct and the graft point is one of them (`RegionOK`).  Hence `graftBack rem gk` is
injective on the complete subtrees of `D` (`graftBack_inj`), which turns the expectation form of the
conditional statement into the per-target form. -/

namespace PhyModel.PG
open Proposal PGSpec Orders Orders.Forest Canon
open PhyModel.Moves (graftBack attachAll attachUnder)
open PhyModel.SMC (restrictF)

/-- what the region choice guarantees about the remaining forest and the graft point -/
structure RegionOK (rem : DF) (gk : Option ℕ) (D : List ℕ) : Prop where
  disj : ∀ a ∈ rem.all, a ∉ D
  nodup : rem.all.Nodup
  key : ∀ k, gk = some k → k ∈ rem.all

/-- every root of `sub` grafted under the clone(s) holding `key`, in one pass -/
def attachMany (key : ℕ) (sub : List (List ℕ × DF)) : DF → DF
  | .nil => .nil
  | .cons d k s =>
    if d.contains key then .cons d (sub.foldr (fun r acc => .cons r.1 r.2 acc) k) (attachMany key sub s)
    else .cons d (attachMany key sub k) (attachMany key sub s)

theorem attachMany_nil (key : ℕ) : ∀ f : DF, attachMany key [] f = f
  | .nil => rfl
  | .cons d k s => by
    simp only [attachMany, List.foldr_nil, attachMany_nil key k, attachMany_nil key s, ite_self]

theorem attachUnder_attachMany (key : ℕ) (r : List ℕ × DF) (sub : List (List ℕ × DF)) : ∀ f : DF,
    attachUnder key r.1 r.2 (attachMany key sub f) = attachMany key (r :: sub) f
  | .nil => rfl
  | .cons d k s => by
    simp only [attachMany]
    split
    · rename_i hc
      simp only [attachUnder, hc, if_true, List.foldr_cons, attachUnder_attachMany key r sub s]
    · rename_i hc
      simp only [attachUnder, hc, Bool.false_eq_true, if_false, attachUnder_attachMany key r sub k,
        attachUnder_attachMany key r sub s]

theorem attachAll_some (key : ℕ) (sub : List (List ℕ × DF)) (f : DF) :
    attachAll (some key) sub f = attachMany key sub f := by
  induction sub with
  | nil => simp [attachAll, attachMany_nil]
  | cons r sub ih =>
    have : attachAll (some key) (r :: sub) f = attachUnder key r.1 r.2 (attachAll (some key) sub f) := rfl
    rw [this, ih, attachUnder_attachMany]

theorem attachMany_of_not_mem {key : ℕ} (sub : List (List ℕ × DF)) {f : DF} (h : key ∉ f.all) :
    attachMany key sub f = f := by
  induction f with
  | nil => rfl
  | cons d k s ihk ihs =>
    simp only [Forest.all, List.mem_append, not_or] at h
    simp only [attachMany, not_contains_of_not_mem h.1.2, Bool.false_eq_true, if_false, ihk h.1.1, ihs h.2]

theorem foldr_cons_eq (sub : List (List ℕ × DF)) (k : DF) :
    sub.foldr (fun r acc => Orders.Forest.cons r.1 r.2 acc) k = ofRoots (sub ++ k.roots) := by
  induction sub with
  | nil => simp [Canon.ofRoots_roots]
  | cons r sub ih => obtain ⟨d, k'⟩ := r; simp only [List.foldr_cons, List.cons_append, ofRoots, ih]

/-- nothing of a forest is kept: the induced forest is empty -/
theorem restrictF_none (keep : ℕ → Bool) : ∀ f : DF, (∀ a ∈ f.all, keep a = false) → restrictF keep f = .nil
  | .nil, _ => rfl
  | .cons d k s, h => by
    have hk := restrictF_none keep k (fun a ha => h a (by simp [Forest.all, ha]))
    have hs := restrictF_none keep s (fun a ha => h a (by simp [Forest.all, ha]))
    have hd : d.filter keep = [] := by
      apply List.filter_eq_nil_iff.mpr
      intro a ha
      rw [h a (by simp [Forest.all, ha])]
      simp
    simp only [restrictF, hd, hk, hs, List.isEmpty_nil, if_true, roots, List.append_nil, ofRoots]

/-- the forest induced on the kept data by "graft `sub` under the clone holding `key`", when nothing of
the host forest is kept: the forest induced by `sub` alone -/
theorem restrictF_attachMany (keep : ℕ → Bool) (key : ℕ) (sub : List (List ℕ × DF)) : ∀ f : DF,
    f.all.Nodup → (∀ a ∈ f.all, keep a = false) → key ∈ f.all →
    restrictF keep (attachMany key sub f) = restrictF keep (ofRoots sub) := by
  intro f
  induction f with
  | nil => intro _ _ hk; simp [Forest.all] at hk
  | cons d k s ihk ihs =>
    intro hn hkeep hkey
    simp only [Forest.all] at hn hkey
    obtain ⟨hkd, hs, hdisj2⟩ := List.nodup_append.mp hn
    obtain ⟨hk, _, hdisj1⟩ := List.nodup_append.mp hkd
    have hkeepk : ∀ a ∈ k.all, keep a = false := fun a ha => hkeep a (by simp [Forest.all, ha])
    have hkeeps : ∀ a ∈ s.all, keep a = false := fun a ha => hkeep a (by simp [Forest.all, ha])
    have hd : d.filter keep = [] := by
      apply List.filter_eq_nil_iff.mpr
      intro a ha
      rw [hkeep a (by simp [Forest.all, ha])]
      simp
    simp only [attachMany]
    by_cases hc : d.contains key = true
    · have had : key ∈ d := List.contains_iff_mem.mp hc
      have has : key ∉ s.all := fun h => hdisj2 key (List.mem_append_right _ had) key h rfl
      simp only [hc, if_true, restrictF, hd, List.isEmpty_nil, attachMany_of_not_mem sub has,
        restrictF_none keep s hkeeps, roots, List.append_nil]
      rw [foldr_cons_eq, restrictF_ofRoots, List.flatMap_append, ← roots_restrictF keep k,
        restrictF_none keep k hkeepk]
      simp only [roots, List.append_nil, Canon.roots_ofRoots]
      rw [restrictF_ofRoots]
    · have had : key ∉ d := fun h => hc (List.contains_iff_mem.mpr h)
      simp only [not_contains_of_not_mem had, Bool.false_eq_true, if_false, restrictF, hd,
        List.isEmpty_nil, if_true]
      by_cases hak : key ∈ k.all
      · have has : key ∉ s.all := fun h => hdisj2 key (List.mem_append_left _ hak) key h rfl
        rw [attachMany_of_not_mem sub has, restrictF_none keep s hkeeps, ihk hk hkeepk hak]
        simp only [roots, List.append_nil, Canon.ofRoots_roots]
      · have has : key ∈ s.all := by
          rcases List.mem_append.mp hkey with h | h
          · rcases List.mem_append.mp h with h | h
            · exact absurd h hak
            · exact absurd h had
          · exact h
        rw [attachMany_of_not_mem sub hak, restrictF_none keep k hkeepk, ihs hs hkeeps has]
        simp only [roots, List.nil_append, Canon.ofRoots_roots]

variable {c : Cfg} {D : List ℕ}

/-- **the region's data pick the subtree out of the full tree** -/
theorem restrict_graftBack {rem : DF} {gk : Option ℕ} (ok : RegionOK rem gk D) {x : T} (w : WFT c x)
    (hperm : (x.f.all ++ x.out).Perm D) : SMC.restrict (graftBack rem gk x) D = x := by
  have hkeepx : ∀ a ∈ x.f.all, D.contains a = true := fun a ha =>
    List.contains_iff_mem.mpr (hperm.subset (List.mem_append_left _ ha))
  have hkeepr : ∀ a ∈ rem.all, D.contains a = false := fun a ha =>
    not_contains_of_not_mem (ok.disj a ha)
  have hxid : restrictF (fun i => D.contains i) x.f = x.f := restrictF_id _ _ w.ne hkeepx
  -- the forest induced by the un-canonicalised full forest
  have hA : restrictF (fun i => D.contains i) (attachAll gk x.f.roots rem) = x.f := by
    cases gk with
    | none =>
      show restrictF _ (x.f.roots.foldr (fun r acc => Orders.Forest.cons r.1 r.2 acc) rem) = x.f
      rw [foldr_cons_eq, restrictF_ofRoots, List.flatMap_append, ← roots_restrictF _ rem,
        restrictF_none _ rem hkeepr]
      simp only [roots, List.append_nil]
      rw [← restrictF_ofRoots, Canon.ofRoots_roots, hxid]
    | some k =>
      rw [attachAll_some, restrictF_attachMany _ k _ rem ok.nodup hkeepr (ok.key k rfl),
        Canon.ofRoots_roots, hxid]
  unfold SMC.restrict graftBack T.mk'
  have e1 : Forest.canon (restrictF (fun i => D.contains i) (Forest.canon (attachAll gk x.f.roots rem))) = x.f := by
    have hE : Eqv (restrictF (fun i => D.contains i) (attachAll gk x.f.roots rem))
        (restrictF (fun i => D.contains i) (Forest.canon (attachAll gk x.f.roots rem))) :=
      restrictF_eqv _ (canon_eqv _).symm
    rw [hA] at hE
    rw [← canon_congr hE w.wf, w.canon_f]
  have e2 : sortNat ((sortNat x.out).filter fun i => D.contains i) = x.out := by
    rw [w.sort_out]
    have : x.out.filter (fun i => D.contains i) = x.out := by
      apply List.filter_eq_self.mpr
      intro a ha
      exact List.contains_iff_mem.mpr (hperm.subset (List.mem_append_right _ ha))
    rw [this, w.sort_out]
  show T.mk _ _ = x
  rw [e1, e2]

/-- **distinct complete subtrees give distinct full trees** -/
theorem graftBack_inj {dt : Data} (h : HypD dt c D) {rem : DF} {gk : Option ℕ} (ok : RegionOK rem gk D) :
    ∀ x ∈ finals c D, ∀ y ∈ finals c D, graftBack rem gk x = graftBack rem gk y → x = y := by
  intro x hx y hy e
  obtain ⟨wx, px⟩ := finals_wft h hx
  obtain ⟨wy, py⟩ := finals_wft h hy
  rw [← restrict_graftBack ok wx px, ← restrict_graftBack ok wy py, e]

#print axioms graftBack_inj
end PhyModel.PG
