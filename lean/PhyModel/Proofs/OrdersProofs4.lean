import PhyModel.Proofs.OrdersProofs3
import Mathlib.Data.List.Perm.Basic
import Mathlib.Data.List.Nodup
import Mathlib.Data.List.Sublists

namespace PhyModel.Orders

/-! ### interleavings -/

theorem inter_nil_right (xs : List ℕ) : inter xs [] = [xs] := by
  cases xs <;> simp [inter]

theorem inter_nil_left (ys : List ℕ) : inter [] ys = [ys] := by
  simp [inter]

theorem mem_inter_cons_left (x : ℕ) : ∀ (A B l : List ℕ), l ∈ inter A B → x :: l ∈ inter (x :: A) B := by
  intro A B l h
  cases B with
  | nil => rw [inter_nil_right] at h ⊢; simp at h ⊢; exact h
  | cons y B' => simp only [inter, List.mem_append, List.mem_map]; left; exact ⟨l, h, rfl⟩

theorem mem_inter_cons_right (x : ℕ) : ∀ (A B l : List ℕ), l ∈ inter A B → x :: l ∈ inter A (x :: B) := by
  intro A B l h
  cases A with
  | nil => rw [inter_nil_left] at h ⊢; simp at h ⊢; exact h
  | cons a A' => simp only [inter, List.mem_append, List.mem_map]; right; exact ⟨l, h, rfl⟩

/-- every list is an interleaving of its two complementary filters -/
theorem mem_inter_filter (p : ℕ → Bool) : ∀ l : List ℕ,
    l ∈ inter (l.filter p) (l.filter fun x => !p x) := by
  intro l
  induction l with
  | nil => simp [inter]
  | cons x l ih =>
    by_cases hx : p x = true
    · have h1 : (x :: l).filter p = x :: l.filter p := by simp [hx]
      have h2 : (x :: l).filter (fun x => !p x) = l.filter (fun x => !p x) := by simp [hx]
      rw [h1, h2]; exact mem_inter_cons_left x _ _ _ ih
    · have hx' : p x = false := by simpa using hx
      have h1 : (x :: l).filter p = l.filter p := by simp [hx']
      have h2 : (x :: l).filter (fun x => !p x) = x :: l.filter (fun x => !p x) := by simp [hx']
      rw [h1, h2]; exact mem_inter_cons_right x _ _ _ ih

/-- an interleaving contains both lists as sublists and is a permutation of their concatenation;
filtering recovers the parts when the parts are separated by a predicate -/
theorem inter_spec : ∀ (xs ys l : List ℕ), l ∈ inter xs ys →
    xs.Sublist l ∧ ys.Sublist l ∧ l.Perm (xs ++ ys) := by
  intro xs
  induction xs with
  | nil =>
    intro ys l h
    rw [inter_nil_left] at h; simp at h; subst h
    exact ⟨List.nil_sublist _, List.Sublist.refl _, by simp⟩
  | cons x xs ihx =>
    intro ys
    induction ys with
    | nil =>
      intro l h
      rw [inter_nil_right] at h; simp at h; subst h
      exact ⟨List.Sublist.refl _, List.nil_sublist _, by simp⟩
    | cons y ys ihy =>
      intro l h
      simp only [inter, List.mem_append, List.mem_map] at h
      rcases h with ⟨l', hl', rfl⟩ | ⟨l', hl', rfl⟩
      · obtain ⟨h1, h2, h3⟩ := ihx (y :: ys) l' hl'
        refine ⟨h1.cons₂ x, h2.cons x, ?_⟩
        simpa using h3
      · obtain ⟨h1, h2, h3⟩ := ihy l' hl'
        refine ⟨h1.cons y, h2.cons₂ y, ?_⟩
        have : (y :: l').Perm (y :: (x :: xs ++ ys)) := List.Perm.cons y h3
        refine this.trans ?_
        simpa using (List.perm_middle (a := y) (l₁ := x :: xs) (l₂ := ys)).symm

theorem inter_filter (p : ℕ → Bool) : ∀ (xs ys l : List ℕ), l ∈ inter xs ys →
    (∀ a ∈ xs, p a = true) → (∀ b ∈ ys, p b = false) →
    l.filter p = xs ∧ l.filter (fun x => !p x) = ys := by
  intro xs
  induction xs with
  | nil =>
    intro ys l h _ hy
    rw [inter_nil_left] at h; simp at h; subst h
    constructor
    · rw [List.filter_eq_nil_iff]; intro a ha; simp [hy a ha]
    · rw [List.filter_eq_self]; intro a ha; simp [hy a ha]
  | cons x xs ihx =>
    intro ys
    induction ys with
    | nil =>
      intro l h hxs _
      rw [inter_nil_right] at h; simp at h; subst h
      constructor
      · rw [List.filter_eq_self]; intro a ha; exact hxs a ha
      · rw [List.filter_eq_nil_iff]; intro a ha; simp [hxs a ha]
    | cons y ys ihy =>
      intro l h hxs hys
      simp only [inter, List.mem_append, List.mem_map] at h
      rcases h with ⟨l', hl', rfl⟩ | ⟨l', hl', rfl⟩
      · obtain ⟨h1, h2⟩ := ihx (y :: ys) l' hl' (fun a ha => hxs a (by simp [ha])) hys
        have hx : p x = true := hxs x (by simp)
        constructor
        · simp [hx, h1]
        · simp [hx, h2]
      · obtain ⟨h1, h2⟩ := ihy l' hl' hxs (fun b hb => hys b (by simp [hb]))
        have hy : p y = false := hys y (by simp)
        constructor
        · simp [hy, h1]
        · simp [hy, h2]

/-! ### permutations -/

theorem insertAll_spec (a : ℕ) : ∀ (l l' : List ℕ), l' ∈ insertAll a l ↔
    ∃ l1 l2, l = l1 ++ l2 ∧ l' = l1 ++ a :: l2 := by
  intro l
  induction l with
  | nil =>
    intro l'
    simp only [insertAll, List.mem_singleton]
    constructor
    · intro h; exact ⟨[], [], rfl, by simp [h]⟩
    · rintro ⟨l1, l2, h, rfl⟩
      have : l1 = [] ∧ l2 = [] := by simpa using h.symm
      simp [this.1, this.2]
  | cons b l ih =>
    intro l'
    simp only [insertAll, List.mem_cons, List.mem_map]
    constructor
    · rintro (rfl | ⟨l'', hl'', rfl⟩)
      · exact ⟨[], b :: l, rfl, rfl⟩
      · obtain ⟨l1, l2, h1, rfl⟩ := (ih l'').mp hl''
        exact ⟨b :: l1, l2, by simp [h1], by simp⟩
    · rintro ⟨l1, l2, h, rfl⟩
      cases l1 with
      | nil => left; simp at h; simp [h]
      | cons c l1 =>
        right
        simp at h
        obtain ⟨rfl, h⟩ := h
        exact ⟨l1 ++ a :: l2, (ih _).mpr ⟨l1, l2, h, rfl⟩, by simp⟩

theorem perm_of_mem_perms : ∀ (l p : List ℕ), p ∈ perms l → p.Perm l := by
  intro l
  induction l with
  | nil => intro p h; simp [perms] at h; simp [h]
  | cons a l ih =>
    intro p h
    simp only [perms, List.mem_flatMap] at h
    obtain ⟨p', hp', hp⟩ := h
    obtain ⟨l1, l2, h1, rfl⟩ := (insertAll_spec a p' p).mp hp
    have := ih p' hp'
    rw [h1] at this
    exact (List.perm_middle).trans (List.Perm.cons a this)

theorem mem_perms_of_perm : ∀ (l p : List ℕ), p.Perm l → p ∈ perms l := by
  intro l
  induction l with
  | nil => intro p h; simp [perms, List.Perm.eq_nil h]
  | cons a l ih =>
    intro p h
    have ha : a ∈ p := h.symm.subset (by simp)
    obtain ⟨l1, l2, rfl⟩ := List.append_of_mem ha
    have h' : (l1 ++ l2).Perm l := by
      have := (List.perm_middle (a := a) (l₁ := l1) (l₂ := l2)).symm.trans h |>.symm
      exact (List.Perm.cons_inv (this.symm))
    simp only [perms, List.mem_flatMap]
    exact ⟨l1 ++ l2, ih _ h', (insertAll_spec a _ _).mpr ⟨l1, l2, rfl, rfl⟩⟩

end PhyModel.Orders
