import Mathlib.Probability.Distributions.Gamma
import Mathlib.Probability.Distributions.Beta
/-! Real-analysis helper lemmas for C13 (Escobar–West update): the two-component Gamma mixture
density, the Beta kernel integral.  Uses Mathlib's `gammaPDFReal`, `betaPDFReal`, `beta`. -/
open Real ProbabilityTheory MeasureTheory Set

namespace PhyModel.ConcDensity

/-- the two-component mixture density `w Gamma(s+1, r) + (1-w) Gamma(s, r)` -/
noncomputable def mixPDF (w s r x : ℝ) : ℝ :=
  w * gammaPDFReal (s + 1) r x + (1 - w) * gammaPDFReal s r x

/-- the constant of the mixture identity -/
noncomputable def mixConst (s r n : ℝ) : ℝ := r ^ (s + 1) / (Gamma s * (s + n * r))

lemma mixConst_pos {s r n : ℝ} (hs : 0 < s) (hr : 0 < r) (hn : 0 < n) : 0 < mixConst s r n := by
  unfold mixConst
  have := Gamma_pos_of_pos hs
  positivity

/-- With weight `w = x/(1+x)`, `x = s/(n r)`, the mixture density is
`C · x^(s-1) (x+n) e^{-r x}` with `C` free of `x`. -/
lemma mix_identity {s r n x : ℝ} (hs : 0 < s) (hr : 0 < r) (hn : 0 < n) (hx : 0 < x) :
    mixPDF ((s / (n * r)) / (1 + s / (n * r))) s r x
      = mixConst s r n * x ^ (s - 1) * (x + n) * exp (-(r * x)) := by
  unfold mixPDF mixConst gammaPDFReal
  rw [if_pos hx.le, if_pos hx.le, Gamma_add_one hs.ne', rpow_add_one hr.ne',
    show s + 1 - 1 = s by ring, rpow_sub_one hx.ne']
  have hG := (Gamma_pos_of_pos hs).ne'
  have h1 : n * r ≠ 0 := by positivity
  have h2 : s + n * r ≠ 0 := by positivity
  have h3 : (1 : ℝ) + s / (n * r) ≠ 0 := by positivity
  field_simp
  ring

/-- `∫₀¹ x^(u-1) (1-x)^(v-1) dx = B(u, v)` over the reals -/
lemma integral_beta_kernel {u v : ℝ} (hu : 0 < u) (hv : 0 < v) :
    ∫ x in Ioo (0 : ℝ) 1, x ^ (u - 1) * (1 - x) ^ (v - 1) = beta u v := by
  rw [beta_eq_betaIntegralReal u v hu hv, Complex.betaIntegral,
    intervalIntegral.integral_of_le (by norm_num), ← integral_Ioc_eq_integral_Ioo,
    ← RCLike.re_to_complex, ← integral_re]
  · refine setIntegral_congr_fun measurableSet_Ioc fun x ⟨hx1, hx₂⟩ ↦ ?_
    norm_cast
    rw [← Complex.ofReal_cpow, ← Complex.ofReal_cpow, RCLike.re_to_complex,
      Complex.re_mul_ofReal, Complex.ofReal_re]
    all_goals linarith
  convert! Complex.betaIntegral_convergent (u := u) (v := v) (by simpa) (by simpa)
  rw [intervalIntegrable_iff_integrableOn_Ioc_of_le (by simp), IntegrableOn]


/-- in `η` the joint is a multiple of the Beta(α+1, n) density (on the open unit interval) -/
lemma joint_eta {P α n η : ℝ} (hα : 0 < α) (hn : 0 < n) (h0 : 0 < η) (h1 : η < 1) :
    P * η ^ α * (1 - η) ^ (n - 1) = (P * beta (α + 1) n) * betaPDFReal (α + 1) n η := by
  unfold betaPDFReal
  rw [if_pos ⟨h0, h1⟩, show α + 1 - 1 = α by ring]
  have hb := (beta_pos (by linarith : 0 < α + 1) hn).ne'
  field_simp

/-- `B(α+1, n) (α+n) = Γ(n) · α Γ(α) / Γ(α+n)` -/
lemma beta_succ_mul {α n : ℝ} (hα : 0 < α) (hn : 0 < n) :
    beta (α + 1) n * (α + n) = Gamma n * (α * Gamma α / Gamma (α + n)) := by
  unfold beta
  have h : α + 1 + n = (α + n) + 1 := by ring
  rw [h, Gamma_add_one (by positivity : α + n ≠ 0), Gamma_add_one hα.ne']
  have hG := (Gamma_pos_of_pos (by positivity : 0 < α + n)).ne'
  have hαn : α + n ≠ 0 := by positivity
  field_simp

/-- the `η`-integral of the joint -/
lemma joint_eta_integral {P α n : ℝ} (hα : 0 < α) (hn : 0 < n) :
    ∫ η in Ioo (0 : ℝ) 1, P * η ^ α * (1 - η) ^ (n - 1) = P * beta (α + 1) n := by
  have := integral_beta_kernel (u := α + 1) (v := n) (by linarith) hn
  rw [show α + 1 - 1 = α by ring] at this
  rw [← this, ← integral_const_mul]
  congr 1
  ext η
  ring

/-- in `x` (the concentration) the joint with a Gamma(a, b) prior is a multiple of the mixture
density with the Escobar–West weight, shapes `a+k`, `a+k-1` and rate `b - log η` -/
lemma joint_alpha {a b k n η x : ℝ} (ha : 0 < a) (hb : 0 < b) (hk : 1 ≤ k) (hn : 0 < n)
    (h0 : 0 < η) (h1 : η < 1) (hx : 0 < x) :
    gammaPDFReal a b x * x ^ (k - 1) * (x + n) * η ^ x * (1 - η) ^ (n - 1)
      = (b ^ a / Gamma a * (1 - η) ^ (n - 1) / mixConst (a + k - 1) (b - log η) n)
        * mixPDF (((a + k - 1) / (n * (b - log η))) / (1 + (a + k - 1) / (n * (b - log η))))
            (a + k - 1) (b - log η) x := by
  have hlog : log η < 0 := log_neg h0 h1
  have hr : 0 < b - log η := by linarith
  have hs : 0 < a + k - 1 := by linarith
  rw [mix_identity hs hr hn hx]
  have hC := (mixConst_pos hs hr hn).ne'
  unfold gammaPDFReal
  rw [if_pos hx.le, rpow_def_of_pos h0 x, show a + k - 1 - 1 = (a - 1) + (k - 1) by ring,
    rpow_add hx, show -((b - log η) * x) = -(b * x) + log η * x by ring, exp_add]
  field_simp

end PhyModel.ConcDensity
