import PhyModel.Proofs.GraphClosure
/-! `get_subtree` on the graph model (`gGetSubtree`, `Model/Graph.lean`): a closed form of the result
(`gGetSubtree_spec`), the operation succeeds when the indices handed out are usable
(`gGetSubtree_isSome`), and the result of `get_subtree` on a forest is a forest
(`forest_getSubtree`). -/
namespace PhyModel.Graph
open DG

private theorem not_or_not {a b : Bool} (h : ¬ (a || !b) = true) : a = false ∧ b = true := by
  cases a <;> cases b <;> simp_all

/-- `[r] + descendants(r)` is the set of nodes reachable from `r` -/
theorem mem_cons_descendants {g : DG} {r : Nat} {d : List Nat} (hd : g.descendants r = some d) (v : Nat) :
    v ∈ r :: d ↔ Reach g r v := by
  rw [List.mem_cons, (descendants_spec hd).2.2]
  constructor
  · rintro (rfl | ⟨h, -⟩)
    · exact .refl _
    · exact h
  · intro h
    by_cases hv : v = r
    · exact .inl hv
    · exact .inr ⟨h, hv⟩

/-- **closed form of `get_subtree`**: with `D` the nodes reachable from `r`, the new graph has the
root 0 plus the renamed live nodes of `D`, the renamed edges inside `D`, and one edge from the root
to the image of `r`; the indices handed out do not collide. -/
theorem gGetSubtree_spec {g g' : DG} {r : Nat} {ρ₁ ρ₂ : Nat → Nat} (h : gGetSubtree g r ρ₁ ρ₂ = some g') :
    ∃ D : List Nat, r ∈ g.nodes ∧ (∀ v, v ∈ D ↔ Reach g r v) ∧
      g'.nodes = 0 :: ((g.nodes.filter D.contains).map ρ₁).map ρ₂ ∧
      g'.edges = ((g.edges.filter fun e => D.contains e.1 && D.contains e.2).map
                    fun e => (ρ₂ (ρ₁ e.1), ρ₂ (ρ₁ e.2))) ++ [(0, ρ₂ (ρ₁ r))] ∧
      ((g.nodes.filter D.contains).map ρ₁).Nodup ∧ (((g.nodes.filter D.contains).map ρ₁).map ρ₂).Nodup ∧
      0 ∉ ((g.nodes.filter D.contains).map ρ₁).map ρ₂ := by
  unfold gGetSubtree at h
  simp only [Option.bind_eq_bind, Option.bind_eq_some_iff] at h
  obtain ⟨d, hd, sg, hsg, hc⟩ := h
  refine ⟨r :: d, (descendants_spec hd).1, mem_cons_descendants hd, ?_⟩
  · unfold subgraph at hsg
    simp only at hsg
    split at hsg
    · next hd1 =>
      cases hsg
      unfold compose at hc
      simp only at hc
      split at hc
      · cases hc
      · next hg =>
        split at hc
        · cases hc
        · cases hc
          obtain ⟨hany, hd2⟩ := not_or_not hg
          refine ⟨by simp [gInit], by simp [gInit, List.map_map, Function.comp_def],
            distinctB_iff.1 hd1, distinctB_iff.1 hd2, fun h0 => ?_⟩
          have : (List.map ρ₂ (List.map ρ₁ (List.filter (r :: d).contains g.nodes))).any gInit.live
              = true := List.any_eq_true.2 ⟨0, h0, by simp [gInit, DG.live]⟩
          rw [this] at hany
          cases hany
    · cases hsg

/-- a path from `r` only uses edges between nodes reachable from `r` -/
theorem Reach.restrict {g : DG} {r : Nat} {D : List Nat} (hD : ∀ v, v ∈ D ↔ Reach g r v) {x : Nat}
    (h : Reach g r x) :
    Reach { nodes := g.nodes, edges := g.edges.filter fun e => D.contains e.1 && D.contains e.2 } r x := by
  induction h with
  | refl => exact .refl _
  | step hb he ih =>
    refine .step ih (List.mem_filter.2 ⟨he, ?_⟩)
    simp only [List.contains_iff_mem, Bool.and_eq_true, hD]
    exact ⟨hb, .step hb he⟩

/-- the subtree below `r`, renamed by `ρ` (collision-free, never 0) and hung under a fresh root 0, is a
forest -/
theorem IsForest.subtree {g : DG} (hf : IsForest g) {r : Nat} (hr : r ∈ g.nodes) {D : List Nat}
    (hD : ∀ v, v ∈ D ↔ Reach g r v) (ρ : Nat → Nat)
    (hnd : ((g.nodes.filter D.contains).map ρ).Nodup) (h0 : 0 ∉ (g.nodes.filter D.contains).map ρ) :
    IsForest { nodes := 0 :: (g.nodes.filter D.contains).map ρ,
               edges := ((g.edges.filter fun e => D.contains e.1 && D.contains e.2).map
                          fun e => (ρ e.1, ρ e.2)) ++ [(0, ρ r)] } := by
  have memL : ∀ x, x ∈ g.nodes.filter D.contains ↔ x ∈ g.nodes ∧ Reach g r x := by
    intro x; simp [hD]
  have memE : ∀ e, e ∈ (g.edges.filter fun e => D.contains e.1 && D.contains e.2) ↔
      e ∈ g.edges ∧ Reach g r e.1 ∧ Reach g r e.2 := by
    intro e; simp [hD]
  have hnodE : ((g.edges.filter fun e => D.contains e.1 && D.contains e.2).map (·.2)).Nodup :=
    List.Nodup.sublist (List.Sublist.map _ List.filter_sublist) hf.targets_nodup
  have hperm : ((g.edges.filter fun e => D.contains e.1 && D.contains e.2).map (·.2) ++ [r]).Perm
      (g.nodes.filter D.contains) := by
    rw [List.perm_ext_iff_of_nodup ?_ (hf.nodes_nodup.filter _)]
    · intro x
      rw [memL, List.mem_append, List.mem_map, List.mem_singleton]
      constructor
      · rintro (⟨e, he, rfl⟩ | rfl)
        · exact ⟨(hf.edges_live e ((memE e).1 he).1).2, ((memE e).1 he).2.2⟩
        · exact ⟨hr, .refl _⟩
      · rintro ⟨-, hx⟩
        rcases hx.tail_cases with rfl | ⟨b, hb, hbx⟩
        · exact .inr rfl
        · exact .inl ⟨(b, x), (memE _).2 ⟨hbx, hb, hx⟩, rfl⟩
    · rw [List.nodup_append]
      refine ⟨hnodE, List.nodup_singleton r, ?_⟩
      intro a ha b hb
      rw [List.mem_singleton] at hb
      subst hb
      rintro rfl
      obtain ⟨e, he, rfl⟩ := List.mem_map.1 ha
      obtain ⟨he1, he2, -⟩ := (memE e).1 he
      exact hf.not_reach_parent (p := e.1) (c := e.2) he1 he2
  refine IsForest.of_targets_perm ?_ ?_ ?_ ?_ ?_
  · exact List.nodup_cons.2 ⟨h0, hnd⟩
  · exact List.mem_cons_self
  · intro e he
    rcases List.mem_append.1 he with he | he
    · obtain ⟨e', he', rfl⟩ := List.mem_map.1 he
      obtain ⟨h1, h2, -⟩ := (memE e').1 he'
      exact List.mem_cons_of_mem _ (List.mem_map.2 ⟨e'.1, (memL _).2 ⟨(hf.edges_live _ h1).1, h2⟩, rfl⟩)
    · rw [List.mem_singleton] at he
      subst he
      exact List.mem_cons_self
  · have := hperm.map ρ
    simpa [DG.targets, List.map_map, Function.comp_def] using this
  · intro v hv
    rcases List.mem_cons.1 hv with rfl | hv
    · exact .refl _
    · obtain ⟨x, hx, rfl⟩ := List.mem_map.1 hv
      have h1 := Reach.restrict hD ((memL x).1 hx).2
      refine Reach.head (b := ρ r) (List.mem_append_right _ (List.mem_singleton.2 rfl)) ?_
      refine Reach.map ρ (fun e he => ?_) h1
      exact List.mem_append_left _ (List.mem_map.2 ⟨e, he, rfl⟩)

/-- **`get_subtree` of a forest is a forest** -/
theorem forest_getSubtree {g g' : DG} {r : Nat} {ρ₁ ρ₂ : Nat → Nat} (hf : IsForest g)
    (h : gGetSubtree g r ρ₁ ρ₂ = some g') : IsForest g' := by
  obtain ⟨D, hr, hD, hn, he, -, hnd, h0⟩ := gGetSubtree_spec h
  rw [List.map_map] at hn hnd h0
  have := hf.subtree hr hD (ρ₂ ∘ ρ₁) hnd h0
  have hg : g' = { nodes := 0 :: (g.nodes.filter D.contains).map (ρ₂ ∘ ρ₁),
                   edges := ((g.edges.filter fun e => D.contains e.1 && D.contains e.2).map
                              fun e => ((ρ₂ ∘ ρ₁) e.1, (ρ₂ ∘ ρ₁) e.2)) ++ [(0, (ρ₂ ∘ ρ₁) r)] } := by
    cases g'
    simp only [DG.mk.injEq]
    exact ⟨hn, he⟩
  rw [hg]
  exact this

/-- **`get_subtree` does not fail** on a live node when the indices handed out for the copies are
collision-free on the subtree and never the root index 0 -/
theorem gGetSubtree_isSome {g : DG} {r : Nat} {ρ₁ ρ₂ : Nat → Nat} (hr : r ∈ g.nodes)
    (h1 : ∀ a ∈ g.nodes, ∀ b ∈ g.nodes, Reach g r a → Reach g r b → ρ₁ a = ρ₁ b → a = b)
    (h2 : ∀ a ∈ g.nodes, ∀ b ∈ g.nodes, Reach g r a → Reach g r b → ρ₂ (ρ₁ a) = ρ₂ (ρ₁ b) → a = b)
    (h0 : ∀ a ∈ g.nodes, Reach g r a → ρ₂ (ρ₁ a) ≠ 0) (hn : g.nodes.Nodup) :
    (gGetSubtree g r ρ₁ ρ₂).isSome = true := by
  obtain ⟨d, hd⟩ := Option.isSome_iff_exists.1 (descendants_isSome hr)
  have memL : ∀ x, x ∈ g.nodes.filter (r :: d).contains ↔ x ∈ g.nodes ∧ Reach g r x := by
    intro x
    simp only [List.mem_filter, List.contains_iff_mem, mem_cons_descendants hd]
  have hn1 : ((g.nodes.filter (r :: d).contains).map ρ₁).Nodup :=
    List.Nodup.map_on (fun a ha b hb hab =>
      h1 a ((memL a).1 ha).1 b ((memL b).1 hb).1 ((memL a).1 ha).2 ((memL b).1 hb).2 hab) (hn.filter _)
  have hn2 : (((g.nodes.filter (r :: d).contains).map ρ₁).map ρ₂).Nodup := by
    rw [List.map_map]
    exact List.Nodup.map_on (fun a ha b hb hab =>
      h2 a ((memL a).1 ha).1 b ((memL b).1 hb).1 ((memL a).1 ha).2 ((memL b).1 hb).2 hab) (hn.filter _)
  have h00 : (((g.nodes.filter (r :: d).contains).map ρ₁).map ρ₂).any gInit.live = false := by
    rw [List.any_eq_false]
    intro y hy
    rw [List.map_map] at hy
    obtain ⟨x, hx, rfl⟩ := List.mem_map.1 hy
    have := h0 x ((memL x).1 hx).1 ((memL x).1 hx).2
    simpa [gInit, DG.live] using this
  have hlr : ρ₁ r ∈ (g.nodes.filter (r :: d).contains).map ρ₁ :=
    List.mem_map.2 ⟨r, (memL r).2 ⟨hr, .refl _⟩, rfl⟩
  unfold gGetSubtree
  simp only [hd, Option.bind_eq_bind, Option.bind_some]
  unfold subgraph
  simp only [distinctB_iff.2 hn1, if_true, Option.bind_some]
  unfold compose
  simp only [h00, distinctB_iff.2 hn2]
  simp [gInit, DG.live, hlr]

/-! ### non-vacuity: a forest with a two-node subtree, and what `get_subtree` returns for it -/

private def g4 : DG := { nodes := [0, 1, 2, 3, 4], edges := [(2, 1), (0, 4), (4, 3), (4, 2)] }

example : IsForest g4 ∧
    gGetSubtree g4 2 (fun i => i - 1) (fun i => i + 1) = some { nodes := [0, 1, 2], edges := [(2, 1), (0, 2)] } ∧
    gGetSubtree g4 4 (fun i => i - 1) (fun i => i + 1) =
      some { nodes := [0, 1, 2, 3, 4], edges := [(2, 1), (4, 3), (4, 2), (0, 4)] } := by
  decide +kernel

/-- the hypotheses of `gGetSubtree_isSome` and `forest_getSubtree` hold together on the example, and
a colliding numbering is rejected -/
example : (gGetSubtree g4 2 (fun i => i - 1) (fun i => i + 1)).isSome = true ∧
    (∀ g', gGetSubtree g4 2 (fun i => i - 1) (fun i => i + 1) = some g' → IsForest g') ∧
    gGetSubtree g4 2 (fun _ => 1) (fun i => i + 1) = none ∧
    gGetSubtree g4 2 (fun i => i - 1) (fun i => i) = none ∧
    gGetSubtree g4 5 (fun i => i - 1) (fun i => i + 1) = none :=
  ⟨by decide +kernel, fun _ h => forest_getSubtree (by decide +kernel) h, by decide +kernel,
    by decide +kernel, by decide +kernel⟩

end PhyModel.Graph
