import PhyModel.Model.Proposal
import Mathlib.Data.List.Perm.Basic
import Mathlib.Data.List.Nodup
/-! # C08 helpers 3: the canonical form of a forest does not depend on the order of its top-level
clones, as long as their sort keys (smallest data index of the clade) are pairwise distinct. -/

namespace PhyModel
open Orders Orders.Forest

namespace Proposal

/-- canonical form of one top-level clone -/
def cn (x : List ℕ × DF) : List ℕ × DF := (sortNat x.1, canon x.2)

/-- the top-level clones have pairwise distinct sort keys.  This holds for every tree whose data
points are distinct and whose clones are non-empty (the key is the smallest data index of the
clade); it is what makes the sibling order of the canonical form well defined. -/
def DistinctKeys (rs : List (List ℕ × DF)) : Prop := (rs.map fun x => rootKey (cn x)).Nodup

instance (rs : List (List ℕ × DF)) : Decidable (DistinctKeys rs) := by
  unfold DistinctKeys; infer_instance

end Proposal
open Proposal

theorem roots_ofRoots (l : List (List ℕ × DF)) : roots (ofRoots l) = l := by
  induction l with
  | nil => rfl
  | cons x l ih => obtain ⟨d, k⟩ := x; simp [ofRoots, roots, ih]

theorem ofRoots_roots (f : DF) : ofRoots (roots f) = f := by
  induction f with
  | nil => rfl
  | cons d k s _ ihs => simp [ofRoots, roots, ihs]

theorem numRoots_eq (f : DF) : f.numRoots = f.roots.length := by
  induction f with
  | nil => rfl
  | cons d k s _ ihs => simp [numRoots, roots, ihs]; omega

theorem canon_ofRoots (l : List (List ℕ × DF)) :
    canon (ofRoots l) = ofRoots (sortRoots (l.map cn)) := by
  induction l with
  | nil => rfl
  | cons x l ih =>
    obtain ⟨d, k⟩ := x
    simp only [ofRoots, canon, ih, roots_ofRoots, List.map_cons, sortRoots, List.foldr_cons, cn]

theorem insertSorted_comm (a b : List ℕ × DF) (h : rootKey a ≠ rootKey b) :
    ∀ m, insertSorted a (insertSorted b m) = insertSorted b (insertSorted a m) := by
  intro m
  induction m with
  | nil =>
    simp only [insertSorted]
    split_ifs <;> first | rfl | omega
  | cons x m ih =>
    simp only [insertSorted]
    split_ifs <;> simp only [insertSorted] <;> split_ifs <;> first | rfl | omega | (rw [ih])

/-- insertion sort by key is invariant under permutations of a list whose keys are distinct -/
theorem sortRoots_perm (l l' : List (List ℕ × DF)) (hp : l.Perm l')
    (hinj : ∀ a ∈ l, ∀ b ∈ l, rootKey a = rootKey b → a = b) :
    sortRoots l = sortRoots l' := by
  unfold sortRoots
  apply hp.foldr_eq'
  intro x hx y hy z
  by_cases hxy : x = y
  · rw [hxy]
  · exact insertSorted_comm y x (fun h => hxy (hinj y hy x hx h).symm) z

theorem canon_ofRoots_perm (rs c c' : List (List ℕ × DF)) (hk : DistinctKeys rs)
    (hp : c.Perm c') (hc : ∀ x ∈ c, x ∈ rs) : canon (ofRoots c) = canon (ofRoots c') := by
  rw [canon_ofRoots, canon_ofRoots]
  congr 1
  apply sortRoots_perm _ _ (hp.map cn)
  intro a ha b hb hab
  simp only [List.mem_map] at ha hb
  obtain ⟨a0, ha0, rfl⟩ := ha
  obtain ⟨b0, hb0, rfl⟩ := hb
  have := List.inj_on_of_nodup_map hk (hc a0 ha0) (hc b0 hb0) hab
  rw [this]

/-- the tree obtained by putting a new clone holding `i` above the chosen top-level clones does not
depend on the order in which they were chosen -/
theorem newNode_perm (rs : List (List ℕ × DF)) (hk : DistinctKeys rs) (i : ℕ) (out : List ℕ)
    (c c' r : List (List ℕ × DF)) (hp : c.Perm c') (hc : ∀ x ∈ c, x ∈ rs) :
    T.mk' (ofRoots (([i], ofRoots c) :: r)) out = T.mk' (ofRoots (([i], ofRoots c') :: r)) out := by
  simp only [T.mk', ofRoots, canon]
  rw [canon_ofRoots_perm rs c c' hk hp hc]

end PhyModel
