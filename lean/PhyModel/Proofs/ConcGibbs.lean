import PhyModel.Proofs.ConcDensity
import PhyModel.Proofs.GibbsTwoStage
/-! Measure-theoretic helper lemmas for the Gibbs-invariance instance of C13: measurability and
nonnegativity of the Escobar–West joint, the Beta density integrates to 1 over `(0,1)`, the
two-component Gamma mixture is jointly measurable, nonnegative and integrates to 1 over `(0,∞)`. -/
open Real ProbabilityTheory MeasureTheory Set Function
open scoped ENNReal

namespace PhyModel.ConcDensity

/-- the Escobar–West joint with real `k`, `n` (`Props.C13.joint` is this at `k = K`, `n = n`) -/
noncomputable def jointR (a b k n x η : ℝ) : ℝ :=
  gammaPDFReal a b x * x ^ (k - 1) * (x + n) * η ^ x * (1 - η) ^ (n - 1)

lemma measurable_jointR (a b k n : ℝ) : Measurable (uncurry (jointR a b k n)) := by
  have hg : Measurable fun p : ℝ × ℝ => gammaPDFReal a b p.1 :=
    (measurable_gammaPDFReal a b).comp measurable_fst
  show Measurable fun p : ℝ × ℝ =>
    gammaPDFReal a b p.1 * p.1 ^ (k - 1) * (p.1 + n) * p.2 ^ p.1 * (1 - p.2) ^ (n - 1)
  fun_prop

lemma jointR_nonneg {a b k n x η : ℝ} (ha : 0 < a) (hb : 0 < b) (hn : 0 < n) (hx : 0 < x)
    (h0 : 0 < η) (h1 : η < 1) : 0 ≤ jointR a b k n x η := by
  unfold jointR
  have := gammaPDFReal_nonneg ha hb x
  have := rpow_nonneg hx.le (k - 1)
  have := rpow_nonneg h0.le x
  have := rpow_nonneg (by linarith : 0 ≤ 1 - η) (n - 1)
  have : 0 ≤ x + n := by linarith
  positivity

lemma jointR_pos {a b k n x η : ℝ} (ha : 0 < a) (hb : 0 < b) (hn : 0 < n) (hx : 0 < x)
    (h0 : 0 < η) (h1 : η < 1) : 0 < jointR a b k n x η := by
  unfold jointR
  have := gammaPDFReal_pos ha hb hx
  have := rpow_pos_of_pos hx (k - 1)
  have := rpow_pos_of_pos h0 x
  have := rpow_pos_of_pos (by linarith : 0 < 1 - η) (n - 1)
  have : 0 < x + n := by linarith
  positivity

/-- the Beta density integrates to 1 over the open unit interval -/
lemma lintegral_betaPDFReal_Ioo {α β : ℝ} (hα : 0 < α) (hβ : 0 < β) :
    ∫⁻ η in Ioo (0 : ℝ) 1, ENNReal.ofReal (betaPDFReal α β η) = 1 := by
  rw [← lintegral_betaPDF_eq_one hα hβ, ← lintegral_indicator measurableSet_Ioo]
  refine lintegral_congr fun η => ?_
  by_cases h : η ∈ Ioo (0 : ℝ) 1
  · rw [indicator_of_mem h]; rfl
  · rw [indicator_of_notMem h, betaPDF, betaPDFReal, if_neg (by exact h), ENNReal.ofReal_zero]

/-- the Gamma density integrates to 1 over `(0, ∞)` -/
lemma lintegral_gammaPDFReal_Ioi {s r : ℝ} (hs : 0 < s) (hr : 0 < r) :
    ∫⁻ x in Ioi (0 : ℝ), ENNReal.ofReal (gammaPDFReal s r x) = 1 := by
  rw [setLIntegral_congr Ioi_ae_eq_Ici, ← lintegral_gammaPDF_eq_one hs hr,
    ← lintegral_indicator measurableSet_Ici]
  refine lintegral_congr fun x => ?_
  by_cases h : x ∈ Ici (0 : ℝ)
  · rw [indicator_of_mem h]; rfl
  · rw [indicator_of_notMem h, gammaPDF, gammaPDFReal, if_neg (by exact h), ENNReal.ofReal_zero]

/-- the Escobar–West mixture weight (`Props.C13.weight`) -/
noncomputable def wR (a b k n η : ℝ) : ℝ :=
  ((a + k - 1) / (n * (b - log η))) / (1 + (a + k - 1) / (n * (b - log η)))

/-- the mixture density `w Gamma(a+k, b - log η) + (1-w) Gamma(a+k-1, b - log η)` -/
noncomputable def mixR (a b k n η x : ℝ) : ℝ :=
  wR a b k n η * gammaPDFReal (a + k) (b - log η) x
    + (1 - wR a b k n η) * gammaPDFReal (a + k - 1) (b - log η) x

lemma wR_mem {a b k n η : ℝ} (ha : 0 < a) (hb : 0 < b) (hk : 1 ≤ k) (hn : 0 < n) (h0 : 0 < η)
    (h1 : η < 1) : 0 ≤ wR a b k n η ∧ wR a b k n η ≤ 1 := by
  have hlog : log η < 0 := log_neg h0 h1
  have hr : 0 < b - log η := by linarith
  have hs : 0 < a + k - 1 := by linarith
  have ho : 0 < (a + k - 1) / (n * (b - log η)) := by positivity
  unfold wR
  constructor
  · positivity
  · rw [div_le_one (by positivity)]; linarith

lemma measurable_gammaPDFReal_rate (s b : ℝ) :
    Measurable fun p : ℝ × ℝ => gammaPDFReal s (b - log p.1) p.2 := by
  unfold gammaPDFReal
  refine Measurable.ite (measurableSet_le measurable_const measurable_snd) ?_ measurable_const
  fun_prop

lemma measurable_mixR (a b k n : ℝ) : Measurable (uncurry (mixR a b k n)) := by
  have h1 := measurable_gammaPDFReal_rate (a + k) b
  have h2 := measurable_gammaPDFReal_rate (a + k - 1) b
  have hw : Measurable fun p : ℝ × ℝ => wR a b k n p.1 := by unfold wR; fun_prop
  show Measurable fun p : ℝ × ℝ =>
    wR a b k n p.1 * gammaPDFReal (a + k) (b - log p.1) p.2
      + (1 - wR a b k n p.1) * gammaPDFReal (a + k - 1) (b - log p.1) p.2
  fun_prop

lemma mixR_nonneg {a b k n η : ℝ} (ha : 0 < a) (hb : 0 < b) (hk : 1 ≤ k) (hn : 0 < n)
    (h0 : 0 < η) (h1 : η < 1) (x : ℝ) : 0 ≤ mixR a b k n η x := by
  obtain ⟨hw0, hw1⟩ := wR_mem ha hb hk hn h0 h1
  have hr : 0 < b - log η := by linarith [log_neg h0 h1]
  have := gammaPDFReal_nonneg (by linarith : 0 < a + k) hr x
  have := gammaPDFReal_nonneg (by linarith : 0 < a + k - 1) hr x
  have : 0 ≤ 1 - wR a b k n η := by linarith
  unfold mixR
  positivity

/-- the mixture density integrates to 1 over `(0, ∞)` -/
lemma lintegral_mixR_Ioi {a b k n η : ℝ} (ha : 0 < a) (hb : 0 < b) (hk : 1 ≤ k) (hn : 0 < n)
    (h0 : 0 < η) (h1 : η < 1) :
    ∫⁻ x in Ioi (0 : ℝ), ENNReal.ofReal (mixR a b k n η x) = 1 := by
  obtain ⟨hw0, hw1⟩ := wR_mem ha hb hk hn h0 h1
  have hr : 0 < b - log η := by linarith [log_neg h0 h1]
  have hs1 : 0 < a + k := by linarith
  have hs : 0 < a + k - 1 := by linarith
  have hw' : 0 ≤ 1 - wR a b k n η := by linarith
  have e : ∀ x, ENNReal.ofReal (mixR a b k n η x)
      = ENNReal.ofReal (wR a b k n η) * ENNReal.ofReal (gammaPDFReal (a + k) (b - log η) x)
        + ENNReal.ofReal (1 - wR a b k n η)
          * ENNReal.ofReal (gammaPDFReal (a + k - 1) (b - log η) x) := fun x => by
    unfold mixR
    rw [ENNReal.ofReal_add (mul_nonneg hw0 (gammaPDFReal_nonneg hs1 hr x))
      (mul_nonneg hw' (gammaPDFReal_nonneg hs hr x)), ENNReal.ofReal_mul hw0,
      ENNReal.ofReal_mul hw']
  simp_rw [e]
  rw [lintegral_add_left ((measurable_gammaPDFReal _ _).ennreal_ofReal.const_mul _),
    lintegral_const_mul' _ _ ENNReal.ofReal_ne_top, lintegral_const_mul' _ _ ENNReal.ofReal_ne_top,
    lintegral_gammaPDFReal_Ioi hs1 hr, lintegral_gammaPDFReal_Ioi hs hr, mul_one, mul_one,
    ← ENNReal.ofReal_add hw0 hw']
  simp

end PhyModel.ConcDensity
