import PhyModel.Proofs.PG8
/-! # C01, stage 3, part 9: `SMC.restrictF` — the forest induced on a set of data points — respects
forest equivalence, composes, and preserves well-formedness. -/

namespace PhyModel.PG
open Orders Orders.Forest Proposal PGSpec Canon SMC

theorem restrictF_cons_roots (keep : ℕ → Bool) (d : List ℕ) (k s : DF) :
    restrictF keep (.cons d k s) = ofRoots (rr keep (d, k) ++ (restrictF keep s).roots) := by
  simp only [restrictF, rr]
  split
  · rfl
  · simp only [List.singleton_append, ofRoots, Canon.ofRoots_roots]

theorem restrictF_roots (keep : ℕ → Bool) (f : DF) :
    restrictF keep f = ofRoots (f.roots.flatMap (rr keep)) := by
  conv_lhs => rw [← Canon.ofRoots_roots f]
  exact restrictF_ofRoots keep _

theorem roots_restrictF (keep : ℕ → Bool) (f : DF) :
    (restrictF keep f).roots = f.roots.flatMap (rr keep) := by
  rw [restrictF_roots, Canon.roots_ofRoots]

/-! ### equivalence -/

theorem eqv_app_right (l : List (List ℕ × DF)) {g g' : DF} (h : Eqv g g') :
    Eqv (ofRoots (l ++ g.roots)) (ofRoots (l ++ g'.roots)) := by
  induction l with
  | nil => simpa [Canon.ofRoots_roots] using h
  | cons a l ih => exact eqv_ofRoots_cons a ih

theorem eqv_app_left (l : List (List ℕ × DF)) {f f' : DF} (h : Eqv f f') :
    Eqv (ofRoots (f.roots ++ l)) (ofRoots (f'.roots ++ l)) := by
  induction h with
  | nil => exact Eqv.refl _
  | cons hd hk _ _ ihs =>
    simp only [roots, List.cons_append, ofRoots]
    exact .cons hd hk ihs
  | swap d₁ k₁ d₂ k₂ s =>
    simp only [roots, List.cons_append, ofRoots]
    exact .swap _ _ _ _ _
  | trans _ _ ih₁ ih₂ => exact ih₁.trans ih₂

theorem eqv_app {f f' g g' : DF} (hf : Eqv f f') (hg : Eqv g g') :
    Eqv (ofRoots (f.roots ++ g.roots)) (ofRoots (f'.roots ++ g'.roots)) :=
  (eqv_app_left g.roots hf).trans (eqv_app_right f'.roots hg)

theorem restrictF_eqv (keep : ℕ → Bool) {f g : DF} (h : Eqv f g) :
    Eqv (restrictF keep f) (restrictF keep g) := by
  induction h with
  | nil => exact Eqv.refl _
  | @cons d d' k k' s s' hd _ _ ihk ihs =>
    have hp : (d.filter keep).Perm (d'.filter keep) := hd.filter keep
    simp only [restrictF]
    by_cases he : (d.filter keep).isEmpty = true
    · have he' : (d'.filter keep).isEmpty = true := by
        rw [List.isEmpty_iff] at he ⊢
        exact (he ▸ hp).symm.eq_nil
      rw [if_pos he, if_pos he']
      exact eqv_app ihk ihs
    · have he' : ¬ (d'.filter keep).isEmpty = true := by
        intro h'
        apply he
        rw [List.isEmpty_iff] at h' ⊢
        exact (h' ▸ hp).eq_nil
      rw [if_neg he, if_neg he']
      exact .cons hp ihk ihs
  | swap d₁ k₁ d₂ k₂ s =>
    rw [restrictF_cons_roots, restrictF_cons_roots, restrictF_cons_roots, restrictF_cons_roots]
    simp only [Canon.roots_ofRoots, ← List.append_assoc]
    exact eqv_ofRoots_perm (List.perm_append_comm.append_right _)
  | trans _ _ ih₁ ih₂ => exact ih₁.trans ih₂

/-! ### composition -/

theorem rr_empty (keep : ℕ → Bool) (d : List ℕ) (k : DF) (h : (d.filter keep).isEmpty = true) :
    rr keep (d, k) = (restrictF keep k).roots := by
  unfold rr; rw [if_pos h]

theorem rr_nonempty (keep : ℕ → Bool) (d : List ℕ) (k : DF) (h : ¬ (d.filter keep).isEmpty = true) :
    rr keep (d, k) = [(d.filter keep, restrictF keep k)] := by
  unfold rr; rw [if_neg h]

theorem restrictF_comp (k₁ k₂ : ℕ → Bool) : ∀ f : DF,
    restrictF k₂ (restrictF k₁ f) = restrictF (fun a => k₁ a && k₂ a) f
  | .nil => rfl
  | .cons d k s => by
    have ihk := restrictF_comp k₁ k₂ k
    have ihs := restrictF_comp k₁ k₂ s
    have hff : (d.filter k₁).filter k₂ = d.filter (fun a => k₁ a && k₂ a) := by
      rw [List.filter_filter]; congr 1; funext a; exact Bool.and_comm _ _
    have hrr : (rr k₁ (d, k)).flatMap (rr k₂) = rr (fun a => k₁ a && k₂ a) (d, k) := by
      by_cases he : (d.filter k₁).isEmpty = true
      · have he2 : (d.filter (fun a => k₁ a && k₂ a)).isEmpty = true := by
          rw [← hff]
          rw [List.isEmpty_iff] at he ⊢
          rw [he]; rfl
        rw [rr_empty _ _ _ he, rr_empty _ _ _ he2, ← roots_restrictF, ihk]
      · rw [rr_nonempty _ _ _ he]
        simp only [List.flatMap_cons, List.flatMap_nil, List.append_nil]
        by_cases he2 : ((d.filter k₁).filter k₂).isEmpty = true
        · rw [rr_empty _ _ _ he2, rr_empty _ _ _ (hff ▸ he2), ihk]
        · rw [rr_nonempty _ _ _ he2, rr_nonempty _ _ _ (hff ▸ he2), ihk, hff]
    rw [restrictF_cons_roots, restrictF_ofRoots, List.flatMap_append, hrr, ← roots_restrictF, ihs,
      ← restrictF_cons_roots]

/-! ### data and well-formedness -/

theorem restrictF_all (keep : ℕ → Bool) : ∀ f : DF, (restrictF keep f).all = f.all.filter keep
  | .nil => rfl
  | .cons d k s => by
    have ihk := restrictF_all keep k
    have ihs := restrictF_all keep s
    simp only [restrictF]
    split
    · rename_i he
      rw [all_ofRoots, List.flatMap_append, ← all_eq_flatMap_roots, ← all_eq_flatMap_roots, ihk, ihs]
      simp only [Forest.all, List.filter_append]
      rw [List.isEmpty_iff.mp he, List.append_nil]
    · simp only [Forest.all, List.filter_append, ihk, ihs]

theorem restrictF_allNonempty (keep : ℕ → Bool) : ∀ f : DF, AllNonempty (restrictF keep f)
  | .nil => trivial
  | .cons d k s => by
    have ihk := restrictF_allNonempty keep k
    have ihs := restrictF_allNonempty keep s
    simp only [restrictF]
    split
    · rw [allNonempty_ofRoots]
      intro x hx
      rcases List.mem_append.mp hx with hx | hx
      · exact (allNonempty_iff_roots _).mp ihk x hx
      · exact (allNonempty_iff_roots _).mp ihs x hx
    · rename_i he
      refine ⟨?_, ihk, ihs⟩
      intro h0
      exact he (by rw [h0]; rfl)

theorem restrictF_wf (keep : ℕ → Bool) {f : DF} (w : WF f) : WF (restrictF keep f) := by
  refine ⟨?_, (ne_iff _).mp (restrictF_allNonempty keep f), ?_⟩
  · rw [restrictF_all]; exact w.nodup.filter _
  · intro a ha
    rw [restrictF_all] at ha
    exact w.small a (List.mem_filter.mp ha).1

end PhyModel.PG
