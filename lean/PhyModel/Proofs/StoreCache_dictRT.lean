import PhyModel.Proofs.StoreCache_Vec
/-! C06, `Tree.from_dict`: every payload is created afresh from its `_data` list (so its `p` is right
by construction) and every `r` is recomputed (`updAll`); this holds for any dictionary. -/
namespace PhyModel.Store.C06
open PhyModel

theorem POK_buildSF (dt : Data) (d : Store.TDict) : ∀ (fuel : Nat) (cs : List Nat) (f : SF),
    Store.buildSF dt d fuel cs = some f → POK dt f
  | 0, _, f, h => by
    unfold Store.buildSF at h
    cases h; trivial
  | fuel+1, [], f, h => by
    unfold Store.buildSF at h
    cases h; trivial
  | fuel+1, c :: cs, f, h => by
    unfold Store.buildSF at h
    simp only [Option.bind_eq_bind, Option.bind_eq_some_iff, Option.pure_def] at h
    obtain ⟨name, _, h⟩ := h
    split at h
    · simp at h
    · simp only [Option.bind_eq_some_iff] at h
      obtain ⟨dl, _, n, hn, kids, hk, sibs, hs, h⟩ := h
      cases h
      exact ⟨(recAdd_spec dt dl _ n hn).2.2.2.1 (freshRec_p dt c name),
        POK_buildSF dt d fuel _ kids hk, POK_buildSF dt d fuel cs sibs hs⟩

/-- **C06, `from_dict`** (in particular `from_dict(to_dict(t))`) -/
theorem cacheOK_fromDict (dt : Data) (d : Store.TDict) (s' : Store)
    (h : Store.fromDict dt d = some s') : CacheOK dt s' := by
  unfold Store.fromDict at h
  simp only [Option.bind_eq_bind, Option.pure_def] at h
  split at h
  · cases h
    exact ⟨trivial, fun _ => rfl⟩
  · split at h
    · cases h
    · simp only [Option.bind_eq_some_iff] at h
      obtain ⟨f0, hf0, h⟩ := h
      cases h
      exact ⟨cacheOKsf_updAll dt _ (POK_buildSF dt d _ _ f0 hf0), fun _ => rfl⟩

end PhyModel.Store.C06
