import PhyModel.Proofs.PGSub7
import Mathlib.Tactic.NormNum
/-! Concrete instance for the non-vacuity examples of the conditional statement about the
random-subtree move (C04): four data points; the full tree is the chain `0 → 1 → 2` with data point 3 an
outlier; choosing data point 2 selects the region rooted at the clone of data point 1 (the parent of the
clone of data point 2), which hangs below the clone of data point 0.  Region data `D = [1, 2, 3]` (two
clone data points and the outlier), remaining forest `{0}`, graft point `0`. -/

namespace PhyModel.PG
open Orders

def subData : Data :=
  { G := 2, S := 1, vals := [[[1/2, 1]], [[1, 1/4]], [[1/3, 1/2]], [[1/4, 1]]],
    op := [1/5, 1/5, 1/5, 1/5], sz := [1, 1, 1, 1] }

def subCfg (k : Proposal.Prop3) : Proposal.Cfg := ⟨k, 1/10, 1, true⟩

/-- the current full tree -/
def subFull : T := T.mk' (.cons [0] (.cons [1] (.cons [2] .nil .nil) .nil) .nil) [3]
/-- the remaining forest once the region is cut out -/
def subRem : DF := .cons [0] .nil .nil
/-- the extracted subtree: region and all outliers -/
def subTree : T := T.mk' (.cons [1] (.cons [2] .nil .nil) .nil) [3]

theorem subGood (i : ℕ) (hi : i < 4) : C19P.GoodIdx subData i := by
  have h4 : i = 0 ∨ i = 1 ∨ i = 2 ∨ i = 3 := by omega
  refine ⟨fun s hs k hk => ?_, ?_, ?_⟩
  · have hs' : s = 0 := by (have : s < 1 := hs); omega
    have hk' : k = 0 ∨ k = 1 := by (have : k < 2 := hk); omega
    subst hs'
    rcases h4 with rfl | rfl | rfl | rfl <;> rcases hk' with rfl | rfl <;>
      norm_num [subData, Data.L, getQ]
  · rcases h4 with rfl | rfl | rfl | rfl <;> norm_num [subData, Data.opOf]
  · rcases h4 with rfl | rfl | rfl | rfl <;> norm_num [subData, Data.opOf]

theorem subHypD (k : Proposal.Prop3) : HypD subData (subCfg k) [1, 2, 3] where
  hG := by decide
  hα := by norm_num [subCfg]
  op0 := by norm_num [subCfg]
  op1 := by norm_num [subCfg]
  nodup := by decide
  good := by
    intro i hi
    simp only [List.mem_cons, List.not_mem_nil, or_false] at hi
    exact subGood i (by omega)
  big := by
    intro i hi
    simp only [List.mem_cons, List.not_mem_nil, or_false] at hi
    rcases hi with rfl | rfl | rfl <;> decide
  ne := by simp
  perm := rfl

theorem subRegionOK : RegionOK subRem (some 0) [1, 2, 3] where
  disj := by
    intro a ha
    have : a = 0 := by simpa [subRem, Forest.all] using ha
    subst this; decide
  nodup := by decide
  key := by
    intro k hk
    have : k = 0 := by simpa using hk.symm
    subst this; decide

theorem subRemGood : ∀ i ∈ subRem.all, C19P.GoodIdx subData i := by
  intro i hi
  have : i = 0 := by simpa [subRem, Forest.all] using hi
  subst this
  exact subGood 0 (by omega)

theorem subFull_wft (k : Proposal.Prop3) : WFT (subCfg k) subFull := by
  refine ⟨by decide +kernel, by decide +kernel, by decide +kernel, by decide +kernel, ?_⟩
  intro h; exact absurd h (by norm_num [subCfg])

theorem subFull_good : ∀ j ∈ subFull.f.all ++ subFull.out, C19P.GoodIdx subData j := by
  intro j hj
  have : j ∈ [2, 1, 0, 3] := by
    have e : subFull.f.all ++ subFull.out = [2, 1, 0, 3] := by decide +kernel
    rw [e] at hj; exact hj
  simp only [List.mem_cons, List.not_mem_nil, or_false] at this
  exact subGood j (by omega)

end PhyModel.PG
