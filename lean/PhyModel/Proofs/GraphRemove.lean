import PhyModel.Proofs.GraphClosure
/-! `remove_subtree` at graph level (`gRemoveSubtree`: `remove_nodes_from(descendants(r) + [r])`): the
removed set is exactly what is reachable from `r`, and what is left is a rooted forest. -/
namespace PhyModel.Graph
open DG

/-- **closed form of `remove_subtree`**: the nodes reachable from `r` go, with every edge touching them -/
theorem gRemoveSubtree_spec {g g' : DG} {r : Nat} (h : gRemoveSubtree g r = some g') :
    r ∈ g.nodes ∧ ∃ D : List Nat, (∀ v, v ∈ D ↔ Reach g r v) ∧ g' = g.removeNodesFrom D := by
  unfold gRemoveSubtree at h
  cases hd : g.descendants r with
  | none => simp [hd] at h
  | some d =>
    simp only [hd, Option.bind_eq_bind, Option.bind_some, Option.pure_def, Option.some.injEq] at h
    obtain ⟨hr, _, hmem⟩ := descendants_spec hd
    refine ⟨hr, d ++ [r], fun v => ?_, h.symm⟩
    simp only [List.mem_append, hmem, List.mem_singleton]
    constructor
    · rintro (⟨h', _⟩ | rfl)
      · exact h'
      · exact .refl _
    · intro h'
      by_cases hv : v = r
      · exact .inr hv
      · exact .inl ⟨h', hv⟩

theorem gRemoveSubtree_isSome {g : DG} {r : Nat} (hr : r ∈ g.nodes) : (gRemoveSubtree g r).isSome = true := by
  unfold gRemoveSubtree
  cases hd : g.descendants r with
  | none => have := descendants_isSome hr; simp [hd] at this
  | some d => simp

/-- removing a set that is closed under the edges and does not contain the root keeps a forest a forest -/
theorem forest_removeClosed {g : DG} {D : List Nat} (hf : IsForest g) (h0 : 0 ∉ D)
    (hc : ∀ e ∈ g.edges, e.1 ∈ D → e.2 ∈ D) : IsForest (g.removeNodesFrom D) := by
  have hedges : (g.removeNodesFrom D).edges = g.edges.filter fun e => !D.contains e.2 := by
    simp only [removeNodesFrom]
    refine List.filter_congr fun e he => ?_
    by_cases h2 : e.2 ∈ D
    · simp [h2]
    · have h1 : e.1 ∉ D := fun h1 => h2 (hc e he h1)
      simp [h1, h2]
  refine IsForest.of_targets_perm ?_ ?_ ?_ ?_ ?_
  · exact hf.nodes_nodup.filter _
  · simp [removeNodesFrom, hf.root_live, h0]
  · intro e he
    simp only [removeNodesFrom, List.mem_filter, Bool.and_eq_true, Bool.not_eq_true', List.contains_eq_mem,
      decide_eq_false_iff_not] at he ⊢
    exact ⟨(hf.edges_live e he.1).1, he.2.1⟩
  · show ((g.removeNodesFrom D).edges.map (·.2)).Perm _
    rw [hedges]
    have h1 : (g.edges.filter fun e => !D.contains e.2).map (·.2) = g.targets.filter fun v => !D.contains v := by
      simp only [DG.targets, List.filter_map]; rfl
    rw [h1]
    have h2 : (g.removeNodesFrom D).nodes.erase 0 = (g.nodes.erase 0).filter fun v => !D.contains v := by
      simp only [removeNodesFrom]
      rw [(hf.nodes_nodup.filter _).erase_eq_filter, hf.nodes_nodup.erase_eq_filter, List.filter_filter,
        List.filter_filter]
      exact List.filter_congr fun v _ => by simp [Bool.and_comm]
    rw [h2]
    exact hf.targets_perm.filter _
  · have key : ∀ v, Reach g 0 v → v ∉ D → Reach (g.removeNodesFrom D) 0 v := by
      intro v hv
      induction hv with
      | refl => exact fun _ => .refl 0
      | @step b c _ he ih =>
        intro hcD
        have hbD : b ∉ D := fun hb => hcD (hc _ he hb)
        refine .step (ih hbD) ?_
        simp [removeNodesFrom, he, hbD, hcD]
    intro v hv
    simp only [removeNodesFrom, List.mem_filter, Bool.not_eq_true', List.contains_eq_mem,
      decide_eq_false_iff_not] at hv
    exact key v (hf.reach v hv.1) hv.2

/-- **`remove_subtree` keeps the graph a rooted forest** (the subtree root is a clone) -/
theorem forest_removeSubtree {g g' : DG} {r : Nat} (hf : IsForest g) (hr0 : r ≠ 0)
    (h : gRemoveSubtree g r = some g') : IsForest g' := by
  obtain ⟨_, D, hD, rfl⟩ := gRemoveSubtree_spec h
  refine forest_removeClosed hf (fun h0 => hr0 (hf.reach_root ((hD 0).1 h0))) fun e he h1 => ?_
  exact (hD _).2 (.step ((hD _).1 h1) he)

end PhyModel.Graph
