import PhyModel.Proofs.StoreCache_addSub
import PhyModel.Proofs.StoreCache_create
import Mathlib.Data.List.Perm.Basic
/-! C06, `Tree.add_subtree` from hypotheses on the *edited* store only (`WFc s`): the renumbered
subtree gets fresh indices (so indices stay unique), the graft point's payload keeps its name, and the
name → index map after `_relabel_grafted_subtree_nodes` sends that name either to the graft point or
to a grafted clone — which lies below the graft point, so the recomputed path covers the graft point
in both cases. -/
namespace PhyModel.Store.C06
open PhyModel

/-! ### `reindex` allocates consecutive fresh indices -/

theorem numNodes_cons (n : NodeRec) (k s : SF) :
    (SF.cons n k s).numNodes = 1 + k.numNodes + s.numNodes := rfl

theorem reindex_spec : ∀ (f : SF) (c : Nat),
    (Store.reindex f c).1.idxs = List.range' c f.numNodes ∧ (Store.reindex f c).2 = c + f.numNodes
  | .nil, c => ⟨rfl, rfl⟩
  | .cons n k s, c => by
    obtain ⟨hk1, hk2⟩ := reindex_spec k (c + 1)
    obtain ⟨hs1, hs2⟩ := reindex_spec s (Store.reindex k (c + 1)).2
    rw [hk2] at hs1 hs2
    simp only [Store.reindex, idxs_cons, numNodes_cons, hk1, hk2, hs1, hs2]
    refine ⟨?_, by omega⟩
    rw [List.range'_append_1, show 1 + k.numNodes + s.numNodes = (k.numNodes + s.numNodes) + 1 by omega,
      List.range'_succ]

/-! ### indices after the graft -/

theorem idxs_graftAt_perm (i : Nat) (g : SF) : ∀ f : SF, f.idxs.Nodup → i ∈ f.idxs →
    (SF.graftAt i g f).idxs.Perm (g.idxs ++ f.idxs)
  | .nil, _, h => by simp at h
  | .cons n k s, hnd, hi => by
    obtain ⟨hnk, hns, hk, hs, hks⟩ := nodup_cons_idxs hnd
    rw [graftAt_cons, idxs_cons]
    by_cases h1 : n.idx = i
    · rw [if_pos h1, idxs_cons, idxs_append, List.append_assoc]
      exact List.perm_middle.symm
    · rw [if_neg h1, idxs_cons]
      rw [idxs_cons, List.mem_cons, List.mem_append] at hi
      rcases hi with hi | hi | hi
      · exact absurd hi.symm h1
      · rw [graftAt_of_notMem i g s (hks i hi)]
        refine ((List.Perm.cons _ ((idxs_graftAt_perm i g k hk hi).append_right _))).trans ?_
        rw [List.append_assoc]
        exact List.perm_middle.symm
      · have hik : i ∉ k.idxs := fun e => hks i e hi
        rw [graftAt_of_notMem i g k hik]
        refine ((List.Perm.cons _ (((idxs_graftAt_perm i g s hs hi).append_left _).trans
          (List.perm_append_comm_assoc _ _ _)))).trans ?_
        exact List.perm_middle.symm

theorem mem_idxs_graftAt_sub (i : Nat) (g : SF) : ∀ (f : SF) (j : Nat), i ∈ f.idxs → j ∈ g.idxs →
    j ∈ (SF.graftAt i g f).idxs
  | .nil, _, h, _ => by simp at h
  | .cons n k s, j, hi, hj => by
    rw [idxs_cons, List.mem_cons, List.mem_append] at hi
    rw [graftAt_cons]
    by_cases h1 : n.idx = i
    · rw [if_pos h1, idxs_cons, idxs_append]
      simp only [List.mem_cons, List.mem_append]
      tauto
    · rw [if_neg h1, idxs_cons]
      simp only [List.mem_cons, List.mem_append]
      rcases hi with hi | hi | hi
      · exact absurd hi.symm h1
      · exact Or.inr (Or.inl (mem_idxs_graftAt_sub i g k j hi hj))
      · exact Or.inr (Or.inr (mem_idxs_graftAt_sub i g s j hi hj))

/-- a grafted clone lies below the graft point: the path to it covers the path to the graft point -/
theorem ROKx_graftAt_below (dt : Data) (i j : Nat) (g : SF) (hg : ROK dt g) (hj : j ∈ g.idxs) :
    ∀ f : SF, ROK dt f → ROKx dt j (SF.graftAt i g f)
  | .nil, _ => trivial
  | .cons n k s, h => by
    rw [ROK_cons] at h
    rw [graftAt_cons]
    by_cases h1 : n.idx = i
    · rw [if_pos h1, ROKx_cons]
      refine ⟨Or.inl (Or.inr ?_), (ROK_append dt g k hg h.2.1).toROKx j, h.2.2.toROKx j⟩
      rw [idxs_append]; exact List.mem_append_left _ hj
    · rw [if_neg h1, ROKx_cons]
      refine ⟨?_, ROKx_graftAt_below dt i j g hg hj k h.2.1, ROKx_graftAt_below dt i j g hg hj s h.2.2⟩
      by_cases h2 : i ∈ k.idxs
      · exact Or.inl (Or.inr (mem_idxs_graftAt_sub i g k j h2 hj))
      · rw [graftAt_of_notMem i g k h2]
        exact Or.inr h.1

/-! ### `_relabel_grafted_subtree_nodes` -/

theorem lookup_alSet_ne {κ ν} [BEq κ] [LawfulBEq κ] (m : List (κ × ν)) (k x : κ) (v : ν)
    (hne : x ≠ k) : (alSet m k v).lookup x = m.lookup x := by
  have hb : (x == k) = false := by simpa using hne
  unfold alSet
  split
  · clear * - hb
    induction m with
    | nil => rfl
    | cons e m ih =>
      rw [List.map_cons, List.lookup_cons, List.lookup_cons, ih]
      by_cases he : e.1 = k
      · have : (e.1 == k) = true := by simpa using he
        simp only [this, if_true, hb]
        rw [he, hb]
      · have : (e.1 == k) = false := by simpa using he
        simp only [this, Bool.false_eq_true, if_false]
  · rw [List.lookup_append]
    simp [List.lookup_cons, hb]

theorem relabelGrafted_cons (sub : Store) (n : NodeRec) (rest : List NodeRec) (fl : Int)
    (data : List (Int × List Nat)) (ni : List (Int × Nat)) (nir ren : List (Nat × Int)) :
    sub.relabelGrafted (n :: rest) fl data ni nir ren =
      sub.relabelGrafted rest (if alHas data n.name then fl + 1 else fl)
        (alSet data (if alHas data n.name then (if alHas data n.name then fl + 1 else fl) else n.name)
          (sub.dataOf n.name))
        (alSet ni (if alHas data n.name then (if alHas data n.name then fl + 1 else fl) else n.name)
          n.idx)
        (alSet nir n.idx
          (if alHas data n.name then (if alHas data n.name then fl + 1 else fl) else n.name))
        (ren ++ [(n.idx,
          if alHas data n.name then (if alHas data n.name then fl + 1 else fl) else n.name)]) := rfl

/-- the new name → index map sends a name to its old index or to a grafted index -/
theorem relabel_ni_lookup (sub : Store) : ∀ (l : List NodeRec) (fl : Int)
    (data : List (Int × List Nat)) (ni : List (Int × Nat)) (nir ren : List (Nat × Int)) (x : Int)
    (j : Nat), (sub.relabelGrafted l fl data ni nir ren).2.1.lookup x = some j →
    ni.lookup x = some j ∨ j ∈ l.map (·.idx)
  | [], _, _, _, _, _, _, _, h => Or.inl h
  | n :: rest, fl, data, ni, nir, ren, x, j, h => by
    rw [relabelGrafted_cons] at h
    rcases relabel_ni_lookup sub rest _ _ _ _ _ x j h with h1 | h1
    · generalize (if alHas data n.name then (if alHas data n.name then fl + 1 else fl)
        else n.name) = nm at h1
      by_cases hx : x = nm
      · subst hx
        rw [lookup_alSet_self] at h1
        cases h1
        exact Or.inr (by simp)
      · rw [lookup_alSet_ne _ _ _ _ hx] at h1
        exact Or.inl h1
    · exact Or.inr (List.mem_cons_of_mem _ h1)

/-- the renaming only has grafted indices as keys -/
theorem relabel_ren_lookup (sub : Store) : ∀ (l : List NodeRec) (fl : Int)
    (data : List (Int × List Nat)) (ni : List (Int × Nat)) (nir ren : List (Nat × Int)) (x : Nat),
    ren.lookup x = none → x ∉ l.map (·.idx) →
    (sub.relabelGrafted l fl data ni nir ren).2.2.2.lookup x = none
  | [], _, _, _, _, _, _, h, _ => h
  | n :: rest, fl, data, ni, nir, ren, x, h, hx => by
    rw [relabelGrafted_cons]
    rw [List.map_cons, List.mem_cons, not_or] at hx
    apply relabel_ren_lookup sub rest _ _ _ _ _ x _ hx.2
    rw [List.lookup_append, h]
    have : (x == n.idx) = false := by simpa using hx.1
    simp [List.lookup_cons, this]

/-! ### the operation -/

/-- **C06, `add_subtree`**, from well-formedness of the edited store only -/
theorem cacheOK_addSub_in (dt : Data) (s sub s' : Store) (parent : Option Int) (hw : WFc s)
    (hc : CacheOK dt s) (hcs : CacheOK dt sub) (h : s.addSubtree dt sub parent = some s') :
    CacheOK dt s' := by
  cases parent with
  | none =>
    -- no path is located: the general lemma's extra hypothesis is not used
    have hg : CacheOKsf dt (Store.reindex sub.forest s.fresh).1 :=
      (cacheOKsf_of_er_eq dt (er_reindex _ _)).2 hcs.1
    unfold Store.addSubtree at h
    simp only [Option.bind_eq_bind, Option.pure_def, Option.bind_eq_some_iff] at h
    obtain ⟨f1, hf1, h⟩ := h
    cases hf1
    refine cacheOK_updatePath_none dt _ s' ?_ h
    exact (cacheOKsf_mapRecs dt (renameBy _) (renameBy_dps _) (renameBy_p _) (renameBy_r _) _).2
      (cacheOKsf_append dt _ _ hg hc.1)
  | some pn =>
    have hg : CacheOKsf dt (Store.reindex sub.forest s.fresh).1 :=
      (cacheOKsf_of_er_eq dt (er_reindex _ _)).2 hcs.1
    obtain ⟨hgp, hgr⟩ := (cacheOKsf_iff dt _).1 hg
    obtain ⟨hp, hr⟩ := (cacheOKsf_iff dt _).1 hc.1
    unfold Store.addSubtree at h
    simp only [Option.bind_eq_bind, Option.pure_def, Option.bind_eq_some_iff] at h
    obtain ⟨pi, hpi, x, hx, f1, hf1, pi', hpi', pr, hpr, hup⟩ := h
    cases hf1
    have : pi' = pi := Option.some.inj (hpi'.symm.trans hpi)
    subst this
    obtain ⟨hxi, hxm⟩ := findSub_spec pi' s.forest x.1 x.2 hx
    have hpim : pi' ∈ s.forest.idxs := hxi ▸ mem_idxs_of_mem_recs hxm
    -- fresh indices
    have hgi := (reindex_spec sub.forest s.fresh).1
    have hfresh : ∀ j ∈ (Store.reindex sub.forest s.fresh).1.idxs, j ∉ s.forest.idxs := by
      intro j hj hj'
      rw [hgi, List.mem_range'_1] at hj
      have := le_maxIdx _ _ hj'
      unfold Store.fresh at hj
      omega
    have hnd1 : (SF.graftAt pi' (Store.reindex sub.forest s.fresh).1 s.forest).idxs.Nodup := by
      rw [(idxs_graftAt_perm pi' _ s.forest hw.idxs_nodup hpim).nodup_iff, List.nodup_append]
      exact ⟨hgi ▸ List.nodup_range', hw.idxs_nodup, fun a ha b hb e => hfresh a ha (e ▸ hb)⟩
    -- the payload at the graft point keeps its name
    obtain ⟨kk, hfs⟩ := recAt_some hpr
    change SF.findSub pi' ((SF.graftAt pi' _ s.forest).mapRecs (renameBy _)) = _ at hfs
    rw [findSub_mapRecs pi' _ (renameBy_idx _), findSub_graftAt, hx] at hfs
    simp only [Option.map_some, Option.some.injEq, Prod.mk.injEq] at hfs
    have hpr_eq : pr = x.1 := by
      rw [← hfs.1]
      unfold renameBy
      rw [hxi, relabel_ren_lookup sub _ _ _ _ _ _ pi' rfl (fun e => hfresh pi' e hpim)]
    -- where the recomputation starts
    refine cacheOK_updatePath_some dt _ s' pr.name ?_ ?_ ?_ hup
    · show ((SF.graftAt pi' _ s.forest).mapRecs (renameBy _)).idxs.Nodup
      rw [idxs_mapRecs _ (renameBy_idx _)]; exact hnd1
    · exact (POK_mapRecs dt (renameBy _) (renameBy_dps _) (renameBy_p _) _).2
        (POK_graftAt dt pi' _ hgp _ hp)
    · intro i hi
      refine (ROKx_mapRecs dt i (renameBy _) (renameBy_idx _) (renameBy_p _) (renameBy_r _) _).2 ?_
      rcases relabel_ni_lookup sub _ _ _ _ _ _ _ _ hi with h1 | h1
      · rw [hpr_eq] at h1
        rw [hw.lookup_idx x.1 hxm i h1, hxi]
        exact ROKx_graftAt dt pi' _ hgr _ hr
      · exact ROKx_graftAt_below dt pi' i _ hgr h1 _ hr

end PhyModel.Store.C06
