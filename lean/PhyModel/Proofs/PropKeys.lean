import PhyModel.Proofs.PropCanon
import Mathlib.Data.List.Pairwise
/-! # C08 helpers 8: `DistinctKeys` holds for every forest with distinct data points and non-empty
top-level clones (data indices below the sentinel `big`): the sort key of a clone is the smallest
data index of its clade, and canonicalisation does not change the set of data of a clade. -/

namespace PhyModel
open Orders Orders.Forest Proposal

/-- `v` is the minimum of `m` and the set `S` -/
def IsMinOf (S : ℕ → Prop) (m v : ℕ) : Prop := v ≤ m ∧ (∀ a, S a → v ≤ a) ∧ (v = m ∨ S v)

theorem IsMinOf.congr {S S' : ℕ → Prop} {m v : ℕ} (h : IsMinOf S m v) (hS : ∀ a, S a ↔ S' a) :
    IsMinOf S' m v :=
  ⟨h.1, fun a ha => h.2.1 a ((hS a).mpr ha), h.2.2.imp id (hS v).mp⟩

theorem IsMinOf.unique {S S' : ℕ → Prop} {m v v' : ℕ} (h : IsMinOf S m v) (h' : IsMinOf S' m v')
    (hS : ∀ a, S a ↔ S' a) : v = v' := by
  apply Nat.le_antisymm
  · rcases h'.2.2 with e | e
    · rw [e]; exact h.1
    · exact h.2.1 _ ((hS _).mpr e)
  · rcases h.2.2 with e | e
    · rw [e]; exact h'.1
    · exact h'.2.1 _ ((hS _).mp e)

theorem listMin_acc (l : List ℕ) : ∀ (S : ℕ → Prop) (m0 m : ℕ), IsMinOf S m0 m →
    IsMinOf (fun a => S a ∨ a ∈ l) m0 (listMin l m) := by
  induction l with
  | nil => intro S m0 m h; simpa [listMin] using h
  | cons b l ih =>
    intro S m0 m h
    simp only [listMin]
    have h' : IsMinOf (fun a => S a ∨ a = b) m0 (if b < m then b else m) := by
      obtain ⟨h1, h2, h3⟩ := h
      split
      · refine ⟨by omega, ?_, Or.inr (Or.inr rfl)⟩
        rintro a (ha | rfl)
        · have := h2 a ha; omega
        · exact Nat.le_refl _
      · refine ⟨h1, ?_, h3.imp id Or.inl⟩
        rintro a (ha | rfl)
        · exact h2 a ha
        · omega
    apply (ih _ m0 _ h').congr
    intro a
    simp only [List.mem_cons]
    tauto

theorem minDp_acc (f : DF) : ∀ (S : ℕ → Prop) (m0 m : ℕ), IsMinOf S m0 m →
    IsMinOf (fun a => S a ∨ a ∈ f.all) m0 (minDp f m) := by
  induction f with
  | nil => intro S m0 m h; simpa [minDp, Forest.all] using h
  | cons d k s ihk ihs =>
    intro S m0 m h
    simp only [minDp]
    apply (ihs _ m0 _ (ihk _ m0 _ (listMin_acc d S m0 m h))).congr
    intro a
    simp only [Forest.all, List.mem_append]
    tauto

/-- the sort key of a top-level clone is the smallest data index of its clade (or the sentinel) -/
theorem rootKey_isMin (x : List ℕ × DF) :
    IsMinOf (fun a => a ∈ x.1 ∨ a ∈ x.2.all) big (rootKey x) := by
  have h0 : IsMinOf (fun _ => False) big big := ⟨Nat.le_refl _, fun _ h => h.elim, Or.inl rfl⟩
  apply (minDp_acc x.2 _ big _ (listMin_acc x.1 _ big big h0)).congr
  intro a
  simp

theorem mem_insertNat (a b : ℕ) (l : List ℕ) : b ∈ insertNat a l ↔ b = a ∨ b ∈ l := by
  induction l with
  | nil => simp [insertNat]
  | cons c l ih =>
    simp only [insertNat]
    split
    · simp
    · simp only [List.mem_cons, ih]; tauto

theorem mem_sortNat (b : ℕ) (l : List ℕ) : b ∈ sortNat l ↔ b ∈ l := by
  induction l with
  | nil => simp [sortNat]
  | cons a l ih =>
    have : sortNat (a :: l) = insertNat a (sortNat l) := rfl
    rw [this, mem_insertNat, ih]
    simp

theorem mem_insertSorted (r y : List ℕ × DF) (l : List (List ℕ × DF)) :
    y ∈ insertSorted r l ↔ y = r ∨ y ∈ l := by
  induction l with
  | nil => simp [insertSorted]
  | cons c l ih =>
    simp only [insertSorted]
    split
    · simp
    · simp only [List.mem_cons, ih]; tauto

theorem mem_all_iff_roots (f : DF) (a : ℕ) :
    a ∈ f.all ↔ ∃ x ∈ f.roots, a ∈ x.1 ∨ a ∈ x.2.all := by
  induction f with
  | nil => simp [Forest.all, roots]
  | cons d k s _ ihs =>
    simp only [Forest.all, roots, List.mem_append, List.mem_cons, ihs, exists_eq_or_imp]
    rw [or_comm (a := a ∈ k.all)]

theorem mem_canon_all (f : DF) : ∀ a, a ∈ (canon f).all ↔ a ∈ f.all := by
  induction f with
  | nil => intro a; simp [canon]
  | cons d k s ihk ihs =>
    intro a
    simp only [canon]
    rw [mem_all_iff_roots, roots_ofRoots]
    constructor
    · rintro ⟨x, hx, h⟩
      rw [mem_insertSorted] at hx
      rcases hx with rfl | hx
      · simp only [mem_sortNat, ihk] at h
        simp only [Forest.all, List.mem_append]
        tauto
      · have : a ∈ (canon s).all := (mem_all_iff_roots _ _).mpr ⟨x, hx, h⟩
        simp [Forest.all, (ihs a).mp this]
    · intro h
      simp only [Forest.all, List.mem_append] at h
      rcases h with (h | h) | h
      · exact ⟨_, (mem_insertSorted _ _ _).mpr (Or.inl rfl), Or.inr ((ihk a).mpr h)⟩
      · exact ⟨_, (mem_insertSorted _ _ _).mpr (Or.inl rfl), Or.inl ((mem_sortNat _ _).mpr h)⟩
      · obtain ⟨x, hx, hh⟩ := (mem_all_iff_roots _ _).mp ((ihs a).mpr h)
        exact ⟨x, (mem_insertSorted _ _ _).mpr (Or.inr hx), hh⟩

/-- canonicalising a top-level clone does not change its sort key -/
theorem rootKey_cn (x : List ℕ × DF) : rootKey (cn x) = rootKey x := by
  apply (rootKey_isMin (cn x)).unique (rootKey_isMin x)
  intro a
  simp only [cn, mem_sortNat, mem_canon_all]

theorem all_eq_flatMap_roots (f : DF) : f.all = f.roots.flatMap (fun x => x.2.all ++ x.1) := by
  induction f with
  | nil => rfl
  | cons d k s _ ihs => simp only [Forest.all, roots, List.flatMap_cons, ihs]

/-- distinct data points, non-empty top-level clones, indices below the sentinel ⇒ distinct keys -/
theorem Proposal.distinctKeys_of_nodup (f : DF) (hnd : f.all.Nodup)
    (hne : ∀ x ∈ f.roots, x.1 ≠ []) (hbig : ∀ a ∈ f.all, a < big) : DistinctKeys f.roots := by
  unfold DistinctKeys
  simp only [rootKey_cn]
  -- the key of a top-level clone lies in its clade
  have hin : ∀ x ∈ f.roots, rootKey x ∈ x.2.all ++ x.1 := by
    intro x hx
    obtain ⟨h1, h2, h3⟩ := rootKey_isMin x
    obtain ⟨b, hb⟩ := List.exists_mem_of_ne_nil _ (hne x hx)
    have hbf : b ∈ f.all := (mem_all_iff_roots f b).mpr ⟨x, hx, Or.inl hb⟩
    have hlt : rootKey x < big := Nat.lt_of_le_of_lt (h2 b (Or.inl hb)) (hbig b hbf)
    rcases h3 with e | e
    · omega
    · simp only [List.mem_append]; tauto
  rw [all_eq_flatMap_roots, List.nodup_flatMap] at hnd
  unfold List.Nodup
  rw [List.pairwise_map]
  apply hnd.2.imp_of_mem
  intro x y hx hy hdis heq
  have h1 := hin x hx
  have h2 := hin y hy
  rw [heq] at h1
  exact (List.disjoint_left.mp hdis) h1 h2

end PhyModel
