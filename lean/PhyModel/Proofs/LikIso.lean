import PhyModel.Proofs.LikProofs

open Finset BigOperators

namespace PhyModel

theorem conv_left_comm_get (G : ℕ) (a b c : Vec) (t : ℕ) (ht : t < G) :
    getQ (conv G a (conv G b c)) t = getQ (conv G b (conv G a c)) t := by
  rw [getQ_conv G _ _ t ht, getQ_conv G _ _ t ht]
  have e1 : ∀ j ∈ range (t+1), getQ a j * getQ (conv G b c) (t - j)
      = ∑ i ∈ range (t - j + 1), getQ a j * (getQ b i * getQ c (t - j - i)) := by
    intro j hj
    simp only [mem_range] at hj
    rw [getQ_conv G _ _ (t - j) (by omega), Finset.mul_sum]
  have e2 : ∀ i ∈ range (t+1), getQ b i * getQ (conv G a c) (t - i)
      = ∑ j ∈ range (t - i + 1), getQ b i * (getQ a j * getQ c (t - i - j)) := by
    intro i hi
    simp only [mem_range] at hi
    rw [getQ_conv G _ _ (t - i) (by omega), Finset.mul_sum]
  rw [Finset.sum_congr rfl e1, Finset.sum_congr rfl e2]
  rw [Finset.sum_comm' (s' := fun i => range (t - i + 1)) (t' := range (t+1))]
  · apply Finset.sum_congr rfl
    intro i _
    apply Finset.sum_congr rfl
    intro j _
    have : t - j - i = t - i - j := by omega
    rw [this]; ring
  · intro j i
    simp only [mem_range]
    omega

theorem conv_left_comm (G : ℕ) (a b c : Vec) :
    conv G a (conv G b c) = conv G b (conv G a c) := by
  have h1 : conv G a (conv G b c) = (List.range G).map (fun t => getQ (conv G a (conv G b c)) t) := by
    apply List.ext_getElem
    · simp [conv]
    · intro i h1 h2
      simp only [conv, List.length_map, List.length_range] at h1
      simp only [List.getElem_map, List.getElem_range]
      unfold getQ
      simp [List.getD, conv, h1]
  have h2 : conv G b (conv G a c) = (List.range G).map (fun t => getQ (conv G b (conv G a c)) t) := by
    apply List.ext_getElem
    · simp [conv]
    · intro i h1 h2
      simp only [conv, List.length_map, List.length_range] at h1
      simp only [List.getElem_map, List.getElem_range]
      unfold getQ
      simp [List.getD, conv, h1]
  rw [h1, h2]
  apply List.map_congr_left
  intro t ht
  exact conv_left_comm_get G a b c t (List.mem_range.mp ht)

/-- forests equal up to the order of siblings at any depth -/
inductive Iso : Forest → Forest → Prop
  | refl (f : Forest) : Iso f f
  | swap (p : Vec) (k : Forest) (p' : Vec) (k' : Forest) (s : Forest) :
      Iso (.cons p k (.cons p' k' s)) (.cons p' k' (.cons p k s))
  | cons (p : Vec) {k k' s s' : Forest} : Iso k k' → Iso s s' → Iso (.cons p k s) (.cons p k' s')
  | symm {f g : Forest} : Iso f g → Iso g f
  | trans {f g h : Forest} : Iso f g → Iso g h → Iso f h

/-- the recursion value is independent of sibling order -/
theorem D_iso (G : ℕ) {f g : Forest} (h : Iso f g) : D G f = D G g := by
  induction h with
  | refl f => rfl
  | swap p k p' k' s => simp only [D]; exact conv_left_comm G _ _ _
  | cons p _ _ ihk ihs => simp only [D, ihk, ihs]
  | symm _ ih => exact ih.symm
  | trans _ _ ih1 ih2 => exact ih1.trans ih2

#print axioms D_iso
end PhyModel
