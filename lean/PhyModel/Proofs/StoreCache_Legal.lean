import PhyModel.Proofs.StoreCache_DecWF
import PhyModel.Proofs.StoreWF_Step
/-! C06 joined with C07: along a history whose edits are `Legal` (`LegalRun`, `Proofs/StoreWF_Step`)
C07's invariant holds in every visited state (`inv0_step`), which discharges the well-formedness
hypothesis of `cacheOK_run`.  Also a Boolean check of `Legal` for the non-vacuity examples. -/
namespace PhyModel.Store.C06
open PhyModel

theorem along_wf_of_legalRun (dt : Data) : ∀ (ops : List Op) (sys : Sys),
    (∀ s ∈ sys, WF s ∧ Full s) → LegalRun dt sys ops → Along dt (fun sy => ∀ s ∈ sy, WF s) sys ops
  | [], _, _, _ => trivial
  | _ :: ops, sys, hall, hleg =>
    ⟨fun s hs => (hall s hs).1, fun sys' hs =>
      along_wf_of_legalRun dt ops sys' (inv0_step hall hleg.1 hs) (hleg.2 sys' hs)⟩

/-- **C06 for every legal history from any well-formed start.** -/
theorem cacheOK_run_legal (dt : Data) (hNZ : DataNZ dt) (ops : List Op) (sys sys' : Sys)
    (hall : ∀ s ∈ sys, WF s ∧ Full s) (hleg : LegalRun dt sys ops)
    (hin : ∀ op ∈ ops, InRange dt op) (hc : ∀ s ∈ sys, CacheOK dt s)
    (h : run dt sys ops = some sys') : ∀ s ∈ sys', CacheOK dt s :=
  cacheOK_run dt hNZ ops sys sys'
    (Along.mono (fun _ hsy s hs => (hsy s hs).toWFc) (along_wf_of_legalRun dt ops sys hall hleg))
    hin hc h

/-! ### a Boolean check of `Legal` -/

def denseB (s : Store) : Bool := s.forest.recs.all fun n => decide (n.name < (s.numNodes : Int))

theorem denseB_sound (s : Store) (h : denseB s = true) : Dense s := by
  intro n hn
  exact of_decide_eq_true (List.all_eq_true.1 h n hn)

def legalB (sys : Sys) : Op → Bool
  | .create h _ d => !d.isEmpty && (match sys[h]? with
      | some s => denseB s && d.all fun x => !(s.data.flatMap (·.2)).contains x
      | none => true)
  | .createAdd h _ _ => (match sys[h]? with
      | some s => denseB s
      | none => true)
  | .rmSub h hs => (match sys[h]?, sys[hs]? with
      | some s, some sb => Store.keyEq sb s || (match sb.roots with
          | [r] => (match s.nodeIdx.lookup r with
              | some i => (match s.forest.findSub i with
                  | some x => decide (sb.nodes.Perm (SF.cons x.1 x.2 .nil).names)
                  | none => false)
              | none => false)
          | _ => false)
      | _, _ => true)
  | .addSub h hs _ => (match sys[h]?, sys[hs]? with
      | some s, some sb =>
        (sb.forest.recs.flatMap fun n => sb.dataOf n.name).all fun d =>
          !(s.data.flatMap (·.2)).contains d
      | _, _ => true)
  | _ => true

theorem legalB_sound (sys : Sys) (op : Op) (h : legalB sys op = true) : Legal sys op := by
  cases op with
  | create hd ch d =>
    simp only [legalB, Bool.and_eq_true, Bool.not_eq_true'] at h
    refine ⟨fun e => by rw [e] at h; simp at h, fun s hs => ?_⟩
    rw [hs] at h
    simp only [Bool.and_eq_true, List.all_eq_true, Bool.not_eq_true'] at h
    exact ⟨denseB_sound s h.2.1, fun x hx hc => by
      have := h.2.2 x hx
      rw [List.contains_iff_mem.2 hc] at this
      cases this⟩
  | createAdd hd ch dp =>
    intro s hs
    simp only [legalB, hs] at h
    exact denseB_sound s h
  | rmSub hd hsb =>
    intro s sb hs hsb' hk
    simp only [legalB, hs, hsb', hk, Bool.false_or] at h
    split at h
    · rename_i r hr
      split at h
      · rename_i i hi
        split at h
        · rename_i x hx
          exact ⟨r, i, x, hr, hi, hx, of_decide_eq_true h⟩
        · cases h
      · cases h
    · cases h
  | addSub hd hsb par =>
    intro s sb hs hsb' d hd' hc
    simp only [legalB, hs, hsb', List.all_eq_true, Bool.not_eq_true'] at h
    have := h d hd'
    rw [List.contains_iff_mem.2 hc] at this
    cases this
  | addDp _ _ _ => trivial
  | rmDp _ _ _ => trivial
  | rmOut _ _ => trivial
  | getSub _ _ => trivial
  | relabel _ => trivial
  | copy _ => trivial
  | dictRT _ => trivial
  | update _ => trivial
  | fresh => trivial

/-- checks `Legal` in every state an operation of `ops` is applied to -/
def legalRunB (dt : Data) : Sys → List Op → Bool
  | _, [] => true
  | sys, op :: ops => legalB sys op && (match step dt sys op with
      | some sys' => legalRunB dt sys' ops
      | none => true)

theorem legalRunB_sound (dt : Data) : ∀ (ops : List Op) (sys : Sys),
    legalRunB dt sys ops = true → LegalRun dt sys ops
  | [], _, _ => trivial
  | op :: ops, sys, h => by
    simp only [legalRunB, Bool.and_eq_true] at h
    refine ⟨legalB_sound sys op h.1, fun sys' hs => ?_⟩
    have h2 := h.2
    rw [hs] at h2
    exact legalRunB_sound dt ops sys' h2

end PhyModel.Store.C06
