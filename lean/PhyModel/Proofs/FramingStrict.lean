import PhyModel.Proofs.FramingCont
/-! Helper lemmas for C20: the strict container reader (end marker and trailer required). -/
namespace PhyModel.Framing

theorem parseF_nil (f : Nat) : parseF f [] = none := by
  cases f <;> simp [parseF]

theorem parseF_single (f : Nat) (a : Sym) : parseF f [a] = none := by
  cases f <;> simp [parseF]

/-- The strict block parser on the first `n` symbols of a block stream followed by `t`: nothing
while a symbol of the block stream is missing, afterwards the body and the part of `t` read. -/
theorem parseF_take (B : Nat) : ∀ (g : Nat) (b t : List Sym) (n f : Nat),
    ((blocksF B g b ++ t).take n).length ≤ f →
    (n < (blocksF B g b).length → parseF f ((blocksF B g b ++ t).take n) = none) ∧
    ((blocksF B g b).length ≤ n →
      parseF f ((blocksF B g b ++ t).take n) = some (b, t.take (n - (blocksF B g b).length))) := by
  have final : ∀ (b t : List Sym) (n f : Nat),
      ((1 :: b.length :: b ++ t).take n).length ≤ f →
      (n < (1 :: b.length :: b).length → parseF f ((1 :: b.length :: b ++ t).take n) = none) ∧
      ((1 :: b.length :: b).length ≤ n →
        parseF f ((1 :: b.length :: b ++ t).take n) = some (b, t.take (n - (1 :: b.length :: b).length))) := by
    intro b t n f hf
    match n with
    | 0 => exact ⟨fun _ => by simp [parseF_nil], fun h => by simp at h⟩
    | 1 => exact ⟨fun _ => by simp [parseF_single], fun h => by simp at h⟩
    | m + 2 =>
      cases f with
      | zero => simp at hf
      | succ f =>
        simp only [List.cons_append, List.take_succ_cons, parseF, List.length_cons]
        constructor
        · intro h
          have : ((b ++ t).take m).length < b.length := by
            rw [List.length_take, List.length_append]; omega
          simp only [this, if_true]
        · intro h
          have hm : b.length ≤ m := by omega
          have : ¬ ((b ++ t).take m).length < b.length := by
            rw [List.length_take, List.length_append]; omega
          simp only [this, if_false, if_true]
          rw [List.take_take, Nat.min_eq_left hm, List.take_left' rfl]
          rw [List.take_append, List.take_of_length_le hm, List.drop_left' rfl]
          have e : m + 2 - (b.length + 1 + 1) = m - b.length := by omega
          rw [e]
  intro g
  induction g with
  | zero => intro b t n f hf; simpa [blocksF] using final b t n f (by simpa [blocksF] using hf)
  | succ g ih =>
    intro b t n f hf
    by_cases hb : b.length ≤ B + 1
    · simpa [blocksF, hb] using final b t n f (by simpa [blocksF, hb] using hf)
    · have hlen : (blocksF B (g + 1) b).length = 2 + (B + 1) + (blocksF B g (b.drop (B + 1))).length := by
        simp [blocksF, hb]; omega
      have hshape : blocksF B (g + 1) b ++ t
          = 0 :: (B + 1) :: (b.take (B + 1) ++ (blocksF B g (b.drop (B + 1)) ++ t)) := by
        simp [blocksF, hb]
      have h2 := blocksF_length_ge B g (b.drop (B + 1))
      rw [hshape] at hf ⊢
      rw [hlen]
      match n with
      | 0 => exact ⟨fun _ => by simp [parseF_nil], fun h => by omega⟩
      | 1 => exact ⟨fun _ => by simp [parseF_single], fun h => by omega⟩
      | m + 2 =>
        cases f with
        | zero => simp at hf
        | succ f =>
          have htl : (b.take (B + 1)).length = B + 1 := by simp; omega
          by_cases hm : m < B + 1
          · refine ⟨fun _ => ?_, fun h => by omega⟩
            simp only [List.take_succ_cons, parseF]
            have : ((b.take (B + 1) ++ (blocksF B g (b.drop (B + 1)) ++ t)).take m).length < B + 1 := by
              rw [List.length_take, List.length_append, htl]; omega
            simp only [this, if_true]
          · have e : (b.take (B + 1) ++ (blocksF B g (b.drop (B + 1)) ++ t)).take m
                = b.take (B + 1) ++ (blocksF B g (b.drop (B + 1)) ++ t).take (m - (B + 1)) := by
              rw [List.take_append, htl]
              rw [List.take_of_length_le (by omega)]
            simp only [List.take_succ_cons] at hf ⊢
            rw [e] at hf ⊢
            obtain ⟨i1, i2⟩ := ih (b.drop (B + 1)) t (m - (B + 1)) f (by
              simp only [List.length_cons, List.length_append, htl] at hf
              omega)
            have hnl : ¬ (b.take (B + 1) ++ (blocksF B g (b.drop (B + 1)) ++ t).take (m - (B + 1))).length < B + 1 := by
              simp only [List.length_append, htl]; omega
            have hdrop : (b.take (B + 1) ++ (blocksF B g (b.drop (B + 1)) ++ t).take (m - (B + 1))).drop (B + 1)
                = (blocksF B g (b.drop (B + 1)) ++ t).take (m - (B + 1)) := by
              rw [List.drop_append_of_le_length (by omega), List.drop_of_length_le (by omega), List.nil_append]
            have htake : (b.take (B + 1) ++ (blocksF B g (b.drop (B + 1)) ++ t).take (m - (B + 1))).take (B + 1)
                = b.take (B + 1) := by
              rw [List.take_append_of_le_length (by omega), List.take_take, Nat.min_self]
            simp only [parseF, hnl, Nat.zero_ne_one, if_false, if_true, hdrop, htake]
            constructor
            · intro h
              rw [i1 (by omega)]
            · intro h
              rw [i2 (by omega)]
              simp only [List.take_append_drop]
              congr 3
              omega

/-- the strict reader accepts exactly the complete file -/
theorem unpack_take (B : Nat) (b : List Sym) (n : Nat) :
    unpack ((pack B b).take n) = if (pack B b).length ≤ n then some b else none := by
  have hl : (pack B b).length = 3 + (blocksF B b.length b).length + 2 := by
    simp [pack, header, blocks, trailer]; omega
  rw [hl, pack_eq]
  match n with
  | 0 => simp [unpack, header]
  | 1 => simp [unpack, header]
  | 2 => simp [unpack, header]
  | m + 3 =>
    obtain ⟨p1, p2⟩ := parseF_take B b.length b (trailer b) m
      ((31 :: 139 :: 8 :: (blocksF B b.length b ++ trailer b)).take (m + 3)).length (by
        simp only [List.take_succ_cons, List.length_cons]; omega)
    simp only [List.take_succ_cons] at p1 p2
    simp only [unpack, List.take_succ_cons, List.take_zero, header, if_true, List.drop_succ_cons,
      List.drop_zero]
    by_cases h : m < (blocksF B b.length b).length
    · rw [p1 h]
      have : ¬ 3 + (blocksF B b.length b).length + 2 ≤ m + 3 := by omega
      simp [this]
    · rw [p2 (by omega)]
      by_cases h2 : 3 + (blocksF B b.length b).length + 2 ≤ m + 3
      · have : (trailer b).take (m - (blocksF B b.length b).length) = [checksum b, b.length] := by
          rw [List.take_of_length_le (by simp [trailer]; omega)]; rfl
        simp [this, h2]
      · have hk : m - (blocksF B b.length b).length = 0 ∨ m - (blocksF B b.length b).length = 1 := by omega
        rcases hk with hk | hk <;> simp [hk, trailer, h2]

end PhyModel.Framing
