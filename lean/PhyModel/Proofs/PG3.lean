import PhyModel.Proofs.PG2
import PhyModel.Proofs.PropWeights
import PhyModel.Proofs.ASMC5
import Mathlib.Data.Fintype.Sets
/-! # C01 instance, part 3: the `ASMC.Spec` of PhyClone's conditional SMC along a fixed order, and
the facts about one level that `ASMC.ValidTo` needs. -/

namespace PhyModel.PG
open Orders Orders.Forest Proposal PGSpec Finset BigOperators

/-- standing hypotheses: positive likelihoods, `α > 0`, outlier proposal probability in `[0,1)`,
distinct data indices below the sentinel of the canonical order -/
structure Hyp (dt : Data) (c : Cfg) (σ : List ℕ) : Prop where
  hG : 0 < dt.G
  hα : 0 < c.α
  op0 : 0 ≤ c.op
  op1 : c.op < 1
  nodup : σ.Nodup
  good : ∀ i ∈ σ, C19P.GoodIdx dt i
  big : ∀ i ∈ σ, i < Forest.big

/-- unnormalised target of level `t`: point mass at the empty tree, then `κ · pMarg · pdf`, and
`κ · pOne · pdf` at the last level.  The constant `κ > 0` is immaterial for the invariance statement;
with `κ = 1/N` the abstract particle weights are literally those of the code, whose swarm starts with
weights `1/N` where the abstract one starts with weights 1. -/
def gT (dt : Data) (c : Cfg) (σ : List ℕ) (κ : ℚ) (t : ℕ) (x : T) : ℚ :=
  if x ∈ level c σ t then
    (if t = 0 then 1
     else κ * (if t = σ.length then pOneT dt c x * pdfOf c x else pMargT dt c x * pdfOf c x))
  else 0

/-- proposal probability of `x'` from the level-`t` state `x` -/
def qT (dt : Data) (c : Cfg) (σ : List ℕ) (t : ℕ) (x x' : T) : ℚ :=
  if x ∈ level c σ t then
    match σ[t]? with
    | some i => tprob (table dt c (t == 0) x i) x'
    | none => 0
  else 0

/-- removal of the last-placed data point -/
def parentT (σ : List ℕ) (x : T) : T :=
  match lev x with
  | 0 => x
  | t+1 =>
    match σ[t]? with
    | some i => recover i x
    | none => x

/-- `relative_ess ≤ threshold`, never before the first step -/
def essRule (θ : ℚ) (m : ℕ) (t : ℕ) (w : Fin (m+1) → ℚ) : Bool :=
  t != 0 && decide ((∑ i, w i) * (∑ i, w i) / (((m : ℚ) + 1) * ∑ i, w i * w i) ≤ θ)

theorem essRule_symm (θ : ℚ) (m t : ℕ) (w : Fin (m+1) → ℚ) (τ : Equiv.Perm (Fin (m+1))) :
    essRule θ m t (w ∘ τ) = essRule θ m t w := by
  unfold essRule
  have h1 : ∑ i, (w ∘ τ) i = ∑ i, w i := Equiv.sum_comp τ w
  have h2 : ∑ i, (w ∘ τ) i * (w ∘ τ) i = ∑ i, w i * w i := Equiv.sum_comp τ (fun i => w i * w i)
  rw [h1, h2]

abbrev St (L : List T) := {x : T // x ∈ L}

theorem empty_mem_states (c : Cfg) (σ : List ℕ) : T.empty ∈ states c σ :=
  mem_states.mpr ⟨0, Nat.zero_le _, by simp [level]⟩

/-- the specification; `L` is any list of trees containing the states met along `σ` -/
def spec (dt : Data) (c : Cfg) (σ : List ℕ) (κ : ℚ) (L : List T) (hL : ∀ x ∈ states c σ, x ∈ L) (θ : ℚ)
    (m : ℕ) : ASMC.Spec (m := m) (St L) where
  q t x x' := qT dt c σ t x.1 x'.1
  g t x := gT dt c σ κ t x.1
  parent x := if h : parentT σ x.1 ∈ L then ⟨_, h⟩ else x
  x0 := ⟨T.empty, hL _ (empty_mem_states c σ)⟩
  rs := essRule θ m

/-! ### one level -/

variable {dt : Data} {c : Cfg} {σ : List ℕ} {κ : ℚ}

theorem level_good (h : Hyp dt c σ) {t : ℕ} {x : T} (hx : x ∈ level c σ t) : C19P.Good dt x.f x.out := by
  intro j hj
  have := (level_inv c σ t x hx).perm.subset hj
  exact h.good j (List.mem_of_mem_take this)

theorem level_pMarg_pos (h : Hyp dt c σ) {t : ℕ} {x : T} (hx : x ∈ level c σ t) : 0 < pMargT dt c x :=
  C19P.Density.pMarg_pos dt h.hG c.α h.hα x.f x.out (level_good h hx)

theorem level_pOne_pos (h : Hyp dt c σ) {t : ℕ} {x : T} (hx : x ∈ level c σ t) : 0 < pOneT dt c x :=
  C19P.Density.pOne_pos dt h.hG c.α h.hα x.f x.out (level_good h hx)

theorem gT_pos (h : Hyp dt c σ) (hκ : 0 < κ) {t : ℕ} {x : T} (hx : x ∈ level c σ t) :
    0 < gT dt c σ κ t x := by
  unfold gT
  rw [if_pos hx]
  split_ifs
  · exact one_pos
  · exact mul_pos hκ (mul_pos (level_pOne_pos h hx) (pdfOf_pos c x))
  · exact mul_pos hκ (mul_pos (level_pMarg_pos h hx) (pdfOf_pos c x))

theorem gT_nonneg (h : Hyp dt c σ) (hκ : 0 < κ) (t : ℕ) (x : T) : 0 ≤ gT dt c σ κ t x := by
  by_cases hx : x ∈ level c σ t
  · exact le_of_lt (gT_pos h hκ hx)
  · unfold gT; rw [if_neg hx]

theorem mem_of_gT_pos {t : ℕ} {x : T} (hg : 0 < gT dt c σ κ t x) : x ∈ level c σ t := by
  by_contra hx
  unfold gT at hg
  rw [if_neg hx] at hg
  exact lt_irrefl _ hg

/-- the next data point is fresh for a level-`t` state, which is a well-formed parent -/
theorem level_wf (h : Hyp dt c σ) {t : ℕ} {x : T} (hx : x ∈ level c σ t) {i : ℕ} (hi : σ[t]? = some i) :
    WFParent x i := by
  have inv := level_inv c σ t x hx
  obtain ⟨hlt, rfl⟩ := List.getElem?_eq_some_iff.mp hi
  have hnotin : σ[t] ∉ σ.take t := by
    intro hm
    obtain ⟨k, hk, hk'⟩ := List.getElem_of_mem hm
    rw [List.getElem_take] at hk'
    have hk2 : k < t := by simpa [List.length_take] using (lt_of_lt_of_le hk (by simp))
    have := (List.Nodup.getElem_inj_iff h.nodup).mp hk'
    omega
  have hnd : (x.f.all ++ x.out).Nodup := inv.perm.nodup_iff.mpr (h.nodup.sublist (List.take_sublist _ _))
  apply wfParent_of_nodup x _ (List.nodup_append.mp hnd).1 inv.ne
  · intro a ha
    exact h.big a (List.mem_of_mem_take (inv.perm.subset (List.mem_append_left _ ha)))
  · intro hm; exact hnotin (inv.perm.subset (List.mem_append_left _ hm))
  · intro hm; exact hnotin (inv.perm.subset (List.mem_append_right _ hm))

theorem level_placements_pos (h : Hyp dt c σ) {t : ℕ} {x : T} (hx : x ∈ level c σ t) {i : ℕ}
    (hi : σ[t]? = some i) : ∀ kt ∈ placements x i, 0 < pMargT dt c kt.2 := by
  intro kt hkt
  obtain ⟨hlt, rfl⟩ := List.getElem?_eq_some_iff.mp hi
  exact C19P.Density.pMarg_pos dt h.hG c.α h.hα _ _
    (placements_good dt x _ (level_good h hx) (h.good _ (List.getElem_mem hlt)) kt hkt)

theorem level_first {t : ℕ} {x : T} (hx : x ∈ level c σ t) : (t == 0) = true → x.f.numRoots = 0 := by
  intro ht
  have : t = 0 := by simpa using ht
  subst this
  simp only [level, List.mem_singleton] at hx
  subst hx
  rfl

theorem child_mem_level {t : ℕ} {x x' : T} (hx : x ∈ level c σ t) {i : ℕ} (hi : σ[t]? = some i)
    (hc : x' ∈ children c x i) : x' ∈ level c σ (t+1) :=
  mem_level_succ.mpr ⟨i, hi, x, hx, hc⟩

/-- removing the last-placed data point of a child gives back the parent -/
theorem parentT_child (h : Hyp dt c σ) {t : ℕ} {x x' : T} (hx : x ∈ level c σ t) {i : ℕ}
    (hi : σ[t]? = some i) (hc : x' ∈ children c x i) : parentT σ x' = x := by
  have hlev := (level_inv c σ (t+1) x' (child_mem_level hx hi hc)).lev
  obtain ⟨kt, hkt, _, rfl⟩ := mem_children.mp hc
  unfold parentT
  rw [hlev]
  simp only [hi]
  rw [recover_placement_proof x i (level_wf h hx hi) kt hkt]
  exact (level_inv c σ t x hx).canon

theorem table_nonneg (h : Hyp dt c σ) {t : ℕ} {x : T} (hx : x ∈ level c σ t) {i : ℕ}
    (hi : σ[t]? = some i) (b : Bool) : ∀ tq ∈ table dt c b x i, 0 ≤ tq.2 :=
  fun tq htq => le_of_lt (table_entry dt c b x i h.op0 h.op1 (level_placements_pos h hx hi) tq htq).1

theorem qT_nonneg (h : Hyp dt c σ) (t : ℕ) (x x' : T) : 0 ≤ qT dt c σ t x x' := by
  unfold qT
  by_cases hx : x ∈ level c σ t
  · rw [if_pos hx]
    cases hi : σ[t]? with
    | none => exact le_refl _
    | some i => exact tprob_nonneg _ (table_nonneg h hx hi _) x'
  · rw [if_neg hx]

/-- a positive proposal probability means: `x` is a level-`t` state and `x'` one of its children -/
theorem of_qT_pos (h : Hyp dt c σ) {t : ℕ} {x x' : T} (hq : 0 < qT dt c σ t x x') :
    x ∈ level c σ t ∧ ∃ i, σ[t]? = some i ∧ x' ∈ children c x i := by
  unfold qT at hq
  by_cases hx : x ∈ level c σ t
  · rw [if_pos hx] at hq
    refine ⟨hx, ?_⟩
    cases hi : σ[t]? with
    | none => rw [hi] at hq; exact absurd hq (lt_irrefl _)
    | some i =>
      rw [hi] at hq
      obtain ⟨q, hm⟩ := mem_of_tprob_pos _ _ hq
      exact ⟨i, rfl, (table_entry dt c _ x i h.op0 h.op1 (level_placements_pos h hx hi) _ hm).2⟩
  · rw [if_neg hx] at hq; exact absurd hq (lt_irrefl _)

/-- every child is proposed with positive probability -/
theorem qT_pos (h : Hyp dt c σ) {t : ℕ} {x x' : T} (hx : x ∈ level c σ t) {i : ℕ}
    (hi : σ[t]? = some i) (hc : x' ∈ children c x i) : 0 < qT dt c σ t x x' := by
  unfold qT
  rw [if_pos hx]
  simp only [hi]
  obtain ⟨kt, hkt, hp, rfl⟩ := mem_children.mp hc
  obtain ⟨q, hq, hm⟩ := support_complete_proof dt c (t == 0) x i h.op0 h.op1
    (fun _ => level_placements_pos h hx hi) kt hkt hp
  exact tprob_pos_of_mem _ (table_nonneg h hx hi _) _ q hq hm

end PhyModel.PG
