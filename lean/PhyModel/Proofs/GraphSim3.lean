import PhyModel.Proofs.GraphSim2
import PhyModel.Proofs.GraphOfGraft
import PhyModel.Proofs.StoreWF_addSub
/-! Simulation of the structural store model by the graph model, part 3: `Tree.add_subtree` of the store
model is `gAddSubtree` on the graphs of the two forests (renaming: the association list of the
re-indexing the structural operation applies), and the children handed to `gCreateRootNode` by
`Tree.create_root_node` are clones of the tree as it is (the side condition `GLegal (.create ..)`). -/
namespace PhyModel.Graph
open PhyModel PhyModel.Store PhyModel.Store.SF

/-! ### `add_subtree` -/

/-- **`Tree.add_subtree` of the store model is `gAddSubtree`** (`compose` + `remove_node_retain_edges`):
`p` is the graph index of the parent (0: the virtual root), `m` the association list that sends the
dummy root and the clones of the subtree to the fresh indices the structural operation hands out. -/
theorem graph_store_addSubtree {dt : Data} {s sub s' : Store} {parent : Option Int} (hwf : WF s) (hsub : WF sub)
    (h : s.addSubtree dt sub parent = some s') :
    ∃ p m g', gAddSubtree (graphOf s.forest) (graphOf sub.forest) p (ren m) = some g' ∧
      GEquiv g' (graphOf s'.forest) := by
  obtain ⟨f1, src, hf1, hu⟩ := addSubtree_mid h
  have h0 := WF.zero_notMem hwf
  have hs0 := WF.zero_notMem hsub
  let φ := reindexMap sub.forest s.fresh
  let m := (0 :: sub.forest.idxs).map fun a => (a, φ a)
  have hren : ∀ a ∈ 0 :: sub.forest.idxs, ren m a = φ a := fun a ha => ren_alist φ ha
  have hmap : (0 :: sub.forest.idxs).map (ren m) = (0 :: sub.forest.idxs).map φ := List.map_congr_left hren
  have hmi : mapIdx (ren m) sub.forest = (Store.reindex sub.forest s.fresh).1 := by
    rw [reindex_eq_mapIdx _ hsub.idxs_nodup]
    exact mapIdx_congr _ fun a ha => hren a (List.mem_cons_of_mem _ ha)
  have hg : graphOf s'.forest = graphOf f1 := by
    rw [graphOf_updatePathToRoot hu]
    exact graphOf_mapRecs _ (fun n => by split <;> rfl) f1
  have key : ∀ p, (p = 0 ∨ p ∈ s.forest.idxs) →
      ∃ g', gAddSubtree (graphOf s.forest) (graphOf sub.forest) p (ren m) = some g' ∧
        GEquiv g' (graphOf (if p = 0 then (Store.reindex sub.forest s.fresh).1.append s.forest
          else SF.graftAt p (Store.reindex sub.forest s.fresh).1 s.forest)) := by
    intro p hp
    obtain ⟨g', hg', hn, he⟩ := graph_graft (ρ := ren m) hwf.idxs_nodup h0 hsub.idxs_nodup hs0 hp
      (hmap ▸ nodup_map_reindexMap s.fresh hsub.idxs_nodup hs0)
      (fun a ha hmem => by
        rw [hren a ha] at hmem
        have h1 : s.fresh ≤ reindexMap sub.forest s.fresh a := le_reindexMap sub.forest s.fresh a
        have h2 : reindexMap sub.forest s.fresh a ∈ 0 :: s.forest.idxs := hmem
        have hpos : 0 < s.fresh := by unfold Store.fresh; omega
        rcases List.mem_cons.1 h2 with h2 | h2
        · omega
        · have h3 : reindexMap sub.forest s.fresh a < s.fresh := lt_fresh _ h2
          omega)
    rw [hmi] at hn he
    exact ⟨g', hg', hn, he⟩
  rcases hf1 with rfl | ⟨pi, hpi, rfl⟩
  · obtain ⟨g', hg', he⟩ := key 0 (.inl rfl)
    rw [if_pos rfl] at he
    exact ⟨0, m, g', hg', hg ▸ he⟩
  · have hne : pi ≠ 0 := fun hc => h0 (hc ▸ hpi)
    obtain ⟨g', hg', he⟩ := key pi (.inr hpi)
    rw [if_neg hne] at he
    exact ⟨pi, m, g', hg', hg ▸ he⟩

/-! ### `create_root_node`: the children are clones -/

/-- the graph indices `create_root_node` looks up for the children are indices of top-level clones of the
tree as it is: none is the index of the node being created -/
theorem createRootNode_kids {dt : Data} {s : Store} {ch : List Int} {data : List Nat} {r : Store × Int}
    {cis : List Nat} (hwf : WF s) (h : s.createRootNode dt ch data = some r)
    (hc : ch.mapM (fun c => (alSet s.nodeIdx (s.numNodes : Int) s.fresh).lookup c) = some cis) :
    ∀ c ∈ cis, c ≠ s.fresh := by
  unfold Store.createRootNode at h
  simp only [Option.bind_eq_bind, Option.bind_eq_some_iff, Option.pure_def] at h
  obtain ⟨n1, _, cis', hcis, h⟩ := h
  have : cis' = cis := Option.some.inj (hcis.symm.trans hc)
  subst this
  split at h
  · cases h
  · rename_i hl
    have hlen : (s.forest.takeRoots cis').1.rootRecs.length = cis'.length := by simpa using hl
    obtain ⟨_, _, htop⟩ := cis_perm_top hwf.idxs_nodup hlen
    intro c hcm heq
    exact C06.fresh_notMem s (heq ▸ (topIdxs_sublist s.forest).subset (htop c hcm))

/-! ### non-vacuity -/

open C07Ex in
/-- `t3` (clone 1 = index 2 alone, outlier 2) gets `sub` (clone 0 = index 1) back under clone 1: the
structural operation hands out index 3 for the clone and 4 for the dummy root of the subtree -/
example : WF t3 ∧ WF sub ∧ t3.fresh = 3 ∧ graphOf t3.forest = ⟨[0, 2], [(0, 2)]⟩ ∧
    graphOf sub.forest = ⟨[0, 1], [(0, 1)]⟩ ∧
    (t3.addSubtree dt sub (some 1)).map (fun s => graphOf s.forest) = some ⟨[0, 2, 3], [(0, 2), (2, 3)]⟩ ∧
    gAddSubtree (graphOf t3.forest) (graphOf sub.forest) 2
      (ren ((0 :: sub.forest.idxs).map fun a => (a, reindexMap sub.forest t3.fresh a))) =
        some ⟨[0, 2, 3], [(0, 2), (2, 3)]⟩ :=
  ⟨(Store.wfB_iff _).1 (by decide +kernel), (Store.wfB_iff _).1 (by decide +kernel), by decide +kernel⟩

end PhyModel.Graph
