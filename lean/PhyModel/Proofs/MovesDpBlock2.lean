import PhyModel.Proofs.MovesDpBlock1
/-! The candidate lists of the data-point step form blocks on well-formed trees. -/
namespace PhyModel
open Orders Orders.Forest PhyModel.Moves Gibbs

namespace Canon

/-- well-formed tree: canonical representation, data points (outliers included) pairwise distinct and
below the sentinel, no empty clone -/
structure WFT (x : T) : Prop where
  canonF : canon x.f = x.f
  sortedOut : sortNat x.out = x.out
  nodup : (x.f.all ++ x.out).Nodup
  ne : NE x.f
  small : ∀ a ∈ x.f.all ++ x.out, a < big

instance decNE : ∀ f : DF, Decidable (NE f)
  | .nil => isTrue trivial
  | .cons d k s =>
    have := decNE k
    have := decNE s
    inferInstanceAs (Decidable (d ≠ [] ∧ NE k ∧ NE s))

instance (x : T) : Decidable (WFT x) :=
  decidable_of_iff (canon x.f = x.f ∧ sortNat x.out = x.out ∧ (x.f.all ++ x.out).Nodup ∧ NE x.f ∧
    ∀ a ∈ x.f.all ++ x.out, a < big)
    ⟨fun h => ⟨h.1, h.2.1, h.2.2.1, h.2.2.2.1, h.2.2.2.2⟩, fun h => ⟨h.1, h.2, h.3, h.4, h.5⟩⟩

theorem WFT.wf {x : T} (w : WFT x) : WF x.f :=
  ⟨(List.nodup_append.mp w.nodup).1, w.ne, fun a ha => w.small a (List.mem_append_left _ ha)⟩

/-- the candidate list of the data-point step as a function of the tree with `i` removed -/
def dpCore (outl : Bool) (i : Nat) (f0 : DF) (out0 : List Nat) : List T :=
  ((nodesOf f0).map fun nd => T.mk' (addDpAt (nd.1.headD 0) i f0) out0) ++
    (if outl then [T.mk' f0 (out0 ++ [i])] else [])

theorem dpCands_eq (outl : Bool) (x : T) (i : Nat) :
    dpCands outl x i = dpCore outl i (removeDp i x.f) (x.out.filter (· != i)) := rfl

/-- the context of `dpCore` -/
structure Base (i : Nat) (f0 : DF) (out0 : List Nat) : Prop where
  wf : WF f0
  inf : i ∉ f0.all
  iout : i ∉ out0
  ibig : i < big

theorem mem_dpCore {outl : Bool} {i : Nat} {f0 : DF} {out0 : List Nat} (b : Base i f0 out0) {t : T} :
    t ∈ dpCore outl i f0 out0 ↔
      (∃ a ∈ f0.all, t = T.mk' (addDpAt a i f0) out0) ∨ (outl = true ∧ t = T.mk' f0 (out0 ++ [i])) := by
  unfold dpCore
  rw [List.mem_append, List.mem_map]
  apply or_congr
  · constructor
    · rintro ⟨nd, hnd, rfl⟩
      exact ⟨nd.1.headD 0, mem_all_iff.mpr ⟨nd, hnd, headD_mem (node_ne b.wf.ne nd hnd)⟩, rfl⟩
    · rintro ⟨a, ha, rfl⟩
      obtain ⟨nd, hnd, hand⟩ := mem_all_iff.mp ha
      refine ⟨nd, hnd, ?_⟩
      rw [addDpAt_congr_key i (same_node_iff b.wf hnd (headD_mem (node_ne b.wf.ne nd hnd)) hand)]
  · cases outl <;> simp

theorem dpCore_nodup {outl : Bool} {i : Nat} {f0 : DF} {out0 : List Nat} (b : Base i f0 out0) :
    (dpCore outl i f0 out0).Nodup := by
  unfold dpCore
  refine List.nodup_append.mpr ⟨?_, ?_, ?_⟩
  · refine List.Nodup.map_on ?_ (nodesOf_nodup b.wf)
    intro nd₁ h₁ nd₂ h₂ e
    have k₁ := headD_mem (node_ne b.wf.ne nd₁ h₁)
    have k₂ := headD_mem (node_ne b.wf.ne nd₂ h₂)
    have ec : canon (addDpAt (nd₁.1.headD 0) i f0) = canon (addDpAt (nd₂.1.headD 0) i f0) :=
      congrArg T.f e
    have hq := (canon_eq_iff (addDpAt_wf _ b.wf b.inf b.ibig)).mp ec
    have hne : nd₁.1.headD 0 ≠ i := fun e' => b.inf (mem_all_iff.mpr ⟨nd₁, h₁, e' ▸ k₁⟩)
    have ht := together_eqv i (nd₁.1.headD 0) hq
    rw [together_addDpAt b.inf hne, together_addDpAt b.inf hne] at ht
    have h1 : together (nd₁.1.headD 0) (nd₁.1.headD 0) f0 = true :=
      together_iff.mpr ⟨nd₁, h₁, k₁, k₁⟩
    rw [h1] at ht
    obtain ⟨nd, hnd, a₂, a₁⟩ := together_iff.mp ht.symm
    exact (node_unique b.wf hnd h₁ a₁ k₁).symm.trans (node_unique b.wf hnd h₂ a₂ k₂)
  · cases outl <;> simp
  · intro t ht t' ht' e
    subst e
    obtain ⟨nd, _, rfl⟩ := List.mem_map.mp ht
    cases outl
    · simp at ht'
    · simp only [if_true, List.mem_singleton] at ht'
      have : sortNat out0 = sortNat (out0 ++ [i]) := congrArg T.out ht'
      have hi : i ∈ sortNat out0 := by rw [this, mem_sortNat]; simp
      exact b.iout (mem_sortNat.mp hi)

/-- `dpCore` depends on the reduced tree only up to equivalence -/
theorem dpCore_perm {outl : Bool} {i : Nat} {f0 f0' : DF} {out0 out0' : List Nat} (b : Base i f0 out0)
    (hf : Eqv f0 f0') (ho : out0.Perm out0') : (dpCore outl i f0 out0).Perm (dpCore outl i f0' out0') := by
  have b' : Base i f0' out0' := ⟨hf.wf b.wf, fun h => b.inf (hf.all_perm.mem_iff.mpr h),
    fun h => b.iout (ho.mem_iff.mpr h), b.ibig⟩
  rw [List.perm_ext_iff_of_nodup (dpCore_nodup b) (dpCore_nodup b')]
  intro t
  rw [mem_dpCore b, mem_dpCore b']
  have e1 : ∀ a, T.mk' (addDpAt a i f0) out0 = T.mk' (addDpAt a i f0') out0' := by
    intro a
    unfold T.mk'
    rw [canon_congr (addDpAt_eqv a i hf) (addDpAt_wf a b.wf b.inf b.ibig), sortNat_congr ho]
  have e2 : T.mk' f0 (out0 ++ [i]) = T.mk' f0' (out0' ++ [i]) := by
    unfold T.mk'
    rw [canon_congr hf b.wf, sortNat_congr (ho.append_right _)]
  apply or_congr
  · constructor
    · rintro ⟨a, ha, rfl⟩; exact ⟨a, hf.all_perm.mem_iff.mp ha, e1 a⟩
    · rintro ⟨a, ha, rfl⟩; exact ⟨a, hf.all_perm.mem_iff.mpr ha, (e1 a).symm⟩
  · rw [e2]

/-- every candidate reduces to the same tree when `i` is removed again, and `i` is movable in it -/
theorem dpCore_base {outl : Bool} {i : Nat} {f0 : DF} {out0 : List Nat} (b : Base i f0 out0) {y : T}
    (hy : y ∈ dpCore outl i f0 out0) :
    Eqv (removeDp i y.f) f0 ∧ (y.out.filter (· != i)).Perm out0 ∧ dpMovable y i = true := by
  rcases (mem_dpCore b).mp hy with ⟨a, ha, rfl⟩ | ⟨_, rfl⟩
  · have hai : a ≠ i := fun e => b.inf (e ▸ ha)
    refine ⟨?_, ?_, ?_⟩
    · have := removeDp_eqv i (canon_eqv (addDpAt a i f0))
      rw [removeDp_addDpAt a b.inf] at this
      exact this
    · show ((sortNat out0).filter (· != i)).Perm out0
      rw [filter_ne_of_not_mem (fun h => b.iout (mem_sortNat.mp h))]
      exact sortNat_perm out0
    · -- the clone of `i` also holds `a`
      have ht : together i a (canon (addDpAt a i f0)) = true := by
        rw [together_eqv i a (canon_eqv _), together_addDpAt b.inf hai]
        obtain ⟨nd, hnd, hand⟩ := mem_all_iff.mp ha
        exact together_iff.mpr ⟨nd, hnd, hand, hand⟩
      obtain ⟨nd, hnd, hi, ha'⟩ := together_iff.mp ht
      have wy : WF (canon (addDpAt a i f0)) := canon_wf (addDpAt_wf a b.wf b.inf b.ibig)
      unfold dpMovable
      rw [Bool.or_eq_true]; right
      rw [decide_eq_true_eq]
      show 1 < holderSize i (canon (addDpAt a i f0))
      unfold holderSize
      have hsome : ((nodesOf (canon (addDpAt a i f0))).find? fun nd => nd.1.contains i).isSome := by
        rw [List.find?_isSome]; exact ⟨nd, hnd, List.contains_iff_mem.mpr hi⟩
      obtain ⟨nd', hnd'⟩ := Option.isSome_iff_exists.mp hsome
      rw [hnd']
      have hmem := List.mem_of_find?_eq_some hnd'
      have hci : i ∈ nd'.1 := List.contains_iff_mem.mp (List.find?_some (p := fun nd : List Nat × DF => nd.1.contains i) hnd')
      have : nd' = nd := node_unique wy hmem hnd hci hi
      subst this
      show 1 < nd'.1.length
      match hd : nd'.1, hi, ha' with
      | [], hi, _ => simp at hi
      | [c], hi, ha' =>
        simp only [List.mem_singleton] at hi ha'
        exact absurd (ha'.trans hi.symm) hai
      | _ :: _ :: _, _, _ => simp
  · refine ⟨?_, ?_, ?_⟩
    · show Eqv (removeDp i (canon f0)) f0
      rw [removeDp_of_not_mem (fun h => b.inf ((canon_all_perm f0).mem_iff.mp h))]
      exact canon_eqv f0
    · show ((sortNat (out0 ++ [i])).filter (· != i)).Perm out0
      have := (sortNat_perm (out0 ++ [i])).filter (· != i)
      rw [List.filter_append, filter_ne_of_not_mem b.iout] at this
      simpa using this
    · unfold dpMovable
      rw [Bool.or_eq_true]; left
      show (sortNat (out0 ++ [i])).contains i = true
      rw [List.contains_iff_mem, mem_sortNat]; simp

end Canon
end PhyModel
