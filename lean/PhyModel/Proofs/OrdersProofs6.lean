import PhyModel.Proofs.OrdersProofs5

namespace PhyModel.Orders

theorem nodup_flatMap_of {α β : Type} (l : List α) (g : α → List β) (hl : l.Nodup)
    (h1 : ∀ x ∈ l, (g x).Nodup)
    (h2 : ∀ x ∈ l, ∀ y ∈ l, x ≠ y → ∀ z, z ∈ g x → z ∈ g y → False) :
    (l.flatMap g).Nodup := by
  rw [List.nodup_flatMap]
  refine ⟨h1, ?_⟩
  apply hl.pairwise_of_forall_ne
  intro x hx y hy hne
  show List.Disjoint (g x) (g y)
  intro z hz1 hz2
  exact h2 x hx y hy hne z hz1 hz2

theorem inter_nodup : ∀ (xs ys : List ℕ), (∀ a ∈ xs, a ∉ ys) → (inter xs ys).Nodup := by
  intro xs
  induction xs with
  | nil => intro ys _; rw [inter_nil_left]; simp
  | cons x xs ihx =>
    intro ys
    induction ys with
    | nil => intro _; rw [inter_nil_right]; simp
    | cons y ys ihy =>
      intro hdis
      simp only [inter]
      rw [List.nodup_append]
      have hxy : x ≠ y := by
        intro h; exact hdis x (by simp) (by simp [h])
      refine ⟨?_, ?_, ?_⟩
      · apply List.Nodup.map (fun a b h => (List.cons.inj h).2)
        exact ihx (y :: ys) (fun a ha => hdis a (by simp [ha]))
      · apply List.Nodup.map (fun a b h => (List.cons.inj h).2)
        exact ihy (fun a ha hay => hdis a ha (by simp [hay]))
      · intro l1 h1 l2 h2 heq
        simp only [List.mem_map] at h1 h2
        obtain ⟨l1', _, rfl⟩ := h1
        obtain ⟨l2', _, rfl⟩ := h2
        exact hxy (List.cons.inj heq).1

theorem insertAll_nodup (a : ℕ) : ∀ (l : List ℕ), a ∉ l → (insertAll a l).Nodup := by
  intro l
  induction l with
  | nil => intro _; simp [insertAll]
  | cons b l ih =>
    intro ha
    have hab : a ≠ b := fun h => ha (by simp [h])
    have hal : a ∉ l := fun h => ha (by simp [h])
    simp only [insertAll, List.nodup_cons, List.mem_map]
    refine ⟨?_, ?_⟩
    · rintro ⟨l', _, h⟩
      exact hab (List.cons.inj h).1.symm
    · apply List.Nodup.map (fun x y h => (List.cons.inj h).2)
      exact ih hal

theorem erase_of_mem_insertAll (a : ℕ) (l l' : List ℕ) (ha : a ∉ l) (h : l' ∈ insertAll a l) :
    l'.erase a = l := by
  obtain ⟨l1, l2, rfl, rfl⟩ := (insertAll_spec a l l').mp h
  have h1 : a ∉ l1 := fun h => ha (by simp [h])
  rw [List.erase_append_right _ h1]
  simp

theorem perms_nodup : ∀ (l : List ℕ), l.Nodup → (perms l).Nodup := by
  intro l
  induction l with
  | nil => intro _; simp [perms]
  | cons a l ih =>
    intro hnd
    have ha : a ∉ l := (List.nodup_cons.mp hnd).1
    have hl : l.Nodup := (List.nodup_cons.mp hnd).2
    simp only [perms]
    apply nodup_flatMap_of _ _ (ih hl)
    · intro p hp
      apply insertAll_nodup
      intro h; exact ha ((perm_of_mem_perms l p hp).subset h)
    · intro p hp p' hp' hne z hz hz'
      have h1 := erase_of_mem_insertAll a p z
        (fun h => ha ((perm_of_mem_perms l p hp).subset h)) hz
      have h2 := erase_of_mem_insertAll a p' z
        (fun h => ha ((perm_of_mem_perms l p' hp').subset h)) hz'
      exact hne (h1.symm.trans h2)

/-- an enumerated order determines its three components -/
theorem components (A K : List ℕ) (ok pd os o : List ℕ)
    (hok : ∀ a ∈ ok, a ∈ K) (hokA : ∀ a ∈ ok, a ∈ A) (hpdA : ∀ a ∈ pd, a ∈ A)
    (hpdK : ∀ a ∈ pd, a ∉ K) (hos : ∀ a ∈ os, a ∉ A) (ho : o ∈ inter (ok ++ pd) os) :
    os = o.filter (fun x => !decide (x ∈ A)) ∧
    ok = (o.filter fun x => decide (x ∈ A)).filter (fun x => decide (x ∈ K)) ∧
    pd = (o.filter fun x => decide (x ∈ A)).filter (fun x => !decide (x ∈ K)) := by
  obtain ⟨h1, h2⟩ := inter_filter (fun x => decide (x ∈ A)) (ok ++ pd) os o ho
    (by intro a ha; rcases List.mem_append.mp ha with h | h
        · simp [hokA a h]
        · simp [hpdA a h])
    (by intro b hb; simp [hos b hb])
  refine ⟨h2.symm, ?_, ?_⟩
  · rw [h1, List.filter_append]
    have e1 : ok.filter (fun x => decide (x ∈ K)) = ok := by
      rw [List.filter_eq_self]; intro a ha; simp [hok a ha]
    have e2 : pd.filter (fun x => decide (x ∈ K)) = [] := by
      rw [List.filter_eq_nil_iff]; intro a ha; simp [hpdK a ha]
    rw [e1, e2]; simp
  · rw [h1, List.filter_append]
    have e1 : ok.filter (fun x => !decide (x ∈ K)) = [] := by
      rw [List.filter_eq_nil_iff]; intro a ha; simp [hok a ha]
    have e2 : pd.filter (fun x => !decide (x ∈ K)) = pd := by
      rw [List.filter_eq_self]; intro a ha; simp [hpdK a ha]
    rw [e1, e2]; simp

theorem orders_nodup : ∀ (f : Forest), f.all.Nodup → (orders f).Nodup := by
  intro f
  induction f with
  | nil => intro _; simp [orders]
  | cons d k s ihk ihs =>
    intro hnd
    simp only [Forest.all] at hnd
    have hAnd : (k.all ++ d).Nodup := (List.nodup_append.mp hnd).1
    have hsnd : s.all.Nodup := (List.nodup_append.mp hnd).2.1
    have hknd : k.all.Nodup := (List.nodup_append.mp hAnd).1
    have hdnd : d.Nodup := (List.nodup_append.mp hAnd).2.1
    have hdisjA : ∀ b ∈ s.all, b ∉ k.all ++ d := by
      intro b hb ha
      exact (List.nodup_append.mp hnd).2.2 b ha b hb rfl
    have hdisjK : ∀ b ∈ d, b ∉ k.all := by
      intro b hb ha
      exact (List.nodup_append.mp hAnd).2.2 b ha b hb rfl
    -- facts about members
    have memk : ∀ ok ∈ orders k, (∀ a ∈ ok, a ∈ k.all) := fun ok h a ha =>
      (orders_sound k ok h).1.subset ha
    have memd : ∀ pd ∈ perms d, (∀ a ∈ pd, a ∈ d) := fun pd h a ha =>
      (perm_of_mem_perms d pd h).subset ha
    have mems : ∀ os ∈ orders s, (∀ a ∈ os, a ∈ s.all) := fun os h a ha =>
      (orders_sound s os h).1.subset ha
    have comp : ∀ ok ∈ orders k, ∀ pd ∈ perms d, ∀ os ∈ orders s, ∀ o, o ∈ inter (ok ++ pd) os →
        os = o.filter (fun x => !decide (x ∈ k.all ++ d)) ∧
        ok = (o.filter fun x => decide (x ∈ k.all ++ d)).filter (fun x => decide (x ∈ k.all)) ∧
        pd = (o.filter fun x => decide (x ∈ k.all ++ d)).filter (fun x => !decide (x ∈ k.all)) := by
      intro ok hok pd hpd os hos o ho
      apply components (k.all ++ d) k.all ok pd os o (memk ok hok)
        (fun a ha => List.mem_append.mpr (Or.inl (memk ok hok a ha)))
        (fun a ha => List.mem_append.mpr (Or.inr (memd pd hpd a ha)))
        (fun a ha => hdisjK a (memd pd hpd a ha))
        (fun a ha => hdisjA a (mems os hos a ha)) ho
    simp only [orders]
    apply nodup_flatMap_of _ _ (ihk hknd)
    · intro ok hok
      apply nodup_flatMap_of _ _ (perms_nodup d hdnd)
      · intro pd hpd
        apply nodup_flatMap_of _ _ (ihs hsnd)
        · intro os hos
          apply inter_nodup
          intro a ha hb
          rcases List.mem_append.mp ha with h | h
          · exact hdisjA a (mems os hos a hb) (List.mem_append.mpr (Or.inl (memk ok hok a h)))
          · exact hdisjA a (mems os hos a hb) (List.mem_append.mpr (Or.inr (memd pd hpd a h)))
        · intro os hos os' hos' hne o ho ho'
          exact hne ((comp ok hok pd hpd os hos o ho).1.trans (comp ok hok pd hpd os' hos' o ho').1.symm)
      · intro pd hpd pd' hpd' hne o ho ho'
        simp only [List.mem_flatMap] at ho ho'
        obtain ⟨os, hos, ho⟩ := ho
        obtain ⟨os', hos', ho'⟩ := ho'
        exact hne ((comp ok hok pd hpd os hos o ho).2.2.trans
          (comp ok hok pd' hpd' os' hos' o ho').2.2.symm)
    · intro ok hok ok' hok' hne o ho ho'
      simp only [List.mem_flatMap] at ho ho'
      obtain ⟨pd, hpd, os, hos, ho⟩ := ho
      obtain ⟨pd', hpd', os', hos', ho'⟩ := ho'
      exact hne ((comp ok hok pd hpd os hos o ho).2.1.trans
        (comp ok' hok' pd' hpd' os' hos' o ho').2.1.symm)

/-! ### with outliers: the statements for the whole tree -/

theorem allOrders_sound (f : Forest) (out σ : List ℕ) (h : σ ∈ allOrders f out) :
    CompatAll f out σ := by
  simp only [allOrders, List.mem_flatMap] at h
  obtain ⟨o, ho, po, hpo, hσ⟩ := h
  obtain ⟨h1, h2⟩ := orders_sound f o ho
  obtain ⟨s1, _, s3⟩ := inter_spec _ _ _ hσ
  exact ⟨s3.trans (h1.append (perm_of_mem_perms out po hpo)), fun ab hab => (h2 ab hab).trans s1⟩

theorem allOrders_complete (f : Forest) (out σ : List ℕ) (hnd : (f.all ++ out).Nodup)
    (h : CompatAll f out σ) : σ ∈ allOrders f out := by
  obtain ⟨hperm, hprec⟩ := h
  obtain ⟨p1, p2⟩ := filter_perm_left f.all out σ hnd hperm
  have hfnd : f.all.Nodup := (List.nodup_append.mp hnd).1
  simp only [allOrders, List.mem_flatMap]
  refine ⟨σ.filter (fun x => decide (x ∈ f.all)), ?_, σ.filter (fun x => !decide (x ∈ f.all)),
    mem_perms_of_perm out _ p2, mem_inter_filter (fun x => decide (x ∈ f.all)) σ⟩
  apply orders_complete f _ hfnd
  refine ⟨p1, ?_⟩
  intro ab hab
  obtain ⟨m1, m2⟩ := prec_mem f ab hab
  exact sublist_pair_filter _ σ ab.1 ab.2 (hprec ab hab) (by simp [m1]) (by simp [m2])

theorem allOrders_nodup (f : Forest) (out : List ℕ) (hnd : (f.all ++ out).Nodup) :
    (allOrders f out).Nodup := by
  have hfnd : f.all.Nodup := (List.nodup_append.mp hnd).1
  have hond : out.Nodup := (List.nodup_append.mp hnd).2.1
  have hdis : ∀ b ∈ out, b ∉ f.all := by
    intro b hb ha
    exact (List.nodup_append.mp hnd).2.2 b ha b hb rfl
  have memf : ∀ o ∈ orders f, ∀ a ∈ o, a ∈ f.all := fun o h a ha => (orders_sound f o h).1.subset ha
  have memo : ∀ po ∈ perms out, ∀ a ∈ po, a ∈ out := fun po h a ha =>
    (perm_of_mem_perms out po h).subset ha
  have recov : ∀ o ∈ orders f, ∀ po ∈ perms out, ∀ σ, σ ∈ inter o po →
      σ.filter (fun x => decide (x ∈ f.all)) = o ∧ σ.filter (fun x => !decide (x ∈ f.all)) = po := by
    intro o ho po hpo σ hσ
    exact inter_filter (fun x => decide (x ∈ f.all)) o po σ hσ
      (fun a ha => by simp [memf o ho a ha]) (fun b hb => by simp [hdis b (memo po hpo b hb)])
  unfold allOrders
  apply nodup_flatMap_of _ _ (orders_nodup f hfnd)
  · intro o ho
    apply nodup_flatMap_of _ _ (perms_nodup out hond)
    · intro po hpo
      apply inter_nodup
      intro a ha hb
      exact hdis a (memo po hpo a hb) (memf o ho a ha)
    · intro po hpo po' hpo' hne σ hσ hσ'
      exact hne ((recov o ho po hpo σ hσ).2.symm.trans (recov o ho po' hpo' σ hσ').2)
  · intro o ho o' ho' hne σ hσ hσ'
    simp only [List.mem_flatMap] at hσ hσ'
    obtain ⟨po, hpo, hσ⟩ := hσ
    obtain ⟨po', hpo', hσ'⟩ := hσ'
    exact hne ((recov o ho po hpo σ hσ).1.symm.trans (recov o' ho' po' hpo' σ hσ').1)

/-- **C09, assembled.**  For a tree whose data points are distinct: the enumerated orders are
exactly the compatible ones, each once; the code's count is their number; and the sampler gives
every test function its plain average over them. -/
theorem c09 (f : Forest) (out : List ℕ) (hnd : (f.all ++ out).Nodup) :
    (∀ σ, σ ∈ allOrders f out ↔ CompatAll f out σ) ∧ (allOrders f out).Nodup ∧
    countCode f out.length = ((allOrders f out).length : ℚ) ∧
    ∀ h : List ℕ → ℚ, Dist.E (sampleOrder f out) h
      = (1 / ((allOrders f out).length : ℚ)) * lsum (allOrders f out) h :=
  ⟨fun σ => ⟨allOrders_sound f out σ, allOrders_complete f out σ hnd⟩,
   allOrders_nodup f out hnd, countCode_eq_length f out, sampleOrder_uniform f out⟩

#print axioms c09
end PhyModel.Orders
