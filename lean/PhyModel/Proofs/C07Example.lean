import PhyModel.Proofs.StoreWF_LegalDec
/-! Concrete stores for the non-vacuity examples of `Props/C07.lean`. -/
namespace PhyModel.Store.C07Ex
open PhyModel PhyModel.Store

def dt : Data := ⟨2, 1, [[[1/2, 1/2]], [[1/4, 3/4]], [[1/2, 1/3]], [[1/3, 2/3]]], [1/10, 1/10, 1/10, 1/10], [1, 1, 1, 1]⟩

def after (ops : List Op) (h : Nat) : Store := (((run dt [Store.init dt] ops).getD []).getD h (Store.init dt))

/-- one clone `0 = {0}` -/
def t1 : Store := after [.create 0 [] [0]] 0
/-- clone `1 = {1}` above clone `0 = {0}`, data point 2 an outlier -/
def t2 : Store := after [.create 0 [] [0], .create 0 [0] [1], .addDp 0 2 (-1)] 0
/-- the leaf `{0}` extracted from `t2` -/
def sub : Store := after [.create 0 [] [0], .create 0 [0] [1], .addDp 0 2 (-1), .getSub 0 (some 0)] 1
/-- `t2` without that leaf -/
def t3 : Store := after [.create 0 [] [0], .create 0 [0] [1], .addDp 0 2 (-1), .getSub 0 (some 0), .rmSub 0 1] 0

/-- a legal history exercising every kind of edit -/
def ops : List Op :=
  [.create 0 [] [0], .create 0 [0] [1], .addDp 0 2 (-1), .getSub 0 (some 0), .rmSub 0 1, .addSub 0 1 (some 1),
   .relabel 0, .createAdd 0 [] 3, .rmDp 0 3 2, .rmOut 0 2, .copy 0, .dictRT 0, .update 0, .fresh]

end PhyModel.Store.C07Ex
