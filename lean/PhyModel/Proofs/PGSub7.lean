import PhyModel.Proofs.PGSub6
import PhyModel.Proofs.MovesPrBlock4
/-! # C04, random-subtree move, part 7: every region the move can choose satisfies the hypotheses of the
conditional statement.

For a well-formed tree `x` (positive likelihoods) and any clone data point `i`, the region
`Moves.regionOf x i = (region, rem, gk)` is such that, with `xs = T.mk' region x.out` the extracted
subtree and `D` its data: the region's data set satisfies `HypD`, `RegionOK rem gk D` holds, the data of
`rem` are good, `xs` is one of the complete subtrees on `D`, and `graftBack rem gk xs = x` — the current
tree is the full tree of the subtree the move extracts (`regionOf_ok`). -/

namespace PhyModel.PG
open Proposal PGSpec Orders Orders.Forest Canon
open PhyModel.Moves (parentOf attachUnder attachAll removeSub nodesOf regionOf graftBack)

variable {dt : Data} {c : Cfg}

/-- a well-formed tree on the data `D` is one of the complete trees on `D` -/
theorem wft_mem_finals {D : List ℕ} {x : T} (w : WFT c x) (hperm : (x.f.all ++ x.out).Perm D) :
    x ∈ finals c D := by
  have hpos : 0 < (allOrders x.f x.out).length := by
    rw [length_allOrders]
    exact Nat.mul_pos (countF_pos x.f) (Nat.mul_pos (Nat.factorial_pos _) (Nat.choose_pos (by simp [Forest.size])))
  obtain ⟨σ, hσ⟩ := List.exists_mem_of_length_pos hpos
  have hσp : σ.Perm D := (allOrders_sound x.f x.out σ hσ).1.trans hperm
  have hnd : σ.Nodup := (allOrders_sound x.f x.out σ hσ).1.nodup_iff.mpr w.nodup
  exact mem_finals.mpr ⟨σ, mem_perms_of_perm D σ hσp, (reachable_iff_order c σ hnd x w).mpr hσ⟩

/-- the common core of the two cases of the region choice -/
theorem region_core {x : T} (w : WFT c x) (hG : 0 < dt.G) (hα : 0 < c.α) (op0 : 0 ≤ c.op) (op1 : c.op < 1)
    (hup : c.usePerm = true) (hgood : ∀ j ∈ x.f.all ++ x.out, C19P.GoodIdx dt j)
    {reg R : DF} {gk : Option ℕ} (wreg : WF reg) (creg : Forest.canon reg = reg) (hne : reg.all ≠ [])
    (hRnd : R.all.Nodup) (hall : x.f.all.Perm (reg.all ++ R.all))
    (E : Eqv x.f (attachAll gk reg.roots R)) (hkey : ∀ k, gk = some k → k ∈ R.all) :
    T.mk' reg x.out = ⟨reg, x.out⟩ ∧
    HypD dt c (reg.all ++ x.out) ∧ RegionOK R gk (reg.all ++ x.out) ∧ (∀ j ∈ R.all, C19P.GoodIdx dt j) ∧
    T.mk' reg x.out ∈ finals c (reg.all ++ x.out) ∧ graftBack R gk (T.mk' reg x.out) = x := by
  have hxs : T.mk' reg x.out = ⟨reg, x.out⟩ := by unfold T.mk'; rw [creg, w.sort_out]
  have hbig : ((reg.all ++ R.all) ++ x.out).Nodup := (hall.append_right x.out).nodup_iff.mp w.nodup
  have nodupD : (reg.all ++ x.out).Nodup :=
    ((List.sublist_append_left reg.all R.all).append (List.Sublist.refl x.out)).nodup hbig
  have hsub : ∀ a ∈ reg.all ++ x.out, a ∈ x.f.all ++ x.out := by
    intro a ha
    rcases List.mem_append.mp ha with h | h
    · exact List.mem_append_left _ (hall.symm.subset (List.mem_append_left _ h))
    · exact List.mem_append_right _ h
  have hRsub : ∀ a ∈ R.all, a ∈ x.f.all := fun a ha => hall.symm.subset (List.mem_append_right _ ha)
  refine ⟨hxs, ?_, ?_, ?_, ?_, ?_⟩
  · exact ⟨hG, hα, op0, op1, nodupD, fun j hj => hgood j (hsub j hj), fun j hj => w.big j (hsub j hj),
      fun h0 => hne (List.append_eq_nil_iff.mp h0).1, hup⟩
  · refine ⟨?_, hRnd, hkey⟩
    intro a ha hD
    obtain ⟨h1, _, h2⟩ := List.nodup_append.mp hbig
    rcases List.mem_append.mp hD with h | h
    · exact (List.nodup_append.mp h1).2.2 a h a ha rfl
    · exact h2 a (List.mem_append_right _ ha) a h rfl
  · exact fun j hj => hgood j (List.mem_append_left _ (hRsub j hj))
  · rw [hxs]
    apply wft_mem_finals (x := ⟨reg, x.out⟩) _ (List.Perm.refl _)
    refine ⟨?_, (ne_iff _).mpr wreg.ne, nodupD, fun a ha => w.big a (hsub a ha), w.out⟩
    show T.mk' reg x.out = _
    exact hxs
  · rw [hxs]
    unfold graftBack T.mk'
    show T.mk (Forest.canon (attachAll gk reg.roots R)) (sortNat x.out) = x
    rw [← canon_congr E w.wf, w.canon_f, w.sort_out]

/-- **every region the move can choose is a legitimate instance of the conditional statement** -/
theorem regionOf_ok {x : T} (w : WFT c x) (hG : 0 < dt.G) (hα : 0 < c.α) (op0 : 0 ≤ c.op) (op1 : c.op < 1)
    (hup : c.usePerm = true) (hgood : ∀ j ∈ x.f.all ++ x.out, C19P.GoodIdx dt j) {i : ℕ} (hi : i ∈ x.f.all) :
    HypD dt c ((regionOf x i).1.all ++ x.out) ∧
    RegionOK (regionOf x i).2.1 (regionOf x i).2.2 ((regionOf x i).1.all ++ x.out) ∧
    (∀ j ∈ (regionOf x i).2.1.all, C19P.GoodIdx dt j) ∧
    T.mk' (regionOf x i).1 x.out = ⟨(regionOf x i).1, x.out⟩ ∧
    T.mk' (regionOf x i).1 x.out ∈ finals c ((regionOf x i).1.all ++ x.out) ∧
    graftBack (regionOf x i).2.1 (regionOf x i).2.2 (T.mk' (regionOf x i).1 x.out) = x := by
  obtain ⟨nd, hnd, hind⟩ := mem_all_iff.mp hi
  cases hp : parentOf i x.f with
  | none =>
    have hreg : regionOf x i = (x.f, Orders.Forest.nil, none) := by simp only [regionOf, hp]
    rw [hreg]
    have E : Eqv x.f (attachAll none x.f.roots Orders.Forest.nil) := by
      show Eqv x.f (x.f.roots.foldr (fun r acc => Orders.Forest.cons r.1 r.2 acc) Orders.Forest.nil)
      rw [foldr_cons_eq]
      simp only [roots, List.append_nil, Canon.ofRoots_roots]
      exact Eqv.refl _
    obtain ⟨h1, h2, h3, h4, h5, h6⟩ := region_core (dt := dt) w hG hα op0 op1 hup hgood w.wf w.canon_f
      (List.ne_nil_of_mem hi) (by simp [Forest.all]) (by simp [Forest.all]) E (by intro k hk; simp at hk)
    exact ⟨h2, h3, h4, h1, h5, h6⟩
  | some p =>
    obtain ⟨pd, pk⟩ := p
    have hpn : (pd, pk) ∈ nodesOf x.f := ((parentOf_spec (sk := nd.2) hind w.wf hnd).2 _ hp).1
    have hpdne : pd ≠ [] := node_ne w.wf.ne _ hpn
    have hkey : pd.headD 0 ∈ pd := headD_mem hpdne
    have hreg : regionOf x i = (Orders.Forest.cons pd pk .nil, removeSub (pd.headD 0) x.f,
        (parentOf (pd.headD 0) x.f).map fun g => g.1.headD 0) := by simp only [regionOf, hp]
    rw [hreg]
    have wreg : WF (Orders.Forest.cons pd pk .nil) := node_wf w.wf hpn
    have hfix := canon_node_fixed w.wf (pd, pk) (by rw [w.canon_f]; exact hpn)
    have creg : Forest.canon (Orders.Forest.cons pd pk .nil) = Orders.Forest.cons pd pk .nil := by
      simp only [Forest.canon, hfix.1, hfix.2, roots, insertSorted, ofRoots]
    have wR : WF (removeSub (pd.headD 0) x.f) := removeSub_wf _ w.wf
    have hregall : (Orders.Forest.cons pd pk .nil).all = pk.all ++ pd := by simp [Forest.all]
    -- the tree is the region re-attached at the graft point
    have hE : Eqv x.f (attachAll ((parentOf (pd.headD 0) x.f).map fun g => g.1.headD 0)
          (Orders.Forest.cons pd pk .nil).roots (removeSub (pd.headD 0) x.f)) ∧
        x.f.all.Perm ((Orders.Forest.cons pd pk .nil).all ++ (removeSub (pd.headD 0) x.f).all) ∧
        (∀ k, ((parentOf (pd.headD 0) x.f).map fun g => g.1.headD 0) = some k →
          k ∈ (removeSub (pd.headD 0) x.f).all) := by
      have hspec := parentOf_spec (sk := pk) hkey w.wf hpn
      cases hq : parentOf (pd.headD 0) x.f with
      | none =>
        have E := eqv_cons_removeSub hkey w.wf (hspec.1 hq)
        refine ⟨E, ?_, by intro k hk; simp at hk⟩
        have := E.all_perm
        simpa only [Forest.all, List.append_nil] using this
      | some g =>
        have hg := hspec.2 g hq
        have hgne : g.1 ≠ [] := node_ne w.wf.ne _ hg.1
        obtain ⟨haR, E⟩ := eqv_attachUnder_removeSub hkey hg.2 (headD_mem hgne) w.wf hg.1
        refine ⟨E, ?_, ?_⟩
        · rw [hregall]
          exact E.all_perm.trans (attachUnder_all_perm pd pk wR.nodup haR)
        · intro k hk
          have : k = g.1.headD 0 := by simpa using hk.symm
          rw [this]; exact haR
    obtain ⟨h1, h2, h3, h4, h5, h6⟩ := region_core (dt := dt) w hG hα op0 op1 hup hgood wreg creg
      (by rw [hregall]; exact fun h0 => hpdne (List.append_eq_nil_iff.mp h0).2) wR.nodup hE.2.1 hE.1 hE.2.2
    exact ⟨h2, h3, h4, h1, h5, h6⟩

#print axioms regionOf_ok
end PhyModel.PG
