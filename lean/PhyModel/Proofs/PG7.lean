import PhyModel.Proofs.PG6
/-! # C01 instance, part 7: `peel` — a well-formed tree whose data point `i` is an outlier or sits in
a top-level clone is a permitted placement of `i` on a smaller well-formed tree. -/

namespace PhyModel.PG
open Orders Orders.Forest Proposal PGSpec Canon

theorem mk'_eq_of_eqv {c : Cfg} {x : T} (w : WFT c x) {F : DF} {o : List ℕ} (hF : Eqv x.f F)
    (ho : o.Perm x.out) : T.mk' F o = x := by
  have h1 : Forest.canon F = x.f := by rw [← canon_congr hF w.wf, w.canon_f]
  have h2 : sortNat o = x.out := by rw [Canon.sortNat_congr ho, w.sort_out]
  unfold T.mk'
  rw [h1, h2]

/-- a parent of a well-formed tree is well formed as soon as it is canonical, has no empty clone and
respects the outlier setting -/
theorem wft_of_child {c : Cfg} {p x : T} {i : ℕ} (hx : x ∈ children c p i) (w : WFT c x)
    (hc : T.mk' p.f p.out = p) (hne : AllNonempty p.f) (hout : c.op = 0 → p.out = []) : WFT c p := by
  obtain ⟨kt, hkt, _, rfl⟩ := mem_children.mp hx
  have hp := placement_perm p i kt hkt
  refine ⟨hc, hne, ?_, ?_, hout⟩
  · have := hp.nodup_iff.mp w.nodup
    exact (List.nodup_append.mp this).1
  · intro a ha
    exact w.big a (hp.mem_iff.mpr (List.mem_append_left _ ha))

theorem nodup_root_data {f : DF} (hn : f.all.Nodup) {A B : List (List ℕ × DF)} {d : List ℕ} {k : DF}
    (hr : f.roots = A ++ (d, k) :: B) : d.Nodup := by
  rw [all_eq_flatMap_roots, hr, List.flatMap_append, List.flatMap_cons] at hn
  have h1 := (List.nodup_append.mp hn).2.1
  have h2 := (List.nodup_append.mp h1).1
  exact (List.nodup_append.mp h2).2.1

/-- **peeling**: see the file header -/
theorem peel {c : Cfg} {x : T} (w : WFT c x) {i : ℕ}
    (htop : i ∈ x.out ∨ ∃ r ∈ x.f.roots, i ∈ r.1) : ∃ p, WFT c p ∧ x ∈ children c p i := by
  have hroots := (allNonempty_iff_roots x.f).mp w.ne
  rcases htop with hio | ⟨⟨d, k⟩, hr, hid⟩
  · -- `i` is an outlier
    have hop : c.op ≠ 0 := fun h0 => by rw [w.out h0] at hio; simp at hio
    have hno : x.out.Nodup := (List.nodup_append.mp w.nodup).2.1
    let p : T := T.mk' x.f (x.out.filter (· != i))
    have hx : outT p i = x := by
      show T.mk' (Forest.canon x.f) (sortNat (x.out.filter (· != i)) ++ [i]) = x
      apply mk'_eq_of_eqv w (canon_eqv _).symm
      exact ((Canon.sortNat_perm _).append_right _).trans (Canon.filter_ne_append_perm hno hio)
    have hch : x ∈ children c p i := hx ▸ mem_children_out hop
    exact ⟨p, wft_of_child hch w (mk'_idem _ _) (allNonempty_canon _ w.ne) (fun h0 => absurd h0 hop), hch⟩
  · obtain ⟨A, B, hAB⟩ := List.append_of_mem hr
    have hxf : x.f = ofRoots (A ++ (d, k) :: B) := by rw [← hAB, Canon.ofRoots_roots]
    have hA : ∀ y ∈ A, y ∈ x.f.roots := fun y hy => by rw [hAB]; simp [hy]
    have hB : ∀ y ∈ B, y ∈ x.f.roots := fun y hy => by rw [hAB]; simp [hy]
    have hdn : d.Nodup := nodup_root_data (List.nodup_append.mp w.nodup).1 hAB
    have hmid : Eqv x.f (ofRoots ((d, k) :: (A ++ B))) := by
      rw [hxf]; exact eqv_ofRoots_perm List.perm_middle
    have hout : ∀ F : DF, c.op = 0 → (T.mk' F x.out).out = [] := by
      intro F h0
      show sortNat x.out = []
      rw [w.out h0]; rfl
    by_cases hd' : d.filter (· != i) = []
    · -- the clone held `i` only: it was created for `i`, above the clones `k.roots`
      have hdi : d = [i] := eq_singleton_of_filter hdn hid hd'
      subst hdi
      let p : T := T.mk' (ofRoots (A ++ k.roots ++ B)) x.out
      have hR : p.f.roots.Perm (k.roots.map cn ++ (A ++ B).map cn) := by
        show (Forest.canon (ofRoots (A ++ k.roots ++ B))).roots.Perm _
        rw [canon_ofRoots, PhyModel.roots_ofRoots]
        refine (perm_sortRoots _).trans ?_
        rw [← List.map_append]
        refine List.Perm.map cn ?_
        exact (List.perm_append_comm.append_right B).trans (by rw [List.append_assoc])
      obtain ⟨cr, hcr, h1, h2⟩ := exists_split_of_perm _ _ _ hR
      have hx : newT p i cr = x := by
        show T.mk' (ofRoots (([i], ofRoots cr.1) :: cr.2)) (sortNat x.out) = x
        apply mk'_eq_of_eqv w _ (Canon.sortNat_perm _)
        refine hmid.trans ?_
        refine .cons (List.Perm.refl _) ?_ ?_
        · have := (eqv_ofRoots_perm h1).trans (eqv_ofRoots_map_cn k.roots)
          rw [Canon.ofRoots_roots] at this
          exact this.symm
        · exact ((eqv_ofRoots_perm h2).trans (eqv_ofRoots_map_cn _)).symm
      have hch : x ∈ children c p i := hx ▸ mem_children_new hcr
      refine ⟨p, wft_of_child hch w (mk'_idem _ _) ?_ (hout _), hch⟩
      apply allNonempty_canon
      rw [allNonempty_ofRoots]
      intro y hy
      simp only [List.mem_append] at hy
      rcases hy with (hy | hy) | hy
      · exact hroots y (hA y hy)
      · exact (allNonempty_iff_roots k).mp (hroots _ hr).2 y hy
      · exact hroots y (hB y hy)
    · -- the clone holds other data: `i` joined the existing clone
      let p : T := T.mk' (ofRoots (A ++ (d.filter (· != i), k) :: B)) x.out
      have hR : p.f.roots.Perm (cn (d.filter (· != i), k) :: (A ++ B).map cn) := by
        show (Forest.canon (ofRoots (A ++ (d.filter (· != i), k) :: B))).roots.Perm _
        rw [canon_ofRoots, PhyModel.roots_ofRoots]
        refine (perm_sortRoots _).trans ?_
        rw [← List.map_cons]
        exact List.Perm.map cn List.perm_middle
      obtain ⟨j, hj, hperm⟩ := addAt_of_perm i hR
      have hx : exT p i j = x := by
        show T.mk' (ofRoots (addAt i j p.f.roots)) (sortNat x.out) = x
        apply mk'_eq_of_eqv w _ (Canon.sortNat_perm _)
        refine hmid.trans (Eqv.trans ?_ (eqv_ofRoots_perm hperm).symm)
        refine .cons ?_ (canon_eqv k).symm (eqv_ofRoots_map_cn _).symm
        exact (Canon.filter_ne_append_perm hdn hid).symm.trans ((Canon.sortNat_perm _).symm.append_right _)
      have hch : x ∈ children c p i := hx ▸ mem_children_ex hj
      refine ⟨p, wft_of_child hch w (mk'_idem _ _) ?_ (hout _), hch⟩
      apply allNonempty_canon
      rw [allNonempty_ofRoots]
      intro y hy
      simp only [List.mem_append, List.mem_cons] at hy
      rcases hy with hy | rfl | hy
      · exact hroots y (hA y hy)
      · exact ⟨hd', (hroots _ hr).2⟩
      · exact hroots y (hB y hy)

end PhyModel.PG
