import PhyModel.Proofs.StoreWF_relabel
/-! C07: the clone-side view (payload data-point sets + outliers) and the `_data` view (`Tree.labels`)
are the same assignment: every data point sits in exactly one clone or in the outlier set. -/
namespace PhyModel.Store
open PhyModel PhyModel.Store PhyModel.Store.Store SF AL

theorem toDF_all_perm (f : SF) : f.toDF.all.Perm (f.recs.flatMap (·.dps)) := by
  induction f with
  | nil => simp [SF.toDF, Orders.Forest.all]
  | cons n k s ihk ihs =>
    simp only [SF.toDF, Orders.Forest.all, recs_cons, List.flatMap_cons, List.flatMap_append]
    refine (List.Perm.append (List.perm_append_comm.trans (List.Perm.append_left _ ihk)) ihs).trans ?_
    simp

/-- clone-side data and outliers are, up to order, the values of `_data` -/
theorem WF.clone_view_perm {s : Store} (hw : WF s) :
    (s.outliers ++ s.forest.recs.flatMap (·.dps)).Perm (vals s.data) := by
  have h1 : (s.forest.recs.flatMap (·.dps)).Perm (s.forest.names.flatMap (dOf s.data)) := by
    simp only [SF.names, List.flatMap_map]
    exact List.Perm.flatMap_left _ fun n hn => hw.d.payload_data n hn
  have h2 : (s.outliers ++ s.forest.recs.flatMap (·.dps)).Perm
      ((outKey :: s.forest.names).flatMap (dOf s.data)) := by
    simp only [List.flatMap_cons]
    exact List.Perm.append_left _ h1
  refine h2.trans (flatMap_dOf_perm_vals hw.d.data_keys hw.outKey_names_nodup fun k hk => ?_)
  rcases hw.d.data_sub k hk with rfl | h
  · simp
  · exact List.mem_cons_of_mem _ h

/-- **every data point sits in exactly one place** (clone-side statement) -/
theorem WF.clone_view_nodup {s : Store} (hw : WF s) :
    (s.outliers ++ s.forest.recs.flatMap (·.dps)).Nodup :=
  hw.clone_view_perm.nodup_iff.2 hw.d.data_nodup

theorem labels_fst (s : Store) : s.labels.map (·.1) = vals s.data := by
  simp only [Store.labels, List.map_flatMap, List.map_map, Function.comp_def, List.map_id']

theorem mem_labels {s : Store} {d : Nat} {nm : Int} :
    (d, nm) ∈ s.labels ↔ ∃ l, (nm, l) ∈ s.data ∧ d ∈ l := by
  simp only [Store.labels, List.mem_flatMap, List.mem_map, Prod.mk.injEq]
  constructor
  · rintro ⟨e, he, d', hd', rfl, rfl⟩; exact ⟨e.2, he, hd'⟩
  · rintro ⟨l, hl, hd⟩; exact ⟨(nm, l), hl, d, hd, rfl, rfl⟩

/-- the `_data` view and the clone-side view give the same assignment -/
theorem WF.mem_labels_iff {s : Store} (hw : WF s) {d : Nat} {nm : Int} :
    (d, nm) ∈ s.labels ↔ (nm = outKey ∧ d ∈ s.outliers) ∨ ∃ n ∈ s.forest.recs, n.name = nm ∧ d ∈ n.dps := by
  rw [mem_labels]
  constructor
  · rintro ⟨l, hl, hd⟩
    rcases hw.key_cases hl with ⟨h1, h2⟩ | ⟨n, hn, h1, h2⟩
    · exact Or.inl ⟨h1, h2 ▸ hd⟩
    · exact Or.inr ⟨n, hn, h1, h2.symm.subset hd⟩
  · have key : ∀ k, d ∈ dOf s.data k → ∃ l, (k, l) ∈ s.data ∧ d ∈ l := by
      intro k hk
      unfold dOf at hk
      cases hl : s.data.lookup k with
      | none => simp [hl] at hk
      | some l => exact ⟨l, mem_of_lookup hl, by simpa [hl] using hk⟩
    rintro (⟨rfl, hd⟩ | ⟨n, hn, rfl, hd⟩)
    · exact key _ hd
    · exact key _ ((hw.d.payload_data n hn).subset hd)

/-- `labels` is a function: no data point is listed twice -/
theorem WF.labels_nodup {s : Store} (hw : WF s) : (s.labels.map (·.1)).Nodup := by
  rw [labels_fst]; exact hw.d.data_nodup

theorem WF.labels_unique {s : Store} (hw : WF s) {d : Nat} {nm nm' : Int} (h1 : (d, nm) ∈ s.labels)
    (h2 : (d, nm') ∈ s.labels) : nm = nm' := by
  have := List.inj_on_of_nodup_map hw.labels_nodup h1 h2 rfl
  exact (Prod.mk.injEq _ _ _ _ ▸ this).2

/-- the abstraction (tree up to names, indices, caches) holds exactly the labelled data points -/
theorem WF.abs_perm_labels {s : Store} (hw : WF s) : (s.abs.2 ++ s.abs.1.all).Perm (s.labels.map (·.1)) := by
  rw [labels_fst]
  exact (List.Perm.append_left _ (toDF_all_perm s.forest)).trans hw.clone_view_perm

end PhyModel.Store
