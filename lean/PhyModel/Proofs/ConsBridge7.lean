import PhyModel.Proofs.ConsBridge6
/-! Bridge, part 7 (bridge (a) of C16): on a good (laminar, duplicate-free) family `relabel` never
raises KeyError and the own data it computes for a node is the node minus the union of all
members strictly inside it; the own sets cover exactly the union of the family. -/
open Finset

namespace PhyModel.ConsBridge
open PhyModel.Consensus PhyModel.Orders

/-- union of the members strictly inside `s` -/
def strictU (m : List Clade) (s : Finset ℕ) : Finset ℕ :=
  ((F m).filter (fun e => e ⊂ s)).biUnion id

variable {m : List Clade} {tbl : List (Clade × Option Clade)} {c : Clade}

theorem children_flatten_nodup (hg : GoodFamily m) (h : parentTable m = .ok tbl) (hc : c ∈ m) :
    (childrenOf tbl c).flatten.Nodup := by
  rw [List.nodup_flatten]
  refine ⟨fun d hd => hg.nd d ((childrenOf_iff hg h hc d).mp hd).1, ?_⟩
  have hpw : (childrenOf tbl c).Pairwise (fun a b => a.toFinset ≠ b.toFinset) :=
    List.Pairwise.sublist (childrenOf_sublist h c) hg.pw
  refine hpw.imp_of_mem ?_
  intro a b ha hb hne
  have h1 := ((childrenOf_iff hg h hc a).mp ha).2
  have h2 := ((childrenOf_iff hg h hc b).mp hb).2
  have hd := _root_.Consensus.children_disjoint hg.lam h1 h2 hne
  intro x hxa hxb
  exact Finset.disjoint_left.mp hd (List.mem_toFinset.mpr hxa) (List.mem_toFinset.mpr hxb)

/-- the elements removed by `relabel` at node `c` are those of the members strictly inside `c` -/
theorem mem_children_flatten (hg : GoodFamily m) (h : parentTable m = .ok tbl) (hc : c ∈ m) (x : ℕ) :
    x ∈ (childrenOf tbl c).flatten ↔ x ∈ strictU m c.toFinset := by
  unfold strictU
  rw [← _root_.Consensus.mem_child_iff_mem_strict, List.mem_flatten]
  constructor
  · rintro ⟨d, hd, hx⟩
    exact ⟨d.toFinset, ((childrenOf_iff hg h hc d).mp hd).2, List.mem_toFinset.mpr hx⟩
  · rintro ⟨D, hD, hx⟩
    obtain ⟨d, hd, rfl⟩ := mem_F.mp hD.1
    exact ⟨d, (childrenOf_iff hg h hc d).mpr ⟨hd, hD⟩, List.mem_toFinset.mp hx⟩

theorem strictU_subset (m : List Clade) (s : Finset ℕ) : strictU m s ⊆ s := by
  intro x hx
  simp only [strictU, mem_biUnion, mem_filter, id] at hx
  obtain ⟨e, ⟨_, hes⟩, hxe⟩ := hx
  exact hes.subset hxe

/-- **bridge (a)**: `_relabel` at a node of a good family succeeds (no KeyError: no element is
removed twice, every removed element is present) and leaves the node minus the union of the
members strictly inside it -/
theorem ownOf_spec (hg : GoodFamily m) (h : parentTable m = .ok tbl) (hc : c ∈ m) :
    ∃ o, ownOf tbl c = .ok o ∧ o.Nodup ∧ o.toFinset = c.toFinset \ strictU m c.toFinset := by
  refine ⟨c.diff (childrenOf tbl c).flatten, ?_, (hg.nd c hc).diff, ?_⟩
  · unfold ownOf
    apply removeChildren_ok _ _ (children_flatten_nodup hg h hc)
    intro x hx
    rw [mem_children_flatten hg h hc] at hx
    exact List.mem_toFinset.mp (strictU_subset m _ hx)
  · ext x
    rw [List.mem_toFinset, (hg.nd c hc).mem_sdiff_iff, mem_children_flatten hg h hc, mem_sdiff,
      List.mem_toFinset]

/-! ### the table of own data -/

theorem pair_spec {β : Type} {g : Clade → Except String β} {c : Clade} {e : Clade × β}
    (h : (do let p ← g c; pure (c, p) : Except String _) = .ok e) : e.1 = c ∧ g c = .ok e.2 := by
  cases hr : g c with
  | error err => rw [hr] at h; cases h
  | ok r =>
    rw [hr] at h
    have h' : (Except.ok (c, r) : Except String (Clade × β)) = .ok e := h
    injection h' with h'
    subst h'
    exact ⟨rfl, rfl⟩

/-- the `relabel` pass over all nodes -/
def ownsOf (tbl : List (Clade × Option Clade)) (m : List Clade) : Except String (List (Clade × List ℕ)) :=
  m.mapM fun c => do
    let o ← ownOf tbl c
    pure (c, o)

variable {owns : List (Clade × List ℕ)}

theorem owns_spec (ho : ownsOf tbl m = .ok owns) :
    List.Forall₂ (fun c e => e.1 = c ∧ ownOf tbl c = .ok e.2) m owns :=
  (mapM_spec _ m owns ho).imp fun _ _ hab => pair_spec hab

/-- `relabel` never raises KeyError on a good family -/
theorem ownsOf_ok (hg : GoodFamily m) (h : parentTable m = .ok tbl) : ∃ owns, ownsOf tbl m = .ok owns := by
  apply mapM_ok
  intro c hc
  obtain ⟨o, ho, _⟩ := ownOf_spec hg h hc
  exact ⟨(c, o), by simp only [ho]; rfl⟩

theorem owns_entry (hg : GoodFamily m) (h : parentTable m = .ok tbl) (ho : ownsOf tbl m = .ok owns)
    {e : Clade × List ℕ} (he : e ∈ owns) :
    e.1 ∈ m ∧ e.2.Nodup ∧ e.2.toFinset = e.1.toFinset \ strictU m e.1.toFinset := by
  obtain ⟨a, ham, ha1, ha2⟩ := forall₂_mem_right (owns_spec ho) e he
  obtain ⟨o, ho1, ho2, ho3⟩ := ownOf_spec hg h ham
  rw [ha2] at ho1
  injection ho1 with ho1
  rw [ha1, ho1]
  exact ⟨ham, ho2, ho3⟩

/-- the data a built node carries -/
theorem lookupOwn_spec (hg : GoodFamily m) (h : parentTable m = .ok tbl) (ho : ownsOf tbl m = .ok owns)
    (hc : c ∈ m) : (lookupOwn owns c).toFinset = c.toFinset \ strictU m c.toFinset := by
  obtain ⟨e0, he0, he01, _⟩ := forall₂_mem_left (owns_spec ho) c hc
  unfold lookupOwn
  cases hf : owns.find? (fun e => setEq e.1 c) with
  | none =>
    have := List.find?_eq_none.mp hf e0 he0
    rw [he01] at this
    exact absurd (setEq_iff.mpr rfl) this
  | some e =>
    have hmem := List.mem_of_find?_eq_some hf
    have hp : setEq e.1 c = true := by simpa using List.find?_some hf
    obtain ⟨_, _, h3⟩ := owns_entry hg h ho hmem
    simp only
    rw [h3, setEq_iff.mp hp]

/-- the own sets of the table cover exactly the union of the family -/
theorem owns_cover (hg : GoodFamily m) (h : parentTable m = .ok tbl) (ho : ownsOf tbl m = .ok owns)
    (i : ℕ) : (∃ e ∈ owns, i ∈ e.2) ↔ ∃ c ∈ m, i ∈ c := by
  constructor
  · rintro ⟨e, he, hi⟩
    obtain ⟨h1, _, h3⟩ := owns_entry hg h ho he
    refine ⟨e.1, h1, ?_⟩
    have : i ∈ e.2.toFinset := List.mem_toFinset.mpr hi
    rw [h3] at this
    exact List.mem_toFinset.mp (mem_sdiff.mp this).1
  · rintro ⟨c, hc, hi⟩
    have hcov := _root_.Consensus.own_cover (F m) c.toFinset (mem_F.mpr ⟨c, hc, rfl⟩)
    have hi' : i ∈ c.toFinset := List.mem_toFinset.mpr hi
    rw [← hcov] at hi'
    simp only [mem_biUnion, mem_filter] at hi'
    obtain ⟨D, ⟨hD, _⟩, hiD⟩ := hi'
    obtain ⟨d, hd, rfl⟩ := mem_F.mp hD
    obtain ⟨e, he, he1, he2⟩ := forall₂_mem_left (owns_spec ho) d hd
    obtain ⟨_, _, h3⟩ := owns_entry hg h ho he
    refine ⟨e, he, List.mem_toFinset.mp ?_⟩
    rw [h3, he1]
    exact hiD

end PhyModel.ConsBridge

#print axioms PhyModel.ConsBridge.ownOf_spec
#print axioms PhyModel.ConsBridge.owns_cover
#print axioms PhyModel.ConsBridge.lookupOwn_spec
