import PhyModel.Proofs.StoreWF_Upd
/-! C07: `removeDataPointFromNode` and `removeDataPointFromOutliers` preserve the invariant, keep the
clone names and remove exactly the data point from `_data`. -/
namespace PhyModel.Store
open PhyModel PhyModel.Store PhyModel.Store.Store SF AL

theorem rmDp_spec {dt : Data} {s s' : Store} {dp : Nat} {node : Int}
    (h : s.removeDataPointFromNode dt dp node = some s') (hw : WF s) :
    WF s' ∧ s'.forest.names = s.forest.names ∧ s'.forest.numNodes = s.forest.numNodes ∧
      s'.data = alSet s.data node ((s.dataOf node).erase dp) ∧ dp ∈ s.dataOf node := by
  unfold removeDataPointFromNode at h
  simp only [Option.bind_eq_bind, Option.pure_def] at h
  split at h
  · cases h
  rename_i hin
  have hdp : dp ∈ s.dataOf node := by simpa using hin
  have hnd := nodup_erase_dp hw.d.data_keys hw.d.data_nodup dp node
  split at h
  · rename_i hout
    have hout : node = outKey := by simpa using hout
    simp only [Option.some.injEq] at h; subst h
    refine ⟨?_, rfl, rfl, rfl, hdp⟩
    rw [wf_iff]
    refine ⟨hw.g, hw.m, ?_⟩
    have := hw.d.mapg_alSet (g := id) (node := node) (v := (dOf s.data node).erase dp)
      (fun _ _ => ⟨rfl, rfl⟩) (Or.inl hout)
      (fun m hm => by
        have : m.name ≠ node := fun hc => by
          have := hw.name_nonneg m hm; rw [hc, hout] at this; simp [outKey] at this
        simp only [id, if_neg this]; exact hw.d.payload_data m hm) hnd
    simpa [dataOf_eq] using this
  · simp only [Option.bind_eq_some_iff] at h
    obtain ⟨i, hi, n, hn, n', hn', h⟩ := h
    obtain ⟨x, hx, rfl⟩ := recAt_some hn
    obtain ⟨hxm, hxn, hxi⟩ := hw.findSub_of_lookup hi hx
    obtain ⟨hi', hn'', hd', _⟩ := recRemove_fields hn'
    obtain ⟨hc, h1, h2, h3, _⟩ := updatePathToRoot_spec h
    simp only at hc h1 h2 h3
    have hg : ∀ m ∈ s.forest.recs, ((fun m : NodeRec => if m.idx = i then n' else m) m).name = m.name ∧
        ((fun m : NodeRec => if m.idx = i then n' else m) m).idx = m.idx := by
      intro m hm
      by_cases hmi : m.idx = i
      · have : m = x.1 := hw.g.eq_of_idx hm hxm (hmi.trans hxi.symm)
        subst this; simp [hmi, hn'', hi']
      · simp [hmi]
    have hs := sameCore_of_cores (rs' := s'.forest.recs) hc
    rw [recs_setRec] at hs
    have hd : WFD (s.forest.recs.map fun m => if m.idx = i then n' else m)
        (alSet s.data node ((dOf s.data node).erase dp)) := by
      refine hw.d.mapg_alSet hg (Or.inr (mem_names.2 ⟨x.1, hxm, hxn⟩)) (fun m hm => ?_) hnd
      by_cases hmi : m.idx = i
      · have : m = x.1 := hw.g.eq_of_idx hm hxm (hmi.trans hxi.symm)
        subst this
        simp only [hmi, if_true, hxn, hd']
        exact (List.Perm.erase dp (hxn ▸ hw.d.payload_data _ hm))
      · have hne : m.name ≠ node := fun hc' =>
          hmi ((congrArg NodeRec.idx (hw.g.eq_of_name hm hxm (hc'.trans hxn.symm))).trans hxi)
        simp only [hmi, if_false, hne]; exact hw.d.payload_data m hm
    have hnm : s'.forest.recs.map (·.name) = s.forest.recs.map (·.name) :=
      (hs.map_eq (·.name) fun _ _ _ h => h).trans (map_name_of_keep hg)
    refine ⟨?_, hnm, ?_, ?_, hdp⟩
    · rw [wf_iff, h1, h2, h3]
      exact ⟨(hw.g.mapg hg).same hs, (hw.m.mapg hg).same hs, by simpa [dataOf_eq] using hd.same hs⟩
    · rw [numNodes_eq, numNodes_eq]; simpa using congrArg List.length hnm
    · rw [h3]

theorem rmDp_inv {dt : Data} {s s' : Store} {dp : Nat} {node : Int}
    (h : s.removeDataPointFromNode dt dp node = some s') (hs : Inv0 s) : Inv0 s' := by
  obtain ⟨hw, hn, _, hd, _⟩ := rmDp_spec h hs.1
  refine ⟨hw, fun n hn' => ?_⟩
  have : n.name ∈ s.forest.names := hn ▸ mem_names.2 ⟨n, hn', rfl⟩
  obtain ⟨m, hm, hmn⟩ := mem_names.1 this
  show n.name ∈ keys s'.data
  rw [hd, mem_keys_alSet]
  exact Or.inr (hmn ▸ hs.2 m hm)

theorem rmDp_dense {dt : Data} {s s' : Store} {dp : Nat} {node : Int}
    (h : s.removeDataPointFromNode dt dp node = some s') (hw : WF s) (hd : Dense s) : Dense s' := by
  obtain ⟨_, hn, hnum, _, _⟩ := rmDp_spec h hw
  intro n hn'
  have : n.name ∈ s.forest.names := hn ▸ mem_names.2 ⟨n, hn', rfl⟩
  obtain ⟨m, hm, hmn⟩ := mem_names.1 this
  show n.name < ((s'.forest.numNodes : Nat) : Int)
  rw [hnum, ← hmn]; exact hd m hm

theorem perm_of_erase_entry {data : List (Int × List Nat)} (hk : (keys data).Nodup) {dp : Nat} {node : Int}
    (hdp : dp ∈ dOf data node) :
    (vals data).Perm (dp :: vals (alSet data node ((dOf data node).erase dp))) := by
  refine (vals_perm_split hk node).trans ?_
  refine List.Perm.trans ?_ (List.Perm.cons dp (vals_alSet_perm hk node _).symm)
  exact (List.perm_cons_erase hdp).append_right _

/-- data conservation: exactly `dp` is removed -/
theorem rmDp_data {dt : Data} {s s' : Store} {dp : Nat} {node : Int}
    (h : s.removeDataPointFromNode dt dp node = some s') (hw : WF s) :
    (vals s.data).Perm (dp :: vals s'.data) := by
  obtain ⟨_, _, _, hd, hdp⟩ := rmDp_spec h hw
  rw [hd]; exact perm_of_erase_entry hw.d.data_keys hdp

/-! ### outliers -/

theorem rmOut_spec {s s' : Store} {dp : Nat} (h : s.removeDataPointFromOutliers dp = some s') :
    s'.forest = s.forest ∧ s'.nodeIdx = s.nodeIdx ∧ s'.nodeIdxRev = s.nodeIdxRev ∧
      s'.data = alSet s.data outKey (s.outliers.erase dp) ∧ dp ∈ s.outliers := by
  unfold removeDataPointFromOutliers at h
  split at h
  · cases h
  · rename_i hc
    simp only [Option.some.injEq] at h; subst h
    exact ⟨rfl, rfl, rfl, rfl, by simpa using hc⟩

theorem rmOut_inv {s s' : Store} {dp : Nat} (h : s.removeDataPointFromOutliers dp = some s') (hs : Inv0 s) :
    Inv0 s' := by
  obtain ⟨hf, h1, h2, h3, _⟩ := rmOut_spec h
  have hw := hs.1
  have hnd := nodup_erase_dp hw.d.data_keys hw.d.data_nodup dp outKey
  have := hw.d.mapg_alSet (g := id) (node := outKey) (v := (dOf s.data outKey).erase dp)
      (fun _ _ => ⟨rfl, rfl⟩) (Or.inl rfl)
      (fun m hm => by
        have : m.name ≠ outKey := fun hc => by
          have := hw.name_nonneg m hm; rw [hc] at this; simp [outKey] at this
        simp only [id, if_neg this]; exact hw.d.payload_data m hm) hnd
  refine ⟨?_, fun n hn => ?_⟩
  · rw [wf_iff, hf, h1, h2, h3]
    exact ⟨hw.g, hw.m, by simpa [Store.outliers, dataOf_eq] using this⟩
  · show n.name ∈ keys s'.data
    rw [h3, mem_keys_alSet]; exact Or.inr (hs.2 n (hf ▸ hn))

theorem rmOut_dense {s s' : Store} {dp : Nat} (h : s.removeDataPointFromOutliers dp = some s')
    (hd : Dense s) : Dense s' := by
  obtain ⟨hf, _⟩ := rmOut_spec h
  intro n hn; simp only [Store.numNodes, hf] at hn ⊢; exact hd n hn

theorem rmOut_data {s s' : Store} {dp : Nat} (h : s.removeDataPointFromOutliers dp = some s') (hw : WF s) :
    (vals s.data).Perm (dp :: vals s'.data) := by
  obtain ⟨_, _, _, hd, hdp⟩ := rmOut_spec h
  rw [hd]; exact perm_of_erase_entry hw.d.data_keys hdp

end PhyModel.Store
