import PhyModel.Model.Store
/-! Shared invariant definitions for the store model (`Model/Store.lean`), used by the proofs of C06
(cached vectors), C07 (well-formedness) and C15 (dictionary round trip).  Definitions only. -/
namespace PhyModel.Store
open PhyModel PhyModel.Orders

/-- **C07**: the four views of the assignment agree — payload names / graph indices are unique, the
maps name → index and index → name are exactly the payload pairs, `_data` is keyed by clone names (or
the outlier key) and lists each clone's payload set, and every data point sits in exactly one place. -/
structure WF (s : Store) : Prop where
  names_nodup : s.forest.names.Nodup
  idxs_nodup : s.forest.idxs.Nodup
  idx_pos : ∀ n ∈ s.forest.recs, n.idx ≠ 0
  name_nonneg : ∀ n ∈ s.forest.recs, 0 ≤ n.name
  nodeIdx_keys : (s.nodeIdx.map (·.1)).Nodup
  nodeIdxRev_keys : (s.nodeIdxRev.map (·.1)).Nodup
  nodeIdx_iff : ∀ nm i, (nm, i) ∈ s.nodeIdx ↔ ∃ n ∈ s.forest.recs, n.name = nm ∧ n.idx = i
  nodeIdxRev_iff : ∀ i nm, (i, nm) ∈ s.nodeIdxRev ↔ ∃ n ∈ s.forest.recs, n.name = nm ∧ n.idx = i
  data_keys : (s.data.map (·.1)).Nodup
  data_sub : ∀ e ∈ s.data, e.1 = outKey ∨ e.1 ∈ s.forest.names
  payload_data : ∀ n ∈ s.forest.recs, n.dps.Perm (s.dataOf n.name)
  data_nodup : (s.data.flatMap (·.2)).Nodup

/-- every clone has an entry in `_data` (false only between `create_root_node(children)` and the
`add_data_point_to_node` that follows it) -/
def Full (s : Store) : Prop := ∀ n ∈ s.forest.recs, n.name ∈ s.data.map (·.1)

/-- the payload's data-point list is the `_data` list of its name, in the same order (both are appended
to and erased from together; `from_dict` rebuilds the payload from the `_data` list) -/
def Aligned (s : Store) : Prop := ∀ n ∈ s.forest.recs, n.dps = s.dataOf n.name

/-- clone names are below the number of clones: true of every tree built by SMC placements only and
after `relabel_nodes`; it is what makes the name `num_nodes` chosen by `create_root_node` fresh -/
def Dense (s : Store) : Prop := ∀ n ∈ s.forest.recs, n.name < (s.numNodes : Int)

/-- all likelihood values are non-zero (the emission model guarantees it, C05 `vaf_in_unit`);
needed because `remove_data_point` subtracts in the log domain = divides here -/
def DataNZ (dt : Data) : Prop := ∀ i s k, i < dt.n → s < dt.S → k < dt.G → getQ (dt.L i s) k ≠ 0

/-- **C06**: every cached vector is what a rebuild from the data gives: `p` is the prior times the
product of the clone's data, `r` is `p ⊙ S(children's r)` -/
def CacheOKsf (dt : Data) : SF → Prop
  | .nil => True
  | .cons n k s =>
    n.p = (List.range dt.S).map (fun sm => nodeP dt sm n.dps) ∧
    n.r = recompR dt n k ∧ CacheOKsf dt k ∧ CacheOKsf dt s

/-- the virtual root's vector is only required (and only read by the code) when there is a clone -/
def CacheOK (dt : Data) (s : Store) : Prop :=
  CacheOKsf dt s.forest ∧ (s.forest.isNil = false → s.rootR = recompRoot dt s.forest)

/-- the edits the samplers compose: a clone is created (named `num_nodes`) only in a tree whose names
are dense (SMC placements start from the empty tree or from a particle built by placements), with data
points the tree does not hold yet (`create_root_node` itself does not check this), and is never left
empty; `remove_subtree` is given a subtree extracted from the same tree; a subtree is
grafted only into a tree that does not hold its data points -/
def Legal (sys : Sys) : Op → Prop
  | .create h _ d => d ≠ [] ∧ ∀ s, sys[h]? = some s → Dense s ∧ ∀ x ∈ d, x ∉ s.data.flatMap (·.2)
  | .createAdd h _ _ => ∀ s, sys[h]? = some s → Dense s
  -- the subtree handed to `remove_subtree` carries the names of the subtree it was extracted from
  | .rmSub h hs => ∀ s sb, sys[h]? = some s → sys[hs]? = some sb → Store.keyEq sb s = false →
      ∃ r i x, sb.roots = [r] ∧ s.nodeIdx.lookup r = some i ∧ s.forest.findSub i = some x ∧
        sb.nodes.Perm (SF.cons x.1 x.2 .nil).names
  -- a subtree is grafted only where its data points are not present already
  | .addSub h hs _ => ∀ s sb, sys[h]? = some s → sys[hs]? = some sb →
      ∀ d ∈ sb.forest.recs.flatMap (fun n => sb.dataOf n.name), d ∉ s.data.flatMap (·.2)
  | _ => True

end PhyModel.Store
