import PhyModel.Proofs.StoreWF_SF
/-! Forest lemmas, part 2 (C07): the payload-rewriting passes `updAll`, `updPath` (only the cached
`r` changes), `reindex` (only `idx` changes: consecutive fresh indices), `relabelSF` (only `name`
changes: consecutive labels) and `setRec`. -/
namespace PhyModel.Store
open PhyModel PhyModel.Store PhyModel.Store.Store SF

/-- what well-formedness reads from a payload -/
def core (n : NodeRec) : Nat × Int × List Nat := (n.idx, n.name, n.dps)

def SF.cores (f : SF) : List (Nat × Int × List Nat) := f.recs.map core

theorem updAll_map {β} (h : NodeRec → β) (hh : ∀ n r, h { n with r := r } = h n) (dt : Data) (f : SF) :
    (updAll dt f).recs.map h = f.recs.map h := by
  induction f with
  | nil => rfl
  | cons n k s ihk ihs => simp [updAll, ihk, ihs, hh]

theorem updPath_map {β} (h : NodeRec → β) (hh : ∀ n r, h { n with r := r } = h n) (dt : Data) (i : Nat)
    (f : SF) : (updPath dt i f).1.recs.map h = f.recs.map h := by
  induction f with
  | nil => rfl
  | cons n k s ihk ihs =>
    simp only [updPath]
    split
    · simp [hh]
    · split
      · simp [hh, ihk]
      · simp [ihs]

theorem updAll_cores (dt : Data) (f : SF) : (updAll dt f).cores = f.cores :=
  updAll_map core (fun _ _ => rfl) dt f

theorem updPath_cores (dt : Data) (i : Nat) (f : SF) : (updPath dt i f).1.cores = f.cores :=
  updPath_map core (fun _ _ => rfl) dt i f

/-! ### `reindex` -/

theorem reindex_snd (f : SF) (c : Nat) : (reindex f c).2 = c + f.numNodes := by
  induction f generalizing c with
  | nil => rfl
  | cons n k s ihk ihs => simp only [reindex, ihs, ihk, SF.numNodes]; omega

theorem reindex_idxs (f : SF) (c : Nat) : (reindex f c).1.idxs = List.range' c f.numNodes := by
  induction f generalizing c with
  | nil => rfl
  | cons n k s ihk ihs =>
    simp only [reindex, idxs_cons, ihk, ihs, reindex_snd, SF.numNodes]
    rw [show 1 + k.numNodes + s.numNodes = (k.numNodes + s.numNodes) + 1 by omega, List.range'_succ]
    congr 1
    rw [← List.range'_append_1]

theorem reindex_map {β} (h : NodeRec → β) (hh : ∀ n c, h { n with idx := c } = h n) (f : SF) (c : Nat) :
    (reindex f c).1.recs.map h = f.recs.map h := by
  induction f generalizing c with
  | nil => rfl
  | cons n k s ihk ihs => simp [reindex, ihk, ihs, hh]

theorem reindex_numNodes (f : SF) (c : Nat) : (reindex f c).1.numNodes = f.numNodes := by
  rw [numNodes_eq, numNodes_eq, ← List.length_map (f := fun n => n.name),
    reindex_map _ (fun _ _ => rfl), List.length_map]

theorem reindex_idx_bounds {f : SF} {c : Nat} {n : NodeRec} (h : n ∈ (reindex f c).1.recs) :
    c ≤ n.idx ∧ n.idx < c + f.numNodes := by
  have : n.idx ∈ (reindex f c).1.idxs := mem_idxs.2 ⟨n, h, rfl⟩
  rw [reindex_idxs, List.mem_range'_1] at this
  exact this

theorem reindex_idxs_nodup (f : SF) (c : Nat) : (reindex f c).1.idxs.Nodup := by
  rw [reindex_idxs]; exact List.nodup_range'

/-! ### `relabelSF` -/

theorem relabelSF_next (f : SF) (c : Int) : (relabelSF f c).2.1 = c + (f.numNodes : Int) := by
  induction f generalizing c with
  | nil => simp [relabelSF, SF.numNodes]
  | cons n k s ihk ihs => simp only [relabelSF, ihs, ihk, SF.numNodes]; push_cast; omega

theorem relabelSF_map {β} (h : NodeRec → β) (hh : ∀ n c, h { n with name := c } = h n) (f : SF) (c : Int) :
    (relabelSF f c).1.recs.map h = f.recs.map h := by
  induction f generalizing c with
  | nil => rfl
  | cons n k s ihk ihs => simp [relabelSF, ihk, ihs, hh]

theorem relabelSF_numNodes (f : SF) (c : Int) : (relabelSF f c).1.numNodes = f.numNodes := by
  rw [numNodes_eq, numNodes_eq, ← List.length_map (f := fun n => n.idx),
    relabelSF_map _ (fun _ _ => rfl), List.length_map]

theorem relabelSF_bounds {f : SF} {c : Int} {nm : Int} (h : nm ∈ (relabelSF f c).1.names) :
    c ≤ nm ∧ nm < c + (f.numNodes : Int) := by
  induction f generalizing c with
  | nil => simp [relabelSF] at h
  | cons n k s ihk ihs =>
    simp only [relabelSF, names_cons, List.mem_cons, List.mem_append] at h
    simp only [SF.numNodes]; push_cast
    rcases h with rfl | h | h
    · omega
    · have := ihk h; omega
    · have := ihs h; rw [relabelSF_next] at this; omega

theorem relabelSF_names_nodup (f : SF) (c : Int) : (relabelSF f c).1.names.Nodup := by
  induction f generalizing c with
  | nil => simp [relabelSF]
  | cons n k s ihk ihs =>
    simp only [relabelSF, names_cons, List.nodup_cons, List.mem_append, not_or, List.nodup_append]
    refine ⟨⟨fun h => ?_, fun h => ?_⟩, ihk _, ihs _, fun a ha b hb hab => ?_⟩
    · have := relabelSF_bounds h; omega
    · have := relabelSF_bounds h; rw [relabelSF_next] at this; omega
    · have h1 := relabelSF_bounds ha; have h2 := relabelSF_bounds hb
      rw [relabelSF_next] at h2; omega

theorem relabelSF_ren_fst (f : SF) (c : Int) : (relabelSF f c).2.2.map (·.1) = f.names := by
  induction f generalizing c with
  | nil => rfl
  | cons n k s ihk ihs => simp [relabelSF, ihk, ihs]

theorem relabelSF_ren_snd (f : SF) (c : Int) : (relabelSF f c).2.2.map (·.2) = (relabelSF f c).1.names := by
  induction f generalizing c with
  | nil => rfl
  | cons n k s ihk ihs => simp [relabelSF, ihk, ihs]

/-- each relabelled payload is an old payload under its new name, and the renaming records the pair -/
theorem relabelSF_mem {f : SF} {c : Int} {n' : NodeRec} (h : n' ∈ (relabelSF f c).1.recs) :
    ∃ n ∈ f.recs, n' = { n with name := n'.name } ∧ (n.name, n'.name) ∈ (relabelSF f c).2.2 := by
  induction f generalizing c with
  | nil => simp [relabelSF] at h
  | cons n k s ihk ihs =>
    simp only [relabelSF, recs_cons, List.mem_cons, List.mem_append] at h
    rcases h with rfl | h | h
    · exact ⟨n, by simp, rfl, by simp [relabelSF]⟩
    · obtain ⟨m, hm, h1, h2⟩ := ihk h
      exact ⟨m, by simp [hm], h1, by simp [relabelSF, h2]⟩
    · obtain ⟨m, hm, h1, h2⟩ := ihs h
      exact ⟨m, by simp [hm], h1, by simp [relabelSF, h2]⟩

/-! ### `setRec` -/

theorem recs_setRec (i : Nat) (g : NodeRec → NodeRec) (f : SF) :
    (setRec i g f).recs = f.recs.map (fun n => if n.idx = i then g n else n) := recs_mapRecs _ f

end PhyModel.Store
