import PhyModel.Model.Moves
import PhyModel.Proofs.OrdersProofs6
/-! Expectation calculus for the finite `Dist` monad used by the move models (C04):
`E` of `categorical`, `norm`, `scale`, total mass, and lawfulness of the derived `BEq` on trees. -/
namespace PhyModel
open Dist

deriving instance ReflBEq, LawfulBEq for Orders.Forest
deriving instance ReflBEq, LawfulBEq for T

namespace Dist

theorem foldl_add_eq (l : List ℚ) (c : ℚ) : l.foldl (· + ·) c = c + l.sum := by
  induction l generalizing c with
  | nil => simp
  | cons a l ih => simp [List.foldl_cons, ih, add_assoc]

/-- total weight of a weighted list, as `lsum` -/
theorem categorical_tot {α} (l : List (α × ℚ)) :
    (l.map (·.2)).foldl (· + ·) 0 = lsum l (fun aw => aw.2) := by
  rw [foldl_add_eq]; simp [lsum]

theorem E_nil {α} (h : α → ℚ) : E ([] : Dist α) h = 0 := by simp [E]

theorem E_cons {α} (a : α) (q : ℚ) (d : Dist α) (h : α → ℚ) :
    E ((a, q) :: d) h = q * h a + E d h := by simp [E]

theorem E_append {α} (d₁ d₂ : Dist α) (h : α → ℚ) : E (d₁ ++ d₂) h = E d₁ h + E d₂ h := by
  simp [E]

/-- expectation of a categorical draw: weighted mean (with Lean's `x / 0 = 0` when all weights
cancel) -/
theorem E_categorical {α} (l : List (α × ℚ)) (h : α → ℚ) :
    E (categorical l) h = lsum l (fun aw => aw.2 * h aw.1) / lsum l (fun aw => aw.2) := by
  unfold categorical
  rw [categorical_tot, E_eq_lsum, lsum_map, div_eq_mul_inv, ← lsum_mul_right]
  apply lsum_congr; intro aw _
  simp only [div_eq_mul_inv]; ring

theorem E_scale {α} (c : ℚ) (d : Dist α) (h : α → ℚ) : E (scale c d) h = c * E d h := by
  unfold scale
  rw [E_eq_lsum, lsum_map, E_eq_lsum, ← lsum_mul_left]
  apply lsum_congr; intro aq _; ring

/-- total mass of a categorical draw is 1 as soon as the total weight is non-zero -/
theorem categorical_mass {α} (l : List (α × ℚ)) (hl : lsum l (fun aw => aw.2) ≠ 0) :
    E (categorical l) (fun _ => 1) = 1 := by
  rw [E_categorical]; simp only [mul_one]; exact div_self hl

section norm
variable {α : Type} [BEq α] [LawfulBEq α]

theorem E_addTo (a : α) (q : ℚ) (l : List (α × ℚ)) (h : α → ℚ) :
    E (addTo a q l) h = E l h + q * h a := by
  induction l with
  | nil => simp [addTo, E]
  | cons bp l ih =>
    obtain ⟨b, p⟩ := bp
    unfold addTo
    by_cases hab : (a == b) = true
    · have : a = b := eq_of_beq hab
      subst this
      simp only [hab, if_true, E_cons]; ring
    · simp only [hab, E_cons, ih]; simp only [Bool.false_eq_true, if_false, E_cons, ih]; ring

theorem E_foldl_addTo (d acc : List (α × ℚ)) (h : α → ℚ) :
    E (d.foldl (fun acc aq => addTo aq.1 aq.2 acc) acc) h = E acc h + E d h := by
  induction d generalizing acc with
  | nil => simp [E_nil]
  | cons aq d ih => rw [List.foldl_cons, ih, E_addTo, E_cons]; ring

theorem E_filter_ne_zero {β} (d : Dist β) (h : β → ℚ) :
    E (d.filter fun aq => aq.2 != 0) h = E d h := by
  induction d with
  | nil => rfl
  | cons aq d ih =>
    obtain ⟨a, q⟩ := aq
    by_cases hq : q = 0
    · subst hq; simp [List.filter_cons, E_cons, ih]
    · have : ((a, q).2 != 0) = true := by simpa using hq
      rw [List.filter_cons, if_pos this, E_cons, E_cons, ih]

/-- merging equal outcomes and dropping impossible ones does not change any expectation -/
theorem E_norm (d : Dist α) (h : α → ℚ) : E (norm d) h = E d h := by
  unfold norm
  rw [E_filter_ne_zero, E_foldl_addTo, E_nil, zero_add]
end norm

end Dist
end PhyModel
