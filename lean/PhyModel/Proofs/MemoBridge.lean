import PhyModel.Proofs.MemoProofs
/-! Bridge between C14's memoised function and C02's recursion: on the `R` vectors of the top-level
clones of a forest, `compute_log_D` (`Memo.childD`, the Python loop without a unit) computes the
`D` of `Model/Lik.lean` (right fold with the unit `δ₀`). -/

open Finset BigOperators

namespace PhyModel

theorem conv_delta0 (G : ℕ) (v : Vec) (hv : v.length = G) : conv G v (delta0 G) = v := by
  apply List.ext_getElem
  · simp [conv, hv]
  · intro i h1 h2
    have hi : i < G := by simpa [conv] using h1
    have e1 : (conv G v (delta0 G))[i] = getQ (conv G v (delta0 G)) i := by
      unfold getQ; simp [List.getD, h1]
    have e2 : v[i] = getQ v i := by
      unfold getQ; simp [List.getD, h2]
    rw [e1, e2, getQ_conv G _ _ i hi]
    rw [Finset.sum_eq_single i]
    · rw [Nat.sub_self, getQ_delta0 G 0 (by omega)]; simp
    · intro j hj hne
      have hj' : j < i + 1 := Finset.mem_range.mp hj
      rw [getQ_delta0 G (i - j) (by omega)]
      have : i - j ≠ 0 := by omega
      simp [this]
    · intro h; exact absurd (Finset.mem_range.mpr (Nat.lt_succ_self i)) h

namespace Memo

/-- the `R` vectors of the top-level clones of a (single-sample) forest -/
def kidsR (G : ℕ) : Forest → List Vec
  | .nil => []
  | .cons p k s => pmul G p (prefixSum G (D G k)) :: kidsR G s

theorem D_eq_foldr (G : ℕ) (f : Forest) : D G f = (kidsR G f).foldr (conv G) (delta0 G) := by
  induction f with
  | nil => rfl
  | cons p k s _ ihs => simp only [D, kidsR, List.foldr_cons, ihs]

theorem kidsR_length (G : ℕ) (f : Forest) : ∀ v ∈ kidsR G f, v.length = G := by
  induction f with
  | nil => intro v h; simp [kidsR] at h
  | cons p k s _ ihs =>
    intro v h
    simp only [kidsR, List.mem_cons] at h
    rcases h with h | h
    · rw [h]; simp [pmul]
    · exact ihs v h

section Red
variable {α : Type} (f : α → α → α)

theorem foldl_pull (hlc : ∀ a b c, f a (f b c) = f b (f a c)) (x : α) :
    ∀ (l : List α) (a : α), f x (l.foldl (fun acc y => f y acc) a) = l.foldl (fun acc y => f y acc) (f x a) := by
  intro l
  induction l with
  | nil => intro a; rfl
  | cons c l ih => intro a; simp only [List.foldl_cons]; rw [ih, hlc]

/-- with a unit on the elements, the order-insensitive reduction is the right fold from the unit -/
theorem red_eq_foldr (hc : ∀ a b, f a b = f b a) (hlc : ∀ a b c, f a (f b c) = f b (f a c)) (e : α) :
    ∀ (l : List α), (∀ x ∈ l, f x e = x) → l ≠ [] → red f l = some (l.foldr f e) := by
  intro l
  induction l with
  | nil => intro _ h; exact absurd rfl h
  | cons c l ih =>
    intro hu _
    cases l with
    | nil => simp only [red, List.foldl_nil, List.foldr_cons, List.foldr_nil]; rw [hu c (by simp)]
    | cons d ds =>
      have ih' := ih (fun x hx => hu x (List.mem_cons_of_mem _ hx)) (by simp)
      simp only [red, List.foldl_cons] at ih' ⊢
      have h2 := Option.some.inj ih'
      rw [List.foldr_cons, ← h2, foldl_pull f hlc, hc c d]

end Red

theorem foldr_single (G : ℕ) (l : List Vec) :
    (l.map fun v => [v]).foldr (convM G) [delta0 G] = [l.foldr (conv G) (delta0 G)] := by
  induction l with
  | nil => rfl
  | cons v l ih => simp only [List.map_cons, List.foldr_cons, ih]; simp [convM]

/-- **bridge**: on a non-empty forest the memoised recursion computes C02's `D` -/
theorem childD_eq_D (G : ℕ) (f : Forest) (hf : f ≠ .nil) :
    childD G 1 ((kidsR G f).map fun v => [v]) = [D G f] := by
  have hne : (kidsR G f).map (fun v => [v]) ≠ [] := by
    cases f with
    | nil => exact absurd rfl hf
    | cons p k s => simp [kidsR]
  have hunit : ∀ x ∈ (kidsR G f).map (fun v => [v]), convM G x [delta0 G] = x := by
    intro x hx
    obtain ⟨v, hv, rfl⟩ := List.mem_map.mp hx
    simp only [convM, List.zipWith_cons_cons, List.zipWith_nil_right]
    rw [conv_delta0 G v (kidsR_length G f v hv)]
  have h := red_eq_foldr (convM G) (convM_comm G) (convM_left_comm G) [delta0 G] _ hunit hne
  rw [foldr_single, ← D_eq_foldr] at h
  cases hl : (kidsR G f).map (fun v => [v]) with
  | nil => exact absurd hl hne
  | cons c cs =>
    rw [hl, ← childD_eq_red G 1] at h
    exact Option.some.inj h

end Memo
end PhyModel
