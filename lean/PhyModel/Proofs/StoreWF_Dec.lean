import PhyModel.Proofs.StoreWF_StepAl
/-! C07: the store invariants are decidable (bounded reformulation of `WF`), so that concrete stores can
be checked by `decide +kernel` in the non-vacuity examples. -/
namespace PhyModel.Store
open PhyModel PhyModel.Store PhyModel.Store.Store SF AL

/-- `WF` with every quantifier bounded by a list of the store -/
def WFdec (s : Store) : Prop :=
  s.forest.names.Nodup ∧ s.forest.idxs.Nodup ∧ (∀ n ∈ s.forest.recs, n.idx ≠ 0) ∧
  (∀ n ∈ s.forest.recs, 0 ≤ n.name) ∧
  (s.nodeIdx.map (·.1)).Nodup ∧ (s.nodeIdxRev.map (·.1)).Nodup ∧
  (∀ e ∈ s.nodeIdx, ∃ n ∈ s.forest.recs, n.name = e.1 ∧ n.idx = e.2) ∧
  (∀ n ∈ s.forest.recs, (n.name, n.idx) ∈ s.nodeIdx) ∧
  (∀ e ∈ s.nodeIdxRev, ∃ n ∈ s.forest.recs, n.name = e.2 ∧ n.idx = e.1) ∧
  (∀ n ∈ s.forest.recs, (n.idx, n.name) ∈ s.nodeIdxRev) ∧
  (s.data.map (·.1)).Nodup ∧ (∀ e ∈ s.data, e.1 = outKey ∨ e.1 ∈ s.forest.names) ∧
  (∀ n ∈ s.forest.recs, n.dps.Perm (s.dataOf n.name)) ∧ (s.data.flatMap (·.2)).Nodup

theorem wf_iff_dec (s : Store) : WF s ↔ WFdec s := by
  constructor
  · intro h
    exact ⟨h.names_nodup, h.idxs_nodup, h.idx_pos, h.name_nonneg, h.nodeIdx_keys, h.nodeIdxRev_keys,
      fun e he => (h.nodeIdx_iff e.1 e.2).1 he, fun n hn => (h.nodeIdx_iff _ _).2 ⟨n, hn, rfl, rfl⟩,
      fun e he => (h.nodeIdxRev_iff e.1 e.2).1 he, fun n hn => (h.nodeIdxRev_iff _ _).2 ⟨n, hn, rfl, rfl⟩,
      h.data_keys, h.data_sub, h.payload_data, h.data_nodup⟩
  · rintro ⟨h1, h2, h3, h4, h5, h6, h7, h8, h9, h10, h11, h12, h13, h14⟩
    refine ⟨h1, h2, h3, h4, h5, h6, fun nm i => ⟨fun he => h7 (nm, i) he, ?_⟩,
      fun i nm => ⟨fun he => h9 (i, nm) he, ?_⟩, h11, h12, h13, h14⟩
    · rintro ⟨n, hn, rfl, rfl⟩; exact h8 n hn
    · rintro ⟨n, hn, rfl, rfl⟩; exact h10 n hn

instance (s : Store) : Decidable (WFdec s) := by unfold WFdec; infer_instance
instance (s : Store) : Decidable (WF s) := decidable_of_iff _ (wf_iff_dec s).symm
instance (s : Store) : Decidable (Full s) := by unfold Full; infer_instance
instance (s : Store) : Decidable (Aligned s) := by unfold Aligned; infer_instance
instance (s : Store) : Decidable (Dense s) := by unfold Dense; infer_instance
instance (s : Store) : Decidable (Inv0 s) := by unfold Inv0; infer_instance
instance (s : Store) : Decidable (Inv s) := by unfold Inv; infer_instance

end PhyModel.Store
