import PhyModel.Proofs.CanonIso
import Mathlib.Data.List.Sort
import Mathlib.Order.Basic
/-! `canon` is a complete invariant of `DFIsoP` on forests with distinct, bounded data and no
empty clone: the sort key of a root (smallest data index of its clade) depends only on the
clade's set of data, and distinct siblings have distinct keys, so insertion order is irrelevant. -/

namespace PhyModel
open Orders Orders.Forest

namespace Orders.Forest

/-! ### `sortNat` is insertion sort -/

theorem insertNat_eq (a : ℕ) (l : List ℕ) : insertNat a l = List.orderedInsert (· ≤ ·) a l := by
  induction l with
  | nil => rfl
  | cons b l ih => simp only [insertNat, List.orderedInsert, ih]

theorem sortNat_eq (l : List ℕ) : sortNat l = List.insertionSort (· ≤ ·) l := by
  induction l with
  | nil => rfl
  | cons a l ih =>
    show insertNat a (sortNat l) = _
    rw [ih, insertNat_eq, List.insertionSort_cons]

theorem sortNat_perm_eq {d d' : List ℕ} (h : d.Perm d') : sortNat d = sortNat d' := by
  rw [sortNat_eq, sortNat_eq]
  apply List.Perm.eq_of_pairwise' (r := (· ≤ ·)) (List.pairwise_insertionSort _ _)
    (List.pairwise_insertionSort _ _)
  exact ((List.perm_insertionSort _ d).trans h).trans (List.perm_insertionSort _ d').symm

/-! ### the sort key is the minimum of the clade's data (and `big`) -/

theorem listMin_le (l : List ℕ) (m : ℕ) : listMin l m ≤ m := by
  induction l generalizing m with
  | nil => exact le_refl _
  | cons a l ih =>
    simp only [listMin]
    refine le_trans (ih _) ?_
    split <;> omega

theorem listMin_le_mem (l : List ℕ) (m : ℕ) : ∀ a ∈ l, listMin l m ≤ a := by
  induction l generalizing m with
  | nil => intro a ha; simp at ha
  | cons b l ih =>
    intro a ha
    simp only [listMin]
    rcases List.mem_cons.mp ha with rfl | ha
    · refine le_trans (listMin_le _ _) ?_
      split <;> omega
    · exact ih _ a ha

theorem listMin_mem (l : List ℕ) (m : ℕ) : listMin l m = m ∨ listMin l m ∈ l := by
  induction l generalizing m with
  | nil => exact Or.inl rfl
  | cons b l ih =>
    simp only [listMin]
    rcases ih (if b < m then b else m) with h | h
    · rw [h]
      split
      · exact Or.inr (by simp)
      · exact Or.inl rfl
    · exact Or.inr (List.mem_cons_of_mem _ h)

theorem minDp_le (f : DF) (m : ℕ) : minDp f m ≤ m := by
  induction f generalizing m with
  | nil => exact le_refl _
  | cons d k s ihk ihs =>
    simp only [minDp]
    exact le_trans (ihs _) (le_trans (ihk _) (listMin_le d m))

theorem minDp_le_mem (f : DF) (m : ℕ) : ∀ a ∈ f.all, minDp f m ≤ a := by
  induction f generalizing m with
  | nil => intro a ha; simp [Forest.all] at ha
  | cons d k s ihk ihs =>
    intro a ha
    simp only [Forest.all, List.mem_append] at ha
    simp only [minDp]
    rcases ha with (ha | ha) | ha
    · exact le_trans (minDp_le s _) (ihk _ a ha)
    · exact le_trans (minDp_le s _) (le_trans (minDp_le k _) (listMin_le_mem d m a ha))
    · exact ihs _ a ha

theorem minDp_mem (f : DF) (m : ℕ) : minDp f m = m ∨ minDp f m ∈ f.all := by
  induction f generalizing m with
  | nil => exact Or.inl rfl
  | cons d k s ihk ihs =>
    simp only [minDp, Forest.all, List.mem_append]
    rcases ihs (minDp k (listMin d m)) with h | h
    · rw [h]
      rcases ihk (listMin d m) with h' | h'
      · rw [h']
        rcases listMin_mem d m with h'' | h''
        · exact Or.inl h''
        · exact Or.inr (Or.inl (Or.inr h''))
      · exact Or.inr (Or.inl (Or.inl h'))
    · exact Or.inr (Or.inr h)

/-- the data of a root's clade -/
def clade (r : List ℕ × DF) : List ℕ := r.2.all ++ r.1

theorem rootKey_le_mem (r : List ℕ × DF) : ∀ a ∈ clade r, rootKey r ≤ a := by
  intro a ha
  unfold clade at ha
  unfold rootKey
  rcases List.mem_append.mp ha with ha | ha
  · exact minDp_le_mem _ _ a ha
  · exact le_trans (minDp_le _ _) (listMin_le_mem _ _ a ha)

theorem rootKey_le_big (r : List ℕ × DF) : rootKey r ≤ big :=
  le_trans (minDp_le _ _) (listMin_le _ _)

theorem rootKey_mem (r : List ℕ × DF) : rootKey r = big ∨ rootKey r ∈ clade r := by
  unfold rootKey clade
  rcases minDp_mem r.2 (listMin r.1 big) with h | h
  · rw [h]
    rcases listMin_mem r.1 big with h' | h'
    · exact Or.inl h'
    · exact Or.inr (List.mem_append_right _ h')
  · exact Or.inr (List.mem_append_left _ h)

theorem rootKey_congr {r r' : List ℕ × DF} (h : ∀ a, a ∈ clade r ↔ a ∈ clade r') :
    rootKey r = rootKey r' := by
  apply le_antisymm
  · rcases rootKey_mem r' with h' | h'
    · rw [h']; exact rootKey_le_big r
    · exact rootKey_le_mem r _ ((h _).mpr h')
  · rcases rootKey_mem r with h' | h'
    · rw [h']; exact rootKey_le_big r'
    · exact rootKey_le_mem r' _ ((h _).mp h')

theorem rootKey_mem_of (r : List ℕ × DF) (hne : r.1 ≠ []) (hb : ∀ a ∈ clade r, a < big) :
    rootKey r ∈ clade r := by
  rcases rootKey_mem r with h | h
  · exfalso
    obtain ⟨a, ha⟩ := List.exists_mem_of_ne_nil _ hne
    have hm : a ∈ clade r := List.mem_append_right _ ha
    have := rootKey_le_mem r a hm
    have := hb a hm
    omega
  · exact h

/-! ### insertions with distinct keys commute -/

theorem insertSorted_comm (A B : List ℕ × DF) (hk : rootKey A ≠ rootKey B)
    (R : List (List ℕ × DF)) :
    insertSorted A (insertSorted B R) = insertSorted B (insertSorted A R) := by
  induction R with
  | nil =>
    simp only [insertSorted]
    split <;> split <;> first | rfl | (exfalso; omega)
  | cons x l ih =>
    simp only [insertSorted]
    by_cases hB : rootKey B ≤ rootKey x <;> by_cases hA : rootKey A ≤ rootKey x
    · simp only [hA, hB, if_true, insertSorted]
      split <;> split <;> first | rfl | (exfalso; omega)
    · have h1 : ¬ rootKey A ≤ rootKey B := by omega
      simp only [hA, hB, if_true, if_false, insertSorted, h1]
    · have h1 : ¬ rootKey B ≤ rootKey A := by omega
      simp only [hA, hB, if_true, if_false, insertSorted, h1]
    · simp only [hA, hB, if_false, insertSorted, ih]

end Orders.Forest

/-! ### well-formedness for keys -/

def NonemptyClones : DF → Prop
  | .nil => True
  | .cons d k s => d ≠ [] ∧ NonemptyClones k ∧ NonemptyClones s

/-- distinct data, all below the sentinel `big`, no empty clone -/
def KeyWF (f : DF) : Prop := f.all.Nodup ∧ (∀ i ∈ f.all, i < big) ∧ NonemptyClones f

theorem KeyWF.kids {d : List ℕ} {k s : DF} (h : KeyWF (.cons d k s)) : KeyWF k := by
  obtain ⟨hn, hb, _, hk, _⟩ := h
  simp only [Forest.all] at hn hb
  exact ⟨(List.nodup_append.mp (List.nodup_append.mp hn).1).1,
    fun i hi => hb i (by simp [hi]), hk⟩

theorem KeyWF.sibs {d : List ℕ} {k s : DF} (h : KeyWF (.cons d k s)) : KeyWF s := by
  obtain ⟨hn, hb, _, _, hs⟩ := h
  simp only [Forest.all] at hn hb
  exact ⟨(List.nodup_append.mp hn).2.1, fun i hi => hb i (by simp [hi]), hs⟩

theorem nonemptyClones_isoP {f g : DF} (h : DFIsoP f g) : NonemptyClones f ↔ NonemptyClones g := by
  induction h with
  | refl f => exact Iff.rfl
  | swap d k d' k' s => simp only [NonemptyClones]; tauto
  | @cons d d' _ _ _ _ hd _ _ ihk ihs =>
    simp only [NonemptyClones, ihk, ihs]
    have : d = [] ↔ d' = [] := by
      constructor
      · intro e; subst e; exact hd.symm.eq_nil
      · intro e; subst e; exact hd.eq_nil
    rw [Ne, Ne, not_congr this]
  | symm _ ih => exact ih.symm
  | trans _ _ ih1 ih2 => exact ih1.trans ih2

theorem keyWF_isoP {f g : DF} (h : DFIsoP f g) : KeyWF f ↔ KeyWF g := by
  unfold KeyWF
  rw [(all_isoP h).nodup_iff, nonemptyClones_isoP h]
  have : (∀ i ∈ f.all, i < big) ↔ (∀ i ∈ g.all, i < big) :=
    ⟨fun H i hi => H i ((all_isoP h).mem_iff.mpr hi), fun H i hi => H i ((all_isoP h).mem_iff.mp hi)⟩
  rw [this]

theorem rootKey_canon (d : List ℕ) (k : DF) : rootKey (sortNat d, canon k) = rootKey (d, k) := by
  apply rootKey_congr
  intro a
  unfold clade
  simp only [List.mem_append]
  rw [(all_isoP (canon_isoP k)).mem_iff, (sortNat_perm d).mem_iff]

theorem canon_eq_of_isoP {f g : DF} (h : DFIsoP f g) : KeyWF f → canon f = canon g := by
  induction h with
  | refl f => intro _; rfl
  | swap d k d' k' s =>
    intro hw
    simp only [canon, roots_ofRoots]
    congr 1
    apply insertSorted_comm
    rw [rootKey_canon, rootKey_canon]
    obtain ⟨hn, hb, hd, _, hd', _, _⟩ := hw
    simp only [Forest.all] at hn hb
    have hA : rootKey (d, k) ∈ clade (d, k) :=
      rootKey_mem_of (d, k) hd (fun a ha => hb a (by unfold clade at ha; simp at ha ⊢; tauto))
    have hB : rootKey (d', k') ∈ clade (d', k') :=
      rootKey_mem_of (d', k') hd' (fun a ha => hb a (by unfold clade at ha; simp at ha ⊢; tauto))
    intro e
    rw [e] at hA
    unfold clade at hA hB
    simp only at hA hB
    have hdis := (List.nodup_append.mp hn).2.2
    exact hdis _ hA _ (List.mem_append_left _ hB) rfl
  | cons hd hk hs ihk ihs =>
    intro hw
    simp only [canon]
    rw [sortNat_perm_eq hd, ihk hw.kids, ihs hw.sibs]
  | symm hfg ih =>
    intro hw
    exact (ih ((keyWF_isoP hfg).mpr hw)).symm
  | trans hfg _ ih1 ih2 =>
    intro hw
    exact (ih1 hw).trans (ih2 ((keyWF_isoP hfg).mp hw))

theorem isoP_of_canon_eq {f g : DF} (h : canon f = canon g) : DFIsoP f g :=
  (canon_isoP f).trans (h ▸ (canon_isoP g).symm)

end PhyModel
