import PhyModel.Proofs.ASMC1

open Finset BigOperators

namespace ASMC

variable {X : Type} [Fintype X] [DecidableEq X] {m : ℕ}

/-- linear functionals on test functions -/
structure Lin {α : Type} (F : (α → ℚ) → ℚ) : Prop where
  add : ∀ f g, F (fun a => f a + g a) = F f + F g
  smul : ∀ (c : ℚ) f, F (fun a => c * f a) = c * F f

namespace Lin
variable {α : Type} {F : (α → ℚ) → ℚ}

theorem zero (h : Lin F) : F (fun _ => 0) = 0 := by
  have := h.smul 0 (fun _ => 0)
  simpa using this

theorem sum {ι : Type} (h : Lin F) (s : Finset ι) (f : ι → α → ℚ) :
    F (fun a => ∑ i ∈ s, f i a) = ∑ i ∈ s, F (f i) := by
  classical
  induction s using Finset.induction_on with
  | empty => simpa using h.zero
  | insert i s hi ih =>
    simp only [Finset.sum_insert hi]
    rw [h.add, ih]

theorem smul_right (h : Lin F) (c : ℚ) (f : α → ℚ) : F (fun a => f a * c) = F f * c := by
  have := h.smul c f
  simp only [mul_comm c] at this
  exact this
end Lin

def Exch (F : (Sys X m → ℚ) → ℚ) : Prop :=
  ∀ (σ : Equiv.Perm (Fin (m+1))) (h : Sys X m → ℚ), F (fun S => h (S ∘ σ)) = F h

def reset (u : ℚ) (p : X × ℚ) : X × ℚ := (p.1, u)

/-- term for an ancestor map b : all slots -/
def Fterm (u : ℚ) (f : Sys X m → ℚ) (S : Sys X m) (b : Fin (m+1) → Fin (m+1)) : ℚ :=
  (∏ j, wbar S (b j)) * f (fun j => reset u (S (b j)))

theorem Fterm_perm (u : ℚ) (f : Sys X m → ℚ) (τ : Equiv.Perm (Fin (m+1))) (S : Sys X m) (b) :
    Fterm u f (S ∘ τ) b = Fterm u f S (τ ∘ b) := by
  unfold Fterm
  simp only [wbar_perm, Function.comp]

def Gsum (u : ℚ) (f : Sys X m → ℚ) (S : Sys X m) (j : Fin (m+1)) : ℚ :=
  ∑ b ∈ (Finset.univ.filter fun b : Fin (m+1) → Fin (m+1) => b 0 = j), Fterm u f S b

theorem Gsum_swap (u : ℚ) (f : Sys X m → ℚ) (S : Sys X m) (j : Fin (m+1)) :
    Gsum u f (S ∘ (Equiv.swap 0 j)) 0 = Gsum u f S j := by
  unfold Gsum
  simp only [Fterm_perm]
  apply Finset.sum_bij (fun b _ => (Equiv.swap 0 j) ∘ b)
  · intro b hb
    simp only [mem_filter, mem_univ, true_and] at hb ⊢
    simp [Function.comp, hb]
  · intro b1 _ b2 _ h
    funext i
    have := congrFun h i
    simpa [Function.comp] using this
  · intro b hb
    refine ⟨(Equiv.swap 0 j) ∘ b, ?_, ?_⟩
    · simp only [mem_filter, mem_univ, true_and] at hb ⊢
      simp [Function.comp, hb]
    · funext i; simp [Function.comp]
  · intro b _; rfl

theorem Gsum_total (u : ℚ) (f : Sys X m → ℚ) (S : Sys X m) :
    ∑ j, Gsum u f S j = ∑ b : Fin (m+1) → Fin (m+1), Fterm u f S b := by
  unfold Gsum
  rw [Finset.sum_fiberwise]

/-- the slot-0-constrained ancestor sum is 1/(m+1) of the symmetric sum, under an exchangeable
linear functional and a symmetric multiplier `c` (the adaptive-resampling indicator). -/
theorem resample_symm (F : (Sys X m → ℚ) → ℚ) (hlin : Lin F) (hex : Exch F)
    (c : Sys X m → ℚ) (hc : ∀ (σ : Equiv.Perm (Fin (m+1))) S, c (S ∘ σ) = c S)
    (u : ℚ) (f : Sys X m → ℚ) :
    ((m : ℚ) + 1) * F (fun S => c S * Gsum u f S 0)
      = F (fun S => c S * ∑ b : Fin (m+1) → Fin (m+1), Fterm u f S b) := by
  have h1 : ∀ j : Fin (m+1), F (fun S => c S * Gsum u f S j) = F (fun S => c S * Gsum u f S 0) := by
    intro j
    have := hex (Equiv.swap 0 j) (fun S => c S * Gsum u f S 0)
    rw [← this]
    congr 1
    funext S
    rw [hc, Gsum_swap]
  have h2 : F (fun S => c S * ∑ b : Fin (m+1) → Fin (m+1), Fterm u f S b)
      = ∑ j : Fin (m+1), F (fun S => c S * Gsum u f S j) := by
    rw [← hlin.sum]
    congr 1
    funext S
    rw [← Gsum_total, Finset.mul_sum]
  rw [h2]
  simp only [h1, Finset.sum_const, Finset.card_univ, Fintype.card_fin, nsmul_eq_mul]
  push_cast
  ring

theorem full_sum_perm (u : ℚ) (f : Sys X m → ℚ) (ρ : Equiv.Perm (Fin (m+1))) (S : Sys X m) :
    ∑ b : Fin (m+1) → Fin (m+1), Fterm u (fun T => f (T ∘ ρ)) S b
      = ∑ b : Fin (m+1) → Fin (m+1), Fterm u f S b := by
  unfold Fterm
  apply Finset.sum_bij (fun b _ => b ∘ ρ)
  · intro b _; exact mem_univ _
  · intro b1 _ b2 _ h
    funext i
    have := congrFun h (ρ.symm i)
    simpa [Function.comp] using this
  · intro b _
    refine ⟨b ∘ ρ.symm, mem_univ _, ?_⟩
    funext i; simp [Function.comp]
  · intro b _
    congr 1
    exact (Equiv.prod_comp ρ (fun j => wbar S (b j))).symm

/-- the symmetric ancestor sum is equivariant in the input system too -/
theorem full_sum_perm_in (u : ℚ) (f : Sys X m → ℚ) (τ : Equiv.Perm (Fin (m+1))) (S : Sys X m) :
    ∑ b : Fin (m+1) → Fin (m+1), Fterm u f (S ∘ τ) b
      = ∑ b : Fin (m+1) → Fin (m+1), Fterm u f S b := by
  simp only [Fterm_perm]
  apply Finset.sum_bij (fun b _ => τ ∘ b)
  · intro b _; exact mem_univ _
  · intro b1 _ b2 _ h
    funext i
    have := congrFun h i
    simpa [Function.comp] using this
  · intro b _
    refine ⟨τ.symm ∘ b, mem_univ _, ?_⟩
    funext i; simp [Function.comp]
  · intro b _; rfl

/-- conditional resampling: slot 0 kept, other slots draw ancestors from the normalised weights -/
def resC (u : ℚ) (S : Sys X m) (f : Sys X m → ℚ) : ℚ :=
  ∑ a : Fin m → Fin (m+1), (∏ i, wbar S (a i)) *
    f (fun j => reset u (S ((Fin.cons 0 a : Fin (m+1) → Fin (m+1)) j)))

theorem resC_eq_Gsum (u : ℚ) (S : Sys X m) (f : Sys X m → ℚ) :
    wbar S 0 * resC u S f = Gsum u f S 0 := by
  unfold resC Gsum Fterm
  rw [Finset.mul_sum]
  -- bijection a ↦ cons 0 a onto {b | b 0 = 0}
  apply Finset.sum_bij (fun a _ => (Fin.cons 0 a : Fin (m+1) → Fin (m+1)))
  · intro a _
    simp
  · intro a1 _ a2 _ h
    funext i
    have := congrFun h i.succ
    simpa using this
  · intro b hb
    simp only [mem_filter, mem_univ, true_and] at hb
    refine ⟨fun i => b i.succ, mem_univ _, ?_⟩
    funext j
    refine Fin.cases ?_ ?_ j
    · simp [hb]
    · intro i; simp
  · intro a _
    rw [Fin.prod_univ_succ]
    simp only [Fin.cons_zero, Fin.cons_succ]
    ring

#print axioms resample_symm
#print axioms resC_eq_Gsum
end ASMC
