import PhyModel.Proofs.PropSplits
import Mathlib.Tactic.LinearCombination
/-! # C08 helpers 2: `chooseK` (ordered draw without replacement) is uniform on the `k`-subsets

For a test function that does not depend on the order of the chosen part,
`E (chooseK k l) F = (1 / C(|l|, k)) · Σ_{splits l, |chosen| = k} F`, and drawing `k` uniformly from
`0..|l|` first gives every split the probability `1 / (|l| + 1) / C(|l|, |chosen|)`. -/

namespace PhyModel
open Finset BigOperators Dist Proposal Orders

theorem E_fmap {α β} (g : α → β) (d : Dist α) (h : β → ℚ) :
    E (Dist.fmap g d) h = E d (fun a => h (g a)) := by
  rw [E_eq_lsum, E_eq_lsum]
  unfold Dist.fmap
  rw [lsum_map]

theorem E_nil {α} (h : α → ℚ) : E ([] : Dist α) h = 0 := by simp [E]

theorem E_scale {α} (c : ℚ) (d : Dist α) (h : α → ℚ) : E (Dist.scale c d) h = c * E d h := by
  rw [E_eq_lsum, E_eq_lsum]
  unfold Dist.scale
  rw [lsum_map, ← lsum_mul_left]
  apply lsum_congr
  intro a _
  ring

theorem E_append {α} (d1 d2 : Dist α) (h : α → ℚ) : E (d1 ++ d2) h = E d1 h + E d2 h := by
  rw [E_eq_lsum, E_eq_lsum, E_eq_lsum, lsum_append]

theorem lsum_splits_len0 {α} (l : List α) (F : List α × List α → ℚ) :
    lsum (splits l) (fun cr => if cr.1.length = 0 then F cr else 0) = F ([], l) := by
  induction l generalizing F with
  | nil => rw [lsum_splits_nil]; simp
  | cons a l ih =>
    rw [lsum_splits_cons]
    simp only [List.length_cons, Nat.add_eq_zero_iff, one_ne_zero, and_false, if_false, zero_add]
    exact ih (fun cr => F (cr.1, a :: cr.2))

/-- `chooseK k l`, seen through a test function symmetric in the chosen part, is uniform on the
splits with `k` chosen -/
theorem E_chooseK {α} [BEq α] (P : α → Prop) (k : ℕ) :
    ∀ (l : List α), (∀ x ∈ l, P x) → ∀ (F : List α × List α → ℚ),
      (∀ c c' r, c.Perm c' → (∀ x ∈ c, P x) → F (c, r) = F (c', r)) →
      E (chooseK k l) F
        = (1 / (Nat.choose l.length k : ℚ))
            * lsum (splits l) (fun cr => if cr.1.length = k then F cr else 0) := by
  induction k with
  | zero =>
    intro l _ F _
    simp only [chooseK, E_pure, Nat.choose_zero_right, Nat.cast_one, div_one, one_mul]
    rw [lsum_splits_len0]
  | succ k ih =>
    intro l hl F hF
    simp only [chooseK]
    rw [E_bind, E_uniform, List.length_range]
    rw [lsum_congr (List.range l.length) (H := fun j => (l[j]?).elim 0
          (fun a => E (chooseK k (l.eraseIdx j)) (fun cr => F (a :: cr.1, cr.2)))) (by
      intro j _
      cases l[j]? with
      | none => simp [E_nil]
      | some a => simp only [Option.elim]; rw [E_fmap])]
    rw [lsum_range_picks l (fun a m => E (chooseK k m) (fun cr => F (a :: cr.1, cr.2)))]
    cases l with
    | nil =>
      simp only [picks, lsum_nil, mul_zero]
      rw [lsum_splits_nil]
      simp
    | cons a0 l0 =>
      set l := a0 :: l0 with hldef
      -- apply the induction hypothesis to every pick
      have hpick : lsum (picks l) (fun am => E (chooseK k am.2) (fun cr => F (am.1 :: cr.1, cr.2)))
          = (1 / (Nat.choose l0.length k : ℚ)) *
            lsum (picks l) (fun am => lsum (splits am.2)
              (fun cr => (fun cr' : List α × List α => if cr'.1.length = k + 1 then F cr' else 0)
                (am.1 :: cr.1, cr.2))) := by
        rw [← lsum_mul_left]
        apply lsum_congr
        intro am ham
        obtain ⟨h1, h2, h3⟩ := mem_picks l am ham
        rw [ih am.2 (fun x hx => hl x (h2 x hx)) (fun cr => F (am.1 :: cr.1, cr.2)) (by
          intro c c' r hp hc
          apply hF _ _ _ (List.Perm.cons _ hp)
          intro x hx
          simp only [List.mem_cons] at hx
          rcases hx with rfl | hx
          · exact hl _ h1
          · exact hc x hx)]
        have hlen : am.2.length = l0.length := by
          simp only [hldef, List.length_cons] at h3; omega
        rw [hlen]
        congr 1
        apply lsum_congr
        intro cr _
        simp only [List.length_cons, Nat.add_right_cancel_iff]
      rw [hpick, splits_double_count P l hl
        (fun cr' : List α × List α => if cr'.1.length = k + 1 then F cr' else 0) (by
          intro c c' r hp hc
          simp only [hp.length_eq]
          split
          · exact hF _ _ _ hp hc
          · rfl)]
      have hk : lsum (splits l) (fun cr => (cr.1.length : ℚ) * (if cr.1.length = k + 1 then F cr else 0))
          = ((k : ℚ) + 1) * lsum (splits l) (fun cr => if cr.1.length = k + 1 then F cr else 0) := by
        rw [← lsum_mul_left]
        apply lsum_congr
        intro cr _
        split
        · rename_i h; rw [h]; push_cast; ring
        · simp
      rw [hk]
      have hch := Nat.add_one_mul_choose_eq l0.length k
      have hlen : l.length = l0.length + 1 := by simp [hldef]
      rw [hlen]
      have hchQ : ((l0.length : ℚ) + 1) * (Nat.choose l0.length k : ℚ)
          = (Nat.choose (l0.length + 1) (k + 1) : ℚ) * ((k : ℚ) + 1) := by exact_mod_cast hch
      have hk1 : ((k : ℚ) + 1) ≠ 0 := by positivity
      have hn1 : ((l0.length : ℚ) + 1) ≠ 0 := by positivity
      by_cases hz : (Nat.choose (l0.length + 1) (k + 1) : ℚ) = 0
      · have hz' : (Nat.choose l0.length k : ℚ) = 0 := by
          rw [hz, zero_mul] at hchQ
          rcases mul_eq_zero.mp hchQ with h | h
          · exact absurd h hn1
          · exact h
        rw [hz, hz']
        simp
      · have hz' : (Nat.choose l0.length k : ℚ) ≠ 0 := by
          intro h
          rw [h, mul_zero] at hchQ
          rcases mul_eq_zero.mp hchQ.symm with h | h
          · exact hz h
          · exact hk1 h
        push_cast
        field_simp
        linear_combination (-(lsum (splits l) (fun cr => if cr.1.length = k + 1 then F cr else 0))) * hchQ

/-- uniform number of children, then a uniform subset of that size: every split `(chosen, rest)` gets
probability `1 / (r + 1) / C(r, |chosen|)` -/
theorem E_newNode {α} [BEq α] (P : α → Prop) (l : List α) (hl : ∀ x ∈ l, P x)
    (F : List α × List α → ℚ)
    (hF : ∀ c c' r, c.Perm c' → (∀ x ∈ c, P x) → F (c, r) = F (c', r)) :
    E (Dist.bind (Dist.uniform (List.range (l.length + 1))) fun ch => chooseK ch l) F
      = lsum (splits l) (fun cr => 1 / ((l.length : ℚ) + 1) / binom l.length cr.1.length * F cr) := by
  rw [E_bind, E_uniform, List.length_range]
  have h1 : lsum (List.range (l.length + 1)) (fun ch => E (chooseK ch l) F)
      = lsum (List.range (l.length + 1)) (fun ch => lsum (splits l)
          (fun cr => if cr.1.length = ch then (1 / (Nat.choose l.length ch : ℚ)) * F cr else 0)) := by
    apply lsum_congr
    intro ch _
    rw [E_chooseK P ch l hl F hF, ← lsum_mul_left]
    apply lsum_congr
    intro cr _
    split <;> simp
  rw [h1, lsum_range, ← lsum_finset_comm, ← lsum_mul_left]
  apply lsum_congr
  intro cr hcr
  have hlen : cr.1.length ≤ l.length := by have := (mem_splits l cr hcr).2.2; omega
  rw [Finset.sum_ite_eq (range (l.length + 1)) cr.1.length
    (fun ch => (1 / (Nat.choose l.length ch : ℚ)) * F cr)]
  rw [if_pos (by simp; omega), binom_eq_choose _ _ hlen]
  push_cast
  ring

end PhyModel
