import PhyModel.Proofs.PGSub3
/-! # C04, random-subtree move, part 4: the conditional invariance statement for the executable
`Moves.subtreeGiven`, in expectation form (`subtree_given_invariant_E`) and per target tree
(`subtree_given_invariant`), and positivity of the full tree's density from positive likelihoods
(`graftBack_pOne_pos`). -/

namespace PhyModel.PG
open Finset BigOperators Proposal PGSpec Orders Orders.Forest
open PhyModel.Moves (graftBack correctWeights subtreeGiven attachAll attachUnder)

variable {dt : Data} {c : Cfg} {D : List ℕ}

/-- **Given the region, the random-subtree move leaves the full-tree density invariant** (expectation
form).  `x` ranges over the complete subtrees on the region's data `D` (clone data of the region and
all outliers), `graftBack rem gk x` is the full tree; for every test function `φ` on full trees,
`Σ_x pOne(full x) · E[φ(subtreeGiven x)] = Σ_y pOne(full y) · φ(full y)`. -/
theorem subtree_given_invariant_E (h : HypD dt c D) (rem : DF) (gk : Option ℕ)
    (hpos : ∀ y ∈ finals c D, 0 < pOneT dt c (graftBack rem gk y)) (θ : ℚ) (m : ℕ) (φ : T → ℚ) :
    ∑ x : St (allStates c D), piR dt c D rem gk x.1 * Dist.E (subtreeGiven (runOf dt c m θ) rem gk x.1) φ
      = ∑ y : St (allStates c D), piR dt c D rem gk y.1 * φ (graftBack rem gk y.1) := by
  have e1 : ∀ x : St (allStates c D),
      piR dt c D rem gk x.1 * Dist.E (subtreeGiven (runOf dt c m θ) rem gk x.1) φ
        = ∑ y : St (allStates c D), (piR dt c D rem gk x.1 * subKernel dt c D rem gk (uN m) θ m (uN m) x y)
            * φ (graftBack rem gk y.1) := by
    intro x
    by_cases hx : x.1 ∈ finals c D
    · rw [subtreeGiven_E h rem gk θ m x hx, Finset.mul_sum]
      apply Finset.sum_congr rfl; intro y _; ring
    · have : piR dt c D rem gk x.1 = 0 := by unfold piR; rw [if_neg hx]
      rw [this]; simp
  simp only [e1]
  rw [Finset.sum_comm]
  apply Finset.sum_congr rfl
  intro y _
  rw [← Finset.sum_mul, subtree_invariant_abstract h rem gk hpos (uN m) (uN_pos m) θ m (uN m) (uN_pos m) y]

/-- **… per target tree**: when distinct subtrees give distinct full trees,
`Σ_x pOne(full x) · P(subtreeGiven x = full y) = pOne(full y)` for every complete subtree `y`. -/
theorem subtree_given_invariant (h : HypD dt c D) (rem : DF) (gk : Option ℕ)
    (hpos : ∀ y ∈ finals c D, 0 < pOneT dt c (graftBack rem gk y))
    (hinj : ∀ x ∈ finals c D, ∀ y ∈ finals c D, graftBack rem gk x = graftBack rem gk y → x = y)
    (θ : ℚ) (m : ℕ) (y : St (allStates c D)) (hy : y.1 ∈ finals c D) :
    ∑ x : St (allStates c D), piR dt c D rem gk x.1 *
        Dist.E (subtreeGiven (runOf dt c m θ) rem gk x.1) (fun z => if z = graftBack rem gk y.1 then 1 else 0)
      = piR dt c D rem gk y.1 := by
  rw [subtree_given_invariant_E h rem gk hpos θ m]
  rw [Finset.sum_eq_single y]
  · simp
  · intro x _ hne
    by_cases hx : x.1 ∈ finals c D
    · have : graftBack rem gk x.1 ≠ graftBack rem gk y.1 :=
        fun e => hne (Subtype.ext (hinj _ hx _ hy e))
      rw [if_neg this, mul_zero]
    · have : piR dt c D rem gk x.1 = 0 := by unfold piR; rw [if_neg hx]
      rw [this, zero_mul]
  · intro h'; exact absurd (mem_univ _) h'

/-! ### positivity of the full tree's density -/

theorem mem_attachUnder_all {a : ℕ} (sd : List ℕ) (sk : DF) {x : ℕ} : ∀ {f : DF},
    x ∈ (attachUnder a sd sk f).all → x ∈ sk.all ++ sd ∨ x ∈ f.all := by
  intro f
  induction f with
  | nil => intro hx; simp [attachUnder, Forest.all] at hx
  | cons d k s ihk ihs =>
    intro hx
    simp only [attachUnder] at hx
    split at hx
    · simp only [Forest.all, List.mem_append] at hx ⊢
      rcases hx with ((((h | h) | h) | h) | h)
      · exact Or.inl (Or.inl h)
      · exact Or.inl (Or.inr h)
      · exact Or.inr (Or.inl (Or.inl h))
      · exact Or.inr (Or.inl (Or.inr h))
      · rcases ihs h with h | h
        · exact Or.inl (List.mem_append.mp h)
        · exact Or.inr (Or.inr h)
    · simp only [Forest.all, List.mem_append] at hx ⊢
      rcases hx with ((h | h) | h)
      · rcases ihk h with h | h
        · exact Or.inl (List.mem_append.mp h)
        · exact Or.inr (Or.inl (Or.inl h))
      · exact Or.inr (Or.inl (Or.inr h))
      · rcases ihs h with h | h
        · exact Or.inl (List.mem_append.mp h)
        · exact Or.inr (Or.inr h)

theorem mem_attachAll_all (gk : Option ℕ) (rem : DF) {x : ℕ} : ∀ (sub : List (List ℕ × DF)),
    x ∈ (attachAll gk sub rem).all → (∃ r ∈ sub, x ∈ r.2.all ++ r.1) ∨ x ∈ rem.all := by
  intro sub
  induction sub with
  | nil => intro hx; cases gk <;> exact Or.inr hx
  | cons r sub ih =>
    intro hx
    cases gk with
    | none =>
      simp only [attachAll, List.foldr_cons, Forest.all, List.mem_append] at hx
      rcases hx with ((h | h) | h)
      · exact Or.inl ⟨r, List.mem_cons_self, List.mem_append_left _ h⟩
      · exact Or.inl ⟨r, List.mem_cons_self, List.mem_append_right _ h⟩
      · rcases ih h with ⟨r', hr', h'⟩ | h'
        · exact Or.inl ⟨r', List.mem_cons_of_mem _ hr', h'⟩
        · exact Or.inr h'
    | some k =>
      simp only [attachAll, List.foldr_cons] at hx
      rcases mem_attachUnder_all _ _ hx with h | h
      · exact Or.inl ⟨r, List.mem_cons_self, h⟩
      · rcases ih h with ⟨r', hr', h'⟩ | h'
        · exact Or.inl ⟨r', List.mem_cons_of_mem _ hr', h'⟩
        · exact Or.inr h'

/-- the data of the full tree come from the subtree or from the remaining forest -/
theorem mem_graftBack (rem : DF) (gk : Option ℕ) (t : T) {x : ℕ}
    (hx : x ∈ (graftBack rem gk t).f.all ++ (graftBack rem gk t).out) :
    x ∈ t.f.all ++ t.out ∨ x ∈ rem.all := by
  unfold graftBack T.mk' at hx
  rcases List.mem_append.mp hx with h | h
  · have h' := (Canon.canon_all_perm _).subset h
    rcases mem_attachAll_all gk rem _ h' with ⟨r, hr, hxr⟩ | h''
    · left
      apply List.mem_append_left
      rw [mem_all_iff_roots]
      rcases List.mem_append.mp hxr with h1 | h1
      · exact ⟨r, hr, Or.inr h1⟩
      · exact ⟨r, hr, Or.inl h1⟩
    · exact Or.inr h''
  · exact Or.inl (List.mem_append_right _ (Canon.mem_sortNat.mp h))

/-- **positive likelihoods give a positive full-tree density**: the hypothesis `hpos` of the theorems
above holds as soon as the data of the remaining forest are good (positive likelihood grids, outlier
prior in `[0,1)`) like those of the region -/
theorem graftBack_pOne_pos (h : HypD dt c D) (rem : DF) (gk : Option ℕ)
    (hrem : ∀ i ∈ rem.all, C19P.GoodIdx dt i) : ∀ y ∈ finals c D, 0 < pOneT dt c (graftBack rem gk y) := by
  intro y hy
  obtain ⟨_, hperm⟩ := finals_wft h hy
  apply C19P.Density.pOne_pos dt h.hG c.α h.hα
  intro j hj
  rcases mem_graftBack rem gk y hj with h1 | h1
  · exact h.good j (hperm.subset h1)
  · exact hrem j h1

#print axioms subtree_given_invariant
end PhyModel.PG
