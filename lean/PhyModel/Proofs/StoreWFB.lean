import PhyModel.Proofs.StoreWF_Base
import PhyModel.Proofs.StoreWF_Labels
import PhyModel.Proofs.CanonKey
/-! The Boolean well-formedness check of the store model decides `WF` (C07): `wfB s = true ↔ WF s`.
(The Boolean cache check is decided in `Proofs/StoreCache_Dec.lean`: `cacheOKB_iff`.) -/
namespace PhyModel.Store.WFB
open PhyModel PhyModel.Store PhyModel.Store.Store SF AL

theorem nodupB_iff {α} [BEq α] [LawfulBEq α] : ∀ l : List α, nodupB l = true ↔ l.Nodup
  | [] => by simp [nodupB]
  | a :: l => by
    simp only [nodupB, Bool.and_eq_true, Bool.not_eq_true', List.nodup_cons, nodupB_iff l]
    rw [← Bool.not_eq_true, List.contains_iff_mem]

/-- payload part -/
theorem wfg_iff (rs : List NodeRec) :
    (nodupB (rs.map (·.name)) && nodupB (rs.map (·.idx)) &&
      rs.all (fun n => n.idx != 0 && decide (0 ≤ n.name))) = true ↔ WFG rs := by
  simp only [Bool.and_eq_true, nodupB_iff, List.all_eq_true, bne_iff_ne, ne_eq, decide_eq_true_eq]
  constructor
  · rintro ⟨⟨h1, h2⟩, h3⟩
    exact ⟨h1, h2, fun n hn => (h3 n hn).1, fun n hn => (h3 n hn).2⟩
  · intro h
    exact ⟨⟨h.names_nodup, h.idxs_nodup⟩, fun n hn => ⟨h.idx_pos n hn, h.name_nonneg n hn⟩⟩

/-- one map against its list of pairs -/
theorem map_iff {κ ν α : Type} [BEq κ] [LawfulBEq κ] [BEq ν] [LawfulBEq ν] (rs : List α)
    (fk : α → κ) (fv : α → ν) (m : List (κ × ν)) (hk : (rs.map fk).Nodup) :
    (nodupB (keys m) && m.length == rs.length &&
      rs.all (fun n => m.lookup (fk n) == some (fv n))) = true ↔
    m.Perm (rs.map fun n => (fk n, fv n)) := by
  simp only [Bool.and_eq_true, nodupB_iff, List.all_eq_true, beq_iff_eq]
  have hP : (rs.map fun n => (fk n, fv n)).Nodup := by
    apply List.Nodup.of_map Prod.fst; simpa [List.map_map, Function.comp_def] using hk
  constructor
  · rintro ⟨⟨h1, h2⟩, h3⟩
    have hsub : (rs.map fun n => (fk n, fv n)) ⊆ m := by
      intro a ha
      obtain ⟨n, hn, rfl⟩ := List.mem_map.1 ha
      exact mem_of_lookup (h3 n hn)
    exact ((List.subperm_of_subset hP hsub).perm_of_length_le (by simp [h2])).symm
  · intro hp
    have hkeys : (keys m).Nodup := by
      have := (hp.map Prod.fst).nodup_iff.2
      apply this; simpa [List.map_map, Function.comp_def] using hk
    refine ⟨⟨hkeys, by simpa using hp.length_eq⟩, fun n hn => ?_⟩
    exact lookup_of_mem hkeys (hp.symm.subset (List.mem_map.2 ⟨n, hn, rfl⟩))

/-- `_data` part -/
theorem wfd_iff (s : Store) :
    (nodupB (s.data.map (·.1)) &&
      s.data.all (fun e => e.1 == outKey || s.forest.recs.any (fun n => n.name == e.1)) &&
      s.forest.recs.all (fun n => Orders.Forest.sortNat n.dps == Orders.Forest.sortNat (s.dataOf n.name)) &&
      nodupB (s.labels.map (·.1))) = true ↔ WFD s.forest.recs s.data := by
  simp only [Bool.and_eq_true, nodupB_iff, List.all_eq_true, Bool.or_eq_true, beq_iff_eq,
    List.any_eq_true, labels_fst]
  constructor
  · rintro ⟨⟨⟨h1, h2⟩, h3⟩, h4⟩
    refine ⟨h1, fun k hk => ?_, fun n hn => ?_, h4⟩
    · obtain ⟨e, he, rfl⟩ := List.mem_map.1 hk
      rcases h2 e he with h | ⟨n, hn, h⟩
      · exact Or.inl h
      · exact Or.inr (List.mem_map.2 ⟨n, hn, h⟩)
    · have := h3 n hn
      exact ((Orders.Forest.sortNat_perm n.dps).symm.trans (this ▸ Orders.Forest.sortNat_perm _))
  · intro h
    refine ⟨⟨⟨h.data_keys, fun e he => ?_⟩, fun n hn => ?_⟩, h.data_nodup⟩
    · rcases h.data_sub e.1 (List.mem_map.2 ⟨e, he, rfl⟩) with h1 | h1
      · exact Or.inl h1
      · obtain ⟨n, hn, h2⟩ := List.mem_map.1 h1
        exact Or.inr ⟨n, hn, h2⟩
    · exact Orders.Forest.sortNat_perm_eq (h.payload_data n hn)

end PhyModel.Store.WFB

namespace PhyModel.Store
open PhyModel PhyModel.Store.AL

/-- **the Boolean check decides C07's well-formedness** -/
theorem wfB_iff (s : Store) : s.wfB = true ↔ WF s := by
  rw [wf_iff]
  have hg := WFB.wfg_iff s.forest.recs
  have hd := WFB.wfd_iff s
  unfold Store.wfB
  simp only [Bool.and_eq_true] at hg hd ⊢
  constructor
  · rintro ⟨⟨⟨⟨⟨⟨⟨⟨⟨⟨⟨a1, a2⟩, a3⟩, b1⟩, b2⟩, b3⟩, b4⟩, b5⟩, c1⟩, c2⟩, c3⟩, c4⟩
    have g : WFG s.forest.recs := hg.1 ⟨⟨a1, a2⟩, a3⟩
    have b5' := List.all_eq_true.1 b5
    refine ⟨g, ⟨?_, ?_⟩, hd.1 ⟨⟨⟨c1, c2⟩, c3⟩, c4⟩⟩
    · refine (WFB.map_iff s.forest.recs (·.name) (·.idx) s.nodeIdx g.names_nodup).1 ?_
      simp only [Bool.and_eq_true, List.all_eq_true]
      exact ⟨⟨b1, b3⟩, fun n hn => (Bool.and_eq_true _ _ ▸ b5' n hn).1⟩
    · refine (WFB.map_iff s.forest.recs (·.idx) (·.name) s.nodeIdxRev g.idxs_nodup).1 ?_
      simp only [Bool.and_eq_true, List.all_eq_true]
      exact ⟨⟨b2, b4⟩, fun n hn => (Bool.and_eq_true _ _ ▸ b5' n hn).2⟩
  · rintro ⟨g, ⟨m1, m2⟩, d⟩
    obtain ⟨⟨a1, a2⟩, a3⟩ := hg.2 g
    obtain ⟨⟨⟨c1, c2⟩, c3⟩, c4⟩ := hd.2 d
    have h1 := (WFB.map_iff s.forest.recs (·.name) (·.idx) s.nodeIdx g.names_nodup).2 m1
    have h2 := (WFB.map_iff s.forest.recs (·.idx) (·.name) s.nodeIdxRev g.idxs_nodup).2 m2
    simp only [Bool.and_eq_true, List.all_eq_true] at h1 h2
    refine ⟨⟨⟨⟨⟨⟨⟨⟨⟨⟨⟨a1, a2⟩, a3⟩, h1.1.1⟩, h2.1.1⟩, h1.1.2⟩, h2.1.2⟩, ?_⟩, c1⟩, c2⟩, c3⟩, c4⟩
    rw [List.all_eq_true]
    intro n hn
    rw [Bool.and_eq_true]
    exact ⟨h1.2 n hn, h2.2 n hn⟩

end PhyModel.Store
