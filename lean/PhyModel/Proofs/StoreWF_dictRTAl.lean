import PhyModel.Proofs.StoreWF_dictRT
/-! Dictionary round trip, part C (C07/C15): `from_dict` rebuilds every payload from the `_data` list
of its name, so the rebuilt store is `Aligned` (payload list = `_data` list, same order) whatever the
order inside the payloads of the source was. -/
namespace PhyModel.Store
open PhyModel PhyModel.Store PhyModel.Store.Store SF AL

/-- a successful `recAdd` appends exactly the given list and keeps the name and index -/
theorem recAdd_some {dt : Data} {dl : List Nat} {n n' : NodeRec} (h : recAdd dt n dl = some n') :
    n'.idx = n.idx ∧ n'.name = n.name ∧ n'.dps = n.dps ++ dl := by
  induction dl generalizing n with
  | nil => simp only [recAdd_nil, Option.some.injEq] at h; subst h; simp
  | cons a l ih =>
    unfold recAdd at h ih
    simp only [List.foldlM_cons, Option.bind_eq_bind, Option.bind_eq_some_iff] at h
    obtain ⟨m, hm, h⟩ := h
    split at hm
    · cases hm
    · simp only [Option.some.injEq] at hm; subst hm
      obtain ⟨h1, h2, h3⟩ := ih h
      exact ⟨h1, h2, by simpa using h3⟩

/-- every payload made by `buildSF` carries the `_data` list registered for its name -/
theorem buildSF_dps {dt : Data} {d : TDict} {fuel : Nat} {cs : List Nat} {f : SF}
    (h : buildSF dt d fuel cs = some f) : ∀ n ∈ f.recs, n.dps = dOf d.data n.name := by
  induction fuel generalizing cs f with
  | zero => simp only [buildSF, Option.some.injEq] at h; subst h; simp
  | succ fuel ih =>
    cases cs with
    | nil => simp only [buildSF, Option.some.injEq] at h; subst h; simp
    | cons c cs =>
      simp only [buildSF, Option.bind_eq_bind, Option.pure_def] at h
      obtain ⟨name, _, h⟩ := Option.bind_eq_some_iff.1 h
      split at h
      · simp at h
      simp only [Option.bind_eq_some_iff, Option.some.injEq] at h
      obtain ⟨dl, hdl, n, hn, kids, hk, sibs, hsb, rfl⟩ := h
      obtain ⟨_, h2, h3⟩ := recAdd_some hn
      intro m hm
      simp only [recs_cons, List.mem_cons, List.mem_append] at hm
      rcases hm with rfl | hm | hm
      · rw [h3, h2]; simp [freshRec, dOf, hdl]
      · exact ih hk m hm
      · exact ih hsb m hm

theorem fromDict_toDict_aligned {dt : Data} {s s' : Store} (h : Store.fromDict dt s.toDict = some s')
    (hs : Inv0 s) : Aligned s' := by
  have _ := hs
  have key : ∀ f0 : SF, (∀ n ∈ f0.recs, n.dps = dOf s.data n.name) →
      ∀ n ∈ (updAll dt f0).recs, n.dps = dOf s.data n.name := by
    intro f0 hf0 n hn
    have hm := updAll_map (fun n => (n.dps, n.name)) (fun _ _ => rfl) dt f0
    have : (n.dps, n.name) ∈ f0.recs.map (fun n => (n.dps, n.name)) := hm ▸ List.mem_map.2 ⟨n, hn, rfl⟩
    obtain ⟨m, hm', he⟩ := List.mem_map.1 this
    simp only [Prod.mk.injEq] at he
    rw [← he.1, ← he.2]; exact hf0 m hm'
  simp only [fromDict, Option.bind_eq_bind, Option.pure_def] at h
  split at h
  · simp only [Option.bind_some, Option.some.injEq] at h
    subst h
    intro n hn; simp [updAll] at hn
  · split at h
    · simp at h
    · simp only [Option.bind_eq_some_iff, Option.some.injEq] at h
      obtain ⟨f0, hf0, rfl⟩ := h
      exact key f0 (buildSF_dps hf0)

end PhyModel.Store
