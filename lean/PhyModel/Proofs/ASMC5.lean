import PhyModel.Proofs.ASMC4

open Finset BigOperators

namespace ASMC

variable {X : Type} [Fintype X] [DecidableEq X] {m : ℕ}
variable {sp : Spec (m := m) X} {u : ℚ}

variable (sp) (u) in
/-- size-biased measure: M reweighted by (total weight / weight of slot 0) -/
def PhiM (t : ℕ) (f : Sys X m → ℚ) : ℚ := M sp u t (fun S => f S * (tot S / (S 0).2))

variable (sp) in
def H (t : ℕ) (f : Sys X m → ℚ) (S : Sys X m) : ℚ := propS sp t S (fun T => f T * tot T)

theorem PhiM_lin (t : ℕ) : Lin (PhiM sp u t) := by
  constructor
  · intro f g
    unfold PhiM
    rw [← (M_lin t).add]
    congr 1; funext S; ring
  · intro c f
    unfold PhiM
    rw [← (M_lin t).smul]
    congr 1; funext S; ring

theorem PhiM_congr {T : ℕ} (hv : ValidTo sp T) (hu : 0 < u) (t : ℕ) (ht : t ≤ T) {f f' : Sys X m → ℚ}
    (h : ∀ S, GoodW sp t S → f S = f' S) : PhiM sp u t f = PhiM sp u t f' := by
  unfold PhiM
  apply M_congr hv hu t ht
  intro S hS; rw [h S hS]

theorem H_perm (t : ℕ) (f : Sys X m → ℚ) (σ : Equiv.Perm (Fin (m+1))) (S : Sys X m) :
    H sp t (fun T => f (T ∘ σ)) S = H sp t f (S ∘ σ) := by
  unfold H
  rw [propS_perm]
  congr 1; funext T
  rw [tot_perm]

theorem propS_congr {T : ℕ} (hv : ValidTo sp T) (t : ℕ) (S : Sys X m) {F F' : Sys X m → ℚ}
    (h : ∀ y : Fin (m+1) → X, (∀ i, 0 < sp.q t (S i).1 (y i)) →
      F (fun i => ext sp t (S i) (y i)) = F' (fun i => ext sp t (S i) (y i))) :
    propS sp t S F = propS sp t S F' := by
  unfold propS
  apply Finset.sum_congr rfl
  intro y _
  by_cases hz : ∀ i, 0 < sp.q t (S i).1 (y i)
  · rw [h y hz]
  · push Not at hz
    obtain ⟨i, hi⟩ := hz
    have h0 : sp.q t (S i).1 (y i) = 0 := le_antisymm hi (hv.qnn _ _ _)
    have : ∏ i, sp.q t (S i).1 (y i) = 0 := Finset.prod_eq_zero (mem_univ i) h0
    rw [this]; simp

theorem propS_lin (t : ℕ) (S : Sys X m) : Lin (propS sp t S) := by
  constructor
  · intro f g
    unfold propS
    rw [← Finset.sum_add_distrib]
    apply Finset.sum_congr rfl; intro y _; ring
  · intro c f
    unfold propS
    rw [Finset.mul_sum]
    apply Finset.sum_congr rfl; intro y _; ring

/-- the marginal propagation of a ratio-weighted test function is the symmetric propagation -/
theorem margP_ratio {T : ℕ} (hv : ValidTo sp T) {t : ℕ} (ht : t < T) {S : Sys X m} (hS : GoodW sp t S) (f : Sys X m → ℚ) :
    margP sp t S (fun T => f T * (tot T / (T 0).2)) = H sp t f S / (S 0).2 := by
  unfold margP coef
  rw [propC_sum]
  unfold H
  rw [div_eq_mul_inv, ← (propS_lin t S).smul_right]
  apply propS_congr hv
  intro y hy
  have hi : 0 < incr sp t (S 0).1 (y 0) := incr_pos hv ht (hS 0).2 (hy 0)
  have hw : 0 < (S 0).2 := (hS 0).1
  simp only [ext]
  have hi' := ne_of_gt hi
  have hw' := ne_of_gt hw
  field_simp

variable (sp) in
def c1 (t : ℕ) (S : Sys X m) : ℚ := if sp.rs t (wts S) then 1 else 0

theorem c1_perm {T : ℕ} (hv : ValidTo sp T) (t : ℕ) (σ : Equiv.Perm (Fin (m+1))) (S : Sys X m) :
    c1 sp t (S ∘ σ) = c1 sp t S := by
  unfold c1
  have : wts (S ∘ σ) = wts S ∘ σ := rfl
  rw [this, hv.rssymm]

/-- one step of the recursion for the size-biased measure, in symmetric form -/
theorem PhiM_succ {T : ℕ} (hv : ValidTo sp T) (hu : 0 < u) (t : ℕ) (ht : t < T) (hex : Exch (PhiM sp u t)) (f : Sys X m → ℚ) :
    PhiM sp u (t+1) f
      = (u * ((m : ℚ) + 1))⁻¹ *
          PhiM sp u t (fun S => c1 sp t S * ∑ b : Fin (m+1) → Fin (m+1), Fterm u (H sp t f) S b)
        + PhiM sp u t (fun S => (1 - c1 sp t S) * (H sp t f S / tot S)) := by
  have hlin := PhiM_lin (sp := sp) (u := u) t
  have hm : ((m : ℚ) + 1) ≠ 0 := by positivity
  have hu' : u ≠ 0 := ne_of_gt hu
  -- step 1: unfold one step and evaluate on good systems
  have e1 : PhiM sp u (t+1) f
      = PhiM sp u t (fun S => c1 sp t S * Gsum u (H sp t f) S 0 * u⁻¹
          + (1 - c1 sp t S) * (H sp t f S / tot S)) := by
    unfold PhiM
    rw [M_succ hv hu t ht]
    apply M_congr hv hu t (Nat.le_of_lt ht)
    intro S hS
    have hw : (S 0).2 ≠ 0 := ne_of_gt (hS 0).1
    have htot : tot S ≠ 0 := ne_of_gt (tot_pos hS)
    show stepM sp u t S (fun T => f T * (tot T / (T 0).2))
        = (c1 sp t S * Gsum u (H sp t f) S 0 * u⁻¹ + (1 - c1 sp t S) * (H sp t f S / tot S))
            * (tot S / (S 0).2)
    by_cases hr : sp.rs t (wts S) = true
    · have hc : c1 sp t S = 1 := by simp [c1, hr]
      have hst : stepM sp u t S (fun T => f T * (tot T / (T 0).2))
          = resC u S (fun S1 => margP sp t S1 (fun T => f T * (tot T / (T 0).2))) := by
        simp [stepM, hr]
      have hmr : resC u S (fun S1 => margP sp t S1 (fun T => f T * (tot T / (T 0).2)))
          = resC u S (fun S1 => H sp t f S1 * u⁻¹) := by
        unfold resC
        apply Finset.sum_congr rfl
        intro a _
        congr 1
        show margP sp t (fun j => reset u (S ((Fin.cons 0 a : Fin (m+1) → Fin (m+1)) j)))
            (fun T => f T * (tot T / (T 0).2))
          = H sp t f (fun j => reset u (S ((Fin.cons 0 a : Fin (m+1) → Fin (m+1)) j))) * u⁻¹
        rw [margP_ratio hv ht (reset_good hu hS _)]
        simp [reset, div_eq_mul_inv]
      rw [hc, hst, hmr, (resC_lin S).smul_right, ← resC_eq_Gsum]
      unfold wbar
      field_simp
      ring
    · have hc : c1 sp t S = 0 := by simp [c1, hr]
      have hst : stepM sp u t S (fun T => f T * (tot T / (T 0).2))
          = margP sp t S (fun T => f T * (tot T / (T 0).2)) := by
        simp [stepM, hr]
      rw [hc, hst, margP_ratio hv ht hS]
      field_simp
      ring
  rw [e1, hlin.add]
  congr 1
  · have : (fun S => c1 sp t S * Gsum u (H sp t f) S 0 * u⁻¹)
        = fun S => u⁻¹ * (c1 sp t S * Gsum u (H sp t f) S 0) := by funext S; ring
    rw [this, hlin.smul]
    have hs := resample_symm (PhiM sp u t) hlin hex (c1 sp t) (c1_perm hv t) u (H sp t f)
    rw [← hs]
    field_simp

theorem PhiM_exch {T : ℕ} (hv : ValidTo sp T) (hu : 0 < u) : ∀ t : ℕ, t ≤ T → Exch (PhiM sp u t) := by
  intro t
  induction t with
  | zero =>
    intro _ σ h
    unfold PhiM M
    apply Finset.sum_congr rfl
    intro x _
    simp only [C]
    have : (S0 sp : Sys X m) ∘ σ = S0 sp := by funext i; rfl
    rw [this]
  | succ t ih' =>
    intro ht σ h
    have ih := ih' (Nat.le_of_succ_le ht)
    rw [PhiM_succ hv hu t ht ih, PhiM_succ hv hu t ht ih]
    have hH : H sp t (fun T => h (T ∘ σ)) = fun S => H sp t h (S ∘ σ) := by
      funext S; exact H_perm t h σ S
    rw [hH]
    congr 1
    · congr 1
      congr 1; funext S
      rw [full_sum_perm u (H sp t h) σ S]
    · have := ih σ (fun S => (1 - c1 sp t S) * (H sp t h S / tot S))
      rw [← this]
      congr 1; funext S
      rw [c1_perm hv, tot_perm]

variable (sp) (u) in
/-- final selection: pick slot k with probability proportional to its weight, report its state -/
def sel (S : Sys X m) (y : X) : ℚ := ∑ k, wbar S k * (if (S k).1 = y then 1 else 0)

variable (sp) (u) in
/-- the conditional-SMC Markov kernel on level-T states -/
def kernel (T : ℕ) (x y : X) : ℚ := C sp u T x (fun S => sel S y)

/-- **Conditional SMC leaves the (unnormalised) target invariant**, for every number of
particles, every symmetric adaptive resampling rule and every number of steps. -/
theorem csmc_invariant_to {T : ℕ} (hv : ValidTo sp T) (hu : 0 < u) (y : X) :
    ∑ x, sp.g T x * kernel sp u T x y = sp.g T y := by
  have hlin := PhiM_lin (sp := sp) (u := u) T
  have hex := PhiM_exch (sp := sp) (u := u) hv hu T (le_refl T)
  -- express through M
  show M sp u T (fun S => sel S y) = sp.g T y
  -- step 1: pass to the size-biased measure
  have e1 : M sp u T (fun S => sel S y) = PhiM sp u T (fun S => sel S y * wbar S 0) := by
    unfold PhiM
    apply M_congr hv hu T (le_refl T)
    intro S hS
    have hw : (S 0).2 ≠ 0 := ne_of_gt (hS 0).1
    have htot : tot S ≠ 0 := ne_of_gt (tot_pos hS)
    unfold wbar; field_simp
  -- step 2: swap slot k and slot 0 in each summand
  have e2 : PhiM sp u T (fun S => sel S y * wbar S 0)
      = PhiM sp u T (fun S => wbar S 0 * (if (S 0).1 = y then 1 else 0)) := by
    have hsum : (fun S : Sys X m => sel S y * wbar S 0)
        = fun S => ∑ k, (wbar S k * (if (S k).1 = y then 1 else 0) * wbar S 0) := by
      funext S; unfold sel; rw [Finset.sum_mul]
    rw [hsum, hlin.sum]
    have hk : ∀ k : Fin (m+1),
        PhiM sp u T (fun S => wbar S k * (if (S k).1 = y then 1 else 0) * wbar S 0)
        = PhiM sp u T (fun S => wbar S 0 * (if (S 0).1 = y then 1 else 0) * wbar S k) := by
      intro k
      have := hex (Equiv.swap 0 k)
        (fun S => wbar S 0 * (if (S 0).1 = y then 1 else 0) * wbar S k)
      rw [← this]
      congr 1; funext S
      simp only [wbar_perm, Function.comp, Equiv.swap_apply_left, Equiv.swap_apply_right]
    simp only [hk]
    rw [← hlin.sum]
    apply PhiM_congr hv hu T (le_refl T)
    intro S hS
    rw [← Finset.mul_sum, wbar_sum hS, mul_one]
  -- step 3: back to M
  have e3 : PhiM sp u T (fun S => wbar S 0 * (if (S 0).1 = y then 1 else 0))
      = M sp u T (fun S => if (S 0).1 = y then 1 else 0) := by
    unfold PhiM
    apply M_congr hv hu T (le_refl T)
    intro S hS
    have hw : (S 0).2 ≠ 0 := ne_of_gt (hS 0).1
    have htot : tot S ≠ 0 := ne_of_gt (tot_pos hS)
    unfold wbar; field_simp
  rw [e1, e2, e3]
  -- step 4: slot 0 holds the retained state
  unfold M
  rw [Finset.sum_eq_single y]
  · by_cases hy : 0 < sp.g T y
    · have : C sp u T y (fun S => if (S 0).1 = y then 1 else 0) = C sp u T y (fun _ => 1) :=
        C_congr hv hu T y (le_refl T) hy (fun S hS => by simp [hS.1])
      rw [this, C_one hv hu T y (le_refl T) hy, mul_one]
    · have : sp.g T y = 0 := le_antisymm (not_lt.mp hy) (hv.gnn _ _)
      rw [this]; simp
  · intro x _ hne
    by_cases hx : 0 < sp.g T x
    · have : C sp u T x (fun S => if (S 0).1 = y then 1 else 0) = C sp u T x (fun _ => 0) :=
        C_congr hv hu T x (le_refl T) hx (fun S hS => by simp [hS.1, hne])
      rw [this, (C_lin T x).zero, mul_zero]
    · have : sp.g T x = 0 := le_antisymm (not_lt.mp hx) (hv.gnn _ _)
      rw [this]; simp
  · intro h; exact absurd (mem_univ _) h

/-- the unbounded form (kept for reference; see `ValidTo` for why the bounded one is the useful one) -/
theorem csmc_invariant (hv : Valid sp) (hu : 0 < u) (T : ℕ) (y : X) :
    ∑ x, sp.g T x * kernel sp u T x y = sp.g T y :=
  csmc_invariant_to (hv.to T) hu y

#print axioms csmc_invariant_to
end ASMC
