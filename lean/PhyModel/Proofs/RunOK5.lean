import PhyModel.Proofs.RunOK4
import PhyModel.Proofs.PG17
/-! # C19, run-level composition, part 5: the random-subtree move keeps the tree complete and well
formed.

`Moves.subtreeMove` picks a data point, takes the parent of its clone (with its whole subtree) as
the region to resample, runs the conditional SMC sweep on that region together with all outliers,
and grafts every root of the resampled region back where the region's root hung (`attachAll`).
The grafting point is a clone of the untouched remainder of the tree, the region and the remainder
share no data point, and the sweep returns a well-formed tree on the region's data (part 3) — so the
re-assembled tree is a well-formed tree on all data points. -/

namespace PhyModel.RunOK
open PhyModel Orders Orders.Forest Proposal PG Moves SMC

/-! ### `parentOf` -/

theorem parentOf_mem_nodes {key : ℕ} {f : DF} {g : List ℕ × DF} (h : parentOf key f = some g) :
    g ∈ nodesOf f := by
  induction f with
  | nil => simp [parentOf] at h
  | cons d k s ihk ihs =>
    unfold parentOf at h
    split at h
    · obtain rfl := Option.some.inj h
      exact Canon.mem_nodesOf_cons.mpr (Or.inl rfl)
    · cases hk : parentOf key k with
      | some p =>
        rw [hk] at h
        obtain rfl := Option.some.inj h
        exact Canon.nodesOf_kids_sub (ihk hk)
      | none =>
        rw [hk] at h
        exact Canon.nodesOf_sibs_sub (ihs h)

theorem parentOf_key_mem {key : ℕ} {f : DF} {g : List ℕ × DF} (h : parentOf key f = some g) :
    key ∈ f.all := by
  induction f generalizing g with
  | nil => simp [parentOf] at h
  | cons d k s ihk ihs =>
    unfold parentOf at h
    simp only [Forest.all, List.mem_append]
    split at h
    · rename_i hany
      obtain ⟨rt, hrt, hc⟩ := List.any_eq_true.mp hany
      exact Or.inl (Or.inl (Canon.mem_all_iff.mpr ⟨rt, roots_sub_nodes hrt, List.contains_iff_mem.mp hc⟩))
    · cases hk : parentOf key k with
      | some p => exact Or.inl (Or.inl (ihk hk))
      | none =>
        rw [hk] at h
        exact Or.inr (ihs h)

/-- the first data point of the parent clone survives the removal of the child's subtree -/
theorem parentOf_key_remains {key : ℕ} {f : DF} (w : Canon.WF f) {g : List ℕ × DF}
    (h : parentOf key f = some g) : g.1.headD 0 ∈ (removeSub key f).all := by
  induction f with
  | nil => simp [parentOf] at h
  | cons d k s ihk ihs =>
    have hn := w.nodup
    simp only [Forest.all] at hn
    obtain ⟨hkd, _, hdisj2⟩ := List.nodup_append.mp hn
    obtain ⟨_, _, hdisj1⟩ := List.nodup_append.mp hkd
    have hnot : key ∈ k.all → d.contains key = false := fun hk => by
      rw [Bool.eq_false_iff]
      exact fun hc => hdisj1 key hk key (List.contains_iff_mem.mp hc) rfl
    unfold parentOf at h
    split at h
    · rename_i hany
      obtain rfl := Option.some.inj h
      obtain ⟨rt, hrt, hc⟩ := List.any_eq_true.mp hany
      have hkk : key ∈ k.all :=
        Canon.mem_all_iff.mpr ⟨rt, roots_sub_nodes hrt, List.contains_iff_mem.mp hc⟩
      simp only [removeSub, hnot hkk, Bool.false_eq_true, if_false, Forest.all, List.mem_append]
      exact Or.inl (Or.inr (Canon.headD_mem w.ne.1))
    · cases hk : parentOf key k with
      | some p =>
        rw [hk] at h
        obtain rfl := Option.some.inj h
        simp only [removeSub, hnot (parentOf_key_mem hk), Bool.false_eq_true, if_false, Forest.all, List.mem_append]
        exact Or.inl (Or.inl (ihk w.kids hk))
      | none =>
        rw [hk] at h
        simp only [removeSub]
        split
        · exact ihs w.sibs h
        · simp only [Forest.all, List.mem_append]
          exact Or.inr (ihs w.sibs h)

/-! ### `attachAll` -/

theorem wf_of_perm {F : DF} {L : List ℕ} (hp : F.all.Perm L) (hL : L.Nodup) (hs : ∀ a ∈ L, a < Forest.big)
    (hne : Canon.NE F) : Canon.WF F :=
  ⟨hp.nodup_iff.mpr hL, hne, fun a ha => hs a (hp.subset ha)⟩

/-- grafting the roots `sub` one after the other under the clone holding `k` -/
theorem attachAll_some (k : ℕ) (P : DF) (wP : Canon.WF P) (hk : k ∈ P.all) :
    ∀ sub : List (List ℕ × DF), Canon.WF (ofRoots sub) → (∀ a ∈ (ofRoots sub).all, a ∉ P.all) →
      Canon.WF (attachAll (some k) sub P) ∧ (attachAll (some k) sub P).all.Perm ((ofRoots sub).all ++ P.all) := by
  intro sub
  induction sub with
  | nil =>
    intro _ _
    exact ⟨wP, by simp [attachAll, ofRoots, Forest.all]⟩
  | cons r rest ih =>
    obtain ⟨d, kk⟩ := r
    intro wS hdis
    have wS' : Canon.WF (Orders.Forest.cons d kk (ofRoots rest)) := wS
    have hdis' : ∀ a ∈ (ofRoots rest).all, a ∉ P.all := by
      intro a ha
      exact hdis a (by simp only [ofRoots, Forest.all]; exact List.mem_append_right _ ha)
    obtain ⟨wA, pA⟩ := ih wS'.sibs hdis'
    have hkA : k ∈ (attachAll (some k) rest P).all := pA.symm.subset (List.mem_append_right _ hk)
    have hp : (attachAll (some k) ((d, kk) :: rest) P).all.Perm ((ofRoots ((d, kk) :: rest)).all ++ P.all) := by
      show (attachUnder k d kk (attachAll (some k) rest P)).all.Perm _
      refine (Canon.attachUnder_all_perm d kk wA.nodup hkA).trans ?_
      simp only [ofRoots, Forest.all, List.append_assoc]
      exact List.Perm.append_left _ (List.Perm.append_left _ (by simpa using pA))
    refine ⟨wf_of_perm hp ?_ ?_ ?_, hp⟩
    · exact List.nodup_append.mpr ⟨wS.nodup, wP.nodup, fun a ha b hb e => hdis a ha (e ▸ hb)⟩
    · intro a ha
      rcases List.mem_append.1 ha with h | h
      · exact wS.small a h
      · exact wP.small a h
    · show Canon.NE (attachUnder k d kk (attachAll (some k) rest P))
      exact Canon.attachUnder_ne k wS'.ne.1 wS'.ne.2.1 wA.ne

/-- putting the roots `sub` in front of the top-level clones -/
theorem attachAll_none (P : DF) (wP : Canon.WF P) :
    ∀ sub : List (List ℕ × DF), Canon.WF (ofRoots sub) → (∀ a ∈ (ofRoots sub).all, a ∉ P.all) →
      Canon.WF (attachAll none sub P) ∧ (attachAll none sub P).all.Perm ((ofRoots sub).all ++ P.all) := by
  intro sub
  induction sub with
  | nil =>
    intro _ _
    exact ⟨wP, by simp [attachAll, ofRoots, Forest.all]⟩
  | cons r rest ih =>
    obtain ⟨d, kk⟩ := r
    intro wS hdis
    have wS' : Canon.WF (Orders.Forest.cons d kk (ofRoots rest)) := wS
    have hdis' : ∀ a ∈ (ofRoots rest).all, a ∉ P.all := by
      intro a ha
      exact hdis a (by simp only [ofRoots, Forest.all]; exact List.mem_append_right _ ha)
    obtain ⟨wA, pA⟩ := ih wS'.sibs hdis'
    have hp : (attachAll none ((d, kk) :: rest) P).all.Perm ((ofRoots ((d, kk) :: rest)).all ++ P.all) := by
      show (Orders.Forest.cons d kk (attachAll none rest P)).all.Perm _
      simp only [ofRoots, Forest.all, List.append_assoc]
      exact List.Perm.append_left _ (List.Perm.append_left _ (by simpa using pA))
    refine ⟨wf_of_perm hp ?_ ?_ ?_, hp⟩
    · exact List.nodup_append.mpr ⟨wS.nodup, wP.nodup, fun a ha b hb e => hdis a ha (e ▸ hb)⟩
    · intro a ha
      rcases List.mem_append.1 ha with h | h
      · exact wS.small a h
      · exact wP.small a h
    · show Canon.NE (Orders.Forest.cons d kk (attachAll none rest P))
      exact ⟨wS'.ne.1, wS'.ne.2.1, wA.ne⟩

theorem attachAll_ok (gk : Option ℕ) (P : DF) (wP : Canon.WF P) (hk : ∀ k, gk = some k → k ∈ P.all)
    (F : DF) (wF : Canon.WF F) (hdis : ∀ a ∈ F.all, a ∉ P.all) :
    Canon.WF (attachAll gk F.roots P) ∧ (attachAll gk F.roots P).all.Perm (F.all ++ P.all) := by
  have e : ofRoots F.roots = F := PhyModel.ofRoots_roots F
  cases gk with
  | none =>
    have := attachAll_none P wP F.roots (e.symm ▸ wF) (e.symm ▸ hdis)
    rwa [e] at this
  | some k =>
    have := attachAll_some k P wP (hk k rfl) F.roots (e.symm ▸ wF) (e.symm ▸ hdis)
    rwa [e] at this

/-! ### the region and the remainder -/

/-- the region to resample, the untouched remainder and the grafting point, for the data point `i` -/
def regionOf (i : ℕ) (x : T) : DF × DF × Option ℕ :=
  match parentOf i x.f with
  | none => (x.f, Orders.Forest.nil, none)
  | some (pd, pk) =>
    let key := pd.headD 0
    (Orders.Forest.cons pd pk .nil, removeSub key x.f, (parentOf key x.f).map fun g => g.1.headD 0)

/-- the sweep on the region and the re-assembly -/
def subtreeGiven (r : SMC.Run) (x : T) (reg : DF × DF × Option ℕ) : Dist T :=
  let xs := T.mk' reg.1 x.out
  Dist.bind (Dist.norm (sampleOrder xs.f xs.out)) fun σ =>
    Dist.bind (SMC.csmc r xs σ) fun sw =>
      Dist.categorical (sw.map fun (tw : T × Rat) =>
        let full := T.mk' (attachAll reg.2.2 tw.1.f.roots reg.2.1) tw.1.out
        (full, tw.2 / Density.pOne r.dt r.c.α tw.1.f tw.1.out * Density.pOne r.dt r.c.α full.f full.out))

theorem subtreeMove_eq (r : SMC.Run) (x : T) :
    subtreeMove r x = if x.f.all.isEmpty then SMC.pgStep r x
      else Dist.norm (Dist.bind (Dist.uniform x.f.all) fun i => subtreeGiven r x (regionOf i x)) := rfl

structure Region (x : T) (reg : DF × DF × Option ℕ) : Prop where
  wfR : Canon.WF reg.1
  wfP : Canon.WF reg.2.1
  perm : (reg.1.all ++ reg.2.1.all).Perm x.f.all
  key : ∀ k, reg.2.2 = some k → k ∈ reg.2.1.all

theorem regionOf_ok {x : T} (w : Canon.WFT x) (i : ℕ) : Region x (regionOf i x) := by
  unfold regionOf
  cases hp : parentOf i x.f with
  | none => exact ⟨w.wf, Canon.WF.nil, by simp [Forest.all], fun _ h => by simp at h⟩
  | some g =>
    obtain ⟨pd, pk⟩ := g
    have hsub : (pd, pk) ∈ nodesOf x.f := parentOf_mem_nodes hp
    have b := Canon.pbase_of_node w hsub
    refine ⟨b.wfSub, b.wfP, ?_, ?_⟩
    · show ((Orders.Forest.cons pd pk .nil).all ++ (removeSub (pd.headD 0) x.f).all).Perm x.f.all
      simp only [Forest.all, List.append_nil]
      rcases Canon.prune_eqv w.wf hsub b.key_mem with hq | ⟨a, ha, hq⟩
      · have := hq.all_perm
        simp only [Forest.all] at this
        exact this.symm
      · exact ((Canon.attachUnder_all_perm pd pk b.wfP.nodup ha).symm.trans hq.all_perm.symm)
    · intro k hk
      show k ∈ (removeSub (pd.headD 0) x.f).all
      have hk' : (parentOf (pd.headD 0) x.f).map (fun g => g.1.headD 0) = some k := hk
      cases hg : parentOf (pd.headD 0) x.f with
      | none => rw [hg] at hk'; simp at hk'
      | some g =>
        rw [hg] at hk'
        obtain rfl := Option.some.inj hk'
        exact parentOf_key_remains w.wf hg

/-- every swarm of the conditional sweep, for any order the permutation sampler can draw -/
theorem csmc_allHold (r : SMC.Run) {D : List ℕ} {x : T} (hx : Holds r.c D x) {σ : List ℕ}
    (hσ : σ ∈ allOrders x.f x.out) : AllD (AllHold r D) (csmc r x σ) := by
  have hperm : σ.Perm (x.f.all ++ x.out) := (allOrders_sound _ _ _ hσ).1
  have hnd : σ.Nodup := hperm.nodup_iff.mpr hx.wft.nodup
  have hbig : ∀ i ∈ σ, i < Forest.big := fun i hi => hx.wft.big i (hperm.subset hi)
  have hlev : x ∈ PGSpec.level r.c σ σ.length := (reachable_iff_order r.c σ hnd x hx.wft).mpr hσ
  by_cases hne : σ = []
  · subst hne
    have : csmc r x [] = Dist.norm (Dist.pure []) := by
      simp [csmc, initSwarm, SMC.sweep]
    rw [this]
    exact allD_norm (allD_pure (fun _ h => absurd h (by simp)))
  · refine (csmc_ok r hnd hbig hlev hne).mono ?_
    intro sw hsw pw hpw
    exact (hsw.2 pw hpw).of_perm (hperm.trans hx.perm)

theorem subtreeGiven_holds (r : SMC.Run) {D : List ℕ} {x : T} (hx : Holds r.c D x)
    {reg : DF × DF × Option ℕ} (hr : Region x reg) : AllD (Holds r.c D) (subtreeGiven r x reg) := by
  obtain ⟨region, remaining, gk⟩ := reg
  have hnd : (x.f.all ++ x.out).Nodup := hx.wft.nodup
  have hpermR : ((region.all ++ remaining.all) ++ x.out).Perm (x.f.all ++ x.out) := hr.perm.append_right _
  have hndR : ((region.all ++ remaining.all) ++ x.out).Nodup := hpermR.nodup_iff.mpr hnd
  -- the start tree of the sweep: the region with all outliers
  have hxs : Holds r.c (region.all ++ x.out) (T.mk' region x.out) := by
    refine holds_mk' hr.wfR (List.Perm.refl _) ?_ ?_ hx.wft.out
    · have : (region.all ++ x.out).Sublist ((region.all ++ remaining.all) ++ x.out) := by
        rw [List.append_assoc]
        exact List.Sublist.append_left (List.sublist_append_right _ _) _
      exact hndR.sublist this
    · intro a ha
      refine hx.wft.big a (hpermR.subset ?_)
      rcases List.mem_append.1 ha with h | h
      · exact List.mem_append_left _ (List.mem_append_left _ h)
      · exact List.mem_append_right _ h
  unfold subtreeGiven
  refine allD_bind (allD_norm (sampleOrder_support _ _)) ?_
  intro σ hσ
  refine allD_bind (csmc_allHold r hxs hσ) ?_
  intro sw hsw
  refine allD_categorical ?_
  intro aw haw
  simp only [List.mem_map] at haw
  obtain ⟨tw, htw, rfl⟩ := haw
  have hy := hsw tw htw
  -- the resampled region `tw.1` shares no data point with the remainder
  have hdis : ∀ a ∈ tw.1.f.all, a ∉ remaining.all := by
    intro a ha hrem
    have h1 : a ∈ region.all ++ x.out := hy.perm.subset (List.mem_append_left _ ha)
    have h2 := List.nodup_append.mp hndR
    rcases List.mem_append.1 h1 with h | h
    · exact (List.nodup_append.mp h2.1).2.2 a h a hrem rfl
    · exact h2.2.2 a (List.mem_append_right _ hrem) a h rfl
  obtain ⟨wA, pA⟩ := attachAll_ok gk remaining hr.wfP hr.key tw.1.f hy.wft.wf hdis
  refine holds_mk' wA ?_ hx.nodupD hx.bigD hy.wft.out
  -- data: resampled region + remainder + its outliers = everything
  have h3 : ((tw.1.f.all ++ remaining.all) ++ tw.1.out).Perm ((region.all ++ remaining.all) ++ x.out) := by
    have := hy.perm
    have e1 : ((tw.1.f.all ++ remaining.all) ++ tw.1.out).Perm ((tw.1.f.all ++ tw.1.out) ++ remaining.all) := by
      rw [List.append_assoc, List.append_assoc]
      exact List.Perm.append_left _ List.perm_append_comm
    have e2 : ((region.all ++ x.out) ++ remaining.all).Perm ((region.all ++ remaining.all) ++ x.out) := by
      rw [List.append_assoc, List.append_assoc]
      exact List.Perm.append_left _ List.perm_append_comm
    exact e1.trans ((this.append_right _).trans e2)
  exact ((pA.append_right _).trans h3).trans (hpermR.trans hx.perm)

/-- **random-subtree move**: every tree listed by `Moves.subtreeMove` for a well-formed tree holding
`D` is a well-formed tree holding `D` (the fallback to the whole-tree update when every data point is an
outlier included) -/
theorem subtreeMove_holds (r : SMC.Run) {D : List ℕ} {x : T} (hx : Holds r.c D x) :
    AllD (Holds r.c D) (subtreeMove r x) := by
  rw [subtreeMove_eq]
  split
  · exact pgStep_holds r hx
  · refine allD_norm (allD_bind (P := fun _ => True) (fun _ _ => trivial) ?_)
    intro i _
    exact subtreeGiven_holds r hx (regionOf_ok (toCanon hx.wft) i)

end PhyModel.RunOK
