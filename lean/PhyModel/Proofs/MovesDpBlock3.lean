import PhyModel.Proofs.MovesDpBlock2
/-! `DpBlock` from well-formedness; the unconditional invariance theorems of the data-point move. -/
namespace PhyModel
open Orders Orders.Forest PhyModel.Moves Gibbs

namespace Canon

/-- a movable data point that is not an outlier sits in a clone with at least two points -/
theorem holder_of_movable {x : T} (_w : WFT x) {i : Nat} (hm : dpMovable x i = true) (ho : i ∉ x.out) :
    ∃ nd ∈ nodesOf x.f, i ∈ nd.1 ∧ 1 < nd.1.length := by
  unfold dpMovable at hm
  rw [Bool.or_eq_true] at hm
  rcases hm with hm | hm
  · exact absurd (List.contains_iff_mem.mp hm) ho
  · rw [decide_eq_true_eq] at hm
    unfold holderSize at hm
    cases hf : (nodesOf x.f).find? (fun nd => nd.1.contains i) with
    | none => rw [hf] at hm; simp at hm
    | some nd =>
      rw [hf] at hm
      exact ⟨nd, List.mem_of_find?_eq_some hf,
        List.contains_iff_mem.mp (List.find?_some (p := fun nd : List Nat × DF => nd.1.contains i) hf), hm⟩

theorem not_mem_out_of_mem_all {x : T} (w : WFT x) {i : Nat} (h : i ∈ x.f.all) : i ∉ x.out :=
  fun ho => (List.nodup_append.mp w.nodup).2.2 i h i ho rfl

theorem base_of_movable {x : T} (w : WFT x) {i : Nat} (hm : dpMovable x i = true) :
    Base i (removeDp i x.f) (x.out.filter (· != i)) := by
  refine ⟨removeDp_wf w.wf ?_, ?_, ?_, ?_⟩
  · intro nd hnd hi
    have ho := not_mem_out_of_mem_all w (mem_all_iff.mpr ⟨nd, hnd, hi⟩)
    obtain ⟨nd', hnd', hi', hlen⟩ := holder_of_movable w hm ho
    rw [node_unique w.wf hnd hnd' hi hi']; exact hlen
  · rw [removeDp_all]; intro h; exact (mem_filter_ne.mp h).2 rfl
  · intro h; exact (mem_filter_ne.mp h).2 rfl
  · by_cases ho : i ∈ x.out
    · exact w.small i (List.mem_append_right _ ho)
    · obtain ⟨nd, hnd, hi, _⟩ := holder_of_movable w hm ho
      exact w.small i (List.mem_append_left _ (mem_all_iff.mpr ⟨nd, hnd, hi⟩))

theorem self_mem_dpCands {outl : Bool} {x : T} (w : WFT x) {i : Nat} (hm : dpMovable x i = true)
    (hout : x.out ≠ [] → outl = true) : x ∈ dpCands outl x i := by
  rw [dpCands_eq, mem_dpCore (base_of_movable w hm)]
  obtain ⟨xf, xo⟩ := x
  by_cases ho : i ∈ xo
  · right
    refine ⟨hout (List.ne_nil_of_mem ho), ?_⟩
    have hif : i ∉ xf.all := fun h => not_mem_out_of_mem_all w h ho
    have hnd : xo.Nodup := (List.nodup_append.mp w.nodup).2.1
    show (⟨xf, xo⟩ : T) = ⟨canon (removeDp i xf), sortNat (xo.filter (· != i) ++ [i])⟩
    rw [removeDp_of_not_mem hif, w.canonF, sortNat_congr (filter_ne_append_perm hnd ho), w.sortedOut]
  · left
    obtain ⟨nd, hnd, hi, hlen⟩ := holder_of_movable w hm ho
    have hndn : nd.1.Nodup :=
      (List.nodup_flatMap.mp ((all_perm_nodes xf).nodup_iff.mp w.wf.nodup)).1 nd hnd
    -- another point of the same clone
    obtain ⟨a, ha, hai⟩ : ∃ a ∈ nd.1, a ≠ i := by
      match hd : nd.1, hlen, hndn, hi with
      | p :: q :: _, _, hndn, _ =>
        by_cases hp : p = i
        · refine ⟨q, by simp, ?_⟩
          intro hq
          simp only [List.nodup_cons, List.mem_cons] at hndn
          exact hndn.1 (Or.inl (hp.trans hq.symm))
        · exact ⟨p, by simp, hp⟩
    refine ⟨a, ?_, ?_⟩
    · rw [removeDp_all, mem_filter_ne]; exact ⟨mem_all_iff.mpr ⟨nd, hnd, ha⟩, hai⟩
    · have hq := addDpAt_removeDp_eqv (key := a) (i := i) w.wf.nodup hai (same_node_iff w.wf hnd ha hi)
      show (⟨xf, xo⟩ : T) = ⟨canon (addDpAt a i (removeDp i xf)), sortNat (xo.filter (· != i))⟩
      rw [← canon_congr hq w.wf, w.canonF, filter_ne_of_not_mem ho, w.sortedOut]

/-- The candidate lists of the data-point step form blocks on any list of well-formed trees that is
closed under the step. -/
theorem dpBlock_of_wf (outl : Bool) (S : List T) (i : Nat) (hwf : ∀ x ∈ S, WFT x)
    (hout : outl = false → ∀ x ∈ S, x.out = [])
    (hcl : ∀ x ∈ S, dpMovable x i = true → ∀ y ∈ dpCands outl x i, y ∈ S) : DpBlock outl S i := by
  have mem : ∀ {x}, x ∈ S.filter (fun x => dpMovable x i) → x ∈ S ∧ dpMovable x i = true :=
    fun hx => List.mem_filter.mp hx
  have hout' : ∀ x ∈ S, x.out ≠ [] → outl = true := by
    intro x hx hne
    cases outl
    · exact absurd (hout rfl x hx) hne
    · rfl
  refine ⟨?_, ?_, ?_, ?_⟩
  · intro x hx
    exact self_mem_dpCands (hwf x (mem hx).1) (mem hx).2 (hout' x (mem hx).1)
  · intro x hx
    rw [dpCands_eq]; exact dpCore_nodup (base_of_movable (hwf x (mem hx).1) (mem hx).2)
  · intro x hx y hy
    have hb := base_of_movable (hwf x (mem hx).1) (mem hx).2
    exact List.mem_filter.mpr ⟨hcl x (mem hx).1 (mem hx).2 y hy, (dpCore_base hb (by rw [← dpCands_eq]; exact hy)).2.2⟩
  · intro x hx y hy
    have hb := base_of_movable (hwf x (mem hx).1) (mem hx).2
    obtain ⟨hf, ho, _⟩ := dpCore_base hb (by rw [← dpCands_eq]; exact hy)
    rw [dpCands_eq, dpCands_eq]
    exact (dpCore_perm hb hf.symm ho.symm).symm

/-- the candidates are the support of the step -/
theorem mem_dpStep_of_mem_dpCands (c : Moves.Cfg) {x y : T} {i : Nat} (hm : dpMovable x i = true)
    (hy : y ∈ dpCands c.outliers x i) : ∃ yq ∈ dpStep c x i, yq.1 = y := by
  rw [dpStep_eq, if_pos hm]
  unfold gibbsK Dist.categorical
  simp only [List.mem_map, List.map_map]
  exact ⟨_, ⟨y, hy, rfl⟩, rfl⟩

/-- One Gibbs step of the data-point move leaves `π` invariant on any duplicate-free list of
well-formed trees closed under the step. -/
theorem dpStep_invariant (c : Moves.Cfg) (i : Nat) (S : List T) (hS : S.Nodup) (hwf : ∀ x ∈ S, WFT x)
    (hout : c.outliers = false → ∀ x ∈ S, x.out = [])
    (hcl : ∀ x ∈ S, ∀ yq ∈ dpStep c x i, yq.1 ∈ S)
    (hπ : ∀ x ∈ S, 0 ≤ pOneOf c x) : Inv S (pOneOf c) (fun x => dpStep c x i) := by
  apply dpStep_invariant_of_block c i S hS hπ
  apply dpBlock_of_wf c.outliers S i hwf hout
  intro x hx hm y hy
  obtain ⟨yq, hyq, rfl⟩ := mem_dpStep_of_mem_dpCands c hm hy
  exact hcl x hx yq hyq

end Canon
end PhyModel
