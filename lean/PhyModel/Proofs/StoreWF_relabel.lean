import PhyModel.Proofs.StoreWF_Facts
/-! C07 for `Tree.relabel_nodes()` (`Store.relabelNodes`): the relabelled store satisfies the
invariant, its names are dense, and the outliers, the data points, the number of clones and the
clone-side view (`toDF`) are conserved. -/
namespace PhyModel.Store
open PhyModel PhyModel.Store PhyModel.Store.Store SF AL

/-- the `_data` map written by `relabelNodes` -/
def relabelData (s : Store) : List (Int × List Nat) :=
  (outKey, s.outliers) :: (relabelSF s.forest 0).2.2.map fun (o, nw) => (nw, s.dataOf o)

theorem relabelNodes_forest (s : Store) : s.relabelNodes.forest = (relabelSF s.forest 0).1 := rfl
theorem relabelNodes_data_eq (s : Store) : s.relabelNodes.data = relabelData s := rfl
theorem relabelNodes_nodeIdx (s : Store) :
    s.relabelNodes.nodeIdx = (relabelSF s.forest 0).1.recs.map fun n => (n.name, n.idx) := rfl
theorem relabelNodes_nodeIdxRev (s : Store) :
    s.relabelNodes.nodeIdxRev = (relabelSF s.forest 0).1.recs.map fun n => (n.idx, n.name) := rfl

theorem relabelData_keys (s : Store) : keys (relabelData s) = outKey :: (relabelSF s.forest 0).1.names := by
  simp only [relabelData, keys, List.map_cons, List.map_map]
  congr 1
  rw [← relabelSF_ren_snd]
  apply List.map_congr_left
  rintro ⟨o, nw⟩ _; rfl

theorem relabelData_vals (s : Store) :
    vals (relabelData s) = (outKey :: s.forest.names).flatMap (dOf s.data) := by
  simp only [relabelData, vals, List.flatMap_cons]
  congr 1
  rw [← relabelSF_ren_fst s.forest 0, List.flatMap_map]
  induction (relabelSF s.forest 0).2.2 with
  | nil => rfl
  | cons e l ih => obtain ⟨o, nw⟩ := e; simp only [List.map_cons, List.flatMap_cons, ih]; rfl

theorem outKey_not_mem_of_nonneg {l : List Int} (h : ∀ a ∈ l, 0 ≤ a) : outKey ∉ l := by
  intro hc; have := h _ hc; simp [outKey] at this

theorem relabelData_keys_nodup (s : Store) : (keys (relabelData s)).Nodup := by
  rw [relabelData_keys, List.nodup_cons]
  exact ⟨outKey_not_mem_of_nonneg fun a ha => (relabelSF_bounds ha).1, relabelSF_names_nodup _ _⟩

theorem WF.outKey_names_nodup {s : Store} (hw : WF s) : (outKey :: s.forest.names).Nodup := by
  rw [List.nodup_cons]
  refine ⟨outKey_not_mem_of_nonneg fun a ha => ?_, hw.names_nodup⟩
  obtain ⟨n, hn, rfl⟩ := mem_names.1 ha
  exact hw.name_nonneg n hn

/-- the value of the new `_data` at the new name of an old clone -/
theorem relabelData_dOf {s : Store} {o nw : Int} (h : (o, nw) ∈ (relabelSF s.forest 0).2.2) :
    dOf (relabelData s) nw = s.dataOf o := by
  have hm : (nw, s.dataOf o) ∈ relabelData s := by
    simp only [relabelData, List.mem_cons, List.mem_map]
    exact Or.inr ⟨(o, nw), h, rfl⟩
  simp [dOf, lookup_of_mem (relabelData_keys_nodup s) hm]

theorem relabelNodes_inv {s : Store} (hw : WF s) : Inv0 s.relabelNodes ∧ Dense s.relabelNodes := by
  refine ⟨⟨?_, ?_⟩, ?_⟩
  · rw [wf_iff, relabelNodes_forest, relabelNodes_data_eq, relabelNodes_nodeIdx, relabelNodes_nodeIdxRev]
    refine ⟨⟨relabelSF_names_nodup _ _, ?_, fun n' hn' => ?_, fun n' hn' => ?_⟩,
      ⟨List.Perm.refl _, List.Perm.refl _⟩,
      ⟨relabelData_keys_nodup s, fun k hk => ?_, fun n' hn' => ?_, ?_⟩⟩
    · rw [relabelSF_map (·.idx) (fun _ _ => rfl)]; exact hw.idxs_nodup
    · obtain ⟨n, hn, he, _⟩ := relabelSF_mem hn'
      rw [he]; exact hw.idx_pos n hn
    · exact (relabelSF_bounds (mem_names.2 ⟨n', hn', rfl⟩)).1
    · rw [relabelData_keys] at hk
      rcases List.mem_cons.1 hk with h | h
      · exact Or.inl h
      · exact Or.inr h
    · obtain ⟨n, hn, he, hr⟩ := relabelSF_mem hn'
      rw [relabelData_dOf hr]
      have : n'.dps = n.dps := by rw [he]
      rw [this]; exact hw.payload_data n hn
    · rw [relabelData_vals]
      exact flatMap_dOf_nodup hw.data_keys hw.data_nodup hw.outKey_names_nodup
  · intro n' hn'
    rw [relabelNodes_forest] at hn'
    show n'.name ∈ keys s.relabelNodes.data
    rw [relabelNodes_data_eq, relabelData_keys]
    exact List.mem_cons_of_mem _ (mem_names.2 ⟨n', hn', rfl⟩)
  · intro n' hn'
    rw [relabelNodes_forest] at hn'
    have := (relabelSF_bounds (mem_names.2 ⟨n', hn', rfl⟩)).2
    simp only [Store.numNodes, relabelNodes_forest, relabelSF_numNodes]
    omega

theorem relabelNodes_outliers (s : Store) : s.relabelNodes.outliers = s.outliers := by
  simp [Store.outliers, Store.dataOf, relabelNodes_data_eq, relabelData]

theorem relabelNodes_data {s : Store} (hw : WF s) : (vals s.relabelNodes.data).Perm (vals s.data) := by
  rw [relabelNodes_data_eq, relabelData_vals]
  refine flatMap_dOf_perm_vals hw.data_keys hw.outKey_names_nodup fun k hk => ?_
  obtain ⟨e, he, rfl⟩ := List.mem_map.1 hk
  rcases hw.data_sub e he with h | h
  · rw [h]; exact List.mem_cons_self
  · exact List.mem_cons_of_mem _ h

theorem relabelNodes_numNodes (s : Store) : s.relabelNodes.numNodes = s.numNodes := by
  simp only [Store.numNodes, relabelNodes_forest, relabelSF_numNodes]

theorem relabelSF_toDF (f : SF) (c : Int) : (relabelSF f c).1.toDF = f.toDF := by
  induction f generalizing c with
  | nil => rfl
  | cons n k s ihk ihs => simp [relabelSF, toDF, ihk, ihs]

/-- the clone-side view is only renamed: same shape and data-point sets -/
theorem relabelNodes_toDF (s : Store) : s.relabelNodes.forest.toDF = s.forest.toDF :=
  relabelSF_toDF s.forest 0

end PhyModel.Store
