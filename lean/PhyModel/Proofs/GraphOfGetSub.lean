import PhyModel.Proofs.GraphOfRemove
/-! The structural subtree `SF.findSub` of the store model is a correct abstraction of the graph-level
`get_subtree` (`gGetSubtree`): on the graph of a structural forest with distinct non-zero indices the
graph operation returns the graph of the structural subtree with its indices renamed
(`graph_getSubtree`). -/
namespace PhyModel.Graph
open PhyModel.Store PhyModel.Store.SF

/-- the edges of the graph between nodes reachable from clone `i` are the edges of the structural
subtree -/
theorem filter_edgesOf_perm {f : SF} {i : Nat} {x : NodeRec × SF} (hn : f.idxs.Nodup) (h0 : 0 ∉ f.idxs)
    (hx : f.findSub i = some x) {D : List Nat} (hD : ∀ v, v ∈ D ↔ Reach (graphOf f) i v) :
    ((Store.edgesOf 0 f).filter fun e => D.contains e.1 && D.contains e.2).Perm (Store.edgesOf i x.2) := by
  obtain ⟨-, -, hnx, -⟩ := mem_idxs_split hn hx
  have hD' : ∀ v, v ∈ D ↔ v = i ∨ v ∈ x.2.idxs := fun v => (hD v).trans (reach_graphOf_iff hn h0 hx v)
  rw [List.perm_ext_iff_of_nodup ((nodup_edgesOf hn 0).filter _) (nodup_edgesOf (List.nodup_cons.1 hnx).2 i)]
  intro e
  simp only [List.mem_filter, Bool.and_eq_true, List.contains_eq_mem, decide_eq_true_eq]
  constructor
  · rintro ⟨he, h1, h2⟩
    rcases (hD' e.2).1 h2 with h | h
    · exfalso
      have he' : (e.1, i) ∈ (graphOf f).edges := by rw [← h]; exact he
      exact (isForest_graphOf hn h0).not_reach_parent he' ((hD e.1).1 h1)
    · exact mem_edgesOf_of_sub hn (edgesOf_findSub_sub 0 hx) he h
  · intro he
    refine ⟨edgesOf_findSub_sub 0 hx e he, (hD' _).2 ?_, (hD' _).2 (.inr (target_edgesOf he))⟩
    exact source_edgesOf he

/-- the live nodes reachable from clone `i` are the clones of the structural subtree -/
theorem filter_nodes_perm {f : SF} {i : Nat} {x : NodeRec × SF} (hn : f.idxs.Nodup) (h0 : 0 ∉ f.idxs)
    (hx : f.findSub i = some x) {D : List Nat} (hD : ∀ v, v ∈ D ↔ Reach (graphOf f) i v) :
    ((0 :: f.idxs).filter D.contains).Perm (i :: x.2.idxs) := by
  obtain ⟨hm, -, hnx, -⟩ := mem_idxs_split hn hx
  have hD' : ∀ v, v ∈ D ↔ v = i ∨ v ∈ x.2.idxs := fun v => (hD v).trans (reach_graphOf_iff hn h0 hx v)
  rw [List.perm_ext_iff_of_nodup ((List.nodup_cons.2 ⟨h0, hn⟩).filter _) hnx]
  intro v
  simp only [List.mem_filter, List.contains_eq_mem, decide_eq_true_eq, hD', List.mem_cons]
  exact ⟨fun h => h.2, fun h => ⟨.inr ((hm v).2 (.inl h)), h⟩⟩

/-- **the structural subtree is the graph-level `get_subtree`**: on the graph of a structural forest,
with indices for the copies that do not collide on the subtree and are never 0, the graph operation
succeeds and returns the graph of the subtree `findSub` gives, renamed -/
theorem graph_getSubtree {f : SF} {i : Nat} {x : NodeRec × SF} {ρ₁ ρ₂ : Nat → Nat} (hn : f.idxs.Nodup)
    (h0 : 0 ∉ f.idxs) (hx : f.findSub i = some x)
    (hinj : ∀ a ∈ i :: x.2.idxs, ∀ b ∈ i :: x.2.idxs, ρ₂ (ρ₁ a) = ρ₂ (ρ₁ b) → a = b)
    (hne0 : ∀ a ∈ i :: x.2.idxs, ρ₂ (ρ₁ a) ≠ 0) :
    ∃ g', gGetSubtree (graphOf f) i ρ₁ ρ₂ = some g' ∧
      g'.nodes.Perm (graphOf (mapIdx (fun a => ρ₂ (ρ₁ a)) (.cons x.1 x.2 .nil))).nodes ∧
      g'.edges.Perm (graphOf (mapIdx (fun a => ρ₂ (ρ₁ a)) (.cons x.1 x.2 .nil))).edges := by
  have hxi : x.1.idx = i := (findSub_some hx).1
  have hi : i ∈ f.idxs := by
    by_contra hc
    rw [findSub_none_iff.2 hc] at hx
    cases hx
  have hr : i ∈ (graphOf f).nodes := List.mem_cons_of_mem _ hi
  have hR : ∀ v, Reach (graphOf f) i v → v ∈ i :: x.2.idxs := fun v hv =>
    List.mem_cons.2 ((reach_graphOf_iff hn h0 hx v).1 hv)
  have hsome : (gGetSubtree (graphOf f) i ρ₁ ρ₂).isSome = true := by
    refine gGetSubtree_isSome hr (fun a _ b _ ha hb hab => ?_) (fun a _ b _ ha hb hab => ?_)
      (fun a _ ha => hne0 a (hR a ha)) (List.nodup_cons.2 ⟨h0, hn⟩)
    · exact hinj a (hR a ha) b (hR b hb) (by rw [hab])
    · exact hinj a (hR a ha) b (hR b hb) hab
  obtain ⟨g', hg'⟩ := Option.isSome_iff_exists.1 hsome
  obtain ⟨D, -, hD, hnodes, hedges, -, -, -⟩ := gGetSubtree_spec hg'
  refine ⟨g', hg', ?_, ?_⟩
  · rw [hnodes, List.map_map]
    simp only [graphOf_nodes, mapIdx_cons, mapIdx_nil, idxs_cons, idxs_nil, List.append_nil, idxs_mapIdx, hxi]
    exact List.Perm.cons 0 ((filter_nodes_perm hn h0 hx hD).map _)
  · rw [hedges]
    simp only [graphOf_edges, mapIdx_cons, mapIdx_nil, edgesOf_cons, edgesOf_nil, List.append_nil, hxi]
    rw [edgesOf_mapIdx (fun a => ρ₂ (ρ₁ a)) x.2 i]
    exact (List.perm_append_singleton _ _).trans (List.Perm.cons _ ((filter_edgesOf_perm hn h0 hx hD).map _))

/-! ### non-vacuity: five clones, depth 3; the subtree of clone 4 is three levels deep -/

private def nr (i : Nat) : NodeRec := { idx := i, name := i, dps := [i], p := [], r := [] }

private def f5 : SF :=
  .cons (nr 5) .nil (.cons (nr 4) (.cons (nr 2) (.cons (nr 1) .nil .nil) (.cons (nr 3) .nil .nil)) .nil)

/-- the hypotheses of `graph_getSubtree` hold for `f5`, clone 4 and the numbering `a ↦ (a - 1) + 1`
on the subtree `{4, 2, 1, 3}`, and this is what the graph operation and the renamed structural subtree
evaluate to (`subgraph` lists the copies in the order of the live list, the structural side in preorder) -/
example : f5.idxs.Nodup ∧ 0 ∉ f5.idxs ∧ ((f5.findSub 4).map fun x => (x.1.idx, x.2.idxs)) = some (4, [2, 1, 3]) ∧
    (∀ a ∈ [4, 2, 1, 3], ∀ b ∈ [4, 2, 1, 3], (a - 1) + 1 = (b - 1) + 1 → a = b) ∧
    (∀ a ∈ [4, 2, 1, 3], (a - 1) + 1 ≠ 0) ∧
    graphOf f5 = { nodes := [0, 5, 4, 2, 1, 3], edges := [(0, 5), (0, 4), (4, 2), (2, 1), (4, 3)] } ∧
    gGetSubtree (graphOf f5) 4 (fun a => a - 1) (fun a => a + 1) =
      some { nodes := [0, 4, 2, 1, 3], edges := [(4, 2), (2, 1), (4, 3), (0, 4)] } ∧
    ((f5.findSub 4).map fun x => graphOf (mapIdx (fun a => (a - 1) + 1) (.cons x.1 x.2 .nil))) =
      some { nodes := [0, 4, 2, 1, 3], edges := [(0, 4), (4, 2), (2, 1), (4, 3)] } ∧
    gGetSubtree (graphOf f5) 2 (fun a => a + 5) (fun a => a + 1) =
      some { nodes := [0, 8, 7], edges := [(8, 7), (0, 8)] } ∧
    ((f5.findSub 2).map fun x => graphOf (mapIdx (fun a => (a + 5) + 1) (.cons x.1 x.2 .nil))) =
      some { nodes := [0, 8, 7], edges := [(0, 8), (8, 7)] } := by
  decide +kernel

end PhyModel.Graph
