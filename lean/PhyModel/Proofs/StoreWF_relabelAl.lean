import PhyModel.Proofs.StoreWF_relabel
/-! `Tree.relabel_nodes()` keeps every payload list equal to the `_data` list of its (new) name. -/
namespace PhyModel.Store
open PhyModel PhyModel.Store PhyModel.Store.Store SF AL

theorem relabelNodes_aligned {s : Store} (_hw : WF s) (ha : Aligned s) : Aligned s.relabelNodes := by
  intro n' hn'
  rw [relabelNodes_forest] at hn'
  obtain ⟨n, hn, he, hr⟩ := relabelSF_mem hn'
  have hd : n'.dps = n.dps := by rw [he]
  rw [dataOf_eq, relabelNodes_data_eq, relabelData_dOf hr, hd]
  exact ha n hn

end PhyModel.Store
