import PhyModel.Proofs.GraphOf
import PhyModel.Proofs.GraphAddSub
import PhyModel.Proofs.StoreWF_SF2
import PhyModel.Proofs.GraphOfReindex
/-! `add_subtree`: the structural operation of the store model (`SF.append` under the virtual root,
`SF.graftAt` under a clone, of the re-indexed forest of the subtree) is a correct abstraction of what
`tree.py` does to the rustworkx graph (`compose` with an edge parent → copy of the subtree's dummy root,
then `remove_node_retain_edges` of that copy: `gAddSubtree`).  For every renaming `ρ` that is injective
on the subtree's indices and fresh for the host, the graph operation succeeds on the graphs of the two
structural forests and its result has the nodes and the edges (as multisets: rustworkx re-uses edge
slots) of the graph of the grafted forest (`graph_graft`).  With `ρ` the renaming that `Store.reindex`
applies (`GraphOfReindex.lean`) this is the forest `Store.addSubtree` builds (`graph_addSubtree_struct`). -/
namespace PhyModel.Graph
open PhyModel.Store PhyModel.Store.SF

/-! ### the edges of a renamed forest, hung under another parent -/

/-- The edges of the renamed forest `mapIdx ρ t` hung under `q`: the renamed edges below a clone of `t`,
and one edge from `q` to the copy of every top-level clone (`par`: any index that is not a clone of `t`,
the index the top-level clones hang under in `edgesOf par t`). -/
theorem edgesOf_mapIdx_split (ρ : Nat → Nat) : ∀ (t : SF) (par q : Nat), par ∉ t.idxs →
    (Store.edgesOf q (mapIdx ρ t)).Perm
      (((Store.edgesOf par t).filter (·.1 != par)).map (fun e => (ρ e.1, ρ e.2)) ++
       ((Store.edgesOf par t).filter (·.1 == par)).map (fun e => (q, ρ e.2)))
  | .nil, _, _, _ => by simp
  | .cons n k s, par, q, h => by
    simp only [idxs_cons, List.mem_cons, List.mem_append, not_or] at h
    obtain ⟨hn, hk, hs⟩ := h
    have hsrc : ∀ e ∈ Store.edgesOf n.idx k, e.1 ≠ par := fun e he hc => by
      rcases source_edgesOf he with h | h
      · exact hn (hc ▸ h)
      · exact hk (hc ▸ h)
    have f1 : (Store.edgesOf n.idx k).filter (·.1 != par) = Store.edgesOf n.idx k :=
      List.filter_eq_self.2 fun e he => by simpa using hsrc e he
    have f2 : (Store.edgesOf n.idx k).filter (·.1 == par) = [] :=
      List.filter_eq_nil_iff.2 fun e he => by simpa using hsrc e he
    have ih := edgesOf_mapIdx_split ρ s par q hs
    simp only [mapIdx_cons, edgesOf_cons, List.filter_cons, List.filter_append, f1, f2, bne_self_eq_false,
      beq_self_eq_true, Bool.false_eq_true, if_false, if_true, List.nil_append, List.map_append,
      List.map_cons, edgesOf_mapIdx ρ k n.idx]
    refine (List.Perm.cons _ (ih.append_left _)).trans ?_
    rw [← List.append_assoc]
    exact List.perm_middle.symm

/-! ### the edges and the indices after a structural graft -/

theorem edgesOf_graftAt {p : Nat} (g : SF) : ∀ (f : SF) (par : Nat), f.idxs.Nodup → p ∈ f.idxs →
    (Store.edgesOf par (SF.graftAt p g f)).Perm (Store.edgesOf par f ++ Store.edgesOf p g)
  | .nil, _, _, h => by simp at h
  | .cons n k s, par, hnd, h => by
    simp only [idxs_cons, List.nodup_cons, List.mem_append, not_or, List.nodup_append] at hnd
    obtain ⟨⟨hnk, hns⟩, hk, hs, hdis⟩ := hnd
    simp only [idxs_cons, List.mem_cons, List.mem_append] at h
    by_cases hn : n.idx = p
    · simp only [graftAt, hn, if_true, edgesOf_cons, edgesOf_append, List.cons_append, List.append_assoc]
      refine List.Perm.cons _ ?_
      exact List.perm_append_comm.trans (by rw [List.append_assoc])
    · simp only [graftAt, hn, if_false, edgesOf_cons, List.cons_append, List.append_assoc]
      refine List.Perm.cons _ ?_
      rcases h with h | h | h
      · exact absurd h.symm hn
      · have his : p ∉ s.idxs := fun hc => hdis p h p hc rfl
        rw [graftAt_of_not_mem g his]
        refine ((edgesOf_graftAt g k n.idx hk h).append_right _).trans ?_
        rw [List.append_assoc]
        exact List.Perm.append_left _ List.perm_append_comm
      · have hik : p ∉ k.idxs := fun hc => hdis p hc p h rfl
        rw [graftAt_of_not_mem g hik]
        exact (edgesOf_graftAt g s par hs h).append_left _

theorem idxs_graftAt {p : Nat} (g : SF) {f : SF} (hnd : f.idxs.Nodup) (h : p ∈ f.idxs) :
    (SF.graftAt p g f).idxs.Perm (f.idxs ++ g.idxs) := by
  have := (graftAt_perm g hnd h).map (·.idx)
  rw [List.map_append] at this
  exact this.trans List.perm_append_comm

/-! ### `add_subtree` -/

/-- **grafting structurally is a correct abstraction of `compose` + `remove_node_retain_edges`** -/
theorem graph_graft {f sf : SF} {p : Nat} {ρ : Nat → Nat} (hn : f.idxs.Nodup) (h0 : 0 ∉ f.idxs)
    (hsn : sf.idxs.Nodup) (hs0 : 0 ∉ sf.idxs) (hp : p = 0 ∨ p ∈ f.idxs)
    (hinj : ((0 :: sf.idxs).map ρ).Nodup) (hfresh : ∀ a ∈ 0 :: sf.idxs, ρ a ∉ 0 :: f.idxs) :
    ∃ g', gAddSubtree (graphOf f) (graphOf sf) p ρ = some g' ∧
      g'.nodes.Perm (graphOf (if p = 0 then (mapIdx ρ sf).append f else SF.graftAt p (mapIdx ρ sf) f)).nodes ∧
      g'.edges.Perm (graphOf (if p = 0 then (mapIdx ρ sf).append f else SF.graftAt p (mapIdx ρ sf) f)).edges := by
  have hpn : p ∈ (graphOf f).nodes := by
    rcases hp with rfl | hp
    · simp
    · simp [hp]
  have hsome := gAddSubtree_isSome (g := graphOf f) (sub := graphOf sf) (p := p) (ρ := ρ) hpn
    (by simp) hinj hfresh
  obtain ⟨g', hg'⟩ := Option.isSome_iff_exists.1 hsome
  obtain ⟨-, -, -, hnodes, hedges⟩ :=
    gAddSubtree_spec (isForest_graphOf hn h0) (isForest_graphOf hsn hs0) hg'
  refine ⟨g', hg', ?_, ?_⟩
  · have hfil : (graphOf sf).nodes.filter (· != 0) = sf.idxs := by
      have : sf.idxs.filter (· != 0) = sf.idxs :=
        List.filter_eq_self.2 fun a ha => by
          have : a ≠ 0 := fun h => hs0 (h ▸ ha)
          simpa using this
      simp [this]
    rw [hnodes, hfil]
    split
    · simp only [graphOf_nodes, idxs_append, idxs_mapIdx, List.cons_append]
      exact List.Perm.cons _ List.perm_append_comm
    · rename_i hp0
      simp only [graphOf_nodes, List.cons_append]
      have := idxs_graftAt (mapIdx ρ sf) hn (hp.resolve_left hp0)
      rw [idxs_mapIdx] at this
      exact List.Perm.cons _ this.symm
  · have hsplit := edgesOf_mapIdx_split ρ sf 0 p hs0
    rw [hedges, List.append_assoc]
    refine (hsplit.symm.append_left _).trans ?_
    split
    · rename_i hp0
      subst hp0
      simp only [graphOf_edges, edgesOf_append]
      exact List.perm_append_comm
    · rename_i hp0
      exact (edgesOf_graftAt (mapIdx ρ sf) f 0 hn (hp.resolve_left hp0)).symm

/-- **the structural `add_subtree` of the store model** (`Store.addSubtree` grafts
`(Store.reindex sub.forest s.fresh).1`; `c = s.fresh = 1 + maxIdx` satisfies `hc` by `SF.le_maxIdx`):
the graph operation with the indices the structural operation chose gives the graph of its result -/
theorem graph_addSubtree_struct {f sf : SF} {p c : Nat} (hn : f.idxs.Nodup) (h0 : 0 ∉ f.idxs)
    (hsn : sf.idxs.Nodup) (hs0 : 0 ∉ sf.idxs) (hp : p = 0 ∨ p ∈ f.idxs) (hc : ∀ a ∈ f.idxs, a < c)
    (hc0 : 0 < c) :
    ∃ g', gAddSubtree (graphOf f) (graphOf sf) p (reindexMap sf c) = some g' ∧
      g'.nodes.Perm (graphOf (if p = 0 then (Store.reindex sf c).1.append f
        else SF.graftAt p (Store.reindex sf c).1 f)).nodes ∧
      g'.edges.Perm (graphOf (if p = 0 then (Store.reindex sf c).1.append f
        else SF.graftAt p (Store.reindex sf c).1 f)).edges := by
  rw [reindex_eq_mapIdx c hsn]
  refine graph_graft hn h0 hsn hs0 hp (nodup_map_reindexMap c hsn hs0) fun a _ hmem => ?_
  have := le_reindexMap sf c a
  rcases List.mem_cons.1 hmem with h | h
  · omega
  · have := hc _ h
    omega

/-- `c = 1 + maxIdx` (`Store.fresh`) is above every index of the forest -/
theorem lt_fresh {f : SF} : ∀ a ∈ f.idxs, a < 1 + f.maxIdx := fun a ha => by
  obtain ⟨n, hn, rfl⟩ := mem_idxs.1 ha
  have := le_maxIdx hn
  omega

/-! ### non-vacuity -/

private def nr (i : Nat) : NodeRec := { idx := i, name := i, dps := [i], p := [], r := [] }
/-- host: 1 → 2 → 4, and 3 under the root -/
private def hostF : SF := .cons (nr 1) (.cons (nr 2) (.cons (nr 4) .nil .nil) .nil) (.cons (nr 3) .nil .nil)
/-- subtree to add: 1 → {2, 3}, and 5 under its dummy root -/
private def subF : SF := .cons (nr 1) (.cons (nr 2) .nil (.cons (nr 3) .nil .nil)) (.cons (nr 5) .nil .nil)

/-- the hypotheses of `graph_addSubtree_struct` hold for `c = Store.fresh = 5`, parent the virtual root
and parent clone 2, and the graph operation evaluates to the graph of the structural result up to order -/
example :
    hostF.idxs.Nodup ∧ 0 ∉ hostF.idxs ∧ subF.idxs.Nodup ∧ 0 ∉ subF.idxs ∧ 2 ∈ hostF.idxs ∧
    1 + hostF.maxIdx = 5 ∧ (∀ a ∈ hostF.idxs, a < 5) ∧
    (0 :: subF.idxs).map (reindexMap subF 5) = [9, 5, 6, 7, 8] ∧
    (Store.reindex subF 5).1.idxs = subF.idxs.map (reindexMap subF 5) ∧
    -- parent = the virtual root
    gAddSubtree (graphOf hostF) (graphOf subF) 0 (reindexMap subF 5) =
      some { nodes := [0, 1, 2, 4, 3, 5, 6, 7, 8],
             edges := [(0, 1), (1, 2), (2, 4), (0, 3), (5, 6), (5, 7), (0, 5), (0, 8)] } ∧
    graphOf ((Store.reindex subF 5).1.append hostF) =
      { nodes := [0, 5, 6, 7, 8, 1, 2, 4, 3],
        edges := [(0, 5), (5, 6), (5, 7), (0, 8), (0, 1), (1, 2), (2, 4), (0, 3)] } ∧
    -- parent = clone 2
    gAddSubtree (graphOf hostF) (graphOf subF) 2 (reindexMap subF 5) =
      some { nodes := [0, 1, 2, 4, 3, 5, 6, 7, 8],
             edges := [(0, 1), (1, 2), (2, 4), (0, 3), (5, 6), (5, 7), (2, 5), (2, 8)] } ∧
    graphOf (SF.graftAt 2 (Store.reindex subF 5).1 hostF) =
      { nodes := [0, 1, 2, 5, 6, 7, 8, 4, 3],
        edges := [(0, 1), (1, 2), (2, 5), (5, 6), (5, 7), (2, 8), (2, 4), (0, 3)] } := by
  decide +kernel

end PhyModel.Graph
