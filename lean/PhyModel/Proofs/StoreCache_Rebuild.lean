import PhyModel.Proofs.StoreCache_Gen
import PhyModel.Proofs.LikProofs
/-! C06, `rebuild_eq`: under the cache invariant every cached vector is the value of the
from-scratch recursion of `Model/Tree.lean` (`nodeP`, `nodeR`, `rootR`) on the forest with the same
shape and assignment, and both joint densities read from the cache equal `Density.pOne` /
`Density.pMarg` of that forest. -/
namespace PhyModel.Store.C06
open PhyModel

theorem getD_map_range {α} (S : Nat) (f : Nat → α) (d : α) (s : Nat) (hs : s < S) :
    ((List.range S).map f).getD s d = f s := by
  simp [List.getD_eq_getElem?_getD, hs]

theorem recompR_getD (dt : Data) (n : NodeRec) (k : SF) (s : Nat) (hs : s < dt.S) :
    (recompR dt n k).getD s [] = pmul dt.G (n.p.getD s []) (prefixSum dt.G (Dc dt.G s k)) := by
  unfold recompR; rw [getD_map_range _ _ _ _ hs]

/-- every (clone, children) pair of a forest -/
def _root_.PhyModel.Store.SF.nodesK : SF → List (NodeRec × SF)
  | .nil => []
  | .cons n k s => (n, k) :: (nodesK k ++ nodesK s)

/-- the convolution of the cached `r` vectors is the `D` recursion on the rebuilt likelihood forest -/
theorem Dc_eq_D (dt : Data) (sm : Nat) (hs : sm < dt.S) :
    ∀ f, CacheOKsf dt f → Dc dt.G sm f = D dt.G (toLik dt sm f.toDF)
  | .nil, _ => rfl
  | .cons n k s, ⟨hp, hr, hk, hsb⟩ => by
    simp only [Dc, SF.toDF, toLik, D]
    rw [hr, recompR_getD dt n k sm hs, hp, getD_map_range _ _ _ _ hs, Dc_eq_D dt sm hs k hk,
      Dc_eq_D dt sm hs s hsb]

/-- a clone's cached vectors are the from-scratch `nodeP` / `nodeR` -/
theorem node_rebuild (dt : Data) :
    ∀ f, CacheOKsf dt f → ∀ x ∈ f.nodesK,
      x.1.p = (List.range dt.S).map (fun sm => nodeP dt sm x.1.dps) ∧
      x.1.r = (List.range dt.S).map (fun sm => nodeR dt sm x.1.dps x.2.toDF)
  | .nil, _, x, hx => by simp [SF.nodesK] at hx
  | .cons n k s, ⟨hp, hr, hk, hsb⟩, x, hx => by
    simp only [SF.nodesK, List.mem_cons, List.mem_append] at hx
    rcases hx with rfl | hx | hx
    · refine ⟨hp, ?_⟩
      rw [hr]
      unfold recompR
      apply List.map_congr_left
      intro sm hsm
      have hs := List.mem_range.1 hsm
      show pmul dt.G (n.p.getD sm []) (prefixSum dt.G (Dc dt.G sm k)) = nodeR dt sm n.dps k.toDF
      rw [hp, getD_map_range _ _ _ _ hs, Dc_eq_D dt sm hs k hk]
      rfl
    · exact node_rebuild dt k hk x hx
    · exact node_rebuild dt s hsb x hx

theorem pmul_priorVec (dt : Data) (a : Vec) :
    pmul dt.G (priorVec dt) (prefixSum dt.G a) = (prefixSum dt.G a).map fun x => dt.prior * x := by
  unfold pmul prefixSum priorVec
  rw [List.map_map]
  apply List.map_congr_left
  intro k hk
  have hk' := List.mem_range.1 hk
  rw [getQ_map_range _ _ _ hk', getQ_map_range _ _ _ hk']
  rfl

/-- the virtual root's recomputed vector is the from-scratch `rootR` -/
theorem recompRoot_rebuild (dt : Data) (f : SF) (h : CacheOKsf dt f) :
    recompRoot dt f = (List.range dt.S).map fun sm => rootR dt sm f.toDF := by
  unfold recompRoot
  apply List.map_congr_left
  intro sm hsm
  rw [pmul_priorVec, Dc_eq_D dt sm (List.mem_range.1 hsm) f h]
  rfl

theorem root_rebuild (dt : Data) (s : Store) (h : CacheOK dt s) (hne : s.forest.isNil = false) :
    s.rootR = (List.range dt.S).map fun sm => rootR dt sm s.forest.toDF := by
  rw [h.2 hne, recompRoot_rebuild dt _ h.1]

theorem isNil_iff_numRoots (f : SF) : f.isNil = true ↔ f.toDF.numRoots = 0 := by
  cases f <;> simp [SF.isNil, SF.toDF, Orders.Forest.numRoots]

theorem dataOneC_eq (dt : Data) (s : Store) (h : CacheOK dt s) :
    Store.dataOneC dt s = Density.dataOne dt s.forest.toDF := by
  unfold Store.dataOneC Density.dataOne
  by_cases hn : s.forest.isNil = true
  · rw [if_pos hn, if_pos ((isNil_iff_numRoots _).1 hn)]
  · rw [if_neg hn, if_neg (fun e => hn ((isNil_iff_numRoots _).2 e))]
    congr 1
    apply List.map_congr_left
    intro k hk
    rw [root_rebuild dt s h (by simpa using hn), getD_map_range _ _ _ _ (List.mem_range.1 hk)]

theorem dataMargC_eq (dt : Data) (s : Store) (h : CacheOK dt s) :
    Store.dataMargC dt s = Density.dataMarg dt s.forest.toDF := by
  unfold Store.dataMargC Density.dataMarg
  by_cases hn : s.forest.isNil = true
  · rw [if_pos hn, if_pos ((isNil_iff_numRoots _).1 hn)]
  · rw [if_neg hn, if_neg (fun e => hn ((isNil_iff_numRoots _).2 e))]
    congr 1
    apply List.map_congr_left
    intro k hk
    rw [root_rebuild dt s h (by simpa using hn), getD_map_range _ _ _ _ (List.mem_range.1 hk)]

theorem pOneC_eq (dt : Data) (α : Rat) (s : Store) (h : CacheOK dt s) :
    Store.pOneC dt α s = Density.pOne dt α s.forest.toDF s.outliers := by
  unfold Store.pOneC Density.pOne; rw [dataOneC_eq dt s h]

theorem pMargC_eq (dt : Data) (α : Rat) (s : Store) (h : CacheOK dt s) :
    Store.pMargC dt α s = Density.pMarg dt α s.forest.toDF s.outliers := by
  unfold Store.pMargC Density.pMarg; rw [dataMargC_eq dt s h]

end PhyModel.Store.C06
