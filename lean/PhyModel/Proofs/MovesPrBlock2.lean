import PhyModel.Proofs.MovesPrBlock1
/-! Clones of a canonical forest are canonical; a forest is (equivalent to) one of the re-attachments
of any of its subtrees to the forest pruned of it. -/
namespace PhyModel
open Orders Orders.Forest PhyModel.Moves

namespace Canon

theorem nodesOf_ofRoots (l : List (List Nat × DF)) :
    nodesOf (ofRoots l) = l.flatMap fun r => r :: nodesOf r.2 := by
  induction l with
  | nil => rfl
  | cons r l ih =>
    obtain ⟨d, k⟩ := r
    simp only [ofRoots, nodesOf, ih, List.flatMap_cons, List.cons_append]

theorem mem_nodesOf_canon_cons {d : List Nat} {k s : DF} {nd : List Nat × DF} :
    nd ∈ nodesOf (canon (.cons d k s)) ↔
      nd = (sortNat d, canon k) ∨ nd ∈ nodesOf (canon k) ∨ nd ∈ nodesOf (canon s) := by
  simp only [canon, nodesOf_ofRoots]
  rw [((insertSorted_perm _ _).flatMap_right _).mem_iff, List.flatMap_cons, ← nodesOf_ofRoots,
    ofRoots_roots]
  simp only [List.cons_append, List.mem_cons, List.mem_append]

/-- the clones of a forest appear, canonicalised, in its canonical form -/
theorem canon_nodes {f : DF} {nd : List Nat × DF} (h : nd ∈ nodesOf f) :
    (sortNat nd.1, canon nd.2) ∈ nodesOf (canon f) := by
  induction f with
  | nil => simp [nodesOf] at h
  | cons d k s ihk ihs =>
    rw [mem_nodesOf_canon_cons]
    rcases mem_nodesOf_cons.mp h with rfl | hk | hs
    · exact Or.inl rfl
    · exact Or.inr (Or.inl (ihk hk))
    · exact Or.inr (Or.inr (ihs hs))

/-- the clones of a canonical forest are canonical -/
theorem canon_node_fixed {f : DF} (w : WF f) :
    ∀ nd ∈ nodesOf (canon f), sortNat nd.1 = nd.1 ∧ canon nd.2 = nd.2 := by
  induction f with
  | nil => intro nd h; simp [canon, nodesOf] at h
  | cons d k s ihk ihs =>
    intro nd h
    rcases mem_nodesOf_canon_cons.mp h with rfl | hk | hs
    · exact ⟨sortNat_idem d, canon_idem w.kids⟩
    · exact ihk w.kids nd hk
    · exact ihs w.sibs nd hs

/-- the clade of a clone lies inside the forest -/
theorem node_clade_sub {f : DF} {nd : List Nat × DF} (h : nd ∈ nodesOf f) :
    ∀ a ∈ nd.2.all ++ nd.1, a ∈ f.all := by
  induction f with
  | nil => simp [nodesOf] at h
  | cons d k s ihk ihs =>
    intro a ha
    simp only [Forest.all, List.mem_append]
    rcases mem_nodesOf_cons.mp h with rfl | hk | hs
    · exact Or.inl (List.mem_append.mp ha)
    · exact Or.inl (Or.inl (ihk hk a ha))
    · exact Or.inr (ihs hs a ha)

/-- a forest is equivalent to the re-attachment of any of its subtrees, at the top level or under a
clone of the pruned forest -/
theorem prune_eqv {f : DF} (w : WF f) {sd : List Nat} {sk : DF} (hsub : (sd, sk) ∈ nodesOf f)
    {key : Nat} (hk : key ∈ sd) :
    Eqv f (.cons sd sk (removeSub key f)) ∨
      ∃ a ∈ (removeSub key f).all, Eqv f (attachUnder a sd sk (removeSub key f)) := by
  induction f with
  | nil => simp [nodesOf] at hsub
  | cons d k s ihk ihs =>
    have hn := w.nodup
    simp only [Forest.all] at hn
    obtain ⟨hkd, _, hdisj2⟩ := List.nodup_append.mp hn
    obtain ⟨_, _, hdisj1⟩ := List.nodup_append.mp hkd
    have hself : (d, k) ∈ nodesOf (Orders.Forest.cons d k s) := mem_nodesOf_cons.mpr (Or.inl rfl)
    by_cases hkd' : key ∈ d
    · -- the subtree is this root
      have e : (sd, sk) = (d, k) := node_unique w hsub hself hk hkd'
      obtain ⟨rfl, rfl⟩ := Prod.mk.inj e
      have hks : key ∉ s.all := fun h => hdisj2 key (List.mem_append_right _ hkd') key h rfl
      left
      simp only [removeSub, List.contains_iff_mem.mpr hkd', if_true, removeSub_of_not_mem hks]
      exact Eqv.refl _
    · have hne : (sd, sk) ≠ (d, k) := fun e => hkd' ((Prod.mk.inj e).1 ▸ hk)
      obtain ⟨a₀, ha₀⟩ := List.exists_mem_of_ne_nil _ w.ne.1
      simp only [removeSub, not_contains_of_not_mem hkd', Bool.false_eq_true, if_false]
      rcases mem_nodesOf_cons.mp hsub with e | hink | hins
      · exact absurd e hne
      · -- inside the children
        have hkk : key ∈ k.all := node_clade_sub hink key (List.mem_append_right _ hk)
        have hks : key ∉ s.all := fun h => hdisj2 key (List.mem_append_left _ hkk) key h rfl
        rw [removeSub_of_not_mem hks]
        right
        rcases ihk w.kids hink with h | ⟨a, ha, h⟩
        · refine ⟨a₀, by simp only [Forest.all, List.mem_append]; exact Or.inl (Or.inr ha₀), ?_⟩
          have has : a₀ ∉ s.all := fun h => hdisj2 a₀ (List.mem_append_right _ ha₀) a₀ h rfl
          simp only [attachUnder, List.contains_iff_mem.mpr ha₀, if_true, attachUnder_of_not_mem sd sk has]
          exact .cons (List.Perm.refl _) h (Eqv.refl _)
        · have hak : a ∈ k.all := (removeSub_all_sublist key k).subset ha
          have had : a ∉ d := fun h => hdisj1 a hak a h rfl
          have has : a ∉ s.all := fun h => hdisj2 a (List.mem_append_left _ hak) a h rfl
          refine ⟨a, by simp only [Forest.all, List.mem_append]; exact Or.inl (Or.inl ha), ?_⟩
          simp only [attachUnder, not_contains_of_not_mem had, Bool.false_eq_true, if_false,
            attachUnder_of_not_mem sd sk has]
          exact .cons (List.Perm.refl _) h (Eqv.refl _)
      · -- inside the later siblings
        have hks : key ∈ s.all := node_clade_sub hins key (List.mem_append_right _ hk)
        have hkk : key ∉ k.all := fun h => hdisj2 key (List.mem_append_left _ h) key hks rfl
        rw [removeSub_of_not_mem hkk]
        rcases ihs w.sibs hins with h | ⟨a, ha, h⟩
        · left
          exact .trans (.cons (List.Perm.refl _) (Eqv.refl _) h) (.swap _ _ _ _ _)
        · right
          have has : a ∈ s.all := (removeSub_all_sublist key s).subset ha
          have had : a ∉ d := fun h => hdisj2 a (List.mem_append_right _ h) a has rfl
          have hak : a ∉ k.all := fun h => hdisj2 a (List.mem_append_left _ h) a has rfl
          refine ⟨a, by simp only [Forest.all, List.mem_append]; exact Or.inr ha, ?_⟩
          simp only [attachUnder, not_contains_of_not_mem had, Bool.false_eq_true, if_false,
            attachUnder_of_not_mem sd sk hak]
          exact .cons (List.Perm.refl _) (Eqv.refl _) h

end Canon
end PhyModel
