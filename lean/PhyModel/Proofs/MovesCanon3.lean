import PhyModel.Proofs.MovesCanon2
/-! The move operations (`removeDp`, `addDpAt`, `removeSub`, `attachUnder`) respect forest
equivalence; facts about the clone list `nodesOf` of a well-formed forest. -/
namespace PhyModel
open Orders Orders.Forest Moves

namespace Canon

/-! ### operations respect equivalence -/

theorem removeDp_eqv (i : Nat) {f g : DF} (h : Eqv f g) : Eqv (removeDp i f) (removeDp i g) := by
  induction h with
  | nil => exact .nil
  | cons hd _ _ ihk ihs => exact .cons (hd.filter _) ihk ihs
  | swap d₁ k₁ d₂ k₂ s => exact .swap _ _ _ _ _
  | trans _ _ ih₁ ih₂ => exact .trans ih₁ ih₂

theorem addDpAt_eqv (key i : Nat) {f g : DF} (h : Eqv f g) : Eqv (addDpAt key i f) (addDpAt key i g) := by
  induction h with
  | nil => exact .nil
  | cons hd _ _ ihk ihs =>
    simp only [addDpAt]
    rw [hd.contains_eq]
    refine .cons ?_ ihk ihs
    split
    · exact hd.append_right _
    · exact hd
  | swap d₁ k₁ d₂ k₂ s => exact .swap _ _ _ _ _
  | trans _ _ ih₁ ih₂ => exact .trans ih₁ ih₂

theorem removeSub_eqv (key : Nat) {f g : DF} (h : Eqv f g) : Eqv (removeSub key f) (removeSub key g) := by
  induction h with
  | nil => exact .nil
  | cons hd _ _ ihk ihs =>
    simp only [removeSub]
    rw [hd.contains_eq]
    split
    · exact ihs
    · exact .cons hd ihk ihs
  | swap d₁ k₁ d₂ k₂ s =>
    simp only [removeSub]
    by_cases h1 : d₁.contains key = true <;> by_cases h2 : d₂.contains key = true <;>
      simp only [h1, h2, if_true, if_false, Bool.false_eq_true]
    · exact Eqv.refl _
    · exact Eqv.refl _
    · exact Eqv.refl _
    · exact .swap _ _ _ _ _
  | trans _ _ ih₁ ih₂ => exact .trans ih₁ ih₂

theorem attachUnder_eqv (key : Nat) (sd : List Nat) (sk : DF) {f g : DF} (h : Eqv f g) :
    Eqv (attachUnder key sd sk f) (attachUnder key sd sk g) := by
  induction h with
  | nil => exact .nil
  | cons hd hk _ ihk ihs =>
    simp only [attachUnder]
    rw [hd.contains_eq]
    split
    · exact .cons hd (.cons (List.Perm.refl _) (Eqv.refl _) hk) ihs
    · exact .cons hd ihk ihs
  | swap d₁ k₁ d₂ k₂ s =>
    simp only [attachUnder]
    by_cases h1 : d₁.contains key = true <;> by_cases h2 : d₂.contains key = true <;>
      simp only [h1, h2, if_true, if_false, Bool.false_eq_true] <;> exact .swap _ _ _ _ _
  | trans _ _ ih₁ ih₂ => exact .trans ih₁ ih₂

theorem Eqv.nodes {f g : DF} (h : Eqv f g) : f.nodes = g.nodes := by
  induction h with
  | nil => rfl
  | cons _ _ _ ihk ihs => simp only [Forest.nodes, ihk, ihs]
  | swap d₁ k₁ d₂ k₂ s => simp only [Forest.nodes]; omega
  | trans _ _ ih₁ ih₂ => exact ih₁.trans ih₂

theorem length_nodesOf (f : DF) : (nodesOf f).length = f.nodes := by
  induction f with
  | nil => rfl
  | cons d k s ihk ihs => simp only [nodesOf, Forest.nodes, List.length_cons, List.length_append, ihk, ihs]; omega

/-! ### clones of a forest -/

theorem nodesOf_kids_sub {d : List Nat} {k s : DF} {nd : List Nat × DF} (h : nd ∈ nodesOf k) :
    nd ∈ nodesOf (.cons d k s) := by
  simp only [nodesOf]; exact List.mem_cons_of_mem _ (List.mem_append_left _ h)

theorem nodesOf_sibs_sub {d : List Nat} {k s : DF} {nd : List Nat × DF} (h : nd ∈ nodesOf s) :
    nd ∈ nodesOf (.cons d k s) := by
  simp only [nodesOf]; exact List.mem_cons_of_mem _ (List.mem_append_right _ h)

theorem mem_nodesOf_cons {d : List Nat} {k s : DF} {nd : List Nat × DF} :
    nd ∈ nodesOf (.cons d k s) ↔ nd = (d, k) ∨ nd ∈ nodesOf k ∨ nd ∈ nodesOf s := by
  simp only [nodesOf, List.mem_cons, List.mem_append]

/-- the data of a forest is the data of its clones -/
theorem all_perm_nodes (f : DF) : f.all.Perm ((nodesOf f).flatMap (·.1)) := by
  induction f with
  | nil => exact List.Perm.refl _
  | cons d k s ihk ihs =>
    simp only [Forest.all, nodesOf, List.flatMap_cons, List.flatMap_append]
    refine (List.Perm.append_right _ List.perm_append_comm).trans ?_
    rw [List.append_assoc]
    exact (List.Perm.refl d).append (ihk.append ihs)

theorem mem_all_iff {f : DF} {a : Nat} : a ∈ f.all ↔ ∃ nd ∈ nodesOf f, a ∈ nd.1 := by
  rw [(all_perm_nodes f).mem_iff, List.mem_flatMap]

theorem node_ne {f : DF} (h : NE f) : ∀ nd ∈ nodesOf f, nd.1 ≠ [] := by
  induction f with
  | nil => intro nd hnd; simp [nodesOf] at hnd
  | cons d k s ihk ihs =>
    intro nd hnd
    rcases mem_nodesOf_cons.mp hnd with rfl | hk | hs
    · exact h.1
    · exact ihk h.2.1 nd hk
    · exact ihs h.2.2 nd hs

/-- the clone data lists of a well-formed forest are pairwise disjoint -/
theorem nodes_pairwise {f : DF} (w : WF f) :
    (nodesOf f).Pairwise (fun a b => List.Disjoint a.1 b.1) := by
  have := (all_perm_nodes f).nodup_iff.mp w.nodup
  exact (List.nodup_flatMap.mp this).2

/-- a data point sits in exactly one clone -/
theorem node_unique {f : DF} (w : WF f) {nd₁ nd₂ : List Nat × DF} (h₁ : nd₁ ∈ nodesOf f)
    (h₂ : nd₂ ∈ nodesOf f) {a : Nat} (a₁ : a ∈ nd₁.1) (a₂ : a ∈ nd₂.1) : nd₁ = nd₂ := by
  by_contra hne
  have hsymm : Std.Symm (fun a b : List Nat × DF => List.Disjoint a.1 b.1) :=
    ⟨fun _ _ h => h.symm⟩
  exact (nodes_pairwise w).forall h₁ h₂ hne a₁ a₂

theorem nodesOf_nodup {f : DF} (w : WF f) : (nodesOf f).Nodup := by
  have hne := node_ne w.ne
  refine (nodes_pairwise w).imp_of_mem ?_
  intro a b ha _ hd e
  subst e
  obtain ⟨x, hx⟩ := List.exists_mem_of_ne_nil _ (hne a ha)
  exact hd hx hx

theorem headD_mem {l : List Nat} (h : l ≠ []) : l.headD 0 ∈ l := by
  cases l with
  | nil => exact absurd rfl h
  | cons a l => simp

/-- two keys in the same clone select the same clone everywhere -/
theorem same_node_iff {f : DF} (w : WF f) {nd₀ : List Nat × DF} (h₀ : nd₀ ∈ nodesOf f) {a b : Nat}
    (ha : a ∈ nd₀.1) (hb : b ∈ nd₀.1) : ∀ nd ∈ nodesOf f, a ∈ nd.1 ↔ b ∈ nd.1 := by
  intro nd hnd
  constructor
  · intro h; rw [node_unique w hnd h₀ h ha]; exact hb
  · intro h; rw [node_unique w hnd h₀ h hb]; exact ha

theorem addDpAt_congr_key {f : DF} {a b : Nat} (i : Nat) (h : ∀ nd ∈ nodesOf f, a ∈ nd.1 ↔ b ∈ nd.1) :
    addDpAt a i f = addDpAt b i f := by
  induction f with
  | nil => rfl
  | cons d k s ihk ihs =>
    simp only [addDpAt]
    have hd : d.contains a = d.contains b := by
      have := h (d, k) (mem_nodesOf_cons.mpr (Or.inl rfl))
      simp only [List.contains_eq_mem, this]
    rw [hd, ihk (fun nd hnd => h nd (nodesOf_kids_sub hnd)), ihs (fun nd hnd => h nd (nodesOf_sibs_sub hnd))]

theorem attachUnder_congr_key {f : DF} {a b : Nat} (sd : List Nat) (sk : DF)
    (h : ∀ nd ∈ nodesOf f, a ∈ nd.1 ↔ b ∈ nd.1) :
    attachUnder a sd sk f = attachUnder b sd sk f := by
  induction f with
  | nil => rfl
  | cons d k s ihk ihs =>
    simp only [attachUnder]
    have hd : d.contains a = d.contains b := by
      have := h (d, k) (mem_nodesOf_cons.mpr (Or.inl rfl))
      simp only [List.contains_eq_mem, this]
    rw [hd, ihk (fun nd hnd => h nd (nodesOf_kids_sub hnd)), ihs (fun nd hnd => h nd (nodesOf_sibs_sub hnd))]

/-! ### "in the same clone" -/

/-- some clone holds both `a` and `b` -/
def together (a b : Nat) : DF → Bool
  | .nil => false
  | .cons d k s => (d.contains a && d.contains b) || together a b k || together a b s

theorem together_eqv (a b : Nat) {f g : DF} (h : Eqv f g) : together a b f = together a b g := by
  induction h with
  | nil => rfl
  | cons hd _ _ ihk ihs => simp only [together, hd.contains_eq, ihk, ihs]
  | swap d₁ k₁ d₂ k₂ s =>
    simp only [together]
    cases (d₁.contains a && d₁.contains b) <;> cases together a b k₁ <;>
      cases (d₂.contains a && d₂.contains b) <;> cases together a b k₂ <;> simp
  | trans _ _ ih₁ ih₂ => exact ih₁.trans ih₂

theorem together_iff {a b : Nat} {f : DF} :
    together a b f = true ↔ ∃ nd ∈ nodesOf f, a ∈ nd.1 ∧ b ∈ nd.1 := by
  induction f with
  | nil => simp [together, nodesOf]
  | cons d k s ihk ihs =>
    simp only [together, Bool.or_eq_true, Bool.and_eq_true, List.contains_iff_mem, ihk, ihs]
    constructor
    · rintro ((⟨h1, h2⟩ | ⟨nd, hnd, h⟩) | ⟨nd, hnd, h⟩)
      · exact ⟨(d, k), mem_nodesOf_cons.mpr (Or.inl rfl), h1, h2⟩
      · exact ⟨nd, nodesOf_kids_sub hnd, h⟩
      · exact ⟨nd, nodesOf_sibs_sub hnd, h⟩
    · rintro ⟨nd, hnd, h⟩
      rcases mem_nodesOf_cons.mp hnd with rfl | hk | hs
      · exact Or.inl (Or.inl h)
      · exact Or.inl (Or.inr ⟨nd, hk, h⟩)
      · exact Or.inr ⟨nd, hs, h⟩

end Canon
end PhyModel
