import PhyModel.Proofs.GraphClosure
import Mathlib.Data.List.Range
import Mathlib.Data.List.Perm.Lattice
/-! `Tree.from_dict` on the graph model (`Model/Graph.lean`, `gFromDict`): `extend_from_edge_list` on the
one-node graph creates the indices `0 … max endpoint` and appends the edges in order
(`extendFromEdgeList_init`); when the dictionary describes a forest (`live` = the keys of
`node_idx_rev`, `edges` = the `graph` entry), the `remove_nodes_from` that follows leaves exactly the
live indices and every edge (`gFromDict_spec`), hence a forest again (`forest_fromDict`,
`forest_dictRT`). -/
namespace PhyModel.Graph
open DG

/-- the number of indices in use after `extend_from_edge_list(edges)` on a graph with `n` nodes
`0 … n-1`: one more than the largest endpoint, or `n` when that is larger -/
def extBound (edges : List (Nat × Nat)) (n : Nat) : Nat :=
  edges.foldl (fun n e => max n (max e.1 e.2 + 1)) n

theorem extBound_nil (n : Nat) : extBound [] n = n := rfl

theorem extBound_cons (e : Nat × Nat) (es : List (Nat × Nat)) (n : Nat) :
    extBound (e :: es) n = extBound es (max n (max e.1 e.2 + 1)) := rfl

theorem le_extBound (es : List (Nat × Nat)) : ∀ n, n ≤ extBound es n := by
  induction es with
  | nil => exact fun n => Nat.le_refl n
  | cons e es ih =>
    intro n
    rw [extBound_cons]
    exact Nat.le_trans (Nat.le_max_left _ _) (ih _)

/-- every endpoint is below the bound -/
theorem endpoint_lt_extBound (es : List (Nat × Nat)) :
    ∀ n, ∀ e ∈ es, e.1 < extBound es n ∧ e.2 < extBound es n := by
  induction es with
  | nil => intro n e he; cases he
  | cons a es ih =>
    intro n e he
    rw [extBound_cons]
    rcases List.mem_cons.1 he with rfl | he
    · have := le_extBound es (max n (max e.1 e.2 + 1))
      omega
    · exact ih _ e he

/-- the bound is tight: it is the start value or one more than some endpoint -/
theorem extBound_tight (es : List (Nat × Nat)) :
    ∀ n, extBound es n = n ∨ ∃ e ∈ es, extBound es n = max e.1 e.2 + 1 := by
  induction es with
  | nil => exact fun n => .inl rfl
  | cons a es ih =>
    intro n
    rw [extBound_cons]
    rcases ih (max n (max a.1 a.2 + 1)) with h | ⟨e, he, h⟩
    · rcases Nat.le_total n (max a.1 a.2 + 1) with hle | hle
      · exact .inr ⟨a, List.mem_cons_self, by rw [h]; omega⟩
      · exact .inl (by rw [h]; omega)
    · exact .inr ⟨e, List.mem_cons_of_mem _ he, h⟩

/-- one step of `extend_from_edge_list` on a graph without holes -/
private theorem range_step (n m : Nat) :
    (if m < n then List.range n else List.range n ++ List.range' n (m + 1 - n)) =
      List.range (max n (m + 1)) := by
  split
  · next h => rw [Nat.max_eq_left (by omega)]
  · next h =>
    rw [Nat.max_eq_right (by omega), List.range_eq_range', List.range_eq_range']
    have := List.range'_append_1 (s := 0) (m := n) (n := m + 1 - n)
    rw [Nat.zero_add] at this
    rw [this]
    congr 1
    omega

/-- `extend_from_edge_list` on a graph with the nodes `0 … n-1` -/
theorem extendFromEdgeList_range (es : List (Nat × Nat)) :
    ∀ (g : DG) (n : Nat), g.nodes = List.range n →
      (g.extendFromEdgeList es).edges = g.edges ++ es ∧
      (g.extendFromEdgeList es).nodes = List.range (extBound es n) := by
  induction es with
  | nil => intro g n h; simpa [extendFromEdgeList, extBound_nil] using h
  | cons e es ih =>
    intro g n h
    have hstep := ih
      { nodes := if max e.1 e.2 < g.nodes.length then g.nodes
                 else g.nodes ++ List.range' g.nodes.length (max e.1 e.2 + 1 - g.nodes.length),
        edges := g.edges ++ [e] } (max n (max e.1 e.2 + 1))
      (by simp only [h, List.length_range]; exact range_step n _)
    rw [extBound_cons]
    simpa [extendFromEdgeList, List.append_assoc] using hstep

/-- **`extend_from_edge_list` on the one-node graph**: the edges in order, the nodes `0 … N-1` where
`N = extBound edges 1` is at least 1, above every endpoint, and 1 or one more than an endpoint -/
theorem extendFromEdgeList_init (edges : List (Nat × Nat)) :
    (gInit.extendFromEdgeList edges).edges = edges ∧
    (gInit.extendFromEdgeList edges).nodes = List.range (extBound edges 1) := by
  have := extendFromEdgeList_range edges gInit 1 (by simp [gInit, List.range_succ])
  simpa [gInit] using this

/-- the same with the bound spelled out as a maximum -/
theorem extBound_eq_foldl_max (es : List (Nat × Nat)) :
    ∀ n, extBound es (n + 1) = 1 + (es.map fun e => max e.1 e.2).foldl max n := by
  induction es with
  | nil => intro n; simp [extBound_nil]; omega
  | cons e es ih =>
    intro n
    rw [extBound_cons, List.map_cons, List.foldl_cons, ← ih]
    congr 1
    omega

theorem extendFromEdgeList_init' (edges : List (Nat × Nat)) :
    (gInit.extendFromEdgeList edges).edges = edges ∧
    (gInit.extendFromEdgeList edges).nodes =
      List.range (1 + (edges.map fun e => max e.1 e.2).foldl max 0) := by
  rw [← extBound_eq_foldl_max]
  exact extendFromEdgeList_init edges

/-! ### the round trip -/

/-- a forest without edges is the one-node graph -/
theorem IsForest.nodes_of_edges_nil {g : DG} (hf : IsForest g) (he : g.edges = []) :
    g.nodes.Perm [0] := by
  refine (List.perm_ext_iff_of_nodup hf.nodes_nodup (by simp)).2 fun v => ?_
  constructor
  · intro hv
    rcases (hf.reach v hv).tail_cases with rfl | ⟨b, _, hb⟩
    · simp
    · rw [he] at hb; cases hb
  · intro hv
    have : v = 0 := by simpa using hv
    exact this ▸ hf.root_live

/-- a listed index is not among the indices `from_dict` removes -/
theorem not_removed {l live : List Nat} {v : Nat} (hv : v ∈ live) :
    (l.filter fun v => !live.contains v).contains v = false := by
  rw [Bool.eq_false_iff]
  intro h
  have := (List.mem_filter.1 (List.contains_iff_mem.1 h)).2
  simp [hv] at this

/-- the nodes `from_dict` keeps, for any `live`: the listed indices that exist after the extension -/
theorem mem_removeNodesFrom_filter {g : DG} {live : List Nat} {v : Nat} :
    v ∈ (g.removeNodesFrom (g.nodes.filter fun v => !live.contains v)).nodes ↔ v ∈ g.nodes ∧ v ∈ live := by
  simp only [removeNodesFrom, List.mem_filter]
  constructor
  · rintro ⟨h1, h2⟩
    refine ⟨h1, ?_⟩
    by_contra hv
    have : v ∈ g.nodes.filter fun v => !live.contains v := List.mem_filter.2 ⟨h1, by simpa using hv⟩
    rw [List.contains_iff_mem.2 this] at h2
    cases h2
  · exact fun ⟨h1, h2⟩ => ⟨h1, by rw [not_removed h2]; rfl⟩

/-- **`from_dict` of the dictionary of a forest**: the same live set, the same edge list -/
theorem gFromDict_spec {edges : List (Nat × Nat)} {live : List Nat}
    (hf : IsForest { nodes := live, edges := edges }) :
    (gFromDict edges live).nodes.Perm live ∧ (gFromDict edges live).edges = edges := by
  unfold gFromDict
  split
  · next he =>
    have he : edges = [] := List.isEmpty_iff.1 he
    exact ⟨(hf.nodes_of_edges_nil he).symm, he.symm⟩
  · obtain ⟨hE, hN⟩ := extendFromEdgeList_init edges
    have hlt : ∀ v ∈ live, v < extBound edges 1 := by
      intro v hv
      by_cases h0 : v = 0
      · have := le_extBound edges 1; omega
      · obtain ⟨p, hp⟩ := hf.exists_parent hv h0
        exact (endpoint_lt_extBound edges 1 _ hp).2
    constructor
    · refine (List.perm_ext_iff_of_nodup ?_ hf.nodes_nodup).2 fun v => ?_
      · simp only [removeNodesFrom, hN]
        exact List.nodup_range.filter _
      · rw [mem_removeNodesFrom_filter, hN, List.mem_range]
        exact ⟨fun h => h.2, fun h => ⟨hlt v h, h⟩⟩
    · simp only [removeNodesFrom, hE]
      refine List.filter_eq_self.2 fun e he => ?_
      have := hf.edges_live e he
      rw [not_removed this.1, not_removed this.2]; rfl

/-- **`from_dict` preserves the shape invariant** -/
theorem forest_fromDict {edges : List (Nat × Nat)} {live : List Nat}
    (hf : IsForest { nodes := live, edges := edges }) : IsForest (gFromDict edges live) := by
  obtain ⟨hn, he⟩ := gFromDict_spec hf
  exact hf.of_perm hn.symm (by rw [he])

/-- `to_dict` then `from_dict` of a forest is a forest on the same live set with the same edge list -/
theorem forest_dictRT {g : DG} (hf : IsForest g) : IsForest (gFromDict g.edges g.nodes) :=
  forest_fromDict (edges := g.edges) (live := g.nodes) hf

theorem dictRT_spec {g : DG} (hf : IsForest g) :
    (gFromDict g.edges g.nodes).nodes.Perm g.nodes ∧ (gFromDict g.edges g.nodes).edges = g.edges :=
  gFromDict_spec (edges := g.edges) (live := g.nodes) hf

/-- non-vacuity: a forest whose indices have holes (1, 3, 5, 6 are created and removed again) -/
example : IsForest { nodes := [0, 4, 7, 2], edges := [(0, 4), (4, 7), (4, 2)] } ∧
    gFromDict [(0, 4), (4, 7), (4, 2)] [0, 4, 7, 2] =
      { nodes := [0, 2, 4, 7], edges := [(0, 4), (4, 7), (4, 2)] } := by decide +kernel

end PhyModel.Graph
