import PhyModel.Proofs.MovesGibbs
/-! Invariance of kernels `X → Dist X` on a finite state list, in expectation form; closure under
composition, splitting of the state list, identity, and label-indexed uniform mixtures. -/
namespace PhyModel
open Dist Finset

namespace Gibbs
variable {X : Type}

/-- `μ` is invariant for `K` on the state list `S`, tested against every function `h` -/
def Inv (S : List X) (μ : X → ℚ) (K : X → Dist X) : Prop :=
  ∀ h : X → ℚ, lsum S (fun x => μ x * E (K x) h) = lsum S (fun x => μ x * h x)

theorem Inv.congr {S : List X} {μ : X → ℚ} {K K' : X → Dist X} (hK : Inv S μ K)
    (he : ∀ x ∈ S, ∀ h, E (K' x) h = E (K x) h) : Inv S μ K' := by
  intro h
  rw [← hK h]; apply lsum_congr; intro x hx; rw [he x hx h]

theorem Inv.of_list_eq {S S' : List X} {μ : X → ℚ} {K : X → Dist X} (e : S = S')
    (hK : Inv S' μ K) : Inv S μ K := e ▸ hK

theorem Inv.pure (S : List X) (μ : X → ℚ) : Inv S μ Dist.pure := by
  intro h; apply lsum_congr; intro x _; rw [E_pure]

/-- sequential composition -/
theorem Inv.comp {S : List X} {μ : X → ℚ} {K₁ K₂ : X → Dist X} (h₁ : Inv S μ K₁) (h₂ : Inv S μ K₂) :
    Inv S μ (fun x => Dist.bind (K₁ x) K₂) := by
  intro h
  simp only [E_bind]
  rw [h₁ (fun y => E (K₂ y) h), h₂ h]

/-- any finite sequence of invariant kernels, applied one after the other -/
def seqK : List (X → Dist X) → X → Dist X
  | [], x => Dist.pure x
  | K :: Ks, x => Dist.bind (K x) (seqK Ks)

theorem Inv.seq {S : List X} {μ : X → ℚ} (Ks : List (X → Dist X)) (h : ∀ K ∈ Ks, Inv S μ K) :
    Inv S μ (seqK Ks) := by
  induction Ks with
  | nil => exact Inv.pure S μ
  | cons K Ks ih =>
    exact Inv.comp (h K List.mem_cons_self) (ih fun K' hK' => h K' (List.mem_cons_of_mem _ hK'))

/-- target form: the mass flowing into `y` is the mass of `y` -/
theorem Inv.target [DecidableEq X] {S : List X} {μ : X → ℚ} {K : X → Dist X} (hK : Inv S μ K)
    (hS : S.Nodup) {y : X} (hy : y ∈ S) : lsum S (fun x => μ x * prob (K x) y) = μ y := by
  unfold prob
  rw [hK, lsum_eq_sum hS, Finset.sum_eq_single y]
  · simp
  · intro b _ hb; simp [hb]
  · intro hn; exact absurd (List.mem_toFinset.mpr hy) hn

theorem lsum_filter_add (S : List X) (p : X → Bool) (g : X → ℚ) :
    lsum S g = lsum (S.filter p) g + lsum (S.filter fun x => !p x) g := by
  induction S with
  | nil => simp [lsum]
  | cons a S ih =>
    rw [lsum_cons, ih]
    by_cases hp : p a = true
    · simp [hp, lsum_cons]; ring
    · simp only [Bool.not_eq_true] at hp
      simp [hp, lsum_cons]; ring

/-- a kernel that is invariant on both halves of a split of the state list is invariant -/
theorem Inv.split {S : List X} {μ : X → ℚ} {K : X → Dist X} (p : X → Bool)
    (h₁ : Inv (S.filter p) μ K) (h₂ : Inv (S.filter fun x => !p x) μ K) : Inv S μ K := by
  intro h
  rw [lsum_filter_add S p, lsum_filter_add S p (fun x => μ x * h x), h₁ h, h₂ h]

/-- a kernel that does nothing on `S` is invariant -/
theorem Inv.of_id {S : List X} {μ : X → ℚ} {K : X → Dist X}
    (he : ∀ x ∈ S, ∀ h, E (K x) h = h x) : Inv S μ K := by
  intro h; apply lsum_congr; intro x hx; rw [he x hx h]

theorem lsum_comm {α β : Type} (A : List α) (B : List β) (g : α → β → ℚ) :
    lsum A (fun a => lsum B (fun b => g a b)) = lsum B (fun b => lsum A (fun a => g a b)) := by
  induction A with
  | nil => simp [lsum_nil, lsum_zero]
  | cons a A ih => simp only [lsum_cons, ih, lsum_add]

theorem lsum_filter (S : List X) (p : X → Bool) (g : X → ℚ) :
    lsum (S.filter p) g = lsum S (fun x => if p x then g x else 0) := by
  induction S with
  | nil => simp [lsum]
  | cons a S ih =>
    by_cases hp : p a = true
    · simp [hp, lsum_cons, ih]
    · simp only [Bool.not_eq_true] at hp
      simp [hp, lsum_cons, ih]

theorem lsum_const {α : Type} (l : List α) (c : ℚ) : lsum l (fun _ => c) = (l.length : ℚ) * c := by
  induction l with
  | nil => simp [lsum_nil]
  | cons a l ih => rw [lsum_cons, ih, List.length_cons]; push_cast; ring

/-- uniform mixture over a finite family of invariant kernels (fixed index list) -/
theorem Inv.uniform_mix {S : List X} {μ : X → ℚ} {ι : Type} (I : List ι) (hI : I ≠ [])
    (K : ι → X → Dist X) (hK : ∀ i ∈ I, Inv S μ (K i)) :
    Inv S μ (fun x => Dist.bind (Dist.uniform I) fun i => K i x) := by
  intro h
  simp only [E_bind, E_uniform]
  have hlen : (I.length : ℚ) ≠ 0 := by
    have : I.length ≠ 0 := by simpa [List.length_eq_zero_iff] using hI
    exact_mod_cast this
  have e1 : lsum S (fun x => μ x * (1 / (I.length : ℚ) * lsum I fun i => E (K i x) h))
      = lsum S (fun x => lsum I fun i => 1 / (I.length : ℚ) * (μ x * E (K i x) h)) := by
    apply lsum_congr; intro x _
    rw [lsum_mul_left, lsum_mul_left]; ring
  rw [e1, lsum_comm,
    lsum_congr I (H := fun _ => 1 / (I.length : ℚ) * lsum S fun x => μ x * h x)
      (fun i hi => by rw [lsum_mul_left, hK i hi h]),
    lsum_const]
  field_simp

variable {L : Type} [DecidableEq L]

theorem lsum_indicator {l A : List L} (hl : l.Nodup) (hA : A.Nodup) (hsub : ∀ a ∈ l, a ∈ A)
    (g : L → ℚ) : lsum l g = lsum A (fun a => if a ∈ l then g a else 0) := by
  rw [lsum_eq_sum hl, lsum_eq_sum hA, ← Finset.sum_filter]
  apply Finset.sum_congr _ (fun _ _ => rfl)
  ext a; simp only [List.mem_toFinset, Finset.mem_filter]
  exact ⟨fun hh => ⟨hsub a hh, hh⟩, fun hh => hh.2⟩

/-- exchange a state sum with a state-dependent label sum -/
theorem lsum_label_swap (S : List X) (lab : X → List L) (hnd : ∀ x ∈ S, (lab x).Nodup)
    (e : X → L → ℚ) :
    lsum S (fun x => lsum (lab x) (fun ℓ => e x ℓ))
      = lsum (S.flatMap lab).dedup
          (fun ℓ => lsum (S.filter fun x => decide (ℓ ∈ lab x)) (fun x => e x ℓ)) := by
  have hA : (S.flatMap lab).dedup.Nodup := List.nodup_dedup _
  have hsubA : ∀ x ∈ S, ∀ ℓ ∈ lab x, ℓ ∈ (S.flatMap lab).dedup := by
    intro x hx ℓ hℓ
    exact List.mem_dedup.mpr (List.mem_flatMap.mpr ⟨x, hx, hℓ⟩)
  rw [lsum_congr S (fun x hx => lsum_indicator (hnd x hx) hA (hsubA x hx) (fun ℓ => e x ℓ)), lsum_comm]
  apply lsum_congr; intro ℓ _
  rw [lsum_filter]
  apply lsum_congr; intro x _
  by_cases hh : ℓ ∈ lab x <;> simp [hh]

/-- label-indexed uniform mixture: from state `x` pick a label uniformly from `lab x`, then apply
the kernel of that label.  If, for every label `ℓ`, the kernel of `ℓ` leaves `π x / |lab x|`
invariant on the states that carry `ℓ`, the mixture leaves `π` invariant. -/
theorem Inv.label_mix {S : List X} {π : X → ℚ} (lab : X → List L) (R : X → L → Dist X)
    (hnd : ∀ x ∈ S, (lab x).Nodup) (hne : ∀ x ∈ S, lab x ≠ [])
    (hR : ∀ ℓ, Inv (S.filter fun x => decide (ℓ ∈ lab x)) (fun x => π x / ((lab x).length : ℚ))
      (fun x => R x ℓ)) :
    Inv S π (fun x => Dist.bind (Dist.uniform (lab x)) (R x)) := by
  intro h
  simp only [E_bind, E_uniform]
  have e1 : lsum S (fun x => π x * (1 / ((lab x).length : ℚ) * lsum (lab x) fun ℓ => E (R x ℓ) h))
      = lsum S (fun x => lsum (lab x) fun ℓ => π x / ((lab x).length : ℚ) * E (R x ℓ) h) := by
    apply lsum_congr; intro x _
    rw [lsum_mul_left]; ring
  have e2 : lsum S (fun x => π x * h x)
      = lsum S (fun x => lsum (lab x) fun _ => π x / ((lab x).length : ℚ) * h x) := by
    apply lsum_congr; intro x hx
    have hlen : ((lab x).length : ℚ) ≠ 0 := by
      have : (lab x).length ≠ 0 := by simpa [List.length_eq_zero_iff] using hne x hx
      exact_mod_cast this
    rw [lsum_const]; field_simp
  rw [e1, e2, lsum_label_swap S lab hnd, lsum_label_swap S lab hnd]
  apply lsum_congr; intro ℓ _
  exact hR ℓ h

end Gibbs
end PhyModel
