import PhyModel.Proofs.ASMC6
/-! # Conditional SMC whose final selection uses corrected weights.

`ParticleGibbsSubtreeSampler` runs the conditional SMC on a subtree, targeting the subtree's own
density, and multiplies every particle weight by `h(x) = pOne(full tree with x grafted back) / pOne(x)`
(`_correct_weights`) before the final draw.  Abstractly: after the `T` steps of the sweep of `sp` the
weights `w_k` are replaced by `w_k · h(x_k)` (`corr`) and the selection is proportional to those
(`selH`).  `kernelH` is that kernel; `kernelRH` is the kernel with the code's single-data-point
schedule — resample if the rule fires **on the uncorrected weights** (slot 0 kept, all weights reset to
`u`), then correct, then select; `kernelXH` is "`kernelRH` if `T = 1`, else `kernelH`" (what
`SMC.csmc` followed by the corrected draw does).  All three leave `g T · h` invariant
(`csmc_corrected_invariant`, `csmc_corrected_invariant_final_resample`, `csmc_corrected_invariant_X`),
for every positive `h` on the support of `g T`; and `kernelH` is the plain kernel of the specification
whose last-level target is `g T · h` (`kernelH_eq_kernel_withH`, in `ASMC8`). -/

open Finset BigOperators

namespace ASMC

variable {X : Type} [Fintype X] [DecidableEq X] {m : ℕ}
variable {sp : Spec (m := m) X} {u : ℚ}

/-- the weight correction: every weight is multiplied by `h` of the particle's state -/
def corr (h : X → ℚ) (S : Sys X m) : Sys X m := fun i => ((S i).1, (S i).2 * h (S i).1)

theorem corr_perm (h : X → ℚ) (S : Sys X m) (σ : Equiv.Perm (Fin (m+1))) :
    corr h (S ∘ σ) = corr h S ∘ σ := rfl

/-- selection proportional to the corrected weights -/
def selH (h : X → ℚ) (S : Sys X m) (y : X) : ℚ := sel (corr h S) y

variable (sp) (u) in
/-- "resample if the rule of step `T` fires" in front of a final functional `f` -/
def finR (T : ℕ) (f : Sys X m → ℚ) (S : Sys X m) : ℚ :=
  if sp.rs T (wts S) then resC u S f else f S

variable (sp) (u) in
/-- the law of the final particle system under the schedule of `AbstractSMCSampler.sample`, as a
functional: with a single step the swarm is resampled (if the rule fires) after the step -/
def CX (T : ℕ) (x : X) (f : Sys X m → ℚ) : ℚ :=
  if T = 1 then C sp u T x (finR sp u T f) else C sp u T x f

theorem kernelX_eq_CX (T : ℕ) (x y : X) : kernelX sp u T x y = CX sp u T x (fun S => sel S y) := rfl

variable (sp) (u) in
/-- conditional SMC, final draw proportional to the corrected weights -/
def kernelH (h : X → ℚ) (T : ℕ) (x y : X) : ℚ := C sp u T x (fun S => selH h S y)

variable (sp) (u) in
/-- conditional SMC; resample if the rule fires on the uncorrected weights; correct; draw -/
def kernelRH (h : X → ℚ) (T : ℕ) (x y : X) : ℚ := C sp u T x (finR sp u T (fun S => selH h S y))

variable (sp) (u) in
/-- the code's schedule -/
def kernelXH (h : X → ℚ) (T : ℕ) (x y : X) : ℚ := CX sp u T x (fun S => selH h S y)

theorem kernelXH_eq (h : X → ℚ) (T : ℕ) (x y : X) :
    kernelXH sp u h T x y = if T = 1 then kernelRH sp u h T x y else kernelH sp u h T x y := rfl

theorem corr_good {t : ℕ} {h : X → ℚ} (hh : ∀ x, 0 < sp.g t x → 0 < h x) {S : Sys X m}
    (hS : GoodW sp t S) : GoodW sp t (corr h S) :=
  fun i => ⟨mul_pos (hS i).1 (hh _ (hS i).2), (hS i).2⟩

/-- marginal of one coordinate of a product of normalised weights -/
theorem marg_one {n : ℕ} (w : Fin (m+1) → ℚ) (hw : ∑ k, w k = 1) (i : Fin n) (φ : Fin (m+1) → ℚ) :
    ∑ a : Fin n → Fin (m+1), (∏ j, w (a j)) * φ (a i) = ∑ k, w k * φ k := by
  have h := (Finset.prod_univ_sum (fun (_ : Fin n) => (Finset.univ : Finset (Fin (m+1))))
    (fun j k => w k * (if j = i then φ k else 1))).symm
  rw [Fintype.piFinset_univ] at h
  have hl : ∀ a : Fin n → Fin (m+1),
      ∏ j, (w (a j) * (if j = i then φ (a j) else 1)) = (∏ j, w (a j)) * φ (a i) := by
    intro a
    rw [Finset.prod_mul_distrib]
    congr 1
    rw [Finset.prod_ite_eq']
    simp
  simp only [hl] at h
  rw [h, Finset.prod_eq_single i]
  · simp only [if_true]
  · intro j _ hj
    simp only [if_neg hj, mul_one]
    exact hw
  · intro h'; exact absurd (mem_univ _) h'

/-- `PhiM` of a good-system identity -/
theorem PhiM_wbar0 {T : ℕ} (hv : ValidTo sp T) (hu : 0 < u) (f : Sys X m → ℚ) :
    PhiM sp u T (fun S => f S * wbar S 0) = M sp u T f := by
  unfold PhiM
  apply M_congr hv hu T (le_refl T)
  intro S hS
  have hw : (S 0).2 ≠ 0 := ne_of_gt (hS 0).1
  have htot : tot S ≠ 0 := ne_of_gt (tot_pos hS)
  unfold wbar; field_simp

/-- **exchangeability, used with corrected weights**: under the level-`T` law weighted by a
slot-symmetric factor `c` and by `h` of the retained state, the selection proportional to the corrected
weights may be replaced by "look at slot 0" -/
theorem M_selH_symm {T : ℕ} (hv : ValidTo sp T) (hu : 0 < u) {h : X → ℚ}
    (hh : ∀ x, 0 < sp.g T x → 0 < h x) (c : Sys X m → ℚ)
    (hc : ∀ (σ : Equiv.Perm (Fin (m+1))) S, c (S ∘ σ) = c S) (y : X) :
    M sp u T (fun S => c S * (h (S 0).1 * selH h S y))
      = M sp u T (fun S => c S * (h y * ind0 y S)) := by
  have hlin := PhiM_lin (sp := sp) (u := u) T
  have hex := PhiM_exch (sp := sp) (u := u) hv hu T (le_refl T)
  rw [← PhiM_wbar0 hv hu, ← PhiM_wbar0 hv hu]
  -- split the selection into its slots
  have hsum : (fun S : Sys X m => c S * (h (S 0).1 * selH h S y) * wbar S 0)
      = fun S => ∑ k, c S * (h (S 0).1 * (wbar (corr h S) k * (if (S k).1 = y then 1 else 0))) * wbar S 0 := by
    funext S
    unfold selH sel
    rw [Finset.mul_sum, Finset.mul_sum, Finset.sum_mul]
    rfl
  rw [hsum, hlin.sum]
  -- swap slot k and slot 0 in the k-th summand
  have hk : ∀ k : Fin (m+1),
      PhiM sp u T (fun S => c S * (h (S 0).1 * (wbar (corr h S) k * (if (S k).1 = y then 1 else 0))) * wbar S 0)
      = PhiM sp u T (fun S => c S * (h (S k).1 * (wbar (corr h S) 0 * (if (S 0).1 = y then 1 else 0))) * wbar S k) := by
    intro k
    have := hex (Equiv.swap 0 k)
      (fun S => c S * (h (S k).1 * (wbar (corr h S) 0 * (if (S 0).1 = y then 1 else 0))) * wbar S k)
    rw [← this]
    congr 1; funext S
    simp only [hc, corr_perm, wbar_perm, Function.comp, Equiv.swap_apply_left, Equiv.swap_apply_right]
  simp only [hk]
  rw [← hlin.sum]
  apply PhiM_congr hv hu T (le_refl T)
  intro S hS
  have hSc := corr_good hh hS
  have htot : tot S ≠ 0 := ne_of_gt (tot_pos hS)
  have htotH : tot (corr h S) ≠ 0 := ne_of_gt (tot_pos hSc)
  have key : ∑ k, h (S k).1 * wbar S k = tot (corr h S) / tot S := by
    unfold wbar tot corr
    rw [Finset.sum_div]
    apply Finset.sum_congr rfl; intro k _; ring
  have hre : ∀ k : Fin (m+1),
      c S * (h (S k).1 * (wbar (corr h S) 0 * (if (S 0).1 = y then 1 else 0))) * wbar S k
        = c S * (wbar (corr h S) 0 * (if (S 0).1 = y then 1 else 0)) * (h (S k).1 * wbar S k) := by
    intro k; ring
  simp only [hre]
  rw [← Finset.mul_sum, key]
  unfold ind0
  by_cases hy : (S 0).1 = y
  · simp only [hy, if_true]
    have : wbar (corr h S) 0 = (S 0).2 * h y / tot (corr h S) := by
      unfold wbar corr; simp only [hy]
    rw [this]
    unfold wbar
    field_simp
  · simp only [hy, if_false]; ring

/-- the same for the swarm resampled on the uncorrected weights and corrected afterwards -/
theorem M_resH_symm {T : ℕ} (hv : ValidTo sp T) (hu : 0 < u) {h : X → ℚ}
    (hh : ∀ x, 0 < sp.g T x → 0 < h x) (c : Sys X m → ℚ)
    (hc : ∀ (σ : Equiv.Perm (Fin (m+1))) S, c (S ∘ σ) = c S) (y : X) :
    M sp u T (fun S => c S * (h (S 0).1 * resC u S (fun S' => selH h S' y)))
      = M sp u T (fun S => c S * (h y * ind0 y S)) := by
  have hlin := PhiM_lin (sp := sp) (u := u) T
  have hex := PhiM_exch (sp := sp) (u := u) hv hu T (le_refl T)
  have hm : ((m : ℚ) + 1) ≠ 0 := by positivity
  have hu' : u ≠ 0 := ne_of_gt hu
  -- the summands of the corrected selection, with slot `k` and slot 0 exchanged
  let g : Fin (m+1) → Sys X m → ℚ :=
    fun k S' => h (S' k).1 * (wbar (corr h S') 0 * (if (S' 0).1 = y then 1 else 0))
  let f : Sys X m → ℚ := fun S' => ∑ k, g k (S' ∘ Equiv.swap 0 k)
  have hf : ∀ S' : Sys X m, h (S' 0).1 * selH h S' y = f S' := by
    intro S'
    unfold selH sel
    rw [Finset.mul_sum]
    apply Finset.sum_congr rfl
    intro k _
    simp only [g, corr_perm, wbar_perm, Function.comp, Equiv.swap_apply_left, Equiv.swap_apply_right]
    rfl
  -- step 1: `h` of the retained state goes inside the resampling (slot 0 is kept)
  have s1 : ∀ S : Sys X m, h (S 0).1 * resC u S (fun S' => selH h S' y) = resC u S f := by
    intro S
    unfold resC
    rw [Finset.mul_sum]
    apply Finset.sum_congr rfl
    intro a _
    rw [← hf]
    simp only [reset, Fin.cons_zero]
    ring
  simp only [s1]
  -- step 2: size-biased form
  have s2 : M sp u T (fun S => c S * resC u S f) = PhiM sp u T (fun S => c S * Gsum u f S 0) := by
    rw [← PhiM_wbar0 hv hu]
    congr 1; funext S
    rw [← resC_eq_Gsum]; ring
  -- step 3: the slot-0-constrained ancestor sum is 1/(m+1) of the symmetric one
  have s3 := resample_symm (PhiM sp u T) hlin hex c hc u f
  -- step 4: the symmetric ancestor sum of the corrected selection
  have s4 : ∀ S : Sys X m, GoodW sp T S →
      ∑ b : Fin (m+1) → Fin (m+1), Fterm u f S b = h y * sel S y := by
    intro S hS
    have e1 : ∑ b : Fin (m+1) → Fin (m+1), Fterm u f S b
        = ∑ k, ∑ b : Fin (m+1) → Fin (m+1), Fterm u (fun T => g k (T ∘ Equiv.swap 0 k)) S b := by
      rw [Finset.sum_comm]
      apply Finset.sum_congr rfl
      intro b _
      unfold Fterm
      rw [Finset.mul_sum]
    rw [e1]
    simp only [full_sum_perm]
    rw [Finset.sum_comm]
    have e2 : ∀ b : Fin (m+1) → Fin (m+1), ∑ k, Fterm u (g k) S b
        = (∏ j, wbar S (b j)) * (h y * (if (S (b 0)).1 = y then 1 else 0)) := by
      intro b
      unfold Fterm
      rw [← Finset.mul_sum]
      congr 1
      have hR : GoodW sp T (fun j => reset u (S (b j))) := reset_good hu hS b
      have hRc := corr_good hh hR
      have htot : tot (corr h (fun j => reset u (S (b j)))) ≠ 0 := ne_of_gt (tot_pos hRc)
      simp only [g]
      rw [← Finset.sum_mul]
      have ht : ∑ k, h ((fun j => reset u (S (b j))) k).1
          = tot (corr h (fun j => reset u (S (b j)))) / u := by
        unfold tot corr
        simp only [reset]
        rw [← Finset.mul_sum]
        field_simp
      rw [ht]
      by_cases hy : (S (b 0)).1 = y
      · have hw : wbar (corr h (fun j => reset u (S (b j)))) 0
            = u * h y / tot (corr h (fun j => reset u (S (b j)))) := by
          unfold wbar
          simp only [corr, reset, hy]
        rw [hw]
        simp only [reset, hy, if_true]
        have htot' : tot (corr h fun j => ((S (b j)).1, u)) ≠ 0 := htot
        field_simp
      · simp only [reset, hy, if_false]; ring
    simp only [e2]
    have hmarg := marg_one (n := m+1) (fun k => wbar S k) (wbar_sum hS) 0
      (fun k => h y * (if (S k).1 = y then 1 else 0))
    rw [hmarg]
    unfold sel
    rw [Finset.mul_sum]
    apply Finset.sum_congr rfl; intro k _; ring
  -- step 5: exchangeability once more, for the plain selection
  have s5 : PhiM sp u T (fun S => c S * (h y * sel S y))
      = ((m : ℚ) + 1) * M sp u T (fun S => c S * (h y * ind0 y S)) := by
    have hsum : (fun S : Sys X m => c S * (h y * sel S y))
        = fun S => ∑ k, c S * (h y * (wbar S k * (if (S k).1 = y then 1 else 0))) := by
      funext S; unfold sel; rw [Finset.mul_sum, Finset.mul_sum]
    rw [hsum, hlin.sum]
    have hk : ∀ k : Fin (m+1),
        PhiM sp u T (fun S => c S * (h y * (wbar S k * (if (S k).1 = y then 1 else 0))))
        = PhiM sp u T (fun S => c S * (h y * (wbar S 0 * (if (S 0).1 = y then 1 else 0)))) := by
      intro k
      have := hex (Equiv.swap 0 k)
        (fun S => c S * (h y * (wbar S 0 * (if (S 0).1 = y then 1 else 0))))
      rw [← this]
      congr 1; funext S
      simp only [hc, wbar_perm, Function.comp, Equiv.swap_apply_left]
    simp only [hk, Finset.sum_const, Finset.card_univ, Fintype.card_fin, nsmul_eq_mul]
    rw [← PhiM_wbar0 hv hu]
    push_cast
    congr 2; funext S
    unfold ind0; ring
  rw [s2]
  have s6 : PhiM sp u T (fun S => c S * ∑ b : Fin (m+1) → Fin (m+1), Fterm u f S b)
      = PhiM sp u T (fun S => c S * (h y * sel S y)) := by
    apply PhiM_congr hv hu T (le_refl T)
    intro S hS
    rw [s4 S hS]
  rw [s6, s5] at s3
  exact mul_left_cancel₀ hm s3

/-- `h` of the retained state may be moved inside the law of the system -/
theorem sum_gh_C {T : ℕ} (hv : ValidTo sp T) (hu : 0 < u) (h : X → ℚ) (F : Sys X m → ℚ) :
    ∑ x, (sp.g T x * h x) * C sp u T x F = M sp u T (fun S => h (S 0).1 * F S) := by
  unfold M
  apply Finset.sum_congr rfl
  intro x _
  by_cases hx : 0 < sp.g T x
  · have : C sp u T x (fun S => h (S 0).1 * F S) = C sp u T x (fun S => h x * F S) :=
      C_congr hv hu T x (le_refl T) hx (fun S hS => by rw [hS.1])
    rw [this, (C_lin T x).smul]
    ring
  · have : sp.g T x = 0 := le_antisymm (not_lt.mp hx) (hv.gnn _ _)
    rw [this]; simp

/-- **Conditional SMC with corrected final weights leaves `g T · h` invariant**, for every number of
particles, every number of steps, every symmetric adaptive rule, every `u > 0` and every `h` that is
positive on the support of `g T`. -/
theorem csmc_corrected_invariant {T : ℕ} (hv : ValidTo sp T) (hu : 0 < u) {h : X → ℚ}
    (hh : ∀ x, 0 < sp.g T x → 0 < h x) (y : X) :
    ∑ x, (sp.g T x * h x) * kernelH sp u h T x y = sp.g T y * h y := by
  unfold kernelH
  rw [sum_gh_C hv hu]
  have := M_selH_symm hv hu hh (fun _ => 1) (fun _ _ => rfl) y
  simp only [one_mul] at this
  rw [this, (M_lin T).smul, M_ind0 hv hu]
  ring

/-- **… also when the swarm is resampled (on the uncorrected weights, if the rule fires) between the
last step and the correction**, which is the code's schedule for a single data point. -/
theorem csmc_corrected_invariant_final_resample {T : ℕ} (hv : ValidTo sp T) (hu : 0 < u) {h : X → ℚ}
    (hh : ∀ x, 0 < sp.g T x → 0 < h x) (y : X) :
    ∑ x, (sp.g T x * h x) * kernelRH sp u h T x y = sp.g T y * h y := by
  unfold kernelRH
  rw [sum_gh_C hv hu]
  have e0 : (fun S : Sys X m => h (S 0).1 * finR sp u T (fun S' => selH h S' y) S)
      = fun S => c1 sp T S * (h (S 0).1 * resC u S (fun S' => selH h S' y))
          + (1 - c1 sp T S) * (h (S 0).1 * selH h S y) := by
    funext S
    unfold finR c1
    split <;> ring
  have hsym : ∀ (σ : Equiv.Perm (Fin (m+1))) (S : Sys X m), 1 - c1 sp T (S ∘ σ) = 1 - c1 sp T S := by
    intro σ S; rw [c1_perm hv]
  rw [e0, (M_lin T).add, M_resH_symm hv hu hh (c1 sp T) (c1_perm hv T) y,
    M_selH_symm hv hu hh (fun S => 1 - c1 sp T S) hsym y, ← (M_lin T).add]
  have : (fun S : Sys X m => c1 sp T S * (h y * ind0 y S) + (1 - c1 sp T S) * (h y * ind0 y S))
      = fun S => h y * ind0 y S := by funext S; ring
  rw [this, (M_lin T).smul, M_ind0 hv hu]
  ring

/-- the code's schedule -/
theorem csmc_corrected_invariant_X {T : ℕ} (hv : ValidTo sp T) (hu : 0 < u) {h : X → ℚ}
    (hh : ∀ x, 0 < sp.g T x → 0 < h x) (y : X) :
    ∑ x, (sp.g T x * h x) * kernelXH sp u h T x y = sp.g T y * h y := by
  simp only [kernelXH_eq]
  split
  · exact csmc_corrected_invariant_final_resample hv hu hh y
  · exact csmc_corrected_invariant hv hu hh y

#print axioms csmc_corrected_invariant_X
end ASMC
