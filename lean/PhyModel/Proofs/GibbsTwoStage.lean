import Mathlib.MeasureTheory.Measure.Prod
import Mathlib.MeasureTheory.Integral.Bochner.Basic
/-! # Two-stage Gibbs invariance for densities (abstract measure theory)

`(X, μ)`, `(Y, ν)` s-finite measure spaces, `j : X → Y → ℝ≥0∞` a jointly measurable "joint
density" w.r.t. `μ ⊗ ν`.  If the first coordinate has (unnormalised) density `mX = ∫ j dν`, the
second coordinate is drawn from the conditional density `c1 x ·` and then a new first coordinate
from the conditional density `c2 y ·`, the new first coordinate again has density `mX`.

Everything is stated for `ℝ≥0∞`-valued functions and `∫⁻`, for every measurable test function `f`
(`f = indicator A` gives the statement about measures).

* `gibbs_two_stage_factorised` — the conditionals are given by factorisations
  `j x y = mX x * c1 x y`, `j x y = mY y * c2 y x` (a.e.), no finiteness needed;
* `cond_mul_lintegral` — `m * ∫ (k / m) g = ∫ k g` for `m = ∫ k ≠ ⊤`;
* `gibbs_two_stage` — the conditionals are the quotients `j / mX`, `j / mY`, marginals a.e. finite;
* `cond_lintegral_eq_one` — the quotient is a probability density where the marginal is in `(0, ⊤)`;
* `gibbs_two_stage_real` — real-valued densities: the joint `jt ≥ 0` is, in each coordinate, *some*
  constant multiple of a probability density `p1 x ·` / `p2 y ·`, and its Bochner `y`-integral is
  `tg x` (`factor_of_real`, `quotient_eq_of_factor`, `ofReal_integral_of_factor`: the `ℝ≥0∞` marginal
  is `|Z|`, the quotient `jt / marginal` is `p`); then the kernel "draw `y ~ p1 x`, then `x' ~ p2 y`" leaves the measure with density `tg`
  invariant.  This is the form consumed by `Props/C13.lean`.
-/
open MeasureTheory Function
open scoped ENNReal

namespace PhyModel.GibbsTwoStage

variable {X Y : Type*} [MeasurableSpace X] [MeasurableSpace Y]

/-- **Two-stage Gibbs invariance, factorised form.**  `mX`, `mY` are (a.e.) the two marginals of
the jointly measurable `j`; `c1`, `c2` are conditional densities in the sense that
`j x y = mX x * c1 x y` and `j x y = mY y * c2 y x` almost everywhere.  Then for all measurable `f`,
`∫ mX(x) ∫ c1(x,y) ∫ c2(y,x') f(x') dμ(x') dν(y) dμ(x) = ∫ mX(x') f(x') dμ(x')`. -/
theorem gibbs_two_stage_factorised (μ : Measure X) (ν : Measure Y) [SFinite μ] [SFinite ν]
    (j : X → Y → ℝ≥0∞) (hj : Measurable (uncurry j))
    (mX : X → ℝ≥0∞) (mY : Y → ℝ≥0∞) (c1 : X → Y → ℝ≥0∞) (c2 : Y → X → ℝ≥0∞)
    (hc1 : ∀ x, Measurable (c1 x)) (hc2 : Measurable (uncurry c2))
    (hmX : ∀ᵐ x ∂μ, mX x = ∫⁻ y, j x y ∂ν) (hmY : ∀ᵐ y ∂ν, mY y = ∫⁻ x, j x y ∂μ)
    (h1 : ∀ᵐ x ∂μ, ∀ᵐ y ∂ν, j x y = mX x * c1 x y)
    (h2 : ∀ᵐ y ∂ν, ∀ᵐ x ∂μ, j x y = mY y * c2 y x)
    (f : X → ℝ≥0∞) (hf : Measurable f) :
    ∫⁻ x, mX x * ∫⁻ y, c1 x y * ∫⁻ x', c2 y x' * f x' ∂μ ∂ν ∂μ = ∫⁻ x', mX x' * f x' ∂μ := by
  -- the inner integral `g y = ∫ c2(y, x') f(x') dμ(x')` is measurable
  have hg : Measurable fun y => ∫⁻ x', c2 y x' * f x' ∂μ :=
    (hc2.mul (hf.comp measurable_snd)).lintegral_prod_right'
  set g : Y → ℝ≥0∞ := fun y => ∫⁻ x', c2 y x' * f x' ∂μ with hgdef
  have hjx : ∀ x, Measurable (j x) := fun x => hj.comp measurable_prodMk_left
  have hjy : ∀ y, Measurable fun x => j x y := fun y => hj.comp measurable_prodMk_right
  calc ∫⁻ x, mX x * ∫⁻ y, c1 x y * g y ∂ν ∂μ
      = ∫⁻ x, ∫⁻ y, j x y * g y ∂ν ∂μ := by
        refine lintegral_congr_ae ?_
        filter_upwards [h1] with x hx
        rw [← lintegral_const_mul (mX x) (f := fun y => c1 x y * g y) ((hc1 x).mul hg)]
        refine lintegral_congr_ae ?_
        filter_upwards [hx] with y hy
        rw [hy, mul_assoc]
    _ = ∫⁻ y, ∫⁻ x, j x y * g y ∂μ ∂ν :=
        lintegral_lintegral_swap ((hj.mul (hg.comp measurable_snd)).aemeasurable)
    _ = ∫⁻ y, mY y * g y ∂ν := by
        refine lintegral_congr_ae ?_
        filter_upwards [hmY] with y hy
        rw [lintegral_mul_const _ (hjy y), hy]
    _ = ∫⁻ y, ∫⁻ x', j x' y * f x' ∂μ ∂ν := by
        refine lintegral_congr_ae ?_
        filter_upwards [h2] with y hy
        have hm : Measurable fun x' => c2 y x' * f x' :=
          (hc2.comp measurable_prodMk_left).mul hf
        rw [hgdef]
        simp only
        rw [← lintegral_const_mul (mY y) hm]
        refine lintegral_congr_ae ?_
        filter_upwards [hy] with x hx
        rw [hx, mul_assoc]
    _ = ∫⁻ x', ∫⁻ y, j x' y * f x' ∂ν ∂μ :=
        (lintegral_lintegral_swap ((hj.mul (hf.comp measurable_fst)).aemeasurable)).symm
    _ = ∫⁻ x', mX x' * f x' ∂μ := by
        refine lintegral_congr_ae ?_
        filter_upwards [hmX] with x hx
        rw [lintegral_mul_const _ (hjx x), hx]

/-- dividing a density by its (finite) total mass and multiplying back: `m ∫ (k/m) g = ∫ k g` for
`m = ∫ k`; where `m = 0` both sides vanish because `k = 0` a.e. -/
theorem cond_mul_ae {A : Type*} [MeasurableSpace A] (ρ : Measure A) (k : A → ℝ≥0∞)
    (hk : Measurable k) (hfin : ∫⁻ a, k a ∂ρ ≠ ⊤) :
    ∀ᵐ a ∂ρ, k a = (∫⁻ a, k a ∂ρ) * (k a / ∫⁻ a, k a ∂ρ) := by
  by_cases h0 : ∫⁻ a, k a ∂ρ = 0
  · filter_upwards [(lintegral_eq_zero_iff hk).mp h0] with a ha
    rw [h0, zero_mul]; exact ha
  · exact ae_of_all _ fun a => (ENNReal.mul_div_cancel h0 hfin).symm

/-- `m * ∫ (k / m) g = ∫ k g` for `m = ∫ k ≠ ⊤` -/
theorem cond_mul_lintegral {A : Type*} [MeasurableSpace A] (ρ : Measure A) (k g : A → ℝ≥0∞)
    (hk : Measurable k) (hfin : ∫⁻ a, k a ∂ρ ≠ ⊤) :
    (∫⁻ a, k a ∂ρ) * ∫⁻ a, k a / (∫⁻ a, k a ∂ρ) * g a ∂ρ = ∫⁻ a, k a * g a ∂ρ := by
  rw [← lintegral_const_mul' _ _ hfin]
  refine lintegral_congr_ae ?_
  filter_upwards [cond_mul_ae ρ k hk hfin] with a ha
  rw [← mul_assoc, ← ha]

/-- where the marginal is neither `0` nor `⊤` the quotient `k / ∫ k` is a probability density -/
theorem cond_lintegral_eq_one {A : Type*} [MeasurableSpace A] (ρ : Measure A) (k : A → ℝ≥0∞)
    (hk : Measurable k) (h0 : ∫⁻ a, k a ∂ρ ≠ 0) (hfin : ∫⁻ a, k a ∂ρ ≠ ⊤) :
    ∫⁻ a, k a / (∫⁻ a, k a ∂ρ) ∂ρ = 1 := by
  simp_rw [div_eq_mul_inv]
  rw [lintegral_mul_const _ hk, ENNReal.mul_inv_cancel h0 hfin]

/-- **Two-stage Gibbs invariance.**  `j` jointly measurable, marginals
`mX x = ∫ j x y dν(y)` (finite for `μ`-a.e. `x`) and `mY y = ∫ j x y dμ(x)` (finite for `ν`-a.e.
`y`), conditional densities `c1 x y = j x y / mX x` and `c2 y x' = j x' y / mY y`.  If the first
coordinate has density `mX`, `y` is drawn from `c1 x ·` and `x'` from `c2 y ·`, then `x'` has density
`mX`: for every measurable `f`,
`∫ mX(x) ∫ c1(x,y) ∫ c2(y,x') f(x') dμ(x') dν(y) dμ(x) = ∫ mX(x') f(x') dμ(x')`. -/
theorem gibbs_two_stage (μ : Measure X) (ν : Measure Y) [SFinite μ] [SFinite ν]
    (j : X → Y → ℝ≥0∞) (hj : Measurable (uncurry j))
    (hX : ∀ᵐ x ∂μ, ∫⁻ y, j x y ∂ν ≠ ⊤) (hY : ∀ᵐ y ∂ν, ∫⁻ x, j x y ∂μ ≠ ⊤)
    (f : X → ℝ≥0∞) (hf : Measurable f) :
    ∫⁻ x, (∫⁻ y, j x y ∂ν) *
        ∫⁻ y, j x y / (∫⁻ y, j x y ∂ν) *
          ∫⁻ x', j x' y / (∫⁻ x, j x y ∂μ) * f x' ∂μ ∂ν ∂μ
      = ∫⁻ x', (∫⁻ y, j x' y ∂ν) * f x' ∂μ := by
  have hjx : ∀ x, Measurable (j x) := fun x => hj.comp measurable_prodMk_left
  have hjy : ∀ y, Measurable fun x => j x y := fun y => hj.comp measurable_prodMk_right
  have hmY : Measurable fun y => ∫⁻ x, j x y ∂μ := hj.lintegral_prod_left'
  refine gibbs_two_stage_factorised μ ν j hj (fun x => ∫⁻ y, j x y ∂ν) (fun y => ∫⁻ x, j x y ∂μ)
    (fun x y => j x y / ∫⁻ y, j x y ∂ν) (fun y x' => j x' y / ∫⁻ x, j x y ∂μ)
    (fun x => (hjx x).div_const _) ?_ (ae_of_all _ fun _ => rfl) (ae_of_all _ fun _ => rfl)
    ?_ ?_ f hf
  · exact (hj.comp measurable_swap).div (hmY.comp measurable_fst)
  · filter_upwards [hX] with x hx using cond_mul_ae ν (j x) (hjx x) hx
  · filter_upwards [hY] with y hy using cond_mul_ae μ (fun x => j x y) (hjy y) hy

/-- a nonnegative real function that is a constant multiple `Z` of a probability density `p`:
its `ℝ≥0∞` integral is `|Z|` and it factorises as `|Z| * p` in `ℝ≥0∞` -/
theorem factor_of_real {A : Type*} [MeasurableSpace A] (ρ : Measure A) (k p : A → ℝ)
    (hk0 : ∀ᵐ a ∂ρ, 0 ≤ k a) (hp0 : ∀ᵐ a ∂ρ, 0 ≤ p a)
    (hp1 : ∫⁻ a, ENNReal.ofReal (p a) ∂ρ = 1) (Z : ℝ) (hZ : ∀ᵐ a ∂ρ, k a = Z * p a) :
    ∫⁻ a, ENNReal.ofReal (k a) ∂ρ = ENNReal.ofReal |Z| ∧
      ∀ᵐ a ∂ρ, ENNReal.ofReal (k a) = ENNReal.ofReal |Z| * ENNReal.ofReal (p a) := by
  have h : ∀ᵐ a ∂ρ, ENNReal.ofReal (k a) = ENNReal.ofReal |Z| * ENNReal.ofReal (p a) := by
    filter_upwards [hk0, hp0, hZ] with a h1 h2 h3
    rw [← ENNReal.ofReal_mul (abs_nonneg Z)]
    congr 1
    rw [← abs_of_nonneg h1, h3, abs_mul, abs_of_nonneg h2]
  refine ⟨?_, h⟩
  rw [lintegral_congr_ae h, lintegral_const_mul' _ _ ENNReal.ofReal_ne_top, hp1, mul_one]

/-- under the hypotheses of `factor_of_real`, at a point `a₀` where the factorisation holds and the
function is positive, the quotient by the total mass is the probability density `p` -/
theorem quotient_eq_of_factor {A : Type*} [MeasurableSpace A] (ρ : Measure A) (k p : A → ℝ)
    (hk0 : ∀ᵐ a ∂ρ, 0 ≤ k a) (hp0 : ∀ᵐ a ∂ρ, 0 ≤ p a)
    (hp1 : ∫⁻ a, ENNReal.ofReal (p a) ∂ρ = 1) (Z : ℝ) (hZ : ∀ᵐ a ∂ρ, k a = Z * p a)
    (a₀ : A) (h₀ : k a₀ = Z * p a₀) (hk : 0 < k a₀) (hp : 0 ≤ p a₀) :
    ENNReal.ofReal (k a₀) / ∫⁻ a, ENNReal.ofReal (k a) ∂ρ = ENNReal.ofReal (p a₀) := by
  have hZpos : 0 < Z := by
    by_contra h
    have : Z * p a₀ ≤ 0 := mul_nonpos_of_nonpos_of_nonneg (not_lt.mp h) hp
    linarith
  rw [(factor_of_real ρ k p hk0 hp0 hp1 Z hZ).1, abs_of_pos hZpos, h₀, ENNReal.ofReal_mul hZpos.le]
  rw [mul_comm]
  exact ENNReal.mul_div_cancel_right (by simpa using hZpos) ENNReal.ofReal_ne_top

/-- under the hypotheses of `factor_of_real` the function is integrable and `ofReal` commutes
with its integral -/
theorem ofReal_integral_of_factor {A : Type*} [MeasurableSpace A] (ρ : Measure A) (k p : A → ℝ)
    (hk : Measurable k) (hk0 : ∀ᵐ a ∂ρ, 0 ≤ k a) (hp0 : ∀ᵐ a ∂ρ, 0 ≤ p a)
    (hp1 : ∫⁻ a, ENNReal.ofReal (p a) ∂ρ = 1) (Z : ℝ) (hZ : ∀ᵐ a ∂ρ, k a = Z * p a) :
    ENNReal.ofReal (∫ a, k a ∂ρ) = ∫⁻ a, ENNReal.ofReal (k a) ∂ρ := by
  have hfin : ∫⁻ a, ENNReal.ofReal (k a) ∂ρ ≠ ⊤ := by
    rw [(factor_of_real ρ k p hk0 hp0 hp1 Z hZ).1]; exact ENNReal.ofReal_ne_top
  exact ofReal_integral_eq_lintegral_ofReal
    ((lintegral_ofReal_ne_top_iff_integrable hk.aestronglyMeasurable hk0).mp hfin) hk0

/-- **Two-stage Gibbs invariance for real-valued densities.**  `jt : X → Y → ℝ` jointly measurable
and a.e. nonnegative; for a.e. `x`, `jt x ·` is some constant multiple of the probability density
`p1 x ·` (w.r.t. `ν`) and `∫ jt x y dν(y) = tg x`; for a.e. `y`, `jt · y` is some constant multiple
of the probability density `p2 y ·` (w.r.t. `μ`).  Then for every measurable `f`,
`∫ tg(x) ∫ p1(x,y) ∫ p2(y,x') f(x') dμ(x') dν(y) dμ(x) = ∫ tg(x') f(x') dμ(x')`:
if `x` has density `tg`, `y ~ p1 x`, `x' ~ p2 y`, then `x'` has density `tg`. -/
theorem gibbs_two_stage_real (μ : Measure X) (ν : Measure Y) [SFinite μ] [SFinite ν]
    (jt : X → Y → ℝ) (hjt : Measurable (uncurry jt)) (tg : X → ℝ)
    (p1 : X → Y → ℝ) (p2 : Y → X → ℝ) (hp1m : ∀ x, Measurable (p1 x))
    (hp2m : Measurable (uncurry p2))
    (hjt0 : ∀ᵐ x ∂μ, ∀ᵐ y ∂ν, 0 ≤ jt x y)
    (h1 : ∀ᵐ x ∂μ, (∀ᵐ y ∂ν, 0 ≤ p1 x y) ∧ ∫⁻ y, ENNReal.ofReal (p1 x y) ∂ν = 1 ∧
      ∃ Z : ℝ, ∀ᵐ y ∂ν, jt x y = Z * p1 x y)
    (h2 : ∀ᵐ y ∂ν, (∀ᵐ x ∂μ, 0 ≤ p2 y x) ∧ ∫⁻ x, ENNReal.ofReal (p2 y x) ∂μ = 1 ∧
      ∃ D : ℝ, ∀ᵐ x ∂μ, jt x y = D * p2 y x)
    (htg : ∀ᵐ x ∂μ, ∫ y, jt x y ∂ν = tg x)
    (f : X → ℝ≥0∞) (hf : Measurable f) :
    ∫⁻ x, ENNReal.ofReal (tg x) * ∫⁻ y, ENNReal.ofReal (p1 x y) *
        ∫⁻ x', ENNReal.ofReal (p2 y x') * f x' ∂μ ∂ν ∂μ
      = ∫⁻ x', ENNReal.ofReal (tg x') * f x' ∂μ := by
  have hjx : ∀ x, Measurable (jt x) := fun x => hjt.comp measurable_prodMk_left
  have hjt0' : ∀ᵐ y ∂ν, ∀ᵐ x ∂μ, 0 ≤ jt x y :=
    (Measure.ae_ae_comm (p := fun x y => 0 ≤ jt x y)
      (measurableSet_le measurable_const hjt)).mp hjt0
  -- for a.e. x the ℝ≥0∞ marginal is `ofReal (tg x)`
  have hmX : ∀ᵐ x ∂μ, ENNReal.ofReal (tg x) = ∫⁻ y, ENNReal.ofReal (jt x y) ∂ν := by
    filter_upwards [hjt0, h1, htg] with x hx0 ⟨hp0, hp1, Z, hZ⟩ hx
    rw [← hx, ofReal_integral_of_factor ν (jt x) (p1 x) (hjx x) hx0 hp0 hp1 Z hZ]
  refine gibbs_two_stage_factorised μ ν (fun x y => ENNReal.ofReal (jt x y))
    (ENNReal.measurable_ofReal.comp hjt) (fun x => ENNReal.ofReal (tg x))
    (fun y => ∫⁻ x, ENNReal.ofReal (jt x y) ∂μ) (fun x y => ENNReal.ofReal (p1 x y))
    (fun y x => ENNReal.ofReal (p2 y x)) (fun x => ENNReal.measurable_ofReal.comp (hp1m x))
    (ENNReal.measurable_ofReal.comp hp2m) hmX (ae_of_all _ fun _ => rfl) ?_ ?_ f hf
  · filter_upwards [hjt0, h1, hmX] with x hx0 ⟨hp0, hp1, Z, hZ⟩ hx
    obtain ⟨hI, hF⟩ := factor_of_real ν (jt x) (p1 x) hx0 hp0 hp1 Z hZ
    rw [hx, hI]; exact hF
  · filter_upwards [hjt0', h2] with y hy0 ⟨hp0, hp1, D, hD⟩
    obtain ⟨hI, hF⟩ := factor_of_real μ (fun x => jt x y) (p2 y) hy0 hp0 hp1 D hD
    rw [hI]; exact hF

end PhyModel.GibbsTwoStage
