import PhyModel.Proofs.StoreWF_AL
import PhyModel.Proofs.StoreWF_SF2
/-! Shared layer of the C07 proofs: the invariant `Inv0`, `WF` split into three list-level parts
(`WFG` graph payloads, `WFM` the two maps, `WFD` the `_data` map) so that each operation only has to
say what it does to the payload list and to each map; transfer along `Perm` / payload rewriting. -/
namespace PhyModel.Store
open PhyModel PhyModel.Store PhyModel.Store.Store SF AL

/-- the invariant of C07: the four views agree and every clone has its `_data` entry -/
def Inv0 (s : Store) : Prop := WF s ∧ Full s

/-- payload part -/
structure WFG (rs : List NodeRec) : Prop where
  names_nodup : (rs.map (·.name)).Nodup
  idxs_nodup : (rs.map (·.idx)).Nodup
  idx_pos : ∀ n ∈ rs, n.idx ≠ 0
  name_nonneg : ∀ n ∈ rs, 0 ≤ n.name

/-- the maps name → index and index → name are exactly the payload pairs -/
def WFM (rs : List NodeRec) (ni : List (Int × Nat)) (nir : List (Nat × Int)) : Prop :=
  ni.Perm (rs.map fun n => (n.name, n.idx)) ∧ nir.Perm (rs.map fun n => (n.idx, n.name))

/-- `_data` part -/
structure WFD (rs : List NodeRec) (data : List (Int × List Nat)) : Prop where
  data_keys : (keys data).Nodup
  data_sub : ∀ k ∈ keys data, k = outKey ∨ k ∈ rs.map (·.name)
  payload_data : ∀ n ∈ rs, n.dps.Perm (dOf data n.name)
  data_nodup : (vals data).Nodup

theorem dataOf_eq (s : Store) (nm : Int) : s.dataOf nm = dOf s.data nm := rfl

theorem nodup_pairs_of_names {rs : List NodeRec} (h : (rs.map (·.name)).Nodup) :
    (rs.map fun n => (n.name, n.idx)).Nodup := by
  apply List.Nodup.of_map Prod.fst; simpa [List.map_map, Function.comp_def] using h

theorem nodup_pairs_of_idxs {rs : List NodeRec} (h : (rs.map (·.idx)).Nodup) :
    (rs.map fun n => (n.idx, n.name)).Nodup := by
  apply List.Nodup.of_map Prod.fst; simpa [List.map_map, Function.comp_def] using h

theorem wf_iff (s : Store) :
    WF s ↔ WFG s.forest.recs ∧ WFM s.forest.recs s.nodeIdx s.nodeIdxRev ∧ WFD s.forest.recs s.data := by
  constructor
  · intro h
    refine ⟨⟨h.names_nodup, h.idxs_nodup, h.idx_pos, h.name_nonneg⟩, ⟨?_, ?_⟩,
      ⟨h.data_keys, ?_, h.payload_data, h.data_nodup⟩⟩
    · refine (List.perm_ext_iff_of_nodup (List.Nodup.of_map _ h.nodeIdx_keys)
        (nodup_pairs_of_names h.names_nodup)).2 fun a => ?_
      obtain ⟨nm, i⟩ := a
      rw [h.nodeIdx_iff]; simp only [List.mem_map, Prod.mk.injEq]
    · refine (List.perm_ext_iff_of_nodup (List.Nodup.of_map _ h.nodeIdxRev_keys)
        (nodup_pairs_of_idxs h.idxs_nodup)).2 fun a => ?_
      obtain ⟨i, nm⟩ := a
      rw [h.nodeIdxRev_iff]; simp only [List.mem_map, Prod.mk.injEq]
      constructor <;> rintro ⟨n, hn, h1, h2⟩ <;> exact ⟨n, hn, h2, h1⟩
    · intro k hk
      obtain ⟨e, he, rfl⟩ := List.mem_map.1 hk
      exact h.data_sub e he
  · rintro ⟨hg, ⟨hm1, hm2⟩, hd⟩
    refine ⟨hg.names_nodup, hg.idxs_nodup, hg.idx_pos, hg.name_nonneg, ?_, ?_, ?_, ?_, hd.data_keys, ?_,
      hd.payload_data, hd.data_nodup⟩
    · have := (hm1.map Prod.fst).nodup_iff.2
      apply this; simpa [List.map_map, Function.comp_def] using hg.names_nodup
    · have := (hm2.map Prod.fst).nodup_iff.2
      apply this; simpa [List.map_map, Function.comp_def] using hg.idxs_nodup
    · intro nm i; rw [hm1.mem_iff]; simp only [List.mem_map, Prod.mk.injEq]
    · intro i nm; rw [hm2.mem_iff]; simp only [List.mem_map, Prod.mk.injEq]
      constructor <;> rintro ⟨n, hn, h1, h2⟩ <;> exact ⟨n, hn, h2, h1⟩
    · intro e he; exact hd.data_sub e.1 (List.mem_map.2 ⟨e, he, rfl⟩)

theorem WF.g {s : Store} (h : WF s) : WFG s.forest.recs := ((wf_iff s).1 h).1
theorem WF.m {s : Store} (h : WF s) : WFM s.forest.recs s.nodeIdx s.nodeIdxRev := ((wf_iff s).1 h).2.1
theorem WF.d {s : Store} (h : WF s) : WFD s.forest.recs s.data := ((wf_iff s).1 h).2.2

/-! ### transfer -/

theorem WFG.perm {rs rs' : List NodeRec} (hp : rs'.Perm rs) (h : WFG rs) : WFG rs' :=
  ⟨(hp.map _).nodup_iff.2 h.names_nodup, (hp.map _).nodup_iff.2 h.idxs_nodup,
    fun n hn => h.idx_pos n (hp.subset hn), fun n hn => h.name_nonneg n (hp.subset hn)⟩

theorem WFM.perm {rs rs' : List NodeRec} {ni nir} (hp : rs'.Perm rs) (h : WFM rs ni nir) : WFM rs' ni nir :=
  ⟨h.1.trans (hp.map _).symm, h.2.trans (hp.map _).symm⟩

theorem WFD.perm {rs rs' : List NodeRec} {data} (hp : rs'.Perm rs) (h : WFD rs data) : WFD rs' data :=
  ⟨h.data_keys, fun k hk => (h.data_sub k hk).imp id fun hm => (hp.map _).symm.subset hm,
    fun n hn => h.payload_data n (hp.subset hn), h.data_nodup⟩

/-- payload lists that agree on `(idx, name)` pointwise and on data-point sets up to order -/
def SameCore (rs' rs : List NodeRec) : Prop :=
  List.Forall₂ (fun a b : NodeRec => a.idx = b.idx ∧ a.name = b.name ∧ a.dps.Perm b.dps) rs' rs

theorem SameCore.map_eq {rs' rs : List NodeRec} (h : SameCore rs' rs) {β} (f : NodeRec → β)
    (hf : ∀ a b : NodeRec, a.idx = b.idx → a.name = b.name → f a = f b) : rs'.map f = rs.map f := by
  induction h with
  | nil => rfl
  | cons hab _ ih => simp [ih, hf _ _ hab.1 hab.2.1]

theorem SameCore.mem {rs' rs : List NodeRec} (h : SameCore rs' rs) {a : NodeRec} (ha : a ∈ rs') :
    ∃ b ∈ rs, a.idx = b.idx ∧ a.name = b.name ∧ a.dps.Perm b.dps := by
  induction h with
  | nil => simp at ha
  | cons hab _ ih =>
    rcases List.mem_cons.1 ha with rfl | ha
    · exact ⟨_, by simp, hab⟩
    · obtain ⟨b, hb, h⟩ := ih ha; exact ⟨b, by simp [hb], h⟩

theorem sameCore_of_cores {rs' rs : List NodeRec} (h : rs'.map core = rs.map core) : SameCore rs' rs := by
  induction rs' generalizing rs with
  | nil => cases rs <;> simp_all [SameCore]
  | cons a l ih =>
    cases rs with
    | nil => simp at h
    | cons b l' =>
      simp only [List.map_cons, List.cons.injEq, core, Prod.mk.injEq] at h
      exact List.Forall₂.cons ⟨h.1.1, h.1.2.1, h.1.2.2 ▸ List.Perm.refl _⟩ (ih h.2)

theorem WFG.same {rs rs' : List NodeRec} (hs : SameCore rs' rs) (h : WFG rs) : WFG rs' := by
  have hn := hs.map_eq (·.name) (fun _ _ _ h => h)
  have hi := hs.map_eq (·.idx) (fun _ _ h _ => h)
  refine ⟨hn ▸ h.names_nodup, hi ▸ h.idxs_nodup, fun n hn' => ?_, fun n hn' => ?_⟩
  · obtain ⟨b, hb, h1, _⟩ := hs.mem hn'; rw [h1]; exact h.idx_pos b hb
  · obtain ⟨b, hb, _, h2, _⟩ := hs.mem hn'; rw [h2]; exact h.name_nonneg b hb

theorem WFM.same {rs rs' : List NodeRec} {ni nir} (hs : SameCore rs' rs) (h : WFM rs ni nir) :
    WFM rs' ni nir := by
  have h1 := hs.map_eq (fun n => (n.name, n.idx)) (fun _ _ h h' => by simp [h, h'])
  have h2 := hs.map_eq (fun n => (n.idx, n.name)) (fun _ _ h h' => by simp [h, h'])
  exact ⟨h1 ▸ h.1, h2 ▸ h.2⟩

theorem WFD.same {rs rs' : List NodeRec} {data} (hs : SameCore rs' rs) (h : WFD rs data) : WFD rs' data := by
  have hn := hs.map_eq (·.name) (fun _ _ _ h => h)
  refine ⟨h.data_keys, fun k hk => hn ▸ h.data_sub k hk, fun n hn' => ?_, h.data_nodup⟩
  obtain ⟨b, hb, _, h2, h3⟩ := hs.mem hn'
  rw [h2]; exact h3.trans (h.payload_data b hb)

/-- a store whose payloads have the same cores and whose maps are unchanged is as well-formed -/
theorem inv_of_cores_eq {s s' : Store} (hc : s'.forest.cores = s.forest.cores)
    (h1 : s'.nodeIdx = s.nodeIdx) (h2 : s'.nodeIdxRev = s.nodeIdxRev) (h3 : s'.data = s.data) :
    (WF s → WF s') ∧ (Full s → Full s') ∧ (Dense s → Dense s') := by
  have hs := sameCore_of_cores hc
  have hn : s'.forest.recs.map (·.name) = s.forest.recs.map (·.name) := hs.map_eq _ (fun _ _ _ h => h)
  refine ⟨fun h => ?_, fun h n hn' => ?_, fun h n hn' => ?_⟩
  · rw [wf_iff, h1, h2, h3]; exact ⟨h.g.same hs, h.m.same hs, h.d.same hs⟩
  · obtain ⟨b, hb, _, h2', _⟩ := hs.mem hn'
    rw [h3, h2']; exact h b hb
  · obtain ⟨b, hb, _, h2', _⟩ := hs.mem hn'
    have hl : s'.numNodes = s.numNodes := by
      simp only [Store.numNodes, numNodes_eq]
      have := congrArg List.length hn; simpa using this
    rw [hl, h2']; exact h b hb

/-! ### `updatePathToRoot`, `update`, `init` -/

theorem updatePathToRoot_spec {dt : Data} {s s' : Store} {src : Option Int}
    (h : updatePathToRoot dt s src = some s') :
    s'.forest.cores = s.forest.cores ∧ s'.nodeIdx = s.nodeIdx ∧ s'.nodeIdxRev = s.nodeIdxRev ∧
      s'.data = s.data ∧ s'.last = s.last := by
  cases src with
  | none => simp only [updatePathToRoot, Option.some.injEq] at h; subst h; simp
  | some name =>
    simp only [updatePathToRoot, Option.bind_eq_bind, Option.bind_eq_some_iff] at h
    obtain ⟨i, _, h⟩ := h
    split at h
    · cases h
    · split at h
      · cases h
      · simp only [Option.some.injEq] at h; subst h
        exact ⟨updPath_cores dt i s.forest, rfl, rfl, rfl, rfl⟩

theorem updatePathToRoot_inv {dt : Data} {s s' : Store} {src : Option Int}
    (h : updatePathToRoot dt s src = some s') :
    (WF s → WF s') ∧ (Full s → Full s') ∧ (Dense s → Dense s') := by
  obtain ⟨hc, h1, h2, h3, _⟩ := updatePathToRoot_spec h
  exact inv_of_cores_eq hc h1 h2 h3

theorem update_inv (dt : Data) (s : Store) :
    (WF s → WF (s.update dt)) ∧ (Full s → Full (s.update dt)) ∧ (Dense s → Dense (s.update dt)) :=
  inv_of_cores_eq (updAll_cores dt s.forest) rfl rfl rfl

theorem wf_init' (dt : Data) : WF (Store.init dt) := by
  rw [wf_iff]
  refine ⟨⟨by simp [Store.init], by simp [Store.init], by simp [Store.init], by simp [Store.init]⟩,
    ⟨by simp [Store.init], by simp [Store.init]⟩,
    ⟨by simp [Store.init], by simp [Store.init], by simp [Store.init], by simp [Store.init]⟩⟩

theorem inv_init (dt : Data) : Inv0 (Store.init dt) := ⟨wf_init' dt, by simp [Full, Store.init]⟩

theorem dense_init (dt : Data) : Dense (Store.init dt) := by simp [Dense, Store.init]

end PhyModel.Store
