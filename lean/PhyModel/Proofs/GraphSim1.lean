import PhyModel.Proofs.GraphOfCreate2
import PhyModel.Proofs.StoreCache_addDp
import PhyModel.Proofs.StoreWF_SF2
/-! Simulation of the structural store model by the graph model, part 1: the relation (`GEquiv`: same
live set, same edge multiset), the graphs of a system of stores (`graphsOf`), and the
shape-preservation lemmas: everything that only touches payloads (`Tree.update`,
`_update_path_to_root`, `relabel_nodes`, the data-point edits, `touch`) leaves `graphOf` of the forest
exactly as it was. -/
namespace PhyModel.Graph
open PhyModel PhyModel.Store PhyModel.Store.SF

/-- same live set, same edge multiset -/
def GEquiv (a b : DG) : Prop := a.nodes.Perm b.nodes ∧ a.edges.Perm b.edges

/-- the graphs of the live handles -/
def graphsOf (sys : Store.Sys) : GSys := sys.map fun s => graphOf s.forest

theorem GEquiv.refl (a : DG) : GEquiv a a := ⟨.refl _, .refl _⟩
theorem GEquiv.symm {a b : DG} (h : GEquiv a b) : GEquiv b a := ⟨h.1.symm, h.2.symm⟩
theorem GEquiv.trans {a b c : DG} (h : GEquiv a b) (h' : GEquiv b c) : GEquiv a c :=
  ⟨h.1.trans h'.1, h.2.trans h'.2⟩
theorem GEquiv.of_eq {a b : DG} (h : a = b) : GEquiv a b := h ▸ GEquiv.refl a

/-- equivalent graphs are rooted forests together -/
theorem GEquiv.isForest {a b : DG} (h : GEquiv a b) (ha : IsForest a) : IsForest b := ha.of_perm h.1 h.2

/-! ### the graph is determined by the edge list -/

theorem graphOf_eq_of_edges {f f' : SF} (h : Store.edgesOf 0 f' = Store.edgesOf 0 f) :
    graphOf f' = graphOf f := by
  have hi : f'.idxs = f.idxs := by rw [← targets_edgesOf f' 0, ← targets_edgesOf f 0, h]
  simp [graphOf, hi, h]

/-- a payload map that keeps the graph index keeps the edges -/
theorem edgesOf_mapRecs (g : NodeRec → NodeRec) (hi : ∀ n, (g n).idx = n.idx) : ∀ (f : SF) (par : Nat),
    Store.edgesOf par (f.mapRecs g) = Store.edgesOf par f
  | .nil, _ => rfl
  | .cons n k s, par => by
    simp only [SF.mapRecs, edgesOf_cons, hi, edgesOf_mapRecs g hi k, edgesOf_mapRecs g hi s]

theorem graphOf_mapRecs (g : NodeRec → NodeRec) (hi : ∀ n, (g n).idx = n.idx) (f : SF) :
    graphOf (f.mapRecs g) = graphOf f :=
  graphOf_eq_of_edges (edgesOf_mapRecs g hi f 0)

/-- `Tree.update` rewrites cached vectors only -/
theorem edgesOf_updAll (dt : Data) : ∀ (f : SF) (par : Nat), Store.edgesOf par (updAll dt f) = Store.edgesOf par f
  | .nil, _ => rfl
  | .cons n k s, par => by
    simp only [updAll, edgesOf_cons, edgesOf_updAll dt k, edgesOf_updAll dt s]

theorem graphOf_updAll (dt : Data) (f : SF) : graphOf (updAll dt f) = graphOf f :=
  graphOf_eq_of_edges (edgesOf_updAll dt f 0)

/-- `relabel_nodes` rewrites names only -/
theorem edgesOf_relabelSF : ∀ (f : SF) (c : Int) (par : Nat),
    Store.edgesOf par (Store.relabelSF f c).1 = Store.edgesOf par f
  | .nil, _, _ => rfl
  | .cons n k s, c, par => by
    simp only [Store.relabelSF, edgesOf_cons, edgesOf_relabelSF k, edgesOf_relabelSF s]

theorem graphOf_relabelSF (f : SF) (c : Int) : graphOf (Store.relabelSF f c).1 = graphOf f :=
  graphOf_eq_of_edges (edgesOf_relabelSF f c 0)

/-- replacing the payload of clone `i` by one with the same graph index -/
theorem graphOf_setRec {i : Nat} {n' : NodeRec} (hi : n'.idx = i) (f : SF) :
    graphOf (Store.setRec i (fun _ => n') f) = graphOf f :=
  graphOf_mapRecs _ (fun n => by split <;> simp_all) f

/-! ### store operations that leave the graph alone -/

theorem graphOf_update (dt : Data) (s : Store) : graphOf (s.update dt).forest = graphOf s.forest :=
  graphOf_updAll dt s.forest

theorem graphOf_relabelNodes (s : Store) : graphOf s.relabelNodes.forest = graphOf s.forest :=
  graphOf_relabelSF s.forest 0

theorem graphOf_touch (s : Store) (l : List Int) : graphOf (s.touch l).forest = graphOf s.forest := rfl

theorem graphOf_updatePathToRoot {dt : Data} {s s' : Store} {src : Option Int}
    (h : Store.updatePathToRoot dt s src = some s') : graphOf s'.forest = graphOf s.forest := by
  cases src with
  | none => rw [C06.updatePath_none dt s s' h]
  | some name =>
    obtain ⟨i, _, _, rfl⟩ := C06.updatePath_some dt s s' name h
    exact graphOf_updPath dt i s.forest

theorem graphOf_addDataPointToNode {dt : Data} {s s' : Store} {dp : Nat} {node : Int}
    (h : s.addDataPointToNode dt dp node = some s') : graphOf s'.forest = graphOf s.forest := by
  unfold Store.addDataPointToNode at h
  simp only [Option.bind_eq_bind, Option.pure_def] at h
  split at h
  · cases h
  · split at h
    · cases h; rfl
    · simp only [Option.bind_eq_some_iff] at h
      obtain ⟨i, _, n, hn, n', hn', par, _, h⟩ := h
      obtain ⟨k, hk⟩ := C06.recAt_some hn
      have hi : n'.idx = i := (C06.recAdd_spec dt _ _ _ hn').1.trans (findSub_some hk).1
      rw [graphOf_updatePathToRoot h]
      exact graphOf_setRec hi s.forest

theorem graphOf_removeDataPointFromNode {dt : Data} {s s' : Store} {dp : Nat} {node : Int}
    (h : s.removeDataPointFromNode dt dp node = some s') : graphOf s'.forest = graphOf s.forest := by
  unfold Store.removeDataPointFromNode at h
  simp only [Option.bind_eq_bind, Option.pure_def] at h
  split at h
  · cases h
  · split at h
    · cases h; rfl
    · simp only [Option.bind_eq_some_iff] at h
      obtain ⟨i, _, n, hn, n', hn', h⟩ := h
      obtain ⟨k, hk⟩ := C06.recAt_some hn
      have hi : n'.idx = i := by
        unfold recRemove at hn'
        split at hn'
        · cases hn'; exact (findSub_some hk).1
        · cases hn'
      rw [graphOf_updatePathToRoot h]
      exact graphOf_setRec hi s.forest

theorem graphOf_removeDataPointFromOutliers {s s' : Store} {dp : Nat}
    (h : s.removeDataPointFromOutliers dp = some s') : graphOf s'.forest = graphOf s.forest := by
  unfold Store.removeDataPointFromOutliers at h
  split at h
  · cases h
  · cases h; rfl

/-! ### non-vacuity -/

open C07Ex in
example : graphOf (t2.update dt).forest = graphOf t2.forest ∧ graphOf t2.relabelNodes.forest = graphOf t2.forest ∧
    (t2.addDataPointToNode dt 3 1).map (fun s => graphOf s.forest) = some (graphOf t2.forest) ∧
    (t2.removeDataPointFromNode dt 1 1).map (fun s => graphOf s.forest) = some (graphOf t2.forest) ∧
    (t2.removeDataPointFromOutliers 2).map (fun s => graphOf s.forest) = some (graphOf t2.forest) ∧
    graphOf t2.forest = ⟨[0, 2, 1], [(0, 2), (2, 1)]⟩ := by
  decide +kernel

end PhyModel.Graph
