import PhyModel.Proofs.PG7
/-! # C01 instance, part 8: `reachable_iff_order` — a well-formed complete tree is reached along `σ`
exactly when `σ` is one of its compatible orders. -/

namespace PhyModel.PG
open Orders Orders.Forest Proposal PGSpec Canon

theorem mem_addAt_of_mem (i : ℕ) : ∀ (rs : List (List ℕ × DF)) (j : ℕ) (r : List ℕ × DF), r ∈ rs →
    r ∈ addAt i j rs ∨ (r.1 ++ [i], r.2) ∈ addAt i j rs := by
  intro rs
  induction rs with
  | nil => intro j r h; simp at h
  | cons x rs ih =>
    intro j r h
    obtain ⟨d, k⟩ := x
    cases j with
    | zero =>
      simp only [addAt, List.mem_cons]
      rcases List.mem_cons.mp h with rfl | h
      · exact Or.inr (Or.inl rfl)
      · exact Or.inl (Or.inr h)
    | succ j =>
      simp only [addAt, List.mem_cons]
      rcases List.mem_cons.mp h with rfl | h
      · exact Or.inl (Or.inl rfl)
      · rcases ih j r h with h' | h'
        · exact Or.inl (Or.inr h')
        · exact Or.inr (Or.inr h')

/-- placing a data point does not remove any "must come before" pair -/
theorem prec_placement_mono (p : T) (i : ℕ) (kt : Kind × T) (hkt : kt ∈ placements p i) (ab : ℕ × ℕ)
    (hab : ab ∈ prec p.f) : ab ∈ prec kt.2.f := by
  obtain ⟨r, hr, h⟩ := mem_prec_roots.mp hab
  rw [placements_eq] at hkt
  simp only [List.mem_append, List.mem_map, List.mem_range, List.mem_singleton] at hkt
  rcases hkt with (⟨j, hj, rfl⟩ | ⟨cr, hcr, rfl⟩) | rfl
  · simp only [exT, T.mk']
    rw [mem_prec_eqv (canon_eqv _), mem_prec_ofRoots]
    rcases mem_addAt_of_mem i _ j r hr with h' | h'
    · exact ⟨r, h', h⟩
    · refine ⟨_, h', ?_⟩
      rcases h with ⟨h1, h2⟩ | h
      · exact Or.inl ⟨h1, List.mem_append_left _ h2⟩
      · exact Or.inr h
  · simp only [newT, T.mk']
    rw [mem_prec_eqv (canon_eqv _), mem_prec_ofRoots]
    have hmem : r ∈ cr.1 ++ cr.2 := (splits_perm _ _ hcr).mem_iff.mpr hr
    rcases List.mem_append.mp hmem with hc | hc
    · refine ⟨([i], ofRoots cr.1), List.mem_cons_self, Or.inr ?_⟩
      exact mem_prec_ofRoots.mpr ⟨r, hc, h⟩
    · exact ⟨r, List.mem_cons_of_mem _ hc, h⟩
  · simp only [outT, T.mk']
    exact (mem_prec_eqv (canon_eqv _) ab).mpr hab

/-- a data point of the forest sits in a top-level clone or must come before some other data point -/
theorem top_or_prec : ∀ f : DF, AllNonempty f → ∀ i ∈ f.all,
    (∃ r ∈ f.roots, i ∈ r.1) ∨ ∃ b, (i, b) ∈ prec f
  | .nil, _, i, hi => by simp [Forest.all] at hi
  | .cons d k s, hne, i, hi => by
    obtain ⟨h1, _, h3⟩ := hne
    simp only [Forest.all, List.mem_append] at hi
    rcases hi with (hi | hi) | hi
    · obtain ⟨b, hb⟩ := List.exists_mem_of_ne_nil _ h1
      exact Or.inr ⟨b, mem_prec_cons.mpr (Or.inl ⟨hi, hb⟩)⟩
    · exact Or.inl ⟨(d, k), by simp [roots], hi⟩
    · rcases top_or_prec s h3 i hi with ⟨r, hr, h⟩ | ⟨b, hb⟩
      · exact Or.inl ⟨r, by simp [roots, hr], h⟩
      · exact Or.inr ⟨b, mem_prec_cons.mpr (Or.inr (Or.inr hb))⟩

theorem not_sublist_last {s : List ℕ} {i b : ℕ} (hnd : (s ++ [i]).Nodup) : ¬ [i, b].Sublist (s ++ [i]) := by
  intro h
  have hib : i ≠ b := by
    have := h.nodup hnd
    simp at this
    exact this
  have his : i ∉ s := by
    have := List.nodup_append.mp hnd
    intro hm
    exact this.2.2 i hm i (by simp) rfl
  have hr := h.reverse
  simp only [List.reverse_append, List.reverse_cons, List.reverse_nil, List.nil_append,
    List.singleton_append] at hr
  cases hr with
  | cons _ h' =>
    have : i ∈ s.reverse := h'.subset (by simp)
    exact his (List.mem_reverse.mp this)
  | cons_cons _ h' => exact hib rfl

theorem sublist_of_append_singleton {l s : List ℕ} {i : ℕ} (h : l.Sublist (s ++ [i])) (hi : i ∉ l) :
    l.Sublist s := by
  have h1 := h.filter (· != i)
  have hl : l.filter (· != i) = l := Canon.filter_ne_of_not_mem hi
  rw [hl, List.filter_append] at h1
  have : [i].filter (· != i) = [] := by simp
  rw [this, List.append_nil] at h1
  exact h1.trans List.filter_sublist

theorem eq_nil_of_all_nil : ∀ f : DF, AllNonempty f → f.all = [] → f = .nil
  | .nil, _, _ => rfl
  | .cons d k s, hne, h => by
    exfalso
    obtain ⟨b, hb⟩ := List.exists_mem_of_ne_nil _ hne.1
    have : b ∈ (Orders.Forest.cons d k s).all := by simp [Forest.all, hb]
    rw [h] at this
    simp at this

/-- **a well-formed tree compatible with (a prefix of) `σ` is reached along `σ`** -/
theorem compat_level (c : Cfg) (σ : List ℕ) (hnd : σ.Nodup) : ∀ t, t ≤ σ.length → ∀ x : T, WFT c x →
    CompatAll x.f x.out (σ.take t) → x ∈ level c σ t := by
  intro t
  induction t with
  | zero =>
    intro _ x w hc
    have h0 : x.f.all ++ x.out = [] := by simpa using hc.1.symm
    obtain ⟨hf, ho⟩ := List.append_eq_nil_iff.mp h0
    have hfn := eq_nil_of_all_nil x.f w.ne hf
    simp only [level, List.mem_singleton]
    cases x
    simp only at hfn ho
    subst hfn; subst ho
    rfl
  | succ t ih =>
    intro ht x w hc
    have hlt : t < σ.length := ht
    rw [List.take_succ_eq_append_getElem hlt] at hc
    have hnd' : (σ.take t ++ [σ[t]]).Nodup := by
      rw [← List.take_succ_eq_append_getElem hlt]
      exact hnd.sublist (List.take_sublist _ _)
    have hi : σ[t] ∈ x.f.all ++ x.out :=
      hc.1.mem_iff.mp (List.mem_append_right _ (List.mem_singleton_self _))
    have htop : σ[t] ∈ x.out ∨ ∃ r ∈ x.f.roots, σ[t] ∈ r.1 := by
      rcases List.mem_append.mp hi with hf | ho
      · rcases top_or_prec x.f w.ne _ hf with h | ⟨b, hb⟩
        · exact Or.inr h
        · exact absurd (hc.2 _ hb) (not_sublist_last hnd')
      · exact Or.inl ho
    obtain ⟨p, wp, hch⟩ := peel w htop
    obtain ⟨kt, hkt, _, hkx⟩ := mem_children.mp hch
    have hpp := placement_perm p σ[t] kt hkt
    rw [hkx] at hpp
    have hperm : (σ.take t).Perm (p.f.all ++ p.out) :=
      (List.perm_append_right_iff [σ[t]]).mp (hc.1.trans hpp)
    have hnotin : σ[t] ∉ p.f.all ++ p.out := by
      have := hpp.nodup_iff.mp w.nodup
      intro hm
      exact (List.nodup_append.mp this).2.2 _ hm _ (by simp) rfl
    have hcp : CompatAll p.f p.out (σ.take t) := by
      refine ⟨hperm, ?_⟩
      intro ab hab
      have h1 : ab ∈ prec x.f := hkx ▸ prec_placement_mono p _ kt hkt ab hab
      have h2 := hc.2 ab h1
      obtain ⟨ha, hb⟩ := prec_mem p.f ab hab
      apply sublist_of_append_singleton h2
      intro hm
      simp only [List.mem_cons, List.not_mem_nil, or_false] at hm
      rcases hm with hm | hm
      · exact hnotin (hm ▸ List.mem_append_left _ ha)
      · exact hnotin (hm ▸ List.mem_append_left _ hb)
    exact mem_level_succ.mpr ⟨σ[t], List.getElem?_eq_getElem hlt, p, ih (Nat.le_of_lt hlt) p wp hcp, hch⟩

theorem level_out (c : Cfg) (σ : List ℕ) (h0 : c.op = 0) : ∀ (t : ℕ) (x : T), x ∈ level c σ t → x.out = [] := by
  intro t
  induction t with
  | zero =>
    intro x hx
    simp only [level, List.mem_singleton] at hx
    subst hx; rfl
  | succ t ih =>
    intro x hx
    obtain ⟨i, _, p, hp, hx⟩ := mem_level_succ.mp hx
    obtain ⟨kt, hkt, hperm, rfl⟩ := mem_children.mp hx
    have hpo := ih p hp
    rw [placements_eq] at hkt
    simp only [List.mem_append, List.mem_map, List.mem_range, List.mem_singleton] at hkt
    rcases hkt with (⟨j, _, rfl⟩ | ⟨cr, _, rfl⟩) | rfl
    · simp only [exT, T.mk', hpo]; rfl
    · simp only [newT, T.mk', hpo]; rfl
    · exact absurd h0 (hperm rfl)

/-- the trees met along an order of distinct data points below the sentinel are well formed -/
theorem level_wft (c : Cfg) (σ : List ℕ) (hnd : σ.Nodup) (hbig : ∀ i ∈ σ, i < Forest.big) {t : ℕ} {x : T}
    (hx : x ∈ level c σ t) : WFT c x := by
  have inv := level_inv c σ t x hx
  refine ⟨inv.canon, inv.ne, inv.perm.nodup_iff.mpr (hnd.sublist (List.take_sublist _ _)), ?_,
    fun h0 => level_out c σ h0 t x hx⟩
  intro a ha
  exact hbig a (List.mem_of_mem_take (inv.perm.subset ha))

/-- **reachable iff compatible**: a well-formed tree is in the last level along `σ` exactly when `σ`
is one of the orders `RootPermutationDistribution` can draw for it -/
theorem reachable_iff_order (c : Cfg) (σ : List ℕ) (hnd : σ.Nodup) (x : T) (w : WFT c x) :
    x ∈ level c σ σ.length ↔ σ ∈ allOrders x.f x.out := by
  constructor
  · intro hx
    have := level_compat c σ σ.length x hx
    rw [List.take_length] at this
    exact allOrders_complete x.f x.out σ w.nodup this
  · intro hσ
    have := allOrders_sound x.f x.out σ hσ
    apply compat_level c σ hnd σ.length (le_refl _) x w
    rw [List.take_length]
    exact this

#print axioms reachable_iff_order
end PhyModel.PG
