import PhyModel.Proofs.StoreWF_addSub
/-! `Tree.add_subtree` keeps payload lists and `_data` lists aligned (same order): the payloads of the
tree keep their `_data` entries, each grafted payload gets the `_data` list of its name in the subtree. -/
namespace PhyModel.Store
open PhyModel PhyModel.Store PhyModel.Store.Store SF AL

theorem graftMid_aligned {s sub : Store} {f1 : SF} (hs : Inv0 s) (hsub : WF sub)
    (hperm : f1.recs.Perm ((reindex sub.forest s.fresh).1.recs ++ s.forest.recs))
    (ha : Aligned s) (hb : Aligned sub) : Aligned (graftMid s sub f1) := by
  obtain ⟨L, hL1, hL3, hL4, hd, _, _, hf⟩ := graftMid_spec hs hsub hperm
  obtain ⟨hw, hfull⟩ := hs
  have hkd : keys (L.map fun p => (p.2, sub.dataOf p.1.name)) = L.map (·.2) := by
    simp [keys, List.map_map, Function.comp_def]
  intro n hn
  show n.dps = ((graftMid s sub f1).data.lookup n.name).getD []
  rw [hd, List.lookup_append]
  rcases List.mem_append.1 (hf.subset hn) with h | h
  · obtain ⟨p, hp, rfl⟩ := List.mem_map.1 h
    have h0 : s.data.lookup p.2 = none :=
      lookup_none_iff.2 (hL4 p.2 (List.mem_map.2 ⟨p, hp, rfl⟩)).1
    have h1 : (L.map fun p => (p.2, sub.dataOf p.1.name)).lookup p.2 = some (sub.dataOf p.1.name) :=
      lookup_of_mem (hkd ▸ hL3) (List.mem_map.2 ⟨p, hp, rfl⟩)
    show p.1.dps = _
    rw [h0, h1, Option.none_or, Option.getD_some]
    have h2 : (p.1.name, p.1.dps) ∈ sub.forest.recs.map (fun n => (n.name, n.dps)) := by
      rw [← reindex_map (fun n => (n.name, n.dps)) (fun _ _ => rfl) sub.forest s.fresh, ← hL1,
        List.map_map]
      exact List.mem_map.2 ⟨p, hp, rfl⟩
    obtain ⟨m, hm, hme⟩ := List.mem_map.1 h2
    simp only [Prod.mk.injEq] at hme
    rw [← hme.1, ← hme.2]; exact hb m hm
  · obtain ⟨v, hv⟩ := Option.isSome_iff_exists.1 (lookup_isSome_iff.2 (hfull n h))
    rw [hv, Option.some_or, Option.getD_some]
    have := ha n h
    simpa [Store.dataOf, hv] using this

theorem addSubtree_aligned {dt : Data} {s sub s' : Store} {parent : Option Int}
    (h : s.addSubtree dt sub parent = some s') (hs : Inv0 s) (hsub : WF sub)
    (ha : Aligned s) (hb : Aligned sub) : Aligned s' := by
  obtain ⟨f1, src, hperm, hu⟩ := addSubtree_mid' h hs
  have hm := graftMid_aligned hs hsub hperm ha hb
  obtain ⟨hc, _, _, hd, _⟩ := updatePathToRoot_spec hu
  intro n hn
  have : core n ∈ (graftMid s sub f1).forest.cores := hc ▸ List.mem_map.2 ⟨n, hn, rfl⟩
  obtain ⟨b, hb', hbc⟩ := List.mem_map.1 this
  simp only [core, Prod.mk.injEq] at hbc
  simp only [Store.dataOf, hd]
  rw [← hbc.2.1, ← hbc.2.2]; exact hm b hb'

end PhyModel.Store
