import PhyModel.Proofs.ASMC3

open Finset BigOperators

namespace ASMC

variable {X : Type} [Fintype X] [DecidableEq X] {m : ℕ}
variable {sp : Spec (m := m) X} {u : ℚ}

theorem propC_one {T : ℕ} (hv : ValidTo sp T) {t : ℕ} (ht : t < T) (x' : X) {S : Sys X m} (hS : GoodW sp t S) :
    propC sp t x' S (fun _ => 1) = 1 := by
  unfold propC
  simp only [mul_one]
  have := (Finset.prod_univ_sum (fun (_ : Fin m) => (Finset.univ : Finset X))
    (fun i y => sp.q t (S i.succ).1 y)).symm
  rw [Fintype.piFinset_univ] at this
  rw [this]
  apply Finset.prod_eq_one
  intro i _
  exact hv.qsum t _ ht (hS i.succ).2

theorem resC_one {t : ℕ} {S : Sys X m} (hS : GoodW sp t S) :
    resC u S (fun _ => 1) = 1 := by
  unfold resC
  simp only [mul_one]
  have := (Finset.prod_univ_sum (fun (_ : Fin m) => (Finset.univ : Finset (Fin (m+1))))
    (fun _ j => wbar S j)).symm
  rw [Fintype.piFinset_univ] at this
  rw [this]
  apply Finset.prod_eq_one
  intro i _
  exact wbar_sum hS

theorem stepC_one {T : ℕ} (hv : ValidTo sp T) (hu : 0 < u) {t : ℕ} (ht : t < T) (x' : X) {S : Sys X m} (hS : GoodW sp t S) :
    stepC sp u t x' S (fun _ => 1) = 1 := by
  unfold stepC
  split
  · have : (fun S1 : Sys X m => propC sp t x' S1 (fun _ => 1))
        = fun S1 => propC sp t x' S1 (fun _ => 1) := rfl
    unfold resC
    have h1 : ∀ a : Fin m → Fin (m+1),
        propC sp t x' (fun j => reset u (S ((Fin.cons 0 a : Fin (m+1) → Fin (m+1)) j))) (fun _ => 1) = 1 :=
      fun a => propC_one hv ht x' (reset_good hu hS _)
    simp only [h1]
    have := resC_one (u := u) hS
    unfold resC at this
    simpa using this
  · exact propC_one hv ht x' hS

theorem C_one {T : ℕ} (hv : ValidTo sp T) (hu : 0 < u) : ∀ (t : ℕ) (x : X), t ≤ T → 0 < sp.g t x →
    C sp u t x (fun _ => 1) = 1 := by
  intro t
  induction t with
  | zero => intro x _ _; rfl
  | succ t ih =>
    intro x ht hx
    simp only [C]
    have hgs := hv.gsupp t x ht hx
    rw [C_congr hv hu t _ (Nat.le_of_succ_le ht) hgs.1 (f' := fun _ => 1)]
    · exact ih _ (Nat.le_of_succ_le ht) hgs.1
    · intro S hS
      exact stepC_one hv hu ht x hS.2

variable (sp) (u)

/-- unnormalised law of the system when the retained particle is drawn from g t -/
def M (t : ℕ) (f : Sys X m → ℚ) : ℚ := ∑ x, sp.g t x * C sp u t x f

/-- coefficient of the retained child: q · incr = g(t+1) x' / g t x -/
def coef (t : ℕ) (x x' : X) : ℚ := sp.q t x x' * incr sp t x x'

def margP (t : ℕ) (S : Sys X m) (f : Sys X m → ℚ) : ℚ :=
  ∑ x' : X, coef sp t (S 0).1 x' * propC sp t x' S f

def stepM (t : ℕ) (S : Sys X m) (f : Sys X m → ℚ) : ℚ :=
  if sp.rs t (wts S) then resC u S (fun S1 => margP sp t S1 f) else margP sp t S f

variable {sp} {u}

theorem M_lin (t : ℕ) : Lin (M sp u t) := by
  constructor
  · intro f g
    unfold M
    rw [← Finset.sum_add_distrib]
    apply Finset.sum_congr rfl; intro x _
    rw [(C_lin t x).add]; ring
  · intro c f
    unfold M
    rw [Finset.mul_sum]
    apply Finset.sum_congr rfl; intro x _
    rw [(C_lin t x).smul]; ring

theorem M_congr {T : ℕ} (hv : ValidTo sp T) (hu : 0 < u) (t : ℕ) (ht : t ≤ T) {f f' : Sys X m → ℚ}
    (h : ∀ S, GoodW sp t S → f S = f' S) : M sp u t f = M sp u t f' := by
  unfold M
  apply Finset.sum_congr rfl
  intro x _
  by_cases hx : 0 < sp.g t x
  · rw [C_congr hv hu t x ht hx (fun S hS => h S hS.2)]
  · have : sp.g t x = 0 := le_antisymm (not_lt.mp hx) (hv.gnn t x)
    rw [this]; simp

theorem stepM_eq (t : ℕ) (x : X) (S : Sys X m) (hS : (S 0).1 = x) (f : Sys X m → ℚ) :
    stepM sp u t S f = ∑ x' : X, coef sp t x x' * stepC sp u t x' S f := by
  unfold stepM stepC
  split
  · -- resample branch
    have h1 : (fun S1 : Sys X m => margP sp t S1 f) = fun S1 => margP sp t S1 f := rfl
    unfold resC
    have hslot : ∀ a : Fin m → Fin (m+1),
        margP sp t (fun j => reset u (S ((Fin.cons 0 a : Fin (m+1) → Fin (m+1)) j))) f
        = ∑ x' : X, coef sp t x x' *
            propC sp t x' (fun j => reset u (S ((Fin.cons 0 a : Fin (m+1) → Fin (m+1)) j))) f := by
      intro a
      unfold margP
      simp [reset, hS]
    simp only [hslot]
    simp only [Finset.mul_sum]
    rw [Finset.sum_comm]
    apply Finset.sum_congr rfl; intro x' _
    apply Finset.sum_congr rfl; intro a _
    ring
  · unfold margP
    rw [hS]

theorem coef_zero_of_not_parent {T : ℕ} (hv : ValidTo sp T) (t : ℕ) (ht : t < T) (x x' : X) (h : sp.parent x' ≠ x) :
    coef sp t x x' = 0 := by
  unfold coef
  have : sp.q t x x' = 0 := by
    by_contra hne
    have hpos : 0 < sp.q t x x' := lt_of_le_of_ne (hv.qnn t x x') (Ne.symm hne)
    exact h (hv.qparent t x x' ht hpos)
  rw [this]; simp

theorem g_coef {T : ℕ} (hv : ValidTo sp T) (t : ℕ) (ht : t < T) (x' : X) :
    sp.g t (sp.parent x') * coef sp t (sp.parent x') x' = sp.g (t+1) x' := by
  unfold coef incr
  by_cases hx' : 0 < sp.g (t+1) x'
  · obtain ⟨hg, hq⟩ := hv.gsupp t x' ht hx'
    have hg' := ne_of_gt hg
    have hq' := ne_of_gt hq
    field_simp
  · have : sp.g (t+1) x' = 0 := le_antisymm (not_lt.mp hx') (hv.gnn _ _)
    rw [this]; simp

/-- disintegration: the marginal measure satisfies a recursion that no longer mentions the retained path -/
theorem M_succ {T : ℕ} (hv : ValidTo sp T) (hu : 0 < u) (t : ℕ) (ht : t < T) (f : Sys X m → ℚ) :
    M sp u (t+1) f = M sp u t (fun S => stepM sp u t S f) := by
  -- right-hand side
  have hR : M sp u t (fun S => stepM sp u t S f)
      = ∑ x, ∑ x', sp.g t x * (coef sp t x x' * C sp u t x (fun S => stepC sp u t x' S f)) := by
    unfold M
    apply Finset.sum_congr rfl
    intro x _
    by_cases hx : 0 < sp.g t x
    · have : C sp u t x (fun S => stepM sp u t S f)
          = C sp u t x (fun S => ∑ x' : X, coef sp t x x' * stepC sp u t x' S f) :=
        C_congr hv hu t x (Nat.le_of_lt ht) hx (fun S hS => stepM_eq t x S hS.1 f)
      rw [this, (C_lin t x).sum, Finset.mul_sum]
      apply Finset.sum_congr rfl; intro x' _
      rw [(C_lin t x).smul]
    · have h0 : sp.g t x = 0 := le_antisymm (not_lt.mp hx) (hv.gnn t x)
      rw [h0]; simp
  rw [hR, Finset.sum_comm]
  unfold M
  apply Finset.sum_congr rfl
  intro x' _
  simp only [C]
  rw [Finset.sum_eq_single (sp.parent x')]
  · rw [← mul_assoc, g_coef hv t ht]
  · intro x _ hne
    rw [coef_zero_of_not_parent hv t ht x x' (Ne.symm hne)]; simp
  · intro h; exact absurd (mem_univ _) h

#print axioms M_succ
end ASMC
