import PhyModel.Proofs.GraphOf
import PhyModel.Proofs.StoreWF_SF2
/-! `Store.reindex` (the structural operation that hands out fresh graph indices `c, c+1, …` in preorder)
is a renaming of graph indices in the sense of `mapIdx`: the index `a` of a forest with distinct indices
goes to `c +` its position in preorder (`reindexMap`).  The renaming is injective on the indices of the
forest, lands in `[c, c + numNodes)`, and sends an index that is not in the forest (the dummy root 0 of
the graph of a subtree) to the further fresh index `c + numNodes`. -/
namespace PhyModel.Graph
open PhyModel.Store PhyModel.Store.SF

/-- the renaming `reindex` applies: position in preorder -/
def reindexMap (f : SF) (c : Nat) (a : Nat) : Nat := c + f.idxs.idxOf a

theorem length_idxs (f : SF) : f.idxs.length = f.numNodes := by
  rw [numNodes_eq, SF.idxs, List.length_map]

/-- `reindex` agrees with every renaming that sends the `i`-th index in preorder to `c + i` -/
theorem reindex_eq_mapIdx_of_pos : ∀ (f : SF) (c : Nat) (ρ : Nat → Nat),
    (∀ (i : Nat) (h : i < f.idxs.length), ρ (f.idxs[i]) = c + i) → (Store.reindex f c).1 = mapIdx ρ f
  | .nil, _, _, _ => rfl
  | .cons n k s, c, ρ, h => by
    have hn : ρ n.idx = c := by
      have := h 0 (by simp)
      simpa using this
    have hk : ∀ (i : Nat) (hi : i < k.idxs.length), ρ (k.idxs[i]) = (c + 1) + i := fun i hi => by
      have := h (i + 1) (by simp; omega)
      simp only [idxs_cons, List.getElem_cons_succ, List.getElem_append_left hi] at this
      omega
    have hs : ∀ (i : Nat) (hi : i < s.idxs.length),
        ρ (s.idxs[i]) = (Store.reindex k (c + 1)).2 + i := fun i hi => by
      have := h ((k.idxs.length + i) + 1) (by simp; omega)
      simp only [idxs_cons, List.getElem_cons_succ, List.getElem_append_right (Nat.le_add_right _ _),
        Nat.add_sub_cancel_left] at this
      rw [this, reindex_snd, length_idxs]
      omega
    simp only [Store.reindex, mapIdx_cons, hn]
    rw [reindex_eq_mapIdx_of_pos k (c + 1) ρ hk, reindex_eq_mapIdx_of_pos s _ ρ hs]

/-- **`reindex` is the renaming `reindexMap`** -/
theorem reindex_eq_mapIdx {f : SF} (c : Nat) (hn : f.idxs.Nodup) :
    (Store.reindex f c).1 = mapIdx (reindexMap f c) f :=
  reindex_eq_mapIdx_of_pos f c _ fun i h => by rw [reindexMap, hn.idxOf_getElem]

theorem reindexMap_bounds {f : SF} {c a : Nat} (ha : a ∈ f.idxs) :
    c ≤ reindexMap f c a ∧ reindexMap f c a < c + f.numNodes := by
  have := List.idxOf_lt_length_iff.2 ha
  rw [length_idxs] at this
  unfold reindexMap
  omega

theorem reindexMap_inj {f : SF} {c a b : Nat} (ha : a ∈ f.idxs)
    (h : reindexMap f c a = reindexMap f c b) : a = b :=
  (List.idxOf_inj ha).1 (by unfold reindexMap at h; omega)

/-- an index outside the forest (the dummy root) gets the index after the last one handed out -/
theorem reindexMap_of_not_mem {f : SF} {c a : Nat} (ha : a ∉ f.idxs) : reindexMap f c a = c + f.numNodes := by
  rw [reindexMap, List.idxOf_eq_length_iff.2 ha, length_idxs]

theorem reindexMap_zero {f : SF} {c : Nat} (h0 : 0 ∉ f.idxs) : reindexMap f c 0 = c + f.numNodes :=
  reindexMap_of_not_mem h0

/-- the images of the indices of the forest are `c, c+1, …` in preorder -/
theorem map_reindexMap {f : SF} (c : Nat) (hn : f.idxs.Nodup) :
    f.idxs.map (reindexMap f c) = List.range' c f.numNodes := by
  rw [← idxs_mapIdx, ← reindex_eq_mapIdx c hn, reindex_idxs]

/-- the renaming is injective on the dummy root together with the indices of the forest -/
theorem nodup_map_reindexMap {f : SF} (c : Nat) (hn : f.idxs.Nodup) (h0 : 0 ∉ f.idxs) :
    ((0 :: f.idxs).map (reindexMap f c)).Nodup := by
  rw [List.map_cons, map_reindexMap c hn, reindexMap_zero h0, List.nodup_cons]
  refine ⟨fun h => ?_, List.nodup_range'⟩
  rw [List.mem_range'_1] at h
  omega

/-- every image is at least `c` -/
theorem le_reindexMap (f : SF) (c a : Nat) : c ≤ reindexMap f c a := Nat.le_add_right _ _

end PhyModel.Graph
