import PhyModel.Proofs.MovesCanon3
import PhyModel.Proofs.MovesPr
/-! Facts about `removeSub` / `attachUnder` on well-formed forests, and the "is a child of"
invariant that tells re-attachments apart. -/
namespace PhyModel
open Orders Orders.Forest PhyModel.Moves

namespace Canon

theorem not_contains_of_not_mem {a : Nat} {l : List Nat} (h : a ∉ l) : l.contains a = false := by
  simpa using h

theorem removeSub_of_not_mem {key : Nat} {f : DF} (h : key ∉ f.all) : removeSub key f = f := by
  induction f with
  | nil => rfl
  | cons d k s ihk ihs =>
    simp only [Forest.all, List.mem_append, not_or] at h
    simp only [removeSub, not_contains_of_not_mem h.1.2, Bool.false_eq_true, if_false, ihk h.1.1, ihs h.2]

theorem attachUnder_of_not_mem {key : Nat} (sd : List Nat) (sk : DF) {f : DF} (h : key ∉ f.all) :
    attachUnder key sd sk f = f := by
  induction f with
  | nil => rfl
  | cons d k s ihk ihs =>
    simp only [Forest.all, List.mem_append, not_or] at h
    simp only [attachUnder, not_contains_of_not_mem h.1.2, Bool.false_eq_true, if_false, ihk h.1.1, ihs h.2]

theorem removeSub_all_sublist (key : Nat) (f : DF) : (removeSub key f).all.Sublist f.all := by
  induction f with
  | nil => exact List.Sublist.refl _
  | cons d k s ihk ihs =>
    simp only [removeSub]
    split
    · simp only [Forest.all]; exact List.Sublist.trans ihs (List.sublist_append_right _ _)
    · simp only [Forest.all]
      exact (ihk.append (List.Sublist.refl d)).append ihs

theorem removeSub_ne (key : Nat) {f : DF} (h : NE f) : NE (removeSub key f) := by
  induction f with
  | nil => trivial
  | cons d k s ihk ihs =>
    simp only [removeSub]
    split
    · exact ihs h.2.2
    · exact ⟨h.1, ihk h.2.1, ihs h.2.2⟩

theorem removeSub_wf (key : Nat) {f : DF} (w : WF f) : WF (removeSub key f) :=
  ⟨(removeSub_all_sublist key f).nodup w.nodup, removeSub_ne key w.ne,
    fun a ha => w.small a ((removeSub_all_sublist key f).subset ha)⟩

/-- pruning the freshly attached subtree gives back the forest -/
theorem removeSub_attachUnder {key : Nat} (a : Nat) {sd : List Nat} (sk : DF) {f : DF}
    (hk : key ∈ sd) (hf : key ∉ f.all) : removeSub key (attachUnder a sd sk f) = f := by
  induction f with
  | nil => rfl
  | cons d k s ihk ihs =>
    simp only [Forest.all, List.mem_append, not_or] at hf
    simp only [attachUnder]
    split
    · simp only [removeSub, not_contains_of_not_mem hf.1.2, Bool.false_eq_true, if_false,
        List.contains_iff_mem.mpr hk, if_true, removeSub_of_not_mem hf.1.1, ihs hf.2]
    · simp only [removeSub, not_contains_of_not_mem hf.1.2, Bool.false_eq_true, if_false,
        ihk hf.1.1, ihs hf.2]

theorem removeSub_cons_self {key : Nat} {sd : List Nat} (sk : DF) {f : DF}
    (hk : key ∈ sd) (hf : key ∉ f.all) : removeSub key (.cons sd sk f) = f := by
  simp only [removeSub, List.contains_iff_mem.mpr hk, if_true, removeSub_of_not_mem hf]

/-- the data of a re-attachment: the pruned forest plus the clade of the subtree -/
theorem attachUnder_all_perm {a : Nat} (sd : List Nat) (sk : DF) {f : DF} (hn : f.all.Nodup)
    (ha : a ∈ f.all) : (attachUnder a sd sk f).all.Perm ((sk.all ++ sd) ++ f.all) := by
  induction f with
  | nil => simp [Forest.all] at ha
  | cons d k s ihk ihs =>
    simp only [Forest.all] at hn ha
    obtain ⟨hkd, hs, hdisj2⟩ := List.nodup_append.mp hn
    obtain ⟨hk, _, hdisj1⟩ := List.nodup_append.mp hkd
    simp only [attachUnder]
    by_cases hc : d.contains a = true
    · have had : a ∈ d := List.contains_iff_mem.mp hc
      have has : a ∉ s.all := fun h => hdisj2 a (List.mem_append_right _ had) a h rfl
      simp only [hc, if_true, Forest.all, attachUnder_of_not_mem sd sk has]
      simp only [List.append_assoc]
      exact List.Perm.refl _
    · have had : a ∉ d := fun h => hc (List.contains_iff_mem.mpr h)
      simp only [not_contains_of_not_mem had, Bool.false_eq_true, if_false, Forest.all]
      by_cases hak : a ∈ k.all
      · have has : a ∉ s.all := fun h => hdisj2 a (List.mem_append_left _ hak) a h rfl
        rw [attachUnder_of_not_mem sd sk has]
        have := ((ihk hk hak).append_right d).append_right s.all
        simpa only [List.append_assoc] using this
      · have has : a ∈ s.all := by
          rcases List.mem_append.mp ha with h | h
          · rcases List.mem_append.mp h with h | h
            · exact absurd h hak
            · exact absurd h had
          · exact h
        rw [attachUnder_of_not_mem sd sk hak]
        refine ((ihs hs has).append_left (k.all ++ d)).trans ?_
        rw [← List.append_assoc (k.all ++ d), ← List.append_assoc (sk.all ++ sd)]
        exact List.Perm.append_right _ List.perm_append_comm

theorem attachUnder_ne (a : Nat) {sd : List Nat} {sk : DF} {f : DF} (hsd : sd ≠ []) (hsk : NE sk)
    (h : NE f) : NE (attachUnder a sd sk f) := by
  induction f with
  | nil => trivial
  | cons d k s ihk ihs =>
    simp only [attachUnder]
    split
    · exact ⟨h.1, ⟨hsd, hsk, h.2.1⟩, ihs h.2.2⟩
    · exact ⟨h.1, ihk h.2.1, ihs h.2.2⟩

theorem attachUnder_nodes {a : Nat} (sd : List Nat) (sk : DF) {f : DF} (hn : f.all.Nodup)
    (ha : a ∈ f.all) : (attachUnder a sd sk f).nodes = f.nodes + 1 + sk.nodes := by
  induction f with
  | nil => simp [Forest.all] at ha
  | cons d k s ihk ihs =>
    simp only [Forest.all] at hn ha
    obtain ⟨hkd, hs, hdisj2⟩ := List.nodup_append.mp hn
    obtain ⟨hk, _, hdisj1⟩ := List.nodup_append.mp hkd
    simp only [attachUnder]
    by_cases hc : d.contains a = true
    · have had : a ∈ d := List.contains_iff_mem.mp hc
      have has : a ∉ s.all := fun h => hdisj2 a (List.mem_append_right _ had) a h rfl
      simp only [hc, if_true, Forest.nodes, attachUnder_of_not_mem sd sk has]; omega
    · have had : a ∉ d := fun h => hc (List.contains_iff_mem.mpr h)
      simp only [not_contains_of_not_mem had, Bool.false_eq_true, if_false, Forest.nodes]
      by_cases hak : a ∈ k.all
      · have has : a ∉ s.all := fun h => hdisj2 a (List.mem_append_left _ hak) a h rfl
        rw [attachUnder_of_not_mem sd sk has, ihk hk hak]; omega
      · have has : a ∈ s.all := by
          rcases List.mem_append.mp ha with h | h
          · rcases List.mem_append.mp h with h | h
            · exact absurd h hak
            · exact absurd h had
          · exact h
        rw [attachUnder_of_not_mem sd sk hak, ihs hs has]; omega

theorem mem_nodesOf_attachUnder {a : Nat} (sd : List Nat) (sk : DF) {f : DF} (ha : a ∈ f.all) :
    (sd, sk) ∈ nodesOf (attachUnder a sd sk f) := by
  induction f with
  | nil => simp [Forest.all] at ha
  | cons d k s ihk ihs =>
    simp only [attachUnder]
    by_cases hc : d.contains a = true
    · simp only [hc, if_true]
      exact nodesOf_kids_sub (mem_nodesOf_cons.mpr (Or.inl rfl))
    · have had : a ∉ d := fun h => hc (List.contains_iff_mem.mpr h)
      simp only [not_contains_of_not_mem had, Bool.false_eq_true, if_false]
      simp only [Forest.all, List.mem_append] at ha
      rcases ha with (h | h) | h
      · exact nodesOf_kids_sub (ihk h)
      · exact absurd h had
      · exact nodesOf_sibs_sub (ihs h)

/-! ### "is a child of" -/

/-- some top-level clone holds `a` -/
def rootsHave (a : Nat) : DF → Bool
  | .nil => false
  | .cons d _ s => d.contains a || rootsHave a s

/-- the clone holding `a` is a child of a clone holding `b` -/
def childOf (a b : Nat) : DF → Bool
  | .nil => false
  | .cons d k s => (d.contains b && rootsHave a k) || childOf a b k || childOf a b s

theorem rootsHave_eqv (a : Nat) {f g : DF} (h : Eqv f g) : rootsHave a f = rootsHave a g := by
  induction h with
  | nil => rfl
  | cons hd _ _ _ ihs => simp only [rootsHave, hd.contains_eq, ihs]
  | swap d₁ k₁ d₂ k₂ s =>
    simp only [rootsHave]
    cases d₁.contains a <;> cases d₂.contains a <;> simp
  | trans _ _ ih₁ ih₂ => exact ih₁.trans ih₂

theorem childOf_eqv (a b : Nat) {f g : DF} (h : Eqv f g) : childOf a b f = childOf a b g := by
  induction h with
  | nil => rfl
  | cons hd hk _ ihk ihs => simp only [childOf, hd.contains_eq, rootsHave_eqv a hk, ihk, ihs]
  | swap d₁ k₁ d₂ k₂ s =>
    simp only [childOf]
    cases (d₁.contains b && rootsHave a k₁) <;> cases childOf a b k₁ <;>
      cases (d₂.contains b && rootsHave a k₂) <;> cases childOf a b k₂ <;> simp
  | trans _ _ ih₁ ih₂ => exact ih₁.trans ih₂

theorem rootsHave_mem {a : Nat} {f : DF} (h : rootsHave a f = true) : a ∈ f.all := by
  induction f with
  | nil => simp [rootsHave] at h
  | cons d k s _ ihs =>
    simp only [rootsHave, Bool.or_eq_true, List.contains_iff_mem] at h
    simp only [Forest.all, List.mem_append]
    rcases h with h | h
    · exact Or.inl (Or.inr h)
    · exact Or.inr (ihs h)

theorem childOf_mem {a b : Nat} {f : DF} (h : childOf a b f = true) : a ∈ f.all ∧ b ∈ f.all := by
  induction f with
  | nil => simp [childOf] at h
  | cons d k s ihk ihs =>
    simp only [childOf, Bool.or_eq_true, Bool.and_eq_true, List.contains_iff_mem] at h
    simp only [Forest.all, List.mem_append]
    rcases h with (⟨h1, h2⟩ | h) | h
    · exact ⟨Or.inl (Or.inl (rootsHave_mem h2)), Or.inl (Or.inr h1)⟩
    · exact ⟨Or.inl (Or.inl (ihk h).1), Or.inl (Or.inl (ihk h).2)⟩
    · exact ⟨Or.inr (ihs h).1, Or.inr (ihs h).2⟩

theorem childOf_false_left {a b : Nat} {f : DF} (h : a ∉ f.all) : childOf a b f = false := by
  cases hc : childOf a b f with
  | false => rfl
  | true => exact absurd (childOf_mem hc).1 h

theorem childOf_false_right {a b : Nat} {f : DF} (h : b ∉ f.all) : childOf a b f = false := by
  cases hc : childOf a b f with
  | false => rfl
  | true => exact absurd (childOf_mem hc).2 h

theorem rootsHave_false {a : Nat} {f : DF} (h : a ∉ f.all) : rootsHave a f = false := by
  cases hc : rootsHave a f with
  | false => rfl
  | true => exact absurd (rootsHave_mem hc) h

theorem rootsHave_attachUnder (a key : Nat) (sd : List Nat) (sk : DF) (f : DF) :
    rootsHave a (attachUnder key sd sk f) = rootsHave a f := by
  induction f with
  | nil => rfl
  | cons d k s _ ihs =>
    simp only [attachUnder]
    split <;> simp only [rootsHave, ihs]

theorem together_false {a b : Nat} {f : DF} (h : a ∉ f.all) : together a b f = false := by
  cases hc : together a b f with
  | false => rfl
  | true =>
    obtain ⟨nd, hnd, ha, _⟩ := together_iff.mp hc
    exact absurd (mem_all_iff.mpr ⟨nd, hnd, ha⟩) h

/-- after attaching the subtree (which holds `key`) under the clone of `a`, `key`'s clone is a child
of `b`'s clone iff `a` and `b` share a clone -/
theorem childOf_attachUnder {key a b : Nat} {sd : List Nat} {sk : DF} {f : DF} (hn : f.all.Nodup)
    (hk : key ∈ sd) (hkf : key ∉ f.all) (hb : b ∉ sk.all ++ sd) :
    childOf key b (attachUnder a sd sk f) = together a b f := by
  induction f with
  | nil => rfl
  | cons d k s ihk ihs =>
    simp only [Forest.all] at hn
    obtain ⟨hkd, hs, hdisj2⟩ := List.nodup_append.mp hn
    obtain ⟨hkn, _, hdisj1⟩ := List.nodup_append.mp hkd
    simp only [Forest.all, List.mem_append, not_or] at hkf
    simp only [List.mem_append, not_or] at hb
    simp only [attachUnder]
    by_cases hc : d.contains a = true
    · have had : a ∈ d := List.contains_iff_mem.mp hc
      have hak : a ∉ k.all := fun h => hdisj1 a h a had rfl
      simp only [hc, if_true, childOf, together, rootsHave, List.contains_iff_mem.mpr hk, Bool.true_or,
        Bool.and_true, Bool.true_and, not_contains_of_not_mem hb.2, Bool.false_and, Bool.false_or,
        childOf_false_right (a := key) hb.1, childOf_false_left (b := b) hkf.1.1,
        together_false (b := b) hak, Bool.or_false, ihs hs hkf.2]
    · simp only [Bool.not_eq_true] at hc
      simp only [hc, Bool.false_eq_true, if_false, childOf, together, Bool.false_and, Bool.false_or,
        rootsHave_attachUnder, rootsHave_false hkf.1.1, Bool.and_false, ihk hkn hkf.1.1, ihs hs hkf.2]

theorem childOf_cons_root {key b : Nat} {sd : List Nat} {sk : DF} {f : DF}
    (hkf : key ∉ f.all) (hb : b ∉ sk.all ++ sd) : childOf key b (.cons sd sk f) = false := by
  simp only [List.mem_append, not_or] at hb
  simp only [childOf, not_contains_of_not_mem hb.2, Bool.false_and, Bool.false_or,
    childOf_false_right (a := key) hb.1, childOf_false_left (b := b) hkf]

end Canon
end PhyModel
