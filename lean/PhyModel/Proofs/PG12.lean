import PhyModel.Proofs.PG10
import PhyModel.Proofs.PG11
import Mathlib.Data.Fin.Tuple.Sort
import Mathlib.Data.List.FinRange
/-! # C01, stage 3, part 3: swarms as lists against particle systems as functions; the resampling step.

`swOf S` is the list form of the particle system `S`.  `SMC.resample` (ancestors drawn by
`multinomial(N-1, ·)`, laid out in index order, slot 0 kept) has, for every continuation that does not
depend on the order of the slots `1 … m`, the expectation given by `ASMC.resC`. -/

namespace PhyModel.PG
open Finset BigOperators Proposal PGSpec Orders.Forest

variable {L : List T} {m : ℕ}

/-- list form of a particle system -/
def swOf (S : ASMC.Sys (St L) m) : SMC.Swarm := List.ofFn (fun j : Fin (m+1) => ((S j).1.1, (S j).2))

theorem swOf_length (S : ASMC.Sys (St L) m) : (swOf S).length = m + 1 := by simp [swOf]

theorem swOf_getD (S : ASMC.Sys (St L) m) (j : Fin (m+1)) :
    (swOf S).getD j.val (T.empty, 0) = ((S j).1.1, (S j).2) := by
  unfold swOf
  rw [List.getD_eq_getElem?_getD, List.getElem?_ofFn]
  have hj : j.val < m + 1 := j.isLt
  simp [hj]

theorem lsum_ofFn {α : Type} {n : ℕ} (f : Fin n → α) (F : α → ℚ) : lsum (List.ofFn f) F = ∑ i, F (f i) := by
  unfold lsum
  rw [List.map_ofFn, List.sum_ofFn]
  rfl

theorem sumW_swOf (S : ASMC.Sys (St L) m) : SMC.sumW (swOf S) = ∑ i, (S i).2 := by
  unfold SMC.sumW
  rw [Dist.categorical_tot, swOf, lsum_ofFn]

theorem sumW2_swOf (S : ASMC.Sys (St L) m) : SMC.sumW2 (swOf S) = ∑ i, (S i).2 * (S i).2 := by
  unfold SMC.sumW2
  rw [Dist.foldl_add_eq, zero_add]
  have : ((swOf S).map fun x => x.2 * x.2).sum = lsum (swOf S) (fun x => x.2 * x.2) := rfl
  rw [this, swOf, lsum_ofFn]

theorem needResample_swOf (r : SMC.Run) (S : ASMC.Sys (St L) m) (t : ℕ) (ht : t ≠ 0) :
    SMC.needResample r (swOf S) = essRule r.θ m t (ASMC.wts S) := by
  unfold SMC.needResample essRule
  rw [sumW_swOf, sumW2_swOf, swOf_length]
  have h1 : (t != 0) = true := by simpa using ht
  rw [h1, Bool.true_and]
  simp only [ASMC.wts]
  congr 3
  push_cast
  ring

/-- sorting a tuple of numbers is composing it with a permutation -/
theorem sortNat_ofFn {n : ℕ} (f : Fin n → ℕ) : sortNat (List.ofFn f) = List.ofFn (f ∘ Tuple.sort f) := by
  rw [← Canon.sortNat_congr (Equiv.Perm.ofFn_comp_perm (Tuple.sort f) f)]
  apply Canon.sortNat_of_sorted
  rw [List.pairwise_ofFn]
  intro i j hij
  exact Tuple.monotone_sort f (le_of_lt hij)

/-- one ancestor draw -/
theorem E_ancestor (S : ASMC.Sys (St L) m) (h : ℕ → ℚ) :
    Dist.E (Dist.categorical ((List.range (swOf S).length).map fun k => (k, ((swOf S).getD k (T.empty, 0)).2))) h
      = ∑ a : Fin (m+1), ASMC.wbar S a * h a.val := by
  rw [Dist.E_categorical, lsum_map, lsum_map, swOf_length, lsum_range_fin, lsum_range_fin]
  simp only [swOf_getD]
  unfold ASMC.wbar ASMC.tot
  rw [Finset.sum_div]
  apply Finset.sum_congr rfl
  intro a _
  ring

/-- the code's layout of the resampled swarm (slot 0 kept, ancestors in index order) is the list form of
the abstractly resampled system with its slots `1 … m` permuted -/
theorem layout_eq (S : ASMC.Sys (St L) m) (a : Fin m → Fin (m+1)) (ρ : Equiv.Perm (Fin m)) (u : ℚ) :
    ((((swOf S).getD 0 (T.empty, 0)).1, u) ::
        (List.ofFn (fun i => (a (ρ i)).val)).map fun k => (((swOf S).getD k (T.empty, 0)).1, u))
      = swOf ((fun j => ASMC.reset u (S ((Fin.cons 0 a : Fin (m+1) → Fin (m+1)) j))) ∘ ASMC.ext0 ρ) := by
  have h0 := swOf_getD S 0
  simp only [Fin.val_zero] at h0
  rw [h0, List.map_ofFn]
  conv_rhs => unfold swOf
  rw [List.ofFn_succ]
  congr 1
  congr 1
  funext i
  simp only [Function.comp, ASMC.ext0_succ, Fin.cons_succ, ASMC.reset]
  rw [swOf_getD S (a (ρ i))]

/-- **resampling**: for a continuation `K` that does not depend on the order of the slots `1 … m` of
the resampled systems -/
theorem resample_E (r : SMC.Run) (hN : r.N = m + 1) (S : ASMC.Sys (St L) m) (t : ℕ) (ht : t ≠ 0)
    (K : SMC.Swarm → ℚ)
    (hK : ∀ (a : Fin m → Fin (m+1)) (ρ : Equiv.Perm (Fin m)),
      K (swOf ((fun j => ASMC.reset (1 / ((m + 1 : ℕ) : ℚ)) (S ((Fin.cons 0 a : Fin (m+1) → Fin (m+1)) j)))
        ∘ ASMC.ext0 ρ))
      = K (swOf (fun j => ASMC.reset (1 / ((m + 1 : ℕ) : ℚ)) (S ((Fin.cons 0 a : Fin (m+1) → Fin (m+1)) j))))) :
    Dist.E (SMC.resample r (swOf S)) K
      = if essRule r.θ m t (ASMC.wts S) then ASMC.resC (1 / (r.N : ℚ)) S (fun S' => K (swOf S'))
        else K (swOf S) := by
  unfold SMC.resample
  rw [needResample_swOf r S t ht]
  split
  · rw [Dist.E_norm, E_fmap, ancestorSeqs_eq, hN, Nat.add_sub_cancel]
    rw [E_seqD m _ (fun _ a => ASMC.wbar S a) (fun _ (a : Fin (m+1)) => a.val) (fun _ h => E_ancestor S h)]
    unfold ASMC.resC
    apply Finset.sum_congr rfl
    intro a _
    congr 1
    rw [sortNat_ofFn]
    have hl := layout_eq S a (Tuple.sort (fun i => (a i).val)) (1 / ((m + 1 : ℕ) : ℚ))
    exact (congrArg K hl).trans (hK a (Tuple.sort (fun i => (a i).val)))
  · exact E_pure _ _

end PhyModel.PG
