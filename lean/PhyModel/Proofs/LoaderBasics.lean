import Mathlib.Data.String.Basic
import PhyModel.Model.Loader
/-! Helper lemmas for the loader model (C17): `dedup`, `sortedDistinct`, `mapE`, `enumFrom`,
the order on identifiers. -/

namespace PhyModel.Loader
open List

variable {α β ε : Type}

/-! ### `dedup` -/

theorem mem_dedup [DecidableEq α] {a : α} : ∀ {l : List α}, a ∈ dedup l ↔ a ∈ l
  | [] => by simp [dedup]
  | b :: t => by
    unfold dedup
    by_cases h : b ∈ t
    · simp only [h, if_true, mem_cons]
      rw [mem_dedup (l := t)]
      constructor
      · exact Or.inr
      · rintro (rfl | h') <;> assumption
    · simp only [h, if_false, mem_cons]
      rw [mem_dedup (l := t)]

theorem dedup_sublist [DecidableEq α] : ∀ l : List α, (dedup l).Sublist l
  | [] => by simp [dedup]
  | b :: t => by
    unfold dedup
    by_cases h : b ∈ t
    · simp only [h, if_true]
      exact (dedup_sublist t).cons _
    · simp only [h, if_false]
      exact (dedup_sublist t).cons_cons _

theorem nodup_dedup [DecidableEq α] : ∀ l : List α, (dedup l).Nodup
  | [] => by simp [dedup]
  | b :: t => by
    unfold dedup
    by_cases h : b ∈ t
    · simp only [h, if_true]
      exact nodup_dedup t
    · simp only [h, if_false]
      exact nodup_cons.mpr ⟨fun hb => h (mem_dedup.mp hb), nodup_dedup t⟩

/-! ### `sortedDistinct` under a total order given as a Boolean relation -/

structure IsTotalOrderB (le : α → α → Bool) : Prop where
  trans : ∀ a b c, le a b = true → le b c = true → le a c = true
  total : ∀ a b, (le a b || le b a) = true
  antisymm : ∀ a b, le a b = true → le b a = true → a = b

theorem mergeSort_eq_of_perm {le : α → α → Bool} (ho : IsTotalOrderB le) {l₁ l₂ : List α}
    (h : l₁ ~ l₂) : l₁.mergeSort le = l₂.mergeSort le := by
  apply Perm.eq_of_pairwise (le := fun a b => le a b = true)
  · intro a b _ _ hab hba; exact ho.antisymm a b hab hba
  · exact pairwise_mergeSort ho.trans ho.total l₁
  · exact pairwise_mergeSort ho.trans ho.total l₂
  · exact (mergeSort_perm l₁ le).trans (h.trans (mergeSort_perm l₂ le).symm)

theorem sortedDistinct_perm [DecidableEq α] {le : α → α → Bool} (ho : IsTotalOrderB le)
    {l₁ l₂ : List α} (h : l₁ ~ l₂) : sortedDistinct le l₁ = sortedDistinct le l₂ := by
  unfold sortedDistinct
  rw [mergeSort_eq_of_perm ho h]

theorem mem_sortedDistinct [DecidableEq α] {le : α → α → Bool} {a : α} {l : List α} :
    a ∈ sortedDistinct le l ↔ a ∈ l := by
  unfold sortedDistinct
  rw [mem_dedup, mem_mergeSort]

theorem nodup_sortedDistinct [DecidableEq α] (le : α → α → Bool) (l : List α) :
    (sortedDistinct le l).Nodup := nodup_dedup _

/-- on an already sorted list `sortedDistinct` only removes duplicates (used by the concrete examples) -/
theorem sortedDistinct_of_sorted [DecidableEq α] {le : α → α → Bool} {l : List α}
    (h : l.Pairwise (fun a b => le a b = true)) : sortedDistinct le l = dedup l := by
  unfold sortedDistinct; rw [mergeSort_of_pairwise h]

/-- strictly increasing: the statement "in sorted identifier order" -/
theorem sortedDistinct_strict [DecidableEq α] {le : α → α → Bool} (ho : IsTotalOrderB le)
    (l : List α) : (sortedDistinct le l).Pairwise (fun a b => le a b = true ∧ a ≠ b) := by
  have h1 : (sortedDistinct le l).Pairwise (fun a b => le a b = true) :=
    (pairwise_mergeSort ho.trans ho.total l).sublist (dedup_sublist _)
  have h2 : (sortedDistinct le l).Pairwise (fun a b => a ≠ b) := nodup_sortedDistinct le l
  exact h1.and h2

/-! ### the identifier orders -/

theorem strLe_order : IsTotalOrderB strLe where
  trans a b c h1 h2 := by
    simp only [strLe, decide_eq_true_eq] at *
    exact le_trans h1 h2
  total a b := by
    simp only [strLe, Bool.or_eq_true, decide_eq_true_eq]
    exact le_total a b
  antisymm a b h1 h2 := by
    simp only [strLe, decide_eq_true_eq] at *
    exact le_antisymm h1 h2

theorem natLe_order : IsTotalOrderB natLe where
  trans a b c h1 h2 := by
    simp only [natLe, decide_eq_true_eq] at *
    omega
  total a b := by
    simp only [natLe, Bool.or_eq_true, decide_eq_true_eq]
    omega
  antisymm a b h1 h2 := by
    simp only [natLe, decide_eq_true_eq] at *
    omega

/-! ### `mapE` -/

theorem mapE_congr {f g : α → Except ε β} {l : List α} (h : ∀ a ∈ l, f a = g a) :
    mapE f l = mapE g l := by
  induction l with
  | nil => rfl
  | cons a t ih =>
    have ht : mapE f t = mapE g t := ih fun x hx => h x (mem_cons_of_mem _ hx)
    simp only [mapE, h a mem_cons_self, ht]

/-- a successful `mapE` relates inputs and outputs position by position -/
theorem mapE_ok {f : α → Except ε β} : ∀ {l : List α} {r : List β},
    mapE f l = .ok r → Forall₂ (fun a b => f a = .ok b) l r
  | [], r, h => by
    simp only [mapE, Except.ok.injEq] at h
    subst h; exact Forall₂.nil
  | a :: t, r, h => by
    simp only [mapE] at h
    cases hfa : f a with
    | error e => simp [hfa] at h
    | ok b =>
      cases ht : mapE f t with
      | error e => simp [hfa, ht] at h
      | ok bs =>
        simp only [hfa, ht, Except.ok.injEq] at h
        subst h
        exact Forall₂.cons hfa (mapE_ok ht)

theorem mapE_ok_mem {f : α → Except ε β} {l : List α} {r : List β} (h : mapE f l = .ok r)
    {a : α} (ha : a ∈ l) : ∃ b ∈ r, f a = .ok b := by
  have h2 := mapE_ok h
  induction h2 with
  | nil => simp at ha
  | @cons x y xs ys hxy _ ih =>
    cases ht : mapE f xs with
    | error e => simp [mapE, hxy, ht] at h
    | ok bs =>
      have hys : bs = ys := by simpa [mapE, hxy, ht] using h
      subst hys
      rcases mem_cons.mp ha with rfl | ha'
      · exact ⟨y, mem_cons_self, hxy⟩
      · obtain ⟨b, hb, hfb⟩ := ih ht ha'
        exact ⟨b, mem_cons_of_mem _ hb, hfb⟩

theorem mapE_ok_mem_right {f : α → Except ε β} {l : List α} {r : List β} (h : mapE f l = .ok r)
    {b : β} (hb : b ∈ r) : ∃ a ∈ l, f a = .ok b := by
  have h2 := mapE_ok h
  clear h
  induction h2 with
  | nil => simp at hb
  | @cons x y xs ys hxy _ ih =>
    rcases mem_cons.mp hb with rfl | hb'
    · exact ⟨x, mem_cons_self, hxy⟩
    · obtain ⟨a, ha, hfa⟩ := ih hb'
      exact ⟨a, mem_cons_of_mem _ ha, hfa⟩

theorem mapE_ok_of {f : α → Except ε β} : ∀ {l : List α}, (∀ a ∈ l, ∃ b, f a = .ok b) →
    ∃ r, mapE f l = .ok r
  | [], _ => ⟨[], rfl⟩
  | a :: t, h => by
    obtain ⟨b, hb⟩ := h a mem_cons_self
    obtain ⟨bs, hbs⟩ := mapE_ok_of (l := t) fun x hx => h x (mem_cons_of_mem _ hx)
    exact ⟨b :: bs, by simp [mapE, hb, hbs]⟩

/-! ### `enumFrom` -/

theorem enumFrom_length (n : Nat) (l : List α) : (enumFrom n l).length = l.length := by
  induction l generalizing n with
  | nil => rfl
  | cons a t ih => simp [enumFrom, ih]

theorem enumFrom_getElem? (n : Nat) (l : List α) (i : Nat) :
    (enumFrom n l)[i]? = l[i]?.map fun a => (n + i, a) := by
  induction l generalizing n i with
  | nil => simp [enumFrom]
  | cons a t ih =>
    cases i with
    | zero => simp [enumFrom]
    | succ i =>
      simp only [enumFrom, getElem?_cons_succ, ih]
      congr 1; funext x; congr 1; omega

theorem enumFrom_map_snd (n : Nat) (l : List α) : (enumFrom n l).map (·.2) = l := by
  induction l generalizing n with
  | nil => rfl
  | cons a t ih => simp [enumFrom, ih]

end PhyModel.Loader
