import PhyModel.Proofs.PG18
import PhyModel.Proofs.PG14
/-! # C01, stage 3, part 10: the retained path.  For a tree `x` reached along `σ`, the states
`SMC.restrict x (σ.take t)` that `ConditionalSMCSampler` rebuilds (`_get_constrained_path`) are the
ancestors of `x` in the specification: each is a level-`t` state and the next one is one of its
permitted placements (`exists_pathOK`). -/

namespace PhyModel.PG
open Orders Orders.Forest Proposal PGSpec Canon SMC

/-- removing `i` first does not change the forest induced on a set not containing `i` -/
theorem restrict_recover {y : T} (w : WF y.f) {i : ℕ} {K : List ℕ} (hi : i ∉ K) :
    SMC.restrict (recover i y) K = SMC.restrict y K := by
  have hk : (fun a : ℕ => (a != i) && K.contains a) = fun a => K.contains a := by
    funext a
    by_cases ha : a ∈ K
    · have : a ≠ i := by
        rintro rfl
        exact hi ha
      simp [ha, this]
    · simp [ha]
  unfold SMC.restrict recover T.mk'
  congr 1
  · -- forests
    set G := restrictF (fun a => a != i) y.f with hG
    have wG : WF G := restrictF_wf _ w
    have h1 : Eqv (restrictF (fun a => K.contains a) (Forest.canon G)) (restrictF (fun a => K.contains a) G) :=
      restrictF_eqv _ (canon_eqv G)
    rw [canon_congr h1 (restrictF_wf _ (canon_wf wG)), hG, restrictF_comp, hk]
  · -- outliers
    show sortNat ((sortNat (y.out.filter fun a => a != i)).filter fun a => K.contains a)
      = sortNat (y.out.filter fun a => K.contains a)
    rw [filter_sortNat, PhyModel.sortNat_idem, List.filter_filter]
    congr 2
    funext a
    rw [Bool.and_comm]
    exact congrFun hk a

variable {c : Cfg} {σ : List ℕ}

theorem restrict_self {t : ℕ} {y : T} (hy : y ∈ level c σ t) : SMC.restrict y (σ.take t) = y := by
  have inv := level_inv c σ t y hy
  unfold SMC.restrict
  have h1 : restrictF (fun i => (σ.take t).contains i) y.f = y.f := by
    apply restrictF_id _ _ inv.ne
    intro a ha
    simpa using inv.perm.subset (List.mem_append_left _ ha)
  have h2 : y.out.filter (fun i => (σ.take t).contains i) = y.out := by
    apply List.filter_eq_self.mpr
    intro a ha
    simpa using inv.perm.subset (List.mem_append_right _ ha)
  rw [h1, h2]
  exact inv.canon

theorem restrict_child (hnd : σ.Nodup) (hbig : ∀ i ∈ σ, i < Forest.big) {t : ℕ} {p y : T}
    (hp : p ∈ level c σ t) {i : ℕ} (hi : σ[t]? = some i) (hy : y ∈ children c p i) {s : ℕ} (hs : s ≤ t) :
    SMC.restrict y (σ.take s) = SMC.restrict p (σ.take s) := by
  obtain ⟨hlt, rfl⟩ := List.getElem?_eq_some_iff.mp hi
  have wy := (level_wft c σ hnd hbig (child_mem_level hp hi hy)).wf
  have wp := level_wft c σ hnd hbig hp
  have inv := level_inv c σ t p hp
  obtain ⟨kt, hkt, _, rfl⟩ := mem_children.mp hy
  have hfresh : σ[t] ∉ σ.take s := by
    intro hm
    obtain ⟨k, hk, hk'⟩ := List.getElem_of_mem hm
    rw [List.getElem_take] at hk'
    have hk2 : k < s := by simpa [List.length_take] using (lt_of_lt_of_le hk (by simp))
    have := (List.Nodup.getElem_inj_iff hnd).mp hk'
    omega
  have hwfp : WFParent p σ[t] := by
    have hnotin : σ[t] ∉ σ.take t := by
      intro hm
      obtain ⟨k, hk, hk'⟩ := List.getElem_of_mem hm
      rw [List.getElem_take] at hk'
      have hk2 : k < t := by simpa [List.length_take] using (lt_of_lt_of_le hk (by simp))
      have := (List.Nodup.getElem_inj_iff hnd).mp hk'
      omega
    apply wfParent_of_nodup p _ (List.nodup_append.mp wp.nodup).1 inv.ne
    · intro a ha; exact wp.big a (List.mem_append_left _ ha)
    · intro hm; exact hnotin (inv.perm.subset (List.mem_append_left _ hm))
    · intro hm; exact hnotin (inv.perm.subset (List.mem_append_right _ hm))
  have hrec : recover σ[t] kt.2 = p := by
    rw [recover_placement_proof p _ hwfp kt hkt]; exact inv.canon
  rw [← restrict_recover wy hfresh, hrec]

/-- the ancestors of a state of level `t` -/
theorem exists_path (hnd : σ.Nodup) (hbig : ∀ i ∈ σ, i < Forest.big) : ∀ (t : ℕ) (y : T), y ∈ level c σ t →
    ∃ f : ℕ → T, (∀ s, s ≤ t → f s ∈ level c σ s) ∧
      (∀ s, s < t → ∀ i, σ[s]? = some i → f (s+1) ∈ children c (f s) i) ∧
      (∀ s, s ≤ t → SMC.restrict y (σ.take s) = f s) ∧ f t = y := by
  intro t
  induction t with
  | zero =>
    intro y hy
    refine ⟨fun _ => y, ?_, ?_, ?_, rfl⟩
    · intro s hs
      have : s = 0 := by omega
      subst this; exact hy
    · intro s hs; omega
    · intro s hs
      have : s = 0 := by omega
      subst this; exact restrict_self hy
  | succ t ih =>
    intro y hy
    obtain ⟨i, hi, p, hp, hc⟩ := mem_level_succ.mp hy
    obtain ⟨f, h1, h2, h3, h4⟩ := ih p hp
    refine ⟨fun s => if s ≤ t then f s else y, ?_, ?_, ?_, by simp⟩
    · intro s hs
      by_cases hst : s ≤ t
      · simp only [hst, if_true]; exact h1 s hst
      · have : s = t + 1 := by omega
        subst this
        simp only [hst, if_false]; exact hy
    · intro s hs j hj
      by_cases hst : s < t
      · have h' : s + 1 ≤ t := hst
        simp only [h', le_of_lt hst, if_true]
        exact h2 s hst j hj
      · have : s = t := by omega
        subst this
        have hj' : j = i := by rw [hi] at hj; exact (Option.some.inj hj).symm
        subst hj'
        simp only [le_refl, if_true, Nat.not_succ_le_self, if_false, h4]
        exact hc
    · intro s hs
      by_cases hst : s ≤ t
      · simp only [hst, if_true]
        rw [restrict_child hnd hbig hp hi hc hst]
        exact h3 s hst
      · have : s = t + 1 := by omega
        subst this
        simp only [hst, if_false]
        exact restrict_self hy

/-- **the retained path exists** -/
theorem exists_pathOK {L : List T} (hnd : σ.Nodup) (hbig : ∀ i ∈ σ, i < Forest.big)
    (hL : ∀ x ∈ states c σ, x ∈ L) {x : T} (hx : x ∈ level c σ σ.length) :
    ∃ path : ℕ → St L, PathOK c σ x path ∧ (path σ.length).1 = x := by
  obtain ⟨f, h1, h2, h3, h4⟩ := exists_path hnd hbig σ.length x hx
  refine ⟨fun s => if h : s ≤ σ.length then ⟨f s, level_mem_L hL (h1 s h)⟩
    else ⟨T.empty, hL _ (empty_mem_states c σ)⟩, ⟨?_, ?_, ?_⟩, ?_⟩
  · intro t ht
    simp only [ht, dif_pos]
    exact h1 t ht
  · intro t ht
    have ht1 : t + 1 ≤ σ.length := ht
    simp only [ht1, le_of_lt ht, dif_pos]
    exact h2 t ht _ (List.getElem?_eq_getElem ht)
  · intro t ht
    simp only [ht, dif_pos]
    exact h3 t ht
  · simp only [le_refl, dif_pos]
    exact h4

end PhyModel.PG
