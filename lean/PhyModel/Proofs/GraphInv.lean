import PhyModel.Model.Graph
import Mathlib.Data.List.Perm.Basic
import Mathlib.Data.List.Nodup
import Mathlib.Data.List.Count
/-! The shape invariant of the graph model (`Model/Graph.lean`): `IsForest g` — the virtual root 0 is
live and has no incoming edge, edges join live nodes, every other live node is the target of exactly
one edge of the edge list, and every live node is reachable from 0.  Basic facts: reachability is
monotone in the edge set, the parent is unique, the invariant only depends on the node / edge lists up
to permutation, the targets of the edge list are a permutation of the live non-root nodes, and a
forest has no cycle (`IsForest.acyclic`). -/
namespace PhyModel.Graph
open DG

/-- there is a directed path from `a` to `b` (possibly empty) -/
inductive Reach (g : DG) : Nat → Nat → Prop
  | refl (a : Nat) : Reach g a a
  | step {a b c : Nat} : Reach g a b → (b, c) ∈ g.edges → Reach g a c

/-- the targets of the edge list, one entry per edge -/
abbrev DG.targets (g : DG) : List Nat := g.edges.map (·.2)

/-- **C07, first clause**: a rooted forest under the virtual root 0 -/
structure IsForest (g : DG) : Prop where
  nodes_nodup : g.nodes.Nodup
  root_live : 0 ∈ g.nodes
  edges_live : ∀ e ∈ g.edges, e.1 ∈ g.nodes ∧ e.2 ∈ g.nodes
  root_indeg : g.targets.count 0 = 0
  indeg : ∀ v ∈ g.nodes, v ≠ 0 → g.targets.count v = 1
  reach : ∀ v ∈ g.nodes, Reach g 0 v

namespace Reach

theorem trans {g : DG} {a b c : Nat} (h1 : Reach g a b) (h2 : Reach g b c) : Reach g a c := by
  induction h2 with
  | refl => exact h1
  | step _ he ih => exact .step ih he

theorem single {g : DG} {a b : Nat} (h : (a, b) ∈ g.edges) : Reach g a b := .step (.refl a) h

theorem head {g : DG} {a b c : Nat} (h : (a, b) ∈ g.edges) (h2 : Reach g b c) : Reach g a c :=
  (single h).trans h2

theorem mono {g g' : DG} (hsub : ∀ e ∈ g.edges, e ∈ g'.edges) {a b : Nat} (h : Reach g a b) :
    Reach g' a b := by
  induction h with
  | refl => exact .refl _
  | step _ he ih => exact .step ih (hsub _ he)

/-- the last edge of a non-empty path -/
theorem tail_cases {g : DG} {a c : Nat} (h : Reach g a c) :
    a = c ∨ ∃ b, Reach g a b ∧ (b, c) ∈ g.edges := by
  cases h with
  | refl => exact .inl rfl
  | step h he => exact .inr ⟨_, h, he⟩

/-- the first edge of a non-empty path -/
theorem head_cases {g : DG} {a c : Nat} (h : Reach g a c) :
    a = c ∨ ∃ b, (a, b) ∈ g.edges ∧ Reach g b c := by
  induction h with
  | refl => exact .inl rfl
  | step h he ih =>
    rcases ih with rfl | ⟨b, hab, hbc⟩
    · exact .inr ⟨_, he, .refl _⟩
    · exact .inr ⟨b, hab, .step hbc he⟩

/-- a renaming of the indices carries paths over -/
theorem map {g g' : DG} (ρ : Nat → Nat) (hmap : ∀ e ∈ g.edges, (ρ e.1, ρ e.2) ∈ g'.edges) {a b : Nat}
    (h : Reach g a b) : Reach g' (ρ a) (ρ b) := by
  induction h with
  | refl => exact .refl _
  | step _ he ih => exact .step ih (hmap _ he)

end Reach

/-! ### in-degree as a statement about the edge list -/

theorem mem_targets {g : DG} {v : Nat} : v ∈ g.targets ↔ ∃ p, (p, v) ∈ g.edges := by
  simp [DG.targets]

/-- two edges into `v` in a list where `v` occurs once as a target are the same edge -/
theorem parent_unique_of_count {es : List (Nat × Nat)} {v p q : Nat}
    (hc : (es.map (·.2)).count v ≤ 1) (hp : (p, v) ∈ es) (hq : (q, v) ∈ es) : p = q := by
  by_contra hne
  obtain ⟨l1, l2, rfl⟩ := List.append_of_mem hp
  have hq' : (q, v) ∈ l1 ∨ (q, v) ∈ l2 := by
    simp only [List.mem_append, List.mem_cons, Prod.mk.injEq] at hq
    rcases hq with h | ⟨h, _⟩ | h
    · exact .inl h
    · exact absurd h.symm hne
    · exact .inr h
  simp only [List.map_append, List.map_cons, List.count_append, List.count_cons_self] at hc
  rcases hq' with h | h
  · have : 0 < (l1.map (·.2)).count v := List.count_pos_iff.2 (List.mem_map.2 ⟨_, h, rfl⟩)
    omega
  · have : 0 < (l2.map (·.2)).count v := List.count_pos_iff.2 (List.mem_map.2 ⟨_, h, rfl⟩)
    omega

namespace IsForest
variable {g : DG}

theorem target_ne_root (hf : IsForest g) {p v : Nat} (he : (p, v) ∈ g.edges) : v ≠ 0 := by
  rintro rfl
  have := List.count_pos_iff.2 (mem_targets.2 ⟨p, he⟩)
  have := hf.root_indeg
  omega

theorem parent_unique (hf : IsForest g) {p q v : Nat} (hp : (p, v) ∈ g.edges) (hq : (q, v) ∈ g.edges) :
    p = q :=
  parent_unique_of_count (Nat.le_of_eq (hf.indeg v (hf.edges_live _ hp).2 (hf.target_ne_root hp))) hp hq

/-- every live clone has a parent -/
theorem exists_parent (hf : IsForest g) {v : Nat} (hv : v ∈ g.nodes) (h0 : v ≠ 0) :
    ∃ p, (p, v) ∈ g.edges :=
  mem_targets.1 (List.count_pos_iff.1 (by rw [hf.indeg v hv h0]; exact Nat.one_pos))

/-- the edge targets are exactly the live clones, each once -/
theorem targets_perm (hf : IsForest g) : g.targets.Perm (g.nodes.erase 0) := by
  rw [List.perm_iff_count]
  intro v
  by_cases h0 : v = 0
  · subst h0
    rw [hf.root_indeg, List.count_erase_self, List.count_eq_one_of_mem hf.nodes_nodup hf.root_live]
  · rw [List.count_erase_of_ne h0]
    by_cases hv : v ∈ g.nodes
    · rw [hf.indeg v hv h0, List.count_eq_one_of_mem hf.nodes_nodup hv]
    · rw [List.count_eq_zero_of_not_mem hv, List.count_eq_zero]
      intro hm
      obtain ⟨p, hp⟩ := mem_targets.1 hm
      exact hv (hf.edges_live _ hp).2

theorem targets_nodup (hf : IsForest g) : g.targets.Nodup :=
  (List.Perm.nodup_iff hf.targets_perm).2 (hf.nodes_nodup.erase 0)

/-- the same invariant from the permutation form of the in-degree clauses -/
theorem of_targets_perm (hn : g.nodes.Nodup) (h0 : 0 ∈ g.nodes) (hsrc : ∀ e ∈ g.edges, e.1 ∈ g.nodes)
    (ht : g.targets.Perm (g.nodes.erase 0)) (hr : ∀ v ∈ g.nodes, Reach g 0 v) : IsForest g where
  nodes_nodup := hn
  root_live := h0
  edges_live e he := ⟨hsrc e he, List.mem_of_mem_erase (ht.subset (List.mem_map.2 ⟨e, he, rfl⟩))⟩
  root_indeg := by rw [ht.count_eq, List.count_erase_self, List.count_eq_one_of_mem hn h0]
  indeg v hv hv0 := by rw [ht.count_eq, List.count_erase_of_ne hv0, List.count_eq_one_of_mem hn hv]
  reach := hr

/-- only the *sets* of live nodes and the multiset of edges matter -/
theorem of_perm {g' : DG} (hf : IsForest g) (hn : g.nodes.Perm g'.nodes) (he : g.edges.Perm g'.edges) :
    IsForest g' where
  nodes_nodup := (List.Perm.nodup_iff hn).1 hf.nodes_nodup
  root_live := hn.subset hf.root_live
  edges_live e h := by
    have := hf.edges_live e (he.symm.subset h)
    exact ⟨hn.subset this.1, hn.subset this.2⟩
  root_indeg := by rw [← (he.map (·.2)).count_eq]; exact hf.root_indeg
  indeg v hv h0 := by rw [← (he.map (·.2)).count_eq]; exact hf.indeg v (hn.symm.subset hv) h0
  reach v hv := (hf.reach v (hn.symm.subset hv)).mono fun e h => he.subset h

/-- a path that ends in a live node starts in one -/
theorem reach_live_left (hf : IsForest g) {a b : Nat} (h : Reach g a b) (hb : b ∈ g.nodes) : a ∈ g.nodes := by
  induction h with
  | refl => exact hb
  | step _ he ih => exact ih (hf.edges_live _ he).1

theorem reach_live_right (hf : IsForest g) {a b : Nat} (h : Reach g a b) (ha : a ∈ g.nodes) : b ∈ g.nodes := by
  induction h with
  | refl => exact ha
  | step _ he _ => exact (hf.edges_live _ he).2

/-- nothing leads back to the root -/
theorem reach_root (hf : IsForest g) {a : Nat} (h : Reach g a 0) : a = 0 := by
  rcases h.tail_cases with h | ⟨b, _, hb⟩
  · exact h
  · exact absurd rfl (hf.target_ne_root hb)

/-- a node on a cycle has its parent on the cycle -/
private theorem cycle_parent (hf : IsForest g) {b c : Nat} (he : (b, c) ∈ g.edges)
    (hc : ∃ x, (c, x) ∈ g.edges ∧ Reach g x c) : ∃ x, (b, x) ∈ g.edges ∧ Reach g x b := by
  obtain ⟨x, hcx, hxc⟩ := hc
  rcases hxc.tail_cases with rfl | ⟨u, hxu, huc⟩
  · -- self loop at c: its parent is c itself
    have := hf.parent_unique he hcx
    subst this
    exact ⟨_, hcx, .refl _⟩
  · have := hf.parent_unique he huc
    subst this
    exact ⟨c, he, Reach.head hcx hxu⟩

/-- **a forest has no cycle**: no node reaches itself along a non-empty path -/
theorem acyclic (hf : IsForest g) {v x : Nat} (hv : v ∈ g.nodes) (he : (v, x) ∈ g.edges) : ¬ Reach g x v := by
  intro hxv
  have key : ∀ a c, Reach g a c → a = 0 → ¬ ∃ x, (c, x) ∈ g.edges ∧ Reach g x c := by
    intro a c h
    induction h with
    | refl =>
      rintro rfl ⟨x, h0x, hx⟩
      rcases hx.tail_cases with rfl | ⟨u, _, hu⟩
      · exact hf.target_ne_root h0x rfl
      · exact hf.target_ne_root hu rfl
    | step _ hbc ih =>
      intro ha hc
      exact ih ha (hf.cycle_parent hbc hc)
  exact key 0 v (hf.reach v hv) rfl ⟨x, he, hxv⟩

/-- in particular no node is its own descendant's child: a child never reaches its parent -/
theorem not_reach_parent (hf : IsForest g) {p c : Nat} (he : (p, c) ∈ g.edges) : ¬ Reach g c p :=
  hf.acyclic (hf.edges_live _ he).1 he

end IsForest

theorem isForest_init : IsForest gInit where
  nodes_nodup := by simp [gInit]
  root_live := by simp [gInit]
  edges_live := by simp [gInit]
  root_indeg := by simp [gInit, DG.targets]
  indeg := by simp [gInit]
  reach := by
    intro v hv
    have : v = 0 := by simpa [gInit] using hv
    subst this; exact .refl 0

end PhyModel.Graph
