import PhyModel.Proofs.StoreCache_addDp
import PhyModel.Proofs.StoreCache_Map
/-! C06, `Tree.add_subtree`: a subtree whose own caches are in order is renumbered, grafted below a
clone (or at the top level) and its clashing names are replaced; only the equations on the path from
the graft point to the top can break, and that path is recomputed.

Here: the `append` / `graftAt` lemmas and a first form of the theorem that takes the part `WFc` of
C07's well-formedness of the *resulting* store as a hypothesis (it tells that `_update_path_to_root`
starts at the graft point).  `StoreCache_addSubIn.lean` proves the form used by `cacheOK_step`, from
`WFc` of the edited store only. -/
namespace PhyModel.Store.C06
open PhyModel

/-! ### `append`, `graftAt` -/

theorem append_cons (n : NodeRec) (k s g : SF) :
    (SF.cons n k s).append g = .cons n k (s.append g) := rfl

theorem cacheOKsf_append (dt : Data) : ∀ f g : SF, CacheOKsf dt f → CacheOKsf dt g →
    CacheOKsf dt (f.append g)
  | .nil, _, _, hg => hg
  | .cons _ _ s, g, ⟨h1, h2, h3, h4⟩, hg => ⟨h1, h2, h3, cacheOKsf_append dt s g h4 hg⟩

theorem Dc_append_congr (G sm : Nat) : ∀ f g g' : SF, Dc G sm g' = Dc G sm g →
    Dc G sm (f.append g') = Dc G sm (f.append g)
  | .nil, _, _, h => h
  | .cons n k s, g, g', h => by simp only [append_cons, Dc, Dc_append_congr G sm s g g' h]

theorem graftAt_cons (i : Nat) (g : SF) (n : NodeRec) (k s : SF) :
    SF.graftAt i g (.cons n k s) =
      if n.idx = i then .cons n (g.append k) s
      else .cons n (SF.graftAt i g k) (SF.graftAt i g s) := rfl

theorem idxs_append : ∀ f g : SF, (f.append g).idxs = f.idxs ++ g.idxs
  | .nil, _ => rfl
  | .cons n k s, g => by rw [append_cons, idxs_cons, idxs_cons, idxs_append s g]; simp

theorem graftAt_of_notMem (i : Nat) (g : SF) : ∀ f : SF, i ∉ f.idxs → SF.graftAt i g f = f
  | .nil, _ => rfl
  | .cons n k s, h => by
    rw [idxs_cons, List.mem_cons, List.mem_append] at h
    push Not at h
    rw [graftAt_cons, if_neg (fun e => h.1 e.symm), graftAt_of_notMem i g k h.2.1,
      graftAt_of_notMem i g s h.2.2]

theorem mem_idxs_graftAt (i : Nat) (g : SF) : ∀ (f : SF) (j : Nat), j ∈ f.idxs →
    j ∈ (SF.graftAt i g f).idxs
  | .nil, _, h => h
  | .cons n k s, j, h => by
    rw [idxs_cons, List.mem_cons, List.mem_append] at h
    rw [graftAt_cons]
    split
    · rw [idxs_cons, idxs_append]
      simp only [List.mem_cons, List.mem_append]
      tauto
    · rw [idxs_cons]
      simp only [List.mem_cons, List.mem_append]
      rcases h with h | h | h
      · exact Or.inl h
      · exact Or.inr (Or.inl (mem_idxs_graftAt i g k j h))
      · exact Or.inr (Or.inr (mem_idxs_graftAt i g s j h))

theorem POK_append (dt : Data) : ∀ f g : SF, POK dt f → POK dt g → POK dt (f.append g)
  | .nil, _, _, hg => hg
  | .cons _ _ s, g, ⟨h1, h2, h3⟩, hg => ⟨h1, h2, POK_append dt s g h3 hg⟩

theorem ROK_append (dt : Data) : ∀ f g : SF, ROK dt f → ROK dt g → ROK dt (f.append g)
  | .nil, _, _, hg => hg
  | .cons n k s, g, h, hg => by
    rw [ROK_cons] at h
    rw [append_cons, ROK_cons]
    exact ⟨h.1, h.2.1, ROK_append dt s g h.2.2 hg⟩

theorem POK_graftAt (dt : Data) (i : Nat) (g : SF) (hg : POK dt g) :
    ∀ f : SF, POK dt f → POK dt (SF.graftAt i g f)
  | .nil, _ => trivial
  | .cons n k s, ⟨h1, h2, h3⟩ => by
    rw [graftAt_cons]
    split
    · exact ⟨h1, POK_append dt g k hg h2, h3⟩
    · exact ⟨h1, POK_graftAt dt i g hg k h2, POK_graftAt dt i g hg s h3⟩

/-- grafting below node `i` can only break the equations on the path to `i` -/
theorem ROKx_graftAt (dt : Data) (i : Nat) (g : SF) (hg : ROK dt g) :
    ∀ f : SF, ROK dt f → ROKx dt i (SF.graftAt i g f)
  | .nil, _ => trivial
  | .cons n k s, h => by
    rw [ROK_cons] at h
    rw [graftAt_cons]
    by_cases h1 : n.idx = i
    · rw [if_pos h1, ROKx_cons]
      exact ⟨Or.inl (Or.inl h1), (ROK_append dt g k hg h.2.1).toROKx i, h.2.2.toROKx i⟩
    · rw [if_neg h1, ROKx_cons]
      refine ⟨?_, ROKx_graftAt dt i g hg k h.2.1, ROKx_graftAt dt i g hg s h.2.2⟩
      by_cases h2 : i ∈ (SF.graftAt i g k).idxs
      · exact Or.inl (Or.inr h2)
      · have h3 : i ∉ k.idxs := fun e => h2 (mem_idxs_graftAt i g k i e)
        rw [graftAt_of_notMem i g k h3]
        exact Or.inr h.1

theorem findSub_graftAt (i : Nat) (g : SF) : ∀ f : SF,
    SF.findSub i (SF.graftAt i g f) = (SF.findSub i f).map fun x => (x.1, g.append x.2)
  | .nil => rfl
  | .cons n k s => by
    rw [graftAt_cons, findSub_cons]
    by_cases h1 : n.idx = i
    · rw [if_pos h1, if_pos h1, findSub_cons, if_pos h1]; rfl
    · rw [if_neg h1, if_neg h1, findSub_cons, if_neg h1, findSub_graftAt i g k, findSub_graftAt i g s]
      cases SF.findSub i k <;> rfl

theorem findSub_mapRecs (i : Nat) (g : NodeRec → NodeRec) (hi : ∀ n, (g n).idx = n.idx) : ∀ f : SF,
    SF.findSub i (f.mapRecs g) = (SF.findSub i f).map fun x => (g x.1, x.2.mapRecs g)
  | .nil => rfl
  | .cons n k s => by
    rw [mapRecs_cons, findSub_cons, findSub_cons, hi]
    by_cases h1 : n.idx = i
    · rw [if_pos h1, if_pos h1]; rfl
    · rw [if_neg h1, if_neg h1, findSub_mapRecs i g hi k, findSub_mapRecs i g hi s]
      cases SF.findSub i k <;> rfl

/-- the path recomputation keeps every payload's name and index -/
theorem keys_updPath (dt : Data) (i : Nat) : ∀ f : SF,
    ((updPath dt i f).1.recs.map fun n => (n.name, n.idx)) = f.recs.map fun n => (n.name, n.idx)
  | .nil => rfl
  | .cons n k s => by
    have hk := keys_updPath dt i k
    have hs := keys_updPath dt i s
    rw [updPath_cons]
    split
    · rfl
    · split
      · simp only [recs_cons, List.map_cons, List.map_append, hk]
      · simp only [recs_cons, List.map_cons, List.map_append, hs]

theorem idxs_updPath (dt : Data) (i : Nat) (f : SF) : (updPath dt i f).1.idxs = f.idxs := by
  have := congrArg (List.map Prod.snd) (keys_updPath dt i f)
  simpa [SF.idxs, List.map_map, Function.comp_def] using this

/-! ### the operation -/

/-- the renaming applied to the grafted payloads -/
def renameBy (ren : List (Nat × Int)) (n : NodeRec) : NodeRec :=
  match ren.lookup n.idx with
  | some nm => { n with name := nm }
  | none => n

theorem renameBy_idx (ren : List (Nat × Int)) (n : NodeRec) : (renameBy ren n).idx = n.idx := by
  unfold renameBy; split <;> rfl
theorem renameBy_dps (ren : List (Nat × Int)) (n : NodeRec) : (renameBy ren n).dps = n.dps := by
  unfold renameBy; split <;> rfl
theorem renameBy_p (ren : List (Nat × Int)) (n : NodeRec) : (renameBy ren n).p = n.p := by
  unfold renameBy; split <;> rfl
theorem renameBy_r (ren : List (Nat × Int)) (n : NodeRec) : (renameBy ren n).r = n.r := by
  unfold renameBy; split <;> rfl

/-- `add_subtree`, given `WFc` of the result (superseded by `cacheOK_addSub_in`) -/
theorem cacheOK_addSub (dt : Data) (s sub s' : Store) (parent : Option Int) (hc : CacheOK dt s)
    (hcs : CacheOK dt sub) (hw' : WFc s') (h : s.addSubtree dt sub parent = some s') :
    CacheOK dt s' := by
  have hg : CacheOKsf dt (Store.reindex sub.forest s.fresh).1 :=
    (cacheOKsf_of_er_eq dt (er_reindex _ _)).2 hcs.1
  obtain ⟨hgp, hgr⟩ := (cacheOKsf_iff dt _).1 hg
  obtain ⟨hp, hr⟩ := (cacheOKsf_iff dt _).1 hc.1
  unfold Store.addSubtree at h
  cases parent with
  | none =>
    simp only [Option.bind_eq_bind, Option.pure_def, Option.bind_eq_some_iff] at h
    obtain ⟨f1, hf1, h⟩ := h
    cases hf1
    refine cacheOK_updatePath_none dt _ s' ?_ h
    exact (cacheOKsf_mapRecs dt (renameBy _) (renameBy_dps _) (renameBy_p _) (renameBy_r _) _).2
      (cacheOKsf_append dt _ _ hg hc.1)
  | some pn =>
    simp only [Option.bind_eq_bind, Option.pure_def, Option.bind_eq_some_iff] at h
    obtain ⟨pi, hpi, x, hx, f1, hf1, pi', hpi', pr, hpr, hup⟩ := h
    cases hf1
    have : pi' = pi := Option.some.inj (hpi'.symm.trans hpi)
    subst this
    generalize sub.relabelGrafted _ _ _ _ _ _ = R at hpr hup
    obtain ⟨kk, hfs⟩ := recAt_some hpr
    change SF.findSub pi' ((SF.graftAt pi' _ s.forest).mapRecs (renameBy R.2.2.2)) = _ at hfs
    obtain ⟨hpri, hprm⟩ := findSub_spec pi' _ pr kk hfs
    obtain ⟨i, hi, _, rfl⟩ := updatePath_some dt _ s' pr.name hup
    -- the looked-up index is the graft point: name → index of the result is exact
    have hii : i = pi' := by
      have hkeys := keys_updPath dt i ((SF.graftAt pi' (Store.reindex sub.forest s.fresh).1
        s.forest).mapRecs (renameBy R.2.2.2))
      have hmem : (pr.name, pr.idx) ∈ ((updPath dt i ((SF.graftAt pi' (Store.reindex sub.forest
          s.fresh).1 s.forest).mapRecs (renameBy R.2.2.2))).1.recs.map fun n => (n.name, n.idx)) := by
        rw [hkeys]; exact List.mem_map_of_mem (f := fun n => (n.name, n.idx)) hprm
      obtain ⟨m, hm, hmeq⟩ := List.mem_map.1 hmem
      have h1 : m.name = pr.name := congrArg Prod.fst hmeq
      have h2 : m.idx = pr.idx := congrArg Prod.snd hmeq
      have := hw'.lookup_idx m hm i (by rw [h1]; exact hi)
      rw [this, h2, hpri]
    subst hii
    refine ⟨cacheOKsf_updPath dt i _ ?_ ?_ ?_, fun _ => rfl⟩
    · have := hw'.idxs_nodup
      rwa [show _ = (updPath dt i _).1.idxs from rfl, idxs_updPath] at this
    · exact (POK_mapRecs dt (renameBy _) (renameBy_dps _) (renameBy_p _) _).2
        (POK_graftAt dt i _ hgp _ hp)
    · exact (ROKx_mapRecs dt i (renameBy _) (renameBy_idx _) (renameBy_p _) (renameBy_r _) _).2
        (ROKx_graftAt dt i _ hgr _ hr)

end PhyModel.Store.C06
