import PhyModel.Proofs.OrdersProofs4

namespace PhyModel.Orders

/-- independent specification of a compatible order: a permutation of the forest's data in which
every data point of a descendant clone comes before every data point of its ancestor -/
def Compat (f : Forest) (σ : List ℕ) : Prop :=
  σ.Perm f.all ∧ ∀ ab ∈ prec f, [ab.1, ab.2].Sublist σ

def CompatAll (f : Forest) (out : List ℕ) (σ : List ℕ) : Prop :=
  σ.Perm (f.all ++ out) ∧ ∀ ab ∈ prec f, [ab.1, ab.2].Sublist σ

theorem prec_mem : ∀ (f : Forest) (ab : ℕ × ℕ), ab ∈ prec f → ab.1 ∈ f.all ∧ ab.2 ∈ f.all := by
  intro f
  induction f with
  | nil => intro ab h; simp [prec] at h
  | cons d k s ihk ihs =>
    intro ab h
    simp only [prec, List.mem_append, List.mem_flatMap, List.mem_map] at h
    simp only [Forest.all, List.mem_append]
    rcases h with (⟨a, ha, b, hb, rfl⟩ | h) | h
    · exact ⟨Or.inl (Or.inl ha), Or.inl (Or.inr hb)⟩
    · obtain ⟨h1, h2⟩ := ihk ab h
      exact ⟨Or.inl (Or.inl h1), Or.inl (Or.inl h2)⟩
    · obtain ⟨h1, h2⟩ := ihs ab h
      exact ⟨Or.inr h1, Or.inr h2⟩

theorem orders_sound : ∀ (f : Forest) (o : List ℕ), o ∈ orders f → Compat f o := by
  intro f
  induction f with
  | nil => intro o h; simp [orders] at h; subst h; exact ⟨by simp [Forest.all], by simp [prec]⟩
  | cons d k s ihk ihs =>
    intro o h
    simp only [orders, List.mem_flatMap] at h
    obtain ⟨ok, hok, pd, hpd, os, hos, ho⟩ := h
    obtain ⟨hk1, hk2⟩ := ihk ok hok
    obtain ⟨hs1, hs2⟩ := ihs os hos
    have hpd' := perm_of_mem_perms d pd hpd
    obtain ⟨hsub1, hsub2, hperm⟩ := inter_spec _ _ _ ho
    refine ⟨hperm.trans ((hk1.append hpd').append hs1), ?_⟩
    intro ab hab
    simp only [prec, List.mem_append, List.mem_flatMap, List.mem_map] at hab
    rcases hab with (⟨a, ha, b, hb, rfl⟩ | hab) | hab
    · have ha' : a ∈ ok := hk1.symm.subset ha
      have hb' : b ∈ pd := hpd'.symm.subset hb
      have : [a, b].Sublist (ok ++ pd) := by
        have h1 : [a].Sublist ok := List.singleton_sublist.mpr ha'
        have h2 : [b].Sublist pd := List.singleton_sublist.mpr hb'
        simpa using h1.append h2
      exact this.trans hsub1
    · exact ((hk2 ab hab).trans (List.sublist_append_left ok pd)).trans hsub1
    · exact (hs2 ab hab).trans hsub2

/-- block lemma: if (in a duplicate-free list) every `q`-element precedes every non-`q`-element,
the list is its `q`-part followed by its non-`q`-part -/
theorem block_split (q : ℕ → Bool) : ∀ (l : List ℕ), l.Nodup →
    (∀ a b, a ∈ l → b ∈ l → q a = true → q b = false → [a, b].Sublist l) →
    l = l.filter q ++ l.filter (fun x => !q x) := by
  intro l
  induction l with
  | nil => intro _ _; simp
  | cons x l ih =>
    intro hnd h
    have hx : x ∉ l := (List.nodup_cons.mp hnd).1
    have hnd' : l.Nodup := (List.nodup_cons.mp hnd).2
    have h' : ∀ a b, a ∈ l → b ∈ l → q a = true → q b = false → [a, b].Sublist l := by
      intro a b ha hb hqa hqb
      have := h a b (by simp [ha]) (by simp [hb]) hqa hqb
      rcases List.sublist_cons_iff.mp this with h1 | ⟨r, hr, _⟩
      · exact h1
      · -- a = x, impossible since a ∈ l and x ∉ l
        have : a = x := by
          have := List.cons.inj hr; exact this.1
        exact absurd (this ▸ ha) hx
    by_cases hqx : q x = true
    · have := ih hnd' h'
      simp only [List.filter_cons, hqx, if_true, Bool.not_true, Bool.false_eq_true, if_false]
      rw [List.cons_append, ← this]
    · have hqx' : q x = false := by simpa using hqx
      -- no element of l satisfies q
      have hnone : ∀ a ∈ l, q a = false := by
        intro a ha
        by_contra hqa
        have hqa' : q a = true := by simpa using hqa
        have := h a x (by simp [ha]) (by simp) hqa' hqx'
        rcases List.sublist_cons_iff.mp this with h1 | ⟨r, hr, _⟩
        · have : x ∈ l := h1.subset (by simp)
          exact hx this
        · have : a = x := (List.cons.inj hr).1
          exact hx (this ▸ ha)
      have h1 : l.filter q = [] := by
        rw [List.filter_eq_nil_iff]; intro a ha; simp [hnone a ha]
      have h2 : l.filter (fun x => !q x) = l := by
        rw [List.filter_eq_self]; intro a ha; simp [hnone a ha]
      simp [List.filter_cons, hqx', h1, h2]

theorem filter_perm_left (A B σ : List ℕ) (hnd : (A ++ B).Nodup) (h : σ.Perm (A ++ B)) :
    (σ.filter fun x => decide (x ∈ A)).Perm A ∧ (σ.filter fun x => !decide (x ∈ A)).Perm B := by
  have hdisj : ∀ b ∈ B, b ∉ A := by
    intro b hb ha
    exact (List.nodup_append.mp hnd).2.2 b ha b hb rfl
  constructor
  · have := h.filter (fun x => decide (x ∈ A))
    refine this.trans ?_
    rw [List.filter_append]
    have h1 : A.filter (fun x => decide (x ∈ A)) = A := by
      rw [List.filter_eq_self]; intro a ha; simp [ha]
    have h2 : B.filter (fun x => decide (x ∈ A)) = [] := by
      rw [List.filter_eq_nil_iff]; intro b hb; simp [hdisj b hb]
    rw [h1, h2]; simp
  · have := h.filter (fun x => !decide (x ∈ A))
    refine this.trans ?_
    rw [List.filter_append]
    have h1 : A.filter (fun x => !decide (x ∈ A)) = [] := by
      rw [List.filter_eq_nil_iff]; intro a ha; simp [ha]
    have h2 : B.filter (fun x => !decide (x ∈ A)) = B := by
      rw [List.filter_eq_self]; intro b hb; simp [hdisj b hb]
    rw [h1, h2]; simp

theorem sublist_pair_filter (p : ℕ → Bool) (σ : List ℕ) (a b : ℕ) (h : [a, b].Sublist σ)
    (ha : p a = true) (hb : p b = true) : [a, b].Sublist (σ.filter p) := by
  have := h.filter p
  simpa [ha, hb] using this

theorem orders_complete : ∀ (f : Forest) (σ : List ℕ), f.all.Nodup → Compat f σ → σ ∈ orders f := by
  intro f
  induction f with
  | nil =>
    intro σ _ h
    have : σ = [] := List.Perm.eq_nil (by simpa [Forest.all] using h.1)
    simp [orders, this]
  | cons d k s ihk ihs =>
    intro σ hnd ⟨hperm, hprec⟩
    simp only [Forest.all] at hnd hperm
    set A := k.all ++ d with hA
    set pA : ℕ → Bool := fun x => decide (x ∈ A) with hpA
    set σ1 := σ.filter pA with hσ1
    set σ2 := σ.filter (fun x => !pA x) with hσ2
    obtain ⟨h1perm, h2perm⟩ := filter_perm_left A s.all σ hnd hperm
    have hσnd : σ.Nodup := hperm.nodup_iff.mpr hnd
    have hAnd : A.Nodup := (List.nodup_append.mp hnd).1
    have hsnd : s.all.Nodup := (List.nodup_append.mp hnd).2.1
    have hknd : k.all.Nodup := (List.nodup_append.mp hAnd).1
    have hdisjA : ∀ b ∈ s.all, b ∉ A := by
      intro b hb ha
      exact (List.nodup_append.mp hnd).2.2 b ha b hb rfl
    have hdisjK : ∀ b ∈ d, b ∉ k.all := by
      intro b hb ha
      exact (List.nodup_append.mp hAnd).2.2 b ha b hb rfl
    -- sibling part
    have hs : σ2 ∈ orders s := by
      apply ihs σ2 hsnd
      refine ⟨h2perm, ?_⟩
      intro ab hab
      obtain ⟨m1, m2⟩ := prec_mem s ab hab
      have := hprec ab (by simp [prec, hab])
      exact sublist_pair_filter (fun x => !pA x) σ ab.1 ab.2 this
        (by simp [hpA, hdisjA _ m1]) (by simp [hpA, hdisjA _ m2])
    -- first tree part: split σ1 into kids data then own data
    set pK : ℕ → Bool := fun x => decide (x ∈ k.all) with hpK
    have hσ1nd : σ1.Nodup := hσnd.filter _
    have hsplit : σ1 = σ1.filter pK ++ σ1.filter (fun x => !pK x) := by
      apply block_split pK σ1 hσ1nd
      intro a b ha hb hqa hqb
      have haA : a ∈ A := h1perm.subset ha
      have hbA : b ∈ A := h1perm.subset hb
      have hak : a ∈ k.all := by simpa [hpK] using hqa
      have hbk : b ∉ k.all := by simpa [hpK] using hqb
      have hbd : b ∈ d := by
        rcases List.mem_append.mp hbA with h | h
        · exact absurd h hbk
        · exact h
      have : (a, b) ∈ prec (.cons d k s) := by
        simp only [prec, List.mem_append, List.mem_flatMap, List.mem_map]
        left; left; exact ⟨a, hak, b, hbd, rfl⟩
      have := hprec (a, b) this
      exact sublist_pair_filter pA σ a b this (by simp [hpA, haA]) (by simp [hpA, hbA])
    obtain ⟨hkperm, hdperm⟩ := filter_perm_left k.all d σ1 hAnd h1perm
    have hk : σ1.filter pK ∈ orders k := by
      apply ihk _ hknd
      refine ⟨hkperm, ?_⟩
      intro ab hab
      obtain ⟨m1, m2⟩ := prec_mem k ab hab
      have h0 := hprec ab (by simp [prec, hab])
      have h1 := sublist_pair_filter pA σ ab.1 ab.2 h0
        (by simp [hpA, hA, m1]) (by simp [hpA, hA, m2])
      exact sublist_pair_filter pK σ1 ab.1 ab.2 h1 (by simp [hpK, m1]) (by simp [hpK, m2])
    have hd : σ1.filter (fun x => !pK x) ∈ perms d := mem_perms_of_perm d _ hdperm
    simp only [orders, List.mem_flatMap]
    refine ⟨_, hk, _, hd, σ2, hs, ?_⟩
    rw [← hsplit]
    exact mem_inter_filter pA σ

#print axioms orders_sound
#print axioms orders_complete
end PhyModel.Orders
