import PhyModel.Proofs.GraphClosure
import PhyModel.Proofs.StoreWF_SF
/-! Link between the structural forest of the store model (`Model/Store.lean`, `SF`) and the digraph
model (`Model/Graph.lean`): `graphOf f` has the live set `0 :: f.idxs` and the edge list
`Store.edgesOf 0 f` (what `to_dict` stores).  For a forest with distinct non-zero graph indices it
satisfies `IsForest` — the shape facts that are structural in `SF` are theorems about its graph. -/
namespace PhyModel.Graph
open PhyModel.Store PhyModel.Store.SF

/-- the graph of a structural forest: virtual root 0, one edge parent → child per clone -/
def graphOf (f : SF) : DG := { nodes := 0 :: f.idxs, edges := Store.edgesOf 0 f }

@[simp] theorem edgesOf_nil (par : Nat) : Store.edgesOf par .nil = [] := rfl
@[simp] theorem edgesOf_cons (par : Nat) (n : NodeRec) (k s : SF) :
    Store.edgesOf par (.cons n k s) = (par, n.idx) :: (Store.edgesOf n.idx k ++ Store.edgesOf par s) := rfl

/-- every clone is the target of exactly its own edge, in preorder -/
theorem targets_edgesOf : ∀ (f : SF) (par : Nat), (Store.edgesOf par f).map (·.2) = f.idxs
  | .nil, _ => rfl
  | .cons n k s, par => by simp [targets_edgesOf k, targets_edgesOf s]

theorem source_edgesOf : ∀ {f : SF} {par : Nat} {e : Nat × Nat}, e ∈ Store.edgesOf par f → e.1 = par ∨ e.1 ∈ f.idxs
  | .nil, _, _, h => by simp at h
  | .cons n k s, par, e, h => by
    simp only [edgesOf_cons, List.mem_cons, List.mem_append] at h
    rcases h with rfl | h | h
    · exact .inl rfl
    · rcases source_edgesOf h with h | h
      · exact .inr (by simp [h])
      · exact .inr (by simp [h])
    · rcases source_edgesOf h with h | h
      · exact .inl h
      · exact .inr (by simp [h])

theorem target_edgesOf {f : SF} {par : Nat} {e : Nat × Nat} (h : e ∈ Store.edgesOf par f) : e.2 ∈ f.idxs := by
  rw [← targets_edgesOf f par]; exact List.mem_map.2 ⟨e, h, rfl⟩

/-- every clone of `f` is reachable from the index its top-level clones hang under -/
theorem reach_edgesOf {E : DG} : ∀ (f : SF) (par : Nat), (∀ e ∈ Store.edgesOf par f, e ∈ E.edges) →
    ∀ v ∈ f.idxs, Reach E par v
  | .nil, _, _, v, hv => by simp at hv
  | .cons n k s, par, hsub, v, hv => by
    simp only [edgesOf_cons, List.mem_cons, List.mem_append, forall_eq_or_imp] at hsub
    obtain ⟨h1, h2⟩ := hsub
    simp only [idxs_cons, List.mem_cons, List.mem_append] at hv
    rcases hv with rfl | hv | hv
    · exact Reach.single h1
    · exact Reach.head h1 (reach_edgesOf k n.idx (fun e he => h2 e (.inl he)) v hv)
    · exact reach_edgesOf s par (fun e he => h2 e (.inr he)) v hv

@[simp] theorem graphOf_nodes (f : SF) : (graphOf f).nodes = 0 :: f.idxs := rfl
@[simp] theorem graphOf_edges (f : SF) : (graphOf f).edges = Store.edgesOf 0 f := rfl

/-- **the graph of a structural forest with distinct non-zero indices is a rooted forest** -/
theorem isForest_graphOf {f : SF} (hn : f.idxs.Nodup) (h0 : 0 ∉ f.idxs) : IsForest (graphOf f) := by
  refine IsForest.of_targets_perm ?_ ?_ ?_ ?_ ?_
  · exact List.nodup_cons.2 ⟨h0, hn⟩
  · simp
  · intro e he
    rcases source_edgesOf he with h | h
    · simp [h]
    · simp [h]
  · simp [DG.targets, targets_edgesOf]
  · intro v hv
    rcases List.mem_cons.1 hv with rfl | hv
    · exact .refl 0
    · exact reach_edgesOf f 0 (fun e he => he) v hv

theorem graphOf_nil : graphOf .nil = gInit := rfl

/-! ### renaming the graph indices of a structural forest -/

/-- the same forest with every graph index renamed -/
def mapIdx (ρ : Nat → Nat) (f : SF) : SF := f.mapRecs fun n => { n with idx := ρ n.idx }

@[simp] theorem mapIdx_nil (ρ : Nat → Nat) : mapIdx ρ .nil = .nil := rfl
@[simp] theorem mapIdx_cons (ρ : Nat → Nat) (n : NodeRec) (k s : SF) :
    mapIdx ρ (.cons n k s) = .cons { n with idx := ρ n.idx } (mapIdx ρ k) (mapIdx ρ s) := rfl

theorem idxs_mapIdx (ρ : Nat → Nat) : ∀ f : SF, (mapIdx ρ f).idxs = f.idxs.map ρ
  | .nil => rfl
  | .cons n k s => by simp [idxs_mapIdx ρ k, idxs_mapIdx ρ s]

theorem edgesOf_mapIdx (ρ : Nat → Nat) : ∀ (f : SF) (par : Nat),
    Store.edgesOf (ρ par) (mapIdx ρ f) = (Store.edgesOf par f).map fun e => (ρ e.1, ρ e.2)
  | .nil, _ => rfl
  | .cons n k s, par => by simp [edgesOf_mapIdx ρ k, edgesOf_mapIdx ρ s]

theorem mapIdx_append (ρ : Nat → Nat) : ∀ f g : SF, mapIdx ρ (f.append g) = (mapIdx ρ f).append (mapIdx ρ g)
  | .nil, _ => rfl
  | .cons n k s, g => by simp [SF.append, mapIdx_append ρ s g]

theorem edgesOf_append (par : Nat) : ∀ f g : SF,
    Store.edgesOf par (f.append g) = Store.edgesOf par f ++ Store.edgesOf par g
  | .nil, _ => rfl
  | .cons n k s, g => by simp [SF.append, edgesOf_append par s g]

theorem idxs_append (f g : SF) : (f.append g).idxs = f.idxs ++ g.idxs := by
  simp [SF.idxs, SF.recs_append]

end PhyModel.Graph
