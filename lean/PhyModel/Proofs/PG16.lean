import PhyModel.Proofs.PG15
/-! # C01, stage 3, part 7: `SMC.csmc` + `SMC.select` against `ASMC.kernel`. -/

namespace PhyModel.PG
open Finset BigOperators Proposal PGSpec Orders.Forest

variable {dt : Data} {c : Cfg} {σ : List ℕ} {L : List T}

/-- a resampled good system is good -/
theorem good_reset {X : Type} [Fintype X] [DecidableEq X] {m : ℕ} {sp : ASMC.Spec (m := m) X} {u : ℚ}
    (hu : 0 < u) {t : ℕ} {x : X} {S : ASMC.Sys X m} (hS : ASMC.Good sp t x S) (a : Fin m → Fin (m+1)) :
    ASMC.Good sp t x (fun j => ASMC.reset u (S ((Fin.cons 0 a : Fin (m+1) → Fin (m+1)) j))) :=
  ⟨by simp [ASMC.reset, hS.1], ASMC.reset_good hu hS.2 _⟩

theorem good_perm0 {X : Type} [Fintype X] [DecidableEq X] {m : ℕ} {sp : ASMC.Spec (m := m) X}
    {t : ℕ} {x : X} {S : ASMC.Sys X m} (hS : ASMC.Good sp t x S) (ρ : Equiv.Perm (Fin m)) :
    ASMC.Good sp t x (S ∘ ASMC.ext0 ρ) :=
  ⟨by simp [Function.comp, hS.1], fun j => hS.2 _⟩

/-- **the executable continuation is the abstract forward sweep** on good systems -/
theorem contE_eq_Fwd (h : Hyp dt c σ) (hinj : Inj c σ) (hL : ∀ x ∈ states c σ, x ∈ L) (θ : ℚ) (m : ℕ)
    {x : T} {path : ℕ → St L} (hp : PathOK c σ x path) (G : SMC.Swarm → ℚ)
    (hG : ASMC.Sym0 (fun S : ASMC.Sys (St L) m => G (swOf S))) :
    ∀ (k t : ℕ), t ≠ 0 → t + k = σ.length → ∀ (fuel : ℕ), k ≤ fuel → ∀ S : ASMC.Sys (St L) m,
      ASMC.Good (spec dt c σ (uN m) L hL θ m) t (path t) S →
      contE (runOf dt c m θ) x σ fuel t (swOf S) G
        = ASMC.Fwd (spec dt c σ (uN m) L hL θ m) (uN m) path k t S (fun S' => G (swOf S')) := by
  have hv := spec_valid h (uN_pos m) hL θ m
  intro k
  induction k with
  | zero =>
    intro t _ htk fuel _ S _
    have : t ≥ σ.length := by omega
    cases fuel with
    | zero => rfl
    | succ fuel => simp only [contE, this, if_true, ASMC.Fwd]
  | succ k ih =>
    intro t ht0 htk fuel hfuel S hS
    have htlt : t < σ.length := by omega
    obtain ⟨fuel', rfl⟩ : ∃ f', fuel = f' + 1 := ⟨fuel - 1, by omega⟩
    have hnot : ¬ t ≥ σ.length := by omega
    simp only [contE, hnot, if_false, ASMC.Fwd]
    -- the abstract continuation after this step, symmetric in the slots
    set F : ASMC.Sys (St L) m → ℚ :=
      fun S' => ASMC.Fwd (spec dt c σ (uN m) L hL θ m) (uN m) path k (t+1) S' (fun S'' => G (swOf S'')) with hF
    have hFsym : ASMC.Sym0 F := ASMC.Fwd_sym hv path hG k (t+1)
    have hx' : 0 < (spec dt c σ (uN m) L hL θ m).g (t+1) (path (t+1)) :=
      gT_pos h (uN_pos m) (hp.lvl (t+1) htlt)
    have hpar : ∀ S1 : ASMC.Sys (St L) m, ASMC.Good (spec dt c σ (uN m) L hL θ m) t (path t) S1 →
        (spec dt c σ (uN m) L hL θ m).parent (path (t+1)) = (S1 0).1 := by
      intro S1 hS1
      rw [hS1.1]
      exact spec_parent_child h hL θ m (hp.lvl t (le_of_lt htlt)) (List.getElem?_eq_getElem htlt) (hp.child t htlt)
    -- the executable propagation followed by the rest, on good systems
    have hK1 : ∀ S1 : ASMC.Sys (St L) m, ASMC.Good (spec dt c σ (uN m) L hL θ m) t (path t) S1 →
        Dist.E (SMC.update (runOf dt c m θ) x σ t (swOf S1))
            (fun sw' => contE (runOf dt c m θ) x σ fuel' (t+1) sw' G)
          = ASMC.propC (spec dt c σ (uN m) L hL θ m) t (path (t+1)) S1 F := by
      intro S1 hS1
      rw [update_E h hinj hL θ m hp ht0 htlt S1 hS1]
      apply ASMC.propC_congr hv htlt hS1.2 hx' (hpar S1 hS1)
      intro T hT
      exact ih (t+1) (Nat.succ_ne_zero t) (by omega) fuel' (by omega) T hT
    rw [E_bind]
    rw [resample_E (runOf dt c m θ) rfl S t ht0]
    · unfold ASMC.stepC
      show (if essRule θ m t (ASMC.wts S) = true then _ else _) = (if essRule θ m t (ASMC.wts S) = true then _ else _)
      split
      · unfold ASMC.resC
        apply Finset.sum_congr rfl
        intro a _
        congr 1
        exact hK1 _ (good_reset (uN_pos m) hS a)
      · exact hK1 S hS
    · intro a ρ
      have hg1 := good_reset (uN_pos m) hS a
      rw [hK1 _ (good_perm0 hg1 ρ), hK1 _ hg1]
      exact ASMC.propC_sym t _ ρ _ hFsym

/-- **conditional SMC given the order, at least two data points**: `SMC.csmc` followed by the final draw
has the expectations of the abstract kernel -/
theorem csmc_E_many (h : Hyp dt c σ) (hinj : Inj c σ) (hL : ∀ x ∈ states c σ, x ∈ L) (θ : ℚ) (m : ℕ)
    {x : T} {path : ℕ → St L} (hp : PathOK c σ x path) (hne : σ ≠ []) (hlen1 : σ.length ≠ 1) (hh : T → ℚ) :
    Dist.E (Dist.bind (SMC.csmc (runOf dt c m θ) x σ) SMC.select) hh
      = ∑ y : St L, ASMC.kernel (spec dt c σ (uN m) L hL θ m) (uN m) σ.length (path σ.length) y * hh y.1 := by
  have hv := spec_valid h (uN_pos m) hL θ m
  have hlen : 0 < σ.length := List.length_pos_of_ne_nil hne
  set sp := spec dt c σ (uN m) L hL θ m with hsp
  set G : SMC.Swarm → ℚ := fun sw => Dist.E (SMC.select sw) hh with hGdef
  have hGS : (fun S : ASMC.Sys (St L) m => G (swOf S)) = fun S => ∑ y : St L, ASMC.sel S y * hh y.1 := by
    funext S; exact select_E S hh
  have hG : ASMC.Sym0 (fun S : ASMC.Sys (St L) m => G (swOf S)) := by
    rw [hGS]; exact ASMC.sel_sym (fun y : St L => hh y.1)
  -- right-hand side: the backward functional, run forwards
  have hparent : ∀ t, t < σ.length → sp.parent (path (t+1)) = path t := fun t ht =>
    spec_parent_child h hL θ m (hp.lvl t (le_of_lt ht)) (List.getElem?_eq_getElem ht) (hp.child t ht)
  have hR : ∑ y : St L, ASMC.kernel sp (uN m) σ.length (path σ.length) y * hh y.1
      = ASMC.Fwd sp (uN m) path σ.length 0 (ASMC.S0 sp) (fun S => G (swOf S)) := by
    rw [← ASMC.C_eq_Fwd path σ.length hparent, hGS]
    unfold ASMC.kernel
    rw [(ASMC.C_lin σ.length (path σ.length)).sum]
    apply Finset.sum_congr rfl
    intro y _
    exact ((ASMC.C_lin σ.length (path σ.length)).smul_right (hh y.1) (fun S => ASMC.sel S y)).symm
  rw [hR, E_bind]
  unfold SMC.csmc
  simp only [if_neg hlen1]
  rw [sweep_E, Dist.E_norm, init_E h hinj hL θ m hp hne]
  -- unfold the first abstract step: no resampling before the first data point
  obtain ⟨k, hk⟩ : ∃ k, σ.length = k + 1 := ⟨σ.length - 1, by omega⟩
  rw [hk]
  simp only [ASMC.Fwd]
  have hrs : sp.rs 0 (ASMC.wts (ASMC.S0 sp)) = false := by
    show essRule θ m 0 (ASMC.wts (ASMC.S0 sp)) = false
    unfold essRule; rfl
  unfold ASMC.stepC
  rw [hrs]
  simp only [Bool.false_eq_true, if_false]
  have hx' : 0 < sp.g (0+1) (path (0+1)) := gT_pos h (uN_pos m) (hp.lvl 1 hlen)
  have hp0 : (path 0).1 = T.empty := by
    have := hp.lvl 0 (Nat.zero_le _)
    simpa [level] using this
  have hS0 : ASMC.Good sp 0 (path 0) (ASMC.S0 sp) := by
    refine ⟨Subtype.ext (by rw [hp0]; rfl), fun i => ⟨one_pos, ?_⟩⟩
    show 0 < gT dt c σ (uN m) 0 T.empty
    exact gT_pos h (uN_pos m) (by simp [level])
  apply ASMC.propC_congr hv hlen hS0.2 hx'
  · rw [hparent 0 hlen]; exact hS0.1.symm
  · intro T hT
    rw [← hk]
    exact contE_eq_Fwd h hinj hL θ m hp G hG k 1 one_ne_zero (by omega) σ.length (by omega) T hT

/-- **conditional SMC given the order, a single data point**: the swarm of the first (= last) step is
resampled, if the rule fires, before the final draw -/
theorem csmc_E_one (h : Hyp dt c σ) (hinj : Inj c σ) (hL : ∀ x ∈ states c σ, x ∈ L) (θ : ℚ) (m : ℕ)
    {x : T} {path : ℕ → St L} (hp : PathOK c σ x path) (hlen1 : σ.length = 1) (hh : T → ℚ) :
    Dist.E (Dist.bind (SMC.csmc (runOf dt c m θ) x σ) SMC.select) hh
      = ∑ y : St L, ASMC.kernelR (spec dt c σ (uN m) L hL θ m) (uN m) σ.length (path σ.length) y * hh y.1 := by
  have hne : σ ≠ [] := by intro h0; rw [h0] at hlen1; simp at hlen1
  set sp := spec dt c σ (uN m) L hL θ m with hsp
  set G : SMC.Swarm → ℚ := fun sw => Dist.E (SMC.select sw) hh with hGdef
  have hGS : ∀ S : ASMC.Sys (St L) m, G (swOf S) = ∑ y : St L, ASMC.sel S y * hh y.1 := fun S => select_E S hh
  have hsym := ASMC.sel_sym (m := m) (fun y : St L => hh y.1)
  -- left-hand side
  rw [E_bind]
  unfold SMC.csmc
  simp only [if_pos hlen1]
  rw [Dist.E_norm, E_bind, Dist.E_norm, init_E h hinj hL θ m hp hne]
  -- right-hand side
  rw [hlen1]
  unfold ASMC.kernelR
  have hC : ∀ f : ASMC.Sys (St L) m → ℚ, ASMC.C sp (uN m) 1 (path 1) f
      = ASMC.propC sp 0 (path 1) (ASMC.S0 sp) f := by
    intro f
    have hrs : sp.rs 0 (ASMC.wts (ASMC.S0 sp)) = false := by
      show essRule θ m 0 (ASMC.wts (ASMC.S0 sp)) = false
      unfold essRule; rfl
    simp only [ASMC.C, ASMC.stepC, hrs, Bool.false_eq_true, if_false]
  have hsum : ∑ y : St L, ASMC.C sp (uN m) 1 (path 1) (fun S => ASMC.selR sp (uN m) 1 S y) * hh y.1
      = ASMC.C sp (uN m) 1 (path 1) (fun S => ∑ y : St L, ASMC.selR sp (uN m) 1 S y * hh y.1) := by
    rw [(ASMC.C_lin 1 (path 1)).sum]
    apply Finset.sum_congr rfl
    intro y _
    exact ((ASMC.C_lin 1 (path 1)).smul_right (hh y.1) (fun S => ASMC.selR sp (uN m) 1 S y)).symm
  rw [hsum, hC]
  congr 1
  funext S
  rw [resample_E (runOf dt c m θ) rfl S 1 one_ne_zero G]
  · unfold ASMC.selR
    show (if essRule θ m 1 (ASMC.wts S) = true then _ else _) = _
    have hrs1 : sp.rs 1 (ASMC.wts S) = essRule θ m 1 (ASMC.wts S) := rfl
    rw [hrs1]
    split
    · simp only [hGS]
      have hlin := ASMC.resC_lin (u := uN m) S
      show ASMC.resC (uN m) S (fun S' => ∑ y : St L, ASMC.sel S' y * hh y.1) = _
      rw [hlin.sum]
      apply Finset.sum_congr rfl
      intro y _
      exact hlin.smul_right (hh y.1) (fun S' => ASMC.sel S' y)
    · exact hGS S
  · intro a ρ
    rw [hGS, hGS]
    exact hsym ρ _

/-- **conditional SMC given the order**: `SMC.csmc` followed by the final draw has the expectations of
the abstract kernel with the code's schedule (`ASMC.kernelX`) -/
theorem csmc_E (h : Hyp dt c σ) (hinj : Inj c σ) (hL : ∀ x ∈ states c σ, x ∈ L) (θ : ℚ) (m : ℕ)
    {x : T} {path : ℕ → St L} (hp : PathOK c σ x path) (hne : σ ≠ []) (hh : T → ℚ) :
    Dist.E (Dist.bind (SMC.csmc (runOf dt c m θ) x σ) SMC.select) hh
      = ∑ y : St L, ASMC.kernelX (spec dt c σ (uN m) L hL θ m) (uN m) σ.length (path σ.length) y * hh y.1 := by
  unfold ASMC.kernelX
  by_cases hlen1 : σ.length = 1
  · simp only [if_pos hlen1]
    have := csmc_E_one h hinj hL θ m hp hlen1 hh
    rw [hlen1] at this ⊢
    exact this
  · simp only [if_neg hlen1]
    exact csmc_E_many h hinj hL θ m hp hne hlen1 hh

end PhyModel.PG
