import PhyModel.Proofs.PG12
import PhyModel.Proofs.PropSampler
/-! # C01, stage 3, part 4: one proposed particle and the propagation step.

`SMC.propose` (sample a placement, weight it with `incrWeight` using the table probability found by
`lookupQ`) against the abstract proposal `q` / incremental weight `incr`; `SMC.update` against
`ASMC.propC`. -/

namespace PhyModel.PG
open Finset BigOperators Proposal PGSpec Orders.Forest

/-! ### `lookupQ` is the table probability when no tree is listed twice -/

theorem tprob_cons (a : T × ℚ) (tab : List (T × ℚ)) (x : T) :
    tprob (a :: tab) x = (if a.1 = x then a.2 else 0) + tprob tab x := by
  unfold tprob; rw [lsum_cons]

theorem tprob_eq_zero (tab : List (T × ℚ)) (x : T) (h : x ∉ tab.map (·.1)) : tprob tab x = 0 := by
  induction tab with
  | nil => simp [tprob, lsum]
  | cons a tab ih =>
    rw [tprob_cons]
    simp only [List.map_cons, List.mem_cons, not_or] at h
    rw [if_neg (fun e => h.1 e.symm), ih h.2, add_zero]

theorem lookupQ_eq_tprob (tab : List (T × ℚ)) (hn : (tab.map (·.1)).Nodup) (x : T) :
    SMC.lookupQ tab x = tprob tab x := by
  induction tab with
  | nil => simp [SMC.lookupQ, tprob, lsum]
  | cons a tab ih =>
    simp only [List.map_cons, List.nodup_cons] at hn
    rw [tprob_cons]
    by_cases hax : a.1 = x
    · have h1 : SMC.lookupQ (a :: tab) x = a.2 := by
        unfold SMC.lookupQ
        simp [hax]
      rw [h1, if_pos hax, tprob_eq_zero tab x (hax ▸ hn.1), add_zero]
    · have h1 : SMC.lookupQ (a :: tab) x = SMC.lookupQ tab x := by
        unfold SMC.lookupQ
        have : (a.1 == x) = false := by simpa using hax
        simp [this]
      rw [h1, if_neg hax, zero_add, ih hn.2]

theorem keys_scale {α} (k : ℚ) (d : Dist α) : (Dist.scale k d).map (·.1) = d.map (·.1) := by
  unfold Dist.scale; rw [List.map_map]; rfl

theorem keys_categorical_wts (dt : Data) (c : Cfg) (l : List T) :
    (Dist.categorical (wts dt c l)).map (·.1) = l := by
  rw [categorical_wts, List.map_map]
  simp [Function.comp_def]

/-- the trees listed by a proposal table are the candidate placements, each listed as often -/
theorem table_keys_perm (dt : Data) (c : Cfg) (first : Bool) (p : T) (i : ℕ) :
    ((table dt c first p i).map (·.1)).Perm (exL p i ++ newL p i ++ outL c p i) := by
  cases hk : c.kind with
  | bootstrap =>
    rw [table_bootstrap dt c first p i hk]
    simp only [List.map_append, List.map_map, exL, newL, outL]
    apply List.Perm.of_eq
    congr 1
    by_cases h : c.op = 0 <;> simp [h]
  | semi =>
    by_cases hr : p.f.roots.length = 0
    · rw [table_semi0 dt c first p i hk hr, keys_categorical_wts]
      have : exL p i = [] := by simp [exL, hr]
      rw [this, List.nil_append]
    · rw [table_semi dt c first p i hk hr, List.map_append, keys_scale, keys_categorical_wts, List.map_map]
      have h1 : List.map ((fun x : T × ℚ => x.1) ∘ fun cr : List (List ℕ × DF) × List (List ℕ × DF) =>
          (newT p i cr, (1 : ℚ) / 2 / ((p.f.roots.length : ℚ) + 1) / binom p.f.roots.length cr.1.length))
          (splits p.f.roots) = newL p i := by
        unfold newL
        apply List.map_congr_left
        intro cr _
        rfl
      rw [h1, List.append_assoc, List.append_assoc]
      exact List.Perm.append_left _ List.perm_append_comm
  | full =>
    rw [table_full dt c first p i hk, keys_categorical_wts]

variable {dt : Data} {c : Cfg} {σ : List ℕ} {L : List T} {κ : ℚ}

/-- the run configuration with `m + 1` particles -/
def runOf (dt : Data) (c : Cfg) (m : ℕ) (θ : ℚ) : SMC.Run := ⟨dt, c, m + 1, θ⟩

/-- no tree is a placement in two ways (proved in `PG15` for the trees met along an order) -/
def Inj (c : Cfg) (σ : List ℕ) : Prop :=
  ∀ (t : ℕ) (p : T) (i : ℕ), p ∈ level c σ t → σ[t]? = some i → (exL p i ++ newL p i ++ outL c p i).Nodup

/-- **one proposed particle**: `κ_t` is `κ` at the first step (where the abstract swarm starts with
weight 1 and the code's with `1/N`) and 1 afterwards -/
theorem propose_E (h : Hyp dt c σ) (hκ : 0 < κ) (hinj : Inj c σ) (hL : ∀ x ∈ states c σ, x ∈ L) (θ : ℚ)
    (m : ℕ) {t : ℕ} (p : St L) (hp : p.1 ∈ level c σ t) {i : ℕ} (hi : σ[t]? = some i) (W : ℚ)
    (G : T × ℚ → ℚ) :
    Dist.E (SMC.propose (runOf dt c m θ) (t == 0) (t + 1 == σ.length) p.1 W i) G
      = ∑ y : St L, (spec dt c σ κ L hL θ m).q t p y *
          G (y.1, W / (if t = 0 then κ else 1) * ASMC.incr (spec dt c σ κ L hL θ m) t p y) := by
  have hwf := level_wf h hp hi
  have hpos := level_placements_pos h hp hi
  unfold SMC.propose
  simp only [runOf]
  rw [E_fmap, sampler_eq_table_proof dt c (t == 0) p.1 i (level_first hp) hwf.keys]
  have hkeys : ∀ tq ∈ table dt c (t == 0) p.1 i, tq.1 ∈ L := fun tq htq =>
    level_mem_L hL (child_mem_level hp hi (table_entry dt c _ p.1 i h.op0 h.op1 hpos tq htq).2)
  rw [lsum_table_eq _ hkeys (fun y => G (y, W * incrWeight dt c (t == 0) (t + 1 == σ.length) p.1 y
    (SMC.lookupQ (table dt c (t == 0) p.1 i) y)))]
  apply Finset.sum_congr rfl
  intro y _
  have hq : (spec dt c σ κ L hL θ m).q t p y = tprob (table dt c (t == 0) p.1 i) y.1 := by
    show qT dt c σ t p.1 y.1 = _
    unfold qT; rw [if_pos hp]; simp only [hi]
  rw [hq]
  by_cases h0 : tprob (table dt c (t == 0) p.1 i) y.1 = 0
  · rw [h0, zero_mul, zero_mul]
  · have hpos' : 0 < tprob (table dt c (t == 0) p.1 i) y.1 :=
      lt_of_le_of_ne (tprob_nonneg _ (table_nonneg h hp hi _) _) (Ne.symm h0)
    obtain ⟨q, hm⟩ := mem_of_tprob_pos _ _ hpos'
    have hc := (table_entry dt c _ p.1 i h.op0 h.op1 hpos _ hm).2
    have hnd : ((table dt c (t == 0) p.1 i).map (·.1)).Nodup :=
      (table_keys_perm dt c _ p.1 i).nodup_iff.mpr (hinj t p.1 i hp hi)
    rw [lookupQ_eq_tprob _ hnd, incr_eq_incrWeight h hκ hL θ m hp hi hc]
    congr 2
    have hk : (if t = 0 then κ else (1 : ℚ)) ≠ 0 := by
      split_ifs
      · exact ne_of_gt hκ
      · exact one_ne_zero
    field_simp

end PhyModel.PG
