import PhyModel.Proofs.PropParent1
import PhyModel.Model.SMC
/-! # C08 helpers 10: `SMC.restrictF` on canonical forests; every clone non-empty. -/

namespace PhyModel
open Orders Orders.Forest Proposal SMC

namespace Proposal
/-- every clone holds at least one data point -/
def AllNonempty : DF → Prop
  | .nil => True
  | .cons d k s => d ≠ [] ∧ AllNonempty k ∧ AllNonempty s

/-- what `restrictF` does to one top-level clone: drop the data that is not kept; a clone left
without data disappears and its children take its place -/
def rr (keep : ℕ → Bool) (x : List ℕ × DF) : List (List ℕ × DF) :=
  if (x.1.filter keep).isEmpty then (restrictF keep x.2).roots
  else [(x.1.filter keep, restrictF keep x.2)]
end Proposal

theorem allNonempty_iff_roots (f : DF) :
    AllNonempty f ↔ ∀ x ∈ roots f, x.1 ≠ [] ∧ AllNonempty x.2 := by
  induction f with
  | nil => simp [AllNonempty, roots]
  | cons d k s _ ihs =>
    simp only [AllNonempty, roots, List.mem_cons, forall_eq_or_imp, ihs, and_assoc]

theorem allNonempty_ofRoots (L : List (List ℕ × DF)) :
    AllNonempty (ofRoots L) ↔ ∀ x ∈ L, x.1 ≠ [] ∧ AllNonempty x.2 := by
  rw [allNonempty_iff_roots, roots_ofRoots]

theorem restrictF_id (keep : ℕ → Bool) (f : DF) (hne : AllNonempty f)
    (hk : ∀ a ∈ f.all, keep a = true) : restrictF keep f = f := by
  induction f with
  | nil => rfl
  | cons d k s ihk ihs =>
    obtain ⟨h1, h2, h3⟩ := hne
    have hd : d.filter keep = d := List.filter_eq_self.mpr (fun a ha => hk a (by
      simp only [Forest.all, List.mem_append]; exact Or.inl (Or.inr ha)))
    have hk' := ihk h2 (fun a ha => hk a (by
      simp only [Forest.all, List.mem_append]; exact Or.inl (Or.inl ha)))
    have hs' := ihs h3 (fun a ha => hk a (by
      simp only [Forest.all, List.mem_append]; exact Or.inr ha))
    simp only [restrictF, hd, hk', hs']
    cases d with
    | nil => exact absurd rfl h1
    | cons a d => simp

theorem allNonempty_canon (f : DF) (h : AllNonempty f) : AllNonempty (canon f) := by
  induction f with
  | nil => simp [canon, AllNonempty]
  | cons d k s ihk ihs =>
    obtain ⟨h1, h2, h3⟩ := h
    simp only [canon]
    rw [allNonempty_ofRoots]
    intro x hx
    rw [mem_insertSorted] at hx
    rcases hx with rfl | hx
    · refine ⟨?_, ihk h2⟩
      obtain ⟨b, hb⟩ := List.exists_mem_of_ne_nil _ h1
      exact List.ne_nil_of_mem ((mem_sortNat b d).mpr hb)
    · exact (allNonempty_iff_roots (canon s)).mp (ihs h3) x hx

theorem restrictF_ofRoots (keep : ℕ → Bool) (L : List (List ℕ × DF)) :
    restrictF keep (ofRoots L) = ofRoots (L.flatMap (rr keep)) := by
  induction L with
  | nil => rfl
  | cons x L ih =>
    obtain ⟨d, k⟩ := x
    simp only [ofRoots, restrictF, ih, List.flatMap_cons, rr, roots_ofRoots]
    split
    · rfl
    · simp [ofRoots]

/-- removing data from a canonical forest: the surviving top-level clones, up to order -/
theorem restrict_canon_perm (keep : ℕ → Bool) (L N : List (List ℕ × DF))
    (hN : (L.flatMap (fun x => rr keep (cn x))).Perm N) :
    ∃ M, restrictF keep (canon (ofRoots L)) = ofRoots M ∧ M.Perm N := by
  rw [canon_ofRoots, restrictF_ofRoots]
  refine ⟨_, rfl, ((perm_sortRoots _).flatMap_right _).trans ?_⟩
  rw [List.flatMap_map]
  exact hN

/-- a top-level clone that loses none of its own data below the top and keeps some of its own data -/
theorem rr_cn (keep : ℕ → Bool) (x : List ℕ × DF) (hd : x.1.filter keep ≠ [])
    (hne : AllNonempty x.2) (hk : ∀ a ∈ x.2.all, keep a = true) :
    rr keep (cn x) = [cn (x.1.filter keep, x.2)] := by
  have h1 : (sortNat x.1).filter keep ≠ [] := by
    rw [filter_sortNat]
    obtain ⟨b, hb⟩ := List.exists_mem_of_ne_nil _ hd
    exact List.ne_nil_of_mem ((mem_sortNat b _).mpr hb)
  have h2 : restrictF keep (canon x.2) = canon x.2 :=
    restrictF_id keep _ (allNonempty_canon _ hne) (fun a ha => hk a ((mem_canon_all x.2 a).mp ha))
  simp only [rr, cn, h2]
  rw [if_neg (by simpa using h1), filter_sortNat]

theorem splits_perm {α} : ∀ (l : List α) (cr : List α × List α), cr ∈ splits l → (cr.1 ++ cr.2).Perm l := by
  intro l
  induction l with
  | nil => intro cr h; simp [splits] at h; subst h; simp
  | cons a l ih =>
    intro cr h
    simp only [splits, List.mem_flatMap] at h
    obtain ⟨⟨c, r⟩, hm, h⟩ := h
    have := ih _ hm
    simp only [List.mem_cons, List.not_mem_nil, or_false] at h
    rcases h with rfl | rfl
    · exact List.Perm.cons a this
    · exact (List.perm_middle).trans (List.Perm.cons a this)

end PhyModel
