import Mathlib.Data.List.ProdSigma
import PhyModel.Proofs.TableBasic
/-! C12 helper lemmas about records and rows: the mutation column of the records is a permutation
of the input mutations; rows are records × samples. -/
namespace PhyModel.Table
open List

/-- the mutations a run was given: data point names, or the cluster table's mutation column -/
def inputMuts (inp : Input) : List String :=
  match inp.clusters with
  | none => inp.names
  | some cl => cl.map Prod.fst

/-- what a recorded trace guarantees (C07 well-formedness, loader output) -/
structure WF (inp : Input) : Prop where
  /-- every data point sits in at most one place of the tree -/
  dpsNodup : (inp.forest.dps ++ inp.outs).Nodup
  /-- data point indices refer to the data list -/
  inRange : ∀ i ∈ inp.forest.dps ++ inp.outs, i < inp.names.length
  /-- mutation ids are distinct (one row per mutation in the cluster table) -/
  mutsNodup : (inputMuts inp).Nodup
  /-- with a cluster file, distinct data points carry distinct cluster ids -/
  cidsNodup : inp.clusters ≠ none → ((inp.forest.dps ++ inp.outs).map (cidOf inp.names)).Nodup

def key (r : Row) : String × String := (r.mid, r.sample)

theorem mkRow_mid (ccf samples r s) : (mkRow ccf samples r s).mid = r.mid := by
  unfold mkRow; split <;> rfl
theorem mkRow_clone (ccf samples r s) : (mkRow ccf samples r s).clone = r.clone := by
  unfold mkRow; split <;> rfl
theorem mkRow_cluster (ccf samples r s) : (mkRow ccf samples r s).cluster = r.cluster := by
  unfold mkRow; split <;> rfl
theorem mkRow_sample (ccf samples r s) : (mkRow ccf samples r s).sample = s := by
  unfold mkRow; split <;> rfl

theorem rows_keys (inp : Input) :
    (rowsOf inp).map key = ((recsOf inp).map (fun r => r.mid)) ×ˢ inp.samples := by
  unfold rowsOf
  rw [map_flatMap]
  show _ = List.product _ _
  unfold List.product
  rw [flatMap_map]
  congr 1
  funext r
  rw [map_map]
  apply map_congr_left
  intro s _
  simp [key, mkRow_mid, mkRow_sample]

theorem mem_rowsOf (inp : Input) (row : Row) :
    row ∈ rowsOf inp ↔ ∃ r ∈ recsOf inp, ∃ s ∈ inp.samples, row = mkRow inp.ccf inp.samples r s := by
  unfold rowsOf
  simp only [mem_flatMap, mem_map]
  constructor
  · rintro ⟨r, hr, s, hs, rfl⟩; exact ⟨r, hr, s, hs, rfl⟩
  · rintro ⟨r, hr, s, hs, rfl⟩; exact ⟨r, hr, s, hs, rfl⟩

/-! ### records without clusters -/

theorem nameOf_mem (names : List String) (i : Nat) (h : i < names.length) : nameOf names i ∈ names := by
  unfold nameOf
  rw [getD_eq_getElem?_getD, getElem?_eq_getElem h]
  exact getElem_mem h

theorem nameOf_inj (names : List String) (hn : names.Nodup) (i j : Nat) (hi : i < names.length)
    (hj : j < names.length) (h : nameOf names i = nameOf names j) : i = j := by
  unfold nameOf at h
  rw [getD_eq_getElem?_getD, getD_eq_getElem?_getD, getElem?_eq_getElem hi, getElem?_eq_getElem hj] at h
  exact (hn.getElem_inj_iff).mp h

theorem plainRecs_mids (names : List String) (lab : List (Nat × Int))
    (hn : names.Nodup) (hd : (lab.map Prod.fst).Nodup) (hr : ∀ i ∈ lab.map Prod.fst, i < names.length) :
    ((plainRecs names lab).map (fun r => r.mid)).Perm names := by
  unfold plainRecs
  simp only [map_append, map_map]
  have e1 : ((fun r : Rec => r.mid) ∘ fun p : Nat × Int => ({ mid := nameOf names p.1, clone := p.2, cluster := none } : Rec))
      = (nameOf names) ∘ Prod.fst := by funext p; rfl
  have e2 : ((fun r : Rec => r.mid) ∘ fun m : String => ({ mid := m, clone := -1, cluster := none } : Rec)) = id := by
    funext p; rfl
  rw [e1, e2, map_id, ← map_map]
  apply append_filter_not_mem_perm
  · apply Nodup.map_on _ hd
    intro x hx y hy hxy
    exact nameOf_inj names hn x y (hr x hx) (hr y hy) hxy
  · exact hn
  · intro a ha
    obtain ⟨i, hi, rfl⟩ := mem_map.mp ha
    exact nameOf_mem names i (hr i hi)

/-! ### records with clusters -/

theorem clusRecs_mids (names : List String) (cl : List (String × Int)) (lab : List (Nat × Int))
    (hm : (cl.map Prod.fst).Nodup) (hc : ((lab.map Prod.fst).map (cidOf names)).Nodup) :
    ((clusRecs names cl lab).map (fun r => r.mid)).Perm (cl.map Prod.fst) := by
  unfold clusRecs
  simp only [map_append, map_map, map_flatMap]
  set cids := (lab.map Prod.fst).map (cidOf names) with hcids
  -- the labelled part: mutations of the clusters that are data points of the tree
  have e1 : (lab.flatMap fun p => map ((fun r : Rec => r.mid) ∘ fun m =>
        ({ mid := m, clone := p.2, cluster := some (cidOf names p.1) } : Rec)) (group cl (cidOf names p.1)))
      = (cids.flatMap fun c => cl.filter (fun r => r.2 == c)).map Prod.fst := by
    rw [hcids, map_map, flatMap_map, map_flatMap]
    congr 1
    funext p
    simp only [Function.comp_def, map_id']
    exact group_of_nodup cl _ hm
  have e2 : ((fun r : Rec => r.mid) ∘ fun r : String × Int => ({ mid := r.1, clone := -1, cluster := some r.2 } : Rec))
      = Prod.fst := by funext p; rfl
  rw [e1, e2]
  have hperm := flatMap_filter_perm (fun r : String × Int => r.2) cl cids hc
  -- "not seen" is "cluster id not among the tree's cluster ids"
  have e3 : cl.filter (fun r => !((cids.flatMap fun c => cl.filter (fun r => r.2 == c)).map Prod.fst).contains r.1)
      = cl.filter (fun r => !(cids.contains r.2)) := by
    apply filter_congr
    intro r hr
    congr 1
    rw [Bool.eq_iff_iff]
    simp only [contains_iff_mem, mem_map, mem_flatMap, mem_filter, beq_iff_eq]
    constructor
    · rintro ⟨⟨m', c'⟩, ⟨c, hc1, hc2, hc3⟩, hm'⟩
      simp only at hm' hc3
      subst hm' hc3
      have : (r.1, c') = r := by
        have hinj := inj_on_of_nodup_map hm
        exact hinj hc2 hr rfl
      rw [← this]
      exact hc1
    · intro h
      exact ⟨r, ⟨r.2, h, hr, rfl⟩, rfl⟩
  rw [e3]
  refine (Perm.append_right _ (hperm.map _)).trans ?_
  rw [← map_append]
  exact (filter_append_perm _ cl).map _

theorem recs_mids (inp : Input) (wf : WF inp) :
    ((recsOf inp).map (fun r => r.mid)).Perm (inputMuts inp) := by
  have hd : ((labelsOf inp.forest inp.outs).map Prod.fst).Nodup := by
    rw [labelsOf_map_fst]; exact wf.dpsNodup
  have h1 := wf.mutsNodup
  have h2 := wf.cidsNodup
  unfold recsOf
  unfold inputMuts at h1 ⊢
  cases hcl : inp.clusters with
  | none =>
    rw [hcl] at h1
    simp only
    apply plainRecs_mids _ _ h1 hd
    rw [labelsOf_map_fst]
    exact wf.inRange
  | some cl =>
    rw [hcl] at h1
    simp only
    apply clusRecs_mids _ _ _ h1
    rw [labelsOf_map_fst]
    exact h2 (by simp [hcl])

/-! ### where a record comes from -/

theorem mem_plainRecs (names : List String) (lab : List (Nat × Int)) (r : Rec) :
    r ∈ plainRecs names lab →
      (∃ p ∈ lab, r = { mid := nameOf names p.1, clone := p.2, cluster := none }) ∨
      (r.clone = -1 ∧ r.cluster = none ∧ r.mid ∈ names ∧ ∀ p ∈ lab, nameOf names p.1 ≠ r.mid) := by
  unfold plainRecs
  simp only [mem_append, mem_map, mem_filter]
  rintro (⟨p, hp, rfl⟩ | ⟨m, ⟨hm1, hm2⟩, rfl⟩)
  · exact Or.inl ⟨p, hp, rfl⟩
  · refine Or.inr ⟨rfl, rfl, hm1, ?_⟩
    intro p hp heq
    simp only [Bool.not_eq_eq_eq_not, Bool.not_true] at hm2
    have : (map (fun r : Rec => r.mid) (map (fun p : Nat × Int =>
        ({ mid := nameOf names p.1, clone := p.2, cluster := none } : Rec)) lab)).contains m = true := by
      rw [contains_iff_mem]
      simp only [mem_map]
      exact ⟨_, ⟨p, hp, rfl⟩, heq⟩
    rw [this] at hm2
    cases hm2

theorem mem_clusRecs (names : List String) (cl : List (String × Int)) (lab : List (Nat × Int)) (r : Rec) :
    r ∈ clusRecs names cl lab →
      (∃ p ∈ lab, r.clone = p.2 ∧ r.cluster = some (cidOf names p.1) ∧ (r.mid, cidOf names p.1) ∈ cl) ∨
      (r.clone = -1 ∧ ∃ c, r.cluster = some c ∧ (r.mid, c) ∈ cl ∧
        ∀ p ∈ lab, (r.mid, cidOf names p.1) ∉ cl) := by
  unfold clusRecs
  simp only [mem_append, mem_map, mem_filter, mem_flatMap]
  rintro (⟨p, hp, m, hm, rfl⟩ | ⟨⟨m, c⟩, ⟨hm1, hm2⟩, rfl⟩)
  · exact Or.inl ⟨p, hp, rfl, rfl, (mem_group cl _ m).mp hm⟩
  · refine Or.inr ⟨rfl, c, rfl, hm1, ?_⟩
    intro p hp hmem
    simp only [Bool.not_eq_eq_eq_not, Bool.not_true] at hm2
    have : (map (fun r : Rec => r.mid) (flatMap (fun p : Nat × Int => map (fun m =>
        ({ mid := m, clone := p.2, cluster := some (cidOf names p.1) } : Rec)) (group cl (cidOf names p.1))) lab)).contains m = true := by
      rw [contains_iff_mem]
      simp only [mem_map, mem_flatMap]
      exact ⟨_, ⟨p, hp, m, (mem_group cl _ m).mpr hmem, rfl⟩, rfl⟩
    rw [this] at hm2
    cases hm2

theorem recs_clone (inp : Input) : ∀ r ∈ recsOf inp, r.clone ∈ inp.forest.ids ∨ r.clone = -1 := by
  intro r hr
  unfold recsOf at hr
  cases hcl : inp.clusters with
  | none =>
    rw [hcl] at hr
    rcases mem_plainRecs _ _ r hr with ⟨p, hp, rfl⟩ | ⟨h, _⟩
    · exact labelsOf_snd _ _ p hp
    · exact Or.inr h
  | some cl =>
    rw [hcl] at hr
    rcases mem_clusRecs _ _ _ r hr with ⟨p, hp, h, _⟩ | ⟨h, _⟩
    · rw [h]; exact labelsOf_snd _ _ p hp
    · exact Or.inr h

/-- lookups only succeed on keys of the dictionary -/
theorem lookupCcf_none_of_not_key (ccf : List (Int × List Rat × List Rat)) (c : Int)
    (h : c ∉ ccf.map Prod.fst) : lookupCcf ccf c = none := by
  induction ccf with
  | nil => rfl
  | cons e r ih =>
    obtain ⟨k, v⟩ := e
    simp only [map_cons, mem_cons, not_or] at h
    unfold lookupCcf
    rw [if_neg (fun hk => h.1 hk.symm)]
    exact ih h.2

end PhyModel.Table
