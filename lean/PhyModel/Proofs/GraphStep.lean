import PhyModel.Proofs.GraphCreate
import PhyModel.Proofs.GraphRemove
import PhyModel.Proofs.GraphGetSub
import PhyModel.Proofs.GraphAddSub
import PhyModel.Proofs.GraphDict
/-! Every history of graph-level tree edits keeps every live graph a rooted forest (`forest_step`,
`forest_reachable`).  `GLegal` holds the side conditions of the call sites that success of the
primitives does not already imply: the children handed to `create_root_node` are clones of the tree as
it is (none is the node being created), the root of a removed subtree is a clone, and a dictionary
handed to `from_dict` is the dictionary form of a forest.  (That indices are fresh, children are
distinct top-level clones, the subtree root / the parent are live is implied by `gStep … = some _`:
the model returns `none` otherwise.) -/
namespace PhyModel.Graph
open DG

def GLegal : GOp → Prop
  | .create _ new kids => ∀ c ∈ kids, c ≠ new
  | .rmSub _ r => r ≠ 0
  | .fromDict _ edges live => IsForest { nodes := live, edges := edges }
  | _ => True

instance : DecidablePred GLegal := fun op => by
  cases op <;> unfold GLegal <;> infer_instance

theorem gLegalB_iff {op : GOp} : gLegalB op = true ↔ GLegal op := by
  cases op <;> simp [gLegalB, GLegal, isForestB_iff]

private theorem forall_set {sys : GSys} {h : Nat} {g' : DG} (hall : ∀ g ∈ sys, IsForest g) (hg : IsForest g') :
    ∀ g ∈ sys.set h g', IsForest g := fun g hm => by
  rcases List.mem_or_eq_of_mem_set hm with h' | rfl
  · exact hall g h'
  · exact hg

private theorem forall_append {sys : GSys} {g' : DG} (hall : ∀ g ∈ sys, IsForest g) (hg : IsForest g') :
    ∀ g ∈ sys ++ [g'], IsForest g := fun g hm => by
  rcases List.mem_append.1 hm with h' | h'
  · exact hall g h'
  · rw [List.mem_singleton.1 h']; exact hg

/-- **C07, graph shape (step).**  A legal graph-level edit that does not raise leaves every live graph a
rooted forest: each clone has exactly one parent and is reachable from the virtual root. -/
theorem forest_step {sys sys' : GSys} {op : GOp} (hall : ∀ g ∈ sys, IsForest g) (hleg : GLegal op)
    (hstep : gStep sys op = some sys') : ∀ g ∈ sys', IsForest g := by
  cases op with
  | fresh =>
    simp only [gStep, Option.some.injEq] at hstep
    subst hstep
    exact forall_append hall isForest_init
  | create h new kids =>
    simp only [gStep, Option.bind_eq_bind, Option.pure_def] at hstep
    cases hg : sys[h]? with
    | none => simp [hg] at hstep
    | some g =>
      cases hr : gCreateRootNode g new kids with
      | none => simp [hg, hr] at hstep
      | some r =>
        simp only [hg, hr, Option.bind_some, Option.some.injEq] at hstep
        subst hstep
        exact forall_set hall (forest_createRootNode (hall g (List.mem_of_getElem? hg)) hleg hr)
  | getSub h r m₁ m₂ =>
    simp only [gStep, Option.bind_eq_bind, Option.pure_def] at hstep
    cases hg : sys[h]? with
    | none => simp [hg] at hstep
    | some g =>
      cases hr : gGetSubtree g r (ren m₁) (ren m₂) with
      | none => simp [hg, hr] at hstep
      | some s =>
        simp only [hg, hr, Option.bind_some, Option.some.injEq] at hstep
        subst hstep
        exact forall_append hall (forest_getSubtree (hall g (List.mem_of_getElem? hg)) hr)
  | rmSub h r =>
    simp only [gStep, Option.bind_eq_bind, Option.pure_def] at hstep
    cases hg : sys[h]? with
    | none => simp [hg] at hstep
    | some g =>
      cases hr : gRemoveSubtree g r with
      | none => simp [hg, hr] at hstep
      | some g' =>
        simp only [hg, hr, Option.bind_some, Option.some.injEq] at hstep
        subst hstep
        exact forall_set hall (forest_removeSubtree (hall g (List.mem_of_getElem? hg)) hleg hr)
  | reinit h =>
    simp only [gStep, Option.bind_eq_bind, Option.pure_def] at hstep
    cases hg : sys[h]? with
    | none => simp [hg] at hstep
    | some g =>
      simp only [hg, Option.bind_some, Option.some.injEq] at hstep
      subst hstep
      exact forall_set hall isForest_init
  | addSub h hs p m =>
    simp only [gStep, Option.bind_eq_bind, Option.pure_def] at hstep
    cases hg : sys[h]? with
    | none => simp [hg] at hstep
    | some g =>
      cases hsb : sys[hs]? with
      | none => simp [hg, hsb] at hstep
      | some sb =>
        cases hr : gAddSubtree g (gCopy sb) p (ren m) with
        | none => simp [hg, hsb, hr] at hstep
        | some g' =>
          simp only [hg, hsb, hr, Option.bind_some, Option.some.injEq] at hstep
          subst hstep
          exact forall_set hall (forest_addSubtree (hall g (List.mem_of_getElem? hg))
            (hall sb (List.mem_of_getElem? hsb)) hr)
  | copy h =>
    simp only [gStep, Option.bind_eq_bind, Option.pure_def] at hstep
    cases hg : sys[h]? with
    | none => simp [hg] at hstep
    | some g =>
      simp only [hg, Option.bind_some, Option.some.injEq] at hstep
      subst hstep
      exact forall_append hall (hall g (List.mem_of_getElem? hg))
  | fromDict h edges live =>
    simp only [gStep, Option.bind_eq_bind, Option.pure_def] at hstep
    cases hg : sys[h]? with
    | none => simp [hg] at hstep
    | some g =>
      simp only [hg, Option.bind_some, Option.some.injEq] at hstep
      subst hstep
      exact forall_set hall (forest_fromDict hleg)

/-- **C07, graph shape (all histories).**  Every graph reachable from the one-node graph of `Tree(grid_size)`
by legal graph-level edits is a rooted forest. -/
theorem forest_run {ops : List GOp} : ∀ {sys sys' : GSys}, (∀ g ∈ sys, IsForest g) → (∀ op ∈ ops, GLegal op) →
    gRun sys ops = some sys' → ∀ g ∈ sys', IsForest g := by
  induction ops with
  | nil =>
    intro sys sys' hall _ h
    simp only [gRun, List.foldlM_nil, Option.pure_def, Option.some.injEq] at h
    exact h ▸ hall
  | cons op ops ih =>
    intro sys sys' hall hleg h
    simp only [gRun, List.foldlM_cons, Option.bind_eq_bind] at h
    cases hs : gStep sys op with
    | none => simp [hs] at h
    | some s1 =>
      rw [hs, Option.bind_some] at h
      exact ih (forest_step hall (hleg op (List.mem_cons_self ..)) hs)
        (fun o ho => hleg o (List.mem_cons_of_mem _ ho)) h

theorem forest_reachable {ops : List GOp} {sys : GSys} (hleg : ∀ op ∈ ops, GLegal op)
    (h : gRun [gInit] ops = some sys) : ∀ g ∈ sys, IsForest g :=
  forest_run (fun g hg => by rw [List.mem_singleton.1 hg]; exact isForest_init) hleg h

end PhyModel.Graph
