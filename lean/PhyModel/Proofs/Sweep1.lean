import PhyModel.Model.Sweep
import PhyModel.Proofs.RunOK4
import PhyModel.Proofs.PG20
import PhyModel.Proofs.OrdersProofs3
/-! # Whole sweep, part 1: the common state space.

C01 works on the subtype of the computed list `PGSpec.allStates c D` with the target `PG.piD` (`pOne` on
`PGSpec.finals c D`, 0 on the partial trees); C04 works on duplicate-free lists of well-formed trees that
are closed under the moves.  The bridge: under `PG.HypD`

* `x ∈ PGSpec.finals c D ↔ RunOK.Holds c D x` (`mem_finals_iff_holds`): the complete trees the SMC levels
  enumerate are exactly the well-formed trees holding the data points `D`;
* `Sweep.space c D = (finals c D).eraseDups` is duplicate free, consists of well-formed trees holding `D`,
  is closed under every step of the data-point move and every re-attachment of the prune-regraft move
  (`space_*`), and carries a non-negative (positive) `pOne`;
* a sum over the subtype weighted by `piD` is the list sum over `space c D` weighted by `pOne`
  (`sum_piD_eq_lsum`). -/

namespace PhyModel.Sweep
open Orders Orders.Forest Proposal PGSpec PG RunOK Moves Finset BigOperators

theorem nodup_eraseDups {α : Type} [BEq α] [LawfulBEq α] : ∀ (n : ℕ) (l : List α), l.length ≤ n → l.eraseDups.Nodup
  | 0, [], _ => by simp
  | 0, _ :: _, h => by simp at h
  | n + 1, [], _ => by simp
  | n + 1, a :: l, h => by
    rw [List.eraseDups_cons, List.nodup_cons]
    refine ⟨fun hm => ?_, nodup_eraseDups n _ ?_⟩
    · simp at hm
    · exact Nat.le_trans (List.length_filter_le _ _) (by simpa using h)

/-- every tree has at least one compatible order -/
theorem allOrders_ne_nil (f : DF) (out : List ℕ) : allOrders f out ≠ [] := by
  intro h
  have hl := length_allOrders f out
  rw [h, List.length_nil] at hl
  have : 0 < countF f * (out.length.factorial * Nat.choose (f.size + out.length) f.size) :=
    Nat.mul_pos (countF_pos f) (Nat.mul_pos (Nat.factorial_pos _) (Nat.choose_pos (Nat.le_add_right _ _)))
  omega

variable {dt : Data} {c : Proposal.Cfg} {D : List ℕ}

/-- **the complete trees enumerated by the SMC levels are the well-formed trees holding `D`** -/
theorem mem_finals_iff_holds (h : HypD dt c D) {x : T} : x ∈ finals c D ↔ Holds c D x := by
  constructor
  · intro hx
    obtain ⟨w, hp⟩ := finals_wft h hx
    exact ⟨w, hp⟩
  · intro hx
    obtain ⟨σ, hσ⟩ := List.exists_mem_of_ne_nil _ (allOrders_ne_nil x.f x.out)
    have hperm : σ.Perm D := (allOrders_sound _ _ _ hσ).1.trans hx.perm
    have hσD : σ ∈ perms D := mem_perms_of_perm D σ hperm
    exact mem_finals.mpr ⟨σ, hσD, (reachable_iff_order c σ (h.hyp hσD).nodup x hx.wft).mpr hσ⟩

theorem mem_space {x : T} : x ∈ space c D ↔ x ∈ finals c D := by
  unfold space; exact List.mem_eraseDups

theorem space_nodup (c : Proposal.Cfg) (D : List ℕ) : (space c D).Nodup := nodup_eraseDups _ _ (Nat.le_refl _)

theorem mem_space_iff_holds (h : HypD dt c D) {x : T} : x ∈ space c D ↔ Holds c D x :=
  mem_space.trans (mem_finals_iff_holds h)

theorem finals_sub_allStates {x : T} (hx : x ∈ finals c D) : x ∈ allStates c D := by
  obtain ⟨σ, hσ, hxl⟩ := mem_finals.mp hx
  exact states_sub_allStates hσ x (mem_states.mpr ⟨σ.length, Nat.le_refl _, hxl⟩)

theorem space_pOne_pos (h : HypD dt c D) {x : T} (hx : x ∈ space c D) : 0 < pOneT dt c x := by
  obtain ⟨σ, hσ, hxl⟩ := mem_finals.mp (mem_space.mp hx)
  exact level_pOne_pos (h.hyp hσ) hxl

/-- the move configuration of `run.py:setup_samplers` for the kernel configuration `c` -/
def mvCfg (dt : Data) (c : Proposal.Cfg) : Moves.Cfg := ⟨dt, c.α, c.op != 0⟩

theorem mvCfg_out (dt : Data) (c : Proposal.Cfg) : (mvCfg dt c).outliers = true → c.op ≠ 0 := by
  intro ho h0
  simp [mvCfg, h0] at ho

/-! ### the hypotheses of `dataPointMove_invariant` and `pruneRegraft_invariant` on `space c D` -/

theorem space_wf (h : HypD dt c D) : ∀ x ∈ space c D, Canon.WFT x :=
  fun _ hx => toCanon ((mem_space_iff_holds h).mp hx).wft

theorem space_data (h : HypD dt c D) : ∀ x ∈ space c D, (x.f.all ++ x.out).Perm D :=
  fun _ hx => ((mem_space_iff_holds h).mp hx).perm

theorem space_out (h : HypD dt c D) : (mvCfg dt c).outliers = false → ∀ x ∈ space c D, x.out = [] := by
  intro ho x hx
  refine ((mem_space_iff_holds h).mp hx).wft.out ?_
  simpa [mvCfg] using ho

theorem space_dp_closed (h : HypD dt c D) :
    ∀ i ∈ D, ∀ x ∈ space c D, ∀ yq ∈ dpStep (mvCfg dt c) x i, yq.1 ∈ space c D := by
  intro i _ x hx yq hyq
  exact (mem_space_iff_holds h).mpr
    (dpStep_holds (mvCfg dt c) ((mem_space_iff_holds h).mp hx) (mvCfg_out dt c) i yq hyq)

theorem space_pr_closed (h : HypD dt c D) :
    ∀ x ∈ space c D, ∀ sub ∈ nodesOf x.f, ∀ y ∈ prCands x sub, y ∈ space c D := by
  intro x hx sub hsub y hy
  exact (mem_space_iff_holds h).mpr (prCands_hold ((mem_space_iff_holds h).mp hx) hsub y hy)

theorem space_pOne_nonneg (h : HypD dt c D) : ∀ x ∈ space c D, 0 ≤ pOneOf (mvCfg dt c) x :=
  fun _ hx => le_of_lt (space_pOne_pos h hx)

/-! ### sums over the C01 subtype = list sums over `space c D` -/

theorem piD_eq (x : T) : piD dt c D x = if x ∈ space c D then pOneT dt c x else 0 := by
  unfold piD
  by_cases hx : x ∈ finals c D
  · rw [if_pos hx, if_pos (mem_space.mpr hx)]
  · rw [if_neg hx, if_neg (fun h' => hx (mem_space.mp h'))]

/-- a `piD`-weighted sum over the C01 state type is the `pOne`-weighted list sum over `space c D` -/
theorem sum_piD_eq_lsum (F : T → ℚ) :
    ∑ s : St (allStates c D), piD dt c D s.1 * F s.1 = lsum (space c D) (fun x => pOneT dt c x * F x) := by
  rw [← sum_indicator_lsum (allStates c D) (fun x => pOneT dt c x * F x) (space c D) (space_nodup c D)
    (fun a ha => finals_sub_allStates (mem_space.mp ha))]
  apply Finset.sum_congr rfl
  intro s _
  rw [piD_eq]
  by_cases hs : s.1 ∈ space c D
  · rw [if_pos hs, if_pos hs]
  · rw [if_neg hs, if_neg hs, zero_mul]

end PhyModel.Sweep
