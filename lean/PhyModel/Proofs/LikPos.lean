import PhyModel.Proofs.DFIso
import Mathlib.Algebra.Order.BigOperators.Group.Finset
/-! Positivity of the likelihood recursion: with positive data likelihoods every entry of the
virtual root's vector is positive (its logarithm is finite). -/

open Finset BigOperators

namespace PhyModel
open Orders Orders.Forest

/-- every clone's own vector is positive on the grid -/
def Forest.Pos (G : ℕ) : Forest → Prop
  | .nil => True
  | .cons p k s => (∀ j, j < G → 0 < getQ p j) ∧ Forest.Pos G k ∧ Forest.Pos G s

theorem prefixSum_pos (G : ℕ) (a : Vec) (hnn : ∀ j, j < G → 0 ≤ getQ a j) (h0 : 0 < getQ a 0)
    (k : ℕ) (hk : k < G) : 0 < getQ (prefixSum G a) k := by
  rw [getQ_prefixSum G a k hk]
  apply Finset.sum_pos'
  · intro j hj; exact hnn j (by have := mem_range.mp hj; omega)
  · exact ⟨0, mem_range.mpr (by omega), h0⟩

/-- `D` has non-negative entries and a positive entry at index 0 -/
theorem D_nonneg_pos0 (G : ℕ) (hG : 0 < G) (f : Forest) (hf : Forest.Pos G f) :
    (∀ k, k < G → 0 ≤ getQ (D G f) k) ∧ 0 < getQ (D G f) 0 := by
  induction f with
  | nil =>
    simp only [D]
    constructor
    · intro k hk; rw [getQ_delta0 G k hk]; split <;> simp
    · rw [getQ_delta0 G 0 hG]; simp
  | cons p k s ihk ihs =>
    obtain ⟨hp, hk, hs⟩ := hf
    obtain ⟨knn, k0⟩ := ihk hk
    obtain ⟨snn, s0⟩ := ihs hs
    have ha : ∀ j, j < G → 0 < getQ (pmul G p (prefixSum G (D G k))) j := by
      intro j hj
      rw [getQ_pmul G _ _ j hj]
      exact mul_pos (hp j hj) (prefixSum_pos G _ knn k0 j hj)
    simp only [D]
    constructor
    · intro t ht
      rw [getQ_conv G _ _ t ht]
      apply Finset.sum_nonneg
      intro j hj
      have := mem_range.mp hj
      exact mul_nonneg (ha j (by omega)).le (snn (t - j) (by omega))
    · rw [getQ_conv G _ _ 0 hG]
      simp only [zero_add, Finset.sum_range_one]
      exact mul_pos (ha 0 hG) s0

theorem getQ_map_mul' (c : ℚ) (v : Vec) (k : ℕ) : getQ (v.map fun x => c * x) k = c * getQ v k := by
  unfold getQ
  by_cases h : k < v.length
  · simp [List.getD_eq_getElem?_getD, h]
  · simp [List.getD_eq_getElem?_getD, h]

theorem prior_pos (dt : Data) (hG : 0 < dt.G) : 0 < dt.prior := by
  unfold Data.prior
  have : (0 : ℚ) < (dt.G : ℚ) := by exact_mod_cast hG
  exact one_div_pos.mpr this

theorem nodeP_pos (dt : Data) (hG : 0 < dt.G) (s : ℕ) (d : List ℕ)
    (hL : ∀ i ∈ d, ∀ k, k < dt.G → 0 < getQ (dt.L i s) k) (k : ℕ) (hk : k < dt.G) :
    0 < getQ (nodeP dt s d) k := by
  unfold nodeP
  rw [getQ_map_range dt.G _ k hk]
  apply mul_pos (prior_pos dt hG)
  apply prodL_pos
  intro x hx
  obtain ⟨i, hi, rfl⟩ := List.mem_map.mp hx
  exact hL i hi k hk

theorem toLik_pos (dt : Data) (hG : 0 < dt.G) (s : ℕ) (f : DF)
    (hL : ∀ i ∈ f.all, ∀ k, k < dt.G → 0 < getQ (dt.L i s) k) :
    Forest.Pos dt.G (toLik dt s f) := by
  induction f with
  | nil => trivial
  | cons d k sb ihk ihs =>
    simp only [Forest.all, List.mem_append] at hL
    refine ⟨nodeP_pos dt hG s d (fun i hi => hL i (Or.inl (Or.inr hi))), ?_, ?_⟩
    · exact ihk fun i hi => hL i (Or.inl (Or.inl hi))
    · exact ihs fun i hi => hL i (Or.inr hi)

/-- every entry of the virtual root's vector is positive -/
theorem rootR_pos' (dt : Data) (hG : 0 < dt.G) (s : ℕ) (f : DF)
    (hL : ∀ i ∈ f.all, ∀ k, k < dt.G → 0 < getQ (dt.L i s) k) (k : ℕ) (hk : k < dt.G) :
    0 < getQ (rootR dt s f) k := by
  unfold rootR
  rw [getQ_map_mul']
  obtain ⟨nn, p0⟩ := D_nonneg_pos0 dt.G hG _ (toLik_pos dt hG s f hL)
  exact mul_pos (prior_pos dt hG) (prefixSum_pos dt.G _ nn p0 k hk)

theorem length_rootR (dt : Data) (s : ℕ) (f : DF) : (rootR dt s f).length = dt.G := by
  simp [rootR, prefixSum]

theorem vsum_eq_sum (v : Vec) : vsum v = v.sum := by
  unfold vsum; rw [List.sum_eq_foldl]

theorem list_sum_pos (v : List ℚ) (hne : v ≠ []) (h : ∀ x ∈ v, 0 < x) : 0 < v.sum := by
  induction v with
  | nil => exact absurd rfl hne
  | cons a l ih =>
    rw [List.sum_cons]
    by_cases hl : l = []
    · subst hl; simpa using h a (by simp)
    · exact add_pos (h a (by simp)) (ih hl fun x hx => h x (by simp [hx]))

theorem vsum_rootR_pos (dt : Data) (hG : 0 < dt.G) (s : ℕ) (f : DF)
    (hL : ∀ i ∈ f.all, ∀ k, k < dt.G → 0 < getQ (dt.L i s) k) : 0 < vsum (rootR dt s f) := by
  rw [vsum_eq_sum]
  apply list_sum_pos
  · intro h
    have := length_rootR dt s f
    rw [h] at this; simp at this; omega
  · intro x hx
    obtain ⟨i, hi, rfl⟩ := List.mem_iff_getElem.mp hx
    rw [length_rootR] at hi
    have := rootR_pos' dt hG s f hL i hi
    unfold getQ at this
    rw [List.getD_eq_getElem?_getD, List.getElem?_eq_getElem (by rw [length_rootR]; exact hi)] at this
    simpa using this

end PhyModel
