import PhyModel.Proofs.LikPos
import Mathlib.Algebra.Order.Field.Basic
import Mathlib.Tactic.Positivity
/-! Every factor of the joint density is positive (so both log-densities are finite). -/

namespace PhyModel
open Orders Orders.Forest

theorem rpow_eq_pow (q : ℚ) (n : ℕ) : rpow q n = q ^ n := by
  induction n with
  | zero => simp [rpow]
  | succ n ih => rw [rpow, ih, pow_succ]; ring

theorem rpow_pos {q : ℚ} (h : 0 < q) (n : ℕ) : 0 < rpow q n := by
  rw [rpow_eq_pow]; exact pow_pos h n

theorem fact_pos' (n : ℕ) : 0 < fact n := by
  induction n with
  | zero => simp [fact]
  | succ n ih => simp only [fact]; exact Nat.mul_pos (Nat.succ_pos n) ih

theorem factQ_pos (n : ℕ) : 0 < factQ n := by
  unfold factQ; exact_mod_cast fact_pos' n

namespace Density

theorem sizeTerm_pos (f : DF) : 0 < sizeTerm f := by
  induction f with
  | nil => simp [sizeTerm]
  | cons d k s ihk ihs =>
    simp only [sizeTerm]; exact mul_pos (mul_pos (factQ_pos _) ihk) ihs

theorem crp_pos {α : ℚ} (hα : 0 < α) (f : DF) : 0 < crp α f :=
  mul_pos (rpow_pos hα _) (sizeTerm_pos f)

theorem natCast_succ_pos (n : ℕ) : (0 : ℚ) < (n : ℚ) + 1 := by positivity

theorem topoMarg_pos (f : DF) : 0 < topoMarg f := by
  unfold topoMarg
  split
  · exact zero_lt_one
  · exact one_div_pos.mpr (rpow_pos (natCast_succ_pos _) _)

theorem subtreeTerm_pos (f : DF) : 0 < subtreeTerm f := by
  induction f with
  | nil => simp [subtreeTerm]
  | cons d k s _ ihs =>
    simp only [subtreeTerm]
    refine mul_pos (one_div_pos.mpr (rpow_pos ?_ _)) ihs
    exact_mod_cast (by omega : 0 < 1 + k.nodes)

theorem rTerm_pos (r : ℕ) : 0 < rTerm r := by
  unfold rTerm
  split
  · exact zero_lt_one
  · rename_i hr
    have hc : (0 : ℚ) < cConst := by unfold cConst; norm_num
    have h1 : (1 : ℚ) < rpow cConst r := by
      rw [rpow_eq_pow]; unfold cConst
      exact one_lt_pow₀ (by norm_num) hr
    have h2 : 1 / rpow cConst r < 1 := by
      rw [div_lt_one (by linarith)]; exact h1
    apply mul_pos (one_div_pos.mpr (rpow_pos hc _))
    apply div_pos
    · unfold cConst; norm_num
    · linarith

theorem topoOne_pos (f : DF) : 0 < topoOne f := mul_pos (subtreeTerm_pos f) (rTerm_pos _)

theorem multNodes_pos (f : DF) : 0 < multNodes f := by
  induction f with
  | nil => simp [multNodes]
  | cons d k s ihk ihs =>
    simp only [multNodes]
    exact mul_pos (mul_pos (one_div_pos.mpr (factQ_pos _)) ihk) ihs

theorem mult_pos (f : DF) : 0 < mult f :=
  mul_pos (one_div_pos.mpr (factQ_pos _)) (multNodes_pos f)

theorem outlierPriorIn_pos (dt : Data) (l : List ℕ) (h : ∀ i ∈ l, dt.opOf i < 1) :
    0 < outlierPriorIn dt l := by
  unfold outlierPriorIn
  apply prodL_pos
  intro x hx
  obtain ⟨i, hi, rfl⟩ := List.mem_map.mp hx
  split
  · exact zero_lt_one
  · exact rpow_pos (by have := h i hi; linarith) _

theorem outlierPriorOut_pos (dt : Data) (l : List ℕ) (h : ∀ i ∈ l, 0 ≤ dt.opOf i) :
    0 < outlierPriorOut dt l := by
  unfold outlierPriorOut
  apply prodL_pos
  intro x hx
  obtain ⟨i, hi, rfl⟩ := List.mem_map.mp hx
  split
  · exact zero_lt_one
  · rename_i hne
    exact rpow_pos (lt_of_le_of_ne (h i hi) (Ne.symm hne)) _

theorem prodL_range_pos (n : ℕ) (F : ℕ → ℚ) (h : ∀ s, s < n → 0 < F s) :
    0 < prodL ((List.range n).map F) := by
  apply prodL_pos
  intro x hx
  obtain ⟨s, hs, rfl⟩ := List.mem_map.mp hx
  exact h s (List.mem_range.mp hs)

theorem dataMarg_pos (dt : Data) (hG : 0 < dt.G) (f : DF)
    (hL : ∀ i ∈ f.all, ∀ s, s < dt.S → ∀ k, k < dt.G → 0 < getQ (dt.L i s) k) :
    0 < dataMarg dt f := by
  unfold dataMarg
  split
  · exact zero_lt_one
  · exact prodL_range_pos _ _ fun s hs => vsum_rootR_pos dt hG s f fun i hi => hL i hi s hs

theorem dataOne_pos (dt : Data) (hG : 0 < dt.G) (f : DF)
    (hL : ∀ i ∈ f.all, ∀ s, s < dt.S → ∀ k, k < dt.G → 0 < getQ (dt.L i s) k) :
    0 < dataOne dt f := by
  unfold dataOne
  split
  · exact zero_lt_one
  · exact prodL_range_pos _ _ fun s hs =>
      rootR_pos' dt hG s f (fun i hi => hL i hi s hs) (dt.G - 1) (by omega)

theorem outlierMarg_pos (dt : Data) (hG : 0 < dt.G) (out : List ℕ)
    (hL : ∀ i ∈ out, ∀ s, s < dt.S → ∀ k, k < dt.G → 0 < getQ (dt.L i s) k) :
    0 < outlierMarg dt out := by
  unfold outlierMarg
  apply prodL_pos
  intro x hx
  obtain ⟨i, hi, rfl⟩ := List.mem_map.mp hx
  unfold outlierMarg1
  apply prodL_range_pos
  intro s hs
  apply vsum_rootR_pos dt hG
  intro j hj
  simp only [Forest.all, List.nil_append, List.append_nil, List.mem_singleton] at hj
  subst hj
  exact hL j hi s hs

theorem common_pos (dt : Data) {α : ℚ} (hα : 0 < α) (hG : 0 < dt.G) (f : DF) (out : List ℕ)
    (hLo : ∀ i ∈ out, ∀ s, s < dt.S → ∀ k, k < dt.G → 0 < getQ (dt.L i s) k)
    (hopf : ∀ i ∈ f.all, dt.opOf i < 1) (hopo : ∀ i ∈ out, 0 ≤ dt.opOf i) :
    0 < common dt α f out := by
  unfold common
  exact mul_pos (mul_pos (mul_pos (mul_pos (crp_pos hα f) (mult_pos f))
    (outlierPriorIn_pos dt _ hopf)) (outlierPriorOut_pos dt _ hopo)) (outlierMarg_pos dt hG out hLo)

theorem pOne_pos' (dt : Data) {α : ℚ} (hα : 0 < α) (hG : 0 < dt.G) (f : DF) (out : List ℕ)
    (hLf : ∀ i ∈ f.all, ∀ s, s < dt.S → ∀ k, k < dt.G → 0 < getQ (dt.L i s) k)
    (hLo : ∀ i ∈ out, ∀ s, s < dt.S → ∀ k, k < dt.G → 0 < getQ (dt.L i s) k)
    (hopf : ∀ i ∈ f.all, dt.opOf i < 1) (hopo : ∀ i ∈ out, 0 ≤ dt.opOf i) :
    0 < pOne dt α f out :=
  mul_pos (mul_pos (common_pos dt hα hG f out hLo hopf hopo) (topoOne_pos f)) (dataOne_pos dt hG f hLf)

theorem pMarg_pos' (dt : Data) {α : ℚ} (hα : 0 < α) (hG : 0 < dt.G) (f : DF) (out : List ℕ)
    (hLf : ∀ i ∈ f.all, ∀ s, s < dt.S → ∀ k, k < dt.G → 0 < getQ (dt.L i s) k)
    (hLo : ∀ i ∈ out, ∀ s, s < dt.S → ∀ k, k < dt.G → 0 < getQ (dt.L i s) k)
    (hopf : ∀ i ∈ f.all, dt.opOf i < 1) (hopo : ∀ i ∈ out, 0 ≤ dt.opOf i) :
    0 < pMarg dt α f out :=
  mul_pos (mul_pos (common_pos dt hα hG f out hLo hopf hopo) (topoMarg_pos f)) (dataMarg_pos dt hG f hLf)

end Density
end PhyModel
