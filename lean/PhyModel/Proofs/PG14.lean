import PhyModel.Proofs.PG13
/-! # C01, stage 3, part 5: the propagation step and the first step of the executable sweep against
`ASMC.propC`, and the final selection against `ASMC.sel`. -/

namespace PhyModel.PG
open Finset BigOperators Proposal PGSpec Orders.Forest

variable {dt : Data} {c : Cfg} {σ : List ℕ} {L : List T}

/-- the code's initial weight `1/N` -/
abbrev uN (m : ℕ) : ℚ := 1 / ((m + 1 : ℕ) : ℚ)

theorem uN_pos (m : ℕ) : 0 < uN m := by unfold uN; positivity

/-- the retained path of the start tree `x` along `σ`, as states of the specification -/
structure PathOK (c : Cfg) (σ : List ℕ) (x : T) (path : ℕ → St L) : Prop where
  lvl : ∀ t, t ≤ σ.length → (path t).1 ∈ level c σ t
  child : ∀ t (ht : t < σ.length), (path (t+1)).1 ∈ children c (path t).1 σ[t]
  restr : ∀ t, t ≤ σ.length → SMC.restrict x (σ.take t) = (path t).1

theorem swOf_cons {m : ℕ} (S : ASMC.Sys (St L) m) :
    swOf S = ((S 0).1.1, (S 0).2) :: List.ofFn (fun j : Fin m => ((S j.succ).1.1, (S j.succ).2)) := by
  unfold swOf; rw [List.ofFn_succ]

/-- **propagation** at a step `t ≥ 1` -/
theorem update_E (h : Hyp dt c σ) (hinj : Inj c σ) (hL : ∀ x ∈ states c σ, x ∈ L) (θ : ℚ) (m : ℕ)
    {x : T} {path : ℕ → St L} (hp : PathOK c σ x path) {t : ℕ} (ht0 : t ≠ 0) (ht : t < σ.length)
    (S : ASMC.Sys (St L) m) (hS : ASMC.Good (spec dt c σ (uN m) L hL θ m) t (path t) S)
    (H : SMC.Swarm → ℚ) :
    Dist.E (SMC.update (runOf dt c m θ) x σ t (swOf S)) H
      = ASMC.propC (spec dt c σ (uN m) L hL θ m) t (path (t+1)) S (fun S' => H (swOf S')) := by
  have hi : σ[t]? = some σ[t] := List.getElem?_eq_getElem ht
  have hlev : ∀ j, (S j).1.1 ∈ level c σ t := fun j => mem_of_gT_pos (hS.2 j).2
  have hS0 : (S 0).1 = path t := hS.1
  have hch : (path (t+1)).1 ∈ children c (S 0).1.1 σ[t] := by rw [hS0]; exact hp.child t ht
  have hκt : (if t = 0 then uN m else (1 : ℚ)) = 1 := if_neg ht0
  have ht0' : (t == 0) = false := by simpa using ht0
  unfold SMC.update
  rw [swOf_cons]
  simp only [hi]
  rw [E_fmap, proposeAll_eq]
  rw [E_seqD m _ (fun j (y : St L) => (spec dt c σ (uN m) L hL θ m).q t (S j.succ).1 y)
    (fun j (y : St L) => (y.1, (S j.succ).2 * ASMC.incr (spec dt c σ (uN m) L hL θ m) t (S j.succ).1 y))]
  · unfold ASMC.propC
    apply Finset.sum_congr rfl
    intro y _
    congr 2
    rw [swOf_cons]
    congr 1
    · -- the retained particle
      simp only [ASMC.ext, Fin.cons_zero]
      rw [hp.restr (t+1) ht]
      congr 1
      unfold SMC.retainedW
      simp only [runOf]
      have hnd : ((table dt c false (S 0).1.1 σ[t]).map (·.1)).Nodup :=
        (table_keys_perm dt c _ _ _).nodup_iff.mpr (hinj t _ _ (hlev 0) hi)
      rw [lookupQ_eq_tprob _ hnd]
      have := incr_eq_incrWeight h (uN_pos m) hL θ m (x := (S 0).1) (x' := path (t+1)) (hlev 0) hi hch
      rw [hκt, one_mul, ht0'] at this
      rw [this]
  · intro j G
    have := propose_E h (uN_pos m) hinj hL θ m (S j.succ).1 (hlev j.succ) hi (S j.succ).2 G
    rw [hκt, ht0'] at this
    simp only [div_one] at this
    exact this

/-- the final draw -/
theorem select_E {m : ℕ} (S : ASMC.Sys (St L) m) (hh : T → ℚ) :
    Dist.E (SMC.select (swOf S)) hh = ∑ y : St L, ASMC.sel S y * hh y.1 := by
  unfold SMC.select
  rw [Dist.E_categorical, swOf, lsum_ofFn, lsum_ofFn]
  unfold ASMC.sel
  simp only [Finset.sum_mul]
  rw [Finset.sum_comm]
  rw [Finset.sum_div]
  apply Finset.sum_congr rfl
  intro k _
  have : ∀ y : St L, ASMC.wbar S k * (if (S k).1 = y then 1 else 0) * hh y.1
      = if (S k).1 = y then ASMC.wbar S k * hh y.1 else 0 := by
    intro y; split_ifs <;> ring
  simp only [this]
  rw [Finset.sum_ite_eq]
  simp only [Finset.mem_univ, if_true]
  unfold ASMC.wbar ASMC.tot
  ring

end PhyModel.PG
