import PhyModel.Proofs.ConsBridge8
/-! Bridge, part 9: projections of `nest` and `run`; the two C16 clauses at the level of `nest`
for every good family (so for every iteration order of the majority set); `run` succeeds on every
in-domain trace whose data indices are inside the data set. -/
open Finset

namespace PhyModel.ConsBridge
open PhyModel.Consensus PhyModel.Orders

variable {n : ℕ} {m : List Clade} {f : DF} {outs : List ℕ} {owns : List (Clade × List ℕ)}
  {tbl : List (Clade × Option Clade)}

theorem nest_spec (h : nest n m = .ok (f, outs, owns, tbl)) :
    parentTable m = .ok tbl ∧ ownsOf tbl m = .ok owns ∧
    f = Forest.ofRoots ((rootsOf tbl).map (buildNode tbl owns m.length)) ∧
    outs = outliersOf n owns ∧ ∀ i ∈ owns.flatMap (·.2), i < n := by
  unfold nest at h
  simp only [bind, Except.bind] at h
  split at h
  · cases h
  · rename_i t ht
    split at h
    · cases h
    · rename_i o ho
      split at h
      · cases h
      · rename_i hany
        simp only [pure, Except.pure] at h
        injection h with h
        simp only [Prod.mk.injEq] at h
        obtain ⟨h1, h2, h3, h4⟩ := h
        subst h3 h4
        refine ⟨ht, ho, h1.symm, h2.symm, ?_⟩
        intro i hi
        by_contra hlt
        apply hany
        exact List.any_eq_true.mpr ⟨i, hi, by simpa using hlt⟩

/-- `nest` succeeds on a good family whose data indices are inside the data set -/
theorem nest_ok (hg : GoodFamily m) (hn : ∀ c ∈ m, ∀ i ∈ c, i < n) : ∃ r, nest n m = .ok r := by
  obtain ⟨tbl, ht⟩ := parentTable_ok hg
  obtain ⟨owns, ho⟩ := ownsOf_ok hg ht
  have hcov : ¬ ((owns.flatMap (·.2)).any fun i => decide (n ≤ i)) = true := by
    intro hany
    obtain ⟨i, hi, hle⟩ := List.any_eq_true.mp hany
    obtain ⟨e, he, hie⟩ := List.mem_flatMap.mp hi
    obtain ⟨c, hc, hic⟩ := (owns_cover hg ht ho i).mp ⟨e, he, hie⟩
    have := hn c hc i hic
    have hle' : n ≤ i := by simpa using hle
    omega
  unfold ownsOf at ho
  simp only [bind, Except.bind] at ho
  refine ⟨(Forest.ofRoots ((rootsOf tbl).map (buildNode tbl owns m.length)), outliersOf n owns,
    owns, tbl), ?_⟩
  unfold nest
  simp only [bind, Except.bind, ht]
  rw [ho]
  simp only [if_neg hcov]
  rfl

/-- clades of the forest built by `nest` = the family (as sets) -/
theorem nest_clades_exact (hg : GoodFamily m) (h : nest n m = .ok (f, outs, owns, tbl)) :
    F (cladesOf f) = F m := by
  obtain ⟨ht, ho, hf, _, _⟩ := nest_spec h
  rw [hf]
  exact forest_clades hg ht ho

/-- outliers of `nest` = the data indices in no member of the family -/
theorem nest_outs_exact (hg : GoodFamily m) (h : nest n m = .ok (f, outs, owns, tbl)) (i : ℕ) :
    i ∈ outs ↔ i < n ∧ ∀ c ∈ m, i ∉ c := by
  obtain ⟨ht, ho, _, ho', _⟩ := nest_spec h
  rw [ho', mem_outliersOf]
  have hc := owns_cover hg ht ho i
  constructor
  · rintro ⟨hi, hno⟩
    exact ⟨hi, fun c hcm hic => by
      obtain ⟨e, he, hie⟩ := hc.mpr ⟨c, hcm, hic⟩
      exact hno e he hie⟩
  · rintro ⟨hi, hno⟩
    exact ⟨hi, fun e he hie => by
      obtain ⟨c, hcm, hic⟩ := hc.mp ⟨e, he, hie⟩
      exact hno c hcm hic⟩

variable {trees : List DF} {weights : Option (List ℚ)} {θ : ℚ} {r : Result}

theorem run_spec (hr : run n trees weights θ = .ok r) :
    nest n (majority weights (trees.map cladeSet) θ) = .ok (r.forest, r.outs, r.owns, r.parents) ∧
    r.majority = majority weights (trees.map cladeSet) θ := by
  have key : ∀ x : Except String Result,
      (x = (do
        let (forest, outs, owns, tbl) ← nest n (majority weights (trees.map cladeSet) θ)
        pure { forest, outs, majority := majority weights (trees.map cladeSet) θ,
               supports := (candidates (trees.map cladeSet)).map fun c =>
                 (c, support weights (trees.map cladeSet) c),
               owns, parents := tbl })) → x = .ok r →
      nest n (majority weights (trees.map cladeSet) θ) = .ok (r.forest, r.outs, r.owns, r.parents) ∧
      r.majority = majority weights (trees.map cladeSet) θ := by
    intro x hx hxr
    subst hx
    cases hv : nest n (majority weights (trees.map cladeSet) θ) with
    | error e => rw [hv] at hxr; cases hxr
    | ok v =>
      rw [hv] at hxr
      obtain ⟨f, o, ow, t⟩ := v
      simp only [bind, Except.bind, pure, Except.pure] at hxr
      injection hxr with hxr
      subst hxr
      exact ⟨rfl, rfl⟩
  unfold run at hr
  cases weights with
  | none => exact key _ rfl hr
  | some ws =>
    by_cases hl : ws.length < trees.length
    · simp only [hl, if_true, bind, Except.bind, throw, throwThe, MonadExceptOf.throw] at hr
      cases hr
    · simp only [hl, if_false] at hr
      exact key _ rfl hr

/-- a majority clade is a clade of some input tree, so its elements are data of that tree -/
theorem majority_mem_all {c : Clade} (hc : c ∈ majority weights (trees.map cladeSet) θ) :
    ∃ t ∈ trees, ∀ i ∈ c, i ∈ t.all := by
  obtain ⟨cl, hcl, hcc⟩ := candidates_sub (mem_majority.mp hc).1
  obtain ⟨t, ht, rfl⟩ := List.mem_map.mp hcl
  refine ⟨t, ht, fun i hi => ?_⟩
  have h1 : c.toFinset ∈ (toC t).clades := by
    rw [← toC_clades]; exact List.mem_map.mpr ⟨c, cladeSet_sub hcc, rfl⟩
  have := _root_.Consensus.clade_subset_all (toC t) _ h1 (List.mem_toFinset.mpr hi)
  rw [toC_all] at this
  exact List.mem_toFinset.mp this

theorem run_ok (h : Domain trees weights θ) (hn : ∀ t ∈ trees, ∀ i ∈ t.all, i < n) :
    ∃ r, run n trees weights θ = .ok r := by
  have hn' : ∀ c ∈ majority weights (trees.map cladeSet) θ, ∀ i ∈ c, i < n := by
    intro c hc i hi
    obtain ⟨t, ht, hsub⟩ := majority_mem_all hc
    exact hn t ht i (hsub i hi)
  obtain ⟨⟨f, o, ow, t⟩, hv⟩ := nest_ok (majority_good h) hn'
  unfold run
  cases weights with
  | none =>
    simp only [bind, Except.bind, pure, Except.pure, hv]
    exact ⟨_, rfl⟩
  | some ws =>
    have hl : ¬ ws.length < trees.length := by
      rw [h.weights.len ws rfl]; exact lt_irrefl _
    simp only [bind, Except.bind, pure, Except.pure, hv, hl, if_false]
    exact ⟨_, rfl⟩

end PhyModel.ConsBridge
