import PhyModel.Proofs.StoreWF_Upd
/-! C07: `addDataPointToNode` preserves well-formedness, keeps the clone names, adds exactly the data
point to `_data` (which gives the target its key). -/
namespace PhyModel.Store
open PhyModel PhyModel.Store PhyModel.Store.Store SF AL

/-- everything the callers need about a successful `add_data_point_to_node` -/
theorem addDp_spec {dt : Data} {s s' : Store} {dp : Nat} {node : Int}
    (h : s.addDataPointToNode dt dp node = some s') (hw : WF s) :
    WF s' ∧ s'.forest.names = s.forest.names ∧ s'.forest.numNodes = s.forest.numNodes ∧
      s'.data = alSet s.data node (s.dataOf node ++ [dp]) ∧ dp ∉ vals s.data := by
  unfold addDataPointToNode at h
  simp only [Option.bind_eq_bind, Option.pure_def] at h
  split at h
  · cases h
  rename_i hin
  have hdp : dp ∉ vals s.data := hw.not_in_tree (by simpa using hin)
  have hnd := nodup_add_dp hw.d.data_keys hw.d.data_nodup hdp node
  split at h
  · -- the outliers
    rename_i hout
    have hout : node = outKey := by simpa using hout
    simp only [Option.some.injEq] at h; subst h
    refine ⟨?_, rfl, rfl, rfl, hdp⟩
    rw [wf_iff]
    refine ⟨hw.g, hw.m, ?_⟩
    have := hw.d.mapg_alSet (g := id) (node := node) (v := dOf s.data node ++ [dp])
      (fun _ _ => ⟨rfl, rfl⟩) (Or.inl hout)
      (fun m hm => by
        have : m.name ≠ node := fun hc => by
          have := hw.name_nonneg m hm; rw [hc, hout] at this; simp [outKey] at this
        simp only [id, if_neg this]; exact hw.d.payload_data m hm) hnd
    simpa [appendData, dataOf_eq] using this
  · -- a clone
    simp only [Option.bind_eq_some_iff] at h
    obtain ⟨i, hi, n, hn, n', hn', par, _, h⟩ := h
    obtain ⟨x, hx, rfl⟩ := recAt_some hn
    obtain ⟨hxm, hxn, hxi⟩ := hw.findSub_of_lookup hi hx
    obtain ⟨hi', hn'', hd'⟩ := recAdd_fields hn'
    -- the store before the cache update
    obtain ⟨hc, h1, h2, h3, _⟩ := updatePathToRoot_spec h
    simp only at hc h1 h2 h3
    have hg : ∀ m ∈ s.forest.recs, ((fun m : NodeRec => if m.idx = i then n' else m) m).name = m.name ∧
        ((fun m : NodeRec => if m.idx = i then n' else m) m).idx = m.idx := by
      intro m hm
      by_cases hmi : m.idx = i
      · have : m = x.1 := hw.g.eq_of_idx hm hxm (hmi.trans hxi.symm)
        subst this; simp [hmi, hn'', hi']
      · simp [hmi]
    have hs := sameCore_of_cores (rs' := s'.forest.recs) hc
    rw [recs_setRec] at hs
    have hd : WFD (s.forest.recs.map fun m => if m.idx = i then n' else m)
        (alSet s.data node (dOf s.data node ++ [dp])) := by
      refine hw.d.mapg_alSet hg (Or.inr (mem_names.2 ⟨x.1, hxm, hxn⟩)) (fun m hm => ?_) hnd
      by_cases hmi : m.idx = i
      · have : m = x.1 := hw.g.eq_of_idx hm hxm (hmi.trans hxi.symm)
        subst this
        simp only [hmi, if_true, hxn, hd']
        exact (List.Perm.append_right [dp] (hxn ▸ hw.d.payload_data _ hm))
      · have hne : m.name ≠ node := fun hc' =>
          hmi ((congrArg NodeRec.idx (hw.g.eq_of_name hm hxm (hc'.trans hxn.symm))).trans hxi)
        simp only [hmi, if_false, hne]; exact hw.d.payload_data m hm
    have hnm : s'.forest.recs.map (·.name) = s.forest.recs.map (·.name) :=
      (hs.map_eq (·.name) fun _ _ _ h => h).trans (map_name_of_keep hg)
    refine ⟨?_, hnm, ?_, ?_, hdp⟩
    · rw [wf_iff, h1, h2, h3]
      exact ⟨(hw.g.mapg hg).same hs, (hw.m.mapg hg).same hs, by simpa [appendData, dataOf_eq] using hd.same hs⟩
    · rw [numNodes_eq, numNodes_eq]; simpa using congrArg List.length hnm
    · rw [h3]; rfl

theorem addDp_wf {dt : Data} {s s' : Store} {dp : Nat} {node : Int}
    (h : s.addDataPointToNode dt dp node = some s') (hw : WF s) : WF s' := (addDp_spec h hw).1

/-- the target clone gets its `_data` key: enough that all *other* clones have theirs -/
theorem addDp_full {dt : Data} {s s' : Store} {dp : Nat} {node : Int}
    (h : s.addDataPointToNode dt dp node = some s') (hw : WF s)
    (hf : ∀ n ∈ s.forest.recs, n.name ≠ node → n.name ∈ keys s.data) : Full s' := by
  obtain ⟨_, hn, _, hd, _⟩ := addDp_spec h hw
  intro n hn'
  have : n.name ∈ s.forest.names := hn ▸ mem_names.2 ⟨n, hn', rfl⟩
  obtain ⟨m, hm, hmn⟩ := mem_names.1 this
  show n.name ∈ keys s'.data
  rw [hd, mem_keys_alSet]
  by_cases hc : n.name = node
  · exact Or.inl hc
  · exact Or.inr (hmn ▸ hf m hm (hmn ▸ hc))

theorem addDp_inv {dt : Data} {s s' : Store} {dp : Nat} {node : Int}
    (h : s.addDataPointToNode dt dp node = some s') (hs : Inv0 s) : Inv0 s' :=
  ⟨addDp_wf h hs.1, addDp_full h hs.1 fun n hn _ => hs.2 n hn⟩

theorem addDp_dense {dt : Data} {s s' : Store} {dp : Nat} {node : Int}
    (h : s.addDataPointToNode dt dp node = some s') (hw : WF s) (hd : Dense s) : Dense s' := by
  obtain ⟨_, hn, hnum, _, _⟩ := addDp_spec h hw
  intro n hn'
  have : n.name ∈ s.forest.names := hn ▸ mem_names.2 ⟨n, hn', rfl⟩
  obtain ⟨m, hm, hmn⟩ := mem_names.1 this
  show n.name < ((s'.forest.numNodes : Nat) : Int)
  rw [hnum, ← hmn]; exact hd m hm

/-- data conservation: exactly `dp` is added -/
theorem addDp_data {dt : Data} {s s' : Store} {dp : Nat} {node : Int}
    (h : s.addDataPointToNode dt dp node = some s') (hw : WF s) : (vals s'.data).Perm (dp :: vals s.data) := by
  obtain ⟨_, _, _, hd, _⟩ := addDp_spec h hw
  rw [hd]
  refine (vals_alSet_perm hw.d.data_keys node _).trans ?_
  refine List.Perm.trans ?_ (List.Perm.cons dp (vals_perm_split hw.d.data_keys node).symm)
  rw [dataOf_eq, List.append_assoc]
  exact (List.perm_append_comm_assoc _ _ _).trans (by simp)

end PhyModel.Store
