import PhyModel.Model.TraceLoop
import PhyModel.Proofs.RunLoopProofs
/-! C15 helper lemmas: the main loop records, for some number `m` of executed iterations, exactly the
entries of the iterations `j < m` with `j % thin = 0`, each built from the chain state *after*
iteration `j`; `m` is `num_iters` unless the time limit stopped the loop, in which case the stop fired
in iteration `m - 1` and in no earlier one.  The `iter` fields are those of `RunLoop.mainFrom`. -/
namespace PhyModel.TraceLoop
open PhyModel PhyModel.Store PhyModel.RunLoop

theorem sched_self (thin i : ℕ) : sched thin i i = [] := by simp [sched]

theorem sched_one (thin i : ℕ) : sched thin i (i + 1) = if i % thin = 0 then [i] else [] := by
  simp [sched, List.range'_succ, List.filter_cons]

theorem sched_step (thin i m : ℕ) (h : i + 1 ≤ m) :
    sched thin i m = (if i % thin = 0 then [i] else []) ++ sched thin (i + 1) m := by
  unfold sched
  have : m - i = (m - (i + 1)) + 1 := by omega
  rw [this, List.range'_succ, List.filter_cons]
  by_cases hm : i % thin = 0 <;> simp [hm]

/-- the entry the loop records for iteration `j`: built from the state after iteration `j` -/
def entryAt (dt : Data) (o : Oracles) (cu : Bool) (st0 : St) (j : ℕ) : Entry :=
  mkEntry dt j (o.clock j) (stateAt o cu st0 (j + 1))

theorem mainLoop_spec (dt : Data) (o : Oracles) (cu : Bool) (thin : ℕ) (st0 : St) :
    ∀ (fuel i : ℕ) (tr : List Entry), ∃ m,
      mainLoop dt o cu thin fuel i (stateAt o cu st0 i) tr
        = (tr ++ (sched thin i m).map (entryAt dt o cu st0), stateAt o cu st0 m, m) ∧
      i ≤ m ∧ m ≤ i + fuel ∧ (∀ j, i ≤ j → j + 1 < m → o.stop j = false) ∧
      (m < i + fuel → i < m ∧ o.stop (m - 1) = true) := by
  intro fuel
  induction fuel with
  | zero =>
    intro i tr
    exact ⟨i, by simp [mainLoop, sched_self], le_refl _, by omega, by intro j h1 h2; omega, by omega⟩
  | succ fuel ih =>
    intro i tr
    have hst : body o cu i (stateAt o cu st0 i) = stateAt o cu st0 (i + 1) := rfl
    by_cases hs : o.stop i = true
    · refine ⟨i + 1, ?_, by omega, by omega, by intro j h1 h2; omega, ?_⟩
      · simp only [mainLoop, hs, hst, ↓reduceIte, sched_one]
        by_cases hm : i % thin = 0 <;> simp [hm, appendToTrace, entryAt]
      · intro _; exact ⟨by omega, by simpa using hs⟩
    · have hs' : o.stop i = false := by simpa using hs
      obtain ⟨m, e, h1, h2, h3, h4⟩ := ih (i + 1)
        (if i % thin = 0 then appendToTrace dt i (o.clock i) (stateAt o cu st0 (i + 1)) tr else tr)
      refine ⟨m, ?_, by omega, by omega, ?_, ?_⟩
      · simp only [mainLoop, hs', hst, Bool.false_eq_true, ↓reduceIte]
        rw [e, sched_step thin i m h1]
        by_cases hm : i % thin = 0 <;> simp [hm, appendToTrace, entryAt]
      · intro j hj1 hj2
        by_cases hji : j = i
        · rw [hji]; exact hs'
        · exact h3 j (by omega) hj2
      · intro hlt
        have := h4 (by omega)
        exact ⟨by omega, this.2⟩

/-- the `iter` fields of the stateful loop are the output of the control-flow skeleton -/
theorem mainLoop_iters (dt : Data) (o : Oracles) (cu : Bool) (thin pf : ℕ) (hth : 1 ≤ thin) (hpf : 1 ≤ pf) :
    ∀ (fuel i : ℕ) (st : St) (tr : List Entry),
      mainFrom thin pf o.stop fuel i (tr.map (·.iter)).reverse
        = .ok ((mainLoop dt o cu thin fuel i st tr).1.map (·.iter), (mainLoop dt o cu thin fuel i st tr).2.2) := by
  intro fuel
  induction fuel with
  | zero => intro i st tr; simp [mainFrom, mainLoop, pure, Except.pure]
  | succ fuel ih =>
    intro i st tr
    by_cases hm : i % thin = 0
    · by_cases hs : o.stop i = true
      · simp [mainFrom, mainLoop, pyMod_ok i pf hpf, pyMod_ok i thin hth, hm, hs, appendToTrace, mkEntry,
          bind, Except.bind, pure, Except.pure]
      · have := ih (i + 1) (body o cu i st) (appendToTrace dt i (o.clock i) (body o cu i st) tr)
        simp only [appendToTrace, List.map_append, List.map_cons, List.map_nil, List.reverse_append,
          List.reverse_cons, List.reverse_nil, List.nil_append, List.cons_append, mkEntry] at this
        simp [mainFrom, mainLoop, pyMod_ok i pf hpf, pyMod_ok i thin hth, hm, hs, appendToTrace, mkEntry,
          bind, Except.bind, this]
    · by_cases hs : o.stop i = true
      · simp [mainFrom, mainLoop, pyMod_ok i pf hpf, pyMod_ok i thin hth, hm, hs,
          bind, Except.bind, pure, Except.pure]
      · have := ih (i + 1) (body o cu i st) tr
        simp [mainFrom, mainLoop, pyMod_ok i pf hpf, pyMod_ok i thin hth, hm, hs, bind, Except.bind, this]

theorem map_iter_entryAt (dt : Data) (o : Oracles) (cu : Bool) (st0 : St) (l : List ℕ) :
    (l.map (entryAt dt o cu st0)).map (·.iter) = l := by
  induction l with
  | nil => rfl
  | cons a l ih => simp [entryAt, mkEntry] at ih ⊢; exact ih

/-- the skeleton's schedule for an arbitrary stop oracle -/
theorem mainFrom_sched (thin pf : ℕ) (hth : 1 ≤ thin) (hpf : 1 ≤ pf) (stop : ℕ → Bool) (numIters : ℕ) :
    ∃ m, mainFrom thin pf stop numIters 0 [0] = .ok (0 :: sched thin 0 m, m) ∧ m ≤ numIters ∧
      (∀ j, j + 1 < m → stop j = false) ∧ (m < numIters → 0 < m ∧ stop (m - 1) = true) := by
  -- instantiate the stateful loop with dummy oracles
  let dt : Data := ⟨1, 1, [], [], []⟩
  let o : Oracles := ⟨fun _ t => t, fun _ a _ => a, fun _ => 0, stop⟩
  let st0 : St := ⟨Store.init dt, 1⟩
  obtain ⟨m, e, _, h2, h3, h4⟩ := mainLoop_spec dt o false thin st0 numIters 0 [mkEntry dt 0 0 st0]
  have hl := mainLoop_iters dt o false thin pf hth hpf numIters 0 st0 [mkEntry dt 0 0 st0]
  have e' : mainLoop dt o false thin numIters 0 st0 [mkEntry dt 0 0 st0]
      = ([mkEntry dt 0 0 st0] ++ (sched thin 0 m).map (entryAt dt o false st0), stateAt o false st0 m, m) := e
  rw [e'] at hl
  refine ⟨m, ?_, by omega, fun j hj => h3 j (Nat.zero_le _) hj, fun hlt => h4 (by omega)⟩
  have h0 : (List.map (fun x => x.iter) [mkEntry dt 0 0 st0]).reverse = [0] := rfl
  rw [h0] at hl
  rw [hl]
  simp only [List.map_append, map_iter_entryAt]
  rfl

end PhyModel.TraceLoop
