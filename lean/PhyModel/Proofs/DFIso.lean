import PhyModel.Proofs.LikIso
import PhyModel.Model.Density
import Mathlib.Data.List.Perm.Basic
import Mathlib.Algebra.BigOperators.Group.List.Basic
/-! Tree identity on data forests: `DFIso` (sibling order at any depth) and `DFIsoP` (additionally
the order of each clone's own data list), and the structural quantities they preserve. -/

namespace PhyModel
open Orders Orders.Forest

/-- data forests equal up to the order of siblings at any depth (data lists fixed) -/
inductive DFIso : DF → DF → Prop
  | refl (f : DF) : DFIso f f
  | swap (d : List ℕ) (k : DF) (d' : List ℕ) (k' : DF) (s : DF) :
      DFIso (.cons d k (.cons d' k' s)) (.cons d' k' (.cons d k s))
  | cons (d : List ℕ) {k k' s s' : DF} : DFIso k k' → DFIso s s' → DFIso (.cons d k s) (.cons d k' s')
  | symm {f g : DF} : DFIso f g → DFIso g f
  | trans {f g h : DF} : DFIso f g → DFIso g h → DFIso f h

/-- data forests equal up to sibling order at any depth **and** the order inside each clone's
own data list: the identity of the real tree, `(set of clades, ·)` -/
inductive DFIsoP : DF → DF → Prop
  | refl (f : DF) : DFIsoP f f
  | swap (d : List ℕ) (k : DF) (d' : List ℕ) (k' : DF) (s : DF) :
      DFIsoP (.cons d k (.cons d' k' s)) (.cons d' k' (.cons d k s))
  | cons {d d' : List ℕ} {k k' s s' : DF} :
      d.Perm d' → DFIsoP k k' → DFIsoP s s' → DFIsoP (.cons d k s) (.cons d' k' s')
  | symm {f g : DF} : DFIsoP f g → DFIsoP g f
  | trans {f g h : DF} : DFIsoP f g → DFIsoP g h → DFIsoP f h

theorem DFIso.toP {f g : DF} (h : DFIso f g) : DFIsoP f g := by
  induction h with
  | refl f => exact .refl f
  | swap d k d' k' s => exact .swap d k d' k' s
  | cons d _ _ ihk ihs => exact .cons (List.Perm.refl d) ihk ihs
  | symm _ ih => exact ih.symm
  | trans _ _ ih1 ih2 => exact ih1.trans ih2

/-! ### products of rational lists -/

theorem prodL_eq_prod (l : List ℚ) : prodL l = l.prod := by
  unfold prodL; rw [List.prod_eq_foldl]

theorem prodL_perm {l l' : List ℚ} (h : l.Perm l') : prodL l = prodL l' := by
  rw [prodL_eq_prod, prodL_eq_prod]; exact h.prod_eq

theorem prodL_map_perm {l l' : List ℕ} (F : ℕ → ℚ) (h : l.Perm l') :
    prodL (l.map F) = prodL (l'.map F) := prodL_perm (h.map F)

theorem prodL_nil : prodL [] = 1 := rfl

theorem prodL_cons (a : ℚ) (l : List ℚ) : prodL (a :: l) = a * prodL l := by
  rw [prodL_eq_prod, prodL_eq_prod, List.prod_cons]

theorem prodL_pos {l : List ℚ} (h : ∀ x ∈ l, 0 < x) : 0 < prodL l := by
  induction l with
  | nil => rw [prodL_nil]; exact zero_lt_one
  | cons a l ih =>
    rw [prodL_cons]
    exact mul_pos (h a (by simp)) (ih fun x hx => h x (by simp [hx]))

/-! ### the clone's own vector and the bridge to `Iso` -/

theorem nodeP_perm (dt : Data) (s : ℕ) {d d' : List ℕ} (h : d.Perm d') :
    nodeP dt s d = nodeP dt s d' := by
  unfold nodeP
  apply List.map_congr_left
  intro k _
  rw [prodL_map_perm _ h]

theorem toLik_isoP (dt : Data) (s : ℕ) {f g : DF} (h : DFIsoP f g) :
    Iso (toLik dt s f) (toLik dt s g) := by
  induction h with
  | refl f => exact .refl _
  | swap d k d' k' sb => exact .swap _ _ _ _ _
  | cons hd _ _ ihk ihs =>
    simp only [toLik]; rw [nodeP_perm dt s hd]; exact .cons _ ihk ihs
  | symm _ ih => exact ih.symm
  | trans _ _ ih1 ih2 => exact ih1.trans ih2

theorem toLik_iso (dt : Data) (s : ℕ) {f g : DF} (h : DFIso f g) :
    Iso (toLik dt s f) (toLik dt s g) := toLik_isoP dt s h.toP

theorem rootR_isoP (dt : Data) (s : ℕ) {f g : DF} (h : DFIsoP f g) :
    rootR dt s f = rootR dt s g := by
  unfold rootR; rw [D_iso dt.G (toLik_isoP dt s h)]

/-! ### structural quantities -/

theorem nodes_isoP {f g : DF} (h : DFIsoP f g) : f.nodes = g.nodes := by
  induction h with
  | refl f => rfl
  | swap d k d' k' s => simp only [nodes]; omega
  | cons _ _ _ ihk ihs => simp only [nodes, ihk, ihs]
  | symm _ ih => exact ih.symm
  | trans _ _ ih1 ih2 => exact ih1.trans ih2

theorem numRoots_isoP {f g : DF} (h : DFIsoP f g) : f.numRoots = g.numRoots := by
  induction h with
  | refl f => rfl
  | swap d k d' k' s => simp only [numRoots]
  | cons _ _ _ _ ihs => simp only [numRoots, ihs]
  | symm _ ih => exact ih.symm
  | trans _ _ ih1 ih2 => exact ih1.trans ih2

theorem all_isoP {f g : DF} (h : DFIsoP f g) : f.all.Perm g.all := by
  induction h with
  | refl f => exact List.Perm.refl _
  | swap d k d' k' s =>
    simp only [Forest.all]
    exact List.perm_append_comm_assoc _ _ _
  | cons hd _ _ ihk ihs =>
    simp only [Forest.all]
    exact (ihk.append hd).append ihs
  | symm _ ih => exact ih.symm
  | trans _ _ ih1 ih2 => exact ih1.trans ih2

theorem sizeTerm_isoP {f g : DF} (h : DFIsoP f g) : Density.sizeTerm f = Density.sizeTerm g := by
  induction h with
  | refl f => rfl
  | swap d k d' k' s => simp only [Density.sizeTerm]; ring
  | cons hd _ _ ihk ihs => simp only [Density.sizeTerm, ihk, ihs, hd.length_eq]
  | symm _ ih => exact ih.symm
  | trans _ _ ih1 ih2 => exact ih1.trans ih2

theorem subtreeTerm_isoP {f g : DF} (h : DFIsoP f g) :
    Density.subtreeTerm f = Density.subtreeTerm g := by
  induction h with
  | refl f => rfl
  | swap d k d' k' s => simp only [Density.subtreeTerm]; ring
  | cons _ hk _ _ ihs => simp only [Density.subtreeTerm, ihs, nodes_isoP hk]
  | symm _ ih => exact ih.symm
  | trans _ _ ih1 ih2 => exact ih1.trans ih2

theorem multNodes_isoP {f g : DF} (h : DFIsoP f g) : Density.multNodes f = Density.multNodes g := by
  induction h with
  | refl f => rfl
  | swap d k d' k' s => simp only [Density.multNodes]; ring
  | cons _ hk _ ihk ihs => simp only [Density.multNodes, ihk, ihs, numRoots_isoP hk]
  | symm _ ih => exact ih.symm
  | trans _ _ ih1 ih2 => exact ih1.trans ih2

end PhyModel
