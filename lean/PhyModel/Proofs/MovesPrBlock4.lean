import PhyModel.Proofs.MovesPrBlock3
/-! `PrBlock` from well-formedness; the unconditional invariance theorem of the prune-regraft move. -/
namespace PhyModel
open Orders Orders.Forest PhyModel.Moves Gibbs

namespace Canon

/-- a clone of a well-formed forest, with its subtree, is a well-formed single-rooted forest -/
theorem node_wf {f : DF} (w : WF f) {sd : List Nat} {sk : DF} (h : (sd, sk) ∈ nodesOf f) :
    WF (.cons sd sk .nil) := by
  induction f with
  | nil => simp [nodesOf] at h
  | cons d k s ihk ihs =>
    rcases mem_nodesOf_cons.mp h with e | hk | hs
    · obtain ⟨rfl, rfl⟩ := Prod.mk.inj e
      have hn := w.nodup
      simp only [Forest.all] at hn
      refine ⟨?_, ⟨w.ne.1, w.ne.2.1, trivial⟩, ?_⟩
      · simpa only [Forest.all, List.append_nil] using (List.nodup_append.mp hn).1
      · intro a ha
        simp only [Forest.all, List.append_nil] at ha
        exact w.small a (by simp only [Forest.all]; exact List.mem_append_left _ ha)
    · exact ihk w.kids hk
    · exact ihs w.sibs hs

/-- the context of `prCore` for a clone of a well-formed tree -/
theorem pbase_of_node {x : T} (w : WFT x) {sd : List Nat} {sk : DF} (h : (sd, sk) ∈ nodesOf x.f) :
    PBase sd sk (prPruned x (sd, sk)) := by
  have hsub := node_wf w.wf h
  have hkey : sd.headD 0 ∈ sd := headD_mem hsub.ne.1
  have hfix := canon_node_fixed w.wf (sd, sk) (by rw [w.canonF]; exact h)
  refine ⟨removeSub_wf _ w.wf, hsub, ?_, hfix.1, hfix.2⟩
  show ∀ a ∈ (removeSub (sd.headD 0) x.f).all, a ∉ sk.all ++ sd
  have hPn : (removeSub (sd.headD 0) x.f).all.Nodup := (removeSub_wf _ w.wf).nodup
  rcases prune_eqv w.wf h hkey with hq | ⟨a, ha, hq⟩
  · have hn := hq.all_perm.nodup_iff.mp w.wf.nodup
    simp only [Forest.all] at hn
    intro c hc hc'
    exact (List.nodup_append.mp hn).2.2 c hc' c hc rfl
  · have hn := (attachUnder_all_perm sd sk hPn ha).nodup_iff.mp (hq.all_perm.nodup_iff.mp w.wf.nodup)
    intro c hc hc'
    exact (List.nodup_append.mp hn).2.2 c hc' c hc rfl

theorem self_mem_prCands {x : T} (w : WFT x) {sd : List Nat} {sk : DF} (h : (sd, sk) ∈ nodesOf x.f) :
    x ∈ prCands x (sd, sk) := by
  have b := pbase_of_node w h
  rw [prCands_eq, mem_prCore b]
  obtain ⟨xf, xo⟩ := x
  rcases prune_eqv w.wf h b.key_mem with hq | ⟨a, ha, hq⟩
  · right
    show (⟨xf, xo⟩ : T) = ⟨canon (.cons sd sk (removeSub (sd.headD 0) xf)), sortNat xo⟩
    rw [← canon_congr hq w.wf, w.canonF, w.sortedOut]
  · left
    refine ⟨a, ha, ?_⟩
    show (⟨xf, xo⟩ : T) = ⟨canon (attachUnder a sd sk (removeSub (sd.headD 0) xf)), sortNat xo⟩
    rw [← canon_congr hq w.wf, w.canonF, w.sortedOut]

/-- The re-attachment lists of the prune-regraft move form blocks on any list of well-formed trees
that is closed under the move. -/
theorem prBlock_of_wf (S : List T) (hwf : ∀ x ∈ S, WFT x)
    (hcl : ∀ x ∈ S, ∀ sub ∈ nodesOf x.f, ∀ y ∈ prCands x sub, y ∈ S) : PrBlock S := by
  -- what every candidate looks like
  have hbase : ∀ x ∈ S, ∀ sub ∈ nodesOf x.f, ∀ y ∈ prCands x sub,
      Eqv (prPruned y sub) (prPruned x sub) ∧ sub ∈ nodesOf y.f ∧ y.f.nodes = x.f.nodes ∧ y.out = x.out := by
    intro x hx sub hsub y hy
    obtain ⟨sd, sk⟩ := sub
    have w := hwf x hx
    have b := pbase_of_node w hsub
    obtain ⟨h1, h2, h3, h4⟩ := prCore_base b (by rw [← prCands_eq]; exact hy)
    obtain ⟨_, _, h3', _⟩ := prCore_base b (by rw [← prCands_eq]; exact self_mem_prCands w hsub)
    exact ⟨h1, h2, h3.trans h3'.symm, h4.trans w.sortedOut⟩
  refine ⟨fun x hx _ => nodesOf_nodup (hwf x hx).wf, ?_, ?_⟩
  · intro z _ sub _
    have mem : ∀ {x}, x ∈ S.filter (fun x => prActive x && decide (sub ∈ nodesOf x.f) && prProper x sub) →
        x ∈ S ∧ prActive x = true ∧ sub ∈ nodesOf x.f ∧ prProper x sub = true := by
      intro x hx
      have := List.mem_filter.mp hx
      simp only [Bool.and_eq_true, decide_eq_true_eq] at this
      exact ⟨this.1, this.2.1.1, this.2.1.2, this.2.2⟩
    obtain ⟨sd, sk⟩ := sub
    refine ⟨?_, ?_, ?_, ?_⟩
    · intro x hx
      exact self_mem_prCands (hwf x (mem hx).1) (mem hx).2.2.1
    · intro x hx
      rw [prCands_eq]; exact prCore_nodup (pbase_of_node (hwf x (mem hx).1) (mem hx).2.2.1)
    · intro x hx y hy
      obtain ⟨hxS, hact, hsub, hprop⟩ := mem hx
      obtain ⟨h1, h2, h3, _⟩ := hbase x hxS _ hsub y hy
      refine List.mem_filter.mpr ⟨hcl x hxS _ hsub y hy, ?_⟩
      simp only [Bool.and_eq_true, decide_eq_true_eq]
      refine ⟨⟨?_, h2⟩, ?_⟩
      · simp only [prActive, decide_eq_true_eq, length_nodesOf] at hact ⊢
        omega
      · simp only [prProper, Bool.not_eq_true', List.isEmpty_eq_false_iff_exists_mem] at hprop ⊢
        have hlen : (nodesOf (prPruned y (sd, sk))).length = (nodesOf (prPruned x (sd, sk))).length := by
          rw [length_nodesOf, length_nodesOf, h1.nodes]
        obtain ⟨nd, hnd⟩ := hprop
        have : 0 < (nodesOf (prPruned y (sd, sk))).length := by
          rw [hlen]; exact List.length_pos_of_mem hnd
        exact List.exists_mem_of_length_pos this
    · intro x hx y hy
      obtain ⟨hxS, _, hsub, _⟩ := mem hx
      obtain ⟨h1, _, _, h4⟩ := hbase x hxS _ hsub y hy
      rw [prCands_eq, prCands_eq, h4]
      exact (prCore_perm (pbase_of_node (hwf x hxS) hsub) h1.symm).symm
  · intro x hx _ sub hsub _ y hy
    rw [length_nodesOf, length_nodesOf]
    exact (hbase x hx sub hsub y hy).2.2.1

/-- The prune-regraft move leaves `π` invariant on any duplicate-free list of well-formed trees
closed under the re-attachments. -/
theorem pruneRegraft_invariant (c : Moves.Cfg) (S : List T) (hS : S.Nodup) (hwf : ∀ x ∈ S, WFT x)
    (hcl : ∀ x ∈ S, ∀ sub ∈ nodesOf x.f, ∀ y ∈ prCands x sub, y ∈ S)
    (hπ : ∀ x ∈ S, 0 ≤ pOneOf c x) : Inv S (pOneOf c) (pruneRegraft c) :=
  pruneRegraft_invariant_of_block c S hS hπ (prBlock_of_wf S hwf hcl)

end Canon
end PhyModel
