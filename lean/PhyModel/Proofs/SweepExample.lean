import PhyModel.Proofs.Sweep1
import PhyModel.Proofs.PGExample
import Mathlib.Tactic.NormNum
/-! Concrete instance for the non-vacuity examples of the whole-sweep theorems (C04): the three-point
data set of C04's examples (`Props.C04.exData`; repeated here because the property file imports this one),
outlier priors 1/5, every proposal kind with outlier proposal probability 1/10 and `α = 1`
(`PG.exCfg`). -/

namespace PhyModel.Sweep
open Orders

def swData : Data :=
  { G := 2, S := 1, vals := [[[1/2, 1/4]], [[1/4, 1]], [[1/3, 1/2]]], op := [1/5, 1/5, 1/5], sz := [1, 1, 1] }

theorem swGood (i : ℕ) (hi : i < 3) : C19P.GoodIdx swData i := by
  have h3 : i = 0 ∨ i = 1 ∨ i = 2 := by omega
  refine ⟨fun s hs k hk => ?_, ?_, ?_⟩
  · have hs' : s = 0 := by (have : s < 1 := hs); omega
    have hk' : k = 0 ∨ k = 1 := by (have : k < 2 := hk); omega
    subst hs'
    rcases h3 with rfl | rfl | rfl <;> rcases hk' with rfl | rfl <;>
      norm_num [swData, Data.L, getQ]
  · rcases h3 with rfl | rfl | rfl <;> norm_num [swData, Data.opOf]
  · rcases h3 with rfl | rfl | rfl <;> norm_num [swData, Data.opOf]

theorem swHypD (k : Proposal.Prop3) : PG.HypD swData (PG.exCfg k) [0, 1, 2] where
  hG := by decide
  hα := by norm_num [PG.exCfg]
  op0 := by norm_num [PG.exCfg]
  op1 := by norm_num [PG.exCfg]
  nodup := by decide
  good := by
    intro i hi
    simp only [List.mem_cons, List.not_mem_nil, or_false] at hi
    exact swGood i (by omega)
  big := by
    intro i hi
    simp only [List.mem_cons, List.not_mem_nil, or_false] at hi
    rcases hi with rfl | rfl | rfl <;> decide
  ne := by simp
  perm := rfl

end PhyModel.Sweep
