import PhyModel.Model.Framing
/-! Helper lemmas for C20: the serialiser is sound, complete and prefix-free. -/
namespace PhyModel.Framing

theorem enc_ne_nil (v : Val) : enc v ≠ [] := by
  cases v <;> simp [enc]

theorem size_le_enc_length (v : Val) : v.size ≤ (enc v).length := by
  induction v with
  | nil => simp [enc, Val.size]
  | num n r ih => simp [enc, Val.size]; omega
  | sub v r ihv ihr => simp [enc, Val.size]; omega

/-- a successful parse consumed exactly the encoding of what it returns -/
theorem decAux_sound : ∀ (f : Nat) (s : List Sym) (v : Val) (r : List Sym),
    decAux f s = some (v, r) → s = enc v ++ r := by
  intro f
  induction f with
  | zero => intro s v r h; simp [decAux] at h
  | succ f ih =>
    intro s v r h
    cases s with
    | nil => simp [decAux] at h
    | cons t s =>
      simp only [decAux] at h
      split at h
      · rename_i h0; cases h; simp [enc, h0]
      · split at h
        · rename_i h1
          cases s with
          | nil => simp at h
          | cons n s' =>
            simp only at h
            cases hd : decAux f s' with
            | none => simp [hd] at h
            | some p =>
              obtain ⟨w, r'⟩ := p
              simp [hd] at h
              obtain ⟨hv, hr⟩ := h
              have := ih s' w r' hd
              subst hv hr
              simp [enc, h1, this]
        · split at h
          · rename_i h2
            cases hd : decAux f s with
            | none => simp [hd] at h
            | some p =>
              obtain ⟨w, r'⟩ := p
              simp only [hd] at h
              cases hd2 : decAux f r' with
              | none => simp [hd2] at h
              | some p2 =>
                obtain ⟨w2, r''⟩ := p2
                simp [hd2] at h
                obtain ⟨hv, hr⟩ := h
                have e1 := ih s w r' hd
                have e2 := ih r' w2 r'' hd2
                subst hv hr
                simp [enc, h2, e1, e2]
          · simp at h

/-- with enough fuel the encoding of `v` followed by anything parses to `v` and leaves the rest -/
theorem decAux_complete : ∀ (v : Val) (f : Nat) (r : List Sym),
    v.size ≤ f → decAux f (enc v ++ r) = some (v, r) := by
  intro v
  induction v with
  | nil =>
    intro f r hf
    cases f with
    | zero => simp [Val.size] at hf
    | succ f => simp [enc, decAux]
  | num n w ih =>
    intro f r hf
    cases f with
    | zero => simp [Val.size] at hf
    | succ f =>
      have := ih f r (by simp [Val.size] at hf; omega)
      simp [enc, decAux, this]
  | sub v w ihv ihw =>
    intro f r hf
    cases f with
    | zero => simp [Val.size] at hf
    | succ f =>
      have h1 := ihv f (enc w ++ r) (by simp [Val.size] at hf; omega)
      have h2 := ihw f r (by simp [Val.size] at hf; omega)
      simp [enc, decAux, List.append_assoc, h1, h2]

/-- unique parse: no encoding is a proper prefix of another one -/
theorem enc_inj : ∀ (v w : Val) (a b : List Sym), enc v ++ a = enc w ++ b → v = w ∧ a = b := by
  intro v
  induction v with
  | nil =>
    intro w a b h
    cases w <;> simp [enc] at h ⊢
    exact h
  | num n r ih =>
    intro w a b h
    cases w with
    | nil => simp [enc] at h
    | num m r' =>
      simp [enc] at h
      obtain ⟨hn, h⟩ := h
      obtain ⟨e1, e2⟩ := ih r' a b h
      simp [hn, e1, e2]
    | sub v' r' => simp [enc] at h
  | sub v r ihv ihr =>
    intro w a b h
    cases w with
    | nil => simp [enc] at h
    | num m r' => simp [enc] at h
    | sub v' r' =>
      simp [enc, List.append_assoc] at h
      obtain ⟨e1, h2⟩ := ihv v' _ _ h
      obtain ⟨e2, e3⟩ := ihr r' a b h2
      simp [e1, e2, e3]

theorem decode_enc_append (x : Val) (r : List Sym) : decode (enc x ++ r) = some x := by
  unfold decode
  have h := decAux_complete x ((enc x ++ r).length + 1) r (by
    have := size_le_enc_length x
    simp; omega)
  rw [h]

theorem decode_proper_prefix (x : Val) (p : List Sym) (hp : p <+: enc x) (hne : p ≠ enc x) :
    decode p = none := by
  unfold decode
  cases hd : decAux (p.length + 1) p with
  | none => rfl
  | some q =>
    exfalso
    obtain ⟨w, r⟩ := q
    have hs := decAux_sound _ _ _ _ hd
    obtain ⟨t, ht⟩ := hp
    have : enc w ++ (r ++ t) = enc x ++ [] := by
      rw [← List.append_assoc, ← hs, ht]; simp
    obtain ⟨e1, e2⟩ := enc_inj _ _ _ _ this
    have : t = [] := by
      cases t with
      | nil => rfl
      | cons a t => simp at e2
    subst this
    simp at ht
    exact hne ht

end PhyModel.Framing
