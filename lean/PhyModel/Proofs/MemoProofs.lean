import PhyModel.Model.Memo
import PhyModel.Proofs.LikIso
import PhyModel.Proofs.CacheProofs
/-! Helper lemmas for C14: the truncated convolution is commutative, the children recursion of
`compute_log_D` does not depend on the order of the children, equal content keys mean
equal-up-to-order arguments. -/

open Finset BigOperators

namespace PhyModel

theorem conv_comm (G : ℕ) (a b : Vec) : conv G a b = conv G b a := by
  unfold conv
  apply List.map_congr_left
  intro k _
  rw [sumTo_eq, sumTo_eq, ← Finset.sum_range_reflect]
  apply Finset.sum_congr rfl
  intro j hj
  have hj' : j < k + 1 := Finset.mem_range.mp hj
  have h1 : k + 1 - 1 - j = k - j := by omega
  have h2 : k - (k - j) = j := by omega
  rw [h1, h2]; ring

namespace Memo

/-! ### a generic order-insensitive reduction -/
section Red
variable {α : Type} (f : α → α → α)

/-- `c₀ :: cs ↦ f cₙ (… (f c₁ c₀))`, nothing for the empty list -/
def red : List α → Option α
  | [] => none
  | c :: cs => some (cs.foldl (fun acc x => f x acc) c)

theorem red_perm (hc : ∀ a b, f a b = f b a) (hlc : ∀ a b c, f a (f b c) = f b (f a c))
    {l1 l2 : List α} (h : l1.Perm l2) : red f l1 = red f l2 := by
  have hr : ∀ (l : List α), ∀ x ∈ l, ∀ y ∈ l, ∀ z,
      (fun acc x => f x acc) ((fun acc x => f x acc) z x) y
        = (fun acc x => f x acc) ((fun acc x => f x acc) z y) x := by
    intro l x _ y _ z
    exact hlc y x z
  induction h with
  | nil => rfl
  | cons x p _ =>
    simp only [red]
    exact congrArg some (List.Perm.foldl_eq' p (hr _) x)
  | swap x y l =>
    simp only [red, List.foldl_cons]
    rw [hc x y]
  | trans _ _ ih1 ih2 => exact ih1.trans ih2

end Red

/-! ### the matrix convolution inherits both laws -/

theorem convM_comm (G : ℕ) : ∀ (a b : Mat), convM G a b = convM G b a := by
  intro a
  induction a with
  | nil => intro b; cases b <;> simp [convM]
  | cons x a ih =>
    intro b
    cases b with
    | nil => simp [convM]
    | cons y b =>
      have := ih b
      simp only [convM, List.zipWith_cons_cons] at this ⊢
      rw [this, conv_comm]

theorem convM_left_comm (G : ℕ) : ∀ (a b c : Mat),
    convM G a (convM G b c) = convM G b (convM G a c) := by
  intro a
  induction a with
  | nil => intro b c; cases b <;> cases c <;> simp [convM]
  | cons x a ih =>
    intro b c
    cases b with
    | nil => simp [convM]
    | cons y b =>
      cases c with
      | nil => simp [convM]
      | cons z c =>
        have := ih b c
        simp only [convM, List.zipWith_cons_cons] at this ⊢
        rw [this, conv_left_comm]

theorem foldConv_eq_foldl (G : ℕ) (cs : List Mat) (acc : Mat) :
    foldConv G acc cs = cs.foldl (fun acc x => convM G x acc) acc := by
  induction cs generalizing acc with
  | nil => rfl
  | cons c cs ih => simp only [foldConv, List.foldl_cons]; exact ih _

/-- for a non-empty children list `compute_log_D` is the order-insensitive reduction -/
theorem childD_eq_red (G S : ℕ) (c : Mat) (cs : List Mat) :
    some (childD G S (c :: cs)) = red (convM G) (c :: cs) := by
  cases cs with
  | nil => rfl
  | cons c1 cs =>
    simp only [childD, red, List.foldl_cons, foldConv_eq_foldl]
    rw [convM_comm G c c1]

theorem childD_perm (G S : ℕ) {l1 l2 : List Mat} (h : l1.Perm l2) :
    childD G S l1 = childD G S l2 := by
  cases l1 with
  | nil => rw [List.nil_perm.mp h]
  | cons c cs =>
    cases l2 with
    | nil => exact absurd h.symm (by simp)
    | cons d ds =>
      have := red_perm (convM G) (convM_comm G) (convM_left_comm G) h
      rw [← childD_eq_red G S, ← childD_eq_red G S] at this
      exact Option.some.inj this

theorem insertMat_perm (a : Mat) : ∀ l : List Mat, (insertMat a l).Perm (a :: l) := by
  intro l
  induction l with
  | nil => exact List.Perm.refl _
  | cons b l ih =>
    simp only [insertMat]
    split
    · exact List.Perm.refl _
    · exact (List.Perm.cons b ih).trans (List.Perm.swap a b l)

theorem keyS_perm (l : List Mat) : (keyS l).Perm l := by
  induction l with
  | nil => exact List.Perm.refl _
  | cons a l ih =>
    have : keyS (a :: l) = insertMat a (keyS l) := rfl
    rw [this]
    exact (insertMat_perm a _).trans (List.Perm.cons a ih)

theorem keyS_perm_of_eq {l1 l2 : List Mat} (h : keyS l1 = keyS l2) : l1.Perm l2 := by
  have h1 := keyS_perm l1
  rw [h] at h1
  exact h1.symm.trans (keyS_perm l2)

theorem keyPair_cases {a b a' b' : Mat} (h : keyPair a b = keyPair a' b') :
    (a = a' ∧ b = b') ∨ (a = b' ∧ b = a') := by
  unfold keyPair at h
  split at h <;> split at h <;> simp only [Prod.mk.injEq] at h
  · exact Or.inl h
  · exact Or.inr h
  · exact Or.inr ⟨h.2, h.1⟩
  · exact Or.inl ⟨h.2, h.1⟩

/-- the tracing run used by the driver returns the values of `Cache.run` -/
theorem runTrace_values {E A K V : Type} [DecidableEq K] (key : E → A → K) (f : E → A → V) :
    ∀ (ops : List (Cache.Op E A)) (c : Cache.Cache K V),
      (runTrace key f c ops).map (fun t => t.2.1) = (Cache.run key f c ops).2 := by
  intro ops
  induction ops with
  | nil => intro c; rfl
  | cons op ops ih => intro c; simp only [runTrace, Cache.run, List.map_cons]; rw [ih]

end Memo
end PhyModel
