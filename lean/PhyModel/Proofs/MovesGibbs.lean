import PhyModel.Proofs.MovesDist
import PhyModel.Proofs.Gibbs
/-! List-level Gibbs lemmas (no `Fintype`): a kernel that redraws the state from a candidate list
proportionally to the weights is reversible / invariant as soon as the candidate lists form
blocks (the candidates of a candidate are a permutation of the original candidates). -/
namespace PhyModel
open Dist Finset

namespace Gibbs
variable {X : Type}

/-- the Gibbs kernel over a candidate list -/
def gibbsK (w : X → ℚ) (cs : List X) : Dist X := Dist.categorical (cs.map fun t => (t, w t))

theorem E_gibbsK (w : X → ℚ) (cs : List X) (h : X → ℚ) :
    E (gibbsK w cs) h = lsum cs (fun t => w t * h t) / lsum cs w := by
  unfold gibbsK
  rw [E_categorical, lsum_map, lsum_map]

variable [DecidableEq X]

theorem lsum_eq_sum {l : List X} (hl : l.Nodup) (g : X → ℚ) : lsum l g = ∑ x ∈ l.toFinset, g x := by
  unfold lsum; rw [List.sum_toFinset g hl]

theorem lsum_perm {α : Type} {l l' : List α} (hp : l.Perm l') (g : α → ℚ) : lsum l g = lsum l' g := by
  unfold lsum; exact (hp.map g).sum_eq

/-- block structure of a candidate function on the state list `S` -/
structure Block (S : List X) (cands : X → List X) : Prop where
  self : ∀ x ∈ S, x ∈ cands x
  nodup : ∀ x ∈ S, (cands x).Nodup
  closed : ∀ x ∈ S, ∀ y ∈ cands x, y ∈ S
  perm : ∀ x ∈ S, ∀ y ∈ cands x, (cands y).Perm (cands x)

instance (S : List X) (cands : X → List X) : Decidable (Block S cands) :=
  decidable_of_iff ((∀ x ∈ S, x ∈ cands x) ∧ (∀ x ∈ S, (cands x).Nodup) ∧
    (∀ x ∈ S, ∀ y ∈ cands x, y ∈ S) ∧ (∀ x ∈ S, ∀ y ∈ cands x, (cands y).Perm (cands x)))
    ⟨fun h => ⟨h.1, h.2.1, h.2.2.1, h.2.2.2⟩, fun h => ⟨h.1, h.2, h.3, h.4⟩⟩

omit [DecidableEq X] in
theorem Block.symm {S : List X} {cands : X → List X} (hB : Block S cands) {x y : X}
    (hx : x ∈ S) (hy : y ∈ cands x) : x ∈ cands y :=
  (hB.perm x hx y hy).mem_iff.mpr (hB.self x hx)

/-- probability of moving to `y` -/
def prob (d : Dist X) (y : X) : ℚ := E d (fun t => if t = y then 1 else 0)

/-- Detailed balance of the Gibbs kernel on a block structure. -/
theorem categorical_gibbs_reversible (S : List X) (cands : X → List X) (w : X → ℚ)
    (hB : Block S cands) (x y : X) (hx : x ∈ S) (hy : y ∈ S) :
    w x * prob (gibbsK w (cands x)) y = w y * prob (gibbsK w (cands y)) x := by
  unfold prob
  rw [E_gibbsK, E_gibbsK]
  by_cases hxy : y ∈ cands x
  · have hyx : x ∈ cands y := hB.symm hx hxy
    have hp := hB.perm x hx y hxy
    rw [lsum_perm hp, lsum_perm hp]
    rw [lsum_eq_sum (hB.nodup x hx), lsum_eq_sum (hB.nodup x hx), lsum_eq_sum (hB.nodup x hx)]
    have h1 : ∑ t ∈ (cands x).toFinset, w t * (if t = y then 1 else 0) = w y := by
      rw [Finset.sum_eq_single y]
      · simp
      · intro b _ hb; simp [hb]
      · intro hn; exact absurd (List.mem_toFinset.mpr hxy) hn
    have h2 : ∑ t ∈ (cands x).toFinset, w t * (if t = x then 1 else 0) = w x := by
      rw [Finset.sum_eq_single x]
      · simp
      · intro b _ hb; simp [hb]
      · intro hn; exact absurd (List.mem_toFinset.mpr (hB.self x hx)) hn
    rw [h1, h2]; ring
  · have hyx : x ∉ cands y := fun hh => hxy (hB.symm hy hh)
    have h1 : lsum (cands x) (fun t => w t * (if t = y then 1 else 0)) = 0 := by
      rw [lsum_congr (cands x) (H := fun _ => 0), lsum_zero]; intro t ht
      have : t ≠ y := fun e => hxy (e ▸ ht)
      simp [this]
    have h2 : lsum (cands y) (fun t => w t * (if t = x then 1 else 0)) = 0 := by
      rw [lsum_congr (cands y) (H := fun _ => 0), lsum_zero]; intro t ht
      have : t ≠ x := fun e => hyx (e ▸ ht)
      simp [this]
    rw [h1, h2]; simp

/-- Invariance of the Gibbs kernel, in expectation form, for the measure `r x * w x` where `r` is
constant on blocks (`r = 1` for the plain statement; `r` = probability of the choice that selected
the block for mixtures). -/
theorem gibbs_list_invariant (S : List X) (hS : S.Nodup) (cands : X → List X) (w r : X → ℚ)
    (hw : ∀ x ∈ S, 0 ≤ w x) (hB : Block S cands)
    (hr : ∀ x ∈ S, ∀ y ∈ cands x, r y = r x) (h : X → ℚ) :
    lsum S (fun x => r x * w x * E (gibbsK w (cands x)) h) = lsum S (fun x => r x * w x * h x) := by
  rw [lsum_eq_sum hS, lsum_eq_sum hS]
  set F := S.toFinset with hF
  have memF : ∀ {x}, x ∈ F ↔ x ∈ S := by intro x; simp [hF]
  let C : X → Finset X := fun x => (cands x).toFinset
  let W : X → ℚ := fun x => ∑ t ∈ C x, w t
  have hE : ∀ x ∈ F, E (gibbsK w (cands x)) h = (∑ t ∈ C x, w t * h t) / W x := by
    intro x hx
    rw [E_gibbsK, lsum_eq_sum (hB.nodup x (memF.mp hx)), lsum_eq_sum (hB.nodup x (memF.mp hx))]
  have hsub : ∀ x ∈ F, C x ⊆ F := by
    intro x hx t ht
    exact memF.mpr (hB.closed x (memF.mp hx) t (List.mem_toFinset.mp ht))
  have hsym : ∀ x ∈ F, ∀ t ∈ F, (t ∈ C x ↔ x ∈ C t) := by
    intro x hx t ht
    simp only [C, List.mem_toFinset]
    exact ⟨fun hh => hB.symm (memF.mp hx) hh, fun hh => hB.symm (memF.mp ht) hh⟩
  have hCeq : ∀ x ∈ F, ∀ t ∈ C x, C t = C x := by
    intro x hx t ht
    ext z; simp only [C, List.mem_toFinset]
    exact (hB.perm x (memF.mp hx) t (List.mem_toFinset.mp ht)).mem_iff
  have hWeq : ∀ x ∈ F, ∀ t ∈ C x, W t = W x := by
    intro x hx t ht; simp only [W]; rw [hCeq x hx t ht]
  -- step 1: expand and index everything by F × F
  have step1 : ∑ x ∈ F, r x * w x * E (gibbsK w (cands x)) h
      = ∑ x ∈ F, ∑ t ∈ F, (if t ∈ C x then r x * w x * (w t * h t) / W x else 0) := by
    apply Finset.sum_congr rfl; intro x hx
    rw [hE x hx, Finset.sum_ite_mem, Finset.inter_eq_right.mpr (hsub x hx), ← mul_div_assoc,
      Finset.mul_sum, Finset.sum_div]
  rw [step1, Finset.sum_comm]
  apply Finset.sum_congr rfl; intro t ht
  have step2 : ∑ x ∈ F, (if t ∈ C x then r x * w x * (w t * h t) / W x else 0)
      = ∑ x ∈ F, (if x ∈ C t then r t * (w t * h t) / W t * w x else 0) := by
    apply Finset.sum_congr rfl; intro x hx
    by_cases hh : t ∈ C x
    · have hh' : x ∈ C t := (hsym x hx t ht).mp hh
      rw [if_pos hh, if_pos hh', hWeq x hx t hh, hr x (memF.mp hx) t (List.mem_toFinset.mp hh)]
      ring
    · have hh' : x ∉ C t := fun e => hh ((hsym x hx t ht).mpr e)
      rw [if_neg hh, if_neg hh']
  rw [step2, Finset.sum_ite_mem, Finset.inter_eq_right.mpr (hsub t ht), ← Finset.mul_sum]
  show r t * (w t * h t) / W t * W t = r t * w t * h t
  by_cases hW : W t = 0
  · -- all weights in the block vanish, in particular `w t`
    have htC : t ∈ C t := List.mem_toFinset.mpr (hB.self t (memF.mp ht))
    have hle : w t ≤ W t :=
      Finset.single_le_sum (f := w) (fun z hz => hw z (memF.mp (hsub t ht hz))) htC
    have hwt : w t = 0 := le_antisymm (hW ▸ hle) (hw t (memF.mp ht))
    rw [hW, hwt]; simp
  · field_simp

end Gibbs
end PhyModel
