import PhyModel.Proofs.StoreCache_addDp
/-! C06, `Tree.remove_data_point_from_node` / `remove_data_point_from_outliers`: the clone's `p` is
divided by the data point's grid (non-zero values: `DataNZ`, index inside the data set), then every
`r` from the clone up to the top is recomputed. -/
namespace PhyModel.Store.C06
open PhyModel

/-- **C06, `remove_data_point_from_node`** -/
theorem cacheOK_rmDp (dt : Data) (hNZ : DataNZ dt) (s s' : Store) (dp : Nat) (node : Int)
    (hdp : dp < dt.n) (hnd : s.forest.idxs.Nodup) (hc : CacheOK dt s)
    (h : s.removeDataPointFromNode dt dp node = some s') : CacheOK dt s' := by
  unfold Store.removeDataPointFromNode at h
  split at h
  · cases h
  · simp only [Option.bind_eq_bind, Option.pure_def] at h
    split at h
    · cases h; exact hc
    · simp only [Option.bind_eq_some_iff] at h
      obtain ⟨i, hi, n, hn, n', hn', hup⟩ := h
      obtain ⟨k, hf⟩ := recAt_some hn
      obtain ⟨hp, hr⟩ := (cacheOKsf_iff dt _).1 hc.1
      obtain ⟨hni, _⟩ := findSub_spec i _ n k hf
      obtain ⟨h1, _, _, _, _, h6⟩ := recRemove_spec dt n n' dp hn'
      have hi' : n'.idx = i := h1.trans hni
      have hloc := findSub_local dt i _ n k hp hr hf
      refine cacheOK_updatePath_some dt _ s' node ?_ ?_ ?_ hup
      · show (Store.setRec i (fun _ => n') s.forest).idxs.Nodup
        rw [idxs_setRec_const i n' hi']; exact hnd
      · exact POK_setRec_const dt i n' (h6 hNZ hdp hloc.1) _ hp
      · intro j hj
        have : j = i := Option.some.inj (hj.symm.trans hi)
        rw [this]
        exact ROKx_setRec_const dt i n' hi' _ hr

/-- **C06, `remove_data_point_from_outliers`**: no cached vector depends on the outliers -/
theorem cacheOK_rmOut (dt : Data) (s s' : Store) (dp : Nat) (hc : CacheOK dt s)
    (h : s.removeDataPointFromOutliers dp = some s') : CacheOK dt s' := by
  unfold Store.removeDataPointFromOutliers at h
  split at h
  · cases h
  · cases h; exact hc

end PhyModel.Store.C06
